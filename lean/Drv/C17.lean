import XmpModel.Control
/-! Native driver for the C17 correspondence: recomputes every control call and the
following frame's pre-`read_row` part from the dumped module description and pre-state.
Line protocol in harness/c17_control.c. -/
open Xmp.Control

def ints (ws : List String) : List Int := ws.map fun w => w.toInt?.getD 0

def chunk4 : List Int → List SeqInfo
  | a :: b :: c :: d :: rest => { entry := a, scanOrd := b, scanRow := c, scanNum := d } :: chunk4 rest
  | _ => []

def chunk5 : List Int → List OrdInfo
  | a :: b :: c :: d :: e :: rest => { speed := a, bpm := b, gvl := c, time := d, st26 := e } :: chunk5 rest
  | _ => []

def parseState (v : List Int) : St :=
  let g (i : Nat) : Int := v.getD i 0
  { playing := g 0 != 0, ord := g 1, pos := g 2, row := g 3, frame := g 4, speed := g 5, bpm := g 6,
    gvol := g 7, time := 0, loopCount := g 8, sequence := g 9, st26 := g 10,
    f := { pbreak := g 11, jump := g 12, delay := g 13, jumpline := g 14, loopDest := g 15,
           loopParam := g 16, loopStart := g 17, loopCount := g 18, loopActiveNum := g 19,
           jumpInPat := g 20, numRows := g 21, endPoint := g 22, rowdelay := g 23, rowdelaySet := g 24 },
    flags := g 25 }

def showState (s : St) : String :=
  let f := s.f
  let l : List Int := [if s.playing then 1 else 0, s.ord, s.pos, s.row, s.frame, s.speed, s.bpm, s.gvol,
    s.loopCount, s.sequence, s.st26, f.pbreak, f.jump, f.delay, f.jumpline, f.loopDest, f.loopParam,
    f.loopStart, f.loopCount, f.loopActiveNum, f.jumpInPat, f.numRows, f.endPoint, f.rowdelay, f.rowdelaySet, s.flags]
  " ".intercalate (l.map toString)

def showFrame (m : CMod) (r : FrameRes) : String :=
  let mid := match r.mid with
    | some s => s!" 1 {showState s} {s.time}"
    | none => " 0"
  let s := r.st
  let fi := frameInfo m s
  s!"frame {r.rc}{mid} k {s.ord} {s.pos} {s.row} {s.frame} {s.sequence} {s.loopCount} {s.f.numRows} {s.f.endPoint}" ++
  s!" fi {fi.pos} {fi.pattern} {fi.row} {fi.numRows} {fi.frame} {fi.loopCount} {fi.sequence}"

/-- result of a call: return value, post state, and (parameter calls only) whether the scan re-ran -/
def applyOp (m : CMod) (s : St) (op : String) (arg extra extra2 : Int) : Option (Int × St × Option Bool) :=
  let pos (r : Option (Int × St)) := r.map fun (a, b) => (a, b, none)
  let par (r : ParamRes) : Option (Int × St × Option Bool) := some (r.ret, r.st, some r.rescan)
  match op with
  | "set_position" => pos (xmpSetPosition m s arg)
  | "next_position" => pos (xmpNextPosition m s)
  | "prev_position" => pos (xmpPrevPosition m s)
  | "set_row" => pos (some (xmpSetRow m s arg))
  | "seek_time" => pos (xmpSeekTime m s arg)
  | "restart_module" => pos (some (0, xmpRestart s))
  | "stop_module" => pos (some (0, xmpStop s))
  | "start_player" => pos (some (0, xmpStartPlayer m s))
  | "set_flags" => par (xmpSetFlags s arg)
  | "set_cflags" => par (xmpSetCflags s arg extra)
  | "set_mode" => par (xmpSetMode s arg extra (extra2 != 0))
  | _ => pos (some (0, s))

/-- `op …` computes the call (prints ret / post / rescan), `frame` then renders the next frame with
the module description in force at that moment (a rescan may have replaced it in between). -/
partial def loop (h : IO.FS.Stream) (m : CMod) (pre : St) (post : Option St) : IO Unit := do
  let line ← h.getLine
  if line.isEmpty then return ()
  let ws := line.trimAscii.toString.splitOn " "
  match ws with
  | "mod" :: _ :: rest =>
    let v := ints rest
    let g (i : Nat) : Int := v.getD i 0
    loop h { len := g 0, pat := g 1, rst := g 2, marker := g 3 != 0, protrack := g 4 != 0, lpReset := g 5 != 0,
             numSeq := g 6, xxo := [], rows := [], ctl := [], seqs := [], info := [] } pre post
  | "xxo" :: rest => loop h { m with xxo := ints rest } pre post
  | "rows" :: rest => loop h { m with rows := ints rest } pre post
  | "ctl" :: rest => loop h { m with ctl := ints rest } pre post
  | "seq" :: rest => loop h { m with seqs := chunk4 (ints rest) } pre post
  | "info" :: rest => loop h { m with info := chunk5 (ints rest) } pre post
  | "pre" :: rest => loop h m (parseState (ints rest)) none
  | "op" :: name :: rest =>
    let a := ints rest
    match applyOp m pre name (a.getD 0 0) (a.getD 1 0) (a.getD 2 0) with
    | none =>
      IO.println "hang call"
      loop h m pre none
    | some (ret, st, rs) =>
      IO.println s!"ret {ret}"
      IO.println s!"post {showState st}"
      match rs with
      | some b => IO.println s!"rescan {if b then 1 else 0}"
      | none => pure ()
      loop h m pre (some st)
  | ["frame"] =>
    match post with
    | none => IO.println "hang frame"
    | some st =>
      match playFrame m st with
      | none => IO.println "hang frame"
      | some r => IO.println (showFrame m r)
    loop h m pre post
  | _ => loop h m pre post

def main : IO Unit := do
  loop (← IO.getStdin) { len := 0, pat := 0, xxo := [], rows := [], ctl := [], seqs := [], info := [] } {} none
