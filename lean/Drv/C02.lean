import XmpModel.IffWalk
import XmpModel.UmxWalk
/-! Native driver for the C02 correspondence (IFF chunk walker).  One case per line, one answer line each:

  iff <idSize> <flags> <clamp 0|1> <start> <handlers> <filehex>
      handlers: `-` or a comma list `<idhex>:<code>` in registration order (code 1 = the loader fails, others succeed)
  → `ret <0|-1|fuel> tests <loop tests> bound <(|file|-start)/(idSize+4)+1>` then per visited chunk
    ` T<pos>:<idhex>` [` L<size>` if a registered loader ran] [` S<seek target>` if the seek was reached]

  umx <file_version> <name_count> <name_offset> <idx> <filehex>      (read_typname of umx_load.c)
  → `ret <0|-1|fuel> iters <loop iterations> bound <(|file|-name_offset)/5+2> name <hex of the C string | ->`
-/
open Xmp Xmp.Work Xmp.Iff

def hexVal (c : Char) : Nat :=
  if c.isDigit then c.toNat - '0'.toNat else if c.toNat ≥ 'a'.toNat then c.toNat - 'a'.toNat + 10 else c.toNat - 'A'.toNat + 10

def parseHex (s : String) : Bytes :=
  if s == "-" then [] else
  let rec go (acc : Array UInt8) : List Char → Array UInt8
    | a :: b :: rest => go (acc.push (UInt8.ofNat (hexVal a * 16 + hexVal b))) rest
    | _ => acc
  (go #[] s.toList).toList

def hexDigit (n : Nat) : Char := if n < 10 then Char.ofNat (48 + n) else Char.ofNat (87 + n)

def toHex (b : Bytes) : String :=
  if b.isEmpty then "-" else
  String.ofList (b.foldr (fun x acc => hexDigit (x.toNat / 16) :: hexDigit (x.toNat % 16) :: acc) [])

def parseHandlers (s : String) : List Handler :=
  if s == "-" then [] else
  (s.splitOn ",").map fun e =>
    match e.splitOn ":" with
    | [i, c] => { id := parseHex i, ok := fun _ _ => c != "1" }
    | _ => { id := [], ok := fun _ _ => true }

def showVisit (v : Visit) : String :=
  s!" T{v.pos}:{toHex v.id}" ++ (if v.loaderCalled then s!" L{v.size}" else "") ++
    (match v.seek with | some t => s!" S{t}" | none => "")

def answer (line : String) : String :=
  match line.trimAscii.toString.splitOn " " with
  | ["iff", idSize, flags, clamp, start, hs, file] =>
    let c : Cfg := { idSize := idSize.toNat!, flags := flags.toNat!, clamp := clamp == "1" }
    let f := parseHex file
    let r := iffLoad c (parseHandlers hs) f start.toNat!
    let ret := match r.res with | none => "fuel" | some (true, _) => "0" | some (false, _) => "-1"
    let vs := match r.res with | none => [] | some (_, vs) => vs
    s!"ret {ret} tests {r.iters} bound {(f.length - start.toNat!) / (c.idSize + 4) + 1}" ++ String.join (vs.map showVisit)
  | ["umx", ver, nc, nofs, idx, file] =>
    let f := parseHex file
    let r := Xmp.Umx.readTypname f nc.toNat! nofs.toNat! (decide (ver.toNat! ≥ 64)) idx.toNat!
    let ret := match r.res with | none => "fuel" | some none => "-1" | some (some _) => "0"
    let name := match r.res with | some (some n) => toHex n | _ => "-"
    -- the C loop's iterations: the model's final step (the `strcpy` after the loop) is not one of them
    let its := match r.res with | some (some _) => r.iters - 1 | _ => r.iters
    s!"ret {ret} iters {its} bound {(f.length - nofs.toNat!) / 5 + 2} name {name}"
  | _ => "?"

partial def loop (h : IO.FS.Stream) (out : IO.FS.Stream) : IO Unit := do
  let line ← h.getLine
  if line.isEmpty then return ()
  out.putStrLn (answer line)
  loop h out

def main : IO Unit := do
  let stdin ← IO.getStdin
  let stdout ← IO.getStdout
  loop stdin stdout
