import XmpModel.Resource
import XmpModel.StartFail
/-! Native driver for the C04 correspondence: evaluates the model `Xmp.Resource` on the case lines
produced from the traces of harness/c04_faults.c (see tools/checks/c04.py for the line protocol).

  startcfg                                   -> soundness of the generated unwinding tables
  start <amiga> <extras> <maxvoc> <virtch> <playing> <k>
                                             -> rc=<neg|0> state=<n> nalloc=<n> live=<kind:count,...>
  start2 <amiga> <extras> <maxvoc> <virtch> <k> <k2>     (start failing at k, then start failing at k2 on the residue)
                                             -> same
  release <state> <kind:count,...>           -> freed=<kind:count,...> twice=<n> missed=<n> nonnull_after=<n> state=<n>
  temp <mkstempOk> <fdopenOk> <execOk> <k>   -> rc=<neg|0> tmp=<n> fds=<n> live=<n> bad=<n>
  stream <entry> <valid> <hasClose> <sizeOk> <k> <reopens: m|f|M|F ...>
                                             -> opened=<0|1> caller=<n> owned=<n> temp=<n> cb=<n> live=<n> bad=<n> fds=<n>
  rescan <vblankCmp> <valid> <shrink> <k>    -> n=<allocator calls> owned=<live blocks p->scan refers to> other=<n> bad=<n>
  rescanmode <vblNew> <shrinkNew> <vblOld> <shrinkOld> <k>   xmp_set_player(XMP_PLAYER_MODE)
                                             -> rc n owned other mode=<old|new> bad
  closefail <entry> <j> <reopens: m|f ...>   -> opened fcloses caller live bad fds   (the j-th fclose reports an error)
  smix <scenario> <k>                        -> rc nalloc xxi xxs chn ins subs datas live lost fds bad   (smix.c calls)
  idle                                       -> vfr=<b> and, per failure site, whether the idle members are NULL/0 afterwards
  fcase <id> <amiga> <extras> <maxvoc> <virtch> <k> <rate> <fmt>     (a failed xmp_start_player, member level)
  pre <ctor> v0 v1 ...   complete context image before the call (harness/c06_image.h)
  ext patrows r0 r1 ... | ext scan0num n
  fend                                       -> begin <id> <site> <second> / model <ctor> v0 v1 ... (`?` = external) / done
-/
open Xmp Xmp.Resource

def kindOrder : List (Kind × String) :=
  [(.mixBuffer, "mixBuffer"), (.mixBuf32, "mixBuf32"), (.voiceArray, "voiceArray"), (.paula, "paula"),
   (.virtChannel, "virtChannel"), (.flowLoop, "flowLoop"), (.xcData, "xcData"), (.chanExtra, "chanExtra"),
   (.xxt, "xxt"), (.track, "track"), (.xxp, "xxp"), (.pattern, "pattern"), (.xxi, "xxi"), (.sub, "sub"),
   (.insExtra, "insExtra"), (.xxs, "xxs"), (.smpData, "smpData"), (.xtra, "xtra"), (.midi, "midi"),
   (.scanCnt, "scanCnt"), (.scanRow, "scanRow"), (.scan, "scan"), (.comment, "comment"),
   (.dirname, "dirname"), (.basename, "basename"), (.modExtra, "modExtra"), (.modExtraTab, "modExtraTab"),
   (.modExtraEnt, "modExtraEnt"), (.smixXxi, "smixXxi"), (.smixXxs, "smixXxs"), (.smixSub, "smixSub"),
   (.smixData, "smixData")]

def countsStr (l : List Tok) : String :=
  let parts := kindOrder.filterMap fun (k, n) =>
    let c := (l.filter (·.kind = k)).length
    if c = 0 then none else some s!"{n}:{c}"
  if parts.isEmpty then "-" else ",".intercalate parts

def parseCounts (s : String) : List (String × Nat) :=
  if s == "-" then [] else
  (s.splitOn ",").filterMap fun kv =>
    match kv.splitOn ":" with
    | [k, v] => some (k, v.toNat?.getD 0)
    | _ => none

def getC (cs : List (String × Nat)) (k : String) : Nat := ((cs.find? (·.1 == k)).map (·.2)).getD 0

def oracleOf (k : Int) : List Bool := if k < 0 then [] else List.replicate k.toNat true ++ [false]

def rcStr (r : Int) : String := if r < 0 then "neg" else if r = 0 then "0" else "pos"

def somes (k : Kind) (n : Nat) : List (Option Tok) := (List.range n).map fun i => some ⟨k, i⟩

def mkTable (k ek : Kind) (cs : List (String × Nat)) (kn ekn : String) : Table :=
  { ptr := if getC cs kn > 0 then some ⟨k, 0⟩ else none, entries := somes ek (getC cs ekn) }

def moduleOf (cs : List (String × Nat)) : Module :=
  let tabs := getC cs "modExtraTab"
  let ents := getC cs "modExtraEnt"
  let extra : ModExtra :=
    if getC cs "modExtra" = 0 then .none
    else if tabs = 0 ∧ ents = 0 then .flat ⟨.modExtra, 0⟩
    else .med ⟨.modExtra, 0⟩
      { ptr := if tabs ≥ 1 then some ⟨.modExtraTab, 0⟩ else none, entries := somes .modExtraEnt ents }
      { ptr := if tabs ≥ 2 then some ⟨.modExtraTab, 1⟩ else none, entries := [] }
  let one := fun (k : Kind) (n : String) => if getC cs n > 0 then some (Tok.mk k 0) else none
  { xxt := mkTable .xxt .track cs "xxt" "track",
    xxp := mkTable .xxp .pattern cs "xxp" "pattern",
    xxi := one .xxi "xxi",
    subs := somes .sub (getC cs "sub"),
    insExtras := somes .insExtra (getC cs "insExtra"),
    xxs := mkTable .xxs .smpData cs "xxs" "smpData",
    xtra := one .xtra "xtra", midi := one .midi "midi",
    scanCnt := mkTable .scanCnt .scanRow cs "scanCnt" "scanRow",
    scan := one .scan "scan", comment := one .comment "comment",
    dirname := one .dirname "dirname", basename := one .basename "basename",
    extra := extra }

def nonNull (m : Module) : Nat :=
  [m.xxt.ptr, m.xxp.ptr, m.xxi, m.xxs.ptr, m.xtra, m.midi, m.scanCnt.ptr, m.scan, m.comment, m.dirname,
   m.basename].filter Option.isSome |>.length |> (· + (if m.extra = .none then 0 else 1))

def countStream (w : World) (s : Stream) : Nat := (w.closed.filter (· = s)).length

def b01 (s : String) : Bool := s != "0"

def handle (ws : List String) : String :=
  match ws with
  | ["startcfg"] =>
    let bad := allSites.filter fun s => !startCfgNow.soundAt s
    let names := if bad.isEmpty then "-" else ",".intercalate (bad.map Site.name)
    s!"sound={startCfgNow.Sound} unsound_sites={names} tempsound={tempCfgNow.Sound}"
  | ["start", amiga, extras, maxvoc, virtch, playing, k] =>
    let pp : StartParams := { amiga := b01 amiga, extras := b01 extras, maxvoc := maxvoc.toNat?.getD 0,
                              virtch := virtch.toNat?.getD 0 }
    let c0 : Ctx := { state := .loaded }
    let (c1, w1) :=
      if b01 playing then
        let r := startPlayer startCfgNow pp true c0 {}
        (r.2.1, r.2.2)
      else (c0, ({} : World))
    let w1 := { w1 with oracle := oracleOf (k.toInt?.getD (-1)), nalloc := 0 }
    let r := startPlayer startCfgNow pp true c1 w1
    -- blocks still live: when playing before, the old blocks were released by xmp_end_player inside the call
    let live := r.2.2.live
    s!"rc={rcStr r.1} state={r.2.1.state.toNat} nalloc={r.2.2.nalloc} live={countsStr live} bad={r.2.2.bad}"
  | ["start2", amiga, extras, maxvoc, virtch, k, k2] =>
    -- a faulted start on the residue of a failed start
    let pp : StartParams := { amiga := b01 amiga, extras := b01 extras, maxvoc := maxvoc.toNat?.getD 0,
                              virtch := virtch.toNat?.getD 0 }
    let r1 := startPlayer startCfgNow pp true { state := .loaded } { oracle := oracleOf (k.toInt?.getD (-1)) }
    let w1 := { r1.2.2 with oracle := oracleOf (k2.toInt?.getD (-1)), nalloc := 0 }
    let r := startPlayer startCfgNow pp true r1.2.1 w1
    s!"rc={rcStr r.1} state={r.2.1.state.toNat} nalloc={r.2.2.nalloc} live={countsStr r.2.2.live} bad={r.2.2.bad}"
  | "closefail" :: entry :: j :: reopens =>
    -- path/FILE load or test where the j-th fclose of an owned FILE reports an error
    let e : Entry := match entry with | "path" => .path | "mem" => .mem | "file" => .file | _ => .cb
    let jn := j.toNat?.getD 1000
    let ro := reopens.filterMap fun s =>
      match s with | "m" => some true | "f" => some false | _ => none
    -- fclose events on owned streams in program order: one per reopen step (the old stream), then the final hio_close
    let steps := (List.range ro.length).zip ro |>.map fun (i, toMem) => (toMem, true, e != .file && i == jn)
    let r := streamLifeR Gen.StartCfg.reopenIgnoresCloseResult e {} true steps {}
    let w := r.2
    let owned := countStream w .ownedFile + countStream w .tempFile
    s!"opened={if r.1 then 1 else 0} fcloses={owned} caller={countStream w .callerFile} live={w.live.length} bad={w.bad} fds={w.openFds}"
  | ["rescan", vbl, valid, shrink, k] =>
    let w0 : World := { live := [⟨.scan, 0⟩], oracle := oracleOf (k.toInt?.getD (-1)) }
    let r := scanSequences (b01 vbl) (b01 valid) (b01 shrink) (some ⟨.scan, 0⟩) w0
    let owned := match r.2.1 with | some t => (r.2.2.live.filter (· = t)).length | none => 0
    s!"n={r.2.2.nalloc} owned={owned} other={r.2.2.live.length - owned} bad={r.2.2.bad}"
  | ["rescanmode", vblNew, shrinkNew, vblOld, shrinkOld, k] =>
    -- xmp_set_player(XMP_PLAYER_MODE): rescan under the new mode, on failure restore + rescan under the old one
    let w0 : World := { live := [⟨.scan, 0⟩], oracle := oracleOf (k.toInt?.getD (-1)) }
    let r := setPlayerMode { vblankCmp := b01 vblNew, shrink := b01 shrinkNew } { vblankCmp := b01 vblOld, shrink := b01 shrinkOld }
      0 1 (some ⟨.scan, 0⟩) w0
    let w := r.2.2.2.2
    let owned := match r.2.2.2.1 with | some t => (w.live.filter (· = t)).length | none => 0
    s!"rc={rcStr r.1} n={w.nalloc} owned={owned} other={w.live.length - owned} mode={if r.2.1 = 0 then "old" else "new"} bad={w.bad}"
  | ["smix", scn, k] =>
    -- a sound-effect mixer call after its prelude (see harness/c04_faults.c `smixfaults`)
    let rel := Gen.StartCfg.smixLoadReleasesOld
    let started := startSmix .loaded true 1 2 {} {}
    let loaded := smixLoadSample 0 true true .ok rel started.2.1 started.2.2
    let (st, s0, w0) : State × Smix × World :=
      match scn with
      | "start" | "startinval" => (.loaded, {}, {})
      | "restart" | "reload" | "end" => (.loaded, loaded.2.1, loaded.2.2)
      | "startplaying" | "endplaying" => (.playing, loaded.2.1, loaded.2.2)
      | _ => (.loaded, started.2.1, started.2.2)
    let w0 := { w0 with oracle := oracleOf (k.toInt?.getD (-1)) }
    let r : Int × Smix × World :=
      match scn with
      | "start" | "restart" | "startplaying" => startSmix st true 2 3 s0 w0
      | "startinval" => startSmix st false 65 3 s0 w0
      | "load" | "reload" => smixLoadSample 0 true true .ok rel s0 w0
      | "loadhdr" => smixLoadSample 0 true true .headerBad rel s0 w0
      | "loadshort" => smixLoadSample 0 true true .dataShort rel s0 w0
      | "loadrange" => smixLoadSample 5 true true .ok rel s0 w0
      | _ => let e := endSmix st s0 w0; (0, e.1, e.2)
    let s := r.2.1
    let w := r.2.2
    let owned := w.live.filter (· ∈ s.toks)
    let lost := (w.live.filter (· ∉ s.toks)).length
    let nn := fun (l : List (Option Tok)) => (l.filter Option.isSome).length
    s!"rc={rcStr r.1} nalloc={w.nalloc - w0.nalloc} xxi={if s.xxi.isSome then 1 else 0} xxs={if s.xxs.isSome then 1 else 0} chn={s.chn} ins={s.ins} subs={nn s.subs} datas={nn s.datas} live={countsStr owned} lost={lost} fds={(w.openFds : Int) - w0.openFds} bad={w.bad}"
  | ["release", st, owned] =>
    let cs := parseCounts owned
    let m := moduleOf cs
    let c : MCtx := { state := if st == "2" then .playing else if st == "1" then .loaded else .unloaded, module := m }
    let w0 : World := { live := m.toks }
    let r := releaseModule c w0
    let freed := w0.live.filter fun t => t ∉ r.2.live
    s!"freed={countsStr freed} twice={r.2.bad} missed={r.2.live.length} nonnull_after={nonNull r.1.module} state={r.1.state.toNat}"
  | ["temp", mk, fd, ex, k] =>
    let sys : HelperSys := { mkstempOk := b01 mk, fdopenOk := b01 fd, execOk := b01 ex }
    let w0 : World := { oracle := oracleOf (k.toInt?.getD (-1)) }
    let r := pathOpWithHelper tempCfgNow sys 0 w0
    s!"rc={rcStr r.1} tmp={r.2.tempFiles} fds={r.2.openFds} live={r.2.live.length} bad={r.2.bad}"
  | "stream" :: entry :: valid :: hasClose :: sizeOk :: k :: reopens =>
    let e : Entry := match entry with | "path" => .path | "mem" => .mem | "file" => .file | _ => .cb
    let cb : Callbacks := { valid := b01 valid, hasClose := b01 hasClose, sizeOk := b01 sizeOk }
    let ro := reopens.filterMap fun s =>
      match s with | "m" => some (true, true) | "M" => some (true, false) | "f" => some (false, true)
                   | "F" => some (false, false) | _ => none
    let w0 : World := { oracle := oracleOf (k.toInt?.getD (-1)) }
    let r := streamLife e cb (b01 sizeOk) ro w0
    let w := r.2
    s!"opened={if r.1 then 1 else 0} caller={countStream w .callerFile} owned={countStream w .ownedFile} temp={countStream w .tempFile} cb={countStream w .callback} live={w.live.length} bad={w.bad} fds={w.openFds}"
  | _ => "?"

/-! ### member-level image of a failed start (XmpModel.StartFail on C06's context model) -/
open Xmp.Gen.CtxFields in
section
open Xmp.Reset Xmp.StartFail

/-- marks externally determined values -/
def unk : Int := 4611686018427400000

structure FCase where
  id : String := ""
  pp : StartParams := {}
  k : Nat := 0
  rate : Int := 0
  fmt : Int := 0
  pre : Array (Array Int) := Array.replicate 200 #[]
  patrows : Array Int := #[]
  scan0num : Int := 0
  active : Bool := false

def fieldByName (n : String) : Option Field := Field.all.find? (fun f => f.name == n)

def FCase.ctx (c : FCase) : Reset.Ctx := fun f i =>
  let a := c.pre.getD f.idx #[]
  if a.size == 0 then 0 else if a.size == 1 then a[0]! else a.getD i 0

def FCase.ext (c : FCase) : Ext where
  names := fun _ => cst unk
  loader := fun _ _ => some (cst unk)
  quirks := fun _ _ => cst unk
  scan := fun _ _ => cst unk
  start := fun r f i =>
    match f with
    | .p_flow_num_rows => c.patrows.getD (r .m_mod_xxo i).toNat 0
    | .p_flow_end_point => c.scan0num
    | _ => unk
  frameTime := fun _ _ _ => unk

def showVal (v : Int) : String := if v == unk then "?" else toString v

def siteName : Site → String := Site.name

def emitF (c : FCase) : IO Unit := do
  match siteOf c.pp c.k with
  | none => IO.println s!"begin {c.id} none 0"; IO.println "done"
  | some (site, second) =>
    IO.println s!"begin {c.id} {site.name} {if second then 1 else 0}"
    let s := failedStart startCfgNow c.ext c.rate c.fmt site second vfrNow c.ctx
    for f in Field.all do
      let n := if f.kind == .ptr then 1 else f.count
      let vals := (List.range n).map (fun i => showVal (s f i))
      IO.println s!"model {f.name} {" ".intercalate vals}"
    IO.println "done"

end

partial def loop (h : IO.FS.Stream) (c : FCase) : IO Unit := do
  let line ← h.getLine
  if line.isEmpty then return ()
  let ws := (line.trimAscii.toString.splitOn " ").filter (· ≠ "")
  match ws with
  | ["fcase", id, amiga, extras, maxvoc, virtch, k, rate, fmt] =>
    loop h { id := id, pp := { amiga := b01 amiga, extras := b01 extras, maxvoc := maxvoc.toNat?.getD 0,
                               virtch := virtch.toNat?.getD 0 },
             k := k.toNat?.getD 0, rate := rate.toInt?.getD 0, fmt := fmt.toInt?.getD 0, active := true }
  | "pre" :: name :: vals =>
    if !c.active then loop h c else
    match fieldByName name with
    | some f => loop h { c with pre := c.pre.set! f.idx (vals.map (fun v => v.toInt?.getD 0)).toArray }
    | none => loop h c
  | "ext" :: "patrows" :: vals => loop h { c with patrows := (vals.map (fun v => v.toInt?.getD 0)).toArray }
  | ["ext", "scan0num", v] => loop h { c with scan0num := v.toInt?.getD 0 }
  | ["fend"] =>
    if c.active then emitF c
    loop h {}
  | ["idle"] =>
    let parts := allSites.map fun s => s!"{s.name}:{Xmp.StartFail.idleAfter startCfgNow s Xmp.StartFail.vfrNow}"
    IO.println s!"vfr={Xmp.StartFail.vfrNow} idle={",".intercalate parts}"
    loop h c
  | [] => loop h c
  | _ =>
    IO.println (handle ws)
    loop h c

def main : IO Unit := do loop (← IO.getStdin) {}
