import XmpModel.Resource
/-! Native driver for the C04 correspondence: evaluates the model `Xmp.Resource` on the case lines
produced from the traces of harness/c04_faults.c (see tools/checks/c04.py for the line protocol).

  startcfg                                   -> soundness of the generated unwinding tables
  start <amiga> <extras> <maxvoc> <virtch> <playing> <k>
                                             -> rc=<neg|0> state=<n> nalloc=<n> live=<kind:count,...>
  release <state> <kind:count,...>           -> freed=<kind:count,...> twice=<n> missed=<n> nonnull_after=<n> state=<n>
  temp <mkstempOk> <fdopenOk> <execOk> <k>   -> rc=<neg|0> tmp=<n> fds=<n> live=<n> bad=<n>
  stream <entry> <valid> <hasClose> <sizeOk> <k> <reopens: m|f|M|F ...>
                                             -> opened=<0|1> caller=<n> owned=<n> temp=<n> cb=<n> live=<n> bad=<n> fds=<n>
-/
open Xmp Xmp.Resource

def kindOrder : List (Kind × String) :=
  [(.mixBuffer, "mixBuffer"), (.mixBuf32, "mixBuf32"), (.voiceArray, "voiceArray"), (.paula, "paula"),
   (.virtChannel, "virtChannel"), (.flowLoop, "flowLoop"), (.xcData, "xcData"), (.chanExtra, "chanExtra"),
   (.xxt, "xxt"), (.track, "track"), (.xxp, "xxp"), (.pattern, "pattern"), (.xxi, "xxi"), (.sub, "sub"),
   (.insExtra, "insExtra"), (.xxs, "xxs"), (.smpData, "smpData"), (.xtra, "xtra"), (.midi, "midi"),
   (.scanCnt, "scanCnt"), (.scanRow, "scanRow"), (.scan, "scan"), (.comment, "comment"),
   (.dirname, "dirname"), (.basename, "basename"), (.modExtra, "modExtra"), (.modExtraTab, "modExtraTab"),
   (.modExtraEnt, "modExtraEnt")]

def countsStr (l : List Tok) : String :=
  let parts := kindOrder.filterMap fun (k, n) =>
    let c := (l.filter (·.kind = k)).length
    if c = 0 then none else some s!"{n}:{c}"
  if parts.isEmpty then "-" else ",".intercalate parts

def parseCounts (s : String) : List (String × Nat) :=
  if s == "-" then [] else
  (s.splitOn ",").filterMap fun kv =>
    match kv.splitOn ":" with
    | [k, v] => some (k, v.toNat?.getD 0)
    | _ => none

def getC (cs : List (String × Nat)) (k : String) : Nat := ((cs.find? (·.1 == k)).map (·.2)).getD 0

def oracleOf (k : Int) : List Bool := if k < 0 then [] else List.replicate k.toNat true ++ [false]

def rcStr (r : Int) : String := if r < 0 then "neg" else if r = 0 then "0" else "pos"

def somes (k : Kind) (n : Nat) : List (Option Tok) := (List.range n).map fun i => some ⟨k, i⟩

def mkTable (k ek : Kind) (cs : List (String × Nat)) (kn ekn : String) : Table :=
  { ptr := if getC cs kn > 0 then some ⟨k, 0⟩ else none, entries := somes ek (getC cs ekn) }

def moduleOf (cs : List (String × Nat)) : Module :=
  let tabs := getC cs "modExtraTab"
  let ents := getC cs "modExtraEnt"
  let extra : ModExtra :=
    if getC cs "modExtra" = 0 then .none
    else if tabs = 0 ∧ ents = 0 then .flat ⟨.modExtra, 0⟩
    else .med ⟨.modExtra, 0⟩
      { ptr := if tabs ≥ 1 then some ⟨.modExtraTab, 0⟩ else none, entries := somes .modExtraEnt ents }
      { ptr := if tabs ≥ 2 then some ⟨.modExtraTab, 1⟩ else none, entries := [] }
  let one := fun (k : Kind) (n : String) => if getC cs n > 0 then some (Tok.mk k 0) else none
  { xxt := mkTable .xxt .track cs "xxt" "track",
    xxp := mkTable .xxp .pattern cs "xxp" "pattern",
    xxi := one .xxi "xxi",
    subs := somes .sub (getC cs "sub"),
    insExtras := somes .insExtra (getC cs "insExtra"),
    xxs := mkTable .xxs .smpData cs "xxs" "smpData",
    xtra := one .xtra "xtra", midi := one .midi "midi",
    scanCnt := mkTable .scanCnt .scanRow cs "scanCnt" "scanRow",
    scan := one .scan "scan", comment := one .comment "comment",
    dirname := one .dirname "dirname", basename := one .basename "basename",
    extra := extra }

def nonNull (m : Module) : Nat :=
  [m.xxt.ptr, m.xxp.ptr, m.xxi, m.xxs.ptr, m.xtra, m.midi, m.scanCnt.ptr, m.scan, m.comment, m.dirname,
   m.basename].filter Option.isSome |>.length |> (· + (if m.extra = .none then 0 else 1))

def countStream (w : World) (s : Stream) : Nat := (w.closed.filter (· = s)).length

def b01 (s : String) : Bool := s != "0"

def handle (ws : List String) : String :=
  match ws with
  | ["startcfg"] =>
    let bad := allSites.filter fun s => !startCfgNow.soundAt s
    let names := if bad.isEmpty then "-" else ",".intercalate (bad.map Site.name)
    s!"sound={startCfgNow.Sound} unsound_sites={names} tempsound={tempCfgNow.Sound}"
  | ["start", amiga, extras, maxvoc, virtch, playing, k] =>
    let pp : StartParams := { amiga := b01 amiga, extras := b01 extras, maxvoc := maxvoc.toNat?.getD 0,
                              virtch := virtch.toNat?.getD 0 }
    let c0 : Ctx := { state := .loaded }
    let (c1, w1) :=
      if b01 playing then
        let r := startPlayer startCfgNow pp true c0 {}
        (r.2.1, r.2.2)
      else (c0, ({} : World))
    let w1 := { w1 with oracle := oracleOf (k.toInt?.getD (-1)), nalloc := 0 }
    let r := startPlayer startCfgNow pp true c1 w1
    -- blocks still live: when playing before, the old blocks were released by xmp_end_player inside the call
    let live := r.2.2.live
    s!"rc={rcStr r.1} state={r.2.1.state.toNat} nalloc={r.2.2.nalloc} live={countsStr live} bad={r.2.2.bad}"
  | ["release", st, owned] =>
    let cs := parseCounts owned
    let m := moduleOf cs
    let c : MCtx := { state := if st == "2" then .playing else if st == "1" then .loaded else .unloaded, module := m }
    let w0 : World := { live := m.toks }
    let r := releaseModule c w0
    let freed := w0.live.filter fun t => t ∉ r.2.live
    s!"freed={countsStr freed} twice={r.2.bad} missed={r.2.live.length} nonnull_after={nonNull r.1.module} state={r.1.state.toNat}"
  | ["temp", mk, fd, ex, k] =>
    let sys : HelperSys := { mkstempOk := b01 mk, fdopenOk := b01 fd, execOk := b01 ex }
    let w0 : World := { oracle := oracleOf (k.toInt?.getD (-1)) }
    let r := pathOpWithHelper tempCfgNow sys 0 w0
    s!"rc={rcStr r.1} tmp={r.2.tempFiles} fds={r.2.openFds} live={r.2.live.length} bad={r.2.bad}"
  | "stream" :: entry :: valid :: hasClose :: sizeOk :: k :: reopens =>
    let e : Entry := match entry with | "path" => .path | "mem" => .mem | "file" => .file | _ => .cb
    let cb : Callbacks := { valid := b01 valid, hasClose := b01 hasClose, sizeOk := b01 sizeOk }
    let ro := reopens.filterMap fun s =>
      match s with | "m" => some (true, true) | "M" => some (true, false) | "f" => some (false, true)
                   | "F" => some (false, false) | _ => none
    let w0 : World := { oracle := oracleOf (k.toInt?.getD (-1)) }
    let r := streamLife e cb (b01 sizeOk) ro w0
    let w := r.2
    s!"opened={if r.1 then 1 else 0} caller={countStream w .callerFile} owned={countStream w .ownedFile} temp={countStream w .tempFile} cb={countStream w .callback} live={w.live.length} bad={w.bad} fds={w.openFds}"
  | _ => "?"

partial def loop (h : IO.FS.Stream) : IO Unit := do
  let line ← h.getLine
  if line.isEmpty then return ()
  let ws := (line.trimAscii.toString.splitOn " ").filter (· ≠ "")
  if !ws.isEmpty then IO.println (handle ws)
  loop h

def main : IO Unit := do loop (← IO.getStdin)
