import XmpModel.FmtMod
import XmpModel.FmtS3m
import XmpModel.FmtXm
import XmpModel.FmtIt
/-! Native driver for C19.  Line protocol (stdin → stdout):

* `gen <fmt> <id> <seed> <size>` : builds a random well-formed abstract song and writer
  options from the seed, prints `begin id`, `opts …`, `hex <file bytes>` (Lean `write`),
  `rt ok|differ|none` (does `read (write s o)` give back `s`), the expected dump of the
  abstract song, `end`.
* `read <fmt> <id> <hex>` : runs the Lean loader model on the bytes; prints `begin id`,
  `silent` or the dump, `end`.
* `p2n` : `periodToNote p` for p = 0..4095.

The dump format is the one of harness/c19_roundtrip.c. -/
open Xmp Xmp.Fmt

/-! ### hex -/
def hexVal (c : Char) : Nat :=
  if c.isDigit then c.toNat - '0'.toNat
  else if c.toNat ≥ 'a'.toNat then c.toNat - 'a'.toNat + 10 else c.toNat - 'A'.toNat + 10

def parseHex (s : String) : Bytes :=
  if s == "-" then [] else
  let rec go (cs : List Char) (acc : Array UInt8) : Array UInt8 :=
    match cs with
    | a :: b :: rest => go rest (acc.push (UInt8.ofNat (hexVal a * 16 + hexVal b)))
    | _ => acc
  (go s.toList #[]).toList

def hexDigit (n : Nat) : Char := if n < 10 then Char.ofNat (48 + n) else Char.ofNat (87 + n)

def toHex (b : Bytes) : String :=
  if b.isEmpty then "-" else
  b.foldl (fun (s : String) x => (s.push (hexDigit (x.toNat / 16))).push (hexDigit (x.toNat % 16))) ""

/-! ### dump -/
def dumpModule (m : Module) : List String :=
  let counts := s!"counts {m.chn} {m.pats.length} {m.orders.length} {m.ins.length} {m.smps.length} {m.spd} {m.bpm}"
  let pats := m.pats.zipIdx.map fun (p, i) =>
    s!"pat {i} {p.rows} {toHex (p.cells.flatMap fun c => [u8 c.note, u8 c.ins, u8 c.vol])}"
  let ins := m.ins.zipIdx.flatMap fun (x, i) =>
    let km := if x.keymap.all (· == 0) then "-" else toHex (x.keymap.map u8)
    s!"ins {i} {x.subs.length} {toHex x.name} {km}" ::
      x.subs.zipIdx.map fun (s, j) => s!"sub {i} {j} {s.sid} {s.vol} {s.pan} {s.xpo} {s.fin}"
  let smps := m.smps.zipIdx.map fun (s, i) =>
    let pcm := if s.pcm.isEmpty ∧ s.len > 0 then "null" else toHex s.pcm
    s!"smp {i} {s.len} {s.lps} {s.lpe} {s.flg} {s.sus} {s.sue} {toHex s.name} {pcm}"
  [s!"name {toHex m.name}", counts, s!"ord {toHex m.orders}"] ++ pats ++ ins ++ smps

/-! ### PRNG (xorshift64*) and generators -/
abbrev G := StateM UInt64

def next : G UInt64 := do
  let x ← get
  let x := x ^^^ (x >>> 12)
  let x := x ^^^ (x <<< 25)
  let x := x ^^^ (x >>> 27)
  set x
  return x * 0x2545F4914F6CDD1D

def below (n : Nat) : G Nat := do
  let x ← next
  return (x >>> 16).toNat % (if n = 0 then 1 else n)

def range (lo hi : Nat) : G Nat := do return lo + (← below (hi - lo + 1))
def chance (pct : Nat) : G Bool := do return (← below 100) < pct

def listOf {α : Type} (n : Nat) (g : G α) : G (List α) := do
  let mut acc : Array α := #[]
  for _ in [0:n] do acc := acc.push (← g)
  return acc.toList

def genBytes (n : Nat) : G Bytes := listOf n (do return u8 (← below 256))

/-- printable name of at most `n` bytes without trailing blank -/
def genName (n : Nat) : G Bytes := do
  let k ← if (← chance 20) then pure 0 else if (← chance 30) then pure n else below (n + 1)
  let b ← listOf k (do return u8 (← range 32 126))
  return stripTrail b

def hashFx (seed : UInt64) (i : Nat) : UInt8 × UInt8 :=
  let x := (seed + (UInt64.ofNat i) * 0x9E3779B97F4A7C15)
  let x := x ^^^ (x >>> 29)
  let x := x * 0xBF58476D1CE4E5B9
  let x := x ^^^ (x >>> 32)
  (UInt8.ofNat (x.toNat % 256), UInt8.ofNat ((x >>> 8).toNat % 256))

/-- PCM that does not start with the ModPlug "ADPCM" tag -/
def genPcm (n : Nat) : G Bytes := do
  let style ← below 6
  let k ← range 1 16
  let b ← match style with
    | 0 => genBytes n
    | 1 => pure ((List.range n).map fun i => u8 (i * 7))
    | 2 => listOf n (do return if (← chance 50) then 0x7f else 0x80)
    | 3 => listOf n (do return u8 ((← below 32) + 240))
    | 4 => pure (List.replicate n 0)                                  -- silence
    | _ => do return (← genBytes (min k n)) ++ List.replicate (n - min k n) 0   -- short burst, silent tail
  return if b.take 5 = Mod.adpcmTag then (0 : UInt8) :: b.drop 1 else b

/-- cheap deterministic PCM that differs per sample (`seed`) and per offset, including offsets that differ by
64 KiB or 1 MiB (so data fetched from a wrong file position is visible) -/
def bigPcm (seed n : Nat) : Bytes :=
  (List.range n).map fun k => u8 (k * 37 + k / 256 * 11 + k / 65536 * 7 + seed * 101 + 13)

/-- boundary-biased choice: with `pct` % one of the listed boundary values that lie in `[lo, hi]`, otherwise uniform.
Every numeric header field is drawn this way: off-by-one errors of the loaders' range checks live at these values. -/
def pickB (bs : List Nat) (lo hi : Nat) (pct : Nat := 35) : G Nat := do
  let inb := bs.filter fun b => lo ≤ b ∧ b ≤ hi
  if inb.isEmpty ∨ !(← chance pct) then range lo hi else return inb.getD (← below inb.length) lo

/-- speed / tempo bytes, volume-like bytes, 32-bit sample rates -/
def spdSet : List Nat := [1, 2, 31, 32, 125, 254, 255]
def byteSet : List Nat := [0, 1, 63, 64, 127, 128, 255]
def rateSet : List Nat := [0, 1, 8362, 8363, 8364, 65535, 65536, 0x7fffffff, 0x80000000, 0xffffffff]

/-- a rate per sample: extremes for a third of the samples -/
def rateOf (seed : UInt64) (i : Nat) : Nat :=
  let h := (hashFx seed (i + 1000)).1.toNat
  let g := (hashFx seed (i + 1500)).2.toNat
  if h % 3 = 0 then rateSet.getD (g % rateSet.length) 8363 else 4000 + g * 173

/-- size classes: 0..2 ordinary; 9 = the format's maximum counts (patterns, orders, instruments, samples, rows) with tiny contents; 3 = long IT-compressed samples (several blocks); 5 = sample data beyond 64 KiB;
6 = sample data beyond 1 MiB; 7, 8 = XM regression witnesses -/
def baseSize (size : Nat) : Nat := if size ≥ 3 then 0 else size

namespace GenMod
open Mod

def genCell (nz : Nat) (amiga : Bool := false) : G Cell := do
  if !(← chance nz) then return {}
  -- `amiga`: only the three octaves of the Amiga trackers (periods 856..113)
  let note ← if (← chance 70) then (if amiga then range (noteBase + 12) (noteBase + 47) else range noteBase (noteBase + 59)) else pure 0
  let ins ← if (← chance 70) then range 0 31 else pure 0
  return { note := note, ins := ins, vol := 0 }

def genSmp (i : Nat) (maxLen : Nat) : G (Ins × Smp) := do
  let name ← genName 22
  let empty ← chance 35
  if empty then
    return ({ name := name, subs := [] }, { name := [], len := 0, lps := 0, lpe := 0, flg := 0, pcm := [] })
  let half ← if (← chance 15) then range 1 3 else range 1 (maxLen / 2)
  let len := 2 * half
  let vol ← pickB [0, 1, 63, 64] 0 64 50
  let fin ← pickB [0, 7, 8, 15] 0 15
  let sub : Sub := { sid := i, vol := vol, pan := 0x80, xpo := 0, fin := if fin ≥ 8 then (fin : Int) * 16 - 256 else fin * 16 }
  let pcm ← genPcm len
  let looped ← chance 50
  if looped ∧ half ≥ 2 then
    let a ← range 0 (half - 2)
    let b ← range (a + 2) half
    -- the loop-position corners: from 0 over the whole sample, from 0 over two words, from 0 ending before the end,
    -- from the middle to the end
    let corner ← below 8
    let (a, b) := match corner with
      | 0 => (0, half) | 1 => (0, 2) | 2 => (0, if half ≥ 3 then max 2 (b - 1 - (b - 1) / half) else b) | 3 => (a, half) | _ => (a, b)
    let b := if b < a + 2 then a + 2 else if b > half then half else b
    return ({ name := name, subs := [sub] }, { name := [], len := len, lps := 2 * a, lpe := 2 * b, flg := FLOOP, pcm := pcm })
  return ({ name := name, subs := [sub] }, { name := [], len := len, lps := 0, lpe := 0, flg := 0, pcm := pcm })

def gen (special : Nat) : G (Module × Opts × String) := do
  let size := baseSize special
  let kind ← below 4
  let chn ← if kind < 2 then pure 4 else if (← chance 50) then range 1 9 else range 1 32
  let mx := special = 9
  let kind := if special = 4 then kind % 2 else kind
  let chn := if special = 4 then 4 else chn
  let chn := if mx ∧ kind ≥ 2 then 1 + chn % 4 else chn
  let npat ← if (← chance 10) then range 1 128 else range 1 (2 + size)
  let npat := if size = 0 then min npat 3 else npat
  let npat := if mx then 128 else npat          -- the format's maximum: value 127 in the order table
  let len ← if (← chance 10) then pure 128 else pickB [1, 2, 127, 128] 1 (min 128 (4 + 8 * size)) 20
  let len := if mx then 128 else len
  let ords ← listOf len (below npat)
  let pos ← below len
  let ords := (ords.take pos ++ [npat - 1] ++ ords.drop (pos + 1)).map u8
  let nz ← if mx then range 1 4 else range 5 90
  let pats ← listOf npat (do return { rows := 64, cells := (← listOf (64 * chn) (genCell nz (special = 4))) })
  let maxLen := if size = 0 then 64 else if size = 1 then 600 else 5000
  let allEmpty ← chance 8
  -- class 4: the header conventions by which the loader recognises a Protracker module (M.K. / M!K!, 4 channels, restart
  -- byte 0x7f, no instrument with repeat length 0 -- here: all 31 samples present and looped --, notes inside the three
  -- Amiga octaves): the fingerprint selects per-tracker sample handling (full-repeat loops from offset 0)
  let ptk := special = 4
  let allEmpty := allEmpty && !ptk
  let mut ins : Array Ins := #[]
  let mut smps : Array Smp := #[]
  for i in [0:31] do
    let (x, s) ← genSmp i (if allEmpty then 0 else maxLen)
    let plen ← range 2 20
    let pc ← below 4
    let pa ← range 0 (plen - 2)
    let pb ← range (pa + 2) plen
    let (la, lb) := match pc with | 0 => (0, plen) | 1 => (0, 2) | 2 => (0, max 2 (plen - 1)) | _ => (pa, if (pa + pb) % 2 = 0 then plen else pb)
    let ppcm ← genPcm (2 * plen)
    let (x, s) := if ptk then
        ({ x with subs := [{ sid := i, vol := 64 - i, pan := 0x80, xpo := 0, fin := 0 }] },
         ({ name := [], len := 2 * plen, lps := 2 * la, lpe := 2 * lb, flg := FLOOP, pcm := ppcm } : Smp))
      else (x, s)
    let (x, s) := if allEmpty then ({ x with subs := [] }, { s with len := 0, lps := 0, lpe := 0, flg := 0, pcm := [] }) else (x, s)
    ins := ins.push x
    smps := smps.push s
  let name ← genName 20
  let restart ← if (← chance 50) then pure 0x7f else pickB [0, 1, 0x78, 0x7e, 0x80, 0xff] 0 255 50
  let restart := if special = 4 then 0x7f else restart
  let fxseed ← next
  -- big files: one (64 KiB class) or nine (1 MiB class) maximal samples first, small ones behind them
  if special = 5 ∨ special = 6 then
    let nbig := if special = 6 then 9 else 1
    for j in [0:nbig + 3] do
      let n := if j < nbig then 131070 else 64 + 2 * j
      ins := ins.set! j { name := (ins[j]!).name, subs := [{ sid := j, vol := 64, pan := 0x80, xpo := 0, fin := 0 }] }
      smps := smps.set! j { name := [], len := n, lps := 0, lpe := 0, flg := 0, pcm := bigPcm (fxseed.toNat % 1000 + j) n }
  let fxOn ← chance 80
  let m : Module := { name := name, chn := chn, orders := ords, pats := pats, ins := ins.toList,
                      smps := smps.toList, spd := 6, bpm := 125 }
  let o : Opts := { kind := kind, restart := u8 restart, fx := if fxOn then hashFx fxseed else fun _ => (0, 0) }
  return (m, o, s!"special={special} kind={kind} chn={chn} pat={npat} len={len} restart={restart} fx={fxOn} allempty={allEmpty} magic={toHex (magicFor kind chn)}")

end GenMod


/-- low-entropy PCM of `n` bytes: silence, a constant, a short burst with a silent tail, silence with rare small spikes
(what trackers really store at the end of most samples; compresses to about one bit per sample) -/
def genQuietPcm (n : Nat) : G Bytes := do
  match (← below 4) with
  | 0 => pure (List.replicate n 0)
  | 1 => let c ← below 256; pure (List.replicate n (u8 c))
  | 2 => let k ← range 1 16; let b ← genBytes (min k n); pure (b ++ List.replicate (n - min k n) 0)
  | _ => listOf n (do
      let spike ← chance 3
      let v ← below 3
      return if spike then u8 (v + 255) else 0)

/-- shared: random PCM of `n` bytes in several shapes -/
def genRawPcm (n : Nat) : G Bytes := do
  match (← below 6) with
  | 0 => genBytes n
  | 1 => pure ((List.range n).map fun i => u8 (i * 5 + 3))
  | 2 => listOf n (do return if (← chance 50) then 0x7f else 0x80)
  | 3 => listOf n (do return u8 ((← below 16) + 248))
  | _ => genQuietPcm n

/-- shared: loop points for a sample of `len` frames: `(lps, lpe)` with `lps < lpe ≤ len` -/
def genLoop (len : Nat) : G (Nat × Nat) := do
  if (← chance 25) then return (0, len)
  let a ← range 0 (len - 1)
  let b ← range (a + 1) len
  return (a, b)

def hashNat (seed : UInt64) (i : Nat) : Nat := (hashFx seed i).1.toNat


namespace GenS3m
open S3m

def genCell (nz : Nat) : G Cell := do
  if !(← chance nz) then return {}
  let note ← match (← below 10) with
    | 0 => pure KEY_OFF
    | 1 | 2 | 3 => pure 0
    | _ => range 13 108
  let ins ← if (← chance 70) then range 0 99 else if (← chance 20) then range 100 255 else pure 0
  let vol ← if (← chance 50) then range 1 65 else pure 0
  return { note := note, ins := ins, vol := vol }

def genSlot (i maxLen : Nat) : G (Ins × Smp) := do
  let name ← genName 28
  if (← chance 30) then
    return ({ name := name, subs := [] }, { name := [], len := 0, lps := 0, lpe := 0, flg := 0, pcm := [] })
  let flg0 := (if (← chance 40) then F16BIT else 0) + (if (← chance 30) then FSTEREO else 0)
  let len ← if (← chance 15) then range 1 4 else pickB [1, 2, 3, 255, 256, 257] 1 maxLen 15
  let vol ← pickB [0, 1, 63, 64] 0 64
  let looped ← chance 50
  let (lps, lpe) ← if looped then genLoop len else pure (0, 0)
  let flg := flg0 + (if looped then FLOOP else 0)
  let pcm ← genRawPcm (len * frameBytes flg)
  return ({ name := name, subs := [{ sid := i, vol := vol, pan := 0x80, xpo := 0, fin := 0 }] },
          { name := [], len := len, lps := lps, lpe := lpe, flg := flg, pcm := pcm })

def bigSlots (special seed : Nat) (slots : List (Ins × Smp)) : List (Ins × Smp) :=
  slots.zipIdx.map fun ((x, m), j) =>
    if j > 3 then (x, m) else
    let (flg, len) : Nat × Nat :=
      if j = 0 then (if special = 5 then (0, 70000) else if seed % 2 = 0 then (0, 1048576) else (F16BIT, 540000))
      else if j = 1 then (0, 50) else if j = 2 then (F16BIT, 40) else (FSTEREO, 30)
    ({ name := x.name, subs := [{ sid := j, vol := 33 + j, pan := 0x80, xpo := 0, fin := 0 }] },
     { name := [], len := len, lps := 0, lpe := 0, flg := flg, pcm := bigPcm (seed + j) (len * frameBytes flg) })

def gen (special : Nat) : G (Module × Opts × String) := do
  let size := baseSize special
  let mx := special = 9
  let chn ← if (← chance 60) then pickB [1, 2, 8] 1 8 20 else pickB [1, 16, 31, 32] 1 32
  let chn := if mx then 1 + chn % 3 else chn
  let npat ← if (← chance 5) then range 1 100 else range 1 (2 + size)
  let npat := if size = 0 then min npat 3 else npat
  -- the maxima: 100, 200 or 254 stored patterns (254 = the largest pattern number an order entry can name)
  let pk1 ← below 3
  let npat := if mx then [100, 200, 254].getD pk1 254 else npat
  -- 16-bit pattern parapointers: the pattern area must end below 1 MiB (worst case 6 bytes per cell)
  let npat := min npat (1040000 / (64 * (6 * chn + 1) + 18))
  let len ← pickB [1, 2, 254, 255] 1 (min 255 (4 + 10 * size)) 15
  let len := if mx then 255 else len
  let ords ← listOf len (do
    if (← chance 12) then return (if (← chance 50) then 0xfe else 0xff) else below npat)
  let pos ← below len
  let ords := (ords.take pos ++ [npat - 1] ++ ords.drop (pos + 1)).map u8
  let ords := if S3m.playable ords then ords else u8 (npat - 1) :: ords.drop 1
  -- sometimes an order entry beyond the stored patterns (plays as an empty position)
  let beyond ← chance 15
  let bq ← below len
  let bv ← range npat 0xfd
  let ords2 := ords.take bq ++ [u8 bv] ++ ords.drop (bq + 1)
  let ords := if beyond ∧ npat < 0xfd ∧ ords2.any (fun x => x.toNat < npat) then ords2 else ords
  -- the scan from order 0 must reach a stored pattern before an end marker
  let ords := if S3m.startsValid npat ords then ords else u8 (npat - 1) :: ords.drop 1
  let nz ← if mx then range 0 3 else range 3 95
  let emptyPat ← below (npat + 3)
  let pats ← (List.range npat).mapM fun k => do
    let cells ← listOf (64 * chn) (genCell (if k = emptyPat then 0 else nz))
    return ({ rows := 64, cells := cells } : Pat)
  let nins ← if (← chance 10) then range 0 1 else range 1 (3 + 4 * size)
  let maxLen := if mx then 6 else if size = 0 then 40 else if size = 1 then 400 else 3000
  let nins := if special = 5 ∨ special = 6 then max nins 5 else nins
  let pk2 ← below 3
  let nins := if mx then [99, 100, 255].getD pk2 255 else nins
  let slots ← (List.range nins).mapM fun i => genSlot i maxLen
  let bseed ← below 1000
  let slots := if special = 5 ∨ special = 6 then bigSlots special bseed slots else slots
  let name ← genName 28
  let spd ← pickB spdSet 1 255
  let bpm ← pickB [20, 21, 31, 32, 33, 125, 254, 255] 20 255
  let ffi ← range 1 2
  let panOn ← chance 50
  let pan ← genBytes 32
  let fseed ← next
  let xseed ← next
  let cseed ← next
  let forceMode ← below 3
  let nullEmpty ← chance 50
  let cwt ← match (← below 4) with
    | 0 => pure 0x1320 | 1 => pure 0x1300 | 2 => pure 0x3217 | _ => pure 0x5130
  let m : Module := { name := name, chn := chn, orders := ords, pats := pats, ins := slots.map (·.1),
                      smps := slots.map (·.2), spd := spd, bpm := bpm }
  let o : Opts := { ffi := ffi, cwt := cwt, flags := (← pickB byteSet 0 255), gv := u8 (← pickB byteSet 0 255), mv := u8 (← pickB ([2, 0x12, 0x10, 0x80] ++ byteSet) 0 255),
                    pan := if panOn then some (pan.zipIdx.map fun (b, k) => if k % 3 = 0 then u8 (byteSet.getD (b.toNat % 7) 0) else if k % 3 = 1 then u8 (0x20 + b.toNat % 16) else b) else none,
                    chset := fun k => u8 (hashNat cseed k % 16 + (if hashNat cseed (k + 100) % 2 = 0 then 0 else 0x80) % 255),
                    c2spd := rateOf cseed,
                    nullEmpty := nullEmpty,
                    force := fun i => if forceMode = 0 then 0 else if forceMode = 1 then hashNat fseed i % 8
                                      else (if hashNat fseed i % 4 = 0 then hashNat fseed (i + 7) % 8 else 0),
                    fx := hashFx xseed }
  return (m, o, s!"special={special} chn={chn} pat={npat} len={len} ins={nins} ffi={ffi} pan={panOn} nullEmpty={nullEmpty} force={forceMode} cwt={cwt}")

end GenS3m


namespace GenXm
open Xm

def genCell (nz : Nat) : G Cell := do
  if !(← chance nz) then return {}
  let ins ← if (← chance 65) then range 1 128 else if (← chance 10) then range 129 255 else pure 0
  let note ← match (← below 10) with
    | 0 => pure (if ins = 0 then KEY_OFF else KEY_FADE)
    | 1 | 2 | 3 => pure 0
    | _ => range 13 108
  let vol ← if (← chance 50) then range 1 65 else pure 0
  return { note := note, ins := ins, vol := vol }

def genSmp (maxLen : Nat) : G Smp := do
  let name ← genName 22
  if (← chance 12) then
    return { name := name, len := 0, lps := 0, lpe := 0, flg := 0, pcm := [] }
  let flg0 := (if (← chance 45) then F16BIT else 0) + (if (← chance 25) then FSTEREO else 0)
  let len ← if (← chance 15) then range 1 5 else pickB [1, 2, 3, 7, 8, 9, 255, 256, 257] 1 maxLen 15
  let lt ← below 4
  let (lps, lpe) ← if lt ≥ 2 then genLoop len else pure (0, 0)
  let flg := flg0 + (if lt = 2 then FLOOP else if lt = 3 then FLOOP + FBIDIR else 0)
  let pcm ← genRawPcm (len * frameBytes flg)
  let pcm := if ((storePcm flg len pcm).drop 4).take 4 = str "OggS" then pcm.map (fun _ => 0) else pcm
  return { name := name, len := len, lps := lps, lpe := lpe, flg := flg, pcm := pcm }

/-- header size for an instrument with samples: the FT2 size 263, other full sizes (≥ 241: 241, 243, … with
`size - 241` skipped bytes), or a stripped header (33..240, no key map) -/
def genInsSize : G Nat := do
  match (← below 20) with
  | 0 | 1 | 2 | 3 | 4 | 5 | 6 | 7 | 8 | 9 => pure 263
  | 10 => pure 241
  | 11 => pure 243
  | 12 | 13 => range 241 263
  | 14 | 15 => range 264 420
  | 16 => pure 339                        -- size field starts with 'S' (0x53)
  | 17 => pure 33
  | _ => range 33 240

/-- `size` = the header size this instrument gets if it has samples (a stripped header has no key map) -/
def genIns (sid maxLen size : Nat) : G (Ins × List Smp) := do
  let name ← genName 22
  if (← chance 30) then return ({ name := name, subs := [] }, [])
  let nsm ← if (← chance 60) then pure 1 else if (← chance 85) then range 2 4 else pickB [15, 16] 5 16 50
  let smps ← listOf nsm (genSmp maxLen)
  let subs ← (List.range nsm).mapM fun j => do
    let vol ← pickB [0, 1, 63, 64] 0 64
    let pan ← pickB byteSet 0 255
    let xpo ← pickB [0, 1, 127, 128, 129, 255] 0 255
    let fin ← pickB [0, 1, 127, 128, 129, 255] 0 255
    return ({ sid := sid + j, vol := vol, pan := pan, xpo := (xpo : Int) - 128, fin := (fin : Int) - 128 } : Sub)
  let km ← listOf 96 (below nsm)
  let km := if size < 241 then km.map (fun _ => 0) else km
  return ({ name := name, subs := subs, keymap := List.replicate 12 0 ++ km ++ List.replicate 13 0 }, smps)

/-- Instruments whose file image has "OggS" at offset 4 of a short sample body (4..7 stored bytes) although no sample
holds it in its own bytes: the tag straddles into the next sample body (variants 0..3: the short sample ends with the
first `k` letters, the next one starts with the rest) or into the size field of the next instrument header
(variant 4: "Ogg" + size 339 = 53 01 00 00; variant 5: "Og" + size 0x5367).  `is_ogg_sample` must not take these
for OXM Vorbis samples.  Returns instruments with their header sizes, and the samples. -/
def genOggTrap (sid : Nat) : G (List (Ins × Nat) × List Smp × Nat) := do
  let variant ← below 6
  let rnd ← genBytes 4
  let tailRnd ← genBytes (← below 3)
  let ogg : Bytes := str "OggS"
  let mk8 (name : String) (stored : Bytes) : Smp :=
    { name := str name, len := stored.length, lps := 0, lpe := 0, flg := 0, pcm := deltaDec false stored }
  let sub (k : Nat) : Sub := { sid := sid + k, vol := 64, pan := 128, xpo := 0, fin := 0 }
  let km := List.replicate 121 0
  if variant < 4 then
    let a := mk8 "short" (rnd ++ ogg.take variant)
    let b := mk8 "next" (ogg.drop variant ++ tailRnd)
    return ([({ name := str "OGGTRAP", subs := [sub 0, sub 1], keymap := km }, 263)], [a, b], variant)
  else
    let k := if variant = 4 then 3 else 2
    let a := mk8 "last" (rnd ++ ogg.take k)
    let b := mk8 "after" ((1 : UInt8) :: tailRnd)
    return ([({ name := str "OGGTRAP", subs := [sub 0], keymap := km }, 263),
             ({ name := str "OGGNEXT", subs := [sub 1], keymap := km }, if variant = 4 then 339 else 0x5367)], [a, b], variant)

def gen (witness : Nat) : G (Module × Opts × String) := do
  let size := baseSize witness
  let mx := witness = 9
  let chn ← if (← chance 60) then pickB [1, 2, 8] 1 8 20 else pickB [1, 31, 32] 1 32
  let chn ← if mx then range 1 3 else if (← chance 4) then pure 64 else pure chn
  let npat ← if (← chance 5) then range 1 64 else range 1 (2 + size)
  let npat := if size = 0 then min npat 3 else npat
  let npat := if mx then 256 else npat           -- the format's maximum
  let len ← pickB [1, 2, 255, 256] 1 (min 256 (4 + 10 * size)) 15
  let len := if mx then 256 else len
  let ords ← listOf len (do return u8 (← below npat))
  let opos ← below len
  let ords := if mx then ords.take opos ++ [u8 (npat - 1)] ++ ords.drop (opos + 1) else ords
  let nz ← range 3 95
  let emptyPat ← below (npat + 3)
  let pats ← (List.range npat).mapM fun k => do
    let rows ← match (← below 6) with
      | 0 => range 1 4
      | 1 => pure 64
      | 2 => if chn ≤ 40 then pickB [255, 256] 255 256 90 else pure 128
      | _ => range 1 (if size = 0 then 32 else 128)
    let rows := if mx then (if k = 7 then 256 else 1 + k % 2) else rows
    let rows := min rows (65535 / (6 * chn))
    let cells ← listOf (rows * chn) (genCell (if k = emptyPat then 0 else nz))
    return ({ rows := rows, cells := cells } : Pat)
  let nins ← if (← chance 10) then range 0 1 else range 1 (3 + 4 * size)
  let pk3 ← below 3
  let nins := if mx then [127, 128, 255].getD pk3 128 else nins
  let maxLen := if mx then 5 else if size = 0 then 40 else if size = 1 then 400 else 3000
  let mut ins : Array Ins := #[]
  let mut smps : Array Smp := #[]
  let mut sizes : Array Nat := #[]
  let bigSeed ← below 1000
  if witness = 5 ∨ witness = 6 then
    -- big files: a long first sample pushes every later sample beyond 64 KiB / 1 MiB
    let (flg, len) : Nat × Nat := if witness = 5 then (0, 70000) else if bigSeed % 2 = 0 then (0, 1048576) else (F16BIT, 540000)
    ins := ins.push { name := str "BIG", subs := [{ sid := 0, vol := 64, pan := 128, xpo := 0, fin := 0 }], keymap := List.replicate 121 0 }
    smps := smps.push { name := str "big", len := len, lps := 0, lpe := 0, flg := flg, pcm := bigPcm bigSeed (len * frameBytes flg) }
    sizes := sizes.push (if bigSeed % 3 = 0 then 263 else 241 + bigSeed % 100)
  for _ in [0:nins] do
    let size ← genInsSize
    let (x, ms) ← genIns smps.size maxLen size
    -- maxima class: most instruments without samples (the sample total stays small)
    let (x, ms) := if mx ∧ smps.size > 40 then ({ x with subs := [], keymap := [] }, []) else (x, ms)
    ins := ins.push x
    sizes := sizes.push size
    smps := smps ++ ms.toArray
  -- the formerly excluded region: "OggS" straddling a short sample and what follows it
  let mut trap := "-"
  if witness < 3 ∧ (← chance 18) then
    let (xs, ms, v) ← genOggTrap smps.size
    for (x, size) in xs do
      ins := ins.push x
      sizes := sizes.push size
    smps := smps ++ ms.toArray
    trap := toString v
  let name ← genName 20
  let spd ← pickB [1, 2, 30, 31] 1 31
  let bpm ← if (← chance 85) then pickB [32, 33, 125, 254, 255] 32 255 else pickB [256, 999, 1000] 256 1000
  let xseed ← next
  let vseed ← next
  let mseed ← next
  let oseed ← next
  let modeKind ← below 4
  let emptyZero ← chance 50
  let eis ← match (← below 5) with | 0 => pure 29 | 1 => pure 33 | 2 => pure 263 | 3 => range 30 40 | _ => range 29 300
  -- song header size: the order table stored is `hsz - 20` bytes, at least the song length
  let hsz ← match (← below 5) with | 0 | 1 => pure 276 | 2 => pure (20 + len) | 3 => pure (max (20 + len) 275) | _ => range (20 + len) 276
  -- regression witnesses of two repaired end-of-file defects of the loader (size classes 7 and 8):
  -- a final sample-less instrument with the plain 29-byte header and a name; a final sample of 5 bytes
  if witness = 7 then
    ins := ins.push { name := str "LAST", subs := [] }
  if witness = 8 then
    ins := ins.push { name := str "TAIL", subs := [{ sid := smps.size, vol := 64, pan := 128, xpo := 0, fin := 0 }],
                      keymap := List.replicate 121 0 }
    smps := smps.push { name := str "five", len := 5, lps := 0, lpe := 0, flg := 0, pcm := [1, 2, 3, 4, 5] }
  let eis := if witness = 7 then 29 else eis
  if witness = 5 ∨ witness = 6 then
    for j in [0:3] do
      let flg := if j = 0 then 0 else if j = 1 then F16BIT else FSTEREO
      ins := ins.push { name := str "AFTER", subs := [{ sid := smps.size, vol := 40 + j, pan := 128, xpo := 0, fin := 0 }],
                        keymap := List.replicate 121 0 }
      smps := smps.push { name := str "after", len := 60 + j, lps := 0, lpe := 0, flg := flg, pcm := bigPcm (bigSeed + 1 + j) ((60 + j) * frameBytes flg) }
  let nins := ins.size
  let trk ← match (← below 3) with
    | 0 => pure (str "FastTracker v2.00   ") | 1 => pure (str "OpenMPT 1.31.07.00  ") | _ => genName 20
  let trk := if trk.take 6 = str "MED2XM" ∨ trk.isEmpty then str "x" else trk
  let m : Module := { name := name, chn := chn, orders := ords, pats := pats, ins := ins.toList,
                      smps := smps.toList, spd := spd, bpm := bpm }
  -- instruments appended above (witnesses) get full-size headers with a few skipped bytes
  let sizeList := sizes.toList
  let insSize : Nat → Nat := fun i => if i < sizeList.length then sizeList.getD i 263 else 263 + i % 7
  let o : Opts := { hsz := hsz, insSize := insSize, tracker := trk, restart := (← pickB [0, 1, 255, 256, 65535] 0 65535 60), flags := (← pickB [0, 1, 2, 65535] 0 65535 80), emptyZero := emptyZero, emptyInsSize := eis,
                    fx := fun i => let (a, b) := hashFx xseed i; (u8 (a.toNat % 40), b),
                    volfx := fun i => if hashNat vseed i % 3 = 0 then 0 else u8 (hashNat vseed (i + 1)),
                    mode := fun i => match modeKind with
                      | 0 => 0 | 1 => 32 | 2 => hashNat mseed i % 33 | _ => 31,
                    filler := fun i => u8 (hashNat oseed i) }
  let usedSizes := (m.ins.zipIdx.filter fun (x, _) => !x.subs.isEmpty).map fun (_, i) => insSize i
  return (m, o, s!"special={witness} chn={chn} pat={npat} len={len} ins={nins} smp={smps.size} mode={modeKind} emptyZero={emptyZero} emptyIns={eis} hsz={hsz} insSizes={",".intercalate (usedSizes.map toString)} oggtrap={trap}")

end GenXm


namespace GenIt
open It

def genCell (nz : Nat) (palette : List Cell) : G Cell := do
  if !(← chance nz) then return {}
  -- repeated values exercise the "same as last" compression
  if (← chance 35) then return palette.getD (← below palette.length) {}
  let note ← match (← below 12) with
    | 0 => pure KEY_OFF | 1 => pure KEY_CUT | 2 => pure KEY_FADE
    | 3 | 4 | 5 => pure 0
    | _ => range 1 120
  let ins ← if (← chance 70) then range 1 99 else if (← chance 15) then range 100 255 else pure 0
  let vol ← if (← chance 50) then range 1 65 else pure 0
  return { note := note, ins := ins, vol := vol }

def genSlot (i maxLen : Nat) : G (Ins × Smp) := do
  let name ← genName 25
  if (← chance 25) then
    return ({ name := name, subs := [] }, { name := [], len := 0, lps := 0, lpe := 0, flg := 0, pcm := [] })
  let flg0 := (if (← chance 45) then F16BIT else 0) + (if (← chance 25) then FSTEREO else 0)
  let len ← if (← chance 15) then range 2 5 else pickB [2, 3, 255, 256, 257] 2 maxLen 15
  let vol ← pickB [0, 1, 63, 64] 0 64
  let pan ← pickB [0, 1, 32, 63, 64] 0 64
  let lt ← below 4
  let (lps, lpe) ← if lt ≥ 2 then genLoop len else pure (0, 0)
  let st ← below 4
  let (sus, sue) ← if st ≥ 2 then genLoop len else pure (0, 0)
  let flg := flg0 + (if lt = 2 then FLOOP else if lt = 3 then FLOOP + FBIDIR else 0) +
             (if st = 2 then FSLOOP else if st = 3 then FSLOOP + FSBIDIR else 0)
  let pcm ← genRawPcm (len * frameBytes flg)
  return ({ name := name, subs := [{ sid := i, vol := vol, pan := (pan * 4 : Nat), xpo := 0, fin := 0 }] },
          { name := [], len := len, lps := lps, lpe := lpe, flg := flg, sus := sus, sue := sue, pcm := pcm })

def bigSlots (special seed : Nat) (slots : List (Ins × Smp)) : List (Ins × Smp) :=
  slots.zipIdx.map fun ((x, m), j) =>
    if j > 3 then (x, m) else
    let (flg, len) : Nat × Nat :=
      if special = 3 then
        (if j = 0 then (F16BIT, 0x4000 + 300) else if j = 1 then (0, 0x8000 + 100) else if j = 2 then (F16BIT + FSTEREO, 0x4000 + 50)
         else (0, 700))
      else if j = 0 then (if special = 5 then (0, 70000) else if seed % 2 = 0 then (0, 1048576) else (F16BIT, 540000))
      else if j = 1 then (0, 50) else if j = 2 then (F16BIT, 40) else (FSTEREO, 30)
    ({ name := x.name, subs := [{ sid := j, vol := 33 + j, pan := (4 * j : Nat), xpo := 0, fin := 0 }] },
     { name := [], len := len, lps := 0, lpe := 0, flg := flg, pcm := bigPcm (seed + j) (len * frameBytes flg) })

/-- instrument-mode instrument: key table generated in the order the loader numbers the sub-instruments
(a key is off, reuses one of the `t` sub-instruments met so far, or introduces the next one with a fresh sample) -/
def genKeys (nsmp : Nat) (offRate maxSubs : Nat) : G (List Nat × List (Option Nat)) := do
  let mut sids : Array Nat := #[]
  let mut keys : Array (Option Nat) := #[]
  let lim := min (min nsmp 120) maxSubs
  for _ in [0:120] do
    if (← chance offRate) ∨ lim = 0 then
      keys := keys.push none
    else
      let t := sids.size
      let idx ← if t < lim then below (t + 1) else below t
      if idx = t then
        -- fresh sample id
        let free := (List.range (min nsmp 120)).filter fun c => !(sids.toList.contains c)
        let c := free.getD (← below free.length) 0
        sids := sids.push c
      keys := keys.push (some idx)
  return (sids.toList, keys.toList)

def gen (special : Nat) : G (Module × Opts × String) := do
  let size := baseSize special
  let mx := special = 9
  let chn ← if (← chance 60) then pickB [1, 2, 8] 1 8 20 else pickB [1, 63, 64] 1 64
  let chn ← if mx then range 1 3 else pure chn
  let npat ← if (← chance 5) then range 1 60 else range 1 (2 + size)
  let npat := if size = 0 then min npat 3 else npat
  let pk4 ← below 2
  let npat := if mx then [199, 200].getD pk4 200 else npat      -- the format's maximum
  let len ← pickB [1, 2, 255, 256] 1 (min 256 (4 + 10 * size)) 15
  let len := if mx then 256 else len
  let ords ← listOf len (do
    if (← chance 12) then return (if (← chance 50) then 0xfe else 0xff) else below npat)
  let ords := ords.map u8
  let first ← below npat
  let ords := if S3m.playable ords then ords else u8 first :: ords.drop 1
  -- sometimes an order entry beyond the stored patterns (plays as an empty position)
  let beyond ← chance 15
  let bq ← below len
  let bv ← range npat 0xfd
  let ords2 := ords.take bq ++ [u8 bv] ++ ords.drop (bq + 1)
  let ords := if beyond ∧ ords2.any (fun x => x.toNat < npat) then ords2 else ords
  let ords := if S3m.startsValid npat ords then ords else u8 first :: ords.drop 1
  let nz ← range 3 95
  let palette ← listOf 4 (genCell 100 [])
  let emptyPat ← below (npat + 3)
  let pats ← (List.range npat).mapM fun k => do
    let rows ← match (← below 5) with
      | 0 => range 1 4 | 1 => pure 64 | 2 => pickB [199, 200] 199 200 90
      | _ => range 1 (if size = 0 then 32 else 128)
    let rows := if mx then (if k = 5 then 200 else 1 + k % 2) else rows
    let rows := if chn > 16 then min rows 64 else rows
    let cells ← listOf (rows * chn) (genCell (if k = emptyPat then 0 else nz) palette)
    return ({ rows := rows, cells := cells } : Pat)
  let nsmp ← if (← chance 10) then range 0 1 else range 1 (3 + 4 * size)
  let maxLen := if mx then 5 else if size = 0 then 40 else if size = 1 then 400 else 3000
  let isSpecial := special = 3 ∨ special = 5 ∨ special = 6
  let nsmp := if isSpecial then max nsmp 5 else nsmp
  let nsmp := if special = 4 then max nsmp 2 else nsmp
  let pk5 ← below 3
  let nsmp := if mx then [99, 100, 255].getD pk5 99 else nsmp
  let slots ← (List.range nsmp).mapM fun i => genSlot i maxLen
  let bseed ← below 1000
  let slots := if isSpecial then bigSlots special bseed slots else slots
  -- class 4: a highly compressible sample through the IT 2.14 / 2.15 compressed path, stored last in the file
  -- (8 / 16 bit, mono / stereo, one or two blocks): the compressed stream is about one bit per sample
  let quiet := special = 4
  let qflg := (if (← chance 60) then F16BIT else 0) + (if (← chance 40) then FSTEREO else 0)
  let qblk := if qflg &&& F16BIT ≠ 0 then 0x4000 else 0x8000
  let qlen ← if (← chance 12) then range (qblk + 50) (qblk + 400) else if (← chance 20) then range 2 70 else range 70 2500
  let qpcm ← genQuietPcm (if quiet then qlen * frameBytes qflg else 0)
  let qname ← genName 25
  let slots := if quiet then
      slots.take (nsmp - 1) ++ [({ name := qname, subs := [{ sid := nsmp - 1, vol := 48, pan := (128 : Nat), xpo := 0, fin := 0 }] },
                                 { name := [], len := qlen, lps := 0, lpe := 0, flg := qflg, pcm := qpcm })]
    else slots
  let wseed ← next
  let wmode ← below 4
  let compRate ← below 3
  let name ← genName 25
  let spd ← pickB spdSet 1 255
  let bpm ← pickB [32, 33, 125, 254, 255] 32 255
  let sseed ← next
  let cseed ← next
  let xseed ← next
  let lastMode ← below 3
  let fxOn ← chance 70
  let nullEmpty ← chance 50
  -- instrument mode: 0 = sample mode, 1 = new instrument headers, 2 = old instrument headers
  let imode ← if isSpecial then pure 0 else match (← below 5) with | 0 | 1 => pure 1 | 2 => pure 2 | _ => pure 0
  let imode ← if mx then range 0 2 else pure imode
  let isNew := imode = 1
  let iseed ← next
  let edge (h : Nat) (bs : List Nat) (m : Nat) : Nat := if h % 3 = 0 then bs.getD (h / 3 % bs.length) 0 else h % m
  let smpVol : Nat → Nat := fun i => edge (hashNat iseed (i + 300)) [0, 1, 63, 64] 65
  let smpPan : Nat → Option Nat := fun i => if hashNat iseed (i + 600) % 3 = 0 then some (edge (hashNat iseed (i + 700)) [0, 1, 32, 63, 64] 65) else none
  let insPan : Nat → Option Nat := fun i => if hashNat iseed (i + 800) % 2 = 0 then some (edge (hashNat iseed (i + 900)) [0, 1, 32, 64, 127] 128) else none
  let nins ← range 0 (3 + 2 * size)
  let pk6 ← below 3
  let nins := if mx then [99, 100, 255].getD pk6 99 else nins
  let mut inss : Array Ins := #[]
  let mut offTab : Array (List Bool) := #[]
  for i in [0:(if imode = 0 then 0 else nins)] do
    let iname ← genName 25
    let offRate ← match (← below 6) with | 0 => pure 0 | 1 => pure 100 | 2 => pure 60 | _ => pure 15
    let maxSubs ← if (← chance 50) then range 1 3 else range 1 12
    let (sids, keys) ← genKeys nsmp offRate maxSubs
    let noSmp := if isNew then 0xff else 0
    let o0 : Opts := { smpPan := smpPan, insPan := insPan }
    inss := inss.push { name := iname,
                        subs := sids.map fun sid => { sid := sid, vol := smpVol sid, pan := subPan o0 isNew i sid, xpo := 0, fin := 0 },
                        keymap := keys.map (fun k => k.getD noSmp) ++ [0] }
    offTab := offTab.push (keys.map fun k => k.isNone)
  let snames ← (List.range nsmp).mapM fun _ => genName 25
  let m : Module :=
    if imode = 0 then { name := name, chn := chn, orders := ords, pats := pats, ins := slots.map (·.1),
                        smps := slots.map (·.2), spd := spd, bpm := bpm }
    else { name := name, chn := chn, orders := ords, pats := pats, ins := inss.toList,
           smps := (slots.map (·.2)).zipIdx.map (fun (m, i) => { m with name := snames.getD i [] }), spd := spd, bpm := bpm }
  let cmA ← chance 50
  let cmwtSel : Nat := if imode = 2 then (if cmA then 0x0100 else 0x01ff) else if cmA then 0x0214 else 0x0200
  let histSel ← below 4
  let hist : Option Nat := if isSpecial then none else match histSel with | 0 => some 0 | 1 => some (hashNat iseed 77 % 40) | _ => none
  let midiSel ← if isSpecial then pure 0 else if (← chance 25) then range 1 3 else pure 0
  let o : Opts := { insMode := imode ≠ 0, smpVol := smpVol, smpPan := smpPan, insPan := insPan, history := hist, midi := midiSel,
                    keyOff := fun i j => ((offTab.toList.getD i []).getD j false),
                    keyNote := fun i j => u8 (hashNat iseed (i * 131 + j + 2000)),
                    envNodes := fun i => hashNat iseed (i + 3000) % 25,
                    filler := fun k => u8 (hashNat iseed (k + 5000)),
                    cwt := (if (← chance 50) then 0x0214 else 0x0888),
                    cmwt := cmwtSel,
                    flags := (← pickB byteSet 0 255), gv := u8 (← pickB byteSet 0 128), mv := u8 (← pickB byteSet 0 255),
                    signed := fun i => hashNat sseed i % 2 = 0,
                    comp := fun i =>
                      if special = 3 then [2, 1, 2, 2].getD i (hashNat wseed (i + 40) % 3)
                      else if special = 5 ∨ special = 6 then (if i = 0 then 0 else hashNat wseed (i + 40) % 3)
                      else if quiet ∧ i = nsmp - 1 then 1 + hashNat wseed (i + 40) % 2
                      else if compRate = 0 then 0 else if compRate = 1 then hashNat wseed (i + 40) % 3
                      else 1 + hashNat wseed (i + 40) % 2,
                    wsel := fun i pos =>
                      let h := hashNat wseed (i * 100003 + pos)
                      if (quiet ∧ i = nsmp - 1) ∨ wmode = 3 then (if h % 16 = 0 then 2 else 1)    -- narrowest codes wherever they fit
                      else if wmode = 0 then 0 else if wmode = 1 then (if h % 5 = 0 then hashNat wseed (pos + 17) % 17 + 1 else 0)
                      else 1 + h % 7,
                    c5spd := rateOf sseed,
                    nullEmpty := nullEmpty,
                    cell := fun i =>
                      let h := hashNat cseed i
                      let (a, b) := hashFx xseed i
                      { useLast := if lastMode = 0 then 0 else if lastMode = 1 then 7 else h % 8,
                        forceMask := h / 8 % 4 = 0, forceIns := h / 32 % 8 = 0,
                        fx := if fxOn ∧ h / 64 % 2 = 0 then some (u8 (a.toNat % 36), b) else none,
                        fade := hashNat cseed (i + 77) },
                    chpan := fun k => u8 (edge (hashNat cseed (k + 9000)) [0, 32, 64, 100, 128, 164, 255] 65),
                    chvol := fun k => u8 (edge (hashNat cseed (k + 9100)) byteSet 65) }
  return (m, o, s!"special={special} comp={compRate} wmode={wmode} chn={chn} pat={npat} len={len} smp={nsmp} last={lastMode} fx={fxOn} nullEmpty={nullEmpty} imode={imode} ins={m.ins.length} hist={hist} midi={midiSel}")

end GenIt

/-! ### commands -/
def seedState (seed : Nat) : UInt64 :=
  let s := UInt64.ofNat seed * 0x9E3779B97F4A7C15 + 0xD1B54A32D192ED03
  if s == 0 then 1 else s

def emit (ls : List String) : IO Unit := do for l in ls do IO.println l

def cmdGen (fmt id : String) (seed size : Nat) : IO Unit := do
  IO.println s!"begin {id}"
  match fmt with
  | "mod" =>
    let ((m, o, desc), _) := (GenMod.gen size).run (seedState seed)
    let bytes := Mod.write m o
    IO.println s!"opts {desc}"
    IO.println s!"hex {toHex bytes}"
    let rt := match Mod.read bytes with
      | none => "none"
      | some m' => if m' = m then "ok" else "differ"
    IO.println s!"rt {rt}"
    IO.println s!"wf {decide (Mod.WellFormed m o ∧ Mod.NoAdpcm m.smps)}"
    emit (dumpModule m)
  | "s3m" =>
    let ((m, o, desc), _) := (GenS3m.gen size).run (seedState seed)
    let bytes := S3m.write m o
    IO.println s!"opts {desc}"
    IO.println s!"hex {toHex bytes}"
    let rt := match S3m.read bytes with
      | none => "none"
      | some m' => if m' = m then "ok" else "differ"
    IO.println s!"rt {rt}"
    IO.println s!"wf {decide (S3m.WellFormed m o)}"
    emit (dumpModule m)
  | "xm" =>
    let ((m, o, desc), _) := (GenXm.gen size).run (seedState seed)
    let bytes := Xm.write m o
    IO.println s!"opts {desc}"
    IO.println s!"hex {toHex bytes}"
    let rt := match Xm.read bytes with
      | none => "none"
      | some m' => if m' = Xm.loaded m then "ok" else "differ"
    IO.println s!"rt {rt}"
    IO.println s!"wf {decide (Xm.WellFormed m o)}"
    emit (dumpModule (Xm.loaded m))
  | "it" =>
    let ((m, o, desc), _) := (GenIt.gen size).run (seedState seed)
    let bytes := It.write m o
    IO.println s!"opts {desc}"
    IO.println s!"hex {toHex bytes}"
    let rt := match It.read bytes with
      | none => "none"
      | some m' => if m' = m then "ok" else "differ"
    IO.println s!"rt {rt}"
    IO.println s!"wf {decide (It.WellFormed m o)}"
    emit (dumpModule m)
  | _ => IO.println "unsupported"
  IO.println "end"

def cmdRead (fmt id hex : String) : IO Unit := do
  IO.println s!"begin {id}"
  let bytes := parseHex hex
  let r := match fmt with
    | "mod" => Mod.read bytes
    | "s3m" => S3m.read bytes
    | "xm" => Xm.read bytes
    | "it" => It.read bytes
    | _ => none
  match r with
  | none => IO.println "silent"
  | some m => emit (dumpModule m)
  IO.println "end"

partial def loop (h : IO.FS.Stream) : IO Unit := do
  let line ← h.getLine
  if line.isEmpty then return ()
  let ws := line.trimAscii.toString.splitOn " "
  match ws with
  | ["gen", fmt, id, seed, size] => cmdGen fmt id (seed.toNat?.getD 0) (size.toNat?.getD 0)
  | ["read", fmt, id, hex] => cmdRead fmt id hex
  | ["p2n"] => IO.println ("p2n " ++ " ".intercalate ((List.range 4096).map fun p => toString (Mod.periodToNote p)))
  | _ => pure ()
  (← IO.getStdout).flush
  loop h

def main : IO Unit := do loop (← IO.getStdin)
