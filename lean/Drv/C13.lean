import XmpModel.Downmix
import XmpModel.C13Timeline
/-! Native driver for the C13 correspondence: runs the model `Xmp.Downmix` on the
script that is also fed to harness/c13_downmix.c (`rnd`, `vals`, `one`) and on the
`site` lines recorded by harness/c13_timeline.c (final stage of
`libxmp_mixer_softmixer` on real accumulator buffers). -/
open Xmp Xmp.Downmix

def fnvInit : UInt64 := 0xcbf29ce484222325
def fnvStep (h : UInt64) (b : UInt8) : UInt64 := (h ^^^ b.toUInt64) * 0x100000001b3
def fnvBytes (h : UInt64) (bs : Bytes) : UInt64 := bs.foldl fnvStep h

def vrngSeed (s : UInt64) : UInt64 :=
  let v := s * 0x9E3779B97F4A7C15 + 0xD1B54A32D192ED03
  if v == 0 then 1 else v

def vrngNext (st : UInt64) : UInt64 × UInt64 :=
  let x := st
  let x := x ^^^ (x >>> 12)
  let x := x ^^^ (x <<< 25)
  let x := x ^^^ (x >>> 27)
  (x, x * 0x2545F4914F6CDD1D)

def toInt32 (u : Nat) : Int :=
  let u := u % 4294967296
  if u ≥ 2147483648 then (u : Int) - 4294967296 else (u : Int)

def hexDigit (n : Nat) : Char := if n < 10 then Char.ofNat (48 + n) else Char.ofNat (87 + n)

def hex64 (h : UInt64) : String :=
  String.ofList ((List.range 16).map fun i => hexDigit ((h.toNat >>> (4 * (15 - i))) % 16))

/-- combo index = amp*4 + bits8*2 + unsigned -/
def comboBytes (c : Nat) (x : Int) : Bytes :=
  let amp := c / 4
  let b8 := (c / 2) % 2 == 1
  let u := c % 2 == 1
  if b8 then byte8 (d8 amp (if u then 0x80 else 0) x) else le16 (d16 amp (if u then 0x8000 else 0) x)

def feed (hs : Array UInt64) (x : Int) : Array UInt64 :=
  hs.mapIdx fun c h => fnvBytes h (comboBytes c x)

def showBlock (n : Nat) (hs : Array UInt64) : String :=
  s!"blk {n}" ++ String.join (hs.toList.map fun h => " " ++ hex64 h)

def rndBlock (seed : UInt64) (count k : Nat) : Array UInt64 := Id.run do
  let mut st := vrngSeed seed
  let mut hs : Array UInt64 := Array.replicate 16 fnvInit
  for _ in [0:count] do
    let (st', r) := vrngNext st
    st := st'
    let x := (toInt32 (r >>> 32).toNat) >>> k
    hs := feed hs x
  return hs

def hexVal (c : Char) : Nat :=
  if c.isDigit then c.toNat - '0'.toNat else c.toNat - 'a'.toNat + 10

/-- little-endian int32 words from a hex string -/
def parseAcc (s : String) : List Int :=
  let rec bytes : List Char → List Nat
    | a :: b :: rest => (hexVal a * 16 + hexVal b) :: bytes rest
    | _ => []
  let rec words : List Nat → List Int
    | a :: b :: c :: d :: rest => toInt32 (a + 256 * b + 65536 * c + 16777216 * d) :: words rest
    | _ => []
  if s == "-" then [] else words (bytes s.toList)

partial def loop (h : IO.FS.Stream) : IO Unit := do
  let line ← h.getLine
  if line.isEmpty then return ()
  let ws := line.trimAscii.toString.splitOn " "
  match ws with
  | ["rnd", seed, count, k] =>
    let n := count.toNat?.getD 0
    IO.println (showBlock n (rndBlock (UInt64.ofNat (seed.toNat?.getD 0)) n (k.toNat?.getD 0)))
  | "vals" :: n :: xs =>
    let hs := xs.foldl (fun hs x => match x.toInt? with | some v => feed hs v | none => hs) (Array.replicate 16 fnvInit)
    IO.println (showBlock (n.toNat?.getD 0) hs)
  | ["one", x] =>
    let v := x.toInt?.getD 0
    let outs := (List.range 4).flatMap fun amp =>
      [d16 amp 0 v, d16 amp 0x8000 v, d8 amp 0 v, d8 amp 0x80 v]
    IO.println (s!"one {v}" ++ String.join (outs.map fun o => s!" {o}"))
  | ["prep", fmt, f, amp] =>
    -- voiceless frame whose tick size computes to exactly f (see harness/c13_downmix.c)
    let fv := f.toInt?.getD 0
    let fm := Fmt.ofNat (fmt.toNat?.getD 0)
    let t := ticksizeOf (if fv ≤ 0 then none else some fv)
    let ts := prepareTicksize t
    let out := renderBytes fm ts (amp.toNat?.getD 0) (List.replicate buf32Alloc 0)
    IO.println s!"prep {ts} {bufferSize fm ts} {hex64 (fnvBytes fnvInit out)}"
  | ["site", fmt, ticksize, amp, acc] =>
    -- final stage of libxmp_mixer_softmixer: format flags, tick size, amplification, accumulators
    let f := Fmt.ofNat (fmt.toNat?.getD 0)
    let t := ticksize.toNat?.getD 0
    let out := renderBytes f t (amp.toNat?.getD 0) (parseAcc acc)
    IO.println s!"site {bufferSize f t} {out.length} {hex64 (fnvBytes fnvInit out)}"
  | ["tfc", fmt, rate, playing, bpm, rrm, rre, tfm, tfe, kind, vm, ve] =>
    -- xmp_set_tempo_factor on a real context: `tfc <fmt> <rate> <playing> <bpm> <rrate m e> <time_factor m e> <bad|inf|pos> <val m e>`
    let c : Xmp.C13Timeline.OutCfg := { rate := rate.toInt?.getD 0, fmt := Fmt.ofNat (fmt.toNat?.getD 0) }
    let s : Xmp.C13Timeline.SeqSide := {
      playing := playing != "0", bpm := bpm.toInt?.getD 0,
      rrate := { m := rrm.toNat?.getD 0, e := rre.toInt?.getD 0 },
      timeFactor := { m := tfm.toNat?.getD 0, e := tfe.toInt?.getD 0 } }
    let v : Xmp.C13Timeline.Val :=
      if kind == "bad" then .bad else if kind == "inf" then .inf else .pos { m := vm.toNat?.getD 0, e := ve.toInt?.getD 0 }
    let r := Xmp.C13Timeline.setTempoFactor c s v
    let t := r.2.timeFactor.canon
    IO.println s!"tfe {r.1} {t.m} {t.e}"
  | _ => pure ()
  loop h

def main : IO Unit := do loop (← IO.getStdin)
