import XmpModel.MixLinear
import XmpModel.MixKernel
import XmpModel.MixKernelPaula
/-! Native driver for the C14 correspondence: evaluates `Xmp.MixLinear` on the case lines
written by harness/c14_mixlinear.c (one answer line per case line).

  sum <k> <n> <k*n words>                       -> n words of `tick n` (unsigned 32-bit)
  vol <vol> <mvol> <mvolbase> <pan> <old_vl> <old_vr> <rampsize>   -> vol_l vol_r vl vr delta_l delta_r
  dlt <v> <old> <rampsize>                      -> delta
  pan <fp> <mix> <mono> <surround>              -> voice pan
  bg <n> <map of the n background channels>     -> background channel (relative to num_tracks) libxmp_virt_setpatch moves the old voice to
  vr <member of struct mixer_voice | paula.* pseudo-member>…
                                                -> value of each member in a freed voice (`Xmp.MixKernel.resetValue`)
  pp <pan.val> <panbrello> <pan_envelope> <rpv> <it_mode> <mono> <surround> <mix>
                                                -> pan handed to libxmp_virt_setpan, xc->info_finalpan (`processPan`)
  mst <chn> <modchn> <numtracks> <master> <smix> <root> <muted> <fv>   -> vi->vol
  dmx <eight> <unsigned> <amp> <word>           -> output sample (as stored, unsigned reading for unsigned formats)
  kern <stereo> <ac> <lsh> <vl> <vr> <oldvl> <oldvr> <dl> <dr> <rsize> <count> <samples…>
                                                -> words added (stereo: 2*count interleaved, mono: count)
  vt <stereo> <ticksize> <interpAbove> <oldvl> <oldvr> <sleft> <sright> <acflag> <kind> <vol> <pan>
     <mvol> <mvolbase> <ackernel> <lsh> <nsegs> { <count> <hasdata> <acafter|-1> <stop> <samples…> }
                                                -> oldvl oldvr sleft sright acflag | words of the tick
  k2 <interp> <id> <count> <vl> <vr> <step> <ramp> <dl> <dr> <posM> <posE> <oldvl> <oldvr>
     <l1> <l2> <r1> <r2> <a0> <b0> <b1> <nseg> { <base> <n> <samples…> } <nbuf> <buffer words before…>
                                                -> l1 l2 r1 r2 | buffer words after   (`Xmp.MixKernel.run`, bit-exact:
                                                   kernel `mixerset[id]` of `s->interp = interp`, `vi->pos = posM·2^posE`,
                                                   `sptr[base … base+n-1]` = samples of each window, 0 elsewhere)
  pk <stereo> <tab> <count> <vl> <vr> <step> <posM> <posE> <end> <glob> <remM> <remE> <fdivM> <fdivE>
     <nbleps> { <level> <age> } <nseg> { <base> <n> <samples…> } <nbuf> <buffer words before…>
                                                -> glob remM remE nbleps { level age } | buffer words after
                                                   (`Xmp.MixKernel.Paula.prun`, bit-exact Paula kernel; doubles as m·2^e)
-/
open Xmp Xmp.MixLinear

def pInt (s : String) : Int := s.toInt?.getD 0
def pNat (s : String) : Nat := s.toNat?.getD 0
def pBool (s : String) : Bool := s != "0"

def u32 (x : Int) : Nat := (BitVec.ofInt 32 x).toNat

def chunks (n : Nat) (l : List Nat) : Nat → List (List Nat)
  | 0 => []
  | k + 1 => l.take n :: chunks n (l.drop n) k

def pairs (stereo : Bool) : List Int → List (Int × Int)
  | [] => []
  | [a] => [(a, a)]
  | a :: b :: rest => if stereo then (a, b) :: pairs stereo rest else (a, a) :: pairs stereo (b :: rest)

def framesOut (stereo : Bool) (fr : List (Int × Int)) : String :=
  " ".intercalate (if stereo then fr.flatMap fun p => [toString (u32 p.1), toString (u32 p.2)]
                   else fr.map fun p => toString (u32 p.1))

def parseSegs (stereo : Bool) : Nat → List String → List Seg
  | 0, _ => []
  | k + 1, cnt :: hd :: aa :: stp :: rest =>
    let count := pNat cnt
    let nw := if stereo then 2 * count else count
    let smps := pairs stereo ((rest.take nw).map pInt)
    let aci := pInt aa
    { smps := smps, hasData := pBool hd, acAfter := if aci < 0 then none else some aci.toNat, stop := pBool stp }
      :: parseSegs stereo k (rest.drop nw)
  | _, _ => []

/-- `<base> <n> <n values>` repeated: windows of the sample memory -/
def parseSmpSegs : Nat → List String → List (Int × Array Int) × List String
  | 0, rest => ([], rest)
  | k + 1, base :: n :: rest =>
    let n := pNat n
    let r := parseSmpSegs k (rest.drop n)
    ((pInt base, ((rest.take n).map pInt).toArray) :: r.1, r.2)
  | _, rest => ([], rest)

def answer (ws : List String) : Option String :=
  match ws with
  | "sum" :: k :: n :: rest =>
    let k := pNat k; let n := pNat n
    let cs : List Buf := (chunks n (rest.map pNat) k).map fun c => c.map (BitVec.ofNat 32)
    some (" ".intercalate ((tick n cs).map fun x => toString x.toNat))
  | ["vol", vol, mvol, mvolbase, pan, ovl, ovr, rs] =>
    let lr := volLR (mixVol (pInt vol) (pInt mvol) (pInt mvolbase)) (pInt pan)
    some s!"{lr.1} {lr.2} {level lr.1} {level lr.2} {rampDelta lr.1 (pInt ovl) (pInt rs)} {rampDelta lr.2 (pInt ovr) (pInt rs)}"
  | ["dlt", v, old, r] => some s!"{rampDelta (pInt v) (pInt old) (pInt r)}"
  | ["pan", fp, mix, mono, sur] => some s!"{voicePan (pInt fp) (pInt mix) (pBool mono) (pBool sur)}"
  | "bg" :: _n :: maps => some s!"{Xmp.MixKernel.bgSearch (maps.map pInt)}"
  | "vr" :: names =>
    -- members of a free voice: `vr <member>…` -> value of each member after libxmp_virt_resetvoice (`*` = kept)
    some (" ".intercalate (names.map fun n =>
      match (if n.startsWith "paula." then Xmp.MixKernel.paulaResetValue n else Xmp.MixKernel.resetValue n) with
      | some v => toString v
      | none => "*"))
  | ["pp", pv, pb, pe, rpv, it, mono, sur, mix] =>
    let p : PanSrc := { panVal := pInt pv, panbrello := pInt pb, penv := pInt pe, rpv := pInt rpv, itMode := pBool it }
    some s!"{processPan p (pInt mix) (pBool mono) (pBool sur)} {infoFinalPan p (pInt mix) (pBool mono) (pBool sur)}"
  | ["mst", chn, modchn, nt, master, smix, root, muted, fv] =>
    let c : PlayerVol := { modChn := pNat modchn, numTracks := pNat nt, masterVol := pInt master, smixVol := pInt smix }
    let r := pNat root
    some s!"{voiceVol c (fun x => x == r && pBool muted) (pNat chn) r (pInt fv)}"
  | ["dmx", eight, uns, amp, w] =>
    some s!"{outSample (pBool eight) (pBool uns) (pNat amp) (BitVec.ofNat 32 (pNat w))}"
  | "kern" :: st :: ac :: lsh :: vl :: vr :: ovl :: ovr :: dl :: dr :: rsize :: _count :: rest =>
    let stereo := pBool st
    let k : KArgs := { vl := pInt vl, vr := pInt vr, oldVl := pInt ovl, oldVr := pInt ovr, dl := pInt dl, dr := pInt dr,
                       rsize := pNat rsize, ac := pBool ac, lsh := pNat lsh }
    some (framesOut stereo (kernel k (pairs stereo (rest.map pInt))))
  | "vt" :: st :: ts :: ia :: ovl :: ovr :: sl :: sr :: acf :: kind :: vol :: pan :: mvol :: mvb :: ack :: lsh :: nsegs :: rest =>
    let stereo := pBool st
    let cfg : TickCfg := { ticksize := pNat ts, interpAbove := pBool ia }
    let s0 : VState := { oldVl := pInt ovl, oldVr := pInt ovr, sleft := pInt sl, sright := pInt sr, ac := pBool acf }
    let kd : VKind := match kind with | "free" => .free | "reset" => .reset | "skip" => .skip | _ => .run
    let i : VIn := { kind := kd, vol := pInt vol, pan := pInt pan, mvol := pInt mvol, mvolbase := pInt mvb,
                     acKernel := pBool ack, lsh := pNat lsh, segs := parseSegs stereo (pNat nsegs) rest }
    let r := voiceTick cfg s0 i
    some s!"{r.2.oldVl} {r.2.oldVr} {r.2.sleft} {r.2.sright} {if r.2.ac then 1 else 0} | {framesOut stereo r.1}"
  | "k2" :: ip :: id :: count :: vl :: vr :: step :: ramp :: dl :: dr :: posm :: pose :: ovl :: ovr ::
      l1 :: l2 :: r1 :: r2 :: a0 :: b0 :: b1 :: nseg :: rest =>
    let (segs, rest) := parseSmpSegs (pNat nseg) rest
    let smp : Int → Int := fun i =>
      match segs.find? (fun sg => decide (sg.1 ≤ i) && decide (i < sg.1 + sg.2.size)) with
      | some sg => sg.2.getD (i - sg.1).toNat 0
      | none => 0
    let nb := pNat (rest.headD "0")
    let buf : Buf := ((rest.drop 1).take nb).map fun w => BitVec.ofNat 32 (pNat w)
    let spec := Xmp.MixKernel.specOf (pNat ip) (pNat id)
    let v : Xmp.MixKernel.KVoice := {
      smp := smp, pos := Xmp.MixKernel.posInt (pInt posm) (pInt pose),
      frac := Xmp.MixKernel.posFrac (pInt posm) (pInt pose), oldVl := pInt ovl, oldVr := pInt ovr,
      flt := { l1 := pInt l1, l2 := pInt l2, r1 := pInt r1, r2 := pInt r2, a0 := pInt a0, b0 := pInt b0, b1 := pInt b1 } }
    let a : Xmp.MixKernel.KArgs := {
      count := pNat count, vl := pInt vl, vr := pInt vr, step := pInt step, ramp := pNat ramp,
      dl := pInt dl, dr := pInt dr }
    let r := Xmp.MixKernel.run spec v a buf
    some (s!"{r.2.l1} {r.2.l2} {r.2.r1} {r.2.r2} | " ++ " ".intercalate (r.1.map fun x => toString x.toNat))
  | "pk" :: st :: tab :: count :: vl :: vr :: step :: posm :: pose :: endp :: glob :: remm :: reme :: fdm :: fde :: nbl :: rest =>
    let nb := pNat nbl
    let bl := (pairs true ((rest.take (2 * nb)).map pInt))
    let rest := rest.drop (2 * nb)
    let nseg := pNat (rest.headD "0")
    let (segs, rest) := parseSmpSegs nseg (rest.drop 1)
    let smp : Int → Int := fun i =>
      match segs.find? (fun sg => decide (sg.1 ≤ i) && decide (i < sg.1 + sg.2.size)) with
      | some sg => sg.2.getD (i - sg.1).toNat 0
      | none => 0
    let nbuf := pNat (rest.headD "0")
    let buf : Buf := ((rest.drop 1).take nbuf).map fun w => BitVec.ofNat 32 (pNat w)
    let ps : Xmp.MixKernel.Paula.PState := {
      glob := pInt glob, bleps := bl, rem := { m := pNat remm, e := pInt reme }, fdiv := { m := pNat fdm, e := pInt fde } }
    let v : Xmp.MixKernel.Paula.PVoice := {
      smp := smp, pos := (Xmp.MixKernel.posInt (pInt posm) (pInt pose)) % 2 ^ 32,
      frac := Xmp.MixKernel.posFrac (pInt posm) (pInt pose), end_ := (pInt endp) % 2 ^ 32, st := ps }
    let a : Xmp.MixKernel.Paula.PArgs := {
      count := pNat count, vl := pInt vl, vr := pInt vr, step := pInt step, stereoOut := pBool st, tab := pBool tab }
    let r := Xmp.MixKernel.Paula.prun v a buf
    let rc := r.2.rem.canon
    let bs := " ".intercalate (r.2.bleps.map fun b => s!"{b.1} {b.2}")
    some (s!"{r.2.glob} {rc.m} {rc.e} {r.2.bleps.length} {bs} | " ++ " ".intercalate (r.1.map fun x => toString x.toNat))
  | _ => none

partial def loop (h : IO.FS.Stream) (out : IO.FS.Stream) : IO Unit := do
  let line ← h.getLine
  if line.isEmpty then return ()
  let ws := (line.trimAscii.toString.splitOn " ").filter (· != "")
  match answer ws with
  | some a => out.putStrLn a
  | none => if ws.isEmpty then pure () else out.putStrLn "?"
  loop h out

def main : IO Unit := do loop (← IO.getStdin) (← IO.getStdout)
