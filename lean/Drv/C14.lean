import XmpModel.MixLinear
/-! Native driver for the C14 correspondence: evaluates `Xmp.MixLinear` on the case lines
written by harness/c14_mixlinear.c (one answer line per case line).

  sum <k> <n> <k*n words>                       -> n words of `tick n` (unsigned 32-bit)
  vol <vol> <mvol> <mvolbase> <pan> <old_vl> <old_vr> <rampsize>   -> vol_l vol_r vl vr delta_l delta_r
  dlt <v> <old> <rampsize>                      -> delta
  pan <fp> <mix> <mono> <surround>              -> voice pan
  mst <chn> <modchn> <numtracks> <master> <smix> <root> <muted> <fv>   -> vi->vol
  dmx <eight> <unsigned> <amp> <word>           -> output sample (as stored, unsigned reading for unsigned formats)
  kern <stereo> <ac> <lsh> <vl> <vr> <oldvl> <oldvr> <dl> <dr> <rsize> <count> <samples…>
                                                -> words added (stereo: 2*count interleaved, mono: count)
  vt <stereo> <ticksize> <interpAbove> <oldvl> <oldvr> <sleft> <sright> <acflag> <kind> <vol> <pan>
     <mvol> <mvolbase> <ackernel> <lsh> <nsegs> { <count> <hasdata> <acafter|-1> <stop> <samples…> }
                                                -> oldvl oldvr sleft sright acflag | words of the tick
-/
open Xmp Xmp.MixLinear

def pInt (s : String) : Int := s.toInt?.getD 0
def pNat (s : String) : Nat := s.toNat?.getD 0
def pBool (s : String) : Bool := s != "0"

def u32 (x : Int) : Nat := (BitVec.ofInt 32 x).toNat

def chunks (n : Nat) (l : List Nat) : Nat → List (List Nat)
  | 0 => []
  | k + 1 => l.take n :: chunks n (l.drop n) k

def pairs (stereo : Bool) : List Int → List (Int × Int)
  | [] => []
  | [a] => [(a, a)]
  | a :: b :: rest => if stereo then (a, b) :: pairs stereo rest else (a, a) :: pairs stereo (b :: rest)

def framesOut (stereo : Bool) (fr : List (Int × Int)) : String :=
  " ".intercalate (if stereo then fr.flatMap fun p => [toString (u32 p.1), toString (u32 p.2)]
                   else fr.map fun p => toString (u32 p.1))

def parseSegs (stereo : Bool) : Nat → List String → List Seg
  | 0, _ => []
  | k + 1, cnt :: hd :: aa :: stp :: rest =>
    let count := pNat cnt
    let nw := if stereo then 2 * count else count
    let smps := pairs stereo ((rest.take nw).map pInt)
    let aci := pInt aa
    { smps := smps, hasData := pBool hd, acAfter := if aci < 0 then none else some aci.toNat, stop := pBool stp }
      :: parseSegs stereo k (rest.drop nw)
  | _, _ => []

def answer (ws : List String) : Option String :=
  match ws with
  | "sum" :: k :: n :: rest =>
    let k := pNat k; let n := pNat n
    let cs : List Buf := (chunks n (rest.map pNat) k).map fun c => c.map (BitVec.ofNat 32)
    some (" ".intercalate ((tick n cs).map fun x => toString x.toNat))
  | ["vol", vol, mvol, mvolbase, pan, ovl, ovr, rs] =>
    let lr := volLR (mixVol (pInt vol) (pInt mvol) (pInt mvolbase)) (pInt pan)
    some s!"{lr.1} {lr.2} {level lr.1} {level lr.2} {rampDelta lr.1 (pInt ovl) (pInt rs)} {rampDelta lr.2 (pInt ovr) (pInt rs)}"
  | ["dlt", v, old, r] => some s!"{rampDelta (pInt v) (pInt old) (pInt r)}"
  | ["pan", fp, mix, mono, sur] => some s!"{voicePan (pInt fp) (pInt mix) (pBool mono) (pBool sur)}"
  | ["mst", chn, modchn, nt, master, smix, root, muted, fv] =>
    let c : PlayerVol := { modChn := pNat modchn, numTracks := pNat nt, masterVol := pInt master, smixVol := pInt smix }
    let r := pNat root
    some s!"{voiceVol c (fun x => x == r && pBool muted) (pNat chn) r (pInt fv)}"
  | ["dmx", eight, uns, amp, w] =>
    some s!"{outSample (pBool eight) (pBool uns) (pNat amp) (BitVec.ofNat 32 (pNat w))}"
  | "kern" :: st :: ac :: lsh :: vl :: vr :: ovl :: ovr :: dl :: dr :: rsize :: _count :: rest =>
    let stereo := pBool st
    let k : KArgs := { vl := pInt vl, vr := pInt vr, oldVl := pInt ovl, oldVr := pInt ovr, dl := pInt dl, dr := pInt dr,
                       rsize := pNat rsize, ac := pBool ac, lsh := pNat lsh }
    some (framesOut stereo (kernel k (pairs stereo (rest.map pInt))))
  | "vt" :: st :: ts :: ia :: ovl :: ovr :: sl :: sr :: acf :: kind :: vol :: pan :: mvol :: mvb :: ack :: lsh :: nsegs :: rest =>
    let stereo := pBool st
    let cfg : TickCfg := { ticksize := pNat ts, interpAbove := pBool ia }
    let s0 : VState := { oldVl := pInt ovl, oldVr := pInt ovr, sleft := pInt sl, sright := pInt sr, ac := pBool acf }
    let kd : VKind := match kind with | "free" => .free | "reset" => .reset | "skip" => .skip | _ => .run
    let i : VIn := { kind := kd, vol := pInt vol, pan := pInt pan, mvol := pInt mvol, mvolbase := pInt mvb,
                     acKernel := pBool ack, lsh := pNat lsh, segs := parseSegs stereo (pNat nsegs) rest }
    let r := voiceTick cfg s0 i
    some s!"{r.2.oldVl} {r.2.oldVr} {r.2.sleft} {r.2.sright} {if r.2.ac then 1 else 0} | {framesOut stereo r.1}"
  | _ => none

partial def loop (h : IO.FS.Stream) (out : IO.FS.Stream) : IO Unit := do
  let line ← h.getLine
  if line.isEmpty then return ()
  let ws := (line.trimAscii.toString.splitOn " ").filter (· != "")
  match answer ws with
  | some a => out.putStrLn a
  | none => if ws.isEmpty then pure () else out.putStrLn "?"
  loop h out

def main : IO Unit := do loop (← IO.getStdin) (← IO.getStdout)
