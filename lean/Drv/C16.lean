import XmpModel.Seq
import XmpModel.Tick
import XmpModel.Virt
import XmpModel.Fx
/-! Native driver for the C16 correspondence (line protocol of harness/c16_frames.c, `D ` prefix
already stripped by tools/checks/c16.py).  One answer line per `wf`, `start`, `von`, `frame`,
`ctl`, `fx`, `fxrow`, `tslide`, `pbuf`, `st26`, `tick`, `tfac`, `vop`, `vopf` line; module description lines are silent. -/
open Xmp Xmp.Seq

def ints (ws : List String) : List Int := ws.map fun w => w.toInt?.getD 0

def stOfList (v : List Int) : St :=
  let g := fun (i : Nat) => v.getD i 0
  { ord := g 0, pos := g 1, row := g 2, frame := g 3, speed := g 4, bpm := g 5, gvol := g 6, st26 := g 7,
    loopCount := g 8, sequence := g 9, pbreak := g 10, jump := g 11, delay := g 12, jumpline := g 13,
    loopDest := g 14, rowdelay := g 15, numRows := g 16, endPoint := g 17, ftBpm := g 5 }

def stToStr (s : St) : String :=
  " ".intercalate ([s.ord, s.pos, s.row, s.frame, s.speed, s.bpm, s.gvol, s.st26, s.loopCount, s.sequence,
    s.pbreak, s.jump, s.delay, s.jumpline, s.loopDest, s.rowdelay, s.numRows, s.endPoint].map toString)

def emptyMod : SeqMod :=
  { len := 0, pat := 0, rst := 0, xxo := [], rows := [], marker := false, protrack := false, seqCtl := [],
    numSeq := 0, entry := [], scanOrd := [], scanRow := [], scanNum := [], oSpeed := [], oBpm := [], oGvl := [],
    oSt26 := [], oTime := [], volbase := 0 }

def ctlOf (kind arg : Int) : Ctl :=
  match kind with
  | 0 => .setPos arg
  | 1 => .next
  | 2 => .prev
  | 3 => .setRow arg
  | 4 => .seek arg
  | 5 => .stop
  | 7 => .bufReset
  | 8 => .rescan
  | _ => .restart

/-- split a token list at "|" -/
def splitBar (ws : List String) : List (List String) :=
  let r := ws.foldl (fun (acc : List (List String) × List String) w =>
    if w == "|" then (acc.1 ++ [acc.2], []) else (acc.1, acc.2 ++ [w])) ([], [])
  r.1 ++ [r.2]

def voicesOf : List Int → List Virt.Voice
  | a :: b :: c :: d :: e :: f :: g :: rest =>
    { chn := a, root := b, act := c, vol := d, ins := e, smp := f, key := g } :: voicesOf rest
  | _ => []

def chansOf : List Int → List Virt.Chan
  | a :: b :: rest => { map := a, count := b } :: chansOf rest
  | _ => []

def vstateStr (s : Virt.VState) : String :=
  let vs := s.voices.flatMap fun v => [toString v.chn, toString v.root]
  let cs := s.chans.flatMap fun c => [toString c.map, toString c.count]
  "v " ++ toString s.virtUsed ++ " | " ++ " ".intercalate vs ++ (if vs.isEmpty then "| " else " | ") ++ " ".intercalate cs

/-- all seven modelled fields of every voice (expected line of the field-only operations) -/
def vstateStrFull (s : Virt.VState) : String :=
  let vs := s.voices.flatMap fun v => [v.chn, v.root, v.act, v.vol, v.ins, v.smp, v.key].map toString
  let cs := s.chans.flatMap fun c => [toString c.map, toString c.count]
  "vf " ++ toString s.virtUsed ++ " | " ++ " ".intercalate vs ++ (if vs.isEmpty then "| " else " | ") ++ " ".intercalate cs

def vopOf (name : String) (a : List Int) : Option Virt.Op :=
  let g := fun (i : Nat) => a.getD i 0
  match name with
  | "reset" => some .reset
  | "resetvoice" => some (.resetVoice (g 0))
  | "resetchannel" => some (.resetChannel (g 0))
  | "setvol" => some (.setVol (g 0) (g 1) (g 2 != 0))
  | "setpatch" => some (.setPatch (g 0) (g 1) (g 2) (g 3) (g 4) (g 5) (g 6))
  | "pastnotecut" => some (.pastNoteCut (g 0))
  | "pastnoteother" => some (.pastNoteOther (g 0) (g 1))
  | "setnna" => some (.setNna (g 0) (g 1) (g 2 != 0))
  | "setsmp" => some (.setSmp (g 0) (g 1))
  | "queueins" => some (.queueIns (g 0) (g 1))
  | _ => none

/-- mantissa·2^exp as a fraction -/
def fracOf (mant exp : Int) : Int × Int :=
  if exp ≥ 0 then (mant * 2 ^ exp.toNat, 1) else (mant, 2 ^ (-exp).toNat)

def envOf (v : List String) : Fx.Env :=
  let i := fun (k : Nat) => (v.getD k "0").toInt?.getD 0
  let (tfN, tfD) := fracOf (i 4) (i 5)
  { quirk := i 0, flags := i 1, readEvent := i 2, flowMode := i 3, tfN := tfN, tfD := tfD, gvolbase := i 6, chn := i 7,
    far := i 8 != 0 }

/-- is `min_bpm` sensitive to the floating-point rounding of `time_factor` (bracket ± 2⁻⁴⁰)? -/
def minBpmFragile (e : Fx.Env) : Bool :=
  let k : Int := 2 ^ 40
  let lo := { e with tfN := e.tfN * (k - 1), tfD := e.tfD * k }.minBpmEff
  let hi := { e with tfN := e.tfN * (k + 1), tfD := e.tfD * k }.minBpmEff
  lo != e.minBpmEff || hi != e.minBpmEff

def loopsOf : List Int → List Fx.Loop
  | a :: b :: rest => { start := a, count := b } :: loopsOf rest
  | _ => []

def flowOf (v : List Int) (loops : List Int) : Fx.Flow :=
  let g := fun (i : Nat) => v.getD i 0
  { speed := g 0, bpm := g 1, gvol := g 2, st26 := g 3, pbreak := g 4, jump := g 5, delay := g 6, jumpline := g 7,
    loopDest := g 8, rowdelay := g 9, rowdelaySet := g 10, jumpInPat := g 11, loopParam := g 12, loopStart := g 13,
    loopCount := g 14, loopActive := g 15, loops := loopsOf loops, farMode := g 16, farCoarse := g 17, farFine := g 18 }

def flowStr (f : Fx.Flow) (bpmWild : Bool) : String :=
  let a := [f.speed].map toString ++ [if bpmWild then "*" else toString f.bpm] ++
    [f.gvol, f.st26, f.pbreak, f.jump, f.delay, f.jumpline, f.loopDest, f.rowdelay, f.rowdelaySet, f.jumpInPat,
     f.loopParam, f.loopStart, f.loopCount, f.loopActive, f.farMode, f.farCoarse, f.farFine].map toString
  let l := f.loops.flatMap fun x => [toString x.start, toString x.count]
  " ".intercalate a ++ " |" ++ (if l.isEmpty then "" else " " ++ " ".intercalate l)

def chansOfEv : List Int → List (Fx.Ev × Int)
  | a :: b :: c :: d :: vm :: rest => ({ fxt := a, fxp := b, f2t := c, f2p := d }, vm) :: chansOfEv rest
  | _ => []

partial def loop (h : IO.FS.Stream) (m : SeqMod) : IO Unit := do
  let line ← h.getLine
  if line.isEmpty then return ()
  let ws := (line.trimAscii.toString.splitOn " ").filter (· ≠ "")
  match ws with
  | "mod" :: rest =>
    let v := ints rest
    let g := fun (i : Nat) => v.getD i 0
    loop h { emptyMod with len := g 0, pat := g 1, rst := g 2, marker := g 3 != 0, protrack := g 4 != 0,
                           numSeq := g 5, volbase := g 6 }
  | "xxo" :: rest => loop h { m with xxo := ints rest }
  | "rows" :: rest => loop h { m with rows := ints rest }
  | "seqctl" :: rest => loop h { m with seqCtl := ints rest }
  | "entry" :: rest => loop h { m with entry := ints rest }
  | "scanord" :: rest => loop h { m with scanOrd := ints rest }
  | "scanrow" :: rest => loop h { m with scanRow := ints rest }
  | "scannum" :: rest => loop h { m with scanNum := ints rest }
  | "ospeed" :: rest => loop h { m with oSpeed := ints rest }
  | "obpm" :: rest => loop h { m with oBpm := ints rest }
  | "ogvl" :: rest => loop h { m with oGvl := ints rest }
  | "ost26" :: rest => loop h { m with oSt26 := ints rest }
  | "otime" :: rest => loop h { m with oTime := ints rest }
  | ["wf"] =>
    IO.println s!"w {if wfB m then 1 else 0} {if ordWfB m then 1 else 0}"
    loop h m
  | ["start", sp] =>
    match start m (sp.toInt?.getD 0) with
    | none => IO.println "s none"
    | some s => IO.println ("s " ++ stToStr s)
    loop h m
  | ["von", nt, nv, q] =>
    let s := Virt.virtOn (nt.toInt?.getD 0) (nv.toInt?.getD 0) (q != "0")
    IO.println s!"von {s.virtChannels} {s.maxvoc} {s.virtUsed}"
    loop h m
  | "frame" :: rest =>
    let s := stOfList (ints rest)
    match kernelStep m s with
    | .ok s1 =>
      let repos := s.ord ≠ s.pos
      let mid := if repos then s!"1 {s1.speed} {s1.bpm} {s1.gvol} {s1.st26}" else "0 0 0 0 0"
      IO.println s!"k ok {s1.ord} {s1.pos} {s1.row} {s1.frame} {s1.numRows} {s1.endPoint} {s1.loopCount} {s1.sequence} {mid}"
    | .fin => IO.println "k fin"
    | .diverge => IO.println "k diverge"
    loop h m
  | "ctl" :: kind :: arg :: rest =>
    let s := stOfList (ints rest)
    let s' := ctl m s (ctlOf (kind.toInt?.getD 0) (arg.toInt?.getD 0))
    IO.println ("c " ++ stToStr s')
    loop h m
  | "fx" :: rest =>
    match splitBar rest with
    | [ev, args, fl, lp] =>
      let env := envOf ev
      let a := ints args
      let g := fun (i : Nat) => a.getD i 0
      match Fx.processFx env (g 0) (g 1) (g 2) (g 3) (g 4) (g 5) (flowOf (ints fl) (ints lp)) with
      | some (f, vm) => IO.println s!"x {flowStr f (minBpmFragile env)} | {vm}"
      | none => IO.println "x unmodelled"
    | _ => IO.println "x parse-error"
    loop h m
  | "fxrow" :: rest =>
    match splitBar rest with
    | [ev, args, fl, lp, chans] =>
      let env := envOf ev
      let a := ints args
      let g := fun (i : Nat) => a.getD i 0
      match Fx.firstTick env (g 0) (g 1) (g 2) (chansOfEv (ints chans)) (flowOf (ints fl) (ints lp)) with
      | some f => IO.println s!"r {flowStr f (minBpmFragile env)}"
      | none => IO.println "r unmodelled"
    | _ => IO.println "r parse-error"
    loop h m
  | "tslide" :: b :: rest =>
    -- IT tempo slide: each channel's slide in turn, clamped
    let f0 : Fx.Flow := { (default : Fx.Flow) with bpm := b.toInt?.getD 0 }
    IO.println s!"ts {((ints rest).foldl Fx.tempoSlideStep f0).bpm}"
    loop h m
  | "pbuf" :: lp :: rest =>
    -- stop rule of xmp_play_buffer: how many of the frames with these loop counters it plays
    IO.println s!"b {framesUntilLimit (lp.toInt?.getD 0) (ints rest)}"
    loop h m
  | ["st26", v] =>
    let s := st26Step { stOfList [] with st26 := v.toInt?.getD 0 }
    IO.println s!"t {s.speed} {s.st26}"
    loop h m
  | ["tick", freq, tfM, tfE, rrM, rrE, bpm, mono, bit8] =>
    let i := fun (s : String) => s.toInt?.getD 0
    let (tfN, tfD) := fracOf (i tfM) (i tfE)
    let (rrN, rrD) := fracOf (i rrM) (i rrE)
    let t := Tick.getTicksize (i freq) tfN tfD rrN rrD (i bpm)
    let pt := Tick.prepare (i freq) tfN tfD rrN rrD (i bpm)
    let bs := Tick.bufferSize pt (mono != "0") (bit8 != "0")
    -- bracket for the floating-point rounding of the C: the same formula with time_factor·(1 ∓ 2⁻⁴⁰)
    let e : Int := 2 ^ 40
    let lo := Tick.getTicksize (i freq) (tfN * (e - 1)) (tfD * e) rrN rrD (i bpm)
    let hi := Tick.getTicksize (i freq) (tfN * (e + 1)) (tfD * e) rrN rrD (i bpm)
    let plo := Tick.prepare (i freq) (tfN * (e - 1)) (tfD * e) rrN rrD (i bpm)
    let phi := Tick.prepare (i freq) (tfN * (e + 1)) (tfD * e) rrN rrD (i bpm)
    let b := fun (x : Int) => Tick.bufferSize x (mono != "0") (bit8 != "0")
    IO.println s!"q {t} {pt} {bs} {lo} {hi} {plo} {b plo} {phi} {b phi}"
    loop h m
  | ["tfac", freq, vM, vE, rrM, rrE, bpm] =>
    let i := fun (s : String) => s.toInt?.getD 0
    let (vN, vD) := fracOf (i vM) (i vE)
    let (rrN, rrD) := fracOf (i rrM) (i rrE)
    let acc := fun (n d : Int) => if (Tick.setTempoFactor (i freq) rrN rrD (i bpm) n d).isSome then 1 else 0
    -- bracket for the floating-point rounding of the C: the same rule for val·(1 ∓ 2⁻⁴⁰)
    let e : Int := 2 ^ 40
    IO.println s!"f {acc vN vD} {acc (vN * (e - 1)) (vD * e)} {acc (vN * (e + 1)) (vD * e)}"
    loop h m
  | kind :: name :: rest =>
    if kind == "vop" || kind == "vopf" then
      match splitBar rest with
      | [args, hdr, vs, cs] =>
        let hv := ints hdr
        let s : Virt.VState := { numTracks := hv.getD 0 0, virtChannels := hv.getD 1 0, maxvoc := hv.getD 2 0,
                                 virtUsed := hv.getD 3 0, voices := voicesOf (ints vs), chans := chansOf (ints cs) }
        match vopOf name (ints args) with
        | some op => IO.println ((if kind == "vopf" then vstateStrFull else vstateStr) (Virt.step s op))
        | none => IO.println "v ?"
      | _ => IO.println "v parse-error"
    loop h m
  | _ => loop h m

def main : IO Unit := do loop (← IO.getStdin) emptyMod
