import XmpModel.TestLoadCore
/-! Native driver for the C11 correspondence and for the title relation used by the
direct oracle.  Line protocol (one request per line, one answer per line unless noted):

  ca <n> <hex r>                     → ca <hex of the n+1 bytes libxmp_copy_adjust defines>
  as <hex buf>                       → as <hex of the buffer after libxmp_adjust_string>
  rt <s> <pos> <hex data>            → rt <newpos> <hex written at t | none>
  pt <s> <hex b | null>              → pt <hex written at t by pw_read_title>
  tm <hex t> <hex l>                 → tm <0|1> <hex canon t> <hex canon l> <strict 0|1>

  table                              start a new loader table
  L <hex name> <mod> <rem> <rcfail> <tmode> <toff> <tlen> <hex traw> <lrc> <lmode> <sane>
  env <hex bufgarbage> <hex pwgarbage> <pwhit: none | <hex title|none> <hex fname>>
  info <hex name> <hex type> | info null
  post <prep> <scan>                 observed return values of libxmp_prepare_scan / libxmp_scan_sequences (-99: not called)
  run <hex data>                     → test <rc> <hex name|null> <hex type|null>
                                       load <rc> <recognized 0|1> <hex name|-> <hex fmt|->
  wrap <kind> <arg> <decr> <hex data> → wtest <rc> <hex name|null> <hex type|null> <closedCaller 0|1> <libClosed n>
                                        wload <rc> <recognized|-> <closedCaller> <libClosed>
      kind: path (arg: none|dir|noopen|ok)  mem (arg: size)  file (arg: ok|nosize)  cb (arg: ok|bad)
      decr: np | fail | dp:<hex>

  core test functions (XmpModel/TestLoadCore.lean), mirrored by harness/c11_core.c:
  ct <xm|mod|it|s3m> <hex data>      → ct <rc t≠NULL> <hex of the 64-byte title buffer> <pos> <rc t=NULL> <pos>
                                       (buffer prefilled with 0xDD, first byte 0, as test_module does)
  cw <hex data>                      → cw <rc> <hex type> <hex info.name[64]>  when one of the four accepts
                                       (info prefilled with 0x55), else `cw none`
  cn <xm|mod|it|s3m> <hex data>      → cn <hex of mod->name[64] after libxmp_adjust_string>
-/
open Xmp Xmp.TestLoad

def hexVal (c : Char) : Nat :=
  if c.isDigit then c.toNat - '0'.toNat else c.toNat - 'a'.toNat + 10

def parseHex (s : String) : Bytes :=
  if s == "-" then [] else
  let rec go : List Char → Bytes
    | a :: b :: rest => UInt8.ofNat (hexVal a * 16 + hexVal b) :: go rest
    | _ => []
  go s.toList

def hexDigit (n : Nat) : Char := if n < 10 then Char.ofNat (48 + n) else Char.ofNat (87 + n)

def toHex (b : Bytes) : String :=
  if b.isEmpty then "-" else
  String.ofList (b.flatMap fun x => [hexDigit (x.toNat / 16), hexDigit (x.toNat % 16)])

def optHex (b : Option Bytes) (none : String) : String :=
  match b with
  | some x => toHex x
  | .none => none

/-- Synthetic loader, mirrored by harness/c11_strings.c:
test: b0 = first byte (256 if the stream is empty); hit iff b0 % mod = rem; rc = 0 on hit else rcfail;
      when t ≠ NULL: tmode 0 leaves t alone; 1 seeks to toff and calls libxmp_read_title(f, t, tlen);
      2 stores the raw bytes traw and a NUL; 3 like 1 but only on a hit.
load: lrc is the loader's return value; lmode 0: strncpy(mod->name, data+toff, min tlen 63) raw;
      1: libxmp_copy_adjust(mod->name, data+toff, n); 2: name left empty; sane=0 sets chn beyond the limit. -/
structure Spec where
  name : Bytes
  mod : Nat
  rem : Nat
  rcfail : Int
  tmode : Nat
  toff : Nat
  tlen : Int
  traw : Bytes
  lrc : Int
  lmode : Nat
  sane : Bool

def Spec.toLoader (sp : Spec) (prep scan : Int) : Loader where
  name := sp.name
  test := fun s want =>
    let (b, s1) := s.read 1
    let b0 := match b with
      | [x] => x.toNat
      | _ => 256
    let hit := b0 % sp.mod == sp.rem
    let rc : Int := if hit then 0 else sp.rcfail
    if !want then { rc := rc, st := s1 }
    else if sp.tmode == 1 || (sp.tmode == 3 && hit) then
      let (w, s2) := readTitle { s1 with pos := min sp.toff s1.data.length } sp.tlen
      { rc := rc, title := w, st := s2 }
    else if sp.tmode == 2 then { rc := rc, title := some (sp.traw ++ [0]), st := s1 }
    else { rc := rc, st := s1 }
  load := fun s =>
    let n := (min sp.tlen 63).toNat
    let raw := (s.data.drop sp.toff).take n
    let name0 := zeros nameSize
    let name :=
      if sp.lmode == 0 then strncpyBuf name0 (raw ++ [0]) n
      else if sp.lmode == 1 then overlay (copyAdjustBuf (raw ++ [0]) raw.length) name0
      else name0
    { rc := sp.lrc, name := name, sane := sp.sane, prep := if prep == -99 then 0 else prep,
      scan := if scan == -99 then 0 else scan }

structure St where
  specs : Array Spec := #[]
  /-- observed return values of libxmp_prepare_scan / libxmp_scan_sequences (-99: not called) -/
  prep : Int := 0
  scan : Int := 0
  bufG : Bytes := []
  pwG : Bytes := []
  pw : Option PwHit := none
  info : Option Info := none

def St.env (st : St) : Env :=
  { loaders := st.specs.toList.map (fun sp => sp.toLoader st.prep st.scan), pw := fun _ => st.pw, bufGarbage := st.bufG, pwGarbage := st.pwG }

def parseDecr (s : String) : Decr :=
  if s == "np" then .notPacked else if s == "fail" then .fail
  else .depacked (parseHex (s.drop 3).toString)

def callerId : Nat := 7
def libId : Nat := 9

def mkSource (kind arg : String) (data : Bytes) : Source :=
  match kind with
  | "path" =>
    if arg == "none" then .path none
    else .path (some (arg == "dir", arg != "noopen", libId, data))
  | "mem" => .memory data (arg.toInt?.getD 0)
  | "file" => .file callerId data (arg == "ok")
  | _ => .callbacks (arg == "ok") data

def b2s (b : Bool) : String := if b then "1" else "0"

def parseFmt (s : String) : CoreFmt :=
  if s == "xm" then .xm else if s == "mod" then .mod else if s == "it" then .it else .s3m

def idleBody : CoreFmt → Stream → LoadOut := fun _ _ => { rc := 0, name := [] }

partial def loop (h : IO.FS.Stream) (st : St) : IO Unit := do
  let line ← h.getLine
  if line.isEmpty then return ()
  let ws := line.trimAscii.toString.splitOn " "
  match ws with
  | ["ca", n, r] =>
    IO.println s!"ca {toHex (copyAdjustBuf (parseHex r) (n.toNat?.getD 0))}"
    loop h st
  | ["as", b] =>
    IO.println s!"as {toHex (adjustStringBuf (parseHex b))}"
    loop h st
  | ["rt", s, pos, d] =>
    let (w, f) := readTitle { data := parseHex d, pos := pos.toNat?.getD 0 } (s.toInt?.getD 0)
    IO.println s!"rt {f.pos} {optHex w "none"}"
    loop h st
  | ["pt", s, b] =>
    let src := if b == "null" then none else some (parseHex b)
    IO.println s!"pt {toHex (pwReadTitle src (s.toNat?.getD 0))}"
    loop h st
  | ["tm", t, l] =>
    let tb := parseHex t
    let lb := parseHex l
    IO.println s!"tm {b2s (titleMatch tb lb)} {toHex (canon tb)} {toHex (canon lb)} {b2s (titleMatchStrict tb lb)}"
    loop h st
  | ["table"] => loop h {}
  | ["L", name, m, r, rcf, tmode, toff, tlen, traw, lrc, lmode, sane] =>
    let sp : Spec := { name := parseHex name, mod := m.toNat?.getD 1, rem := r.toNat?.getD 0, rcfail := rcf.toInt?.getD (-1),
                       tmode := tmode.toNat?.getD 0, toff := toff.toNat?.getD 0, tlen := tlen.toInt?.getD 0,
                       traw := parseHex traw, lrc := lrc.toInt?.getD 0, lmode := lmode.toNat?.getD 0, sane := sane != "0" }
    loop h { st with specs := st.specs.push sp }
  | "env" :: bg :: pg :: rest =>
    let pw := match rest with
      | [t, f] => some { title := if t == "none" then none else some (parseHex t), fname := parseHex f : PwHit }
      | _ => none
    loop h { st with bufG := parseHex bg, pwG := parseHex pg, pw := pw }
  | ["post", p, sc] => loop h { st with prep := p.toInt?.getD 0, scan := sc.toInt?.getD 0 }
  | ["info", "null"] => loop h { st with info := none }
  | ["info", n, t] => loop h { st with info := some { name := parseHex n, type := parseHex t } }
  | ["run", d] =>
    let s : Stream := { data := parseHex d }
    let (rc, inf, _) := testModule st.env s st.info
    IO.println s!"test {rc} {optHex (inf.map (·.name)) "null"} {optHex (inf.map (·.type)) "null"}"
    let l := loadModule st.env s
    IO.println s!"load {l.rc} {b2s l.recognized} {optHex l.name "-"} {optHex l.fmt "-"}"
    loop h st
  | ["wrap", kind, arg, decr, d] =>
    let data := parseHex d
    let src := mkSource kind arg data
    let dc := parseDecr decr
    let t := xmpTest st.env (fun _ => dc) src st.info {}
    let closedCaller := t.world.closed.contains callerId
    IO.println s!"wtest {t.rc} {optHex (t.info.map (·.name)) "null"} {optHex (t.info.map (·.type)) "null"} {b2s closedCaller} {(t.world.closed.filter (· == libId)).length}"
    let l := xmpLoad st.env (fun _ => dc) src {}
    let recog := match l.loaded with
      | some x => b2s x.recognized
      | none => "-"
    IO.println s!"wload {l.rc} {recog} {b2s (l.world.closed.contains callerId)} {(l.world.closed.filter (· == libId)).length}"
    loop h st
  | ["ct", f, d] =>
    let k := parseFmt f
    let data := parseHex d
    if data.isEmpty then IO.println "ct skip" else
      let t := k.test { data := data } true
      let n := k.test { data := data } false
      let buf := overlayOpt t.title (set0 (List.replicate nameSize 0xDD))
      IO.println s!"ct {t.rc} {toHex buf} {t.st.pos} {n.rc} {n.st.pos}"
    loop h st
  | ["cw", d] =>
    let data := parseHex d
    let e : Env := { loaders := coreLoaders idleBody, pw := fun _ => none, bufGarbage := List.replicate nameSize 0xDD, pwGarbage := [] }
    let i0 : Info := { name := List.replicate nameSize 0x55, type := List.replicate nameSize 0x55 }
    let (rc, inf, _) := testModule e { data := data } (some i0)
    if rc == 0 then
      IO.println s!"cw {rc} {toHex (cstr ((inf.map (·.type)).getD []))} {toHex ((inf.map (·.name)).getD [])}"
    else IO.println "cw none"
    loop h st
  | ["cn", f, d] =>
    IO.println s!"cn {toHex (adjustStringBuf (coreName (parseFmt f) (parseHex d)))}"
    loop h st
  | _ => loop h st

def main : IO Unit := do loop (← IO.getStdin) {}
