import XmpModel.ApiSpec
/-! Native driver for the C05 correspondence and oracle.

Input (from harness/c05_api.c), per sequence:
```
seq <id> <guarded>
c <fname> <a1> <a2> <a3> <a4>
o <ret> <early> <res> <mchn> <mlen> <mins> <mcflags> <mmode> <newPos> <rows> <tempoOk> <mixerType> <xmute64> | <snapshot>
…
endseq <id>
```
snapshot = st amp mix interp dsp flags cflags smpctl volume smixVol defpan mode voices chn len ins sxChn sxIns pos sxAlive mute64 vol128hex

Output, one line per call:
`r <seq> <k> <fname> <stBefore> <cellClass> <agree> <specReal> <specModel> <envOk> <fault> <detail…>`
* agree     model (run from the model's own state since `seq`) = real: return value and snapshot
            (in a cell where two refusal conditions hold, either documented code is accepted)
* specReal  `Spec.ok` on the real observations (state before, return, state after)
* specModel `Spec.ok` on the model's prediction
* envOk     the assumed ranges of externally decided inputs hold
A `c` line without `o` line (the harness died inside the call) yields `x <seq> <k> <fname> <stBefore> <modelFault>`.
-/
open Xmp Xmp.Api

def toI (s : String) : Int := s.toInt?.getD 0

def digitsToList (s : String) : List Int :=
  s.toList.map fun c => if c.isDigit then (c.toNat - '0'.toNat : Nat) else -1

def hexVal (c : Char) : Int :=
  if c.isDigit then (c.toNat - '0'.toNat : Nat)
  else if 'a' ≤ c && c ≤ 'f' then (c.toNat - 'a'.toNat + 10 : Nat) else -1000

def hexBytes (s : String) : List Int :=
  let rec go : List Char → List Int
    | a :: b :: rest => (let v := hexVal a * 16 + hexVal b; if v < 0 then -1 else v) :: go rest
    | _ => []
  go s.toList

def parseSnap (f : List String) : Option State :=
  match f with
  | [st, amp, mix, interp, dsp, flags, cflags, smpctl, volume, smixVol, defpan, mode, voices, chn, len, ins,
     sxChn, sxIns, pos, sxAlive, mute, vol] =>
    some { st := toI st, amp := toI amp, mix := toI mix, interp := toI interp, dsp := toI dsp, flags := toI flags,
           cflags := toI cflags, smpctl := toI smpctl, volume := toI volume, smixVol := toI smixVol,
           defpan := toI defpan, mode := toI mode, voices := toI voices, chn := toI chn, len := toI len,
           ins := toI ins, sxChn := toI sxChn, sxIns := toI sxIns, pos := toI pos, sxAlive := toI sxAlive != 0,
           mute := digitsToList mute, vol := hexBytes vol }
  | _ => none

def parseEnv (f : List String) : Option Env :=
  match f with
  | [early, res, mchn, mlen, mins, mcflags, mmode, newPos, rows, tempoOk, mixerType, xmute] =>
    some { early := toI early != 0, res := toI res, mchn := toI mchn, mlen := toI mlen, mins := toI mins,
           mcflags := toI mcflags, mmode := toI mmode, newPos := toI newPos, rows := toI rows,
           tempoOk := toI tempoOk != 0, mixerType := toI mixerType, xmute := digitsToList xmute }
  | _ => none

def kindOf (k : Int) : LoadKind := if k == 0 then .path else if k == 1 then .mem else if k == 2 then .file else .cb

def parseCall (name : String) (a b c d : Int) : Option Call :=
  match name with
  | "recreate" => some .recreate
  | "version" => some .version
  | "get_format_list" => some .getFormatList
  | "syserrno" => some .syserrno
  | "test_module" => some (.testModule (kindOf a))
  | "load_module" => some (.load (kindOf a) b)
  | "release_module" => some .release
  | "scan_module" => some .scan
  | "get_module_info" => some .getModuleInfo
  | "get_frame_info" => some .getFrameInfo
  | "start_player" => some (.start a b)
  | "play_frame" => some .playFrame
  | "play_buffer" => some (.playBuffer (a != 0) b c)
  | "end_player" => some .endPlayer
  | "next_position" => some .nextPos
  | "prev_position" => some .prevPos
  | "set_position" => some (.setPos a)
  | "set_row" => some (.setRow a)
  | "set_tempo_factor" => some (.setTempo (a != 0))
  | "stop_module" => some .stop
  | "restart_module" => some .restart
  | "seek_time" => some (.seekTime a)
  | "channel_mute" => some (.chanMute a b)
  | "channel_vol" => some (.chanVol a b)
  | "inject_event" => some (.inject a)
  | "set_player" => some (.setPlayer a b)
  | "get_player" => some (.getPlayer a)
  | "set_instrument_path" => some (.setInsPath (a != 0))
  | "start_smix" => some (.startSmix a b)
  | "smix_play_instrument" => some (.smixPlayIns a b c d)
  | "smix_play_sample" => some (.smixPlaySmp a b c d)
  | "smix_channel_pan" => some (.smixPan a b)
  | "smix_load_sample" => some (.smixLoad a b)
  | "smix_release_sample" => some (.smixRelease a)
  | "end_smix" => some .endSmix
  | _ => none

/-- which clause of the documented table the real outcome falls under (coverage of the cell table) -/
def cellClass (o : Obs) (c : Call) (e : Env) (ret : Int) : String :=
  let cell := Spec.cell o c e
  let base :=
    if cell.stateErr && cell.invalid then "state+invalid"
    else if cell.stateErr then "state"
    else if cell.invalid then "invalid"
    else if (cell.mayState || cell.mayInvalid) && ret < 0 then "tolerated-refusal"
    else if cell.mayState || cell.mayInvalid then "tolerated-accept"
    else if ret < 0 && !(c matches .getPlayer _) then "other-failure"
    else "success"
  base

def firstDiff (m r : State) : String :=
  let fs : List (String × Int × Int) :=
    [("st", m.st, r.st), ("amp", m.amp, r.amp), ("mix", m.mix, r.mix), ("interp", m.interp, r.interp), ("dsp", m.dsp, r.dsp),
     ("flags", m.flags, r.flags), ("cflags", m.cflags, r.cflags), ("smpctl", m.smpctl, r.smpctl),
     ("volume", m.volume, r.volume), ("smixVol", m.smixVol, r.smixVol), ("defpan", m.defpan, r.defpan),
     ("mode", m.mode, r.mode), ("voices", m.voices, r.voices), ("chn", m.chn, r.chn), ("len", m.len, r.len),
     ("ins", m.ins, r.ins), ("sxChn", m.sxChn, r.sxChn), ("sxIns", m.sxIns, r.sxIns), ("pos", m.pos, r.pos),
     ("sxAlive", if m.sxAlive then 1 else 0, if r.sxAlive then 1 else 0)]
  match fs.find? (fun x => x.2.1 != x.2.2) with
  | some (n, a, b) => s!"{n}:model={a},real={b}"
  | none =>
    if m.mute != r.mute then s!"mute:model={m.mute},real={r.mute}"
    else if m.vol != r.vol then s!"vol:model={m.vol},real={r.vol}"
    else "-"

structure Drv where
  seq : String := "?"
  k : Nat := 0
  model : State := State.init      -- the model's own state
  real : State := State.init       -- last real snapshot
  pending : Option (String × Call) := none
  synced : Bool := true            -- model still agrees with the real library in this sequence

partial def loop (h : IO.FS.Stream) (d : Drv) : IO Unit := do
  let line ← h.getLine
  if line.isEmpty then return ()
  let ws := line.trimAscii.toString.splitOn " "
  match ws with
  | "seq" :: id :: _ => loop h { seq := id }
  | ["c", name, a, b, c, e] =>
    match parseCall name (toI a) (toI b) (toI c) (toI e) with
    | some call => loop h { d with pending := some (name, call) }
    | none => IO.println s!"bad-call {name}"; loop h d
  | "o" :: ret :: rest =>
    match d.pending with
    | none => loop h d
    | some (name, call) =>
      let envF := rest.takeWhile (· != "|")
      let snapF := (rest.dropWhile (· != "|")).drop 1
      match parseEnv envF, parseSnap snapF with
      | some env, some snap =>
        let ret := toI ret
        let r := step d.model call env
        let specReal := Spec.ok d.real.toObs call env ret snap.toObs
        let cls0 := cellClass d.real.toObs call env ret
        -- when two documented refusal conditions hold at once the documentation does not order them: a different
        -- (allowed) error code with the same (absent) effect is not a disagreement
        let agree := d.synced && !r.fault && r.state == snap &&
                       (r.ret == ret || (cls0 == "state+invalid" && specReal))
        let specModel := Spec.ok d.model.toObs call env r.ret r.state.toObs
        let envOk := EnvOk d.real call env
        let cls := cellClass d.real.toObs call env ret
        let detail :=
          if d.synced && !agree then
            (if r.ret != ret then s!"ret:model={r.ret},real={ret}" else if r.fault then "model-predicts-fault" else firstDiff r.state snap)
          else "-"
        let b (x : Bool) := if x then "1" else "0"
        IO.println s!"r {d.seq} {d.k} {name} {d.real.st} {cls} {b agree} {b specReal} {b specModel} {b envOk} {b r.fault} {ret} {detail}"
        -- after a disagreement the model is re-based on the real state so that later calls are still compared
        let model' := if agree then r.state else snap
        loop h { d with k := d.k + 1, model := model', real := snap, pending := none }
      | _, _ => IO.println s!"bad-o {d.seq} {d.k}"; loop h { d with pending := none, k := d.k + 1 }
  | "endseq" :: _ =>
    match d.pending with
    | some (name, call) =>
      let r := step d.model call {}
      IO.println s!"x {d.seq} {d.k} {name} {d.real.st} {if r.fault then 1 else 0}"
      loop h { d with pending := none }
    | none => loop h d
  | _ => loop h d

def main : IO Unit := do loop (← IO.getStdin) {}
