import XmpModel.LoadPost
import XmpModel.LoadPostHdr
import XmpModel.LoadPostPlayer
/-! Native driver for C03.  Reads module dumps / raw-module descriptions in the
line format of harness/c03_dump.h.

* `begin wf …` … `end`   : evaluate the Lean predicate `WF` clause by clause on the dump of a
  really loaded module; prints `wf ok|FAIL <false clauses> | <tag>`.  A block whose tag does not
  contain `what=load` is a delta on the previous module (only `mod`, `seq`, `ctl` lines).
* `begin raw …` … `end`  : a raw module description plus the spied `scan` lines; prints
  `oblig ok|FAIL <false clauses of LoaderOblig>`, runs the model `finish` and prints `rc <n>`, `trace …`,
  the dump of the resulting module, `wfc <0|1>` (WFCommon), `wff <0|1>` (WF), `end`.
* `begin hdr <tag>`, one line `mod|s3m|xm|it <header fields>`, `end` : the header models of
  XmpModel/LoadPostHdr.lean; prints `hdr none | <tag>` or `hdr ok <chn pat trk ins smp len rst> rows <r>* | <tag>`.
* `begin rawload … rc=<n>` … `end` : the raw module of a REAL load (dumped between the format loader's
  return and the first modification, with the spied `scan` lines and the `cv` flag); prints
  `oblig ok|FAIL … | <tag>`, `sids ok|FAIL <quirk> | <tag>` (Player.sidsOK), runs `finishV`; a model failure is compared with `rc` at once
  (`fin ok rc|MISMATCH …`), a model success is kept and compared line by line with the following
  `begin wf … what=load` block (`fin ok -|MISMATCH line=… | <tag>`).
-/
open Xmp Xmp.LoadPost Xmp.Gen.Limits Xmp.LoadPost.Hdr Xmp.Gen.C03Hdr

def hexVal (c : Char) : Nat :=
  if c.isDigit then c.toNat - '0'.toNat else c.toNat - 'a'.toNat + 10

def parseHex (s : String) : List UInt8 :=
  if s == "-" then [] else
  let rec go : List Char → List UInt8
    | a :: b :: rest => UInt8.ofNat (hexVal a * 16 + hexVal b) :: go rest
    | _ => []
  go s.toList

def hexDigit (n : Nat) : Char := if n < 10 then Char.ofNat (48 + n) else Char.ofNat (87 + n)

def toHex (b : List UInt8) : String :=
  if b.isEmpty then "-" else
  String.ofList (b.flatMap fun x => [hexDigit (x.toNat / 16), hexDigit (x.toNat % 16)])

def int (s : String) : Int := s.toInt?.getD 0
def nat (s : String) : Nat := s.toNat?.getD 0

structure B where
  kind : String := ""
  tag : String := ""
  m : Module := default
  quirk : Nat := 0
  xxpP : Bool := false
  xxtP : Bool := false
  pats : Array (Option Pattern) := #[]
  trks : Array (Option Track) := #[]
  inss : Array Instrument := #[]
  envIdx : Nat := 0
  smps : Array Sample := #[]
  xtras : Array Xtra := #[]
  scans : Array (Nat × Nat × ScanRes) := #[]
  cv : Bool := false
  hdr : List String := []              -- the words of a `begin hdr` block's description line
  lines : Array String := #[]          -- the block's own lines (compared with `pending`)
  pending : Option (List String) := none   -- model result of the preceding `rawload` block

def emptyEnv : Envelope := Envelope.ofFlg 0 0 0 0 0 0 (List.replicate (2 * xmpMaxEnvPoints) 0)

def B.module (b : B) : Module :=
  { b.m with
    xxp := if b.xxpP then some b.pats.toList else none
    xxt := if b.xxtP then some b.trks.toList else none
    xxi := b.inss.toList, xxs := b.smps.toList, xtra := b.xtras.toList
    insvol := bit b.quirk quirkInsvol }

def triples : List String → List Channel
  | a :: b :: c :: rest => { pan := int a, vol := int b, flg := int c } :: triples rest
  | _ => []

def pairsNI : List String → List (Nat × Int)
  | a :: b :: rest => (nat a, int b) :: pairsNI rest
  | _ => []

def feed (b : B) (ws : List String) : B :=
  match ws with
  | "mod" :: pat :: trk :: chn :: ins :: smp :: spd :: bpm :: len :: rst :: gvl :: vb :: gvol :: q :: _ =>
    { b with quirk := nat q
             m := { b.m with pat := int pat, trk := int trk, chn := int chn, ins := int ins, smp := int smp,
                             spd := int spd, bpm := int bpm, len := int len, rst := int rst, gvl := int gvl,
                             volbase := int vb, gvol := int gvol } }
  | ["name", h] => { b with m := { b.m with name := parseHex h } }
  | ["type", h] => { b with m := { b.m with typ := parseHex h } }
  | ["xxo", h] => { b with m := { b.m with xxo := (parseHex h).map (·.toNat) } }
  | ["ctl", h] => { b with m := { b.m with seqCtl := (parseHex h).map (·.toNat) } }
  | "xxc" :: rest => { b with m := { b.m with xxc := triples rest } }
  | ["tab", a, c] => { b with xxpP := a == "1", xxtP := c == "1" }
  | "p" :: _ :: pres :: rows :: _ :: idx =>
    { b with pats := b.pats.push (if pres == "1" then some { rows := int rows, index := idx.map int } else none) }
  | "xxt" :: _ :: rows =>
    { b with trks := (rows.map fun r => if r == "N" then none else some ({ rows := int r } : Track)).toArray }
  | "i" :: _ :: nm :: vol :: nsm :: nsub :: gv =>
    { b with envIdx := 0
             inss := b.inss.push { name := parseHex nm, vol := int vol, nsm := int nsm
                                   sub := if int nsub < 0 then none else some (gv.map int)
                                   aei := emptyEnv, pei := emptyEnv, fei := emptyEnv } }
  | "u" :: _ :: _ :: sids =>
    let k := b.inss.size - 1
    { b with inss := b.inss.modify k fun x => { x with sids := sids.map int } }
  | "e" :: flg :: npt :: sus :: sue :: lps :: lpe :: _ :: data =>
    let d := data.map int
    let d := d ++ List.replicate (2 * xmpMaxEnvPoints - d.length) 0
    let e := Envelope.ofFlg (nat flg) (int npt) (int sus) (int sue) (int lps) (int lpe) d
    let k := b.inss.size - 1
    let inss := b.inss.modify k fun x =>
      if b.envIdx == 0 then { x with aei := e } else if b.envIdx == 1 then { x with pei := e } else { x with fei := e }
    { b with inss := inss, envIdx := b.envIdx + 1 }
  | ["s", _, nm, len, lps, lpe, flg, hd, gd, xs, xe] =>
    let (fl, flb, fs, fb, o) := Sample.flagsOf (nat flg)
    { b with smps := b.smps.push { name := parseHex nm, len := int len, lps := int lps, lpe := int lpe,
                                   floop := fl, floopBidir := flb, fsloop := fs, fsloopBidir := fb, other := o,
                                   hasData := hd == "1", guardOK := gd == "1" }
             xtras := b.xtras.push { sus := int xs, sue := int xe } }
  | "seq" :: n :: rest => { b with m := { b.m with numSeq := nat n, seqData := pairsNI rest } }
  | ["cv", v] => { b with cv := v == "1" }
  | "scan" :: ep :: chain :: time :: _ :: marks =>
    { b with scans := b.scans.push (nat ep, nat chain, { marks := marks.map nat, time := int time }) }
  | _ => b

def ints (l : List Int) : String := String.join (l.map fun x => s!" {x}")

def dumpEnv (e : Envelope) (withData : Bool) : String :=
  let n : Nat := if withData then 2 * (clampC e.npt 0 xmpMaxEnvPoints).toNat else 0
  s!"e {e.toFlg} {e.npt} {e.sus} {e.sue} {e.lps} {e.lpe} {n}{ints (e.data.take n)}"

def dump (m : Module) (quirk : Nat) : List String := Id.run do
  let mut out : Array String := #[]
  out := out.push s!"mod {m.pat} {m.trk} {m.chn} {m.ins} {m.smp} {m.spd} {m.bpm} {m.len} {m.rst} {m.gvl} {m.volbase} {m.gvol} {quirk}"
  out := out.push s!"name {toHex m.name}"
  out := out.push s!"type {toHex m.typ}"
  out := out.push s!"xxo {toHex (m.xxo.map UInt8.ofNat)}"
  out := out.push ("xxc" ++ String.join (m.xxc.map fun c => s!" {c.pan} {c.vol} {c.flg}"))
  out := out.push s!"tab {if m.xxp.isSome then 1 else 0} {if m.xxt.isSome then 1 else 0}"
  let chn := m.chn.toNat
  match m.xxp with
  | none => pure ()
  | some ps =>
    for i in [0:m.pat.toNat] do
      match (ps[i]?).join with
      | none => out := out.push s!"p {i} 0 0 0"
      | some p => out := out.push s!"p {i} 1 {p.rows} {chn}{ints (p.index.take chn)}"
  match m.xxt with
  | none => out := out.push "xxt 0"
  | some ts =>
    out := out.push (s!"xxt {m.trk.toNat}" ++ String.join ((ts.take m.trk.toNat).map fun t =>
      match t with | none => " N" | some t => s!" {t.rows}"))
  for x in m.xxi.take m.ins.toNat, i in [0:m.ins.toNat] do
    let (ns, gv) : Int × List Int := match x.sub with | none => (-1, []) | some l => (l.length, l)
    out := out.push s!"i {i} {toHex x.name} {x.vol} {x.nsm} {ns}{ints gv}"
    out := out.push s!"u {i} {x.sids.length}{ints x.sids}"
    out := out.push (dumpEnv x.aei true)
    out := out.push (dumpEnv x.pei false)
    out := out.push (dumpEnv x.fei false)
  for s in m.xxs.take m.smp.toNat, x in m.xtra.take m.smp.toNat, i in [0:m.smp.toNat] do
    out := out.push s!"s {i} {toHex s.name} {s.len} {s.lps} {s.lpe} {s.toFlg} {if s.hasData then 1 else 0} {if s.guardOK then 1 else 0} {x.sus} {x.sue}"
  out := out.push (s!"seq {m.numSeq}" ++ String.join (m.seqData.map fun p => s!" {p.1} {p.2}"))
  out := out.push s!"ctl {toHex (m.seqCtl.map UInt8.ofNat)}"
  return out.toList

/-- a `mod` line without its last field (`m->quirk`: module_quirks / player modes change it) -/
def normLine (l : String) : String :=
  if l.startsWith "mod " then " ".intercalate ((l.splitOn " ").take 13) else l

def firstDiff (a b : List String) (k : Nat := 0) : Option (Nat × String × String) :=
  match a, b with
  | [], [] => none
  | x :: xs, y :: ys => if normLine x == normLine y then firstDiff xs ys (k + 1) else some (k, x, y)
  | x :: _, [] => some (k, x, "<missing>")
  | [], y :: _ => some (k, "<missing>", y)

def tagRc (tag : String) : Int :=
  match (tag.splitOn " rc=") with
  | [_, r] => int ((r.splitOn " ").getD 0 "")
  | _ => 0

def obligLine (m : Module) : String :=
  let bad := (obligClauses m).filter (fun c => !c.2) |>.map (·.1)
  if bad.isEmpty then "ok -" else s!"FAIL {",".intercalate bad}"

def nats (l : List String) : List Nat := l.map nat

def countsLine (c : Counts) (rows : List Nat) : String :=
  s!"ok {c.chn} {c.pat} {c.trk} {c.ins} {c.smp} {c.len} {c.rst} rows{String.join (rows.map fun r => s!" {r}")}"

/-- `Option.mapM`-like: all row counts or `none` -/
def allRows : List (Option Nat) → Option (List Nat)
  | [] => some []
  | none :: _ => none
  | some r :: rest => (allRows rest).map (r :: ·)

def pairsNN : List Nat → List (Nat × Nat)
  | a :: b :: rest => (a, b) :: pairsNN rest
  | _ => []

/-- the header models of `XmpModel/LoadPostHdr.lean` on one header description -/
def hdrAnswer (ws : List String) : String :=
  match ws with
  | "mod" :: m0 :: m1 :: m2 :: m3 :: wow :: probe :: len :: restart :: _ :: orders =>
    match modHeader [nat m0, nat m1, nat m2, nat m3] (wow == "1") (probe == "1") (nat len) (nat restart) (nats orders) with
    | none => "none"
    | some c => countsLine c (List.replicate c.pat.toNat modRows)
  | "s3m" :: ffi :: ordnum :: insnum :: patnum :: mok :: _ :: rest =>
    let chset := nats (rest.take 32)
    let orders := nats ((rest.drop 32).drop 1)
    match s3mHeader (nat ffi) (nat ordnum) (nat insnum) (nat patnum) (mok == "1") chset orders with
    | none => "none"
    | some c => countsLine c (List.replicate c.pat.toNat s3mRows)
  | "xm" :: songlen :: restart :: channels :: patterns :: instruments :: tempo :: bpm :: headersz :: med :: version :: _ :: rows =>
    match xmHeader (nat songlen) (nat restart) (nat channels) (nat patterns) (nat instruments) (nat tempo) (nat bpm)
        (nat headersz) (med == "1") 0 with
    | none => "none"
    | some c =>
      match allRows ((nats rows).map (xmPatRows (nat version))) with
      | none => "none"
      | some rs => countsLine c (rs ++ [xmExtraRows])
  | "it" :: ordnum :: insnum :: smpnum :: patnum :: gv :: smode :: maxCh :: _ :: pats =>
    match itHeader (nat ordnum) (nat insnum) (nat smpnum) (nat patnum) (nat gv) (smode == "1") (nat maxCh) with
    | none => "none"
    | some c =>
      match allRows ((pairsNN (nats pats)).map fun p => itPatRows p.1 p.2) with
      | none => "none"
      | some rs => countsLine c rs
  | _ => "?"

/-- returns the model result to be compared with the next `wf … what=load` block -/
def finishBlock (b : B) : IO (Option (List String)) := do
  let m := b.module
  let scan : Nat → ScanRes := fun k => (b.scans[k]?.map (·.2.2)).getD { marks := [], time := 0 }
  if b.kind == "hdr" then
    IO.println s!"hdr {hdrAnswer b.hdr} | {b.tag}"
    return none
  else if b.kind == "wf" then
    let bad := (wfClauses m).filter (fun c => !c.2) |>.map (·.1)
    if bad.isEmpty then IO.println s!"wf ok - | {b.tag}"
    else IO.println s!"wf FAIL {",".intercalate bad} | {b.tag}"
    match b.pending with
    | none => pure ()
    | some ml =>
      match firstDiff b.lines.toList ml with
      | none => IO.println s!"fin ok - | {b.tag}"
      | some (k, r, mo) => IO.println s!"fin MISMATCH line={k} real=[{(r.take 160).toString}] model=[{(mo.take 160).toString}] | {b.tag}"
    return none
  else if b.kind == "rawload" then
    -- the raw module of a real load: obligations, then the model's `finishV` against how the load ended
    IO.println s!"oblig {obligLine m} | {b.tag}"
    -- the extra obligation the player's unguarded `sub->sid` uses rely on (C03_player_trusted)
    IO.println s!"sids {if Player.sidsOK (clampCounts m) then "ok" else "FAIL"} {b.quirk} | {b.tag}"
    let rc := tagRc b.tag
    match finishV b.cv scan m with
    | .error e =>
      if e.code == rc then IO.println s!"fin ok rc | {b.tag}"
      else IO.println s!"fin MISMATCH rc real={rc} model={e.code} | {b.tag}"
      return none
    | .ok r =>
      if rc != 0 then
        IO.println s!"fin MISMATCH rc real={rc} model=0 | {b.tag}"
        return none
      else return some (dump r b.quirk)
  else
    IO.println s!"oblig {obligLine m}"
    match finish scan m with
    | .error e =>
      IO.println s!"rc {e.code}"
      IO.println "end"
    | .ok r =>
      IO.println "rc 0"
      let tr := scanTrace scan r.len.toNat
      -- scanTrace is evaluated on the order-list length after prepareScan
      IO.println ("trace" ++ String.join (tr.map fun p => s!" {p.1} {p.2}"))
      for l in dump r b.quirk do IO.println l
      IO.println s!"wfc {if WFCommon r then 1 else 0}"
      IO.println s!"wff {if WF r then 1 else 0}"
      IO.println "end"
    return none

partial def loop (h : IO.FS.Stream) (b : B) : IO Unit := do
  let line ← h.getLine
  if line.isEmpty then return ()
  let l := line.trimAscii.toString
  if l.startsWith "begin " then
    let ws := l.splitOn " "
    let kind := ws.getD 1 ""
    let isLoad := (l.splitOn "what=load").length > 1
    let isDelta := kind == "wf" && !isLoad
    if isDelta then loop h { b with kind := kind, tag := l, pending := none, lines := #[] }
    else loop h { kind := kind, tag := l, pending := if kind == "wf" then b.pending else none }
  else if l == "end" then
    let pend ← if b.kind != "" then finishBlock b else pure b.pending
    loop h { b with kind := "", pending := pend }
  else if b.kind == "" then loop h b
  else if b.kind == "hdr" then loop h { b with hdr := l.splitOn " " }
  else
    let b' := feed b (l.splitOn " ")
    loop h (if b.kind == "wf" && b.pending.isSome then { b' with lines := b'.lines.push l } else b')

def main : IO Unit := do loop (← IO.getStdin) {}
