import XmpModel.LoadPost
/-! Native driver for C03.  Reads module dumps / raw-module descriptions in the
line format of harness/c03_dump.h.

* `begin wf …` … `end`   : evaluate the Lean predicate `WF` clause by clause on the dump of a
  really loaded module; prints `wf ok|FAIL <false clauses> | <tag>`.  A block whose tag does not
  contain `what=load` is a delta on the previous module (only `mod`, `seq`, `ctl` lines).
* `begin raw …` … `end`  : a raw module description plus the spied `scan` lines; runs the model
  `finish` and prints `rc <n>`, `trace …`, the dump of the resulting module, `wfc <0|1>`, `end`.
-/
open Xmp Xmp.LoadPost Xmp.Gen.Limits

def hexVal (c : Char) : Nat :=
  if c.isDigit then c.toNat - '0'.toNat else c.toNat - 'a'.toNat + 10

def parseHex (s : String) : List UInt8 :=
  if s == "-" then [] else
  let rec go : List Char → List UInt8
    | a :: b :: rest => UInt8.ofNat (hexVal a * 16 + hexVal b) :: go rest
    | _ => []
  go s.toList

def hexDigit (n : Nat) : Char := if n < 10 then Char.ofNat (48 + n) else Char.ofNat (87 + n)

def toHex (b : List UInt8) : String :=
  if b.isEmpty then "-" else
  String.ofList (b.flatMap fun x => [hexDigit (x.toNat / 16), hexDigit (x.toNat % 16)])

def int (s : String) : Int := s.toInt?.getD 0
def nat (s : String) : Nat := s.toNat?.getD 0

structure B where
  kind : String := ""
  tag : String := ""
  m : Module := default
  quirk : Nat := 0
  xxpP : Bool := false
  xxtP : Bool := false
  pats : Array (Option Pattern) := #[]
  trks : Array (Option Track) := #[]
  inss : Array Instrument := #[]
  envIdx : Nat := 0
  smps : Array Sample := #[]
  xtras : Array Xtra := #[]
  scans : Array (Nat × Nat × ScanRes) := #[]

def emptyEnv : Envelope := Envelope.ofFlg 0 0 0 0 0 0 (List.replicate (2 * xmpMaxEnvPoints) 0)

def B.module (b : B) : Module :=
  { b.m with
    xxp := if b.xxpP then some b.pats.toList else none
    xxt := if b.xxtP then some b.trks.toList else none
    xxi := b.inss.toList, xxs := b.smps.toList, xtra := b.xtras.toList
    insvol := bit b.quirk quirkInsvol }

def triples : List String → List Channel
  | a :: b :: c :: rest => { pan := int a, vol := int b, flg := int c } :: triples rest
  | _ => []

def pairsNI : List String → List (Nat × Int)
  | a :: b :: rest => (nat a, int b) :: pairsNI rest
  | _ => []

def feed (b : B) (ws : List String) : B :=
  match ws with
  | "mod" :: pat :: trk :: chn :: ins :: smp :: spd :: bpm :: len :: rst :: gvl :: vb :: gvol :: q :: _ =>
    { b with quirk := nat q
             m := { b.m with pat := int pat, trk := int trk, chn := int chn, ins := int ins, smp := int smp,
                             spd := int spd, bpm := int bpm, len := int len, rst := int rst, gvl := int gvl,
                             volbase := int vb, gvol := int gvol } }
  | ["name", h] => { b with m := { b.m with name := parseHex h } }
  | ["type", h] => { b with m := { b.m with typ := parseHex h } }
  | ["xxo", h] => { b with m := { b.m with xxo := (parseHex h).map (·.toNat) } }
  | ["ctl", h] => { b with m := { b.m with seqCtl := (parseHex h).map (·.toNat) } }
  | "xxc" :: rest => { b with m := { b.m with xxc := triples rest } }
  | ["tab", a, c] => { b with xxpP := a == "1", xxtP := c == "1" }
  | "p" :: _ :: pres :: rows :: _ :: idx =>
    { b with pats := b.pats.push (if pres == "1" then some { rows := int rows, index := idx.map int } else none) }
  | "xxt" :: _ :: rows =>
    { b with trks := (rows.map fun r => if r == "N" then none else some ({ rows := int r } : Track)).toArray }
  | "i" :: _ :: nm :: vol :: nsm :: nsub :: gv =>
    { b with envIdx := 0
             inss := b.inss.push { name := parseHex nm, vol := int vol, nsm := int nsm
                                   sub := if int nsub < 0 then none else some (gv.map int)
                                   aei := emptyEnv, pei := emptyEnv, fei := emptyEnv } }
  | "e" :: flg :: npt :: sus :: sue :: lps :: lpe :: _ :: data =>
    let d := data.map int
    let d := d ++ List.replicate (2 * xmpMaxEnvPoints - d.length) 0
    let e := Envelope.ofFlg (nat flg) (int npt) (int sus) (int sue) (int lps) (int lpe) d
    let k := b.inss.size - 1
    let inss := b.inss.modify k fun x =>
      if b.envIdx == 0 then { x with aei := e } else if b.envIdx == 1 then { x with pei := e } else { x with fei := e }
    { b with inss := inss, envIdx := b.envIdx + 1 }
  | ["s", _, nm, len, lps, lpe, flg, hd, gd, xs, xe] =>
    let (fl, flb, fs, fb, o) := Sample.flagsOf (nat flg)
    { b with smps := b.smps.push { name := parseHex nm, len := int len, lps := int lps, lpe := int lpe,
                                   floop := fl, floopBidir := flb, fsloop := fs, fsloopBidir := fb, other := o,
                                   hasData := hd == "1", guardOK := gd == "1" }
             xtras := b.xtras.push { sus := int xs, sue := int xe } }
  | "seq" :: n :: rest => { b with m := { b.m with numSeq := nat n, seqData := pairsNI rest } }
  | "scan" :: ep :: chain :: time :: _ :: marks =>
    { b with scans := b.scans.push (nat ep, nat chain, { marks := marks.map nat, time := int time }) }
  | _ => b

def ints (l : List Int) : String := String.join (l.map fun x => s!" {x}")

def dumpEnv (e : Envelope) (withData : Bool) : String :=
  let n : Nat := if withData then 2 * (clampC e.npt 0 xmpMaxEnvPoints).toNat else 0
  s!"e {e.toFlg} {e.npt} {e.sus} {e.sue} {e.lps} {e.lpe} {n}{ints (e.data.take n)}"

def dump (m : Module) (quirk : Nat) : List String := Id.run do
  let mut out : Array String := #[]
  out := out.push s!"mod {m.pat} {m.trk} {m.chn} {m.ins} {m.smp} {m.spd} {m.bpm} {m.len} {m.rst} {m.gvl} {m.volbase} {m.gvol} {quirk}"
  out := out.push s!"name {toHex m.name}"
  out := out.push s!"type {toHex m.typ}"
  out := out.push s!"xxo {toHex (m.xxo.map UInt8.ofNat)}"
  out := out.push ("xxc" ++ String.join (m.xxc.map fun c => s!" {c.pan} {c.vol} {c.flg}"))
  out := out.push s!"tab {if m.xxp.isSome then 1 else 0} {if m.xxt.isSome then 1 else 0}"
  let chn := m.chn.toNat
  match m.xxp with
  | none => pure ()
  | some ps =>
    for i in [0:m.pat.toNat] do
      match (ps[i]?).join with
      | none => out := out.push s!"p {i} 0 0 0"
      | some p => out := out.push s!"p {i} 1 {p.rows} {chn}{ints (p.index.take chn)}"
  match m.xxt with
  | none => out := out.push "xxt 0"
  | some ts =>
    out := out.push (s!"xxt {m.trk.toNat}" ++ String.join ((ts.take m.trk.toNat).map fun t =>
      match t with | none => " N" | some t => s!" {t.rows}"))
  for x in m.xxi.take m.ins.toNat, i in [0:m.ins.toNat] do
    let (ns, gv) : Int × List Int := match x.sub with | none => (-1, []) | some l => (l.length, l)
    out := out.push s!"i {i} {toHex x.name} {x.vol} {x.nsm} {ns}{ints gv}"
    out := out.push (dumpEnv x.aei true)
    out := out.push (dumpEnv x.pei false)
    out := out.push (dumpEnv x.fei false)
  for s in m.xxs.take m.smp.toNat, x in m.xtra.take m.smp.toNat, i in [0:m.smp.toNat] do
    out := out.push s!"s {i} {toHex s.name} {s.len} {s.lps} {s.lpe} {s.toFlg} {if s.hasData then 1 else 0} 1 {x.sus} {x.sue}"
  out := out.push (s!"seq {m.numSeq}" ++ String.join (m.seqData.map fun p => s!" {p.1} {p.2}"))
  out := out.push s!"ctl {toHex (m.seqCtl.map UInt8.ofNat)}"
  return out.toList

def finishBlock (b : B) : IO Unit := do
  let m := b.module
  if b.kind == "wf" then
    let bad := (wfClauses m).filter (fun c => !c.2) |>.map (·.1)
    if bad.isEmpty then IO.println s!"wf ok - | {b.tag}"
    else IO.println s!"wf FAIL {",".intercalate bad} | {b.tag}"
  else
    let scan : Nat → ScanRes := fun k => (b.scans[k]?.map (·.2.2)).getD { marks := [], time := 0 }
    match finish scan m with
    | .error e =>
      IO.println s!"rc {e.code}"
      IO.println "end"
    | .ok r =>
      IO.println "rc 0"
      let tr := scanTrace scan r.len.toNat
      -- scanTrace is evaluated on the order-list length after prepareScan
      IO.println ("trace" ++ String.join (tr.map fun p => s!" {p.1} {p.2}"))
      for l in dump r b.quirk do IO.println l
      IO.println s!"wfc {if WFCommon r then 1 else 0}"
      IO.println "end"

partial def loop (h : IO.FS.Stream) (b : B) : IO Unit := do
  let line ← h.getLine
  if line.isEmpty then return ()
  let l := line.trimAscii.toString
  if l.startsWith "begin " then
    let ws := l.splitOn " "
    let kind := ws.getD 1 ""
    let isDelta := kind == "wf" && !((l.splitOn "what=load").length > 1)
    if isDelta then loop h { b with kind := kind, tag := l }
    else loop h { kind := kind, tag := l }
  else if l == "end" then
    if b.kind != "" then finishBlock b
    loop h { b with kind := "" }
  else if b.kind == "" then loop h b
  else loop h (feed b (l.splitOn " "))

def main : IO Unit := do loop (← IO.getStdin) {}
