import XmpModel.Gates
/-! Native driver for the C09 correspondence.  Line protocol (one case per line, answers one
line each; table lines `dec`/`unp`/`lzu`/`excl` fill the parameter tables for the next gate case):

  crc32 <init8> <hex>      → crc32A (table routine) and the bitwise definition
  crc32ni <init8> <hex>    → crc32ANoInv, bitwise
  crc16 <init4> <hex>      → crc16IBM, bitwise
  bz <hex>                 → bzBlockCrc (table), bitwise MSB-first
  bzcomb <total8> <data8>  → bzCombine
  chunks32 <hex> <hex> …   → xz style chained crc32A from 0
  dec <inhex> <0|1> <outhex>                         (tinfl_decompress_mem_to_heap spy)
  unp <method> <bits> <outlen> <inhex> <0|1> <outhex> (arc_unpack spy)
  lzu <method> <outlen> <inhex> <0|1> <outhex>        (lzx_unpack spy)
  excl <namehex> <0|1>                               (libxmp_exclude_match spy)
  gzip <filehex> | arc <limit> <filehex> | arcfs <limit> <filehex> | lzx <limit> <filehex>
                           → `none` | `some <hex>`   (a parameter call the real run never made answers `none`)
  zip <method> <bitflag> <comp> <uncomp> <crc> <tailhex|none> <inflated hex|none>
  bzg <streamcrc8> (<hdrcrc8> <hex>)*   → bzDepack
  xzg <hdr12> <blockhdr> <check8> <index> <indexcrc8> <footer12> <payload>  → xzAccept (one piece)
  lz2 <props> <consumed-input hex> <piece hex>*      (xz_dec_lzma2_reset/_run spy: one finished block)
  inf <cap> <consumed-input hex> <outhex>            (tinfl_decompress spy: one member inflated to TINFL_STATUS_DONE)
  zipf <filehex>           → zipDepack (whole miniz reader: EOCD search, central directory, member selection, extract)
  xz <filehex>             → xzDepack (byte-level container model) with the lz2 table as LZMA2 decoder
-/
open Xmp Xmp.Crc Xmp.Gates

def hexVal (c : Char) : Nat :=
  if c.isDigit then c.toNat - '0'.toNat else if c.toNat ≥ 'a'.toNat then c.toNat - 'a'.toNat + 10 else c.toNat - 'A'.toNat + 10

def parseHex (s : String) : Bytes :=
  if s == "-" then [] else
  let rec go (acc : Array UInt8) : List Char → Array UInt8
    | a :: b :: rest => go (acc.push (UInt8.ofNat (hexVal a * 16 + hexVal b))) rest
    | _ => acc
  (go #[] s.toList).toList

def parseHexNat (s : String) : Nat := s.toList.foldl (fun a c => a * 16 + hexVal c) 0

def hexDigit (n : Nat) : Char := if n < 10 then Char.ofNat (48 + n) else Char.ofNat (87 + n)

def toHex (b : Bytes) : String :=
  if b.isEmpty then "-" else
  String.ofList (b.foldr (fun x acc => hexDigit (x.toNat / 16) :: hexDigit (x.toNat % 16) :: acc) [])

def hexN (digits v : Nat) : String :=
  String.ofList ((List.range digits).reverse.map fun i => hexDigit ((v / 16 ^ i) % 16))

structure Tabs where
  dec : List (Bytes × Option Bytes) := []
  unp : List ((Nat × Nat × Nat × Bytes) × Option Bytes) := []
  lzu : List ((Nat × Nat × Bytes) × Option Bytes) := []
  excl : List (Bytes × Bool) := []
  lz2 : List (Nat × Bytes × List Bytes) := []      -- props, consumed input, output pieces
  inf : List (Nat × Bytes × Bytes) := []           -- output capacity, consumed input, output

/-- look-ups record a miss through an IO.Ref-free trick: the tables return a sentinel and the
    driver checks membership before running the model -/
def lookupD {α β} [BEq α] (t : List (α × β)) (k : α) : Option β := (t.find? (·.1 == k)).map (·.2)

def showRes : Option Bytes → String
  | none => "none"
  | some o => "some " ++ toHex o

def optHex (ok : String) (h : String) : Option Bytes := if ok == "1" then some (parseHex h) else none

/-- marker output of a parameter miss: a payload no real decoder run can produce here -/
def missMark : Bytes := [0x4d, 0x49, 0x53, 0x53, 0x21, 0x6d, 0x69, 0x73, 0x73]

def runGate (t : Tabs) (kind : String) (limit : Nat) (f : Bytes) : String :=
  let excl := fun n => (lookupD t.excl n).getD false
  let aenv : ArcEnv := {
    unpack := fun m b i n => (lookupD t.unp (m, b, n, i)).getD none,
    excl := excl, limit := limit }
  let lenv : LzxEnv := {
    unpack := fun m i n => (lookupD t.lzu (m, n, i)).getD none,
    excl := excl, limit := limit }
  let r := match kind with
    | "gzip" => gzipDepack (fun c => (lookupD t.dec c).getD none) f
    | "arc" => arcDepack aenv f
    | "arcfs" => arcfsDepack aenv f
    | _ => lzxDepack lenv f
  showRes r

partial def loop (h : IO.FS.Stream) (t : Tabs) : IO Unit := do
  let line ← h.getLine
  if line.isEmpty then return ()
  let ws := line.trimAscii.toString.splitOn " "
  match ws with
  | ["crc32", i, m] =>
    let c := BitVec.ofNat 32 (parseHexNat i); let b := parseHex m
    IO.println s!"{hexN 8 (crc32A b c).toNat} {hexN 8 (~~~ crcBitwise P32 (~~~ c) b).toNat}"
    loop h t
  | ["crc32ni", i, m] =>
    let c := BitVec.ofNat 32 (parseHexNat i); let b := parseHex m
    IO.println s!"{hexN 8 (crc32ANoInv b c).toNat} {hexN 8 (crcBitwise P32 c b).toNat}"
    loop h t
  | ["crc16", i, m] =>
    let c := BitVec.ofNat 16 (parseHexNat i); let b := parseHex m
    IO.println s!"{hexN 4 (crc16IBM b c).toNat} {hexN 4 (crcBitwise P16 c b).toNat}"
    loop h t
  | ["bz", m] =>
    let b := parseHex m
    IO.println s!"{hexN 8 (bzBlockCrc b).toNat} {hexN 8 (~~~ crcBitwiseM PBz 0xFFFFFFFF#32 b).toNat}"
    loop h t
  | ["bzcomb", a, b] =>
    IO.println (hexN 8 (bzCombine (BitVec.ofNat 32 (parseHexNat a)) (BitVec.ofNat 32 (parseHexNat b))).toNat)
    loop h t
  | "chunks32" :: cs =>
    let r := (cs.map parseHex).foldl (fun c d => crc32A d c) 0
    IO.println s!"{hexN 8 r.toNat} {hexN 8 (crc32A (cs.map parseHex).flatten 0).toNat}"
    loop h t
  | ["dec", i, ok, o] => loop h { t with dec := (parseHex i, optHex ok o) :: t.dec }
  | ["unp", m, b, n, i, ok, o] =>
    loop h { t with unp := ((m.toNat?.getD 0, b.toNat?.getD 0, n.toNat?.getD 0, parseHex i), optHex ok o) :: t.unp }
  | ["lzu", m, n, i, ok, o] =>
    loop h { t with lzu := ((m.toNat?.getD 0, n.toNat?.getD 0, parseHex i), optHex ok o) :: t.lzu }
  | ["excl", n, r] => loop h { t with excl := (parseHex n, r == "1") :: t.excl }
  | ["gzip", f] => IO.println (runGate t "gzip" 0 (parseHex f)); loop h {}
  | "lz2" :: pr :: cons :: chunks =>
    loop h { t with lz2 := t.lz2 ++ [(pr.toNat?.getD 0, parseHex cons, chunks.map parseHex)] }
  | ["inf", cap, cons, o] => loop h { t with inf := t.inf ++ [(cap.toNat?.getD 0, parseHex cons, parseHex o)] }
  | ["zipf", f] =>
    let env : ZipEnv := {
      inflate := fun comp cap => (t.inf.find? (fun e => e.1 == cap && e.2.1.isPrefixOf comp)).map (·.2.2),
      excl := fun n => (lookupD t.excl n).getD false,
      junk := fun n => if n ≤ 4096 then List.replicate n 0xbe else missMark }
    IO.println (showRes (zipDepack env (parseHex f))); loop h {}
  | ["xz", f] =>
    let lz := fun (props : Nat) (inp : Bytes) =>
      (t.lz2.find? (fun e => e.1 == props && e.2.1.isPrefixOf inp)).map (fun e => (e.2.1.length, e.2.2))
    IO.println (showRes (xzDepack lz (parseHex f))); loop h {}
  | [k, lim, f] =>
    if k == "arc" || k == "arcfs" || k == "lzx" then
      IO.println (runGate t k (lim.toNat?.getD 0) (parseHex f)); loop h {}
    else loop h t
  | ["zip", m, bf, cs, us, crc, tl, inf] =>
    let st : ZipStat := { method := m.toNat?.getD 0, bitFlag := bf.toNat?.getD 0, compSize := cs.toNat?.getD 0,
                          uncompSize := us.toNat?.getD 0, crc32 := crc.toNat?.getD 0 }
    let infl := if inf == "none" then none else some (parseHex inf)
    let r := zipMember (fun _ cap => match infl with
                          | some o => if o.length ≤ cap then some o else none
                          | none => none) missMark st (if tl == "none" then none else some (parseHex tl))
    IO.println (showRes r); loop h {}
  | ["xzg", hdr, bh, check, index, icrc, footer, payload] =>
    -- single-block xz stream, the decoder's output given as one piece
    IO.println (showRes (xzAccept (parseHex hdr) (parseHex bh) [parseHex payload] (parseHexNat check) (parseHex index)
      (parseHexNat icrc) (parseHex footer))); loop h {}
  | "bzg" :: sc :: rest =>
    let rec blocks : List String → List (BitVec 32 × Bytes)
      | c :: d :: more => (BitVec.ofNat 32 (parseHexNat c), parseHex d) :: blocks more
      | _ => []
    IO.println (showRes (bzDepack (blocks rest) (BitVec.ofNat 32 (parseHexNat sc)))); loop h {}
  | _ => loop h t

def main : IO Unit := do loop (← IO.getStdin) {}
