import XmpModel.Wrap
import XmpModel.Gen.DataWriters
/-! Native driver for the C15 correspondence: runs the model `Xmp.Wrap` on the
case lines written by harness/c15_wrap.c (line protocol documented there).
`LOOP_PROLOGUE`/`LOOP_EPILOGUE` come from the generated `Gen.DataWriters`, the
same constants the theorems of `XmpProps.C15` are instantiated with. -/
open Xmp Xmp.Wrap

def fieldT (path : String) : CInt :=
  match Xmp.Gen.DataWriters.indexFields.find? (fun f => f.1 == path) with
  | some f => ⟨f.2.2.1, f.2.2.2⟩
  | none => ⟨0, false⟩

/-- the declared C types of `xc->invloop.count/pos` in the working tree -/
def widths : InvWidths := { count := fieldT "channel_data.invloop.count", pos := fieldT "channel_data.invloop.pos" }

def consts : Consts := { prologue := Xmp.Gen.DataWriters.loopPrologue, epilogue := Xmp.Gen.DataWriters.loopEpilogue }

def parseElems (s : String) : List Nat :=
  if s == "-" then [] else (s.splitOn ",").map fun x => x.toNat?.getD 0

def showElems (l : List Nat) : String :=
  if l.isEmpty then "-" else ",".intercalate (l.map toString)

def b (s : String) : Bool := s != "0"
def bi (x : Bool) : String := if x then "1" else "0"

def window (d : List Nat) (lo hi : Int) : List Nat :=
  let lo := if lo < 0 then 0 else lo
  let hi := if hi > d.length then (d.length : Int) else hi
  if hi ≤ lo then [] else (d.drop lo.toNat).take (hi - lo).toNat

structure Cur where
  voc : Int
  st : VState Nat

structure S where
  mem0 : Mem Nat := []
  hdrs : Array SampleHdr := #[]
  cur : Option Cur := none
  mem : Mem Nat := []          -- memory between voice iterations
  nearest : Bool := false

def ensure (s : S) (id : Nat) : S :=
  if id < s.mem0.length then s else
    let pad := List.replicate (id + 1 - s.mem0.length) ({ base := 0, data := [] } : Sample Nat)
    { s with mem0 := s.mem0 ++ pad, mem := s.mem ++ pad,
             hdrs := s.hdrs ++ (List.replicate (id + 1 - s.hdrs.size) ({} : SampleHdr)).toArray,
             cur := s.cur.map fun c => { c with st := { c.st with mem := c.st.mem ++ pad } } }

/-- leave the current voice iteration: the final `reset_sample_wraparound` -/
def finalize (s : S) : S :=
  match s.cur with
  | none => s
  | some c => { s with cur := none, mem := resetWrapM c.st.ld c.st.mem }

def sameData (a b : Mem Nat) : Nat :=
  (List.zip a b).foldl (fun n p => if p.1.data == p.2.data then n else n + 1) 0

partial def loop (h : IO.FS.Stream) (s : S) : IO Unit := do
  let line ← h.getLine
  if line.isEmpty then return ()
  let ws := line.trimAscii.toString.splitOn " "
  match ws with
  | ["wrap", is16, stereo, nearest, sptrNull, lp, sl, bidir, start, en, base, elems] =>
    let vi : Voice := { smp := 0, sptrNull := b sptrNull, start := start.toInt?.getD 0, «end» := en.toInt?.getD 0,
                        sampleLoop := b sl, bidir := b bidir }
    let xxs : SampleHdr := { loop := b lp, is16 := b is16, stereo := b stereo }
    let m := parseElems elems
    let bs := base.toNat?.getD 0
    let (ld, m1) := initWrap consts (b nearest) bs vi xxs m
    if ld.active then
      IO.println s!"r_init 1 {ld.start} {ld.end} {bi ld.firstLoop} {bi ld.is16} {ld.pnum} {ld.enum} {showElems ld.prologue} {showElems ld.epilogue} {showElems m1}"
    else
      IO.println s!"r_init 0 {showElems m1}"
    IO.println s!"r_reset {showElems (resetWrap bs ld m1)}"
    loop h s
  | ["sample", id, is16, stereo, lp, base, elems] =>
    let id := id.toNat?.getD 0
    let s := ensure s id
    let smp : Sample Nat := { base := base.toNat?.getD 0, data := parseElems elems }
    let hd : SampleHdr := { loop := b lp, is16 := b is16, stereo := b stereo }
    loop h { s with mem0 := s.mem0.set id smp, mem := s.mem.set id smp, hdrs := s.hdrs.setIfInBounds id hd,
                    cur := s.cur.map fun c => { c with st := { c.st with mem := c.st.mem.set id smp } } }
  | ["tick"] => loop h (finalize s)
  | "mix" :: voc :: id :: start :: en :: sl :: bidir :: nearest :: _ =>
    let id := id.toNat?.getD 0
    let voc := voc.toInt?.getD 0
    let nearest := b nearest
    let vi : Voice := { smp := id, start := start.toInt?.getD 0, «end» := en.toInt?.getD 0, sampleLoop := b sl, bidir := b bidir }
    let xxs := s.hdrs.getD id {}
    let (s, st) : S × VState Nat :=
      match s.cur with
      | some c =>
        if c.voc == voc then
          if c.st.vi = vi ∧ c.st.xxs = xxs then (s, runInner consts nearest [.mix] c.st)
          else if c.st.vi.smp ≠ id then (s, runInner consts nearest [.hotswap vi xxs, .mix] c.st)
          else (s, runInner consts nearest [.loopChange vi, .mix] c.st)
        else
          let s := finalize s
          let r := initWrapM consts nearest vi xxs s.mem
          (s, runInner consts nearest [.mix] { ld := r.1, vi := vi, xxs := xxs, mem := r.2 })
      | none =>
        let r := initWrapM consts nearest vi xxs s.mem
        (s, runInner consts nearest [.mix] { ld := r.1, vi := vi, xxs := xxs, mem := r.2 })
    let seenMem : Mem Nat := match st.seen.getLast? with
      | some (_, _, m) => m
      | none => st.mem
    let smp := seenMem.getD id { base := 0, data := [] }
    let ch : Int := if xxs.stereo then 2 else 1
    let sI : Int := smp.base + vi.start * ch
    let eI : Int := smp.base + vi.end * ch
    IO.println s!"m_mix {showElems (window smp.data (sI - 2 * ch) (sI + 2 * ch))} {showElems (window smp.data (eI - 2 * ch) (eI + 3 * ch))}"
    loop h { s with cur := some { voc := voc, st := { st with seen := [] } }, nearest := nearest }
  | ["tickend", _] =>
    let s := finalize s
    IO.println s!"m_tickend {sameData s.mem s.mem0}"
    loop h s
  | ["inv", _, _, speed, count0, pos0, _, _, smp, mapped, vsmp, vq, vqsmp, vpaused, present, lp, slp, is16, dnull, lps, lpe, sus, sue, _, _] =>
    let cv : ChanVoice := { chanSmp := smp.toInt?.getD 0, mapped := b mapped, voiceSmp := vsmp.toInt?.getD 0, queued := b vq,
                            queuedSmp := vqsmp.toInt?.getD 0, paused := (vpaused.toNat?.getD 0) % 2 == 1 }
    let st : InvState := { speed := speed.toNat?.getD 0, count := count0.toInt?.getD 0, pos := pos0.toInt?.getD 0 }
    let x : Option InvSample := if b present then
        some { loop := b lp, sloop := b slp, is16 := b is16, dataNull := b dnull, lps := lps.toInt?.getD 0,
               lpe := lpe.toInt?.getD 0, sus := sus.toInt?.getD 0, sue := sue.toInt?.getD 0 }
      else none
    let sh (r : InvState × Option Int) : String :=
      s!"{r.1.count}:{r.1.pos}:" ++ (match r.2 with | some i => toString i | none => "-")
    let tbl := Xmp.Gen.DataWriters.invloopTable
    -- third alternative: the player reset the channel (position change, module restart) earlier in this tick
    let st0 : InvState := { st with count := 0, pos := 0 }
    IO.println s!"m_inv {sh (invloopStepW widths tbl false st x)} {sh (invloopStepW widths tbl true st x)} {sh (invloopStepW widths tbl false st0 x)} coh={bi cv.coherent}"
    loop h s
  | "vend" :: ismod :: lp :: slp :: lb :: sb :: lf :: len :: lps :: lpe :: sus :: sue :: rel :: sl :: _ =>
    let x : SmpInfo := { loop := b lp, sloop := b slp, loopBidir := b lb, sloopBidir := b sb, loopFull := b lf,
                         len := len.toInt?.getD 0, lps := lps.toInt?.getD 0, lpe := lpe.toInt?.getD 0,
                         sus := sus.toInt?.getD 0, sue := sue.toInt?.getD 0 }
    let r := adjustVoiceEnd x (b ismod) (b rel) (b sl)
    IO.println s!"m_vend {r.1} {r.2.1} {bi r.2.2}"
    loop h s
  | "skel_begin" :: _ => loop h {}
  | _ => loop h s

def main : IO Unit := do loop (← IO.getStdin) {}
