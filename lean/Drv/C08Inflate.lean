import XmpModel.Inflate
/-! Native driver for the inflate correspondence of C08 (line protocol, see tools/c08_inflate.py).
    `inf <hex>` / `zinf <hex>`: run `Xmp.Inflate.inflateE` / `inflateZlib`;
    `enc <block> <block> …`: write a stream with the Lean encoder `deflate`, print what it stands for and whether
    the block list satisfies the hypotheses of the round-trip theorem (`blocksOkB`). -/
open Xmp Xmp.Inflate

def hexVal (c : Char) : Nat :=
  if c.isDigit then c.toNat - '0'.toNat else c.toNat - 'a'.toNat + 10

def parseHex (s : String) : Bytes :=
  if s == "-" then [] else
  let rec go (cs : List Char) (acc : Array UInt8) : Array UInt8 :=
    match cs with
    | a :: b :: rest => go rest (acc.push (UInt8.ofNat (hexVal a * 16 + hexVal b)))
    | _ => acc
  (go s.toList #[]).toList

def hexDigit (n : Nat) : Char := if n < 10 then Char.ofNat (48 + n) else Char.ofNat (87 + n)

def toHex (b : Bytes) : String :=
  if b.isEmpty then "-" else
  String.ofList (b.foldr (fun x acc => hexDigit (x.toNat / 16) :: hexDigit (x.toNat % 16) :: acc) [])

def fnv (b : Bytes) : UInt64 :=
  b.foldl (fun h x => (h ^^^ x.toUInt64) * 0x100000001b3) 0xcbf29ce484222325

def hex64 (v : UInt64) : String :=
  String.ofList ((List.range 16).map fun i => hexDigit ((v.toNat >>> (4 * (15 - i))) % 16))

def showRes (r : Except Err (Bytes × Nat)) : String :=
  match r with
  | .ok (o, c) => s!"ok {c} {o.length} {hex64 (fnv o)}"
  | .error .fail => "fail"
  | .error .trunc => "trunc"
  | .error .fuel => "fuel"

def parseNats (s : String) : List Nat := if s == "-" then [] else (s.splitOn ",").filterMap (·.toNat?)

def parseTok (s : String) : Option Tok :=
  match s.toList with
  | 'L' :: a :: b :: [] => some (.lit (UInt8.ofNat (hexVal a * 16 + hexVal b)))
  | 'M' :: rest =>
    match (String.ofList rest).splitOn "," with
    | [l, d] => some (.mat (l.toNat?.getD 3) (d.toNat?.getD 1))
    | _ => none
  | _ => none

def parseToks (s : String) : List Tok := if s == "-" then [] else (s.splitOn ".").filterMap parseTok

def parseClTok (s : String) : Option ClTok :=
  match s.toList with
  | 'l' :: rest => (String.ofList rest).toNat?.map ClTok.len
  | 'r' :: rest => (String.ofList rest).toNat?.map ClTok.rep
  | 'z' :: rest => (String.ofList rest).toNat?.map ClTok.zeros
  | _ => none

def parseBlock (s : String) : Option Block :=
  match s.splitOn ":" with
  | ["s", hex] => some (.stored (parseHex hex))
  | ["f", toks] => some (.fixed (parseToks toks))
  | ["d", ll, dl, toks] => some (.dyn (parseNats ll) (parseNats dl) (parseToks toks))
  | ["g", cll, cltoks, nlit, toks] =>
    some (.dynG (parseNats cll) ((cltoks.splitOn ".").filterMap parseClTok) (nlit.toNat?.getD 257) (parseToks toks))
  | _ => none

def handle (line : String) : IO Unit := do
  match line.trimAscii.toString.splitOn " " with
  | ["inf", hex] => IO.println s!"R {showRes (inflateE (parseHex hex))}"
  | ["zinf", hex] => IO.println s!"R {showRes (inflateZlib (parseHex hex))}"
  | "enc" :: blocks =>
    let bs := blocks.filterMap parseBlock
    let e := expand bs
    IO.println s!"E {toHex (deflate bs)} {e.length} {hex64 (fnv e)} {if !bs.isEmpty && blocksOkB #[] bs then 1 else 0}"
  | [""] => pure ()
  | _ => IO.println "?"

partial def loop (h : IO.FS.Stream) : IO Unit := do
  let line ← h.getLine
  if line.isEmpty then return
  handle line
  loop h

def main : IO Unit := do
  loop (← IO.getStdin)
