import XmpModel.LoadPostCore
/-! Native driver for the C03 × C19 sub-check (tools/c03_core.py).  Line protocol (stdin → stdout):

* `raw <fmt> <id> <hex>` : runs the C19 reader of `<fmt>` (mod|s3m|xm|it) on the bytes; prints `begin <id>`, then
  `silent` (the reader refuses the bytes) or
    - the dump of `toRaw L song {}` (default `Extra`) in the line format of harness/c03_dump.h (no `seq`/`ctl`),
    - `oblig ok -|FAIL <clauses>`  (`LoaderOblig` evaluated: what `C03_core_*_oblig` proves),
    - `songok <0|1>` (`SongOk`), `pcmok <0|1>` (`PcmOk`),
  then `end`.
-/
open Xmp Xmp.LoadPost Xmp.LoadPost.Core Xmp.Gen.Limits

def hexVal (c : Char) : Nat :=
  if c.isDigit then c.toNat - '0'.toNat
  else if c.toNat ≥ 'a'.toNat then c.toNat - 'a'.toNat + 10 else c.toNat - 'A'.toNat + 10

def parseHex (s : String) : Bytes :=
  if s == "-" then [] else
  let rec go (cs : List Char) (acc : Array UInt8) : Array UInt8 :=
    match cs with
    | a :: b :: rest => go rest (acc.push (UInt8.ofNat (hexVal a * 16 + hexVal b)))
    | _ => acc
  (go s.toList #[]).toList

def hexDigit (n : Nat) : Char := if n < 10 then Char.ofNat (48 + n) else Char.ofNat (87 + n)

def toHex (b : List UInt8) : String :=
  if b.isEmpty then "-" else
  b.foldl (fun (s : String) x => (s.push (hexDigit (x.toNat / 16))).push (hexDigit (x.toNat % 16))) ""

def ints (l : List Int) : String := String.join (l.map fun x => s!" {x}")

def dumpEnv (e : Envelope) (withData : Bool) : String :=
  let n : Nat := if withData then 2 * (clampC e.npt 0 xmpMaxEnvPoints).toNat else 0
  s!"e {e.toFlg} {e.npt} {e.sus} {e.sue} {e.lps} {e.lpe} {n}{ints (e.data.take n)}"

/-- the raw dump of harness/c03_dump.h (`c03_dump_ex(…, raw = 1)`) -/
def dump (m : RawModule) : List String := Id.run do
  let mut out : Array String := #[]
  out := out.push s!"mod {m.pat} {m.trk} {m.chn} {m.ins} {m.smp} {m.spd} {m.bpm} {m.len} {m.rst} {m.gvl} {m.volbase} {m.gvol} 0"
  out := out.push s!"name {toHex m.name}"
  out := out.push s!"type {toHex m.typ}"
  out := out.push s!"xxo {toHex (m.xxo.map UInt8.ofNat)}"
  out := out.push ("xxc" ++ String.join (m.xxc.map fun c => s!" {c.pan} {c.vol} {c.flg}"))
  out := out.push s!"tab {if m.xxp.isSome then 1 else 0} {if m.xxt.isSome then 1 else 0}"
  let chn := m.chn.toNat
  match m.xxp with
  | none => pure ()
  | some ps =>
    for i in [0:m.pat.toNat] do
      match (ps[i]?).join with
      | none => out := out.push s!"p {i} 0 0 0"
      | some p => out := out.push s!"p {i} 1 {p.rows} {chn}{ints (p.index.take chn)}"
  match m.xxt with
  | none => out := out.push "xxt 0"
  | some ts =>
    out := out.push (s!"xxt {m.trk.toNat}" ++ String.join ((ts.take m.trk.toNat).map fun t =>
      match t with | none => " N" | some t => s!" {t.rows}"))
  for x in m.xxi.take m.ins.toNat, i in [0:m.ins.toNat] do
    let (ns, gv) : Int × List Int := match x.sub with | none => (-1, []) | some l => (l.length, l)
    out := out.push s!"i {i} {toHex x.name} {x.vol} {x.nsm} {ns}{ints gv}"
    out := out.push s!"u {i} {if ns < 0 then 0 else x.sids.length}{ints (if ns < 0 then [] else x.sids)}"
    out := out.push (dumpEnv x.aei true)
    out := out.push (dumpEnv x.pei false)
    out := out.push (dumpEnv x.fei false)
  for s in m.xxs.take m.smp.toNat, x in m.xtra.take m.smp.toNat, i in [0:m.smp.toNat] do
    out := out.push s!"s {i} {toHex s.name} {s.len} {s.lps} {s.lpe} {s.toFlg} {if s.hasData then 1 else 0} {if s.guardOK then 1 else 0} {x.sus} {x.sue}"
  return out.toList

def obligLine (m : RawModule) : String :=
  let bad := (obligClauses m).filter (fun c => !c.2) |>.map (·.1)
  if bad.isEmpty then "ok -" else s!"FAIL {",".intercalate bad}"

def cmdRaw (fmt id hex : String) : IO Unit := do
  IO.println s!"begin {id}"
  let bytes := parseHex hex
  let r : Option (Layout × Song) := match fmt with
    | "mod" => (Fmt.Mod.read bytes).map (layMod, ·)
    | "s3m" => (Fmt.S3m.read bytes).map (layS3m, ·)
    | "xm" => (Fmt.Xm.read bytes).map (layXm, ·)
    | "it" => (Fmt.It.read bytes).map (layIt bytes, ·)
    | _ => none
  match r with
  | none => IO.println "silent"
  | some (L, s) =>
    let raw := toRaw L s {}
    for l in dump raw do IO.println l
    IO.println s!"oblig {obligLine raw}"
    IO.println s!"songok {if decide (SongOk s) then 1 else 0}"
    IO.println s!"pcmok {if decide (PcmOk s) then 1 else 0}"
  IO.println "end"

partial def loop (h : IO.FS.Stream) : IO Unit := do
  let line ← h.getLine
  if line.isEmpty then return ()
  let ws := line.trimAscii.toString.splitOn " "
  match ws with
  | ["raw", fmt, id, hex] => cmdRaw fmt id hex
  | _ => pure ()
  (← IO.getStdout).flush
  loop h

def main : IO Unit := do loop (← IO.getStdin)
