import XmpModel.PathSafe
/-! Native driver for the C10 correspondence (model side).  Line protocol,
all strings hex ("-" = empty, "none" = NULL / absent):

  copy <name> <n>                                  -> "-1" | "0 <dest>"
  cfc <size> <name> (nolist | <k> e1 .. ek)         -> "0" | "1 <entry>"
  find|ext <destLen> <name> <dir> <dir>             -> "0" | "1 <path>"
        <dir> ::= none | <path> (nolist | <k> e1 .. ek)      (instrument path as configured, "" allowed, first; module dir second)
  dirbase <path>                                   -> "<dirname> <basename>"
  flt <path|none>                                  -> "<k> p1 .. pk"
  mfp <path|none>                                  -> "<k> p1 .. pk"
  decrunch <header> <builtin 0|1> <filename|none>  -> "notpacked" | "internal" | "skipped" | "external a0 a1 .."
  hist {<entry> <path> <ok|format|load|depack|early> <none|release|play|playrelease>}*
                                                   -> per step "<loaded> <dirname|NULL> <basename|NULL>" after the load and after the follow-up
-/
open Xmp Xmp.PathSafe

def hexVal (c : Char) : Nat :=
  if c.isDigit then c.toNat - '0'.toNat else c.toNat - 'a'.toNat + 10

def parseHex (s : String) : Bytes :=
  if s == "-" then [] else
  let rec go : List Char → Bytes
    | a :: b :: rest => UInt8.ofNat (hexVal a * 16 + hexVal b) :: go rest
    | _ => []
  go s.toList

def hexDigit (n : Nat) : Char := if n < 10 then Char.ofNat (48 + n) else Char.ofNat (87 + n)

def toHex (b : Bytes) : String :=
  if b.isEmpty then "-" else
  String.ofList (b.flatMap fun x => [hexDigit (x.toNat / 16), hexDigit (x.toNat % 16)])

def parseOpt (s : String) : Option Bytes := if s == "none" then none else some (parseHex s)

/-- parse `nolist | k e1..ek`; returns listing and remaining tokens -/
def parseListing : List String → Option (List Bytes) × List String
  | "nolist" :: rest => (none, rest)
  | k :: rest =>
    let n := k.toNat?.getD 0
    (some ((rest.take n).map parseHex), rest.drop n)
  | [] => (none, [])

def parseDir : List String → Option Dir × List String
  | "none" :: rest => (none, rest)
  | p :: rest =>
    let (l, rest') := parseListing rest
    (some { path := parseHex p, listing := l }, rest')
  | [] => (none, [])

def showOpt : Option Bytes → String
  | none => "0"
  | some p => s!"1 {toHex p}"

def showList (l : List Bytes) : String :=
  String.intercalate " " (toString l.length :: l.map toHex)

def showCtx (c : LoadCtx) : String :=
  let f : Option Bytes → String := fun o => match o with | none => "NULL" | some b => toHex b
  s!"{if c.loaded then 1 else 0} {f c.dir} {f c.base}"

def handle (ws : List String) : Option String :=
  match ws with
  | ["copy", name, n] =>
    some (match copyName (parseHex name) (n.toNat?.getD 0) with
          | none => "-1"
          | some d => s!"0 {toHex d}")
  | "cfc" :: size :: name :: rest =>
    let (l, _) := parseListing rest
    some (showOpt (checkFilenameCase l (parseHex name) (size.toNat?.getD 0)))
  | "find" :: dl :: name :: rest =>
    let (ins, r1) := parseDir rest
    let (md, _) := parseDir r1
    some (showOpt (findInstrumentFile (instrumentPath ins none) md (dl.toNat?.getD 0) (parseHex name)))
  | "ext" :: dl :: name :: rest =>
    let (ins, r1) := parseDir rest
    let (md, _) := parseDir r1
    some (showOpt (externalSamplePath (instrumentPath ins none) md (dl.toNat?.getD 0) (parseHex name)))
  | ["dirbase", p] =>
    let b := parseHex p
    some s!"{toHex (getDirname b)} {toHex (getBasename b)}"
  | ["flt", p] => some (showList (fltCompanions (parseOpt p)))
  | ["mfp", p] => some (showList (mfpCompanions (parseOpt p)))
  | ["decrunch", b, bi, f] =>
    some (match decrunchDecision (parseHex b) (bi == "1") (parseOpt f) with
          | .notPacked => "notpacked"
          | .internal => "internal"
          | .skippedExternal => "skipped"
          | .external argv => String.intercalate " " ("external" :: argv.map toHex))
  | "hist" :: rest =>
    -- hist {<entry> <path|none> <outcome> <after>}* : context state after every load and after every follow-up action
    let rec go (c : LoadCtx) (ws : List String) (acc : List String) (fuel : Nat) : List String :=
      match fuel, ws with
      | fuel + 1, e :: p :: o :: a :: more =>
        let path := parseHex p
        let entry : Entry := match e with
          | "path" => .path path | "file" => .file | "mem" => .memory | _ => .callbacks
        let out : Outcome := match o with
          | "ok" => .ok | "format" => .formatError | "load" => .loadError | "depack" => .depackError | _ => .refusedEarly
        let c1 := histStep c (.load entry out)
        let c2 := match a with
          | "release" => histStep c1 .release
          | "playrelease" => histStep (histStep c1 .play) .release
          | "play" => histStep c1 .play
          | _ => c1
        go c2 more (acc ++ [showCtx c1, showCtx c2]) fuel
      | _, _ => acc
    some (String.intercalate " " (go {} rest [] rest.length))
  | _ => none

partial def loop (h : IO.FS.Stream) (out : IO.FS.Stream) : IO Unit := do
  let line ← h.getLine
  if line.isEmpty then return ()
  let ws := (line.trimAscii.toString.splitOn " ").filter (· ≠ "")
  match handle ws with
  | some s => out.putStrLn s
  | none => if ws.isEmpty then pure () else out.putStrLn "?"
  loop h out

def main : IO Unit := do
  loop (← IO.getStdin) (← IO.getStdout)
