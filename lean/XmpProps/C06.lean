import XmpProofs.Reset
/-!
# C06 — Rendering is deterministic and contexts are isolated from each other

Property theorems over the model `XmpModel.Reset` (struct context_data as a
function from the generated field enumeration to values; create / load /
start / end / release as field updates) and the generated list of writable
globals (`XmpModel.Gen.Globals`).

* `C06_history_independent` — two contexts that agree only on the persistent
  settings yield, after `load; start` of the same input with the same
  configuration, the same player view (every live member of context_data).
* `C06_loaded_view` — the same for what `xmp_get_frame_info` reads in state LOADED.
* `C06_reset_complete`, `C06_fields_classified` — the set inclusions behind it,
  over the *generated* field list (a new member of any struct breaks them until classified).
* `C06_persistent_kept` — load/start never change the persistent settings.
* `C06_leak_if_unreset` — the theorem is not vacuous: dropping the reset of
  `m.mvol` from the prologue (the defect found and repaired as `reset:m.mvol`)
  makes two such contexts differ.
* `C06_globals_whitelisted`, `C06_idempotent_fill`, `C06_crc_partial_fill` — the
  only process-wide writable data are two lazily filled constant tables and a
  never-written ABI pointer; filling is idempotent and every intermediate
  state of a re-fill equals the final table.
* `C06_pure` — in the model, what a context computes is a function of its own
  state and calls under every interleaving with another context's calls.
-/
namespace Xmp.Reset
open Xmp.Gen.CtxFields

/-! ## History independence -/

/-- **C06, reuse part.**  For every external behaviour `X` (loader, quirks, scan, allocation
initialisers — arbitrary functions of their declared read sets), every configuration and every pair
of well-formed prior states agreeing on the persistent settings: if the scan visits the start order
and records a non-zero speed for it, the player views after `load; start` coincide. -/
theorem C06_history_independent (X : Ext) (rate format : Int) (s₁ s₂ : Ctx)
    (hP : AgreeOn Persistent s₁ s₂) (w₁ : WF s₁) (w₂ : WF s₂)
    (hlive : load X s₁ .m_xxo_info_time (startOrd (load X s₁)) ≠ -1)
    (hspeed : load X s₁ .m_xxo_info_speed (startOrd (load X s₁)) ≠ 0) :
    playerView (startPlayer X rate format (load X s₁)) = playerView (startPlayer X rate format (load X s₂)) := by
  exact view_agree X rate format (load_agree X hP w₁ w₂) (load_partial X hP w₁ w₂)
    (load_state X s₁) (load_state X s₂) hlive hspeed

/-- a concrete external behaviour and a dirty prior state satisfying all hypotheses -/
def exampleExt : Ext where
  names := fun _ => cst 7
  loader := fun p f => match f with
    | .m_mod_len => some (cst 3)
    | .m_mod_pat => some (cst 2)
    | .m_mod_chn => some (cst (4 + p .m_smpctl 0))
    | _ => none
  quirks := fun r f => r f
  scan := fun r f => match f with
    | .m_xxo_info_time => fun i => if i < 3 then 10 * i else -1
    | .m_xxo_info_speed => cst 6
    | .m_num_sequences => cst 1
    | _ => r f
  start := fun _ _ => cst 5
  frameTime := fun a b c => a * b / c

def dirty : Ctx := fun f => if Persistent f then createContext 1 f else cst 77

example : playerView (startPlayer exampleExt 44100 0 (load exampleExt (createContext 1)))
    = playerView (startPlayer exampleExt 44100 0 (load exampleExt dirty)) := by
  apply C06_history_independent
  · intro f hf; cases f <;> first | rfl | exact absurd hf (by decide)
  · exact wf_create 1
  · constructor
    · intro h; exact absurd h (by decide)
    · intro h; exact absurd h (by decide)
  · decide
  · decide

/-- **C06, earlier player runs on the same loaded module.**  Playing (frames, position / volume / mute /
event-injection calls) writes only members outside `B` — the player-run state that `xmp_end_player`,
`libxmp_mixer_on` and `xmp_start_player` rewrite — so a context `P` that has been played and a context `L`
that has not, both in any state ≥ LOADED, agree on `B`; starting the player on either gives the same view.
(Module-wide state hidden behind `m.extra` is outside the model: the FAR tempo/vibrato extras leaked here
until `libxmp_reset_module_extras` was added, signature `reset:far_module_extras`; the harness compares them.) -/
theorem C06_restart_independent (X : Ext) (rate format : Int) (L P : Ctx)
    (hB : AgreeOn B L P) (hp : PartialAgree L P)
    (hlive : L .m_xxo_info_time (startOrd L) ≠ -1) (hspeed : L .m_xxo_info_speed (startOrd L) ≠ 0) :
    playerView (startPlayer X rate format L) = playerView (startPlayer X rate format P) :=
  restart_view_agree X rate format hB hp hlive hspeed

/-- a context that played for a while: position, volumes, mutes, a pending injected event, flow state -/
def played (s : Ctx) : Ctx
  | .p_ord => cst 2 | .p_row => cst 17 | .p_frame => cst 3 | .p_master_vol => cst 30
  | .p_channel_mute => cst 1 | .p_inject_event_flag => cst 1 | .p_inject_event_note => cst 60
  | .p_flow_jump => cst 5 | .p_loop_count => cst 2 | .s_mix => cst (-40) | .s_ticksize => cst 882 | .p_filter => cst 1
  | f => s f

example : playerView (startPlayer exampleExt 44100 0 (load exampleExt dirty))
    = playerView (startPlayer exampleExt 44100 0 (played (startPlayer exampleExt 22050 4 (load exampleExt dirty)))) := by
  apply C06_restart_independent
  · intro f hf; cases f <;> first | rfl | exact absurd hf (by decide)
  · intro f i hf _; cases f <;> first | rfl | exact absurd hf (by decide)
  · decide
  · decide

/-- members `xmp_get_frame_info` reads (legal from state LOADED on) -/
def InfoField : Field → Bool
  | .p_pos | .m_mod_len | .m_mod_xxo | .m_mod_pat | .m_mod_xxp | .m_mod_xxt | .m_mod_chn | .p_row | .p_frame | .p_speed | .p_bpm
  | .p_scan | .p_sequence | .p_frame_time | .p_current_time | .s_buffer | .s_ticksize | .p_gvol | .p_loop_count
  | .p_virt_virt_channels | .p_virt_virt_used | .p_xc_data | .state => true
  | _ => false

/-- `info->buffer_size`: the tick size scaled by the sample format (`s.format` is not reset by a load) -/
def bufferSize (s : Ctx) : Int :=
  s .s_ticksize 0 * (if (s .s_format 0).toNat &&& 4 != 0 then 1 else 2) * (if (s .s_format 0).toNat &&& 1 != 0 then 1 else 2)

/-- **C06 in state LOADED**: right after a load (before `xmp_start_player`) everything
`xmp_get_frame_info` reports is independent of the context's history (this failed before the repair
`reset:p.sequence@loaded`, with an out-of-bounds read of the scan table). -/
theorem C06_loaded_view (X : Ext) (s₁ s₂ : Ctx) (hP : AgreeOn Persistent s₁ s₂) (w₁ : WF s₁) (w₂ : WF s₂) :
    (∀ f, InfoField f = true → load X s₁ f = load X s₂ f) ∧ bufferSize (load X s₁) = bufferSize (load X s₂)
    ∧ load X s₁ .p_sequence 0 = 0 := by
  have h7 := load_agree X hP w₁ w₂
  refine ⟨?_, ?_, rfl⟩
  · intro f hf
    apply h7
    cases f <;> first | rfl | exact absurd hf (by decide)
  · have t₁ : load X s₁ .s_ticksize 0 = 0 := rfl
    have t₂ : load X s₂ .s_ticksize 0 = 0 := rfl
    simp only [bufferSize, t₁, t₂, Int.zero_mul]

/-- **Reset completeness** over the generated field list: whatever a format loader may leave
untouched has a history-independent value when the loader starts. -/
theorem C06_reset_complete : ∀ f, LoaderMayWrite f = true → A2 f = true := loaderMayWrite_sub_A2

/-- Every leaf member of `struct context_data` is accounted for: it agrees after `load` (+ `mixer_on`),
or is rewritten by `xmp_start_player`, or is declared dead, or is a partially live array.  A member
added to any of the structs lands in none of the classes and breaks this theorem. -/
theorem C06_fields_classified : ∀ f : Field, (A8 f || StartWrites f || Dead f || PartialField f) = true := by
  intro f; cases f <;> rfl

/-- **Poison sets are sound w.r.t. the proofs.**  Whatever the harness overwrites before a load lies in the
agreement set after a load and is not persistent (so `C06_history_independent`, whose only hypothesis on
the prior states is agreement on `Persistent`, covers the poisoned context); whatever it overwrites before
`xmp_start_player` is rewritten by it and lies outside `B` (so `C06_restart_independent` covers it).  The
two sets also exhaust what must be reset: every member that is neither persistent, dead, partially live,
idle-by-invariant, a pointer-only member of the loader, nor `state` is poisoned at one of the two points. -/
theorem C06_poison_sets :
    (∀ f, LoadResets f = true → A7 f = true ∧ Persistent f = false) ∧
    (∀ f, StartResets f = true → (StartWrites f || MixerWrites f) = true ∧ B f = false ∧ Persistent f = false) ∧
    (∀ f, (LoadResets f || StartResets f || Persistent f || Dead f || PartialField f || IdleField f
            || LoaderMayWrite f || f == .state || f == .p_scan || f == .m_mod_len) = true) := by
  refine ⟨?_, ?_, ?_⟩
  · intro f hf; cases f <;> first | exact ⟨rfl, rfl⟩ | exact absurd hf (by decide)
  · intro f hf; cases f <;> first | exact ⟨rfl, rfl, rfl⟩ | exact absurd hf (by decide)
  · intro f; cases f <;> rfl

/-- **Closing a sound-effect mixer session leaves nothing behind.**  After `xmp_end_smix` (legal in every
state below PLAYING) each member of `smix_data` holds exactly what `xmp_create_context` gave it, whatever
session was open, and nothing else changes; so a context whose sessions were opened and closed agrees with a
fresh one on the `smix` part of `Persistent` and `C06_history_independent` applies to it.  (Dropping one of the
assignments of `xmp_end_smix`, e.g. `smix->chn = 0`, breaks the operation correspondence and the oracle:
signature `reset:smix.chn`.) -/
theorem C06_end_smix_created (s : Ctx) (r : Int) (hs : ¬ s .state 0 > K.XMP_STATE_LOADED) :
    (∀ f, SmixField f = true → endSmix s f = createContext r f) ∧
    (∀ f, SmixField f = false → endSmix s f = s f) ∧
    (∀ f, SmixField f = true → Persistent f = true) := by
  refine ⟨?_, ?_, ?_⟩
  · intro f hf; unfold endSmix; rw [if_neg hs]
    cases f <;> first | rfl | exact absurd hf (by decide)
  · intro f hf; unfold endSmix; rw [if_neg hs]
    cases f <;> first | rfl | exact absurd hf (by decide)
  · intro f hf; cases f <;> first | rfl | exact absurd hf (by decide)

/-- a session opened with any reservation and closed again: the smix members are those of a created context -/
example : ∀ f, SmixField f = true →
    endSmix (startSmix 4 3 (fun _ => 9) (createContext 1)) f = createContext 1 f := by
  intro f hf
  exact (C06_end_smix_created _ 1 (by decide)).1 f hf

/-- the classes are used consistently: nothing persistent is dead, partial or overwritten by start -/
theorem C06_persistent_disjoint : ∀ f, Persistent f = true →
    (StartWrites f || Dead f || PartialField f || LoaderMayWrite f || NameField f || MixerWrites f) = false := by
  intro f hf; cases f <;> first | rfl | exact absurd hf (by decide)

/-- load and start never modify the persistent settings -/
theorem C06_persistent_kept (X : Ext) (rate format : Int) (s : Ctx) (f : Field) (hf : Persistent f = true) :
    startPlayer X rate format (load X s) f = s f := by
  rw [startPlayer_loaded X rate format _ (load_state X s)]
  cases f <;> first
    | exact absurd hf (by decide)
    | exact pre_persistent s _ rfl

example : startPlayer exampleExt 8000 4 (load exampleExt dirty) .m_defpan 0 = 100 := by decide

/-! ## Non-vacuity: an unreset member leaks -/

/-- the prologue as it was before the repair `reset:m.mvol` -/
def prologueNoMvol (s : Ctx) : Ctx
  | .m_mvol => s .m_mvol
  | .m_mvolbase => s .m_mvolbase
  | f => prologue s f

def loadNoMvol (X : Ext) (s : Ctx) : Ctx :=
  setState K.XMP_STATE_LOADED (scanStep X (quirkStep X (epilogue (loaderStep X (prologueNoMvol (nameStep X (pre s)))))))

/-- a context that played an IT module with mix volume 128 and was released -/
def afterIT : Ctx
  | .m_mvol => cst 128
  | .m_mvolbase => cst 48
  | f => createContext 1 f

/-- a loader that, like the MOD loader, does not touch the mix volume -/
def modLikeExt : Ext := { exampleExt with loader := fun _ f => match f with
  | .m_mod_len => some (cst 3) | .m_mod_pat => some (cst 2) | _ => none }

/-- With the reset of `m.mvol` removed from the prologue the statement of
`C06_history_independent` is false: the witness is the replayed defect. -/
theorem C06_leak_if_unreset :
    AgreeOn Persistent (createContext 1) afterIT ∧ WF (createContext 1) ∧ WF afterIT ∧
    playerView (startPlayer modLikeExt 44100 0 (loadNoMvol modLikeExt (createContext 1))) .m_mvol 0
      ≠ playerView (startPlayer modLikeExt 44100 0 (loadNoMvol modLikeExt afterIT)) .m_mvol 0 := by
  refine ⟨?_, wf_create 1, ⟨?_, fun _ => rfl⟩, by decide⟩
  · intro f hf; cases f <;> first | rfl | exact absurd hf (by decide)
  · intro _ f hf; cases f <;> first | rfl | exact absurd hf (by decide)

/-- … while the repaired prologue gives both the fresh value -/
example : playerView (startPlayer modLikeExt 44100 0 (load modLikeExt afterIT)) .m_mvol 0 = 0 := by decide

/-! ## Process-wide writable data -/

open Xmp.Gen.Globals in
/-- the lazily filled constant tables the model knows: (file, symbol, the one function that fills it) -/
def lazyTables : List (String × String × List String) :=
  [("src/format.c", "_farray", ["format_list"]), ("src/loaders/vorbis.c", "crc_table", ["crc32_init"])]

open Xmp.Gen.Globals in
/-- a writable global is allowed if the library never writes it, or it is one of the modelled lazy tables
written only by its filling function -/
def globalAllowed (g : Global) : Bool :=
  g.writers.isEmpty || lazyTables.contains (g.file, g.name, g.writers)

open Xmp.Gen.Globals in
/-- **Global whitelist** over the list generated from the object files on every run: a new writable
global, or a new writer of an existing one, breaks this; as long as a lazy table exists its fill must
have the modelled shape (guarded by slot 0 / unconditional 256×8 CRC loop over a non-empty constant list). -/
theorem C06_globals_whitelisted :
    writableGlobals.all globalAllowed = true
    ∧ (writableGlobals.any (fun g => g.name == "_farray") = true → farrayFillGuarded = true ∧ formatLoaders ≠ [])
    ∧ (writableGlobals.any (fun g => g.name == "crc_table") = true → crcInitShapeOk = true) := by decide

/-- both fills are idempotent: re-running them (from any context, in any sequential order) changes nothing -/
theorem C06_idempotent_fill (poly : Nat) (g : Nat → Nat) (names : List String) (a : List (Option String))
    (hn : names ≠ []) :
    crcFill poly (crcFill poly g) = crcFill poly g ∧ farrayFill names (farrayFill names a) = farrayFill names a := by
  constructor
  · funext i; unfold crcFill; split <;> rfl
  · have key : ∀ (b : List (Option String)) (v : String), b.head? = some (some v) → farrayFill names b = b := by
      intro b v hv; unfold farrayFill; rw [hv]
    cases names with
    | nil => exact absurd rfl hn
    | cons n ns =>
      cases h : a.head? with
      | none =>
        have e : farrayFill (n :: ns) a = some n :: (ns.map some ++ [none]) := by unfold farrayFill; rw [h]; rfl
        rw [e]; exact key _ n rfl
      | some o =>
        cases o with
        | none =>
          have e : farrayFill (n :: ns) a = some n :: (ns.map some ++ [none]) := by unfold farrayFill; rw [h]; rfl
          rw [e]; exact key _ n rfl
        | some v => rw [key a v h]; exact key a v h

/-- a filled table never depends on what was there before, and what it holds is a function of constants -/
theorem C06_fill_const (poly : Nat) (g g' : Nat → Nat) (i : Nat) (hi : i < 256) :
    crcFill poly g i = crcFill poly g' i := by
  unfold crcFill; simp only [hi, if_true]

/-- `crc32_init` is called again on every Vorbis stream open: when the table is already filled, every
intermediate state of the re-fill (first `k` entries stored) *is* the filled table, so a reader of
another context can never observe a different value. -/
theorem C06_crc_partial_fill (poly : Nat) (g : Nat → Nat) (k : Nat) :
    crcPartial poly (crcFill poly g) k = crcFill poly g := by
  funext i
  unfold crcPartial crcFill
  by_cases h : i < k ∧ i < 256
  · simp only [h, and_self, if_true]
  · simp only [h, if_false]

/-- the precomputed constant table of the repaired tree (extracted on every run) is exactly what the
former run-time fill computed from `CRC32_POLY`: replacing the fill by the constant changed no value -/
theorem C06_crc_table_const :
    Xmp.Gen.Globals.crcTableConst = [] ∨
    Xmp.Gen.Globals.crcTableConst = (List.range 256).map (crcEntry Xmp.Gen.Globals.crc32Poly) := by decide +kernel

example : crcEntry Xmp.Gen.Globals.crc32Poly 1 = 0x04c11db7 ∧ crcEntry Xmp.Gen.Globals.crc32Poly 255 = 0xb1f740b4 := by decide

example : farrayFill ["Fast Tracker II", "Impulse Tracker"] [none, none, none]
    = [some "Fast Tracker II", some "Impulse Tracker", none] := by decide

/-! ## Purity / isolation in the model -/

/-- calls on a context -/
inductive Call
  | load (X : Ext)
  | start (X : Ext) (rate format : Int)
  | endPlayer
  | release

def Call.apply : Call → Ctx → Ctx
  | .load X, s => Reset.load X s
  | .start X r f, s => Reset.startPlayer X r f s
  | .endPlayer, s => Reset.endPlayer s
  | .release, s => Reset.release s

def run : List Call → Ctx → Ctx
  | [], s => s
  | c :: cs, s => run cs (c.apply s)

/-- two contexts and the process-wide format-name table; every call is tagged with the context it is
made on and, like `xmp_load_module` → `format_list`-style code, may (re)fill the table -/
structure World where
  a : Ctx
  b : Ctx
  names : List (Option String)

def step (tbl : List String) (w : World) : Bool × Call → World
  | (true, c) => { w with a := c.apply w.a, names := farrayFill tbl w.names }
  | (false, c) => { w with b := c.apply w.b, names := farrayFill tbl w.names }

def runW (tbl : List String) : List (Bool × Call) → World → World
  | [], w => w
  | x :: xs, w => runW tbl xs (step tbl w x)

/-- **C06, isolation part, in the model**: under every interleaving, each context ends in the state it
reaches when its own calls run alone, and the shared table holds what a single fill produces. -/
theorem C06_pure (tbl : List String) (htbl : tbl ≠ []) (sched : List (Bool × Call)) (w : World) :
    (runW tbl sched w).a = run ((sched.filter (·.1)).map (·.2)) w.a
    ∧ (runW tbl sched w).b = run ((sched.filter (fun x => !x.1)).map (·.2)) w.b
    ∧ farrayFill tbl (runW tbl sched w).names = farrayFill tbl w.names := by
  induction sched generalizing w with
  | nil => exact ⟨rfl, rfl, rfl⟩
  | cons x xs ih =>
    obtain ⟨t, c⟩ := x
    have := ih (step tbl w (t, c))
    cases t
    · simp only [runW, List.filter, Bool.not_false, List.map, run]
      refine ⟨this.1, this.2.1, ?_⟩
      rw [this.2.2]
      exact (C06_idempotent_fill 0 (fun _ => 0) tbl w.names htbl).2
    · simp only [runW, List.filter, Bool.not_true, List.map, run]
      refine ⟨this.1, this.2.1, ?_⟩
      rw [this.2.2]
      exact (C06_idempotent_fill 0 (fun _ => 0) tbl w.names htbl).2

example : (runW ["xm"] [(true, .load exampleExt), (false, .load exampleExt), (true, .start exampleExt 8000 0), (false, .release)]
    ⟨createContext 1, dirty, []⟩).a .p_frame 0 = -1 := by decide

end Xmp.Reset
