import XmpProofs.Downmix
/-!
# C13 — Output configuration changes only the encoding of the audio, not the music

Property theorems over the model `XmpModel.Downmix` (final stage of
`libxmp_mixer_softmixer`: `downmix_int_8bit` / `downmix_int_16bit`, the format
dispatch, `buffer_size` of `xmp_get_frame_info`) and over the generated table
`XmpModel.Gen.SeqWriters` (who writes the sequencer kernel).

Every encoding theorem is stated for **all** accumulator values `x : Int` (so in
particular for all 2³² values of the C `int32`) and all amplification settings the
shift allows (`amp ≤ DOWNMIX_SHIFT`; the API admits 0..3, `C13_amp_api_range`).
-/
namespace Xmp.Downmix
open Xmp.Gen.MixerConsts

/-! ## unsigned output = signed output + mid-scale offset -/

/-- **C13_unsigned**: in both sample widths the word an unsigned consumer reads is the
signed sample plus the mid-scale offset (2^(w−1)) — exactly, no wrap-around occurs —
and, equivalently, the signed word with its top bit flipped. -/
theorem C13_unsigned (amp : Nat) (x : Int) :
    ((word 16 (d16 amp 0x8000 x) : Int) = d16 amp 0 x + 2 ^ 15 ∧
     word 16 (d16 amp 0x8000 x) = word 16 (d16 amp 0 x) ^^^ 0x8000) ∧
    ((word 8 (d8 amp 0x80 x) : Int) = d8 amp 0 x + 2 ^ 7 ∧
     word 8 (d8 amp 0x80 x) = word 8 (d8 amp 0 x) ^^^ 0x80) :=
  ⟨⟨word16_unsigned amp x, word16_xor amp x⟩, ⟨word8_unsigned amp x, word8_xor amp x⟩⟩

/-- the offsets are the ones the call site passes for `XMP_FORMAT_UNSIGNED` -/
theorem C13_unsigned_offsets (f : Fmt) :
    offsOf f = if f.unsigned then (if f.bits8 then 2 ^ 7 else 2 ^ 15) else 0 := by
  unfold offsOf
  cases f.bits8 <;> cases f.unsigned <;> rfl

/-! ## 8-bit output = high byte of 16-bit output -/

/-- **C13_8_is_high_byte**: for every accumulator and every admissible amplification the
8-bit sample is the 16-bit sample shifted right by 8 (signed), the unsigned 8-bit word is
the unsigned 16-bit word divided by 256, and the byte written is literally the second
(little-endian high) byte of the 16-bit rendering. -/
theorem C13_8_is_high_byte (amp : Nat) (h : amp ≤ downmixShift) (x : Int) :
    d8 amp 0 x = d16 amp 0 x >>> 8 ∧
    word 8 (d8 amp 0x80 x) = word 16 (d16 amp 0x8000 x) / 256 ∧
    byte8 (d8 amp 0 x) = (le16 (d16 amp 0 x)).drop 1 ∧
    byte8 (d8 amp 0x80 x) = (le16 (d16 amp 0x8000 x)).drop 1 := by
  refine ⟨d8_high_byte amp h x, word8_high_byte amp h x, ?_, ?_⟩
  · simp only [byte8, le16, List.drop_succ_cons, List.drop_zero, word8_high_byte_signed amp h x]
  · simp only [byte8, le16, List.drop_succ_cons, List.drop_zero, word8_high_byte amp h x]

example : (3 : Nat) ≤ downmixShift := by decide

/-! ## each amplification step doubles the pre-clipping value -/

/-- **C13_amp_doubles**: the value entering the clamp at `amp + 1` is the value the
accumulator `2·x` would produce at `amp` (exact doubling of the mixed signal), and the
value at `amp` is its floor-half; for both writers. -/
theorem C13_amp_doubles (amp : Nat) (h : amp + 1 ≤ downmixShift) (x : Int) :
    pre16 (amp + 1) x = pre16 amp (2 * x) ∧ pre16 (amp + 1) x >>> 1 = pre16 amp x ∧
    pre8 (amp + 1) x = pre8 amp (2 * x) ∧ pre8 (amp + 1) x >>> 1 = pre8 amp x :=
  ⟨pre16_succ amp h x, pre16_half amp h x, pre8_succ amp (by omega) x, pre8_half amp (by omega) x⟩

example : (2 : Nat) + 1 ≤ downmixShift := by decide

/-- the same, as seen on the outputs: wherever the louder rendering is not clipped the
quieter rendering is exactly its half; where it is clipped the quieter one is at least half
of full scale. -/
theorem C13_amp_doubles_observable (amp : Nat) (h : amp + 1 ≤ downmixShift) (x : Int) :
    ((lim16Lo < d16 (amp + 1) 0 x ∧ d16 (amp + 1) 0 x < lim16Hi) → d16 amp 0 x = d16 (amp + 1) 0 x >>> 1) ∧
    (d16 (amp + 1) 0 x = lim16Hi → d16 amp 0 x ≥ 16383) ∧ (d16 (amp + 1) 0 x = lim16Lo → d16 amp 0 x ≤ -16384) ∧
    ((lim8Lo < d8 (amp + 1) 0 x ∧ d8 (amp + 1) 0 x < lim8Hi) → d8 amp 0 x = d8 (amp + 1) 0 x >>> 1) ∧
    (d8 (amp + 1) 0 x = lim8Hi → d8 amp 0 x ≥ 63) ∧ (d8 (amp + 1) 0 x = lim8Lo → d8 amp 0 x ≤ -64) :=
  ⟨d16_half amp h x, (d16_half_clipped amp h x).1, (d16_half_clipped amp h x).2,
   d8_half amp (by omega) x, (d8_half_clipped amp (by omega) x).1, (d8_half_clipped amp (by omega) x).2⟩

/-- an unclipped instance: accumulator 1 000 000 at amp 1 → 488, at amp 0 → 244 -/
example : lim16Lo < d16 (0 + 1) 0 1000000 ∧ d16 (0 + 1) 0 1000000 < lim16Hi ∧ d16 0 0 1000000 = 244 := by decide
/-- a clipped instance -/
example : d16 (2 + 1) 0 100000000 = lim16Hi ∧ d16 2 0 100000000 = 32767 := by decide

/-- the amplification values the API accepts are inside the range of the theorems above -/
theorem C13_amp_api_range : ∀ v, ampMax = some v → v ≤ (downmixShift : Int) := amp_range_safe

/-! ## the downmix is monotone, saturating and sign-preserving -/

/-- **C13_downmix_monotone**: in every output format and at every amplification a larger
accumulator value never gives a smaller output sample — signed samples compared as integers,
unsigned samples compared as the unsigned words the consumer reads.  (The clamp can merge values,
it can never reorder them: no wrap-around of loud passages.) -/
theorem C13_downmix_monotone (amp : Nat) (x y : Int) (h : x ≤ y) :
    d16 amp 0 x ≤ d16 amp 0 y ∧ d8 amp 0 x ≤ d8 amp 0 y ∧
    word 16 (d16 amp 0x8000 x) ≤ word 16 (d16 amp 0x8000 y) ∧ word 8 (d8 amp 0x80 x) ≤ word 8 (d8 amp 0x80 y) := by
  have h16 := d16_mono amp x y h
  have h8 := d8_mono amp x y h
  refine ⟨h16, h8, ?_, ?_⟩
  · have a := word16_unsigned amp x
    have b := word16_unsigned amp y
    omega
  · have a := word8_unsigned amp x
    have b := word8_unsigned amp y
    omega

/-- **C13_downmix_saturating**: the output is the shifted accumulator clamped to the sample
range — `max LO (min HI (x >> shift))` — so it always lies in the range, equals the shifted value
exactly while that fits, and sticks at the limit for every accumulator value beyond
`(HI + 1) · 2^shift` resp. below `LO · 2^shift` (all 2^32 accumulator values and beyond). -/
theorem C13_downmix_saturating (amp : Nat) (x : Int) :
    (d16 amp 0 x = max lim16Lo (min lim16Hi (x >>> shift16 amp)) ∧ lim16Lo ≤ d16 amp 0 x ∧ d16 amp 0 x ≤ lim16Hi ∧
      ((lim16Hi + 1) * 2 ^ shift16 amp ≤ x → d16 amp 0 x = lim16Hi) ∧
      (x < lim16Lo * 2 ^ shift16 amp → d16 amp 0 x = lim16Lo) ∧
      (lim16Lo * 2 ^ shift16 amp ≤ x → x < (lim16Hi + 1) * 2 ^ shift16 amp → d16 amp 0 x = x >>> shift16 amp)) ∧
    (d8 amp 0 x = max lim8Lo (min lim8Hi (x >>> shift8 amp)) ∧ lim8Lo ≤ d8 amp 0 x ∧ d8 amp 0 x ≤ lim8Hi ∧
      ((lim8Hi + 1) * 2 ^ shift8 amp ≤ x → d8 amp 0 x = lim8Hi) ∧
      (x < lim8Lo * 2 ^ shift8 amp → d8 amp 0 x = lim8Lo) ∧
      (lim8Lo * 2 ^ shift8 amp ≤ x → x < (lim8Hi + 1) * 2 ^ shift8 amp → d8 amp 0 x = x >>> shift8 amp)) := by
  have e16 := clip16_eq (pre16 amp x)
  have e8 := clip8_eq (pre8 amp x)
  have a1 := shr_ge_iff x (shift16 amp) (lim16Hi + 1)
  have a2 := shr_lt_iff x (shift16 amp) lim16Lo
  have a3 := shr_ge_iff x (shift16 amp) lim16Lo
  have b1 := shr_ge_iff x (shift8 amp) (lim8Hi + 1)
  have b2 := shr_lt_iff x (shift8 amp) lim8Lo
  have b3 := shr_ge_iff x (shift8 amp) lim8Lo
  rw [d16_zero, d8_zero]
  simp only [pre16, pre8] at *
  have l1 : lim16Hi = 32767 := rfl
  have l2 : lim16Lo = -32768 := rfl
  have l3 : lim8Hi = 127 := rfl
  have l4 : lim8Lo = -128 := rfl
  generalize x >>> shift16 amp = p at *
  generalize x >>> shift8 amp = q at *
  generalize (2 : Int) ^ shift16 amp = P at *
  generalize (2 : Int) ^ shift8 amp = Q at *
  refine ⟨⟨e16, ?_, ?_, ?_, ?_, ?_⟩, ⟨e8, ?_, ?_, ?_, ?_, ?_⟩⟩ <;> omega

example : d16 0 0 (32768 * 4096) = lim16Hi ∧ d16 0 0 (32768 * 4096 - 1) = 32767 ∧ d16 0 0 (32767 * 4096 - 1) = 32766
    ∧ d16 0 0 (-32768 * 4096 - 1) = lim16Lo ∧ d16 3 0 2147483647 = lim16Hi ∧ d16 3 0 (-2147483648) = lim16Lo := by decide

/-- **C13_downmix_sign**: the output has the sign of the accumulator (floor shift: every negative
accumulator gives a negative sample, zero gives zero), in both widths at every amplification. -/
theorem C13_downmix_sign (amp : Nat) (x : Int) :
    (d16 amp 0 x < 0 ↔ x < 0) ∧ (d8 amp 0 x < 0 ↔ x < 0) ∧ d16 amp 0 0 = 0 ∧ d8 amp 0 0 = 0 := by
  rw [d16_zero, d8_zero]
  refine ⟨?_, ?_, ?_, ?_⟩
  · rw [clip16_neg_iff]; exact shr_neg_iff x _
  · rw [clip8_neg_iff]; exact shr_neg_iff x _
  · rw [d16_zero]; simp [pre16, clip16, lim16Hi, lim16Lo]
  · rw [d8_zero]; simp [pre8, clip8, lim8Hi, lim8Lo]

/-- **C13_amp_monotone**: one amplification step up never brings a sample closer to zero:
non-negative accumulators give a sample at least as large, negative ones at most as large. -/
theorem C13_amp_monotone (amp : Nat) (h : amp + 1 ≤ downmixShift) (x : Int) :
    (0 ≤ x → d16 amp 0 x ≤ d16 (amp + 1) 0 x ∧ d8 amp 0 x ≤ d8 (amp + 1) 0 x) ∧
    (x ≤ 0 → d16 (amp + 1) 0 x ≤ d16 amp 0 x ∧ d8 (amp + 1) 0 x ≤ d8 amp 0 x) := by
  simp only [d16_zero, d8_zero, pre16_succ amp h x, pre8_succ amp (by omega) x]
  constructor
  · intro hx
    exact ⟨clip16_mono _ _ (shr_mono _ _ _ (by omega)), clip8_mono _ _ (shr_mono _ _ _ (by omega))⟩
  · intro hx
    exact ⟨clip16_mono _ _ (shr_mono _ _ _ (by omega)), clip8_mono _ _ (shr_mono _ _ _ (by omega))⟩

example : d16 0 0 5000000 = 1220 ∧ d16 1 0 5000000 = 2441 ∧ d16 0 0 (-5000000) = -1221 ∧ d16 1 0 (-5000000) = -2442 := by decide

/-! ## buffer layout: the format flags only select the layout -/

/-- **C13_buffer_layout**: for every format and every tick size that
`libxmp_mixer_prepare` lets through, the final stage writes exactly
`ticksize · (2 − mono)` samples, i.e. `ticksize · (2 − mono) · (2 − 8bit)` bytes, which is
the `buffer_size` reported by `xmp_get_frame_info`; the cap at `XMP_MAX_FRAMESIZE` samples is
never active, a frame never exceeds `XMP_MAX_FRAMESIZE` (= `total_size`) bytes in any format,
and both buffers are large enough. -/
theorem C13_buffer_layout (f : Fmt) (t : Int) (amp : Nat) (buf32 : List Int)
    (hbuf : buf32.length = buf32Alloc) :
    let ts := prepareTicksize t
    (renderSamples f ts amp buf32).length = ts * (if f.mono then 1 else 2) ∧
    (renderBytes f ts amp buf32).length = bufferSize f ts ∧
    bufferSize f ts = ts * (if f.mono then 1 else 2) * (if f.bits8 then 1 else 2) ∧
    bufferSize f ts ≤ maxFramesize ∧ bufferSize f ts ≤ bufferAlloc ∧ frameSamples f ts ≤ buf32Alloc := by
  intro ts
  have hts : ts ≤ ticksizeCap := prepareTicksize_le t
  have hle : frameSamples f ts ≤ buf32.length := by rw [hbuf]; exact frameSamples_le f ts
  have hfs := frameSamples_eq f ts hts
  have hc := cap_fits.2
  have hb : bufferSize f ts = frameSamples f ts * (if f.bits8 then 1 else 2) := by
    unfold bufferSize; rw [hfs]
    cases f.mono <;> cases f.bits8 <;> simp
  have hmax : bufferSize f ts ≤ maxFramesize := by
    rw [hb, hfs]
    generalize maxFramesize = M at *
    generalize ticksizeCap = C at *
    cases f.mono <;> cases f.bits8 <;> simp <;> omega
  refine ⟨?_, ?_, ?_, hmax, ?_, ?_⟩
  · rw [renderSamples_length f ts amp buf32 hle, hfs]
    cases f.mono <;> simp
  · rw [renderBytes_length f ts amp buf32 hle, hb]
  · rw [hb, hfs]
    cases f.mono <;> simp
  · have h2 : bufferAlloc = maxFramesize * 2 := rfl
    omega
  · exact frameSamples_le f ts

example : (List.replicate buf32Alloc (0 : Int)).length = buf32Alloc := List.length_replicate ..

/-- whatever `libxmp_mixer_get_ticksize` computes (valid quotient, refusal −1), the tick size
used for the frame is positive and at most the cap (`XMP_MAX_FRAMESIZE / 4` frames); a valid
quotient inside that range is used unchanged (up to the anticlick minimum), so the rate really
selects the frame length. -/
theorem C13_ticksize_guard (q : Option Int) :
    0 < prepareTicksize (ticksizeOf q) ∧ prepareTicksize (ticksizeOf q) ≤ ticksizeCap ∧
    (∀ c, q = some c → 2 ^ anticlickShift ≤ c → c ≤ (ticksizeCap : Nat) →
      (prepareTicksize (ticksizeOf q) : Int) = c) := by
  have hc := cap_fits.1
  have hp : (0 : Int) < 2 ^ anticlickShift := by decide
  refine ⟨?_, prepareTicksize_le _, ?_⟩
  · unfold prepareTicksize ticksizeOf
    generalize (2 : Int) ^ anticlickShift = a at *
    generalize ticksizeCap = C at *
    cases q with
    | none => simp; omega
    | some c =>
      simp only
      split <;> split <;> omega
  · intro c hq h1 h2
    subst hq
    unfold prepareTicksize ticksizeOf
    generalize (2 : Int) ^ anticlickShift = a at *
    generalize ticksizeCap = C at *
    simp only
    split <;> split <;> omega

example : (prepareTicksize (ticksizeOf (some 882)) : Int) = 882 := by decide

/-- whole-frame form of the two encoding relations: switching `XMP_FORMAT_8BIT` on keeps,
sample by sample, the high byte; switching `XMP_FORMAT_UNSIGNED` on flips, sample by sample,
the top bit — for the same accumulator buffer (the same music). -/
theorem C13_frame_encodings (f : Fmt) (ts amp : Nat) (h : amp ≤ downmixShift) (buf32 : List Int) :
    renderSamples { f with bits8 := true, unsigned := false } ts amp buf32
      = (renderSamples { f with bits8 := false, unsigned := false } ts amp buf32).map (fun v : Int => v >>> 8) ∧
    (renderSamples { f with bits8 := false, unsigned := true } ts amp buf32).map (word 16)
      = (renderSamples { f with bits8 := false, unsigned := false } ts amp buf32).map (fun v => word 16 v ^^^ 0x8000) ∧
    (renderSamples { f with bits8 := true, unsigned := true } ts amp buf32).map (word 8)
      = (renderSamples { f with bits8 := false, unsigned := true } ts amp buf32).map (fun v => word 16 v / 256) := by
  have fs : ∀ b u, frameSamples { f with bits8 := b, unsigned := u } ts = frameSamples f ts := fun _ _ => rfl
  refine ⟨?_, ?_, ?_⟩
  · simp only [renderSamples, offsOf, downmix8, downmix16, fs, if_true, Bool.false_eq_true, if_false, List.map_map]
    apply List.map_congr_left
    intro x _
    exact d8_high_byte amp h x
  · simp only [renderSamples, offsOf, downmix16, fs, if_true, Bool.false_eq_true, if_false, List.map_map]
    apply List.map_congr_left
    intro x _
    exact word16_xor amp x
  · simp only [renderSamples, offsOf, downmix8, downmix16, fs, if_true, Bool.false_eq_true, if_false, List.map_map]
    apply List.map_congr_left
    intro x _
    exact word8_high_byte amp h x

/-! ## the musical timeline does not depend on the configuration -/

variable {K X Cfg Ctl : Type}

/-- **C13_timeline** (model): in a player of the shape of `xmp_play_frame` — kernel
advanced from kernel state and control calls, everything that sees the output
configuration afterwards — any two runs from the same kernel state with the same control
calls report the same per-frame timeline, whatever the two configuration sequences and
mixer states are. What makes this a statement about libxmp is `C13_timeline_writers`
below (no mixer code writes the kernel) together with the per-frame timeline oracle of
the check; the dependence of flow effects on channel state written by the mixer is
searched, not proved (see MANIFEST note). -/
theorem C13_timeline (m : Machine K X Cfg Ctl) (cs cs' : List (Cfg × Ctl)) (s s' : K × X)
    (hctl : cs.map Prod.snd = cs'.map Prod.snd) (hk : s.1 = s'.1) :
    m.timeline cs s = m.timeline cs' s' := by
  have h := run_kernel_indep m cs cs' s s' hctl hk
  unfold Machine.timeline
  have e : ∀ l : List (K × X), l.map (fun s => m.info s.1) = (l.map Prod.fst).map m.info := by
    intro l; simp [List.map_map]
  rw [e, e, h]

/-- a non-trivial instance: a 3-field kernel (row, speed, time) stepping under two different
"sample rates"; the buffers differ, the timeline does not. -/
example :
    let m : Machine (Int × Int × Int) (List Int) Nat Unit :=
      { seq := fun _ k => ((k.1 + 1) % 4, k.2.1, k.2.2 + k.2.1)
        rest := fun rate k x => (k.1 * rate) :: x
        info := fun k => ⟨0, k.1, 0, k.2.1, 125, k.2.2, 0, 0⟩
        bufSize := fun rate _ => rate / 50 }
    m.timeline [(8000, ()), (8000, ()), (8000, ())] ((0, 6, 0), [])
      = m.timeline [(44100, ()), (22050, ()), (4000, ())] ((0, 6, 0), [7]) ∧
    (m.run [(8000, ())] ((0, 6, 0), [])).map Prod.snd ≠ (m.run [(44100, ())] ((0, 6, 0), [])).map Prod.snd := by
  decide

open Xmp.Gen.SeqWriters in
/-- **C13_timeline_writers** (code, regenerated every run): no statement that assigns,
increments, takes the address of or block-writes `p->ord, row, pos, frame, speed, bpm,
loop_count, current_time, frame_time` or any member of `p->flow` lies in `mixer.c`,
`mix_all.c`, `mix_paula.c`, `filter.c`, nor in any function reachable from
`libxmp_mixer_softmixer`. -/
theorem C13_timeline_writers :
    ∀ w ∈ writers, mixerFile w.file = false ∧ (w.file, w.func) ∉ softmixerReach :=
  seqWriters_outside_mixer

end Xmp.Downmix

/-! ## `xmp_set_tempo_factor`: acceptance may depend on the sampling rate, never on the sample format -/
namespace Xmp.C13Timeline
open Xmp.Gen.MixerConsts
open Xmp.Downmix (Fmt prepareTicksize)

/-- **C13_tick_path_config_free**: the sequencing half of `xmp_play_frame` — the `seq` component of the `Machine` of
`C13_timeline`, which has no configuration argument — is what the code does: the frame function itself reads no volume or
output setting before the mixer runs, and the per-tick channel update (`play_channel`: where IT tempo slides, delayed
events and pattern-delay bookkeeping happen) runs for every virtual channel whatever its audibility.  Facts regenerated
from src/player.c on every run; the writers of the kernel fields inside `play_channel` and below are covered by
`C13_timeline_writers`, their dependence on volume settings by the lockstep oracle (one context at master volume 0, one
with muted channels, on generated modules whose tempo is driven by per-tick effects). -/
theorem C13_tick_path_config_free : tickLoopUnconditional = some 1 ∧ playFrameConfigReads = some [] :=
  tick_path_config_free

/-- **C13_tempo_factor_format_independent**: two contexts with the same sampling rate — whatever their
sample formats (mono/stereo, 8/16 bit, signedness), interpolators, amplification, separation, volume, DSP
settings — give the same answer to `xmp_set_tempo_factor` and are left with the same sequencer-side state
(`time_factor`), for every argument and every state.  The acceptance predicate is "the tick size in frames
`libxmp_mixer_get_ticksize(rate, 10·val, rrate, bpm)` is within `0 … XMP_MAX_FRAMESIZE / 4`" (`tempo_factor_shape`
ties the bound and the arguments to the code on every run; the real calls of 8 same-rate contexts in all the
formats are compared with this model by the check). -/
theorem C13_tempo_factor_format_independent (c c' : OutCfg) (h : c.rate = c'.rate) (s : SeqSide) (v : Val) :
    setTempoFactor c s v = setTempoFactor c' s v := by
  unfold setTempoFactor
  rw [h]

/-- in particular for any two formats at one rate -/
theorem C13_tempo_factor_any_format (rate : Int) (f g : Fmt) (s : SeqSide) (v : Val) :
    setTempoFactor { rate := rate, fmt := f } s v = setTempoFactor { rate := rate, fmt := g } s v :=
  C13_tempo_factor_format_independent _ _ rfl s v

/-- a refused call changes nothing; an accepted one changes `time_factor` only -/
theorem C13_tempo_factor_refusal_keeps_state (c : OutCfg) (s : SeqSide) (v : Val) :
    ((setTempoFactor c s v).1 ≠ 0 → (setTempoFactor c s v).2 = s) ∧
    (setTempoFactor c s v).2.playing = s.playing ∧ (setTempoFactor c s v).2.bpm = s.bpm ∧
    (setTempoFactor c s v).2.rrate = s.rrate := by
  unfold setTempoFactor
  split
  · exact ⟨fun _ => rfl, rfl, rfl, rfl⟩
  · cases v with
    | bad => exact ⟨fun _ => rfl, rfl, rfl, rfl⟩
    | inf => exact ⟨fun _ => rfl, rfl, rfl, rfl⟩
    | pos d =>
      simp only
      split
      · exact ⟨fun _ => rfl, rfl, rfl, rfl⟩
      · split
        · exact ⟨fun _ => rfl, rfl, rfl, rfl⟩
        · exact ⟨fun h => absurd rfl h, rfl, rfl, rfl⟩

/-- **An accepted factor fits every format**: after an accepted call the tick computed from the new
`time_factor` passes the guard of `libxmp_mixer_prepare` unchanged, so by `C13_buffer_layout` the frame fits the
buffers in all 8 formats — the bound has to be the one of the largest format (16-bit stereo) for all of them. -/
theorem C13_tempo_factor_accept_fits (c : OutCfg) (s : SeqSide) (v : Val) (h : (setTempoFactor c s v).1 = 0) :
    let t := getTicksize c.rate (setTempoFactor c s v).2.timeFactor s.rrate s.bpm
    2 ^ anticlickShift ≤ t ∧ t ≤ (ticksizeCap : Int) ∧ (prepareTicksize t : Int) = t := by
  unfold setTempoFactor at h ⊢
  split at h
  · simp [errorState] at h
  · rename_i hp
    simp only [hp, if_false]
    cases v with
    | bad => simp at h
    | inf => simp at h
    | pos d =>
      simp only at h ⊢
      split at h
      · simp at h
      · rename_i hd
        simp only [hd, if_false]
        split at h
        · simp at h
        · rename_i ht
          simp only [ht, if_false]
          have hr := getTicksize_range c.rate (d.mul (D.ofNat (tempoFactorScale.getD 10).toNat)) s.rrate s.bpm
          generalize getTicksize c.rate (d.mul (D.ofNat (tempoFactorScale.getD 10).toNat)) s.rrate s.bpm = t at ht hr
          have h8 : (2 : Int) ^ anticlickShift = 8 := by decide
          rw [h8] at hr ⊢
          refine ⟨by omega, by omega, ?_⟩
          unfold prepareTicksize
          have : ¬ (t < 0 ∨ t > (ticksizeCap : Nat)) := by omega
          simp only [this, if_false]
          omega

set_option maxRecDepth 100000 in
/-- non-trivial instances at 44100 Hz, 125 BPM, rrate 250: factor 8 gives a tick of 7056 frames and is refused,
factor 6.875 (tick 6063) is accepted — in 16-bit stereo and in 8-bit mono alike; at 8000 Hz factor 8 is accepted
(the rate may matter, the format may not) -/
example :
    let s : SeqSide := { playing := true, bpm := 125, rrate := ⟨250, 0⟩, timeFactor := ⟨10, 0⟩ }
    (setTempoFactor { rate := 44100, fmt := ⟨false, false, false⟩ } s (.pos ⟨8, 0⟩)).1 = -1 ∧
    (setTempoFactor { rate := 44100, fmt := ⟨true, true, true⟩ } s (.pos ⟨8, 0⟩)).1 = -1 ∧
    (setTempoFactor { rate := 44100, fmt := ⟨false, false, false⟩ } s (.pos ⟨55, -3⟩)).1 = 0 ∧
    getTicksize 44100 ⟨80, 0⟩ ⟨250, 0⟩ 125 = 7056 ∧
    (setTempoFactor { rate := 8000, fmt := ⟨true, false, true⟩ } s (.pos ⟨8, 0⟩)).1 = 0 ∧
    (setTempoFactor { rate := 8000, fmt := ⟨true, false, true⟩ } { s with playing := false } (.pos ⟨8, 0⟩)).1 = -8 := by
  decide

end Xmp.C13Timeline
