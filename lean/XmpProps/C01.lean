import XmpProofs.MixWindow
import XmpProofs.VoicePos
/-!
# C01 — arithmetic that the memory-safety argument of playback rests on

Memory safety of 60 k lines of C parsers is not provable with this technique in
this sandbox (DESIGN.md §4 C01, §6); for the parsers C01 is sanitized search.
What *is* proved here is the window arithmetic of the software mixer: for every
voice, position, step and tick size, every sample frame an interpolating kernel
touches lies inside the region that `libxmp_load_sample` allocates and fills
around the sample data (1 frame before, 4 frames after; C20_guards).

(Other proved pieces C01 relies on live with their own properties and are audited
there: sample allocation layout C20, post-load index discipline C03, sequencer
state ranges C16, sequence tables C03/C17.)
-/
namespace Xmp.MixWindow

/-- **C01_window_forward.** Forward playback (`~VOICE_REVERSE`).
`pos = pn/D ≥ 0`, `step = sn/D ≥ 0`, `end = e ≤ len`; `q0`, `stepfix` are the
fixed-point start and increment the kernel derives (`q0 ≤ 2¹⁶·pos + r` with the
nearest-neighbour rounding offset `r ≤ 2¹⁵`, `0 ≤ stepfix ≤ 2¹⁶·step`); `samples`
is any count with `(samples−1)·step < end − pos` — in particular the mixer's
`min(size, ceil((end−pos)/step))`.  Then every tap of every iteration lies in
`[-1, len+3]` frames. -/
theorem C01_window_forward (D pn sn q0 stepfix e len r : Int) (samples interp i : Nat)
    (hD : 0 < D) (hsn : 0 ≤ sn) (hq00 : 0 ≤ q0) (hs0 : 0 ≤ stepfix)
    (hr : 0 ≤ r ∧ r ≤ S / 2)
    (hq0 : q0 * D ≤ S * pn + r * D) (hstep : stepfix * D ≤ S * sn)
    (he : e ≤ len)
    (hi : i < samples) (hceil : ((samples : Int) - 1) * sn < e * D - pn) :
    -1 ≤ idx q0 stepfix i + tapLo interp ∧ idx q0 stepfix i + tapHi interp ≤ len + 3 := by
  have hlt := forward_lt D pn sn q0 stepfix e r samples i hD hsn hq0 hstep hi hceil
  have hge := forward_ge q0 stepfix i hs0
  have hS : S = 65536 := rfl
  have hup : idx q0 stepfix i ≤ e := by
    unfold idx
    apply idx_le_of_lt
    have : r ≤ 32768 := by have := hr.2; rw [hS] at this; omega
    rw [Int.add_mul, Int.one_mul]; omega
  have hlo : 0 ≤ idx q0 stepfix i := by
    unfold idx
    apply le_idx_of_le
    omega
  have t1 : -1 ≤ tapLo interp := by unfold tapLo; split <;> omega
  have t2 : tapHi interp ≤ 2 := by unfold tapHi; split <;> omega
  omega

/-- **C01_window_reverse.** Reverse playback (`VOICE_REVERSE`, bidirectional
loops).  `start = st ≥ 0`, `stepfix ≤ 0` with `|stepfix| ≤ 2¹⁶·step`, `q0` at most
one unit below `2¹⁶·pos`, and the start position below `len + 2` frames (the
`pos ≤ len + 1` clamp of `loop_reposition`, plus rounding). -/
theorem C01_window_reverse (D pn sn q0 stepfix st len : Int) (samples interp i : Nat)
    (hD : 0 < D) (hsn : 0 ≤ sn) (hst : 0 ≤ st) (hs0 : stepfix ≤ 0)
    (hq0 : S * pn - D < q0 * D) (hstep : - (S * sn) ≤ stepfix * D)
    (hpos : q0 < (len + 2) * S)
    (hi : i < samples) (hceil : ((samples : Int) - 1) * sn < pn - st * D) :
    -1 ≤ idx q0 stepfix i + tapLo interp ∧ idx q0 stepfix i + tapHi interp ≤ len + 3 := by
  have hge := reverse_ge D pn sn q0 stepfix st samples i hD hsn hq0 hstep hi hceil
  have hle := reverse_le q0 stepfix i hs0
  have hlo : st ≤ idx q0 stepfix i := by unfold idx; exact le_idx_of_le hge
  have hup : idx q0 stepfix i ≤ len + 1 := by
    unfold idx
    apply idx_le_of_lt
    have : len + 1 + 1 = len + 2 := by omega
    rw [this]; omega
  have t1 : -1 ≤ tapLo interp := by unfold tapLo; split <;> omega
  have t2 : tapHi interp ≤ 2 := by unfold tapHi; split <;> omega
  omega

/-- **C01_windowOk**: the executable check the driver evaluates on recorded
kernel calls is implied by the per-iteration statement. -/
theorem C01_windowOk (q0 stepfix : Int) (count interp : Nat) (len : Int)
    (h : ∀ i, i < count →
      -1 ≤ idx q0 stepfix i + tapLo interp ∧ idx q0 stepfix i + tapHi interp ≤ len + 3) :
    windowOk q0 stepfix count interp len = true := by
  unfold windowOk
  rw [List.all_eq_true]
  intro i hi
  have := h i (by simpa using hi)
  simp [this.1, this.2]

/-- **C01_iterations** (also used by C02): the segment loop of the softmixer
never asks a kernel for more than `size` samples, and `size` only shrinks: the
total number of samples produced for one voice in one tick is at most the tick
size.  (`samples = min size c`, `size' = size − samples`.) -/
theorem C01_iterations (size c : Nat) : min size c ≤ size ∧ size - min size c ≤ size := by
  constructor
  · exact Nat.min_le_left _ _
  · omega

/-! ## Non-vacuity: a concrete voice meeting the hypotheses of the forward
theorem (pos 10.5, step 1.25, end 16 = len, linear interpolation, 5 samples). -/
example : -1 ≤ idx (10 * 65536 + 32768) 81920 4 + tapLo 1
    ∧ idx (10 * 65536 + 32768) 81920 4 + tapHi 1 ≤ 16 + 3 :=
  C01_window_forward 4 42 5 (10 * 65536 + 32768) 81920 16 16 0 5 1 4
    (by decide) (by decide) (by decide) (by decide) (by decide) (by decide) (by decide)
    (by decide) (by decide) (by decide)

example : windowOk (10 * 65536 + 32768) 81920 5 1 16 = true := by decide

end Xmp.MixWindow

/-! # The voice position invariant (model: XmpModel/VoicePos.lean)

The hypotheses of `C01_window_forward/_reverse` are no longer only monitored:
they follow from an invariant of the per-voice bookkeeping of
`libxmp_mixer_softmixer` that the tick prologue establishes from *any* voice
state and every iteration of the segment loop (including `loop_reposition`
and queued sample swaps) preserves. -/
namespace Xmp.VoicePos
open Xmp.MixWindow

theorem roundOff_range (interp : Nat) : 0 ≤ roundOff interp ∧ roundOff interp ≤ S / 2 := by
  unfold roundOff; split <;> decide

/-- **C01_voice_window.** In every state that satisfies the voice invariant, the
kernel call the segment loop makes (start `q0Of`, increment `stepfixOf`, count
`samplesOf`) touches only frames in `[-1, len+3]`, for every interpolator. -/
theorem C01_voice_window (env : Env) (v : Voice) (size n interp i : Nat) (he : EnvOk env)
    (hinv : Inv env v) (h : samplesOf env v size = some n) (hi : i < n) :
    -1 ≤ idx (q0Of env v interp) (stepfixOf env v) i + tapLo interp ∧
    idx (q0Of env v interp) (stepfixOf env v) i + tapHi interp ≤ v.smp.len + 3 := by
  have hD := he.D0
  have hsn := he.sn0
  have hDne : env.D ≠ 0 := Int.ne_of_gt hD
  have hS := S_pos
  obtain ⟨c0, c1, c2⟩ := cons_bounds v hinv.smp hinv.cons
  obtain ⟨r0, r1⟩ := roundOff_range interp
  have hSsn : 0 ≤ S * env.sn := Int.mul_nonneg (Int.le_of_lt hS) (Int.le_of_lt hsn)
  cases hr : v.rev
  · -- forward
    obtain ⟨s1, s2, s3, s4, _⟩ := samplesOf_fwd env v size n he hr h
    have hp := hinv.fwd hr
    have hSp : 0 ≤ S * v.pos := Int.mul_nonneg (Int.le_of_lt hS) hp
    have hq : q0Of env v interp = (S * v.pos) / env.D + roundOff interp := by
      unfold q0Of; rw [Int.tdiv_eq_ediv_of_nonneg hSp]
    have hst : stepfixOf env v = (S * env.sn) / env.D := by
      unfold stepfixOf; simp only [hr, Bool.not_false, if_true]; exact Int.tdiv_eq_ediv_of_nonneg hSsn
    rw [hq, hst]
    apply C01_window_forward env.D v.pos env.sn _ _ v.end_ v.smp.len (roundOff interp) n interp i hD
      (Int.le_of_lt hsn) _ (Int.ediv_nonneg hSsn (Int.le_of_lt hD)) ⟨r0, r1⟩ _ (Int.ediv_mul_le _ hDne) c2 hi s3
    · have := Int.ediv_nonneg hSp (Int.le_of_lt hD); omega
    · rw [Int.add_mul]
      have := Int.ediv_mul_le (S * v.pos) hDne
      omega
  · -- reverse
    obtain ⟨s1, s2, s3, s4, _⟩ := samplesOf_rev env v size n he hr h
    have hb := hinv.bwd hr
    have e0 := mulD_le hD c0
    simp only [Int.zero_mul] at e0
    have hp : 0 ≤ v.pos := by omega
    have hSp : 0 ≤ S * v.pos := Int.mul_nonneg (Int.le_of_lt hS) hp
    have hq : q0Of env v interp = (S * v.pos) / env.D + roundOff interp := by
      unfold q0Of; rw [Int.tdiv_eq_ediv_of_nonneg hSp]
    have hst : stepfixOf env v = -((S * env.sn) / env.D) := by
      unfold stepfixOf; simp only [hr, Bool.not_true]
      rw [if_neg (by decide), Int.neg_tdiv, Int.tdiv_eq_ediv_of_nonneg hSsn]
    have hsd := Int.ediv_nonneg hSsn (Int.le_of_lt hD)
    rw [hq, hst]
    apply C01_window_reverse env.D v.pos env.sn _ _ v.start v.smp.len n interp i hD
      (Int.le_of_lt hsn) c0 (by omega) _ _ _ hi s3
    · -- S*pos - D < q0*D
      rw [Int.add_mul]
      have h1 := Int.lt_ediv_add_one_mul_self (S * v.pos) hD
      rw [Int.add_mul, Int.one_mul] at h1
      have h2 : 0 ≤ roundOff interp * env.D := Int.mul_nonneg r0 (Int.le_of_lt hD)
      omega
    · rw [Int.neg_mul]
      have := Int.ediv_mul_le (S * env.sn) hDne
      omega
    · -- q0 < (len+2)*S
      have h1 : S * v.pos ≤ (S * (v.smp.len + 1)) * env.D := by
        rw [Int.mul_assoc]
        exact Int.mul_le_mul_of_nonneg_left hb (Int.le_of_lt hS)
      have h2 := Int.ediv_le_of_le_mul hD h1
      have h3 : (v.smp.len + 2) * S = S * (v.smp.len + 1) + S := by
        rw [Int.mul_comm, Int.mul_add, Int.mul_add]; omega
      have hS' : S = 65536 := rfl
      rw [h3]
      have : S / 2 = 32768 := by decide
      omega

/-- **C01_voice_callOk**: the executable form the driver evaluates.  A voice
whose sample has no data makes no kernel call (`vi->sptr == NULL`); for the others
the invariant gives the window. -/
theorem C01_voice_callOk (env : Env) (v : Voice) (size interp : Nat) (he : EnvOk env)
    (hinv : DInv env v) : callOk env interp v size = true := by
  unfold callOk
  split
  · rfl
  · rename_i hd
    have hd' : v.smp.hasData = true := by
      cases h : v.smp.hasData
      · rw [h] at hd; exact absurd rfl hd
      · rfl
    split
    · rfl
    · rename_i n hn
      exact C01_windowOk _ _ _ _ _ (fun i hi => C01_voice_window env v size n interp i he (hinv hd') hn hi)

/-- **C01_voice_tickStart.** The tick prologue (negative clamp, paused/queued
swap, `get_current_sample`, upper clamp) establishes the invariant from any
voice state whose sample is well formed. -/
theorem C01_voice_tickStart (env : Env) (v w : Voice) (he : EnvOk env) (hs : SmpOkD v.smp)
    (h : tickStart env v = some w) : DInv env w :=
  inv_tickStart env v w he hs h

/-- **C01_voice_step.** Every iteration of the segment loop that continues
preserves the invariant, keeps `0 < size' ≤ size`, and strictly decreases
`size + usmp` (so the loop runs at most `2·ticksize` iterations). -/
theorem C01_voice_step (env : Env) (v v' : Voice) (size usmp size' usmp' : Nat) (he : EnvOk env)
    (hinv : DInv env v) (hsz : 0 < size) (h : segStep env v size usmp = .cont v' size' usmp') :
    DInv env v' ∧ 0 < size' ∧ size' ≤ size ∧ usmp' ≤ usmp ∧ size' + usmp' < size + usmp :=
  inv_segStep env v v' size usmp size' usmp' he hinv hsz h

/-- **C01_voice_reposition.** `loop_reposition`, called at the end of a segment
on a consistent voice, yields a state satisfying the invariant. -/
theorem C01_voice_reposition (env : Env) (v : Voice) (he : EnvOk env) (hs : SmpOk v.smp)
    (hc : adjustVoiceEnd v = v)
    (hat : (v.rev = false ∧ v.end_ * env.D ≤ v.pos) ∨ (v.rev = true ∧ v.pos ≤ v.start * env.D)) :
    Inv env (loopReposition env v).1 :=
  inv_loopReposition env v he hs hc hat

theorem runLoop_inv (env : Env) (he : EnvOk env) (interp : Nat) :
    ∀ (fuel : Nat) (v : Voice) (size usmp : Nat), DInv env v →
      ∀ x ∈ runLoop env fuel v size usmp, DInv env x.1 ∧ callOk env interp x.1 x.2 = true := by
  intro fuel
  induction fuel with
  | zero => intro v size usmp _ x hx; simp [runLoop] at hx
  | succ k ih =>
    intro v size usmp hinv x hx
    unfold runLoop at hx
    split at hx
    · simp at hx
    · rename_i hsz
      rw [List.mem_cons] at hx
      rcases hx with hx | hx
      · subst hx
        exact ⟨hinv, C01_voice_callOk env v size interp he hinv⟩
      · split at hx
        · rename_i v' s' u' hstep
          exact ih v' s' u' (inv_segStep env v v' size usmp s' u' he hinv (by omega) hstep).1 x hx
        · simp at hx

/-- **C01_voice_tick.** For *every* voice state `v` (any position, any flags)
whose current and queued samples are well formed as far as they have data
(`SmpOkD`: what `libxmp_load_sample` + `libxmp_load_epilogue` guarantee), every
state at the top of an iteration of the segment loop of the next tick satisfies
the invariant if its sample has data, and the kernel call made from it (none if
the sample has no data) stays inside `[-1, len+3]`. -/
theorem C01_voice_tick (env : Env) (v : Voice) (ticksize interp : Nat) (he : EnvOk env)
    (hs : SmpOkD v.smp) :
    ∀ x ∈ runTick env v ticksize, DInv env x.1 ∧ callOk env interp x.1 x.2 = true := by
  intro x hx
  unfold runTick at hx
  split at hx
  · simp at hx
  · rename_i w hw
    exact runLoop_inv env he interp _ w ticksize ticksize (inv_tickStart env v w he hs hw) x hx

/-- **C01_voice_fuel.** The fuel `2·ticksize + 1` of `runTick` never truncates
the loop: with any fuel above `size + usmp` the visited states are the same. -/
theorem C01_voice_fuel (env : Env) (he : EnvOk env) :
    ∀ (f1 f2 : Nat) (v : Voice) (size usmp : Nat), DInv env v → size + usmp < f1 → size + usmp < f2 →
      runLoop env f1 v size usmp = runLoop env f2 v size usmp := by
  intro f1
  induction f1 with
  | zero => intro f2 v size usmp _ h1; omega
  | succ k ih =>
    intro f2 v size usmp hinv h1 h2
    cases f2 with
    | zero => omega
    | succ k2 =>
      unfold runLoop
      split
      · rfl
      · rename_i hsz
        congr 1
        split
        · rename_i v' s' u' hstep
          obtain ⟨a, b, c, d, e⟩ := inv_segStep env v v' size usmp s' u' he hinv (by omega) hstep
          exact ih k2 v' s' u' a (by omega) (by omega)
        · rfl

/-- **C01_wraparound_window.** The frames `init_sample_wraparound` /
`reset_sample_wraparound` read and write around the loop points
(`start[-1]`, `end[0..1]`, sources `start[0..1]`, `end[-2..-1]`) lie in
`[-1, len+1]` for every looped sample (`LOOP_PROLOGUE = 1`, `LOOP_EPILOGUE = 2`;
the patching is only active when `XMP_SAMPLE_LOOP` is set). -/
theorem C01_wraparound_window (env : Env) (v : Voice) (hinv : Inv env v) (hl : v.smp.loop = true) :
    -1 ≤ wrapLo v 1 2 ∧ wrapHi v 1 2 ≤ v.smp.len + 1 := by
  obtain ⟨hs, hc, _, _⟩ := hinv
  obtain ⟨h0, hlp, hsp⟩ := hs
  obtain ⟨⟨len,lps,lpe,sus,sue,loop,lbidir,lfull,sloop,sbidir,isMod,synth,hasData⟩,pos,start,end_,release,sloopf,rev,bidir,queued,paused,active⟩ := v
  simp only at hl
  subst hl
  cases isMod <;> cases sloop <;> cases release <;> cases lfull <;> cases sloopf <;>
    simp [adjustVoiceEnd, susActive, wrapLo, wrapHi] at * <;> omega

/-- **C01_voicepos_bound.** `libxmp_mixer_voicepos` (hence `libxmp_mixer_setpatch`
and every effect that sets a sample offset) leaves the position at most one
frame past the sample, whatever offset it is given. -/
theorem C01_voicepos_bound (env : Env) (v : Voice) (p : Int) (he : EnvOk env) (hs : SmpOk v.smp)
    (hsy : v.smp.synth = false) :
    (voiceposCore env v p).pos ≤ ((voiceposCore env v p).smp.len + 1) * env.D := by
  have hD := he.D0
  rw [(voiceposCore_fields env v p).1]
  unfold voiceposCore
  simp only [hsy, Bool.false_eq_true, if_false]
  have a := adjust_fields { v with pos := p }
  obtain ⟨b0, b1, b2⟩ := adjust_bounds { v with pos := p } hs
  generalize adjustVoiceEnd { v with pos := p } = w at *
  have e2 := mulD_le hD b2
  have hl : v.smp.len * env.D ≤ (v.smp.len + 1) * env.D := mulD_le hD (by omega)
  simp only [] at a e2
  split
  · split
    · simp only [loopReposition]
      have k := (clampHi_pos env.D (lrMove env (lrBase { w with pos := w.end_ * env.D }))).1
      have m := (lrMove_fields env (lrBase { w with pos := w.end_ * env.D })).1
      have b := (lrBase_fields { w with pos := w.end_ * env.D }).1
      rw [m, b] at k
      simp only [] at k
      have hw : w.smp.len = v.smp.len := by rw [a.1]
      rw [hw] at k
      exact k
    · simp only []; omega
  · split
    · simp only []; omega
    · rename_i hlt _
      have := Int.not_le.mp hlt
      omega

/-! ## The defect the invariant exposed (fixed in /repo: "clamp the voice position at the start of a tick")

Without the upper clamp of the tick prologue the invariant is *not* established:
a one-shot sample of 8010 frames whose last segment ended exactly at a tick
boundary keeps `pos = 8024 ≥ end` while still FLAG_ACTIVE; `libxmp_mixer_reverse`
(IT S9F) then makes the next tick start a reverse kernel walk at frame 8024. -/

def witnessSmp : Smp :=
  { len := 8010, lps := 0, lpe := 0, sus := 0, sue := 0, loop := false, lbidir := false, lfull := false,
    sloop := false, sbidir := false, isMod := true, synth := false, hasData := true }
def witnessVoice : Voice :=
  { smp := witnessSmp, pos := 8024, start := 0, end_ := 8010, release := false, sloopf := false, rev := true,
    bidir := false, queued := false, paused := false, active := true }
def witnessEnv (clamp : Bool) : Env :=
  { D := 1, sn := 16, adj := 1, split := false, qsmp := none, clampHi := clamp }

/-- **C01_reverse_past_end_unclamped**: without the clamp the first kernel call of
the tick reads frame 8024+2 of a 8010-frame sample (spline interpolation) … -/
theorem C01_reverse_past_end_unclamped :
    (runTick (witnessEnv false) witnessVoice 80).any (fun x => !callOk (witnessEnv false) 2 x.1 x.2) = true := by
  decide

/-- … and with it every call of the same tick is in bounds (instance of `C01_voice_tick`). -/
theorem C01_reverse_past_end_clamped :
    (runTick (witnessEnv true) witnessVoice 80).all (fun x => callOk (witnessEnv true) 2 x.1 x.2) = true := by
  decide

/-! Non-vacuity of the hypotheses of `C01_voice_tick`: the witness voice and
environment satisfy them, and the tick really runs the loop. -/
example : EnvOk (witnessEnv true) :=
  ⟨by decide, by decide, by decide, (by intro s h; cases h), rfl⟩
example : SmpOkD witnessVoice.smp := fun _ => (smpOk_iff _).1 (by decide)
example : (runTick (witnessEnv true) witnessVoice 80).length = 1 := by decide

end Xmp.VoicePos
