import XmpProofs.MixWindow
/-!
# C01 — arithmetic that the memory-safety argument of playback rests on

Memory safety of 60 k lines of C parsers is not provable with this technique in
this sandbox (DESIGN.md §4 C01, §6); for the parsers C01 is sanitized search.
What *is* proved here is the window arithmetic of the software mixer: for every
voice, position, step and tick size, every sample frame an interpolating kernel
touches lies inside the region that `libxmp_load_sample` allocates and fills
around the sample data (1 frame before, 4 frames after; C20_guards).

(Other proved pieces C01 relies on live with their own properties and are audited
there: sample allocation layout C20, post-load index discipline C03, sequencer
state ranges C16, sequence tables C03/C17.)
-/
namespace Xmp.MixWindow

/-- **C01_window_forward.** Forward playback (`~VOICE_REVERSE`).
`pos = pn/D ≥ 0`, `step = sn/D ≥ 0`, `end = e ≤ len`; `q0`, `stepfix` are the
fixed-point start and increment the kernel derives (`q0 ≤ 2¹⁶·pos + r` with the
nearest-neighbour rounding offset `r ≤ 2¹⁵`, `0 ≤ stepfix ≤ 2¹⁶·step`); `samples`
is any count with `(samples−1)·step < end − pos` — in particular the mixer's
`min(size, ceil((end−pos)/step))`.  Then every tap of every iteration lies in
`[-1, len+3]` frames. -/
theorem C01_window_forward (D pn sn q0 stepfix e len r : Int) (samples interp i : Nat)
    (hD : 0 < D) (hsn : 0 ≤ sn) (hq00 : 0 ≤ q0) (hs0 : 0 ≤ stepfix)
    (hr : 0 ≤ r ∧ r ≤ S / 2)
    (hq0 : q0 * D ≤ S * pn + r * D) (hstep : stepfix * D ≤ S * sn)
    (he : e ≤ len)
    (hi : i < samples) (hceil : ((samples : Int) - 1) * sn < e * D - pn) :
    -1 ≤ idx q0 stepfix i + tapLo interp ∧ idx q0 stepfix i + tapHi interp ≤ len + 3 := by
  have hlt := forward_lt D pn sn q0 stepfix e r samples i hD hsn hq0 hstep hi hceil
  have hge := forward_ge q0 stepfix i hs0
  have hS : S = 65536 := rfl
  have hup : idx q0 stepfix i ≤ e := by
    unfold idx
    apply idx_le_of_lt
    have : r ≤ 32768 := by have := hr.2; rw [hS] at this; omega
    rw [Int.add_mul, Int.one_mul]; omega
  have hlo : 0 ≤ idx q0 stepfix i := by
    unfold idx
    apply le_idx_of_le
    omega
  have t1 : -1 ≤ tapLo interp := by unfold tapLo; split <;> omega
  have t2 : tapHi interp ≤ 2 := by unfold tapHi; split <;> omega
  omega

/-- **C01_window_reverse.** Reverse playback (`VOICE_REVERSE`, bidirectional
loops).  `start = st ≥ 0`, `stepfix ≤ 0` with `|stepfix| ≤ 2¹⁶·step`, `q0` at most
one unit below `2¹⁶·pos`, and the start position below `len + 2` frames (the
`pos ≤ len + 1` clamp of `loop_reposition`, plus rounding). -/
theorem C01_window_reverse (D pn sn q0 stepfix st len : Int) (samples interp i : Nat)
    (hD : 0 < D) (hsn : 0 ≤ sn) (hst : 0 ≤ st) (hs0 : stepfix ≤ 0)
    (hq0 : S * pn - D < q0 * D) (hstep : - (S * sn) ≤ stepfix * D)
    (hpos : q0 < (len + 2) * S)
    (hi : i < samples) (hceil : ((samples : Int) - 1) * sn < pn - st * D) :
    -1 ≤ idx q0 stepfix i + tapLo interp ∧ idx q0 stepfix i + tapHi interp ≤ len + 3 := by
  have hge := reverse_ge D pn sn q0 stepfix st samples i hD hsn hq0 hstep hi hceil
  have hle := reverse_le q0 stepfix i hs0
  have hlo : st ≤ idx q0 stepfix i := by unfold idx; exact le_idx_of_le hge
  have hup : idx q0 stepfix i ≤ len + 1 := by
    unfold idx
    apply idx_le_of_lt
    have : len + 1 + 1 = len + 2 := by omega
    rw [this]; omega
  have t1 : -1 ≤ tapLo interp := by unfold tapLo; split <;> omega
  have t2 : tapHi interp ≤ 2 := by unfold tapHi; split <;> omega
  omega

/-- **C01_windowOk**: the executable check the driver evaluates on recorded
kernel calls is implied by the per-iteration statement. -/
theorem C01_windowOk (q0 stepfix : Int) (count interp : Nat) (len : Int)
    (h : ∀ i, i < count →
      -1 ≤ idx q0 stepfix i + tapLo interp ∧ idx q0 stepfix i + tapHi interp ≤ len + 3) :
    windowOk q0 stepfix count interp len = true := by
  unfold windowOk
  rw [List.all_eq_true]
  intro i hi
  have := h i (by simpa using hi)
  simp [this.1, this.2]

/-- **C01_iterations** (also used by C02): the segment loop of the softmixer
never asks a kernel for more than `size` samples, and `size` only shrinks: the
total number of samples produced for one voice in one tick is at most the tick
size.  (`samples = min size c`, `size' = size − samples`.) -/
theorem C01_iterations (size c : Nat) : min size c ≤ size ∧ size - min size c ≤ size := by
  constructor
  · exact Nat.min_le_left _ _
  · omega

/-! ## Non-vacuity: a concrete voice meeting the hypotheses of the forward
theorem (pos 10.5, step 1.25, end 16 = len, linear interpolation, 5 samples). -/
example : -1 ≤ idx (10 * 65536 + 32768) 81920 4 + tapLo 1
    ∧ idx (10 * 65536 + 32768) 81920 4 + tapHi 1 ≤ 16 + 3 :=
  C01_window_forward 4 42 5 (10 * 65536 + 32768) 81920 16 16 0 5 1 4
    (by decide) (by decide) (by decide) (by decide) (by decide) (by decide) (by decide)
    (by decide) (by decide) (by decide)

example : windowOk (10 * 65536 + 32768) 81920 5 1 16 = true := by decide

end Xmp.MixWindow
