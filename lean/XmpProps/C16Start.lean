import XmpModel.LoadPost
import XmpProps.C16
/-!
# C16 — the initial speed is a checked fact, not an assumption

`Seq.wfB` (the well-formedness predicate of the C16 theorems, evaluated on every module played)
contains one clause about a value that comes from the file header: the speed recorded for the
first playable order, which is the header speed `mod->spd`.  C03 (`XmpProps.C03`, theorem
`C03_finish_wf` over `XmpModel.LoadPost`; only the model is imported here) proves that the common post-load
path (`libxmp_load_epilogue`) leaves `1 ≤ mod->spd ≤ 255` for ARBITRARY raw modules
(`LoadPost.WFCommon`, clause `spdOK`: loaders that read a 16-bit header speed — XM, Oktalyzer,
Digital Tracker, MED4 — cannot get a speed ≥ 256 past it).  Here that clause replaces the
assumption: the C16 start theorem holds for every loaded module whose scan tables satisfy the
song part of `wfB`, with the speed range supplied by C03.  The agreement "first order info speed =
header speed" is monitored by the harness at every real start (`A startspeed`).
-/
namespace Xmp.Seq

/-- the scan recorded the header speed for the first playable order -/
def StartSpeedAgrees (lm : LoadPost.Module) (sm : SeqMod) : Prop :=
  skipInvalid sm 257 0 < sm.len → geti sm.oSpeed (skipInvalid sm 257 0) = lm.spd

/-- **C16_wf_of_loaded**: the song part of `wfB` together with C03's post-load guarantee gives the
whole of `WF`: the initial-speed clause is discharged by `spdOK`. -/
theorem C16_wf_of_loaded (lm : LoadPost.Module) (sm : SeqMod) (h3 : LoadPost.WFCommon lm = true)
    (hs : wfSongB sm = true) (hag : StartSpeedAgrees lm sm) : WF sm := by
  have hspd : LoadPost.spdOK lm = true := by
    unfold LoadPost.WFCommon at h3
    simp only [Bool.and_eq_true] at h3
    exact h3.1.1.1.1.1.1.1.1.1.2
  simp only [LoadPost.spdOK, Bool.and_eq_true, decide_eq_true_eq] at hspd
  unfold WF wfB
  rw [hs, Bool.true_and]
  unfold wfStartSpeedB
  simp only [Bool.or_eq_true, decide_eq_true_eq]
  by_cases hlt : skipInvalid sm 257 0 < sm.len
  · right; rw [hag hlt]; exact hspd.1
  · left; omega

/-- **C16_inv_start_loaded** (`C16_inv_start` with the header-speed hypothesis replaced by C03's
theorem): after `xmp_start_player` on a loaded module the boundary invariant holds and the reported
speed is the header speed, between 1 and 255. -/
theorem C16_inv_start_loaded (lm : LoadPost.Module) (sm : SeqMod) (h3 : LoadPost.WFCommon lm = true)
    (hs : wfSongB sm = true) (hag : StartSpeedAgrees lm sm) (speed0 : Int) {s : St} (hst : start sm speed0 = some s) :
    Core sm s ∧ RowInv sm s ∧ s.loopCount = 0 ∧ 1 ≤ s.speed ∧ s.speed ≤ 255 := by
  have h := C16_wf_of_loaded lm sm h3 hs hag
  obtain ⟨a, b, c⟩ := C16_inv_start h speed0 hst
  exact ⟨a, b, c, a.speed.1, a.speed.2⟩

/-- non-vacuity: `exMod` with a loaded module whose header speed is 6 -/
example : wfSongB exMod = true ∧ StartSpeedAgrees { (default : LoadPost.Module) with spd := 6 } exMod := by
  refine ⟨by decide +kernel, fun _ => by decide⟩

end Xmp.Seq
