import XmpModel.FmtMod
/-!
# C19 — Core-format loaders reproduce what an independent writer encoded
-/
namespace Xmp.Fmt

/-- every period of the writer's table is decoded by `libxmp_period_to_note` to the note it encodes -/
theorem C19_mod_period_roundtrip :
    ∀ n ∈ List.range 60, Mod.periodToNote (Mod.noteToPeriod (Mod.noteBase + n)) = Mod.noteBase + n := by
  decide +kernel

end Xmp.Fmt
