import XmpProofs.FmtMod
import XmpProofs.FmtS3m
import XmpProofs.FmtXm
import XmpProofs.FmtIt
import XmpProofs.FmtS3mFile
import XmpProofs.FmtItPat
import XmpProofs.FmtItSex
import XmpProofs.FmtItFile
import XmpProofs.FmtXmFile
import XmpModel.Gen.C19Size
/-!
# C19 — Core-format loaders reproduce what an independent writer encoded

Statement (properties.jsonl): for every well-formed MOD, S3M, XM or IT file produced by an
independent encoder from an abstract song, the loaded module contains exactly that song.

Over the models `XmpModel/Fmt{Mod,S3m,Xm,It}.lean` (`write` = the independent encoder written from the
format descriptions, `read` = the mirror of the libxmp loaders — the function the check compares with the real
loaders —, `Module` = the abstract song in the vocabulary of `xmp_get_module_info`), for songs and files of
every size (structural proofs over lists; `WellFormed` is an explicit decidable predicate, the generators of
the check satisfy it and each theorem is followed by a non-trivial instance):

* **MOD, whole file** — `C19_roundtrip_mod`: `WellFormed s o → NoAdpcm s.smps → read (write s o) = some s`
  for every signature kind ("M.K.", "M!K!", nCHN, nnCH), every opaque effect stream, every restart byte.
  `C19_mod_adpcm_hypothesis_needed` shows that the `NoAdpcm` hypothesis cannot be dropped.
* **S3M, whole file** — `C19_roundtrip_s3m`: header, orders, parapointer tables, pan table, sample headers,
  packed patterns (all `what`-flag choices, stored or parapointer 0), signed/unsigned 8/16-bit mono/stereo PCM.
* **XM, whole file** — `C19_roundtrip_xm`: `read (write s o) = some (loaded s)` (libxmp appends one empty pattern):
  every song header size 21..276, pattern headers with packed/unpacked cells and every mask choice or no data,
  instrument headers of every accepted size (full with key map, stripped, sample-less of any size ≥ 29),
  sample headers, delta-coded 8/16-bit mono/stereo PCM.  `C19_xm_ogg_window_regression`: the former counterexample
  of the repaired `is_ogg_sample` defect ("OggS" spelled across two short samples) is well-formed and round-trips.
* **IT, whole file** — `C19_roundtrip_it`: sample mode and instrument mode (new and old `IMPI` headers with
  key tables), offset tables, `IMPS` headers with all loop flags, packed patterns with every mask / last-value
  choice (`C19_it_pattern_codec`), channel count found by the first pass (`C19_it_channel_scan`), plain and
  IT 2.14 / 2.15 compressed samples (`C19_it_sample_compression`: the model of `itsex.c` against an independent
  width-switching compressor, whole sample, byte level, multi-block, stereo).
* codecs used by the above and exported on their own: `C19_s3m_pattern_codec`, `C19_s3m_note_codec`,
  `C19_s3m_pcm_codec`, `C19_xm_cell_codec`, `C19_xm_cells_codec`, `C19_xm_pcm_codec`, `C19_it_key_table_codec`,
  `C19_pcm_sign8_involutive`, `C19_pcm_sign16_involutive`, `C19_pcm_delta8`, `C19_pcm_delta16`,
  `C19_pcm_stereo_blocks`; the older `C19_it_field_codecs_partial` / `C19_it_compress_block_partial` are kept
  (they are now consequences of the full statements).

Not covered by the theorems (the models are silent there, see MANIFEST note of tools/checks/c19.py): XM ≤ 1.03
layout, AdLib / ADPCM / OGG samples, truncated files, effect columns (opaque bytes), envelopes and every field the
property does not list.
-/
namespace Xmp.Fmt
open Xmp

/-! ## MOD -/

/-- every period of the writer's table is decoded by `libxmp_period_to_note` to the note it encodes -/
theorem C19_mod_period_roundtrip :
    ∀ n ∈ List.range 60, Mod.periodToNote (Mod.noteToPeriod (Mod.noteBase + n)) = Mod.noteBase + n := by
  decide +kernel

/-- **MOD whole-file round trip.** -/
theorem C19_roundtrip_mod (s : Module) (o : Mod.Opts) (h : Mod.WellFormed s o) (hA : Mod.NoAdpcm s.smps) :
    Mod.read (Mod.write s o) = some s :=
  Mod.roundtrip s o h hA

/-- a non-trivial instance of the hypotheses: 4 channels, two patterns, a looped and an unlooped sample -/
def modExample : Module :=
  let emptySlot : Ins × Smp := ({ name := [], subs := [] }, { name := [], len := 0, lps := 0, lpe := 0, flg := 0, pcm := [] })
  let s1 : Ins × Smp :=
    ({ name := Mod.str "lead", subs := [{ sid := 0, vol := 64, pan := 0x80, xpo := 0, fin := -16 }] },
     { name := [], len := 8, lps := 2, lpe := 8, flg := FLOOP, pcm := [1, 2, 3, 4, 5, 6, 7, 8] })
  let s2 : Ins × Smp :=
    ({ name := Mod.str "kick", subs := [{ sid := 1, vol := 40, pan := 0x80, xpo := 0, fin := 0 }] },
     { name := [], len := 6, lps := 0, lpe := 0, flg := 0, pcm := [0x41, 0x44, 0x50, 0x43, 0x4c, 9] })
  let slots := s1 :: s2 :: List.replicate 29 emptySlot
  let cell (n i : Nat) : Cell := { note := n, ins := i, vol := 0 }
  let pat (f : Nat → Cell) : Pat := { rows := 64, cells := (List.range 256).map f }
  { name := Mod.str "example", chn := 4, orders := [0, 1, 0],
    pats := [pat fun k => if k % 16 = 0 then cell 49 1 else {}, pat fun k => if k % 8 = 3 then cell 96 2 else {}],
    ins := slots.map (·.1), smps := slots.map (·.2), spd := 6, bpm := 125 }

example : Mod.WellFormed modExample {} ∧ Mod.NoAdpcm modExample.smps := by decide +kernel
example : Mod.read (Mod.write modExample {}) = some modExample :=
  C19_roundtrip_mod _ _ (by decide +kernel) (by decide +kernel)

/-- `WellFormed` alone is not sufficient: two short samples whose bodies together spell "ADPCM"
make the loader (and the model) take the first one for a ModPlug ADPCM sample. -/
theorem C19_mod_adpcm_hypothesis_needed :
    Mod.WellFormed Mod.cx { kind := 1 } ∧ Mod.read (Mod.write Mod.cx { kind := 1 }) = none :=
  Mod.wellFormed_not_sufficient

/-- **Where the file size read by the MOD loader's heuristics comes from** (FlexTrax probe, Mod's Grave WOW and
Protracker song-file detection compare `module_data.size` with sizes computed from the header; `Mod.read` uses
`bs.length` there).  Facts generated from the working tree (tools/c19_gen_size.py, `XmpModel/Gen/C19Size.lean`):
every public load entry point stores `module_data.size` exactly once; every store in the library is made by one of
them and stores the size of the stream it opened — `hio_size(h)`, or, for the memory entry point, the very length
given to `hio_open_const_mem` — never a caller-supplied advisory value (`xmp_load_module_from_file`'s `size` argument
is documented as ignored). -/
theorem C19_size_is_stream_length :
    (∀ f ∈ ["xmp_load_module", "xmp_load_module_from_memory", "xmp_load_module_from_file",
            "xmp_load_module_from_callbacks"], f ∈ Gen.loadEntryPoints) ∧
    (∀ f ∈ Gen.loadEntryPoints, (Gen.sizeStores.filter fun st => st.2.1 == f).length = 1) ∧
    (∀ st ∈ Gen.sizeStores, st.2.1 ∈ Gen.loadEntryPoints ∧
      (st.2.2.1 = "hio_size(h)" ∨ (st.2.2.1 = "size" ∧ st.2.2.2 = "hio_open_const_mem(mem, size)"))) := by
  decide

/-! ## S3M -/

/-- **S3M whole-file round trip**: header, order list, both parapointer tables, optional pan table, 80-byte
sample headers (24-bit paragraph pointers), packed patterns with every redundant `what`-flag choice (stored or
replaced by parapointer 0 when empty), signed / unsigned, 8 / 16 bit, mono / stereo-block PCM — for songs and
files of every size the pointer widths of the format can address (`WellFormed` is decidable and explicit). -/
theorem C19_roundtrip_s3m (s : Module) (o : S3m.Opts) (h : S3m.WellFormed s o) : S3m.read (S3m.write s o) = some s :=
  S3m.roundtrip s o h

/-- a non-trivial instance: 3 channels, a stored and an empty pattern, markers in the order list, an 8-bit looped
sample, an empty slot and a 16-bit stereo sample -/
def s3mExample : Module :=
  let cell (n i v : Nat) : Cell := { note := n, ins := i, vol := v }
  { name := Mod.str "s3m example", chn := 3, orders := [0xfe, 1, 0, 0xff, 1],
    pats := [{ rows := 64, cells := List.replicate 192 {} },
             { rows := 64, cells := (List.range 192).map fun k =>
                 if k % 7 = 0 then cell 61 1 0 else if k % 11 = 3 then cell KEY_OFF 0 65 else if k = 5 then cell 0 3 17 else {} }],
    ins := [{ name := Mod.str "lead", subs := [{ sid := 0, vol := 64, pan := 0x80, xpo := 0, fin := 0 }] },
            { name := Mod.str "(empty)", subs := [] },
            { name := [], subs := [{ sid := 2, vol := 17, pan := 0x80, xpo := 0, fin := 0 }] }],
    smps := [{ name := [], len := 5, lps := 1, lpe := 5, flg := FLOOP, pcm := [1, 2, 3, 250, 128] },
             { name := [], len := 0, lps := 0, lpe := 0, flg := 0, pcm := [] },
             { name := [], len := 3, lps := 0, lpe := 0, flg := F16BIT ||| FSTEREO,
               pcm := [1, 2, 3, 4, 5, 6, 7, 8, 9, 10, 11, 255] }],
    spd := 4, bpm := 150 }

def s3mExampleOpts : S3m.Opts :=
  { ffi := 2, pan := some (List.replicate 32 0x27), nullEmpty := true, force := fun i => i % 8, fx := fun i => (u8 i, u8 (3 * i)) }

example : S3m.WellFormed s3mExample s3mExampleOpts := by decide +kernel
example : S3m.WellFormed s3mExample {} := by decide +kernel
example : S3m.read (S3m.write s3mExample s3mExampleOpts) = some s3mExample :=
  C19_roundtrip_s3m _ _ (by decide +kernel)

/-- **S3M pattern codec**, all `what`-flag choices -/
theorem C19_s3m_pattern_codec (chn : Nat) (p : Pat) (force : Nat → Nat) (fx : Nat → UInt8 × UInt8) (i : Nat)
    (hc : 1 ≤ chn ∧ chn ≤ 32) (hp : S3m.PatOk chn p) (rest : Bytes) :
    S3m.unpack chn (le16 ((S3m.pack chn p force fx i).length + 2) ++ S3m.pack chn p force fx i ++ rest) = some p :=
  S3m.unpack_pack chn p force fx i hc hp rest

example : S3m.PatOk 2 { rows := 64, cells := (List.range 128).map fun k =>
    if k = 0 then { note := 61, ins := 3, vol := 65 } else if k = 5 then { note := KEY_OFF, ins := 0, vol := 0 } else {} } := by
  decide +kernel

theorem C19_s3m_note_codec {n : Nat} (h : S3m.NoteOk n) : S3m.decNote (S3m.encNote n) = n :=
  S3m.decNote_encNote h

/-- S3M / IT sample storage: signed or unsigned, 8 or 16 bit, mono or two-block stereo -/
theorem C19_s3m_pcm_codec (unsigned : Bool) (flg len : Nat) (pcm : Bytes) (h : pcm.length = len * frameBytes flg) :
    S3m.loadPcm unsigned flg len (S3m.storePcm unsigned flg len pcm) = pcm :=
  S3m.loadPcm_storePcm unsigned flg len pcm h

/-! ## XM -/

/-- **XM cell codec**: unpacked (`mode = 32`) and every packed form -/
theorem C19_xm_cell_codec (c : Cell) (h : Xm.CellOk c) (fx : UInt8 × UInt8) (volfx : UInt8) (mode : Nat) (rest : Bytes) :
    Xm.decCell (Xm.encCell c fx volfx mode ++ rest) = some (c, rest) :=
  Xm.decCell_encCell c h fx volfx mode rest

theorem C19_xm_cells_codec (cs : List Cell) (h : ∀ c ∈ cs, Xm.CellOk c) (fx : Nat → UInt8 × UInt8)
    (volfx : Nat → UInt8) (mode : Nat → Nat) (i : Nat) (rest : Bytes) :
    Xm.decCells cs.length (Xm.encCells fx volfx mode cs i ++ rest) = some cs :=
  Xm.decCells_encCells cs h fx volfx mode i rest

example : Xm.CellOk { note := KEY_FADE, ins := 7, vol := 33 } ∧ Xm.CellOk { note := 108, ins := 0, vol := 0 } := by decide

/-- **XM whole-file round trip** (version 1.04 layout): every song header size the loader accepts, pattern headers with
packed / unpacked cells (every redundant mask choice) or no data for empty patterns, instrument headers of every size
(full header with key map, stripped header, sample-less instruments of any size ≥ 29 up to the end of the file), sample
headers, delta-coded 8 / 16 bit mono / stereo PCM.  libxmp appends one empty 64-row pattern: `Xm.loaded`. -/
theorem C19_roundtrip_xm (s : Module) (o : Xm.Opts) (h : Xm.WellFormed s o) : Xm.read (Xm.write s o) = some (Xm.loaded s) :=
  Xm.roundtrip s o h

example : Xm.WellFormed Xm.xmExample {} := by decide +kernel
example : Xm.WellFormed Xm.xmExample { hsz := 23, insSize := fun _ => 300, emptyInsSize := 31 } := by decide +kernel
example : Xm.read (Xm.write Xm.xmExample { hsz := 23, insSize := fun _ => 300, emptyInsSize := 31 }) = some (Xm.loaded Xm.xmExample) :=
  C19_roundtrip_xm _ _ (by decide +kernel)

/-- regression witness of the repaired `is_ogg_sample` defect (/repo f3de111): a 5-byte sample followed by a sample
starting "ggS…" spells "OggS" at file offset +4 of the first one; the loader used to take it for an Ogg Vorbis
sample and refuse the file.  The probe is now bounded by the sample's own stored bytes, the cross-sample hypothesis
(`NoOgg`) of the theorem is gone, and the former counterexample round-trips. -/
theorem C19_xm_ogg_window_regression :
    ((Xm.write Xm.cxOgg {}).drop (336 + 10 + 263 + 80 + 4)).take 4 = Xm.str "OggS" ∧ Xm.WellFormed Xm.cxOgg {} ∧
    Xm.read (Xm.write Xm.cxOgg {}) = some (Xm.loaded Xm.cxOgg) :=
  ⟨Xm.cxOgg_window, Xm.cxOgg_wellFormed, Xm.cxOgg_roundtrip⟩

/-- XM sample storage: delta-coded, 8 or 16 bit, mono or two-block stereo -/
theorem C19_xm_pcm_codec (flg len : Nat) (pcm : Bytes) (h : pcm.length = len * frameBytes flg) :
    Xm.loadPcm flg len (Xm.storePcm flg len pcm) = pcm :=
  Xm.loadPcm_storePcm flg len pcm h

/-! ## IT -/

/-- **IT whole-file round trip (sample mode)**: 192-byte header, order list, sample-header and pattern offset tables,
`IMPS` headers (loop / sustain loop / ping-pong flags, default pan, signed or unsigned, plain or IT 2.14 / 2.15
compressed, 8 / 16 bit, mono / stereo), packed patterns with every mask / last-value writer choice (stored, or offset 0
for empty 64-row patterns), channel count recovered by the loader's first pass. -/
theorem C19_roundtrip_it (s : Module) (o : It.Opts) (h : It.WellFormed s o) : It.read (It.write s o) = some s :=
  It.roundtrip s o h

/-- a non-trivial instance: 2 channels, a 4-row pattern with repeated values and an empty 64-row pattern, a looped
8-bit sample with a ping-pong sustain loop, an empty slot, a 16-bit stereo sample stored IT 2.15-compressed -/
def itExample : Module :=
  let cell (n i v : Nat) : Cell := { note := n, ins := i, vol := v }
  { name := Mod.str "it example", chn := 2, orders := [0, 0xfe, 1, 0xff],
    pats := [{ rows := 4, cells := [cell 61 1 33, cell KEY_OFF 0 0, cell 61 1 33, {}, cell KEY_FADE 3 0, cell 61 1 65, {}, cell KEY_CUT 0 1] },
             { rows := 64, cells := List.replicate 128 {} }],
    ins := [{ name := Mod.str "lead", subs := [{ sid := 0, vol := 64, pan := 128, xpo := 0, fin := 0 }] },
            { name := Mod.str "(empty)", subs := [] },
            { name := [], subs := [{ sid := 2, vol := 17, pan := 256, xpo := 0, fin := 0 }] }],
    smps := [{ name := [], len := 5, lps := 1, lpe := 5, flg := FLOOP ||| FSLOOP ||| FSBIDIR, sus := 2, sue := 4,
               pcm := [1, 2, 3, 250, 128] },
             { name := [], len := 0, lps := 0, lpe := 0, flg := 0, pcm := [] },
             { name := [], len := 3, lps := 0, lpe := 0, flg := F16BIT ||| FSTEREO,
               pcm := [1, 2, 3, 4, 5, 6, 7, 8, 9, 10, 11, 255] }],
    spd := 4, bpm := 150 }

def itExampleOpts : It.Opts :=
  { signed := fun i => i % 2 = 0, comp := fun i => if i = 2 then 2 else 0, wsel := fun _ k => 3 + k % 5, nullEmpty := true,
    cell := fun i => { useLast := 7, forceMask := i % 3 = 0, forceIns := i % 4 = 1, fx := if i % 2 = 0 then some (u8 i, 7) else none, fade := i } }

/-- the same song in instrument mode: two instruments sharing sample 0, key maps in first-appearance order, an
instrument without samples; `smpVol` / `smpPan` / `insPan` are the header fields the sub-instruments inherit -/
def itInsExample (isNew : Bool) : Module :=
  let o : It.Opts := { smpVol := fun i => 40 + i, smpPan := fun i => if i = 2 then some 16 else none,
                       insPan := fun i => if i = 0 then some 8 else none }
  let sub (i sid : Nat) : Sub := { sid := sid, vol := 40 + sid, pan := It.subPan o isNew i sid, xpo := 0, fin := 0 }
  let none' := if isNew then 0xff else 0
  { itExample with
    ins := [{ name := Mod.str "duo", subs := [sub 0 2, sub 0 0],
              keymap := (List.range 120).map (fun j => if j < 10 then none' else if j % 3 = 0 then 1 else 0) ++ [0] },
            { name := Mod.str "mute", subs := [], keymap := List.replicate 120 none' ++ [0] },
            { name := [], subs := [sub 2 0], keymap := List.replicate 120 0 ++ [0] }],
    smps := itExample.smps.zipIdx.map fun (m, i) => { m with name := if i = 1 then Mod.str "unused" else [] } }

def itInsOpts (isNew : Bool) : It.Opts :=
  { itExampleOpts with
    insMode := true, cmwt := if isNew then 0x0214 else 0x0100,
    smpVol := fun i => 40 + i, smpPan := fun i => if i = 2 then some 16 else none,
    insPan := fun i => if i = 0 then some 8 else none,
    keyOff := fun i j => i = 1 || (i = 0 && j < 10), envNodes := fun i => 3 * i, filler := fun k => u8 (7 * k) }

example : It.WellFormed (itInsExample true) (itInsOpts true) := by decide +kernel
example : It.WellFormed (itInsExample false) (itInsOpts false) := by decide +kernel
example : It.read (It.write (itInsExample false) (itInsOpts false)) = some (itInsExample false) :=
  C19_roundtrip_it _ _ (by decide +kernel)

/-- **IT key table codec**: the loaders' numbering of the sub-instruments (order of first appearance in the 120-entry
key table) recovers the sample ids and the key map -/
theorem C19_it_key_table_codec (noSmp : Nat) (off : Nat → Bool) (S : List Nat) (hn : S.Nodup) (h120 : ∀ c ∈ S, c < 120)
    (km : List Nat) (h : It.keyOrder noSmp off km 0 0 = some S.length) :
    It.keyScan noSmp (It.keyBytesOf off S km 0) [] = (S, km) := by
  have := It.keyScan_rt noSmp off S hn h120 km 0 0 (Nat.zero_le _) h
  rwa [List.take_zero] at this

example : It.keyOrder 0xff (fun j => j = 1) [0, 0xff, 1, 0, 1, 2] 0 0 = some [5, 3, 9].length := by decide

example : It.WellFormed itExample itExampleOpts := by decide +kernel
example : It.WellFormed itExample {} := by decide +kernel
example : It.read (It.write itExample itExampleOpts) = some itExample :=
  C19_roundtrip_it _ _ (by decide +kernel)

/-- IT pattern *field* codecs (note incl. off/cut/fade codes, volume, instrument).  Missing for the
full `C19_it_pattern_codec`: the coupling invariant between the writer's and the reader's per-channel
mask / last-value memory across entries and rows. -/
theorem C19_it_field_codecs_partial :
    (∀ n fade, It.NoteOk n → n ≠ 0 → It.decNote (It.encNote n fade) = n) ∧
    (∀ v, 1 ≤ v → v ≤ 65 → It.decVol (u8 (v - 1)).toNat = v) ∧
    (∀ i, i < 256 → (u8 i).toNat = i) :=
  ⟨fun _ fade h hn => It.decNote_encNote h hn fade, fun _ h1 h2 => It.decVol_encVol h1 h2, fun _ h => It.ins_byte h⟩

/-- **IT 2.14 / 2.15 sample compression, one block, bit level** (8- and 16-bit, single and double delta): the
model of `itsex_decompress8/16` (all code widths, width-change codes, both integrators) decodes the bit
stream of the writer's widest-code encoder back to the samples.  Missing for the full
`Sex.decompress (Sex.compress raw) = raw`: bits ↔ bytes packing with zero padding, the 16-bit block length
framing and the multi-block / stereo loop, and the width-switching choices of the encoder (`wsel`); all of
these are exercised against the real `itsex.c` by the oracle on every run (multi-block samples included). -/
theorem C19_it_compress_block_partial (is16 it215 : Bool) (xs : List Nat)
    (hx : ∀ x ∈ xs, x < (It.Sex.cfg is16).M) (i fuel : Nat) (hf : xs.length + 1 ≤ fuel) (rest : List Bool) :
    It.Sex.decBlock (It.Sex.cfg is16) it215 fuel xs.length { left := (It.Sex.cfg is16).W }
        (It.Sex.encDeltas (It.Sex.cfg is16) (fun _ => 0)
          (It.Sex.deltas (It.Sex.cfg is16) it215 xs 0 0) i (It.Sex.cfg is16).W ++ rest) = some xs :=
  It.Sex.decBlock_encDeltas_widest is16 it215 xs hx i fuel hf rest

example : ∀ x ∈ [0, 255, 128, 7, 7, 200], x < (It.Sex.cfg false).M := by decide

/-- **IT packed-pattern codec**: channel-mask / last-value compression with every writer choice (mask byte resent or
not, "same as last" bits, explicit instrument 0, opaque effects, every note-fade code, marker entries). -/
theorem C19_it_pattern_codec (chn : Nat) (p : Pat) (opt : Nat → It.CellOpt) (i : Nat)
    (hc : 1 ≤ chn ∧ chn ≤ 64) (hp : It.PatOk chn p) :
    (It.unpackData chn p.rows (It.pack chn p opt i)).flatten = p.cells :=
  It.unpackData_pack chn p opt i hc hp

example : It.PatOk 2 It.exPat := by decide

/-- first pass of `it_load` (channel count): the scan of the writer's pattern data never exceeds channel `chn-1`,
and reaches it when the marker entry of the last channel is emitted -/
theorem C19_it_channel_scan (chn : Nat) (p : Pat) (opt : Nat → It.CellOpt) (i mx : Nat)
    (hc : 1 ≤ chn ∧ chn ≤ 64) (hp : It.PatOk chn p) (hmx : mx ≤ chn - 1) :
    It.scanGo ((It.pack chn p opt i).length + 1) (It.pack chn p opt i) p.rows (List.replicate 64 0) mx ≤ chn - 1 ∧
    ((opt (i + chn - 1)).marker = true →
      It.scanGo ((It.pack chn p opt i).length + 1) (It.pack chn p opt i) p.rows (List.replicate 64 0) mx = chn - 1) :=
  ⟨It.scanGo_pack_le chn p opt i mx hc hp hmx, It.scanGo_pack_marker chn p opt i mx hc hp hmx⟩

/-- **IT 2.14 / 2.15 sample compression, whole sample, byte level**: the model of `itsex.c` (`unpack_it_sample`,
`itsex_decompress8/16`: all code widths, width-change codes, both integrators, 16-bit block framing, multi-block,
stereo) decodes the output of the independent width-switching compressor, for every width wish `wsel`, every
length, followed by arbitrary bytes. -/
theorem C19_it_sample_compression (flg len : Nat) (it215 : Bool) (wsel : Nat → Nat) (raw rest : Bytes)
    (hlen : raw.length = len * frameBytes flg) :
    It.Sex.decompress flg len it215 (It.Sex.compress flg len it215 wsel raw ++ rest) = some raw :=
  It.Sex.decompress_compress flg len it215 wsel raw rest hlen

example : ([1, 2, 3, 4, 5, 6, 7, 8, 9, 10, 11, 12] : Bytes).length = 3 * frameBytes (F16BIT ||| FSTEREO) := by decide

/-! ## PCM -/

theorem C19_pcm_sign8_involutive (b : Bytes) : signFlip false (signFlip false b) = b :=
  signFlip8_involutive b

/-- unsigned ↔ signed 16-bit storage (S3M ffi 2, IT convert bit 0 clear) -/
theorem C19_pcm_sign16_involutive (b : Bytes) (n : Nat) (h : b.length = 2 * n) : signFlip true (signFlip true b) = b :=
  signFlip16_involutive b n h

/-- XM delta storage, 8-bit and 16-bit (per channel block) -/
theorem C19_pcm_delta8 (b : Bytes) : deltaDec false (deltaEnc false b) = b := deltaDec_deltaEnc8 b
theorem C19_pcm_delta16 (b : Bytes) (n : Nat) (h : b.length = 2 * n) : deltaDec true (deltaEnc true b) = b :=
  deltaDec_deltaEnc16 b n h

/-- stereo storage: left block ++ right block ↔ interleaved frames (S3M, XM, IT) -/
theorem C19_pcm_stereo_blocks (flg len : Nat) (pcm : Bytes) (h : pcm.length = len * frameBytes flg) :
    fromBlocks flg len (toBlocks flg len pcm) = pcm :=
  fromBlocks_toBlocks flg len pcm h

example : ([1, 2, 3, 4, 5, 6, 7, 8] : Bytes).length = 2 * frameBytes (F16BIT ||| FSTEREO) := by decide

/-! ## non-vacuity at the formats' maximum counts and boundary header values -/

/-- MOD: 128 patterns (order value 127 present), full 128-entry order table, 31 instruments, a sample of the maximal
length 131070 is covered by `SlotOk` (`len < 131072`) -/
def modMax : Module :=
  { modExample with
    chn := 1, orders := (List.range 128).map fun k => u8 (127 - k),
    pats := List.replicate 128 { rows := 64, cells := List.replicate 64 {} } }

example : Mod.WellFormed modMax { kind := 2 } ∧ Mod.NoAdpcm modMax.smps := by decide +kernel

/-- S3M: 254 stored patterns (the largest number an order entry can name), 255 orders with both markers, 255
instruments, speed 255, tempo 255, 32 channels are admitted -/
def s3mMax : Module :=
  { name := [], chn := 1, orders := (List.range 255).map fun k => u8 (if k = 100 then 0xfe else if k = 254 then 0xff else k),
    pats := List.replicate 254 { rows := 64, cells := List.replicate 64 {} },
    ins := List.replicate 255 { name := [], subs := [] },
    smps := List.replicate 255 { name := [], len := 0, lps := 0, lpe := 0, flg := 0, pcm := [] },
    spd := 255, bpm := 255 }

example : S3m.WellFormed s3mMax { nullEmpty := true, gv := 255, mv := 255 } := by decide +kernel
example : S3m.WellFormed { s3mExample with spd := 1, bpm := 20 } {} := by decide +kernel

/-- XM: 256 patterns, 256 orders (value 255 present), 255 instruments, a 256-row pattern, an instrument with 16
samples, speed 31, tempo 1000 -/
def xmMax : Module :=
  let smp : Smp := { name := [], len := 1, lps := 0, lpe := 0, flg := 0, pcm := [7] }
  { name := [], chn := 1, orders := (List.range 256).map fun k => u8 (255 - k),
    pats := { rows := 256, cells := List.replicate 256 {} } :: List.replicate 255 { rows := 1, cells := [{}] },
    ins := { name := [], subs := (List.range 16).map (fun j => { sid := j, vol := 64, pan := 255, xpo := -128, fin := 127 }),
             keymap := List.replicate 12 0 ++ (List.range 96).map (· % 16) ++ List.replicate 13 0 } ::
           List.replicate 254 { name := [], subs := [] },
    smps := List.replicate 16 smp, spd := 31, bpm := 1000 }

example : Xm.WellFormed xmMax { emptyZero := true, restart := 65535, flags := 65535 } := by decide +kernel
example : Xm.WellFormed { Xm.xmExample with spd := 1, bpm := 32 } { hsz := 21 + Xm.xmExample.orders.length - 1 } := by decide +kernel

/-- IT: 200 patterns, 256 orders, 200 rows, 255 samples; instrument mode with 255 instruments; speed 255, tempo 255,
global volume 128 -/
def itMax (insMode : Bool) : Module :=
  { name := [], chn := 1, orders := (List.range 256).map fun k => u8 (if k < 200 then 199 - k else 0xfe),
    pats := { rows := 200, cells := List.replicate 200 {} } :: List.replicate 199 { rows := 1, cells := [{}] },
    ins := List.replicate 255 (if insMode then { name := [], subs := [], keymap := List.replicate 120 0xff ++ [0] } else { name := [], subs := [] }),
    smps := List.replicate 255 { name := [], len := 0, lps := 0, lpe := 0, flg := 0, pcm := [] },
    spd := 255, bpm := 255 }

example : It.WellFormed (itMax false) { gv := 128, mv := 255 } := by decide +kernel
example : It.WellFormed (itMax true) { insMode := true, keyOff := fun _ _ => true, gv := 0 } := by decide +kernel
example : It.WellFormed { itExample with spd := 1, bpm := 32 } {} := by decide +kernel

/-! ## the property, all four formats -/

/-- **C19**: for every well-formed abstract song and every choice of writer options, the loader model gives back
exactly the song the independent encoder wrote (XM: plus the empty pattern libxmp appends). -/
theorem C19_roundtrip_all :
    (∀ s o, Mod.WellFormed s o → Mod.NoAdpcm s.smps → Mod.read (Mod.write s o) = some s) ∧
    (∀ s o, S3m.WellFormed s o → S3m.read (S3m.write s o) = some s) ∧
    (∀ s o, Xm.WellFormed s o → Xm.read (Xm.write s o) = some (Xm.loaded s)) ∧
    (∀ s o, It.WellFormed s o → It.read (It.write s o) = some s) :=
  ⟨C19_roundtrip_mod, C19_roundtrip_s3m, C19_roundtrip_xm, C19_roundtrip_it⟩

/-- S3M / IT order lists: the loader's scan from order 0 skips entries that name no stored pattern and stops at the end
marker; `WellFormed` asks that it reaches a stored pattern (`startsValid`).  Without that the file is refused
(model: `none`), e.g. an end marker in front; an order list that names no stored pattern at all is loaded with an
empty order list. -/
theorem C19_s3m_order_rule :
    S3m.read (S3m.write { s3mExample with orders := [0xb2, 0xff, 0, 1] } {}) = none ∧
    (S3m.read (S3m.write { s3mExample with orders := [0xfe, 5, 1] } {})).map (·.orders) = some [0xfe, 5, 1] ∧
    (S3m.read (S3m.write { s3mExample with orders := [5, 0xff] } {})).map (·.orders) = some [] := by
  decide +kernel

end Xmp.Fmt
