import XmpProofs.FmtMod
import XmpProofs.FmtS3m
import XmpProofs.FmtXm
import XmpProofs.FmtIt
/-!
# C19 — Core-format loaders reproduce what an independent writer encoded

Statement (properties.jsonl): for every well-formed MOD, S3M, XM or IT file produced by an
independent encoder from an abstract song, the loaded module contains exactly that song.

Over the models `XmpModel/Fmt{Mod,S3m,Xm,It}.lean` (`write` = the independent encoder written from the
format descriptions, `read` = the mirror of the libxmp loaders, `Module` = the abstract song in the
vocabulary of `xmp_get_module_info`):

* **MOD, whole file** — `C19_roundtrip_mod`: `WellFormed s o → NoAdpcm s.smps → read (write s o) = some s`
  for every signature kind ("M.K.", "M!K!", nCHN, nnCH), every opaque effect stream, every restart byte.
  `C19_mod_adpcm_hypothesis_needed` shows that the `NoAdpcm` hypothesis cannot be dropped.
* **S3M pattern codec** — `C19_s3m_pattern_codec`: unpack ∘ pack = id for every choice of redundant
  `what`-byte flags and effect bytes, with the 16-bit length word and arbitrary following bytes.
* **XM pattern-cell codec** — `C19_xm_cell_codec` / `C19_xm_cells_codec`: unpacked cells and packed cells
  with every superset of the needed mask bits, opaque effect and volume-column-effect bytes.
* **IT field codecs** — `C19_it_field_codecs_partial`; **IT sample compression** — `C19_it_compress_block_partial`
  (see below for what is missing).
* PCM storage: `C19_pcm_sign8_involutive`, `C19_pcm_sign16_involutive`, `C19_pcm_delta8`, `C19_pcm_delta16`
  (stereo block ↔ interleaved conversion is not proved).

Full statements that are NOT proved (the file-level assembly of S3M, XM, IT and the IT mask/last-value
pattern compression); they are evaluated on every generated case of every run instead (`rt ok` of
`drv_c19`, evidence keys `*_model_roundtrip_ok`):

    theorem C19_roundtrip_s3m : S3m.WellFormed s o → S3m.read (S3m.write s o) = some s
    theorem C19_roundtrip_xm  : Xm.WellFormed s o  → Xm.read (Xm.write s o) = some (Xm.loaded s)
    theorem C19_roundtrip_it  : It.WellFormed s o  → It.read (It.write s o) = some s
    theorem C19_it_pattern_codec : 1 ≤ chn ∧ chn ≤ 64 → It.PatOk chn p →
        (It.unpackData chn p.rows (It.pack chn p opt i)).flatten = p.cells
-/
namespace Xmp.Fmt
open Xmp

/-! ## MOD -/

/-- every period of the writer's table is decoded by `libxmp_period_to_note` to the note it encodes -/
theorem C19_mod_period_roundtrip :
    ∀ n ∈ List.range 60, Mod.periodToNote (Mod.noteToPeriod (Mod.noteBase + n)) = Mod.noteBase + n := by
  decide +kernel

/-- **MOD whole-file round trip.** -/
theorem C19_roundtrip_mod (s : Module) (o : Mod.Opts) (h : Mod.WellFormed s o) (hA : Mod.NoAdpcm s.smps) :
    Mod.read (Mod.write s o) = some s :=
  Mod.roundtrip s o h hA

/-- a non-trivial instance of the hypotheses: 4 channels, two patterns, a looped and an unlooped sample -/
def modExample : Module :=
  let emptySlot : Ins × Smp := ({ name := [], subs := [] }, { name := [], len := 0, lps := 0, lpe := 0, flg := 0, pcm := [] })
  let s1 : Ins × Smp :=
    ({ name := Mod.str "lead", subs := [{ sid := 0, vol := 64, pan := 0x80, xpo := 0, fin := -16 }] },
     { name := [], len := 8, lps := 2, lpe := 8, flg := FLOOP, pcm := [1, 2, 3, 4, 5, 6, 7, 8] })
  let s2 : Ins × Smp :=
    ({ name := Mod.str "kick", subs := [{ sid := 1, vol := 40, pan := 0x80, xpo := 0, fin := 0 }] },
     { name := [], len := 6, lps := 0, lpe := 0, flg := 0, pcm := [0x41, 0x44, 0x50, 0x43, 0x4c, 9] })
  let slots := s1 :: s2 :: List.replicate 29 emptySlot
  let cell (n i : Nat) : Cell := { note := n, ins := i, vol := 0 }
  let pat (f : Nat → Cell) : Pat := { rows := 64, cells := (List.range 256).map f }
  { name := Mod.str "example", chn := 4, orders := [0, 1, 0],
    pats := [pat fun k => if k % 16 = 0 then cell 49 1 else {}, pat fun k => if k % 8 = 3 then cell 96 2 else {}],
    ins := slots.map (·.1), smps := slots.map (·.2), spd := 6, bpm := 125 }

example : Mod.WellFormed modExample {} ∧ Mod.NoAdpcm modExample.smps := by decide +kernel
example : Mod.read (Mod.write modExample {}) = some modExample :=
  C19_roundtrip_mod _ _ (by decide +kernel) (by decide +kernel)

/-- `WellFormed` alone is not sufficient: two short samples whose bodies together spell "ADPCM"
make the loader (and the model) take the first one for a ModPlug ADPCM sample. -/
theorem C19_mod_adpcm_hypothesis_needed :
    Mod.WellFormed Mod.cx { kind := 1 } ∧ Mod.read (Mod.write Mod.cx { kind := 1 }) = none :=
  Mod.wellFormed_not_sufficient

/-! ## S3M -/

/-- **S3M pattern codec**, all `what`-flag choices -/
theorem C19_s3m_pattern_codec (chn : Nat) (p : Pat) (force : Nat → Nat) (fx : Nat → UInt8 × UInt8) (i : Nat)
    (hc : 1 ≤ chn ∧ chn ≤ 32) (hp : S3m.PatOk chn p) (rest : Bytes) :
    S3m.unpack chn (le16 ((S3m.pack chn p force fx i).length + 2) ++ S3m.pack chn p force fx i ++ rest) = some p :=
  S3m.unpack_pack chn p force fx i hc hp rest

example : S3m.PatOk 2 { rows := 64, cells := (List.range 128).map fun k =>
    if k = 0 then { note := 61, ins := 3, vol := 65 } else if k = 5 then { note := KEY_OFF, ins := 0, vol := 0 } else {} } := by
  decide +kernel

theorem C19_s3m_note_codec {n : Nat} (h : S3m.NoteOk n) : S3m.decNote (S3m.encNote n) = n :=
  S3m.decNote_encNote h

/-! ## XM -/

/-- **XM cell codec**: unpacked (`mode = 32`) and every packed form -/
theorem C19_xm_cell_codec (c : Cell) (h : Xm.CellOk c) (fx : UInt8 × UInt8) (volfx : UInt8) (mode : Nat) (rest : Bytes) :
    Xm.decCell (Xm.encCell c fx volfx mode ++ rest) = some (c, rest) :=
  Xm.decCell_encCell c h fx volfx mode rest

theorem C19_xm_cells_codec (cs : List Cell) (h : ∀ c ∈ cs, Xm.CellOk c) (fx : Nat → UInt8 × UInt8)
    (volfx : Nat → UInt8) (mode : Nat → Nat) (i : Nat) (rest : Bytes) :
    Xm.decCells cs.length (Xm.encCells fx volfx mode cs i ++ rest) = some cs :=
  Xm.decCells_encCells cs h fx volfx mode i rest

example : Xm.CellOk { note := KEY_FADE, ins := 7, vol := 33 } ∧ Xm.CellOk { note := 108, ins := 0, vol := 0 } := by decide

/-! ## IT -/

/-- IT pattern *field* codecs (note incl. off/cut/fade codes, volume, instrument).  Missing for the
full `C19_it_pattern_codec`: the coupling invariant between the writer's and the reader's per-channel
mask / last-value memory across entries and rows. -/
theorem C19_it_field_codecs_partial :
    (∀ n fade, It.NoteOk n → n ≠ 0 → It.decNote (It.encNote n fade) = n) ∧
    (∀ v, 1 ≤ v → v ≤ 65 → It.decVol (u8 (v - 1)).toNat = v) ∧
    (∀ i, i < 256 → (u8 i).toNat = i) :=
  ⟨fun _ fade h hn => It.decNote_encNote h hn fade, fun _ h1 h2 => It.decVol_encVol h1 h2, fun _ h => It.ins_byte h⟩

/-- **IT 2.14 / 2.15 sample compression, one block, bit level** (8- and 16-bit, single and double delta): the
model of `itsex_decompress8/16` (all code widths, width-change codes, both integrators) decodes the bit
stream of the writer's widest-code encoder back to the samples.  Missing for the full
`Sex.decompress (Sex.compress raw) = raw`: bits ↔ bytes packing with zero padding, the 16-bit block length
framing and the multi-block / stereo loop, and the width-switching choices of the encoder (`wsel`); all of
these are exercised against the real `itsex.c` by the oracle on every run (multi-block samples included). -/
theorem C19_it_compress_block_partial (is16 it215 : Bool) (xs : List Nat)
    (hx : ∀ x ∈ xs, x < (It.Sex.cfg is16).M) (i fuel : Nat) (hf : xs.length + 1 ≤ fuel) (rest : List Bool) :
    It.Sex.decBlock (It.Sex.cfg is16) it215 fuel xs.length { left := (It.Sex.cfg is16).W }
        (It.Sex.encDeltas (It.Sex.cfg is16) (fun _ => 0)
          (It.Sex.deltas (It.Sex.cfg is16) it215 xs 0 0) i (It.Sex.cfg is16).W ++ rest) = some xs :=
  It.Sex.decBlock_encDeltas_widest is16 it215 xs hx i fuel hf rest

example : ∀ x ∈ [0, 255, 128, 7, 7, 200], x < (It.Sex.cfg false).M := by decide

/-! ## PCM -/

theorem C19_pcm_sign8_involutive (b : Bytes) : signFlip false (signFlip false b) = b :=
  signFlip8_involutive b

/-- unsigned ↔ signed 16-bit storage (S3M ffi 2, IT convert bit 0 clear) -/
theorem C19_pcm_sign16_involutive (b : Bytes) (n : Nat) (h : b.length = 2 * n) : signFlip true (signFlip true b) = b :=
  signFlip16_involutive b n h

/-- XM delta storage, 8-bit and 16-bit (per channel block) -/
theorem C19_pcm_delta8 (b : Bytes) : deltaDec false (deltaEnc false b) = b := deltaDec_deltaEnc8 b
theorem C19_pcm_delta16 (b : Bytes) (n : Nat) (h : b.length = 2 * n) : deltaDec true (deltaEnc true b) = b :=
  deltaDec_deltaEnc16 b n h

end Xmp.Fmt
