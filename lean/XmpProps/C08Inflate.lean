import XmpModel.Inflate
import XmpProofs.InflateStream
import XmpProofs.InflateBound
import XmpProofs.InflateCheck
import XmpProps.C08
import XmpProps.C09
/-!
# C08 / C09 — the DEFLATE decoder of libxmp (`libxmp_tinfl_decompress`) is inside the model

`XmpModel.Inflate` mirrors `src/miniz_tinfl.c` (see the header of that file for what is mirrored and what is
abstracted); `tools/c08_inflate.py` ties it to the real decoder two-sidedly on every run.  The theorems here are
about the model decoder `Xmp.Inflate.inflate`:

* `C08_inflate_huffman` — canonical Huffman decoding: for every complete set of code lengths (exactly tinfl's
  acceptance test `total = 65536`) the decoder reads the canonical code word of every used symbol back;
* `C08_inflate_stored`, `C08_inflate_fixed` (`C08_inflate_fixed_lz77`: hypothesis = LZ77 validity only),
  `C08_inflate_dynamic`, `C08_inflate_dynamic_general`, `C08_inflate_blocks` (`C08_inflate_blocks_checked`:
  hypotheses discharged by the executable checker `blocksOkB`) — round trips through
  the Lean encoders: stored blocks for any split of the payload into ≤ 65535-byte pieces; fixed-Huffman blocks
  for every token list (literals, matches of length 3..258 at distance 1..32768 within the output so far —
  across block borders too); dynamic blocks for every pair of complete codes (257..288 / 1..32 symbols) in
  which the used symbols and end-of-block have codes, the header written either with a flat code-length code or
  with any complete code-length code and any run-length coding (16/17/18) of the lengths; any mixture of the three kinds in one stream, followed by
  arbitrary bytes (which the decoder leaves alone: `consumed` = length of the stream);
* `C08_gzip_roundtrip_deflate`, `C08_pipeline_gzip_deflate`, `C08_pipeline_zip_deflate` — for such streams the
  gzip and zip pipelines of `XmpProps.C08` hold with the modelled decoder: **no decoder hypothesis is left**;
* `C09_gate_gzip_inflate`, `C09_gate_zip_inflate` — the gates of `XmpProps.C09` instantiated with the modelled
  decoder (the shape of the decoder parameters fits).
Work bounds (progress per symbol, fuel never truncates, output ≤ 258 bytes per consumed bit) are in
`XmpProofs.InflateBound` and restated at the end.
-/
namespace Xmp.Inflate
open Xmp Xmp.Container

/-! ## canonical Huffman decoding -/

/-- **tinfl's table decoding = canonical Huffman decoding** for every code-length list that passes the builder's
    completeness test: the code word of symbol `sym` (`next_code[len] + rank`, most significant bit first) followed
    by anything decodes to `sym` and consumes `len` bits -/
theorem C08_inflate_huffman (lens : List Nat) (hc : CodeOk lens) (sym : Nat) (hs : SymOk lens sym) (r : Bits) :
    ∃ hd, mkHuff lens = some hd ∧ decodeSym hd (codeBits lens sym ++ r) = .ok (sym, lens.getD sym 0, r) :=
  ⟨huffOf lens, hc.mk_eq, decodeSym_code lens _ hc.mk_eq hc.complete sym hs.1 hs.2 (hc.le15 _) r⟩

/-- the fixed code of RFC 1951 3.2.6 is one of them -/
example : CodeOk fixedLitLens ∧ CodeOk fixedDistLens := ⟨fixedLit_ok, fixedDist_ok⟩

/-- prefix-freeness as a corollary: no code word is a prefix of another symbol's code word -/
theorem C08_inflate_prefix_free (lens : List Nat) (hc : CodeOk lens) (a b : Nat) (ha : SymOk lens a)
    (hb : SymOk lens b) (r : Bits) (h : codeBits lens b = codeBits lens a ++ r) : a = b := by
  have h1 := decodeSym_code lens _ hc.mk_eq hc.complete a ha.1 ha.2 (hc.le15 _) r
  have h2 := decodeSym_code lens _ hc.mk_eq hc.complete b hb.1 hb.2 (hc.le15 _) []
  have h2' : decodeSym (huffOf lens) (codeBits lens a ++ r) = .ok (b, lens.getD b 0, []) := by
    rw [← h]; simpa only [List.append_nil] using h2
  rw [h1] at h2'
  simp only [Except.ok.injEq, Prod.mk.injEq] at h2'
  exact h2'.1

/-! ## round trips of the encoders -/

/-- **(any mixture of blocks)** -/
theorem C08_inflate_blocks (bs : List Block) (hne : bs ≠ []) (hok : BlocksOk #[] bs) (tail : Bytes) :
    inflate (deflate bs ++ tail) = some (expand bs, (deflate bs).length) :=
  inflate_deflate bs hne hok tail

/-- the same with the hypotheses discharged by evaluation: `blocksOkB` is the executable form of `BlocksOk` (the
    driver `drv_c08i` reports it for every stream it writes for the correspondence) -/
theorem C08_inflate_blocks_checked (bs : List Block) (hne : bs ≠ []) (h : blocksOkB #[] bs = true) (tail : Bytes) :
    inflate (deflate bs ++ tail) = some (expand bs, (deflate bs).length) :=
  inflate_deflate bs hne (blocksOkB_sound h) tail

/-- non-trivial instance: a stored block, then a fixed block whose match reaches back into the stored block -/
example : inflate (deflate [.stored [1, 2, 3], .fixed [.mat 4 3, .lit 9]]) = some ([1, 2, 3, 1, 2, 3, 1, 9], 12) := by
  have h := C08_inflate_blocks_checked [.stored [1, 2, 3], .fixed [.mat 4 3, .lit 9]] (by simp) (by decide +kernel) []
  rw [List.append_nil] at h
  rw [h]
  decide

/-- **stored blocks**: any split of the payload into pieces of at most 65535 bytes -/
theorem C08_inflate_stored (chunks : List Bytes) (hne : chunks ≠ []) (h : ∀ c ∈ chunks, c.length ≤ 65535)
    (tail : Bytes) :
    inflate (deflateStored chunks ++ tail) = some (chunks.flatten, (deflateStored chunks).length) := by
  unfold deflateStored
  rw [inflate_deflate _ (by simpa using hne) (blocksOk_stored chunks h #[]) tail]
  simp [expand, expand_stored]

/-- **one fixed-Huffman block** for every valid token list -/
theorem C08_inflate_fixed (toks : List Tok) (h : ToksOk fixedLitLens fixedDistLens 0 toks) (tail : Bytes) :
    inflate (deflateFixed toks ++ tail) = some (expandToks [] toks, (deflateFixed toks).length) := by
  unfold deflateFixed
  rw [inflate_deflate _ (by simp) (show BlocksOk #[] [.fixed toks] from And.intro (BlockOk.fixed toks h) trivial) tail]
  simp [expand, applyBlock, applyToks_toList]

/-- **one dynamic-Huffman block** for every pair of complete codes and every valid token list -/
theorem C08_inflate_dynamic (ll dl : List Nat) (toks : List Tok) (h1 : 257 ≤ ll.length) (h2 : ll.length ≤ 288)
    (h3 : 1 ≤ dl.length) (h4 : dl.length ≤ 32) (cl : CodeOk ll) (cd : CodeOk dl) (he : SymOk ll 256)
    (h : ToksOk ll dl 0 toks) (tail : Bytes) :
    inflate (deflate [.dyn ll dl toks] ++ tail) = some (expandToks [] toks, (deflate [.dyn ll dl toks]).length) := by
  rw [inflate_deflate _ (by simp) (show BlocksOk #[] [.dyn ll dl toks] from
    And.intro (BlockOk.dyn ll dl toks h1 h2 h3 h4 cl cd he h) trivial) tail]
  simp [expand, applyBlock, applyToks_toList]

/-- **dynamic-Huffman block with the header in full generality**: any complete code-length code `cll` (19 lengths
    ≤ 7), any legal sequence `cltoks` of length symbols and repeat codes 16 / 17 / 18 that transmits the
    `nlit` literal/length and 1..32 distance code lengths, both complete -/
theorem C08_inflate_dynamic_general (cll : List Nat) (cltoks : List ClTok) (nlit : Nat) (toks : List Tok)
    (hc : CodeOk cll) (h19 : cll.length = 19) (h7 : ∀ x ∈ cll, x ≤ 7) (hok : ClToksOk cll [] cltoks)
    (h1 : 257 ≤ nlit) (h2 : nlit ≤ 288) (h3 : nlit + 1 ≤ (clExpand cltoks).length)
    (h4 : (clExpand cltoks).length ≤ nlit + 32)
    (cl : CodeOk ((clExpand cltoks).take nlit)) (cd : CodeOk ((clExpand cltoks).drop nlit))
    (he : SymOk ((clExpand cltoks).take nlit) 256)
    (h : ToksOk ((clExpand cltoks).take nlit) ((clExpand cltoks).drop nlit) 0 toks) (tail : Bytes) :
    inflate (deflate [.dynG cll cltoks nlit toks] ++ tail) =
      some (expandToks [] toks, (deflate [.dynG cll cltoks nlit toks]).length) := by
  rw [inflate_deflate _ (by simp) (show BlocksOk #[] [.dynG cll cltoks nlit toks] from
    And.intro (BlockOk.dynG cll cltoks nlit toks hc h19 h7 hok h1 h2 h3 h4 cl cd he h) trivial) tail]
  simp [expand, applyBlock, applyToks_toList]

/-- non-trivial instances: a dynamic block whose literal/length code has 256 eight-bit codes (literals 0..253,
    end-of-block, length symbol 257) and two one-bit distance codes — once with the flat header, once with the
    lengths run-length coded (`8`, 42 × "repeat 6 times", `8`, `0`, `0`, `8`, `8`, `1`, `1`) under a code-length
    code with 13 four-bit and 6 five-bit codes -/
example : (inflate (deflate [.dyn (List.replicate 254 8 ++ [0, 0, 8, 8]) [1, 1] [.lit 97, .mat 3 1]])).map (·.1) =
    some [97, 97, 97, 97] := by
  have h := C08_inflate_blocks_checked [.dyn (List.replicate 254 8 ++ [0, 0, 8, 8]) [1, 1] [.lit 97, .mat 3 1]]
    (List.cons_ne_nil _ _) (by decide +kernel) []
  rw [List.append_nil] at h
  rw [h]
  decide +kernel

example : (inflate (deflate [.dynG (List.replicate 13 4 ++ List.replicate 6 5)
      ([.len 8] ++ List.replicate 42 (.rep 6) ++ [.len 8, .len 0, .len 0, .len 8, .len 8, .len 1, .len 1]) 258
      [.lit 97, .mat 3 1]])).map (·.1) = some [97, 97, 97, 97] := by
  have h := C08_inflate_blocks_checked [.dynG (List.replicate 13 4 ++ List.replicate 6 5)
      ([.len 8] ++ List.replicate 42 (.rep 6) ++ [.len 8, .len 0, .len 0, .len 8, .len 8, .len 1, .len 1]) 258
      [.lit 97, .mat 3 1]] (List.cons_ne_nil _ _) (by decide +kernel) []
  rw [List.append_nil] at h
  rw [h]
  decide +kernel

/-- every literal and every (length, distance) pair can be written with the fixed code -/
theorem C08_fixed_tok_ok (size : Nat) (t : Tok)
    (h : ∀ len dist, t = .mat len dist → 3 ≤ len ∧ len ≤ 258 ∧ 1 ≤ dist ∧ dist ≤ 32768 ∧ dist ≤ size) :
    TokOk fixedLitLens fixedDistLens size t := by
  have hlen : fixedLitLens.length = 288 := by
    simp only [fixedLitLens, List.length_append, List.length_replicate]
  have hdlen : fixedDistLens.length = 32 := by simp only [fixedDistLens, List.length_replicate]
  have hmem : ∀ (l : List Nat) (i : Nat), i < l.length → l.getD i 0 ∈ l := by
    intro l i hi
    rw [List.getD_eq_getElem?_getD, List.getElem?_eq_getElem hi]
    exact List.getElem_mem hi
  have hlit : ∀ i, i < 288 → fixedLitLens.getD i 0 ≠ 0 := by
    intro i hi
    have hx := hmem fixedLitLens i (by omega)
    generalize fixedLitLens.getD i 0 = x at hx ⊢
    simp only [fixedLitLens, List.mem_append] at hx
    rcases hx with ((h | h) | h) | h <;> have := mem_replicate_le h <;> omega
  have hdist : ∀ i, i < 32 → fixedDistLens.getD i 0 ≠ 0 := by
    intro i hi
    have hx := hmem fixedDistLens i (by omega)
    generalize fixedDistLens.getD i 0 = x at hx ⊢
    have := mem_replicate_le hx
    omega
  refine ⟨fun b _ => ⟨by rw [hlen]; have := b.toNat_lt; omega, hlit _ (by have := b.toNat_lt; omega)⟩, ?_⟩
  intro len dist ht
  obtain ⟨a, b, c, d, e⟩ := h len dist ht
  have l1 := (lenCode_spec len a b).1
  have d1 := (distCode_spec dist c d).1
  exact ⟨a, b, c, d, e, ⟨by rw [hlen]; omega, hlit _ (by omega)⟩,
    ⟨by rw [hdlen]; omega, hdist _ (by omega)⟩⟩

/-- LZ77 validity alone: match lengths 3..258, distances 1..32768 within the `size` bytes produced so far -/
def Lz77Ok : Nat → List Tok → Prop
  | _, [] => True
  | size, t :: ts =>
    (∀ len dist, t = .mat len dist → 3 ≤ len ∧ len ≤ 258 ∧ 1 ≤ dist ∧ dist ≤ 32768 ∧ dist ≤ size) ∧
      Lz77Ok (size + tokSize t) ts

theorem toksOk_of_lz77 (size : Nat) (toks : List Tok) (h : Lz77Ok size toks) :
    ToksOk fixedLitLens fixedDistLens size toks := by
  induction toks generalizing size with
  | nil => trivial
  | cons t ts ih => exact ⟨C08_fixed_tok_ok size t h.1, ih _ h.2⟩

/-- **fixed-Huffman round trip for every LZ77-valid token list** (no condition on the code: the fixed code has a
    code word for every literal, length and distance) -/
theorem C08_inflate_fixed_lz77 (toks : List Tok) (h : Lz77Ok 0 toks) (tail : Bytes) :
    inflate (deflateFixed toks ++ tail) = some (expandToks [] toks, (deflateFixed toks).length) :=
  C08_inflate_fixed toks (toksOk_of_lz77 0 toks h) tail

/-- non-trivial instance: a literal and an overlapping match (`a`, then 5 more `a`s from distance 1) -/
example : inflate (deflateFixed [.lit 97, .mat 5 1] ++ [1, 2, 3]) = some ([97, 97, 97, 97, 97, 97], 4) := by
  have h : ToksOk fixedLitLens fixedDistLens 0 [.lit 97, .mat 5 1] :=
    ⟨C08_fixed_tok_ok 0 _ (fun _ _ h => by cases h),
     C08_fixed_tok_ok 1 _ (fun len dist h => by cases h; decide), trivial⟩
  have := C08_inflate_fixed _ h [1, 2, 3]
  rw [this]
  decide

/-! ## the gzip and zip pipelines with the modelled decoder -/

theorem inflateDec_deflate (bs : List Block) (hne : bs ≠ []) (hok : BlocksOk #[] bs) (tail : Bytes) :
    inflateDec (deflate bs ++ tail) = some (expand bs) := by
  unfold inflateDec
  rw [inflate_deflate bs hne hok tail]; rfl

/-- **gunzip ∘ gzip = id** for Lean-encodable streams, any legal header options; bytes between the end of the
    deflate stream and the trailer are ignored by `decrunch_gzip` (it never asks how much input was used) -/
theorem C08_gzip_roundtrip_deflate (crc : Bytes → UInt32) (o : GzOpts) (bs : List Block) (hne : bs ≠ [])
    (hok : BlocksOk #[] bs) (slack : Bytes) (ho : o.Legal) (hp : (expand bs).length < 2 ^ 31) :
    gunzip crc inflateDec (gzipWrap crc o (deflate bs ++ slack) (expand bs)) = some (expand bs) :=
  C08_gzip_roundtrip crc inflateDec o _ _ ho hp (inflateDec_deflate bs hne hok slack)

theorem C08_gzip_roundtrip_stored (crc : Bytes → UInt32) (o : GzOpts) (chunks : List Bytes) (hne : chunks ≠ [])
    (h : ∀ c ∈ chunks, c.length ≤ 65535) (ho : o.Legal) (hp : chunks.flatten.length < 2 ^ 31) :
    gunzip crc inflateDec (gzipWrap crc o (deflateStored chunks) chunks.flatten) = some chunks.flatten := by
  have := C08_inflate_stored chunks hne h []
  rw [List.append_nil] at this
  exact C08_gzip_roundtrip crc inflateDec o _ _ ho hp (by unfold inflateDec; rw [this]; rfl)

theorem C08_gzip_roundtrip_fixed (crc : Bytes → UInt32) (o : GzOpts) (toks : List Tok)
    (h : ToksOk fixedLitLens fixedDistLens 0 toks) (ho : o.Legal) (hp : (expandToks [] toks).length < 2 ^ 31) :
    gunzip crc inflateDec (gzipWrap crc o (deflateFixed toks) (expandToks [] toks)) = some (expandToks [] toks) := by
  have := C08_inflate_fixed toks h []
  rw [List.append_nil] at this
  exact C08_gzip_roundtrip crc inflateDec o _ _ ho hp (by unfold inflateDec; rw [this]; rfl)

/-- **pipeline, gzip, no decoder hypothesis**: when the environment's inflate is the modelled tinfl, loading a
    gzip member around any Lean-encodable deflate stream is loading the payload from memory, with its MD5 -/
theorem C08_pipeline_gzip_deflate {β : Type} (env : Env) (henv : env.inflate = inflateDec) (loader : Bytes → β)
    (o : GzOpts) (bs : List Block) (hne : bs ≠ []) (hok : BlocksOk #[] bs) (slack : Bytes)
    (ho : o.Legal) (hp : (expand bs).length < 2 ^ 31) (hpne : expand bs ≠ [])
    (hlen : Gen.Depackers.minHeaderSize ≤ (gzipWrap env.crc32 o (deflate bs ++ slack) (expand bs)).length) :
    loadByPath env loader (gzipWrap env.crc32 o (deflate bs ++ slack) (expand bs)) =
      some (loadFromMemory loader (expand bs)) ∧
    (loadByPath env loader (gzipWrap env.crc32 o (deflate bs ++ slack) (expand bs))).map (·.2) =
      some (Md5.md5 (expand bs)) :=
  C08_pipeline_gzip env loader o _ _ ho hp hpne hlen (by rw [henv]; exact inflateDec_deflate bs hne hok slack)

/-- **pipeline, zip, no decoder hypothesis** for a deflated member written by the Lean encoder -/
theorem C08_pipeline_zip_deflate {β : Type} (env : Env) (henv : env.inflate = inflateDec) (loader : Bytes → β)
    (pre post : List ZipMember) (m m0 : ZipMember) (rest : List ZipMember) (bs : List Block)
    (hne : bs ≠ []) (hok : BlocksOk #[] bs) (slack : Bytes)
    (hm8 : m.method = 8) (hmc : m.cdata = deflate bs ++ slack) (hmd : m.data = expand bs)
    (h0 : pre ++ m :: post = m0 :: rest)
    (hl : ∀ x ∈ pre ++ m :: post, x.Legal) (hofs : OfsOk env.crc32 0 (pre ++ m :: post))
    (hn : (pre ++ m :: post).length < 65536) (hcd : (zipLocals env.crc32 (pre ++ m :: post)).length < 2 ^ 32)
    (hpre : ∀ x ∈ pre, Skipped (memSpec env.crc32 x)) (hm : ¬ Skipped (memSpec env.crc32 m))
    (hdne : m.data ≠ []) :
    loadByPath env loader (zipWrap env.crc32 [] (pre ++ m :: post)) = some (loadFromMemory loader m.data) ∧
    (loadByPath env loader (zipWrap env.crc32 [] (pre ++ m :: post))).map (·.2) = some (Md5.md5 m.data) :=
  C08_pipeline_zip env loader pre post m m0 rest h0 hl hofs hn hcd hpre hm
    (by rw [hm8, henv, hmc, hmd]; simp [inflateDec_deflate bs hne hok slack]) hdne

/-- **zlib wrapper** (`TINFL_FLAG_PARSE_ZLIB_HEADER`, the call of `muse_load.c`): header check, deflate stream,
    Adler-32 trailer behind the byte boundary -/
theorem C08_zlib_roundtrip_deflate (bs : List Block) (hne : bs ≠ []) (hok : BlocksOk #[] bs) (tail : Bytes) :
    inflateZlib (zlibWrap (deflate bs) (expand bs) ++ tail) = .ok (expand bs, (deflate bs).length + 6) :=
  inflateZlib_wrap bs hne hok tail

/-! ## progress and work bounds (C02 style) -/

/-- **every accepted literal/length step consumes at least one bit** (a zero-length code is refused), advances the
    position by exactly what it consumed, and appends at most 258 bytes -/
theorem C08_inflate_symbol_progress (lit dist : Huff) (bits : Bits) (pos : Nat) (out : Array UInt8) (c : Bool)
    (r : Bits) (pos' : Nat) (out' : Array UInt8) (h : symStep lit dist bits pos out = .ok (c, r, pos', out')) :
    r.length < bits.length ∧ pos' + r.length = pos + bits.length ∧ out'.size ≤ out.size + 258 :=
  symStep_progress lit dist bits pos out c r pos' out' h

/-- **every block consumes at least its three header bits**; position and output stay within the `Adv` budget -/
theorem C08_inflate_block_progress (f : Nat) (bits : Bits) (pos : Nat) (out : Array UInt8) (r : Bits) (pos' : Nat)
    (out' : Array UInt8) (h : blockLoop f bits pos out = .ok (r, pos', out')) :
    r.length + 3 ≤ bits.length ∧ pos' + r.length = pos + bits.length ∧
      out'.size + 258 * r.length ≤ out.size + 258 * bits.length := by
  obtain ⟨⟨_, a2, a3⟩, a4⟩ := blockLoop_adv f bits pos out r pos' out' h
  exact ⟨a4, a2, a3⟩

/-- **the fuel of `inflate` (8·|input| + 1 iterations of either loop) never truncates** -/
theorem C08_inflate_never_out_of_fuel (input : Bytes) : inflateE input ≠ .error .fuel := inflateE_nofuel input

/-- and any larger amount of fuel gives the same answer: the decoder is a total function of the input alone -/
theorem C08_inflate_fuel_irrelevant (f g : Nat) (bits : Bits) (pos : Nat) (out : Array UInt8)
    (hf : bits.length < f) (hg : bits.length < g) : blockLoop f bits pos out = blockLoop g bits pos out :=
  blockLoop_fuel_irrelevant f g bits pos out hf hg

/-- **work / memory bound**: a successful run reports a consumption inside the input and produces at most 258
    bytes per consumed bit (so the output is bounded by the real input size, never by declared sizes) -/
theorem C08_inflate_bounds (input out : Bytes) (c : Nat) (h : inflate input = some (out, c)) :
    1 ≤ c ∧ c ≤ input.length ∧ out.length ≤ 258 * (8 * c) := by
  unfold inflate at h
  split at h
  · rename_i r hr
    simp only [Option.some.injEq] at h
    subst h
    exact inflateE_bounds input out c hr
  · cases h

/-- non-trivial instance: a payload stored in two pieces; the bounds apply to it -/
example : ∃ c, inflate (deflateStored [[1, 2, 3], [4]]) = some ([1, 2, 3, 4], c) ∧ 1 ≤ c ∧ [1, 2, 3, 4].length ≤ 258 * (8 * c) := by
  have h := C08_inflate_stored [[1, 2, 3], [4]] (by simp) (by simp) []
  rw [List.append_nil] at h
  exact ⟨_, h, (C08_inflate_bounds _ _ _ h).1, (C08_inflate_bounds _ _ _ h).2.2⟩

/-! ## C09: the gates with the modelled decoder -/

/-- the gzip gate of C09 with tinfl inside: an accepted file's trailer CRC-32 / ISIZE are those of what the
    modelled decoder produced from exactly the bytes between header and trailer -/
theorem C09_gate_gzip_inflate (f out : Bytes) (h : Gates.gzipDepack inflateDec f = some out) :
    ∃ p, Gates.gzipDataStart f = some p ∧ inflateDec (Gates.slice f p (f.length - p - 8)) = some out ∧
      Gates.le32 f (f.length - 8) = (Crc.crc32A out 0).toNat ∧
      Gates.sext32 (Gates.le32 f (f.length - 4)) = out.length :=
  C09.C09_gate_gzip inflateDec f out h

/-- the zip member gate of C09 with tinfl inside (`inflateCap`: output buffer of the declared size) -/
theorem C09_gate_zip_inflate (junk : Bytes) (st : Gates.ZipStat) (tail : Option Bytes) (out : Bytes)
    (hc : st.compSize ≠ 0) (h : Gates.zipExtract inflateCap junk st tail = some out) :
    st.crc32 = (Crc.crc32A out 0).toNat ∧ st.uncompSize = out.length :=
  C09.C09_gate_zip inflateCap junk st tail out hc h

end Xmp.Inflate
