import XmpProofs.Resource
/-! # C04 — failed or faulted operations are atomic (property theorems; under construction) -/
namespace Xmp.Resource
end Xmp.Resource
