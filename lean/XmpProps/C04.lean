import XmpProofs.Resource
/-!
# C04 — Failed or faulted operations are atomic: no leak, no residue, context reusable

Property theorems over the resource-ledger model `XmpModel.Resource` (heap ledger `World.live`
as a multiset, invalid-operation counter `World.bad`, descriptors, temp files, close log).
Every theorem quantifies over an arbitrary `World`, i.e. over **every pattern of allocation
failures** (`World.oracle`), not only a single failing allocation.

Multiset equality of ledgers is stated by counting: `∀ u, l₁.count u = l₂.count u`.
-/
namespace Xmp.Resource

/-- **xmp_release_module is total on partial modules.**  For ANY partially built module (any
subset of tables allocated, any entries non-NULL; `wf`: entries only under a non-NULL table) whose
blocks are live (`Sub`: each referenced once), in any player state: every owned block is freed
exactly once (`bad` unchanged = no invalid/double free; the ledger shrinks by exactly the owned
blocks), all pointers are NULL afterwards (`module = {}`), the player is ended and the state is
UNLOADED.  This is why the format loaders need no unwinding for the module tables. -/
theorem C04_release_total (c : MCtx) (w : World) (hwf : c.module.wf = true)
    (hpl : c.state = .playing → (c.player.voiceArray.isSome ∨ c.player.paula = []))
    (hnp : c.state ≠ .playing → c.player.toks = [])
    (hown : Sub c.toks w.live) :
    let r := releaseModule c w
    r.2.bad = w.bad ∧ (∀ u, r.2.live.count u + c.toks.count u = w.live.count u)
      ∧ r.1.module = {} ∧ r.1.state = .unloaded ∧ r.1.player.toks = [] ∧ SameEnv w r.2 :=
  release_total c w hwf hpl hnp hown

/-- non-trivial instance: a module with a track table (one entry still NULL), a pattern table, an
instrument with extras, MED module extras and a directory name, while playing an Amiga module -/
example :
    let m : Module := { xxt := { ptr := some ⟨.xxt, 0⟩, entries := [some ⟨.track, 0⟩, none] },
                        xxp := { ptr := some ⟨.xxp, 0⟩, entries := [some ⟨.pattern, 0⟩] },
                        xxi := some ⟨.xxi, 0⟩, subs := [some ⟨.sub, 0⟩], insExtras := [some ⟨.insExtra, 0⟩],
                        dirname := some ⟨.dirname, 0⟩,
                        extra := .med ⟨.modExtra, 0⟩ { ptr := some ⟨.modExtraTab, 0⟩, entries := [some ⟨.modExtraEnt, 0⟩] } {} }
    let p : Player := { buffer := some ⟨.mixBuffer, 0⟩, voiceArray := some ⟨.voiceArray, 0⟩, paula := [some ⟨.paula, 0⟩] }
    let c : MCtx := { state := .playing, player := p, module := m }
    m.wf = true ∧ (releaseModule c { live := c.toks }).2.live = [] ∧ (releaseModule c { live := c.toks }).2.bad = 0 := by
  decide +kernel

/-- the hypothesis matters: an entry under a NULL table is not released (it leaks) -/
theorem C04_release_needs_wf :
    (releaseModule { module := { xxt := { ptr := none, entries := [some ⟨.track, 0⟩] } } }
      { live := [⟨.track, 0⟩] }).2.live ≠ [] := by decide +kernel

/-- **xmp_start_player is atomic** for every unwinding table that passes the decidable check
`Sound` (the table of the current player.c is regenerated into `Gen.StartCfg` and evaluated by the
check on every run), for every module shape `pp` and every allocation oracle: the ledger is never
corrupted; on failure the return value is negative, the state is still LOADED, no player block is
owned and the heap ledger is (as a multiset) exactly what it was; otherwise the return value is 0,
the state PLAYING and the ledger grew by exactly the blocks the player fields point to. -/
theorem C04_start_atomic (cfg : StartCfg) (hs : cfg.Sound = true) (pp : StartParams) (w : World) :
    let r := startPlayer cfg pp true { state := .loaded, player := {} } w
    r.2.2.bad = w.bad ∧
    (r.1 < 0 → r.2.1.state = .loaded ∧ r.2.1.player.toks = [] ∧ ∀ u, r.2.2.live.count u = w.live.count u) ∧
    (¬ r.1 < 0 → r.1 = 0 ∧ r.2.1.state = .playing ∧ Owns r.2.1.player r.2.2 w.live) :=
  start_atomic cfg hs pp w

/-- the repaired table (what player.c contains after fix dfdfe92) is sound -/
def startCfgFixed : StartCfg := .ofTables
  [("mixer_on", "", true), ("virt_on", "err", true), ("flow_loop", "err1", true), ("xc_data", "err1", true),
   ("channel_extras", "err2", false)]
  [("err2", ["channel_extras", "xc_data"], true), ("err1", ["flow_loop", "virt_off"], false), ("err", ["mixer_off"], false)]

theorem C04_start_fixed_sound : startCfgFixed.Sound = true := by decide +kernel

/-- non-trivial instance: an Amiga module with channel extras, the 8th allocation fails -/
example :
    let r := startPlayer startCfgFixed { amiga := true, extras := true, maxvoc := 4, virtch := 4 } true
      { state := .loaded } { oracle := List.replicate 7 true ++ [false] }
    r.1 < 0 ∧ r.2.2.live = [] ∧ r.2.2.bad = 0 ∧ r.2.2.nalloc = 8 := by decide +kernel

/-- the table of commit 3c5459a (`goto err` when `f->loop` cannot be allocated) is not sound … -/
def startCfg_3c5459a : StartCfg := .ofTables
  [("mixer_on", "", true), ("virt_on", "err", true), ("flow_loop", "err", true), ("xc_data", "err1", true),
   ("channel_extras", "err2", false)]
  [("err2", ["channel_extras", "xc_data"], true), ("err1", ["flow_loop", "virt_off"], false), ("err", ["mixer_off"], false)]

/-- … and really leaks: witness replayed on the real code by the harness (test.xm, k = 4) -/
theorem C04_start_counterexample_3c5459a :
    startCfg_3c5459a.Sound = false ∧
    (startPlayer startCfg_3c5459a { maxvoc := 4, virtch := 4 } true { state := .loaded }
        { oracle := [true, true, true, true, false] }).2.2.live = [⟨.virtChannel, 0⟩, ⟨.voiceArray, 0⟩] := by
  decide +kernel

/-- the pinned code (no release at all on the error paths, `return 0` after a failed
channel-extras allocation) -/
def startCfg_pinned : StartCfg := .ofTables
  [("mixer_on", "", true), ("virt_on", "err", true), ("flow_loop", "err", true), ("xc_data", "err1", true),
   ("channel_extras", "err2", false)]
  [("err2", ["xc_data"], false), ("err1", ["flow_loop"], false), ("err", [], false)]

theorem C04_start_counterexample_pinned :
    (startPlayer startCfg_pinned { extras := true, maxvoc := 1, virtch := 2 } true { state := .loaded }
        { oracle := List.replicate 6 true ++ [false] }).1 = 0 := by
  decide +kernel

/-- **load_module with an arbitrary loader result is atomic.**  Whatever the format loader built
before failing (`built`: any well-formed partial module, all of it allocated inside the call) and
wherever the failure is detected (no format, loader error / sanity checks, prepare_scan,
scan_sequences), the call returns a negative code, the state is UNLOADED, the module is empty, and
the ledger is what it was minus the caller-allocated dirname/basename, which are released too. -/
theorem C04_load_atomic (out : LoadOutcome) (hout : out ≠ .ok) (built : Module) (hwf : built.wf = true)
    (hd : built.dirname = none) (hb : built.basename = none)
    (c : MCtx) (hst : c.state = .unloaded) (hp : c.player.toks = []) (w : World)
    (hown : Sub (ptrs [c.module.dirname, c.module.basename]) w.live) :
    let r := loadModule out built c w
    r.1 < 0 ∧ r.2.1.state = .unloaded ∧ r.2.1.module = {} ∧ r.2.2.bad = w.bad ∧
      ∀ u, r.2.2.live.count u + (ptrs [c.module.dirname, c.module.basename]).count u = w.live.count u := by
  have key : ∀ u, ({ built with dirname := c.module.dirname, basename := c.module.basename } : Module).toks.count u
      = built.toks.count u + (ptrs [c.module.dirname, c.module.basename]).count u := by
    intro u
    simp only [Module.toks, List.count_append, hd, hb]
    cases c.module.dirname <;> cases c.module.basename <;> cases built.scan <;> cases built.comment <;>
      simp [List.count_cons] <;> omega
  have hwf1 : ({ built with dirname := c.module.dirname, basename := c.module.basename } : Module).wf = true := by
    simpa [Module.wf] using hwf
  have hrel := release_total
    { c with module := { built with dirname := c.module.dirname, basename := c.module.basename } }
    { w with live := built.toks ++ w.live } hwf1 (by intro h; simp [hst] at h) (fun _ => hp) (by
      intro u
      have := hown u
      simp only [MCtx.toks, List.count_append, hp, List.count_nil, Nat.zero_add, key]
      omega)
  obtain ⟨a, b, c3, d, _, _⟩ := hrel
  have hcount : ∀ u, (releaseModule
      { c with module := { built with dirname := c.module.dirname, basename := c.module.basename } }
      { w with live := built.toks ++ w.live }).2.live.count u
        + (ptrs [c.module.dirname, c.module.basename]).count u = w.live.count u := by
    intro u
    have := b u
    simp only [MCtx.toks, List.count_append, hp, List.count_nil, Nat.zero_add, key] at this
    omega
  cases out with
  | ok => exact absurd rfl hout
  | formatFail => exact ⟨by simp [loadModule, errFormat, errLoad, errSystem], d, c3, a, hcount⟩
  | loaderFail => exact ⟨by simp [loadModule, errFormat, errLoad, errSystem], d, c3, a, hcount⟩
  | prepareScanFail => exact ⟨by simp [loadModule, errFormat, errLoad, errSystem], d, c3, a, hcount⟩
  | scanFail => exact ⟨by simp [loadModule, errFormat, errLoad, errSystem], d, c3, a, hcount⟩

/-- non-trivial instance: the loader allocated the pattern table and two of three tracks, then failed -/
example :
    let built : Module := { xxt := { ptr := some ⟨.xxt, 0⟩, entries := [some ⟨.track, 0⟩, some ⟨.track, 1⟩, none] },
                            xxp := { ptr := some ⟨.xxp, 0⟩, entries := [none] } }
    let c : MCtx := { module := { dirname := some ⟨.dirname, 0⟩, basename := some ⟨.basename, 0⟩ } }
    let r := loadModule .loaderFail built c { live := [⟨.dirname, 0⟩, ⟨.basename, 0⟩] }
    r.1 < 0 ∧ r.2.2.live = [] ∧ r.2.2.bad = 0 := by decide +kernel

/-- **Reusable.**  After a failed load the model context *is* the fresh context (same state, empty
module, untouched player), so every later operation behaves as on a fresh context. -/
theorem C04_reusable (out : LoadOutcome) (hout : out ≠ .ok) (built : Module) (c : MCtx) (w : World)
    (hst : c.state = .unloaded) :
    (loadModule out built c w).2.1 = { state := .unloaded, player := c.player, module := {} } := by
  have he : ∀ (m : Module) (w' : World), (releaseModule { c with module := m } w').1
      = { state := .unloaded, player := c.player, module := {} } := by
    intro m w'
    simp [releaseModule, endPlayer, hst]
  cases out with
  | ok => exact absurd rfl hout
  | formatFail => exact he _ _
  | loaderFail => exact he _ _
  | prepareScanFail => exact he _ _
  | scanFail => exact he _ _

/- Full statement of reusability after a failed **start** (kept as the goal; not proved at the
model level): `startPlayer cfg pp true r.2.1 w'` after a failure `r` yields the same return code,
state and ledger as on a fresh LOADED context.  What is proved: `C04_start_atomic` gives state
LOADED, no owned player block and an unchanged ledger; the stale `maxvoc/virt_channels` values are
overwritten by `virtInit`.  The harness checks this dynamically (PCM digest of a normal start+play
on the same context against a fresh context after every faulted start). -/

/-- **Temp files.**  For every table of make_temp_file passing `TempCfg.Sound` (regenerated from
tempfile.c and evaluated on every run), every outcome of mkstemp/fdopen/helper/fseek/get_size and
every allocation oracle, the path operation (open, decrunch with an external helper, load or test,
hio_close, unlink_temp_file) leaves no temp file, no descriptor and no block behind and performs
no invalid free/unlink. -/
theorem C04_tempfile (cfg : TempCfg) (hs : cfg.Sound = true) (sys : HelperSys) (loadRc : Int) (w : World) :
    let r := pathOpWithHelper cfg sys loadRc w
    r.2.tempFiles = w.tempFiles ∧ r.2.openFds = w.openFds ∧ r.2.bad = w.bad ∧ r.2.live = w.live :=
  tempfile_atomic cfg hs sys loadRc w

def tempCfgFixed : TempCfg := .ofTables [("strdup", "err"), ("mkstemp", "err2"), ("fdopen", "err3")]
  [("err3", ["close_fd", "unlink_name"]), ("err2", ["free_name", "null_name"]), ("err", [])]

theorem C04_tempfile_fixed_sound : tempCfgFixed.Sound = true := by decide +kernel

/-- the pinned make_temp_file (frees `*filename` but leaves it set): the caller's
unlink_temp_file unlinks and frees it again — replayed on the real code with a missing TMPDIR -/
def tempCfg_pinned : TempCfg := .ofTables [("strdup", "err"), ("mkstemp", "err2"), ("fdopen", "err3")]
  [("err3", ["close_fd"]), ("err2", ["free_name"]), ("err", [])]

theorem C04_tempfile_counterexample_pinned :
    (pathOpWithHelper tempCfg_pinned { mkstempOk := false } 0 {}).2.bad = 2 ∧
    (pathOpWithHelper tempCfg_pinned { fdopenOk := false } 0 {}).2.tempFiles = 1 := by decide +kernel

/-- **Stream ownership.**  Over every sequence `open_x ; reopen* ; close` the library performs
(every entry point `e`, every list of depacker steps `rs`: internal depacker → memory, external
helper → temp FILE, each succeeding or failing), for every allocation oracle and every callback
configuration (valid or refused by cbopen, with or without close function, size query failing in
hio_open_callbacks): the caller's FILE is never closed, every descriptor the library opened is
closed again (`openFds` restored: an owned FILE is closed exactly once), the close callback is
called exactly once when there is one — also when opening fails — and no block is left or freed
twice. -/
theorem C04_stream_ownership (e : Entry) (cb : Callbacks) (sizeOk : Bool) (rs : List (Bool × Bool)) (w : World) :
    let r := streamLife e cb sizeOk rs w
    (r.2.closed.count .callerFile = w.closed.count .callerFile) ∧
    (r.2.closed.count .callback = w.closed.count .callback + (if e = .cb ∧ cb.hasClose = true then 1 else 0)) ∧
    r.2.openFds = w.openFds ∧ r.2.bad = w.bad ∧ (∀ u, r.2.live.count u = w.live.count u) :=
  stream_ownership e cb sizeOk rs w

/-- non-trivial instances with reopens: a caller's FILE that is unpacked
twice in memory is never closed; a path load through an internal depacker and then an external
helper closes the owned FILE and the temp FILE once each -/
example :
    ((streamLife .file {} true [(true, true), (true, true)] {}).2.closed.count .callerFile = 0) ∧
    ((streamLife .file {} true [(true, true), (true, true)] {}).2.live = []) ∧
    ((streamLife .path {} true [(true, true), (false, true)] {}).2.closed = [.tempFile, .ownedFile]) ∧
    ((streamLife .path {} true [(true, true), (false, true)] {}).2.openFds = 0) ∧
    ((streamLife .cb {} true [] { oracle := [true, false] }).2.closed = [.callback]) := by decide +kernel

end Xmp.Resource
