import XmpProofs.Resource
import XmpProofs.StartFail
import XmpProofs.Smix
import XmpProofs.CloseFail
import XmpProps.C06
/-!
# C04 — Failed or faulted operations are atomic: no leak, no residue, context reusable

Property theorems over the resource-ledger model `XmpModel.Resource` (heap ledger `World.live`
as a multiset, invalid-operation counter `World.bad`, descriptors, temp files, close log).
Every theorem quantifies over an arbitrary `World`, i.e. over **every pattern of allocation
failures** (`World.oracle`), not only a single failing allocation.

Multiset equality of ledgers is stated by counting: `∀ u, l₁.count u = l₂.count u`.
-/
namespace Xmp.Resource

/-- **xmp_release_module is total on partial modules.**  For ANY partially built module (any
subset of tables allocated, any entries non-NULL; `wf`: entries only under a non-NULL table) whose
blocks are live (`Sub`: each referenced once), in any player state: every owned block is freed
exactly once (`bad` unchanged = no invalid/double free; the ledger shrinks by exactly the owned
blocks), all pointers are NULL afterwards (`module = {}`), the player is ended and the state is
UNLOADED.  This is why the format loaders need no unwinding for the module tables. -/
theorem C04_release_total (c : MCtx) (w : World) (hwf : c.module.wf = true)
    (hpl : c.state = .playing → (c.player.voiceArray.isSome ∨ c.player.paula = []))
    (hnp : c.state ≠ .playing → c.player.toks = [])
    (hown : Sub c.toks w.live) :
    let r := releaseModule c w
    r.2.bad = w.bad ∧ (∀ u, r.2.live.count u + c.toks.count u = w.live.count u)
      ∧ r.1.module = {} ∧ r.1.state = .unloaded ∧ r.1.player.toks = [] ∧ SameEnv w r.2 :=
  release_total c w hwf hpl hnp hown

/-- non-trivial instance: a module with a track table (one entry still NULL), a pattern table, an
instrument with extras, MED module extras and a directory name, while playing an Amiga module -/
example :
    let m : Module := { xxt := { ptr := some ⟨.xxt, 0⟩, entries := [some ⟨.track, 0⟩, none] },
                        xxp := { ptr := some ⟨.xxp, 0⟩, entries := [some ⟨.pattern, 0⟩] },
                        xxi := some ⟨.xxi, 0⟩, subs := [some ⟨.sub, 0⟩], insExtras := [some ⟨.insExtra, 0⟩],
                        dirname := some ⟨.dirname, 0⟩,
                        extra := .med ⟨.modExtra, 0⟩ { ptr := some ⟨.modExtraTab, 0⟩, entries := [some ⟨.modExtraEnt, 0⟩] } {} }
    let p : Player := { buffer := some ⟨.mixBuffer, 0⟩, voiceArray := some ⟨.voiceArray, 0⟩, paula := [some ⟨.paula, 0⟩] }
    let c : MCtx := { state := .playing, player := p, module := m }
    m.wf = true ∧ (releaseModule c { live := c.toks }).2.live = [] ∧ (releaseModule c { live := c.toks }).2.bad = 0 := by
  decide +kernel

/-- the hypothesis matters: an entry under a NULL table is not released (it leaks) -/
theorem C04_release_needs_wf :
    (releaseModule { module := { xxt := { ptr := none, entries := [some ⟨.track, 0⟩] } } }
      { live := [⟨.track, 0⟩] }).2.live ≠ [] := by decide +kernel

/-- **xmp_start_player is atomic** for every unwinding table that passes the decidable check
`Sound` (the table of the current player.c is regenerated into `Gen.StartCfg` and evaluated by the
check on every run), for every module shape `pp` and every allocation oracle: the ledger is never
corrupted; on failure the return value is negative, the state is still LOADED, no player block is
owned and the heap ledger is (as a multiset) exactly what it was; otherwise the return value is 0,
the state PLAYING and the ledger grew by exactly the blocks the player fields point to. -/
theorem C04_start_atomic (cfg : StartCfg) (hs : cfg.Sound = true) (pp : StartParams) (w : World) :
    let r := startPlayer cfg pp true { state := .loaded, player := {} } w
    r.2.2.bad = w.bad ∧
    (r.1 < 0 → r.2.1.state = .loaded ∧ r.2.1.player.toks = [] ∧ ∀ u, r.2.2.live.count u = w.live.count u) ∧
    (¬ r.1 < 0 → r.1 = 0 ∧ r.2.1.state = .playing ∧ Owns r.2.1.player r.2.2 w.live) :=
  start_atomic cfg hs pp w

/-- the repaired table (what player.c contains after fix dfdfe92) is sound -/
def startCfgFixed : StartCfg := .ofTables
  [("mixer_on", "", true), ("virt_on", "err", true), ("flow_loop", "err1", true), ("xc_data", "err1", true),
   ("channel_extras", "err2", false)]
  [("err2", ["channel_extras", "xc_data"], true), ("err1", ["flow_loop", "virt_off"], false), ("err", ["mixer_off"], false)]

theorem C04_start_fixed_sound : startCfgFixed.Sound = true := by decide +kernel

/-- non-trivial instance: an Amiga module with channel extras, the 8th allocation fails -/
example :
    let r := startPlayer startCfgFixed { amiga := true, extras := true, maxvoc := 4, virtch := 4 } true
      { state := .loaded } { oracle := List.replicate 7 true ++ [false] }
    r.1 < 0 ∧ r.2.2.live = [] ∧ r.2.2.bad = 0 ∧ r.2.2.nalloc = 8 := by decide +kernel

/-- the table of commit 3c5459a (`goto err` when `f->loop` cannot be allocated) is not sound … -/
def startCfg_3c5459a : StartCfg := .ofTables
  [("mixer_on", "", true), ("virt_on", "err", true), ("flow_loop", "err", true), ("xc_data", "err1", true),
   ("channel_extras", "err2", false)]
  [("err2", ["channel_extras", "xc_data"], true), ("err1", ["flow_loop", "virt_off"], false), ("err", ["mixer_off"], false)]

/-- … and really leaks: witness replayed on the real code by the harness (test.xm, k = 4) -/
theorem C04_start_counterexample_3c5459a :
    startCfg_3c5459a.Sound = false ∧
    (startPlayer startCfg_3c5459a { maxvoc := 4, virtch := 4 } true { state := .loaded }
        { oracle := [true, true, true, true, false] }).2.2.live = [⟨.virtChannel, 0⟩, ⟨.voiceArray, 0⟩] := by
  decide +kernel

/-- the pinned code (no release at all on the error paths, `return 0` after a failed
channel-extras allocation) -/
def startCfg_pinned : StartCfg := .ofTables
  [("mixer_on", "", true), ("virt_on", "err", true), ("flow_loop", "err", true), ("xc_data", "err1", true),
   ("channel_extras", "err2", false)]
  [("err2", ["xc_data"], false), ("err1", ["flow_loop"], false), ("err", [], false)]

theorem C04_start_counterexample_pinned :
    (startPlayer startCfg_pinned { extras := true, maxvoc := 1, virtch := 2 } true { state := .loaded }
        { oracle := List.replicate 6 true ++ [false] }).1 = 0 := by
  decide +kernel

/-- **load_module with an arbitrary loader result is atomic.**  Whatever the format loader built
before failing (`built`: any well-formed partial module, all of it allocated inside the call) and
wherever the failure is detected (no format, loader error / sanity checks, prepare_scan,
scan_sequences), the call returns a negative code, the state is UNLOADED, the module is empty, and
the ledger is what it was minus the caller-allocated dirname/basename, which are released too. -/
theorem C04_load_atomic (out : LoadOutcome) (hout : out ≠ .ok) (built : Module) (hwf : built.wf = true)
    (hd : built.dirname = none) (hb : built.basename = none)
    (c : MCtx) (hst : c.state = .unloaded) (hp : c.player.toks = []) (w : World)
    (hown : Sub (ptrs [c.module.dirname, c.module.basename]) w.live) :
    let r := loadModule out built c w
    r.1 < 0 ∧ r.2.1.state = .unloaded ∧ r.2.1.module = {} ∧ r.2.2.bad = w.bad ∧
      ∀ u, r.2.2.live.count u + (ptrs [c.module.dirname, c.module.basename]).count u = w.live.count u := by
  have key : ∀ u, ({ built with dirname := c.module.dirname, basename := c.module.basename } : Module).toks.count u
      = built.toks.count u + (ptrs [c.module.dirname, c.module.basename]).count u := by
    intro u
    simp only [Module.toks, List.count_append, hd, hb]
    cases c.module.dirname <;> cases c.module.basename <;> cases built.scan <;> cases built.comment <;>
      simp [List.count_cons] <;> omega
  have hwf1 : ({ built with dirname := c.module.dirname, basename := c.module.basename } : Module).wf = true := by
    simpa [Module.wf] using hwf
  have hrel := release_total
    { c with module := { built with dirname := c.module.dirname, basename := c.module.basename } }
    { w with live := built.toks ++ w.live } hwf1 (by intro h; simp [hst] at h) (fun _ => hp) (by
      intro u
      have := hown u
      simp only [MCtx.toks, List.count_append, hp, List.count_nil, Nat.zero_add, key]
      omega)
  obtain ⟨a, b, c3, d, _, _⟩ := hrel
  have hcount : ∀ u, (releaseModule
      { c with module := { built with dirname := c.module.dirname, basename := c.module.basename } }
      { w with live := built.toks ++ w.live }).2.live.count u
        + (ptrs [c.module.dirname, c.module.basename]).count u = w.live.count u := by
    intro u
    have := b u
    simp only [MCtx.toks, List.count_append, hp, List.count_nil, Nat.zero_add, key] at this
    omega
  cases out with
  | ok => exact absurd rfl hout
  | formatFail => exact ⟨by simp [loadModule, errFormat, errLoad, errSystem], d, c3, a, hcount⟩
  | loaderFail => exact ⟨by simp [loadModule, errFormat, errLoad, errSystem], d, c3, a, hcount⟩
  | prepareScanFail => exact ⟨by simp [loadModule, errFormat, errLoad, errSystem], d, c3, a, hcount⟩
  | scanFail => exact ⟨by simp [loadModule, errFormat, errLoad, errSystem], d, c3, a, hcount⟩

/-- non-trivial instance: the loader allocated the pattern table and two of three tracks, then failed -/
example :
    let built : Module := { xxt := { ptr := some ⟨.xxt, 0⟩, entries := [some ⟨.track, 0⟩, some ⟨.track, 1⟩, none] },
                            xxp := { ptr := some ⟨.xxp, 0⟩, entries := [none] } }
    let c : MCtx := { module := { dirname := some ⟨.dirname, 0⟩, basename := some ⟨.basename, 0⟩ } }
    let r := loadModule .loaderFail built c { live := [⟨.dirname, 0⟩, ⟨.basename, 0⟩] }
    r.1 < 0 ∧ r.2.2.live = [] ∧ r.2.2.bad = 0 := by decide +kernel

/-- **Reusable.**  After a failed load the model context *is* the fresh context (same state, empty
module, untouched player), so every later operation behaves as on a fresh context. -/
theorem C04_reusable (out : LoadOutcome) (hout : out ≠ .ok) (built : Module) (c : MCtx) (w : World)
    (hst : c.state = .unloaded) :
    (loadModule out built c w).2.1 = { state := .unloaded, player := c.player, module := {} } := by
  have he : ∀ (m : Module) (w' : World), (releaseModule { c with module := m } w').1
      = { state := .unloaded, player := c.player, module := {} } := by
    intro m w'
    simp [releaseModule, endPlayer, hst]
  cases out with
  | ok => exact absurd rfl hout
  | formatFail => exact he _ _
  | loaderFail => exact he _ _
  | prepareScanFail => exact he _ _
  | scanFail => exact he _ _

/-- **Reusable after failed starts (ledger level).**  A LOADED context that owns no player block -
which is what every failed xmp_start_player leaves (`C04_start_atomic`, `C04_failed_start_invariant`),
with whatever stale `maxvoc` / `virt_channels` / table lengths - behaves under the next
xmp_start_player exactly like the fresh LOADED context, for every module shape and every allocation
oracle: same return code, literally the same world (heap ledger, allocator call count, close log,
descriptors, invalid-operation count), same state; the same player record when the call succeeds, and a
player owning nothing when it fails again. -/
theorem C04_reusable_start_gen (cfg : StartCfg) (hs : cfg.Sound = true) (pp : StartParams) (c : Ctx) (w : World)
    (hst : c.state = .loaded) (hp : c.player.toks = []) :
    let a := startPlayer cfg pp true c w
    let b := startPlayer cfg pp true { state := .loaded, player := {} } w
    a.1 = b.1 ∧ a.2.2 = b.2.2 ∧ a.2.1.state = b.2.1.state ∧ a.2.1.player.toks = b.2.1.player.toks ∧
      (¬ a.1 < 0 → a.2.1 = b.2.1) :=
  start_reuse cfg hs pp c w hst hp

/-- the invariant behind it is kept by every failing start, so any number of failed starts may precede -/
theorem C04_failed_start_invariant (cfg : StartCfg) (hs : cfg.Sound = true) (pp : StartParams) (c : Ctx) (w : World)
    (hst : c.state = .loaded) (hp : c.player.toks = []) :
    let r := startPlayer cfg pp true c w
    r.1 < 0 → r.2.1.state = .loaded ∧ r.2.1.player.toks = [] ∧ r.2.2.bad = w.bad ∧ ∀ u, r.2.2.live.count u = w.live.count u := by
  intro r h
  obtain ⟨a, b, _⟩ := start_atomic_gen cfg hs pp c w hst hp
  exact ⟨(b h).1, (b h).2.1, a, (b h).2.2⟩

/-- **C04, reusable after a failed start**: after xmp_start_player failed (any module shape `pp`, any
allocation oracle), the same context starts - with any module shape `pp'` and any oracle `w'` - exactly
as a fresh LOADED context does. -/
theorem C04_reusable_start (cfg : StartCfg) (hs : cfg.Sound = true) (pp pp' : StartParams) (w w' : World) :
    let r := startPlayer cfg pp true { state := .loaded, player := {} } w
    r.1 < 0 →
    let a := startPlayer cfg pp' true r.2.1 w'
    let b := startPlayer cfg pp' true { state := .loaded, player := {} } w'
    a.1 = b.1 ∧ a.2.2 = b.2.2 ∧ a.2.1.state = b.2.1.state ∧ a.2.1.player.toks = b.2.1.player.toks ∧
      (¬ a.1 < 0 → a.2.1 = b.2.1) := by
  intro r h
  obtain ⟨h1, h2, _⟩ := C04_failed_start_invariant cfg hs pp { state := .loaded, player := {} } w rfl rfl h
  exact start_reuse cfg hs pp' r.2.1 w' h1 h2

/-- non-trivial instance: the first start fails inside libxmp_virt_on (4th allocator call, an Amiga
module), which leaves `maxvoc = 4` with a NULL voice array; the second start on that context (a module
with channel extras, 6th call failing / no failure) equals the start on a fresh context -/
example :
    let r := startPlayer startCfgFixed { amiga := true, maxvoc := 4, virtch := 4 } true { state := .loaded }
      { oracle := [true, true, true, false] }
    r.1 < 0 ∧ r.2.1.player.maxvoc = 4 ∧ r.2.1.player.voiceArray = none ∧ r.2.1.player ≠ {} ∧
    (startPlayer startCfgFixed { extras := true, maxvoc := 2, virtch := 3 } true r.2.1 {}).2.1.state = .playing ∧
    (startPlayer startCfgFixed { extras := true, maxvoc := 2, virtch := 3 } true r.2.1 { oracle := List.replicate 6 true ++ [false] }).2.2.live = [] := by
  decide +kernel

/-- the stricter entry state of the mixer_on failure branch matters: a table that runs libxmp_virt_off
after a failed libxmp_mixer_on (`goto err1`) is harmless on a fresh context but walks a NULL voice
array on the residue of an earlier failed start -/
def startCfg_virtOffAfterMixer : StartCfg := .ofTables
  [("mixer_on", "err1", true), ("virt_on", "err", true), ("flow_loop", "err1", true), ("xc_data", "err1", true),
   ("channel_extras", "err2", false)]
  [("err2", ["channel_extras", "xc_data"], true), ("err1", ["flow_loop", "virt_off"], false), ("err", ["mixer_off"], false)]

theorem C04_reuse_needs_strict_entry :
    startCfg_virtOffAfterMixer.Sound = false ∧
    (startPlayer startCfg_virtOffAfterMixer { maxvoc := 4, virtch := 4 } true { state := .loaded } { oracle := [false] }).2.2.bad = 0 ∧
    (let r := startPlayer startCfg_virtOffAfterMixer { maxvoc := 4, virtch := 4 } true { state := .loaded } { oracle := [true, true, false] }
     (startPlayer startCfg_virtOffAfterMixer { maxvoc := 4, virtch := 4 } true r.2.1 { oracle := [false] }).2.2.bad = 1) := by
  decide +kernel

/-- **xmp_start_player on a PLAYING context is atomic** (the implicit xmp_end_player first): for every
sound table, module shape and allocation oracle, from any PLAYING context that owns its player blocks
(`Owns … B`: the heap is the frame `B` plus those blocks) and whose voice table can be walked: nothing is
freed twice; on failure the code is negative, the state is LOADED - the valid earlier state -, no player
block is owned and the heap is exactly the frame; on success the state is PLAYING and the heap is the
frame plus the new player's blocks. -/
theorem C04_restart_atomic (cfg : StartCfg) (hs : cfg.Sound = true) (pp : StartParams) (c : Ctx) (w : World)
    (hp : c.state = .playing) (hv : c.player.voiceArray.isSome ∨ c.player.paula = [])
    (hsm : pp.smixOk = true) (B : List Tok) (hO : Owns c.player w B) :
    let r := startPlayer cfg pp true c w
    r.2.2.bad = w.bad ∧
    (r.1 < 0 → r.2.1.state = .loaded ∧ r.2.1.player.toks = [] ∧ ∀ u, r.2.2.live.count u = B.count u) ∧
    (¬ r.1 < 0 → r.1 = 0 ∧ r.2.1.state = .playing ∧ Owns r.2.1.player r.2.2 B) := by
  obtain ⟨a, b, c'⟩ := restart_atomic cfg hs pp c w hp hv hsm B hO
  exact ⟨a, b, fun h => ⟨(c' h).1, (c' h).2.1, (c' h).2.2.1⟩⟩

/-- the hypotheses of `C04_restart_atomic` hold after every successful start: `start ; start` with two
arbitrary oracles (`o` replaces the allocator's future after the first call) needs no hypothesis; a
channel-count overflow (`smixOk = false`) is refused before anything is touched -/
theorem C04_restart_after_start (cfg : StartCfg) (hs : cfg.Sound = true) (pp pp' : StartParams) (w : World) (o : List Bool) :
    let r := startPlayer cfg pp true { state := .loaded, player := {} } w
    ¬ r.1 < 0 →
    let r' := startPlayer cfg pp' true r.2.1 { r.2.2 with oracle := o }
    r'.2.2.bad = w.bad ∧
    (r'.1 < 0 → (r'.2.1.state = .loaded ∨ (pp'.smixOk = false ∧ r'.2.1 = r.2.1 ∧ r'.2.2.live = r.2.2.live)) ∧
       (pp'.smixOk = true → r'.2.1.player.toks = [] ∧ ∀ u, r'.2.2.live.count u = w.live.count u)) ∧
    (¬ r'.1 < 0 → r'.1 = 0 ∧ r'.2.1.state = .playing ∧ Owns r'.2.1.player r'.2.2 w.live) := by
  intro r h r'
  obtain ⟨a, _, c⟩ := start_atomic_gen cfg hs pp { state := .loaded, player := {} } w rfl rfl
  obtain ⟨_, c2, c3, c4, _⟩ := c h
  change r.2.2.bad = w.bad at a
  change r.2.1.state = .playing at c2
  change Owns r.2.1.player r.2.2 w.live at c3
  change r.2.1.player.voiceArray.isSome = true at c4
  cases hsm : pp'.smixOk
  · have e : r' = (errInvalid, r.2.1, { r.2.2 with oracle := o }) := by
      show startPlayer cfg pp' true r.2.1 { r.2.2 with oracle := o } = _
      unfold startPlayer
      simp [hsm, c2]
    rw [e]
    refine ⟨a, fun _ => ⟨Or.inr ⟨rfl, rfl, rfl⟩, fun h => by simp at h⟩, fun h => absurd (by decide : errInvalid < 0) h⟩
  · obtain ⟨x, y, z⟩ := restart_atomic cfg hs pp' r.2.1 { r.2.2 with oracle := o } c2 (Or.inl c4) hsm w.live c3
    exact ⟨by rw [x]; exact a, fun h => ⟨Or.inl (y h).1, fun _ => ⟨(y h).2.1, (y h).2.2⟩⟩,
      fun h => ⟨(z h).1, (z h).2.1, (z h).2.2.1⟩⟩

/-- non-trivial instance: playing an Amiga module with channel extras, restarted with a failing 5th
allocation: everything of the old and of the half-built new player is released, state LOADED -/
example :
    let pp : StartParams := { amiga := true, extras := true, maxvoc := 3, virtch := 3 }
    let r := startPlayer startCfgFixed pp true { state := .loaded } {}
    let r' := startPlayer startCfgFixed pp true r.2.1 { r.2.2 with oracle := List.replicate 4 true ++ [false] }
    r.2.1.state = .playing ∧ r.2.2.live.length = 12 ∧ r'.1 < 0 ∧ r'.2.1.state = .loaded ∧ r'.2.2.live = [] ∧ r'.2.2.bad = 0 := by
  decide +kernel

/-- **Temp files.**  For every table of make_temp_file passing `TempCfg.Sound` (regenerated from
tempfile.c and evaluated on every run), every outcome of mkstemp/fdopen/helper/fseek/get_size and
every allocation oracle, the path operation (open, decrunch with an external helper, load or test,
hio_close, unlink_temp_file) leaves no temp file, no descriptor and no block behind and performs
no invalid free/unlink. -/
theorem C04_tempfile (cfg : TempCfg) (hs : cfg.Sound = true) (sys : HelperSys) (loadRc : Int) (w : World) :
    let r := pathOpWithHelper cfg sys loadRc w
    r.2.tempFiles = w.tempFiles ∧ r.2.openFds = w.openFds ∧ r.2.bad = w.bad ∧ r.2.live = w.live :=
  tempfile_atomic cfg hs sys loadRc w

def tempCfgFixed : TempCfg := .ofTables [("strdup", "err"), ("mkstemp", "err2"), ("fdopen", "err3")]
  [("err3", ["close_fd", "unlink_name"]), ("err2", ["free_name", "null_name"]), ("err", [])]

theorem C04_tempfile_fixed_sound : tempCfgFixed.Sound = true := by decide +kernel

/-- the pinned make_temp_file (frees `*filename` but leaves it set): the caller's
unlink_temp_file unlinks and frees it again — replayed on the real code with a missing TMPDIR -/
def tempCfg_pinned : TempCfg := .ofTables [("strdup", "err"), ("mkstemp", "err2"), ("fdopen", "err3")]
  [("err3", ["close_fd"]), ("err2", ["free_name"]), ("err", [])]

theorem C04_tempfile_counterexample_pinned :
    (pathOpWithHelper tempCfg_pinned { mkstempOk := false } 0 {}).2.bad = 2 ∧
    (pathOpWithHelper tempCfg_pinned { fdopenOk := false } 0 {}).2.tempFiles = 1 := by decide +kernel

/-- **Stream ownership.**  Over every sequence `open_x ; reopen* ; close` the library performs
(every entry point `e`, every list of depacker steps `rs`: internal depacker → memory, external
helper → temp FILE, each succeeding or failing), for every allocation oracle and every callback
configuration (valid or refused by cbopen, with or without close function, size query failing in
hio_open_callbacks): the caller's FILE is never closed, every descriptor the library opened is
closed again (`openFds` restored: an owned FILE is closed exactly once), the close callback is
called exactly once when there is one — also when opening fails — and no block is left or freed
twice. -/
theorem C04_stream_ownership (e : Entry) (cb : Callbacks) (sizeOk : Bool) (rs : List (Bool × Bool)) (w : World) :
    let r := streamLife e cb sizeOk rs w
    (r.2.closed.count .callerFile = w.closed.count .callerFile) ∧
    (r.2.closed.count .callback = w.closed.count .callback + (if e = .cb ∧ cb.hasClose = true then 1 else 0)) ∧
    r.2.openFds = w.openFds ∧ r.2.bad = w.bad ∧ (∀ u, r.2.live.count u = w.live.count u) :=
  stream_ownership e cb sizeOk rs w

/-- non-trivial instances with reopens: a caller's FILE that is unpacked
twice in memory is never closed; a path load through an internal depacker and then an external
helper closes the owned FILE and the temp FILE once each -/
example :
    ((streamLife .file {} true [(true, true), (true, true)] {}).2.closed.count .callerFile = 0) ∧
    ((streamLife .file {} true [(true, true), (true, true)] {}).2.live = []) ∧
    ((streamLife .path {} true [(true, true), (false, true)] {}).2.closed = [.tempFile, .ownedFile]) ∧
    ((streamLife .path {} true [(true, true), (false, true)] {}).2.openFds = 0) ∧
    ((streamLife .cb {} true [] { oracle := [true, false] }).2.closed = [.callback]) := by decide +kernel

/-! ## closing that reports an error -/

/-- **Stream ownership under close failures.**  When `hio_reopen_*` switch the handle to the new stream
whatever closing the old one reported (`switchAnyway = true`; the flag of the tree is regenerated from
hio.c as `Gen.StartCfg.reopenIgnoresCloseResult`), `C04_stream_ownership` holds for EVERY pattern of
failing closes as well (`rs`: depacker steps, each with "the reopen succeeds" and "closing the old stream
reports an error"): caller's FILE never closed, every owned FILE and the callback exactly once, no
descriptor, block or invalid free left. -/
theorem C04_stream_ownership_close_failures (e : Entry) (cb : Callbacks) (sizeOk : Bool)
    (rs : List (Bool × Bool × Bool)) (w : World) :
    let r := streamLifeR true e cb sizeOk rs w
    (r.2.closed.count .callerFile = w.closed.count .callerFile) ∧
    (r.2.closed.count .callback = w.closed.count .callback + (if e = .cb ∧ cb.hasClose = true then 1 else 0)) ∧
    r.2.openFds = w.openFds ∧ r.2.bad = w.bad ∧ (∀ u, r.2.live.count u = w.live.count u) := by
  rw [streamLifeR_true]
  exact stream_ownership e cb sizeOk (dropFails rs) w

/-- the variant that bails out behaves the same as long as no close fails … -/
theorem C04_reopen_bailing_ok_without_failures (e : Entry) (cb : Callbacks) (sizeOk : Bool)
    (rs : List (Bool × Bool × Bool)) (w : World) (h : ∀ r ∈ rs, r.2.2 = false) :
    streamLifeR false e cb sizeOk rs w = streamLife e cb sizeOk (dropFails rs) w := by
  unfold streamLifeR streamLife
  split <;> simp_all [reopenSeqR_nofail]

/-- **Finding `own:double_fclose`** … but when the fclose inside hio_reopen_mem (a path load through an
internal depacker) or hio_reopen_file (through an external helper) reports an error, the handle keeps
referring to the FILE that fclose has released and hio_close closes it a second time: two close events
on the owned FILE, one descriptor too many released.  Replayed on the real code by the harness
(`closefault`, gzip'd module by path).  proposed_fixes/c04-hio-reopen-close-failure.diff -/
theorem C04_reopen_double_close :
    ((streamLifeR false .path {} true [(true, true, true)] {}).2.closed.count .ownedFile = 2) ∧
    ((streamLifeR false .path {} true [(false, true, true)] {}).2.closed.count .ownedFile = 2) ∧
    ((streamLifeR true .path {} true [(true, true, true)] {}).2.closed = [.ownedFile]) ∧
    ((streamLifeR true .path {} true [(false, true, true)] {}).2.closed = [.tempFile, .ownedFile]) ∧
    ((streamLifeR true .path {} true [(true, true, true)] {}).2.live = []) := by decide +kernel

/-! ## rescans on a live context -/

/-- **xmp_set_player(XMP_PLAYER_MODE) is atomic** (control.c since fix e307a0a: the result of the rescan
is checked).  For every allocation oracle and every outcome of the two scans: no invalid free and
`p->scan` is one live block on the unchanged frame whatever happens; the call is refused exactly when the
rescan under the new mode fails (its growing realloc fails, or nothing is playable under the new mode), and
then the code is -XMP_ERROR_INVALID, the mode in force is the OLD one, and the scan table belongs to it
whenever the second rescan succeeds, i.e. the old mode has a playable order (it had: the module was loaded
under it) and the growing realloc of the second rescan succeeds (`w1`: the allocator's future at that
point); when the call is accepted the code is 0, the mode is the new one and the table belongs to it. -/
theorem C04_set_player_mode_atomic (new old : ScanP) (oldMode newMode : Nat) (s : Tok) (w : World) (B : List Tok)
    (hO : OwnsScan s w B) :
    let r := setPlayerMode new old oldMode newMode (some s) w
    let w1 := (scanSequences new.vblankCmp new.valid new.shrink (some s) w).2.2
    r.2.2.2.2.bad = w.bad ∧ (∃ s', r.2.2.2.1 = some s' ∧ OwnsScan s' r.2.2.2.2 B) ∧
    (r.1 < 0 → r.1 = errInvalid ∧ r.2.1 = oldMode ∧ (w.oracle.headD true = false ∨ new.valid = false) ∧
       (old.valid = true → w1.oracle.headD true = true → r.2.2.1 = true)) ∧
    (¬ r.1 < 0 → r.1 = 0 ∧ r.2.1 = newMode ∧ r.2.2.1 = true ∧ new.valid = true) :=
  setPlayerMode_spec new old oldMode newMode s w B hO

/-- non-trivial instances: (1) the growing realloc of the first rescan fails: refused, old mode 0, second
rescan (VBlank comparison + shrink) fine, one scan block; (2) nothing playable under the new mode: the
same; (3) both growing reallocs fail: refused, old mode, the untouched old block, table flagged stale -/
example :
    let w : World := { live := [⟨.scan, 0⟩, ⟨.xxt, 0⟩] }
    let o : ScanP := { vblankCmp := true, shrink := true }
    (setPlayerMode {} o 0 4 (some ⟨.scan, 0⟩) { w with oracle := [false] }).1 = errInvalid ∧
    (setPlayerMode {} o 0 4 (some ⟨.scan, 0⟩) { w with oracle := [false] }).2.1 = 0 ∧
    (setPlayerMode {} o 0 4 (some ⟨.scan, 0⟩) { w with oracle := [false] }).2.2.1 = true ∧
    (setPlayerMode {} o 0 4 (some ⟨.scan, 0⟩) { w with oracle := [false] }).2.2.2.2.live = [⟨.scan, 4⟩, ⟨.xxt, 0⟩] ∧
    (setPlayerMode { valid := false } o 0 4 (some ⟨.scan, 0⟩) w).2.1 = 0 ∧
    (setPlayerMode { valid := false } o 0 4 (some ⟨.scan, 0⟩) w).2.2.1 = true ∧
    (setPlayerMode {} o 0 4 (some ⟨.scan, 0⟩) { w with oracle := [false, false] }).2.2.1 = false ∧
    (setPlayerMode {} o 0 4 (some ⟨.scan, 0⟩) { w with oracle := [false, false] }).2.2.2.2.live = w.live ∧
    (setPlayerMode {} o 0 4 (some ⟨.scan, 0⟩) w).2.1 = 4 := by decide +kernel

/-- **libxmp_scan_sequences called again** (xmp_set_player(XMP_PLAYER_MODE / XMP_PLAYER_CFLAGS),
xmp_scan_module) is memory-atomic for every allocation oracle: no invalid free; afterwards `p->scan` is
exactly one live block on top of the unchanged frame; when the growing realloc fails the code is negative,
`p->scan` is the old block and the heap is untouched; a failing shrink realloc or a failing backup malloc
of compare_vblank_scan is tolerated (code 0).  The only other negative exit is "the scan finds no valid
order".  xmp_set_player(XMP_PLAYER_MODE) acts on the code (second conjunct = `C04_set_player_mode_atomic`:
refused with the old mode restored and rescanned); XMP_PLAYER_CFLAGS and xmp_scan_module ignore it - the
scan data then is the previous one. -/
theorem C04_rescan_atomic (vblankCmp valid shrink : Bool) (new old : ScanP) (oldMode newMode : Nat)
    (s : Tok) (w : World) (B : List Tok) (hO : OwnsScan s w B) :
    (let r := scanSequences vblankCmp valid shrink (some s) w
     r.2.2.bad = w.bad ∧ (∃ s', r.2.1 = some s' ∧ OwnsScan s' r.2.2 B) ∧
     (w.oracle.headD true = false → r.1 < 0 ∧ r.2.1 = some s ∧ r.2.2.live = w.live) ∧
     (r.1 < 0 → w.oracle.headD true = false ∨ valid = false)) ∧
    (let r := setPlayerMode new old oldMode newMode (some s) w
     let w1 := (scanSequences new.vblankCmp new.valid new.shrink (some s) w).2.2
     r.2.2.2.2.bad = w.bad ∧ (∃ s', r.2.2.2.1 = some s' ∧ OwnsScan s' r.2.2.2.2 B) ∧
     (r.1 < 0 → r.1 = errInvalid ∧ r.2.1 = oldMode ∧ (w.oracle.headD true = false ∨ new.valid = false) ∧
        (old.valid = true → w1.oracle.headD true = true → r.2.2.1 = true)) ∧
     (¬ r.1 < 0 → r.1 = 0 ∧ r.2.1 = newMode ∧ r.2.2.1 = true ∧ new.valid = true)) :=
  ⟨scanSequences_spec vblankCmp valid shrink s w B hO, setPlayerMode_spec new old oldMode newMode s w B hO⟩

/-- non-trivial instance: VBlank comparison and shrinking, every one of the three allocator calls failing -/
example :
    let w : World := { live := [⟨.scan, 0⟩, ⟨.xxt, 0⟩] }
    (scanSequences true true true (some ⟨.scan, 0⟩) { w with oracle := [false] }).2.2.live = w.live ∧
    (scanSequences true true true (some ⟨.scan, 0⟩) { w with oracle := [true, false] }).2.2.live = [⟨.scan, 3⟩, ⟨.xxt, 0⟩] ∧
    (scanSequences true true true (some ⟨.scan, 0⟩) { w with oracle := [true, true, false] }).1 = 0 ∧
    (scanSequences true true true (some ⟨.scan, 0⟩) { w with oracle := [true, true, false] }).2.2.live = [⟨.scan, 1⟩, ⟨.xxt, 0⟩] ∧
    (scanSequences true true true (some ⟨.scan, 0⟩) w).2.2.live = [⟨.scan, 3⟩, ⟨.xxt, 0⟩] := by decide +kernel

/-! ## the sound-effect mixer calls (smix.c) -/

/-- **xmp_start_smix and xmp_smix_load_sample are atomic**, for every allocation oracle, every state, every
argument class, every outcome of fopen / the size probe and every kind of WAV file, from any well-formed
`struct smix_data` whose blocks are live (`OwnsS … B`: the heap is the frame `B` plus those blocks):
nothing is freed twice or through a NULL table; a failing xmp_start_smix that was refused (PLAYING,
argument out of range) or hit a failing allocation when smix was not started leaves tables, counts and
heap as before; when smix was already started the old tables were released first (as by xmp_end_smix) and
a failing allocation then leaves the empty smix - tables NULL, counts 0, heap exactly the frame;
a failing xmp_smix_load_sample leaves tables, counts, heap, descriptors and temp files exactly as before. -/
theorem C04_smix_atomic (st : State) (argsOk : Bool) (chn smp num : Nat) (fopenOk sizeOk : Bool) (wav : Wav)
    (releaseOld : Bool) (s : Smix) (w : World) (B : List Tok) (hwf : s.wf = true) (hO : OwnsS s w B) :
    (let r := startSmix st argsOk chn smp s w
     r.2.2.bad = w.bad ∧ r.2.2.openFds = w.openFds ∧
     (r.1 < 0 →
        (r.2.1 = s ∧ ∀ u, r.2.2.live.count u = w.live.count u) ∨
        ((s.xxi.isSome || s.xxs.isSome) = true ∧ r.2.1 = {} ∧ ∀ u, r.2.2.live.count u = B.count u))) ∧
    (let r := smixLoadSample num fopenOk sizeOk wav releaseOld s w
     r.2.2.bad = w.bad ∧ r.2.2.openFds = w.openFds ∧ r.2.2.tempFiles = w.tempFiles ∧
     (r.1 < 0 → r.2.1 = s ∧ ∀ u, r.2.2.live.count u = w.live.count u)) := by
  constructor
  · obtain ⟨a, ⟨_, _, e3⟩, c, d⟩ := startSmix_spec st argsOk chn smp s w B hwf hO
    refine ⟨a, e3, fun h => ?_⟩
    by_cases hr : st = .playing ∨ argsOk = false
    · obtain ⟨_, c2, c3⟩ := c hr
      exact Or.inl ⟨c2, fun u => by rw [c3]⟩
    · obtain ⟨d1, d2⟩ := (d hr).1 h
      by_cases hs : s.xxi.isSome = true ∨ s.xxs.isSome = true
      · exact Or.inr ⟨by simpa [Bool.or_eq_true] using hs, by rw [d1]; simp [hs], d2⟩
      · obtain ⟨t0, _, _, _⟩ := toks_unstarted s hwf hs
        refine Or.inl ⟨by rw [d1]; simp [hs], fun u => ?_⟩
        have := hO u; rw [t0] at this; simp at this
        rw [d2 u, this]
  · obtain ⟨a, b, c, d, _⟩ := smixLoad_spec num fopenOk sizeOk wav releaseOld s w B hwf hO
    exact ⟨a, b, c, d⟩

/-- non-trivial instances: smix started with 2 slots, slot 0 loaded; (1) a restart whose second table
allocation fails releases everything and leaves the empty smix; (2) loading slot 1 with the sample buffer
allocation failing (3rd allocator call) leaves exactly the 4 blocks that were there -/
example :
    let s : Smix := { xxi := some ⟨.smixXxi, 0⟩, xxs := some ⟨.smixXxs, 0⟩, subs := [some ⟨.smixSub, 7⟩, none],
                      datas := [some ⟨.smixData, 8⟩, none], chn := 1, ins := 2 }
    s.wf = true ∧
    (startSmix .loaded true 2 3 s { live := s.toks, oracle := [true, false] }).1 < 0 ∧
    (startSmix .loaded true 2 3 s { live := s.toks, oracle := [true, false] }).2.1 = {} ∧
    (startSmix .loaded true 2 3 s { live := s.toks, oracle := [true, false] }).2.2.live = [] ∧
    (smixLoadSample 1 true true .ok true s { live := s.toks, oracle := [true, true, false] }).1 < 0 ∧
    (smixLoadSample 1 true true .ok true s { live := s.toks, oracle := [true, true, false] }).2.2.live = s.toks ∧
    (smixLoadSample 1 true true .ok true s { live := s.toks, oracle := [true, true, false] }).2.2.openFds = 0 := by
  decide +kernel

/-- **xmp_end_smix is total** (when not playing): every block the tables refer to is freed exactly once,
tables NULL, counts 0; while PLAYING it is a no-op (voices may reference the samples). -/
theorem C04_smix_end_total (st : State) (s : Smix) (w : World) (B : List Tok) (hwf : s.wf = true) (hO : OwnsS s w B) :
    let r := endSmix st s w
    (st = .playing → r = (s, w)) ∧
    (st ≠ .playing → r.1 = {} ∧ r.2.bad = w.bad ∧ ∀ u, r.2.live.count u = B.count u) := by
  refine ⟨fun h => by simp [endSmix, h], fun h => ?_⟩
  obtain ⟨a, b, c, _⟩ := endSmix_spec st s w B h hwf hO
  exact ⟨a, b, c⟩

/-- **A successful xmp_smix_load_sample**: the slot owns the two new blocks; what it held before is freed
when the commit releases it (`releaseOld`, the code since fix 29ba45a; regenerated flag
`Gen.StartCfg.smixLoadReleasesOld`) and is otherwise still live but unreferenced - leaked. -/
theorem C04_smix_load_ok (num : Nat) (fopenOk sizeOk : Bool) (wav : Wav) (releaseOld : Bool) (s : Smix) (w : World)
    (B : List Tok) (hwf : s.wf = true) (hO : OwnsS s w B) :
    let r := smixLoadSample num fopenOk sizeOk wav releaseOld s w
    ¬ r.1 < 0 → r.1 = 0 ∧ r.2.1.wf = true ∧ r.2.1.ins = s.ins ∧ r.2.1.chn = s.chn ∧
      ∀ u, r.2.2.live.count u = B.count u + r.2.1.toks.count u
        + (if releaseOld then 0 else (ptrs [s.datas.getD num none, s.subs.getD num none]).count u) := by
  intro r h
  obtain ⟨_, _, _, _, e⟩ := smixLoad_spec num fopenOk sizeOk wav releaseOld s w B hwf hO
  obtain ⟨e1, _, _, _, _, e6, e7, e8, e9⟩ := e h
  exact ⟨e1, e6, e7, e8, e9⟩

/-- the leak of the code before fix 29ba45a (no release at commit time): start, load slot 0 twice, end -
two blocks stay live; with the release nothing does (replayed on the real code by the harness) -/
theorem C04_smix_occupied_leak :
    (let r0 := startSmix .loaded true 1 2 {} {}
     let r1 := smixLoadSample 0 true true .ok false r0.2.1 r0.2.2
     let r2 := smixLoadSample 0 true true .ok false r1.2.1 r1.2.2
     (endSmix .loaded r2.2.1 r2.2.2).2.live.length = 2) ∧
    (let r0 := startSmix .loaded true 1 2 {} {}
     let r1 := smixLoadSample 0 true true .ok true r0.2.1 r0.2.2
     let r2 := smixLoadSample 0 true true .ok true r1.2.1 r1.2.2
     (endSmix .loaded r2.2.1 r2.2.2).2.live = [] ∧ (endSmix .loaded r2.2.1 r2.2.2).2.bad = 0) := by
  decide +kernel

end Xmp.Resource

/-! ## Reusable after a failed start, member by member (with the reset theorems of C06)

`XmpModel.StartFail.failedStart` is the image of `struct context_data` after xmp_start_player failed at
an acquisition site: the writes of the success path (C06's `Reset.startCore` / `mixerOn`) up to the
failing statement, then the release actions of the unwinding table of C04 (`StartCfg.cleanup`, generated
from player.c).  `vfr` says whether libxmp_virt_on's failure path zeroes the counts it set (generated
from virtual.c). -/
namespace Xmp.StartFail
open Xmp.Reset Xmp.Gen.CtxFields
open Xmp.Resource (Site StartCfg startCfgFixed)

/-- **C04 reusable, same module.**  For EVERY unwinding table, failure site and external behaviour: the
failing call changes no member the next start depends on (`Reset.B`) - it writes only members that
`xmp_start_player` / `libxmp_mixer_on` rewrite - so with C06's restart theorem the next
xmp_start_player (any rate/format) on the same context yields the player view it yields on the context
the failing call started from.  Hypotheses: the module has a playable order, so that the start leaves
`mod->len` alone (`hlen`, `hne`), and the scan reached the start order (C06's `hlive`, `hspeed`). -/
theorem C04_reusable_restart_view (cfg : StartCfg) (X : Ext) (r fm r' fm' : Int) (site : Site) (second vfr : Bool) (L : Ctx)
    (hlen : L .m_mod_len = cst (startLen L)) (hne : startLen L ≠ 0)
    (hlive : L .m_xxo_info_time (startOrd L) ≠ -1) (hspeed : L .m_xxo_info_speed (startOrd L) ≠ 0) :
    playerView (startPlayer X r' fm' L)
      = playerView (startPlayer X r' fm' (failedStart cfg X r fm site second vfr L)) :=
  C06_restart_independent X r' fm' L _ (failedStart_agreeB cfg X r fm site second vfr L hlen hne)
    (failedStart_partial cfg X r fm site second vfr L) hlive hspeed

/-- non-trivial instance: the context C06 uses as "dirty and played for a while" (state PLAYING), a failure
at the channel table after the implicit xmp_end_player -/
example : playerView (startPlayer exampleExt 44100 0 (played (startPlayer exampleExt 22050 4 (load exampleExt dirty))))
    = playerView (startPlayer exampleExt 44100 0
        (failedStart startCfgFixed exampleExt 8000 1 .xcData false false
          (played (startPlayer exampleExt 22050 4 (load exampleExt dirty))))) := by
  apply C04_reusable_restart_view
  · funext i; rfl
  · decide
  · decide
  · decide

/-- **The context after a failed start is a well-formed idle context** (C06's invariant `WF`: the player
resources are NULL / 0 whenever the context is not playing, state < PLAYING) for every failure site at
which the decidable condition `idleAfter` holds; the check evaluates it on the generated table and flag
on every run. -/
theorem C04_failed_start_wf (cfg : StartCfg) (X : Ext) (r fm : Int) (site : Site) (second vfr : Bool) (s0 : Ctx)
    (hw : WF s0) (hid : idleAfter cfg site vfr = true) : WF (failedStart cfg X r fm site second vfr s0) :=
  failedStart_wf cfg X r fm site second vfr s0 hw hid

/-- **C04 reusable, another module** ("lets the same context load and play another module normally").
After a failure at a site with `idleAfter`, loading ANY module `X'` on the same context and starting it
gives the player view of a fresh context with the same persistent settings (C06_history_independent), and
in state LOADED `xmp_get_frame_info` reports the same as on the fresh one (C06_loaded_view). -/
theorem C04_reusable_reload_view (cfg : StartCfg) (X X' : Ext) (r fm r' fm' : Int) (site : Site) (second vfr : Bool)
    (s0 F : Ctx) (hw : WF s0) (hid : idleAfter cfg site vfr = true) (hP : AgreeOn Persistent s0 F) (wF : WF F)
    (hlive : load X' (failedStart cfg X r fm site second vfr s0) .m_xxo_info_time
      (startOrd (load X' (failedStart cfg X r fm site second vfr s0))) ≠ -1)
    (hspeed : load X' (failedStart cfg X r fm site second vfr s0) .m_xxo_info_speed
      (startOrd (load X' (failedStart cfg X r fm site second vfr s0))) ≠ 0) :
    playerView (startPlayer X' r' fm' (load X' (failedStart cfg X r fm site second vfr s0)))
      = playerView (startPlayer X' r' fm' (load X' F))
    ∧ (∀ f, InfoField f = true → load X' (failedStart cfg X r fm site second vfr s0) f = load X' F f) := by
  have hP' : AgreeOn Persistent (failedStart cfg X r fm site second vfr s0) F := by
    intro f hf
    rw [← failedStart_persistent cfg X r fm site second vfr s0 f hf]
    exact hP f hf
  have hwf := failedStart_wf cfg X r fm site second vfr s0 hw hid
  exact ⟨C06_history_independent X' r' fm' _ F hP' hwf wF hlive hspeed, (C06_loaded_view X' _ F hP' hwf wF).1⟩

/-- the repaired table of player.c releases enough at every site once libxmp_virt_on's failure path
resets its counts; without that reset the site `virtOn` is the one exception -/
theorem C04_idle_fixed :
    (∀ site, idleAfter startCfgFixed site true = true) ∧
    (∀ site, site ≠ .virtOn → idleAfter startCfgFixed site false = true) ∧
    idleAfter startCfgFixed .virtOn false = false := by
  refine ⟨fun site => by cases site <;> decide, fun site h => by cases site <;> first | decide | exact absurd rfl h, by decide⟩

/-- non-trivial instance: failure at `f->loop` after a dirty context was loaded, then a reload -/
example : playerView (startPlayer exampleExt 44100 0 (load exampleExt
      (failedStart startCfgFixed exampleExt 8000 1 .flowLoop false false (load exampleExt dirty))))
    = playerView (startPlayer exampleExt 44100 0 (load exampleExt (createContext 1))) := by
  refine (C04_reusable_reload_view startCfgFixed exampleExt exampleExt 8000 1 44100 0 .flowLoop false false
    (load exampleExt dirty) (createContext 1) ?_ (by decide) ?_ (wf_create 1) (by decide) (by decide)).1
  · constructor
    · intro _ f hf; cases f <;> first | rfl | exact absurd hf (by decide)
    · intro h; exact absurd h (by decide)
  · intro f hf; cases f <;> first | rfl | exact absurd hf (by decide)

/-- **Finding `residue:virt_counts`.**  libxmp_virt_on sets `num_tracks`, `virt_channels` and `maxvoc`
before its first allocation and its failure path keeps them (`vfr = false`); xmp_start_player then only
runs libxmp_mixer_off.  The context is LOADED with `virt_channels = 4` and a NULL voice array: C06's idle
invariant is broken, the value survives xmp_release_module + a reload, and `xmp_get_frame_info` in state
LOADED reports 4 virtual channels where a fresh context reports 0.  With the reset in libxmp_virt_on
(`vfr = true`, proposed_fixes/c04-virt-on-counts.diff) the same failure leaves a well-formed context. -/
theorem C04_virt_counts_residue :
    let L := load exampleExt (createContext 1)
    let P := failedStart startCfgFixed exampleExt 44100 0 .virtOn false false L
    P .state 0 = K.XMP_STATE_LOADED ∧ P .p_virt_virt_channels 0 = 4 ∧ P .p_virt_maxvoc 0 = 4 ∧
    P .p_virt_voice_array 0 = 0 ∧ ¬ WF P ∧
    load exampleExt P .p_virt_virt_channels 0 = 4 ∧ load exampleExt (createContext 1) .p_virt_virt_channels 0 = 0 ∧
    WF (failedStart startCfgFixed exampleExt 44100 0 .virtOn false true L) := by
  refine ⟨by decide, by decide, by decide, by decide, ?_, by decide, by decide, ?_⟩
  · intro h
    have := h.idle (by decide) .p_virt_virt_channels rfl
    have := congrFun this 0
    revert this
    decide
  · apply failedStart_wf
    · constructor
      · intro _ f hf; cases f <;> first | rfl | exact absurd hf (by decide)
      · intro h; exact absurd h (by decide)
    · decide

end Xmp.StartFail

