import XmpProofs.Container
import XmpProofs.Lzw
import XmpProofs.ArcFrame
import XmpProofs.PowerPacker
import XmpProofs.ZipFrame
import XmpProofs.LhaFrame
import XmpProofs.ArcfsFrame
import XmpProofs.LzxFrame
import XmpProofs.MmcmpFrame
import XmpProofs.Squeeze
import XmpProofs.LhNew
/-!
# C08 — Built-in unpacking is transparent and byte-exact

Property theorems over `XmpModel.Container` / `XmpModel.Md5` (models of src/depackers/depacker.c,
gunzip.c, arc.c + arc_unpack.c (RLE90), unzip.c/unlha.c/arcfs.c member walks, src/md5.c, set_md5sum).
Entropy decoders (inflate, bzip2, LZMA2, LH*, LZX, LZW, …) are *parameters* `dec`; their correctness
(`dec (enc p) = some p`) is a hypothesis exercised by the oracle against independent encoders.

Full-strength statement (kept as the goal):

    ∀ fmt opts p others,  dec_fmt (enc_fmt p) = some p →
      loadByPath (wrap fmt opts p others) = some (loadFromMemory p)   -- same module, same md5 = MD5 p

What is proved below: the MD5 layer completely; the gzip framing for every legal header option
combination; member selection for every placement of excluded/directory/unsupported companions;
RLE90 for every token stream and for the concrete encoder; the compress(1) LZW codec completely (decoder model of
uncompress.c + encoder + round trip); ARC/Spark byte-level framing (header walk, member selection, stored + RLE90,
CRC-16 gate); dispatch and the whole pipeline for gzip (`C08_pipeline_gzip`, inflate is the only hypothesis),
compress (`C08_pipeline_compress`, no hypothesis on a decoder) and ARC/Spark stored + RLE90 (`C08_pipeline_arc`).
Missing: byte-level framing proofs for LHA/ArcFS/LZX/MMCMP/xz/bzip2 containers (member walks are modelled and
tied by correspondence only, the stream compressors are opaque `Env.other`).
-/
namespace Xmp.Container
open Xmp Xmp.Gen.Depackers Xmp.Md5

/-! ## MD5 (`md5.c`, `set_md5sum`) -/

/-- **chunk independence of `MD5Update`**: two updates = one update with the concatenation
    (any context reachable from `MD5Init`, i.e. fewer than 64 buffered bytes). -/
theorem C08_md5_chunking (s : Ctx) (a b : Bytes) (hs : s.buf.length < 64) :
    update (update s a) b = update s (a ++ b) := update_update s a b hs

/-- any chunking of a stream gives the same context as a single `MD5Update` -/
theorem C08_md5_chunking_list (chunks : List Bytes) :
    chunks.foldl update init = update init chunks.flatten :=
  foldl_update chunks init (by simp [init])

/-- the `hio_read(buf, 1, BUFLEN, f)` loop of `set_md5sum` computes the MD5 of the whole stream, for
    every positive buffer size — in particular the generated `BUFLEN` -/
theorem C08_md5_read_loop (n : Nat) (hn : 0 < n) (m : Bytes) : md5sumLoop n m = md5 m := by
  unfold md5sumLoop md5
  rw [C08_md5_chunking_list, chunksOf_flatten n hn m]

/-- the buffered implementation (`MD5Update` + `MD5Pad` + `MD5Final`) equals the RFC 1321 style
    definition: pad the whole message with 0x80, zeros and the 64-bit bit count, fold the compression
    function over its 64-byte blocks -/
theorem C08_md5_spec (m : Bytes) : md5 m = spec m := md5_eq_spec m

theorem C08_md5_bufLen_pos : 0 < md5ReadChunk := by decide

/-- the buffer length invariant that C recomputes from `count` (`have = (count >> 3) & 63`) -/
theorem C08_md5_wf (chunks : List Bytes) : WF (chunks.foldl update init) := by
  suffices h : ∀ s, WF s → WF (chunks.foldl update s) from h init init_wf
  induction chunks with
  | nil => intro s hs; exact hs
  | cons c cs ih => intro s hs; exact ih _ (update_wf s c hs)

example : update (update init [1, 2, 3]) [4, 5] = update init [1, 2, 3, 4, 5] :=
  C08_md5_chunking init [1, 2, 3] [4, 5] (by decide)

/-! ## gzip (`decrunch_gzip`) -/

/-- **framing**: for every legal combination of FTEXT/FHCRC/FEXTRA/FNAME/FCOMMENT, reserved bits,
    mtime/xfl/os values, the parser hands *exactly* the deflate stream to the decoder — whatever the
    decoder is — and accepts its output iff CRC-32 and ISIZE agree with the trailer. -/
theorem C08_gzip_framing (crc : Bytes → UInt32) (dec : Bytes → Option Bytes) (o : GzOpts) (cdata p : Bytes)
    (ho : o.Legal) (hp : p.length < 2^31) :
    gunzip crc dec (gzipWrap crc o cdata p) =
      (match dec cdata with
       | none => none
       | some out => if crc out = crc p ∧ out.length = p.length then some out else none) :=
  gunzip_wrap crc dec o cdata p ho hp

/-- the slice handed to the decoder is (header length, length of the deflate stream) -/
theorem C08_gzip_stream (crc : Bytes → UInt32) (o : GzOpts) (cdata p : Bytes) (ho : o.Legal) :
    gzipStream (gzipWrap crc o cdata p) = some ((gzipHeader o).length, cdata.length) :=
  gzipStream_wrap crc o cdata p ho

/-- hence: a correct inflate gives back the payload -/
theorem C08_gzip_roundtrip (crc : Bytes → UInt32) (dec : Bytes → Option Bytes) (o : GzOpts) (cdata p : Bytes)
    (ho : o.Legal) (hp : p.length < 2^31) (hdec : dec cdata = some p) :
    gunzip crc dec (gzipWrap crc o cdata p) = some p := by
  rw [C08_gzip_framing crc dec o cdata p ho hp, hdec]; simp

/-- non-trivial instance: all optional fields present -/
def exOpts : GzOpts :=
  { ftext := true, reserved := 5, mtime := 0x12345678, xfl := 2, os := 255, extra := some [1, 2, 3],
    name := some [0x61, 0x2e, 0x78, 0x6d], comment := some [0x68, 0x69], hcrc := some (0xaa, 0xbb) }

theorem exOpts_legal : exOpts.Legal := by
  refine ⟨?_, ?_, ?_⟩
  · intro e he; have : e = [1, 2, 3] := by simpa [exOpts] using he.symm
    subst this; decide
  · intro n hn; have : n = [0x61, 0x2e, 0x78, 0x6d] := by simpa [exOpts] using hn.symm
    subst this; intro x hx; simp at hx; rcases hx with h | h | h | h <;> subst h <;> decide
  · intro c hc; have : c = [0x68, 0x69] := by simpa [exOpts] using hc.symm
    subst this; intro x hx; simp at hx; rcases hx with h | h <;> subst h <;> decide

example : gunzip crc32 (fun c => if c = [9, 9] then some [7, 7, 7] else none)
    (gzipWrap crc32 exOpts [9, 9] [7, 7, 7]) = some [7, 7, 7] :=
  C08_gzip_roundtrip _ _ exOpts [9, 9] [7, 7, 7] exOpts_legal (by decide) (by simp)

/-! ## member selection (zip / LHA / ArcFS walks) -/

/-- **the first non-excluded regular member is chosen**, whatever excluded names, directories or
    unsupported entries come before it, and whatever comes after it -/
theorem C08_member_selection (pre post : List Member) (m : Member)
    (hpre : ∀ x ∈ pre, Skipped x) (hm : ¬ Skipped m) :
    selectMember (pre ++ m :: post) = some m := selectMember_skip pre post m hpre hm

/-- and its extraction succeeds given a correct decoder and matching size/check fields -/
theorem C08_member_unpack (crc : Bytes → Nat) (dec : Nat → Bytes → Option Bytes) (pre post : List Member)
    (m : Member) (p : Bytes) (hpre : ∀ x ∈ pre, Skipped x) (hm : ¬ Skipped m)
    (hdec : (if m.method = 0 then some m.cdata else dec m.method m.cdata) = some p)
    (hsz : m.usize = p.length) (hck : m.check = crc p) :
    unpackMembers crc dec (pre ++ m :: post) = some p := by
  unfold unpackMembers
  rw [C08_member_selection pre post m hpre hm]
  simp only [extractMember]
  rw [hdec]; simp [hsz, hck]

/-- **exclusion works on full member paths**: zip and LZX hand the whole member path to `libxmp_exclude_match`, and
    `fnmatch(…, 0)` lets `*` run across '/'.  A name accepted by one of the generated `*…` patterns stays excluded
    behind every directory prefix (patterns without `*`, e.g. `README`, match the whole path only). -/
theorem C08_exclude_path_prefix (pre name : Bytes)
    (h : ∃ g ∈ excludeGlobs, g.head? = some cStar ∧ globFn g name = true) : excludeMatch (pre ++ name) = true := by
  obtain ⟨g, hg, hs, hm⟩ := h
  unfold excludeMatch
  rw [List.any_eq_true]
  refine ⟨g, hg, ?_⟩
  cases g with
  | nil => simp at hs
  | cons c r =>
    simp only [List.head?_cons, Option.some.injEq] at hs
    subst hs
    exact globFn_star_prefix r pre name hm

/-- `docs/info.txt`, `a/b/FILE_ID.DIZ`: excluded through the theorem; `docs/README` is not (no `*` in that pattern) -/
example : excludeMatch ([0x64, 0x6f, 0x63, 0x73, 0x2f] ++ [0x69, 0x6e, 0x66, 0x6f, 0x2e, 0x74, 0x78, 0x74]) = true :=
  C08_exclude_path_prefix _ _ ⟨[42, 46, 116, 120, 116], by decide, by decide, by decide⟩
example : excludeMatch [0x64, 0x6f, 0x63, 0x73, 0x2f, 0x52, 0x45, 0x41, 0x44, 0x4d, 0x45] = false := by decide

/-- "README", "file_id.diz" and "x.txt" are excluded by the generated globs, "test.xm" is not -/
example : excludeMatch [0x52, 0x45, 0x41, 0x44, 0x4d, 0x45] = true := by decide
example : excludeMatch [0x66, 0x69, 0x6c, 0x65, 0x5f, 0x69, 0x64, 0x2e, 0x64, 0x69, 0x7a] = true := by decide
example : excludeMatch [0x74, 0x65, 0x73, 0x74, 0x2e, 0x78, 0x6d] = false := by decide

example : selectMember
    [{ name := [0x52, 0x45, 0x41, 0x44, 0x4d, 0x45] }, { name := [0x64, 0x2f], isDir := true },
     { name := [0x74, 0x65, 0x73, 0x74, 0x2e, 0x78, 0x6d], cdata := [1] },
     { name := [0x78, 0x2e, 0x74, 0x78, 0x74] }] =
    some { name := [0x74, 0x65, 0x73, 0x74, 0x2e, 0x78, 0x6d], cdata := [1] } := by decide

/-! ## fully modelled codec: RLE90 (`arc_unrle90_block`) -/

/-- **decode ∘ render = meaning** for every well-formed token stream, i.e. for every encoder -/
theorem C08_rle90_roundtrip (ts : List Tok) (hok : ∀ t ∈ ts, t.Ok) :
    unrle90 (expand ts).length (render ts) = some (expand ts) := unrle90_render ts hok

example : unrle90 7 [0x41, 0x90, 5, 0x90, 0, 0x42] = some [0x41, 0x41, 0x41, 0x41, 0x41, 0x90, 0x42] := by decide

/-! ## dispatch and pipeline -/

/-- the sniffing limits are consistent: the minimum size fits the sniff buffer and is not larger than the
    smallest gzip member (20 bytes + 2 of deflate) — re-checked against the generated constants -/
theorem C08_sniff_limits : minHeaderSize ≤ sniffSize ∧ minHeaderSize ≤ 22 := by decide

theorem C08_dispatch_gzip (crc : Bytes → UInt32) (o : GzOpts) (cdata p : Bytes)
    (hlen : minHeaderSize ≤ (gzipWrap crc o cdata p).length) :
    dispatch (gzipWrap crc o cdata p) = some "gzip" := dispatch_gzip crc o cdata p hlen

/-- **the dispatch order matters for LHA only**: the signature tests of all other depackers (over the
    generated `depacker_list`) are pairwise exclusive on every buffer -/
theorem C08_tests_exclusive (e1 e2 : String × String × Magic) (h1 : e1 ∈ depackerList) (h2 : e2 ∈ depackerList)
    (n1 : e1.1 ≠ "lha") (n2 : e2.1 ≠ "lha") (hne : e1.1 ≠ e2.1) (b : Bytes)
    (ht : evalMagic e1.2.2 b = true) : evalMagic e2.2.2 b = false := by
  have m1 : e1 ∈ nonLha := by simp [nonLha, h1, n1]
  have m2 : e2 ∈ nonLha := by simp [nonLha, h2, n2]
  exact conflict_excl _ _ b (tests_pairwise_exclusive e1 m1 e2 m2 hne) ht

/-- hence: a file of at least the minimum size whose sniff buffer passes the test of depacker `e` (not LHA)
    and fails LHA's test is dispatched to `e`, wherever `e` stands in `depacker_list` -/
theorem C08_dispatch_of_test (e : String × String × Magic) (he : e ∈ depackerList) (hn : e.1 ≠ "lha")
    (file : Bytes) (hlen : minHeaderSize ≤ (sniff file).length)
    (ht : evalMagic e.2.2 (sniff file) = true)
    (hl : ∀ x ∈ depackerList, x.1 = "lha" → evalMagic x.2.2 (sniff file) = false) :
    dispatch file = some e.1 := by
  unfold dispatch
  have hs : ¬ (sniff file).length < minHeaderSize := by omega
  simp only [hs, if_false]
  rw [find?_unique (fun x => evalMagic x.2.2 (sniff file)) depackerList e he ht]
  · rfl
  · intro x hx hpx
    by_cases hxl : x.1 = "lha"
    · rw [hl x hx hxl] at hpx; exact absurd hpx (by simp)
    · by_cases hxe : x.1 = e.1
      · exact names_unique x hx e he hxe
      · have := C08_tests_exclusive x e hx he hxl hn hxe (sniff file) hpx
        rw [ht] at this; exact absurd this (by simp)

/-- generic part of the pipeline: whenever the modelled `libxmp_decrunch` yields the payload, loading by
    path is loading the payload from memory, and the reported digest is `MD5 p` -/
theorem C08_pipeline_of_decrunch {β : Type} (env : Env) (loader : Bytes → β) (file p : Bytes)
    (h : decrunch env file = some p) :
    loadByPath env loader file = some (loadFromMemory loader p) ∧
    (loadByPath env loader file).map (·.2) = some (md5 p) := by
  unfold loadByPath loadFromMemory
  rw [h]
  simp [C08_md5_read_loop _ C08_md5_bufLen_pos]

/-- **pipeline, gzip (complete for this container's framing)**: any legal header options, any payload,
    given a correct inflate (the entropy decoder is the only hypothesis). -/
theorem C08_pipeline_gzip {β : Type} (env : Env) (loader : Bytes → β) (o : GzOpts) (cdata p : Bytes)
    (ho : o.Legal) (hp : p.length < 2^31) (hne : p ≠ [])
    (hlen : minHeaderSize ≤ (gzipWrap env.crc32 o cdata p).length)
    (hdec : env.inflate cdata = some p) :
    loadByPath env loader (gzipWrap env.crc32 o cdata p) = some (loadFromMemory loader p) ∧
    (loadByPath env loader (gzipWrap env.crc32 o cdata p)).map (·.2) = some (md5 p) := by
  apply C08_pipeline_of_decrunch
  unfold decrunch
  rw [C08_dispatch_gzip env.crc32 o cdata p hlen]
  simp only []
  rw [C08_gzip_roundtrip env.crc32 env.inflate o cdata p ho hp hdec]
  have : p.length ≠ 0 := fun h => hne (List.eq_nil_of_length_eq_zero h)
  simp [reopenMem, this]

/-- old name of `C08_pipeline_gzip` (kept for references) -/
theorem C08_pipeline_partial {β : Type} (env : Env) (loader : Bytes → β) (o : GzOpts) (cdata p : Bytes)
    (ho : o.Legal) (hp : p.length < 2^31) (hne : p ≠ [])
    (hlen : minHeaderSize ≤ (gzipWrap env.crc32 o cdata p).length)
    (hdec : env.inflate cdata = some p) :
    loadByPath env loader (gzipWrap env.crc32 o cdata p) = some (loadFromMemory loader p) ∧
    (loadByPath env loader (gzipWrap env.crc32 o cdata p)).map (·.2) = some (md5 p) :=
  C08_pipeline_gzip env loader o cdata p ho hp hne hlen hdec

/-- a file that no signature test accepts is handed to the loader unchanged -/
theorem C08_not_packed {β : Type} (env : Env) (loader : Bytes → β) (file : Bytes) (h : dispatch file = none) :
    loadByPath env loader file = some (loadFromMemory loader file) :=
  (C08_pipeline_of_decrunch env loader file file (by unfold decrunch; rw [h])).1


/-! ## fully modelled codec: compress(1) LZW (`uncompress.c`, `XmpModel.Lzw`) -/

/-- the `input()` macro of uncompress.c extracts bits `o .. o+n-1` (LSB first) of the byte stream for every
    code width that fits its 24-bit window -/
theorem C08_lzw_input_macro (l : Bytes) (o n : Nat) (hn : o % 8 + n ≤ 24) :
    Lzw.readCode l.toArray o n = Lzw.streamNat l / 2 ^ o % 2 ^ n := Lzw.readCode_spec l o n hn

/-- the C alignment expression rounds the bit position up to a multiple of `n_bits * 8` -/
theorem C08_lzw_align (rel m : Nat) (hm : 0 < m) : Lzw.alignUp rel m = (rel + m - 1) / m * m :=
  Lzw.alignUp_eq rel m hm

/-- **decode ∘ encode = id** for the LZW of compress(1): every payload, `maxbits` 10..16, block mode on/off,
    every CLEAR policy, every bound on the phrase length (from literal-only to greedy).  The decoder is the
    model of `decrunch_compress` (code-width switching with the group alignment quirk, CLEAR, KwKwK, the
    junk entry after CLEAR); the encoder mirrors the decoder's width state. (`maxbits = 9`: the decoder lineage
    switches to 10 bits when the 9-bit table is full, which compress(1) does not — outside this theorem.) -/
theorem C08_lzw_roundtrip (maxbits : Nat) (h10 : 10 ≤ maxbits) (h16 : maxbits ≤ 16) (bm : Bool) (clr : Nat → Bool)
    (maxLen : Nat) (p : Bytes) : Lzw.unlzw (Lzw.lzwEncode maxbits bm clr maxLen p) = some p :=
  Lzw.unlzw_lzwEncode maxbits h10 h16 bm clr maxLen p

example : Lzw.unlzw (Lzw.lzwEncode 12 true (fun i => i % 5 == 0) 3 [65, 65, 65, 65, 66, 65, 65, 65, 65, 66, 65]) =
    some [65, 65, 65, 65, 66, 65, 65, 65, 65, 66, 65] := C08_lzw_roundtrip 12 (by decide) (by decide) _ _ _ _

theorem compress_mem : ("compress", "uncompress.c", Magic.and (.byteEq 0 31) (.byteEq 1 157)) ∈ depackerList := by
  simp [depackerList]

theorem lha_test_byte2 (b : Bytes) (h : bAt b 2 ≠ 45) :
    ∀ x ∈ depackerList, x.1 = "lha" → evalMagic x.2.2 b = false := by
  intro x hx hl
  simp only [depackerList, List.mem_cons, List.not_mem_nil, or_false] at hx
  rcases hx with h' | h' | h' | h' | h' | h' | h' | h' | h' | h' | h' | h' | h' <;> subst h' <;>
    first
    | (exfalso; revert hl; decide)
    | (simp only [evalMagic, Bool.and_eq_false_iff, beq_eq_false_iff_ne, ne_eq]; left; left; left; left; exact h)

/-- **pipeline, compress(1) (complete: framing and codec are both proved)** -/
theorem C08_pipeline_compress {β : Type} (env : Env) (loader : Bytes → β) (maxbits : Nat) (h10 : 10 ≤ maxbits)
    (h16 : maxbits ≤ 16) (bm : Bool) (clr : Nat → Bool) (maxLen : Nat) (p : Bytes) (hne : p ≠ [])
    (hlen : minHeaderSize ≤ (Lzw.lzwEncode maxbits bm clr maxLen p).length) :
    loadByPath env loader (Lzw.lzwEncode maxbits bm clr maxLen p) = some (loadFromMemory loader p) ∧
    (loadByPath env loader (Lzw.lzwEncode maxbits bm clr maxLen p)).map (·.2) = some (md5 p) := by
  apply C08_pipeline_of_decrunch
  have hs : minHeaderSize ≤ (sniff (Lzw.lzwEncode maxbits bm clr maxLen p)).length := by
    have hm : minHeaderSize ≤ sniffSize := by decide
    unfold sniff; simp only [List.length_take]; omega
  have hb : ∀ i, i < 3 → bAt (sniff (Lzw.lzwEncode maxbits bm clr maxLen p)) i =
      bAt (Lzw.lzwEncode maxbits bm clr maxLen p) i := fun i hi => bAt_sniff _ i (by simp [sniffSize]; omega)
  have h0 : bAt (sniff (Lzw.lzwEncode maxbits bm clr maxLen p)) 0 = 31 := by rw [hb 0 (by decide)]; rfl
  have h1 : bAt (sniff (Lzw.lzwEncode maxbits bm clr maxLen p)) 1 = 157 := by rw [hb 1 (by decide)]; rfl
  have h2 : bAt (sniff (Lzw.lzwEncode maxbits bm clr maxLen p)) 2 ≠ 45 := by
    rw [hb 2 (by decide)]
    simp only [Lzw.lzwEncode, bAt, List.cons_append, List.getD_cons_succ, List.getD_cons_zero, UInt8.toNat_ofNat']
    split <;> omega
  have hd := C08_dispatch_of_test _ compress_mem (by decide) (Lzw.lzwEncode maxbits bm clr maxLen p) hs
    (by simp [evalMagic, h0, h1]) (lha_test_byte2 _ h2)
  unfold decrunch
  rw [hd]
  simp only []
  rw [C08_lzw_roundtrip maxbits h10 h16 bm clr maxLen p]
  have : p.length ≠ 0 := fun h => hne (List.eq_nil_of_length_eq_zero h)
  simp [reopenMem, this]

/-! ## fully modelled codec: PowerPacker PP20 (`ppdepack.c`, `XmpModel.PowerPacker`) -/

/-- **`PP_READ_BITS`**: the byte-wise refilled `bit_buffer` delivers the pending bits of the reversed packed area
    in order, assembled most significant bit first — for every width and every buffer state -/
theorem C08_pp_read_bits (n : Nat) (br : PowerPacker.BR) (bs rest : List Bool) (hinv : br.buf < 2 ^ br.left)
    (hp : PowerPacker.pending br = bs ++ rest) (hn : bs.length = n) :
    ∃ br', PowerPacker.readBits n br = some (PowerPacker.msbVal bs, br') ∧ PowerPacker.pending br' = rest ∧
      br'.buf < 2 ^ br'.left := PowerPacker.readBits_spec n br bs rest hinv hp hn

/-- **decode ∘ encode = id** for PP20 files made of one literal run (the simplest legal encoder): every
    non-empty payload below 16 MiB, every legal efficiency table.  Covers `decrunch_pp`'s header checks, the
    trailer (24-bit length, skip bits), the backwards bit reader, the run-length code and the end-of-output test;
    see `C08_pp_tokens` for arbitrary token streams with matches. -/
theorem C08_pp_roundtrip (eff p : Bytes) (he : PowerPacker.LegalEff eff) (hne : p ≠ []) (hlen : p.length < 2 ^ 24) :
    PowerPacker.decrunchPP (PowerPacker.ppEncode eff p) = some p :=
  PowerPacker.decrunchPP_ppEncode eff p he hne hlen

example : PowerPacker.decrunchPP (PowerPacker.ppEncode [9, 10, 12, 13] [1, 2, 3, 4, 5]) = some [1, 2, 3, 4, 5] :=
  C08_pp_roundtrip _ _ ⟨rfl, by decide⟩ (by decide) (by decide)

/-- **decode ∘ render = meaning for every PowerPacker token stream** (literal runs and matches of every length
    class, 7-bit and table-width offsets, overlapping copies), i.e. for every encoder: the match branch of
    `ppDecrunch`, the 3-bit length extension and the output-window test are covered. -/
theorem C08_pp_tokens (eff : Bytes) (items : List PowerPacker.PPItem) (he : PowerPacker.LegalEff eff) (hne : items ≠ [])
    (hok : PowerPacker.ItemsOk eff (PowerPacker.ppExpand items).length 0 items)
    (hlen : (PowerPacker.ppExpand items).length < 2 ^ 24) :
    PowerPacker.decrunchPP (PowerPacker.ppRender eff items) = some (PowerPacker.ppExpand items) :=
  PowerPacker.decrunchPP_ppRender eff items he hne hok hlen

/-- non-trivial instance: literals, a short match, a long overlapping match with a 7-bit offset, a final literal -/
def exPPItems : List PowerPacker.PPItem :=
  [{ lits := [3, 2, 1], mlen := 2, moff := 0 }, { lits := [], mlen := 7, moff := 1, short := true }, { lits := [9] }]

example : PowerPacker.decrunchPP (PowerPacker.ppRender [9, 10, 12, 13] exPPItems) =
    some [9, 1, 1, 1, 1, 1, 1, 1, 1, 1, 1, 2, 3] := by
  have h := C08_pp_tokens [9, 10, 12, 13] exPPItems ⟨rfl, by decide⟩ (by decide)
    (by
      have e : (PowerPacker.ppExpand exPPItems).length = 13 := by decide
      rw [e]
      simp [PowerPacker.ItemsOk, PowerPacker.ItemOk, exPPItems, PowerPacker.offBits])
    (by decide)
  have e : PowerPacker.ppExpand exPPItems = [9, 1, 1, 1, 1, 1, 1, 1, 1, 1, 1, 2, 3] := by decide
  rw [e] at h; exact h

theorem pp_mem : ("pp", "ppdepack.c", Magic.memEq 0 [80, 80, 50, 48]) ∈ depackerList := by simp [depackerList]

/-- dispatch + `hio_reopen_mem` for any PP20 file laid out by `ppPack` whose decoding is known -/
theorem pipeline_ppPack {β : Type} (env : Env) (loader : Bytes → β) (eff : Bytes) (bits : List Bool) (n : Nat) (p : Bytes)
    (hne : p ≠ []) (hsz : minHeaderSize ≤ (PowerPacker.ppPack eff bits n).length)
    (hdec : PowerPacker.decrunchPP (PowerPacker.ppPack eff bits n) = some p) :
    loadByPath env loader (PowerPacker.ppPack eff bits n) = some (loadFromMemory loader p) ∧
    (loadByPath env loader (PowerPacker.ppPack eff bits n)).map (·.2) = some (md5 p) := by
  apply C08_pipeline_of_decrunch
  have hs : minHeaderSize ≤ (sniff (PowerPacker.ppPack eff bits n)).length := by
    have hm : minHeaderSize ≤ sniffSize := by decide
    unfold sniff; simp only [List.length_take]; omega
  have hb : ∀ i, i < 4 → bAt (sniff (PowerPacker.ppPack eff bits n)) i = bAt (PowerPacker.ppPack eff bits n) i :=
    fun i hi => bAt_sniff _ i (by simp [sniffSize]; omega)
  have h0 : bAt (sniff (PowerPacker.ppPack eff bits n)) 0 = 80 := by rw [hb 0 (by decide)]; rfl
  have h1 : bAt (sniff (PowerPacker.ppPack eff bits n)) 1 = 80 := by rw [hb 1 (by decide)]; rfl
  have h2 : bAt (sniff (PowerPacker.ppPack eff bits n)) 2 = 50 := by rw [hb 2 (by decide)]; rfl
  have h3 : bAt (sniff (PowerPacker.ppPack eff bits n)) 3 = 48 := by rw [hb 3 (by decide)]; rfl
  have hd := C08_dispatch_of_test _ pp_mem (by decide) (PowerPacker.ppPack eff bits n) hs
    (by simp [evalMagic, memEqAt, h0, h1, h2, h3]) (lha_test_byte2 _ (by rw [h2]; decide))
  unfold decrunch
  rw [hd]
  simp only []
  rw [hdec]
  have : p.length ≠ 0 := fun h => hne (List.eq_nil_of_length_eq_zero h)
  simp [reopenMem, this]

/-- **pipeline, PowerPacker literal-run files (complete: framing and codec proved)** -/
theorem C08_pipeline_pp {β : Type} (env : Env) (loader : Bytes → β) (eff p : Bytes) (he : PowerPacker.LegalEff eff)
    (hne : p ≠ []) (hlen : p.length < 2 ^ 24)
    (hsz : minHeaderSize ≤ (PowerPacker.ppEncode eff p).length) :
    loadByPath env loader (PowerPacker.ppEncode eff p) = some (loadFromMemory loader p) ∧
    (loadByPath env loader (PowerPacker.ppEncode eff p)).map (·.2) = some (md5 p) :=
  pipeline_ppPack env loader eff _ _ p hne hsz (C08_pp_roundtrip eff p he hne hlen)

/-- **pipeline, PowerPacker, any token stream (literal runs + matches): complete, no decoder hypothesis** -/
theorem C08_pipeline_pp_tokens {β : Type} (env : Env) (loader : Bytes → β) (eff : Bytes)
    (items : List PowerPacker.PPItem) (he : PowerPacker.LegalEff eff) (hne : items ≠ [])
    (hok : PowerPacker.ItemsOk eff (PowerPacker.ppExpand items).length 0 items)
    (hlen : (PowerPacker.ppExpand items).length < 2 ^ 24)
    (hsz : minHeaderSize ≤ (PowerPacker.ppRender eff items).length) :
    loadByPath env loader (PowerPacker.ppRender eff items) = some (loadFromMemory loader (PowerPacker.ppExpand items)) ∧
    (loadByPath env loader (PowerPacker.ppRender eff items)).map (·.2) = some (md5 (PowerPacker.ppExpand items)) := by
  have hpos : PowerPacker.ppExpand items ≠ [] := by
    have h1 := PowerPacker.itemsOk_length eff _ items 0 hok
    have h2 : 0 < items.length := List.length_pos_iff.mpr hne
    intro h; rw [h] at h1; simp only [List.length_nil, Nat.zero_add] at h1; omega
  exact pipeline_ppPack env loader eff _ _ _ hpos hsz (C08_pp_tokens eff items he hne hok hlen)

/-! ## ARC / Spark: RLE90 encoder, byte-level framing, pipeline -/

/-- the concrete RLE90 encoder emits well-formed tokens that mean the payload, so the decoder inverts it -/
theorem C08_rle90_encoder (p : Bytes) :
    (∀ t ∈ rle90Enc p, t.Ok) ∧ expand (rle90Enc p) = p ∧ unrle90 p.length (render (rle90Enc p)) = some p :=
  ⟨rle90Enc_ok p, rle90Enc_expand p, unrle90_rle90Enc p⟩

/-- **ARC / Spark framing** (`arc_read` on bytes): header walk over any number of excluded members, member
    selection, stored (1, 2) and RLE90 (3) methods with plain or Spark headers, CRC-16 gate: the data of the first
    non-excluded member comes back, for every check function `crc` and whatever follows the member. -/
theorem C08_arc_framing (crc : Bytes → UInt16) (dec : Nat → Bytes → Nat → Option Bytes) (pre post : List ArcMember)
    (m : ArcMember) (spark : Bool)
    (hpre : ∀ x ∈ pre, x.Legal ∧ excludeMatch x.name = true)
    (hm : m.Legal) (hx : excludeMatch m.name = false) (hlim : m.data.length ≤ depackLimit) :
    arcRead crc dec (arcWrap crc (pre ++ m :: post) spark) = some m.data :=
  arcRead_wrap crc dec pre post m spark hpre hm hx hlim

/-- **ARC / Spark sub-directories** (nested archives): `arc_read` keeps a directory level; excluded files,
    directory headers (Spark file type 0xDDC or ARC 6 type 30) and closing markers in front of a member — the
    member inside an open directory, or after any number of closed ones, depth unbounded — do not stop the walk -/
theorem C08_arc_framing_dirs (crc : Bytes → UInt16) (dec : Nat → Bytes → Nat → Option Bytes) (pre : List ArcItem)
    (post : Bytes) (m : ArcMember) (level' : Nat)
    (hpre : ∀ x ∈ pre, x.Ok crc) (hlev : arcLevel 0 pre = some level')
    (hm : m.Legal) (hx : excludeMatch m.name = false) (hlim : m.data.length ≤ depackLimit) :
    arcRead crc dec (arcItemsBytes crc pre ++ (arcEntryBytes crc m ++ post)) = some m.data :=
  arcRead_items crc dec pre post m level' hpre hlev hm hx hlim

theorem arc_mem : ("arc", "arc.c", Magic.arcTest) ∈ depackerList := by simp [depackerList]

/-- **pipeline, ARC/Spark stored + RLE90 (complete: header walk, member selection, RLE90 codec, CRC gate)**.
    `m0` is the first member of the archive (its name is what the signature tests see). -/
theorem C08_pipeline_arc {β : Type} (env : Env) (loader : Bytes → β) (pre post : List ArcMember)
    (m m0 : ArcMember) (rest : List ArcMember) (spark : Bool)
    (hpre : ∀ x ∈ pre, x.Legal ∧ excludeMatch x.name = true)
    (hm : m.Legal) (hx : excludeMatch m.name = false) (hlim : m.data.length ≤ depackLimit) (hne : m.data ≠ [])
    (h0 : pre ++ m :: post = m0 :: rest) (hm0 : m0.Legal) (hp0 : printable m0.name)
    (hdash : m0.name.getD 0 0 ≠ 0x2d) :
    loadByPath env loader (arcWrap env.crc16 (pre ++ m :: post) spark) = some (loadFromMemory loader m.data) ∧
    (loadByPath env loader (arcWrap env.crc16 (pre ++ m :: post) spark)).map (·.2) = some (md5 m.data) := by
  apply C08_pipeline_of_decrunch
  have hd := C08_dispatch_of_test _ arc_mem (by decide) (arcWrap env.crc16 (m0 :: rest) spark)
    (arcWrap_length env.crc16 m0 rest spark hm0)
    (by simpa [evalMagic] using arcTest_wrap env.crc16 m0 rest spark hm0 hp0)
    (lha_test_byte2 _ (arc_byte2 env.crc16 m0 rest spark hdash))
  unfold decrunch
  rw [h0, hd]
  simp only []
  rw [← h0, C08_arc_framing env.crc16 env.arcDec pre post m spark hpre hm hx hlim]
  have : m.data.length ≠ 0 := fun h => hne (List.eq_nil_of_length_eq_zero h)
  simp [reopenMem, this]

/-- non-trivial instance: an excluded stored `README` first, then an RLE90-packed Spark member -/
def exReadme : ArcMember := { name := [0x52, 0x45, 0x41, 0x44, 0x4d, 0x45], method := 130, data := [1, 2, 3] }
def exMod : ArcMember :=
  { name := [0x41, 0x2e, 0x58, 0x4d], method := 131, data := [7, 7, 7, 7, 0x90, 8],
    toks := [.lit 7, .rep 4, .lit90, .lit 8] }

theorem exReadme_legal : exReadme.Legal :=
  ⟨by decide, by unfold noNul exReadme; decide, by decide, by decide, by decide, by decide, by decide, by decide,
   by decide, fun h => absurd h (by decide), by decide⟩
theorem exMod_legal : exMod.Legal :=
  ⟨by decide, by unfold noNul exMod; decide, by decide, by decide, by decide, by decide, by decide, by decide,
   by decide,
   fun _ => ⟨by intro t ht; simp [exMod] at ht; rcases ht with h | h | h | h <;> subst h <;> simp [Tok.Ok],
     by decide⟩,
   by decide⟩

example : arcRead crc16 (fun _ _ _ => none) (arcWrap crc16 ([exReadme] ++ exMod :: [exReadme]) true) =
    some [7, 7, 7, 7, 0x90, 8] :=
  C08_arc_framing crc16 _ [exReadme] [exReadme] exMod true
    (by intro x hx; simp at hx; subst hx; exact ⟨exReadme_legal, by decide⟩) exMod_legal (by decide) (by decide)

/-- non-trivial instance: Spark directory `Docs` holding an excluded `README`, closed by `1a 80`, then the module
    in the parent directory (the shape of seeded defect m7) -/
def exSparkDir : ArcMember :=
  { name := [0x44, 0x6f, 0x63, 0x73], method := 130, data := [], attrs := [0x42, 0xdc, 0xfd, 0xff, 0, 0, 0, 0, 3, 0, 0, 0] }

example : arcRead crc16 (fun _ _ _ => none)
    (arcItemsBytes crc16 [.dopen exSparkDir 40 7, .file exReadme, .dclose 0x80] ++ (arcEntryBytes crc16 exMod ++ [0x1a, 0x80])) =
    some [7, 7, 7, 7, 0x90, 8] :=
  C08_arc_framing_dirs crc16 _ _ _ exMod 0
    (by
      intro x hx
      rcases List.mem_cons.mp hx with h | hx
      · subst h
        exact ⟨⟨by decide, by unfold noNul exSparkDir; decide, by decide, by decide, by decide, by decide, by decide,
          by decide⟩, Or.inr ⟨rfl, by decide⟩⟩
      rcases List.mem_cons.mp hx with h | hx
      · subst h; exact ⟨exReadme_legal, by decide⟩
      rcases List.mem_cons.mp hx with h | hx
      · subst h; exact Or.inl (by decide)
      · simp at hx)
    (by decide) exMod_legal (by decide) (by decide)

/-- the same with the concrete encoder for method 3 -/
theorem C08_pipeline_arc_rle90 {β : Type} (env : Env) (loader : Bytes → β) (name : Bytes) (p : Bytes) (spark : Bool)
    (hl : name.length ≤ 12) (hn : noNul name) (hpn : printable name) (hdash : name.getD 0 0 ≠ 0x2d)
    (hx : excludeMatch name = false) (hne : p ≠ []) (hlim : p.length ≤ depackLimit)
    (hc : (render (rle90Enc p)).length < 2 ^ 32) :
    loadByPath env loader (arcWrap env.crc16
      [{ name := name, method := if spark then 131 else 3, data := p, toks := rle90Enc p }] spark) =
      some (loadFromMemory loader p) := by
  have hlim' : p.length < 2 ^ 32 := by unfold depackLimit at hlim; omega
  have hmeth : (if spark then 131 else 3 : Nat) % 128 = 3 := by cases spark <;> rfl
  have hm : ({ name := name, method := if spark then 131 else 3, data := p, toks := rle90Enc p } : ArcMember).Legal := by
    refine ⟨hl, hn, Or.inr (Or.inr hmeth), by cases spark <;> simp, hlim', ?_, by simp, by simp, by simp, ?_, ?_⟩
    · simpa [ArcMember.cdata, arcPacked, hmeth] using hc
    · intro _; exact ⟨rle90Enc_ok p, rle90Enc_expand p⟩
    · intro h; cases spark <;> simp at h
  exact (C08_pipeline_arc env loader [] [] _ _ [] spark (by simp) hm hx hlim hne rfl hm hpn hdash).1


/-! ## zip: byte-level framing (central directory walk, local headers), pipeline -/

/-- **the central-directory walk finds exactly the written members** (names, flags, methods, sizes, CRC, data
    slices), for any lead-in bytes, extra fields and per-file comments -/
theorem C08_zip_members (crc : Bytes → UInt32) (lead : Bytes) (ms : List ZipMember)
    (hl : ∀ m ∈ ms, m.Legal) (hofs : OfsOk crc lead.length ms) (hn : ms.length < 65536)
    (hcd : (lead ++ zipLocals crc ms).length < 2 ^ 32) :
    zipMembers (zipWrap crc lead ms) = some (ms.map (memSpec crc)) :=
  zipMembers_wrap crc lead ms hl hofs hn hcd

/-- **zip framing**: skipped members (directories, unsupported methods/flags, excluded names) in front, then the module:
    stored members unconditionally, deflated members given a correct inflate of that member's stream -/
theorem C08_zip_framing (crc : Bytes → UInt32) (dec : Nat → Bytes → Option Bytes) (lead : Bytes)
    (pre post : List ZipMember) (m : ZipMember)
    (hl : ∀ x ∈ pre ++ m :: post, x.Legal) (hofs : OfsOk crc lead.length (pre ++ m :: post))
    (hn : (pre ++ m :: post).length < 65536) (hcd : (lead ++ zipLocals crc (pre ++ m :: post)).length < 2 ^ 32)
    (hpre : ∀ x ∈ pre, Skipped (memSpec crc x)) (hm : ¬ Skipped (memSpec crc m))
    (hdec : (if m.method = 0 then some m.cdata else dec m.method m.cdata) = some m.data) :
    unzip (fun b => (crc b).toNat) dec (zipWrap crc lead (pre ++ m :: post)) = some m.data :=
  unzip_wrap crc dec lead pre post m hl hofs hn hcd hpre hm hdec

/-- non-trivial instance: an excluded README, a directory entry, then a stored module with an extra field and a
    per-file comment, then another file -/
def exZipPre : List ZipMember := [
  { name := [0x52, 0x45, 0x41, 0x44, 0x4d, 0x45], data := [1, 2, 3], cdata := [1, 2, 3] },
  { name := [0x64, 0x2f], data := [], cdata := [], extAttr := 16 }]
def exZipMod : ZipMember :=
  { name := [0x61, 0x2e, 0x78, 0x6d], data := [9, 8, 7, 6], cdata := [9, 8, 7, 6], extra := [1, 0, 2, 0, 5, 5],
    comment := [65] }
def exZipPost : List ZipMember := [{ name := [0x62], data := [4], cdata := [4] }]

example : unzip (fun b => (crc32 b).toNat) (fun _ _ => none)
    (zipWrap crc32 [80, 75, 48, 48] (exZipPre ++ exZipMod :: exZipPost)) = some [9, 8, 7, 6] := by
  have hl : ∀ x ∈ exZipPre ++ exZipMod :: exZipPost, x.Legal := by
    intro x hx
    simp only [exZipPre, exZipPost, List.cons_append, List.nil_append, List.mem_cons, List.not_mem_nil, or_false] at hx
    rcases hx with h | h | h | h <;> subst h <;>
      exact ⟨by decide, by decide, by decide, by decide, by decide, by decide, by decide, by decide, by decide⟩
  exact C08_zip_framing crc32 _ [80, 75, 48, 48] exZipPre exZipPost exZipMod hl
    (by simp [exZipPre, exZipPost, exZipMod, OfsOk, zipLocal_length])
    (by decide) (by simp [exZipPre, exZipPost, exZipMod, zipLocals, zipLocal_length])
    (by intro x hx
        simp only [exZipPre, List.mem_cons, List.not_mem_nil, or_false] at hx
        rcases hx with h | h <;> subst h <;> unfold Skipped <;> decide)
    (by unfold Skipped; decide) rfl

/-- **the end-of-central-directory search of miniz (4096-byte windows from the end, 3-byte overlap, give-up after
    65535 + 22 bytes; as fixed in /repo 956fc91) finds the last record** that starts within reach — in particular
    behind every legal archive comment -/
theorem C08_zip_eocd_scan (f : Bytes) (e : Nat) (h : LastSig f e) (hfar : f.length - e ≤ 65535 + 22) :
    locateEocd f = some e := locateEocd_spec f e h hfar

/-- **zip framing with an archive comment** (any comment up to 65535 bytes that does not itself contain a
    signature with 22 bytes behind it) -/
theorem C08_zip_framing_comment (crc : Bytes → UInt32) (dec : Nat → Bytes → Option Bytes) (lead : Bytes)
    (pre post : List ZipMember) (m : ZipMember) (comment : Bytes)
    (hl : ∀ x ∈ pre ++ m :: post, x.Legal) (hofs : OfsOk crc lead.length (pre ++ m :: post))
    (hn : (pre ++ m :: post).length < 65536) (hcd : (lead ++ zipLocals crc (pre ++ m :: post)).length < 2 ^ 32)
    (hc : CommentOk (zipEocd (pre ++ m :: post).length (zipCd crc lead.length (pre ++ m :: post)).length
      (lead ++ zipLocals crc (pre ++ m :: post)).length comment.length) comment)
    (hpre : ∀ x ∈ pre, Skipped (memSpec crc x)) (hm : ¬ Skipped (memSpec crc m))
    (hdec : (if m.method = 0 then some m.cdata else dec m.method m.cdata) = some m.data) :
    unzip (fun b => (crc b).toNat) dec (zipWrapC crc lead (pre ++ m :: post) comment) = some m.data :=
  unzip_wrapC crc dec lead pre post m comment hl hofs hn hcd hc hpre hm hdec

theorem dispatch_zip (crc : Bytes → UInt32) (m0 : ZipMember) (ms : List ZipMember) :
    dispatch (zipWrap crc [] (m0 :: ms)) = some "zip" := by
  obtain ⟨t, ht⟩ := zipWrap_head crc m0 ms
  have hlen := zipWrap_length crc [] (m0 :: ms)
  have hb : ∀ i, i < 4 → bAt (sniff (zipWrap crc [] (m0 :: ms))) i = bAt (zipWrap crc [] (m0 :: ms)) i :=
    fun i hi => bAt_sniff _ i (by simp [sniffSize]; omega)
  have h0 : bAt (sniff (zipWrap crc [] (m0 :: ms))) 0 = 80 := by rw [hb 0 (by decide), ht]; rfl
  have h1 : bAt (sniff (zipWrap crc [] (m0 :: ms))) 1 = 75 := by rw [hb 1 (by decide), ht]; rfl
  have h2 : bAt (sniff (zipWrap crc [] (m0 :: ms))) 2 = 3 := by rw [hb 2 (by decide), ht]; rfl
  have h3 : bAt (sniff (zipWrap crc [] (m0 :: ms))) 3 = 4 := by rw [hb 3 (by decide), ht]; rfl
  have hs : ¬ (sniff (zipWrap crc [] (m0 :: ms))).length < minHeaderSize := by
    have hm : minHeaderSize ≤ sniffSize := by decide
    have : minHeaderSize = 22 := rfl
    unfold sniff; simp only [List.length_take]; omega
  unfold dispatch
  simp only [hs, if_false]
  simp [depackerList, List.find?, evalMagic, h0, h1, h2, h3]

/-- **pipeline, zip (complete framing; stored members need no hypothesis, deflated ones only a correct inflate)** -/
theorem C08_pipeline_zip {β : Type} (env : Env) (loader : Bytes → β) (pre post : List ZipMember) (m m0 : ZipMember)
    (rest : List ZipMember) (h0 : pre ++ m :: post = m0 :: rest)
    (hl : ∀ x ∈ pre ++ m :: post, x.Legal) (hofs : OfsOk env.crc32 0 (pre ++ m :: post))
    (hn : (pre ++ m :: post).length < 65536) (hcd : (zipLocals env.crc32 (pre ++ m :: post)).length < 2 ^ 32)
    (hpre : ∀ x ∈ pre, Skipped (memSpec env.crc32 x)) (hm : ¬ Skipped (memSpec env.crc32 m))
    (hdec : (if m.method = 0 then some m.cdata else if m.method = 8 then env.inflate m.cdata else none) = some m.data)
    (hne : m.data ≠ []) :
    loadByPath env loader (zipWrap env.crc32 [] (pre ++ m :: post)) = some (loadFromMemory loader m.data) ∧
    (loadByPath env loader (zipWrap env.crc32 [] (pre ++ m :: post))).map (·.2) = some (md5 m.data) := by
  apply C08_pipeline_of_decrunch
  unfold decrunch
  rw [h0, dispatch_zip env.crc32 m0 rest, ← h0]
  simp only []
  rw [C08_zip_framing env.crc32 _ [] pre post m hl (by simpa using hofs) hn (by simpa using hcd) hpre hm hdec]
  have : m.data.length ≠ 0 := fun h => hne (List.eq_nil_of_length_eq_zero h)
  simp [reopenMem, this]


/-! ## LHA: byte-level framing of stored members (header levels 0, 1, 2), pipeline -/

/-- **LHA framing**: on an archive written member by member (`-lh0-`, any mix of level 0 / 1 / 2 headers and OS
    ids), the lhasa reader model finds the archive start, reads every header (length and checksum tests, name
    fields, level-1/2 extended header walk, MS-DOS all-caps fix), skips the members whose *seen* name is excluded and
    returns the data of the first other member through the stored decoder, whatever follows it. -/
theorem C08_lha_framing (crc : Bytes → UInt16) (dec : Bytes → Bool → Bytes → Nat → Option Bytes)
    (pre post : List LhaMember) (m m0 : LhaMember) (rest0 : List LhaMember)
    (h0 : pre ++ m :: post = m0 :: rest0) (hm0 : m0.Legal)
    (hpre : ∀ x ∈ pre, x.Legal ∧ excludeMatch (lhaSeenName x) = true)
    (hm : m.Legal) (hx : excludeMatch (lhaSeenName m) = false) (hne : m.data ≠ [])
    (hlim : m.data.length ≤ depackLimit) :
    unlha dec (lhaWrap crc (pre ++ m :: post)) = some m.data :=
  unlha_wrap crc dec pre post m m0 rest0 h0 hm0 hpre hm hx hne hlim

/-- non-trivial instance: an all-caps `README` with a level-1 MS-DOS header (seen as `readme`, excluded), then a
    module with a level-2 header -/
def exLhaPre : LhaMember := { name := [0x52, 0x45, 0x41, 0x44, 0x4d, 0x45], data := [1, 2], level := 1, osId := 0x4d }
def exLhaMod : LhaMember := { name := [0x61, 0x2e, 0x78, 0x6d], data := [9, 8, 7], level := 2 }

theorem exLha_legal : exLhaPre.Legal ∧ exLhaMod.Legal := by
  constructor
  · exact ⟨by decide, ⟨by decide, by unfold noNul exLhaPre; decide, by decide, by decide, by decide⟩, by decide,
      by decide, by decide⟩
  · exact ⟨by decide, ⟨by decide, by unfold noNul exLhaMod; decide, by decide, by decide, by decide⟩, by decide,
      by decide, by decide⟩

example : unlha (fun _ _ _ _ => none) (lhaWrap crc16 ([exLhaPre] ++ exLhaMod :: [exLhaPre])) = some [9, 8, 7] :=
  C08_lha_framing crc16 _ [exLhaPre] [exLhaPre] exLhaMod exLhaPre [exLhaMod, exLhaPre] rfl exLha_legal.1
    (by intro x hx; simp at hx; subst hx; exact ⟨exLha_legal.1, by decide⟩) exLha_legal.2 (by decide) (by decide)
    (by decide)

theorem dispatch_lha (crc : Bytes → UInt16) (m0 : LhaMember) (rest : List LhaMember) (hm : m0.Legal) :
    dispatch (lhaWrap crc (m0 :: rest)) = some "lha" := by
  have hlen := lhaWrap_length crc m0 rest hm
  have hb : ∀ i, i < 21 → bAt (sniff (lhaWrap crc (m0 :: rest))) i = bAt (lhaWrap crc (m0 :: rest)) i :=
    fun i hi => bAt_sniff _ i (by simp [sniffSize]; omega)
  have hfile : lhaWrap crc (m0 :: rest) = lhaEntry crc m0 ++ (rest.flatMap (lhaEntry crc) ++ [0]) := by
    simp [lhaWrap, List.append_assoc]
  obtain ⟨hmatch, _⟩ := lhaEntry_match crc m0 hm (rest.flatMap (lhaEntry crc) ++ [0])
  rw [← hfile] at hmatch
  have h20 := lhaEntry_level_byte crc m0 hm (rest.flatMap (lhaEntry crc) ++ [0])
  rw [← hfile] at h20
  simp only [lhaHdrMatch, Nat.zero_add, Bool.and_eq_true, Bool.or_eq_true, beq_iff_eq] at hmatch
  obtain ⟨⟨h2, h6⟩, hrest⟩ := hmatch
  have h34 : bAt (lhaWrap crc (m0 :: rest)) 3 = 0x6c ∧ bAt (lhaWrap crc (m0 :: rest)) 4 = 0x68 := by
    have hm' := lhaEntry_match crc m0 hm (rest.flatMap (lhaEntry crc) ++ [0])
    have := hm.lvl
    rcases (by omega : m0.level = 0 ∨ m0.level = 1 ∨ m0.level = 2) with h | h | h
    · rw [hfile]; constructor <;> simp [bAt, lhaEntry, h, lhaLh0]
    · rw [hfile]; constructor <;> simp [bAt, lhaEntry, h, lhaLh0]
    · have hn : ¬ m0.level = 0 ∧ ¬ m0.level = 1 := by omega
      rw [hfile]; constructor <;> simp [bAt, lhaEntry, hn.1, hn.2, lhaLh0, le16]
  have hs : ¬ (sniff (lhaWrap crc (m0 :: rest))).length < minHeaderSize := by
    have hm' : minHeaderSize ≤ sniffSize := by decide
    have : minHeaderSize = 22 := rfl
    unfold sniff; simp only [List.length_take]; omega
  have hl3 : m0.level ≤ 3 := by have := hm.lvl; omega
  unfold dispatch
  simp only [hs, if_false]
  simp [depackerList, evalMagic, hb, h2, h6, h34.1, h34.2, h20, hl3]

/-- **pipeline, LHA stored members (complete framing; `-lh0-` needs no decoder hypothesis)** -/
theorem C08_pipeline_lha {β : Type} (env : Env) (lhaDec : Bytes → Bool → Bytes → Nat → Option Bytes)
    (loader : Bytes → β) (pre post : List LhaMember) (m m0 : LhaMember) (rest0 : List LhaMember)
    (h0 : pre ++ m :: post = m0 :: rest0) (hm0 : m0.Legal)
    (hpre : ∀ x ∈ pre, x.Legal ∧ excludeMatch (lhaSeenName x) = true)
    (hm : m.Legal) (hx : excludeMatch (lhaSeenName m) = false) (hne : m.data ≠ [])
    (hlim : m.data.length ≤ depackLimit) :
    loadByPath (env.withLha lhaDec) loader (lhaWrap env.crc16 (pre ++ m :: post)) = some (loadFromMemory loader m.data) ∧
    (loadByPath (env.withLha lhaDec) loader (lhaWrap env.crc16 (pre ++ m :: post))).map (·.2) = some (md5 m.data) := by
  apply C08_pipeline_of_decrunch
  unfold decrunch
  rw [h0, dispatch_lha env.crc16 m0 rest0 hm0, ← h0]
  simp only [Env.withLha, if_true]
  rw [C08_lha_framing env.crc16 lhaDec pre post m m0 rest0 h0 hm0 hpre hm hx hne hlim]
  have : m.data.length ≠ 0 := fun h => hne (List.eq_nil_of_length_eq_zero h)
  simp [reopenMem, this]


/-! ## ArcFS: byte-level framing, pipeline -/

/-- **ArcFS framing** (`arcfs_read` on bytes): 96-byte header checks, 36-byte entry table walk over any number of
    excluded members, value offsets into the data area, stored + RLE90 methods, CRC-16 gate, trailing
    end-of-directory entries -/
theorem C08_arcfs_framing (crc : Bytes → UInt16) (dec : Nat → Nat → Bytes → Nat → Option Bytes)
    (pre post : List ArcfsMember) (m : ArcfsMember) (pad : Nat)
    (hl : ∀ x ∈ pre ++ m :: post, x.Legal) (hvo : VoOk 0 (pre ++ m :: post))
    (hcount : 36 * ((pre ++ m :: post).length + pad) + 96 < 2 ^ 32)
    (hpre : ∀ x ∈ pre, excludeMatch x.name = true) (hx : excludeMatch m.name = false)
    (hlim : m.data.length ≤ depackLimit) (hc0 : 0 < m.cdata.length) :
    arcfsRead crc dec (arcfsWrap crc (pre ++ m :: post) pad) = some m.data :=
  arcfsRead_wrap crc dec pre post m pad hl hvo hcount hpre hx hlim hc0

theorem arcfs_mem : ("arcfs", "arcfs.c", Magic.memEq 0 [65, 114, 99, 104, 105, 118, 101, 0]) ∈ depackerList := by
  simp [depackerList]

/-- **pipeline, ArcFS stored + RLE90 (complete: header, entry walk, RLE90 codec, CRC gate)** -/
theorem C08_pipeline_arcfs {β : Type} (env : Env) (dec : Nat → Nat → Bytes → Nat → Option Bytes)
    (loader : Bytes → β) (pre post : List ArcfsMember) (m : ArcfsMember) (pad : Nat)
    (hl : ∀ x ∈ pre ++ m :: post, x.Legal) (hvo : VoOk 0 (pre ++ m :: post))
    (hcount : 36 * ((pre ++ m :: post).length + pad) + 96 < 2 ^ 32)
    (hpre : ∀ x ∈ pre, excludeMatch x.name = true) (hx : excludeMatch m.name = false)
    (hlim : m.data.length ≤ depackLimit) (hc0 : 0 < m.cdata.length) (hne : m.data ≠ []) :
    loadByPath (env.withArcfs dec) loader (arcfsWrap env.crc16 (pre ++ m :: post) pad) =
      some (loadFromMemory loader m.data) ∧
    (loadByPath (env.withArcfs dec) loader (arcfsWrap env.crc16 (pre ++ m :: post) pad)).map (·.2) = some (md5 m.data) := by
  apply C08_pipeline_of_decrunch
  generalize hF : arcfsWrap env.crc16 (pre ++ m :: post) pad = F
  have hhead : ∃ t, F = 0x41 :: 0x72 :: 0x63 :: 0x68 :: 0x69 :: 0x76 :: 0x65 :: 0 :: t ∧ 88 ≤ t.length := by
    rw [← hF]; unfold arcfsWrap
    refine ⟨_, by simp only [List.cons_append, List.nil_append, List.append_assoc]; rfl, ?_⟩
    simp only [List.length_append, le32_length, List.length_replicate]; omega
  obtain ⟨t, ht, htl⟩ := hhead
  have hs : minHeaderSize ≤ (sniff F).length := by
    have hm : minHeaderSize ≤ sniffSize := by decide
    have : minHeaderSize = 22 := rfl
    rw [ht]; unfold sniff; simp only [List.length_take, List.length_cons]; omega
  have hb : ∀ i, i < 8 → bAt (sniff F) i = bAt F i := fun i hi => bAt_sniff _ i (by simp [sniffSize]; omega)
  have hv : ∀ i v, i < 8 → bAt F i = v → bAt (sniff F) i = v := fun i v hi h => by rw [hb i hi]; exact h
  have h0 := hv 0 65 (by decide) (by rw [ht]; rfl)
  have h1 := hv 1 114 (by decide) (by rw [ht]; rfl)
  have h2 := hv 2 99 (by decide) (by rw [ht]; rfl)
  have h3 := hv 3 104 (by decide) (by rw [ht]; rfl)
  have h4 := hv 4 105 (by decide) (by rw [ht]; rfl)
  have h5 := hv 5 118 (by decide) (by rw [ht]; rfl)
  have h6 := hv 6 101 (by decide) (by rw [ht]; rfl)
  have h7 := hv 7 0 (by decide) (by rw [ht]; rfl)
  have hd := C08_dispatch_of_test _ arcfs_mem (by decide) F hs
    (by simp [evalMagic, memEqAt, h0, h1, h2, h3, h4, h5, h6, h7])
    (lha_test_byte2 _ (by rw [h2]; decide))
  unfold decrunch
  rw [hd]
  simp only [Env.withArcfs, if_true]
  rw [← hF, C08_arcfs_framing env.crc16 dec pre post m pad hl hvo hcount hpre hx hlim hc0]
  have : m.data.length ≠ 0 := fun h => hne (List.eq_nil_of_length_eq_zero h)
  simp [reopenMem, this]


/-! ## LZX: byte-level framing of stored members, pipeline -/

/-- **LZX framing** (`lzx_read` on bytes): archive header, entry headers with file names and comments, header CRC-32
    (chained over header, name and comment with its own field zeroed), the merge state machine on unmerged
    entries, excluded members skipped, stored extraction, CRC-32 gate — for every chainable check function `crc` -/
theorem C08_lzx_framing (crc : UInt32 → Bytes → UInt32) (dec : Bytes → Nat → Option Bytes) (pre post : List LzxMember)
    (m : LzxMember)
    (hpre : ∀ x ∈ pre, x.Legal ∧ excludeMatch x.name = true)
    (hm : m.Legal) (hx : excludeMatch m.name = false) (hlim : m.data.length ≤ depackLimit) (hne : m.data ≠ []) :
    lzxRead crc dec (lzxWrap crc (pre ++ m :: post)) = some m.data :=
  lzxRead_wrap crc dec pre post m hpre hm hx hlim hne

theorem lzx_mem : ("lzx", "lzx.c", Magic.memEq 0 [76, 90, 88]) ∈ depackerList := by simp [depackerList]

/-- **pipeline, LZX stored members (complete framing, no decoder hypothesis)** -/
theorem C08_pipeline_lzx {β : Type} (env : Env) (crcA : UInt32 → Bytes → UInt32) (dec : Bytes → Nat → Option Bytes)
    (loader : Bytes → β) (pre post : List LzxMember) (m : LzxMember)
    (hpre : ∀ x ∈ pre, x.Legal ∧ excludeMatch x.name = true)
    (hm : m.Legal) (hx : excludeMatch m.name = false) (hlim : m.data.length ≤ depackLimit) (hne : m.data ≠ []) :
    loadByPath (env.withLzx crcA dec) loader (lzxWrap crcA (pre ++ m :: post)) = some (loadFromMemory loader m.data) ∧
    (loadByPath (env.withLzx crcA dec) loader (lzxWrap crcA (pre ++ m :: post))).map (·.2) = some (md5 m.data) := by
  apply C08_pipeline_of_decrunch
  generalize hF : lzxWrap crcA (pre ++ m :: post) = F
  have hhead : ∃ t, F = 0x4c :: 0x5a :: 0x58 :: t ∧ 38 ≤ t.length := by
    rw [← hF]; unfold lzxWrap
    have h1 : 31 ≤ ((pre ++ m :: post).flatMap (lzxEntry crcA)).length := by
      rw [List.flatMap_append, List.flatMap_cons]
      have := lzxEntry_pos crcA m
      simp only [List.length_append]; omega
    refine ⟨([0, 0x0c, 0, 0x0a, 0x04, 0, 0] : Bytes) ++ (pre ++ m :: post).flatMap (lzxEntry crcA), rfl, ?_⟩
    rw [List.length_append]
    have : ([0, 0x0c, 0, 0x0a, 0x04, 0, 0] : Bytes).length = 7 := rfl
    omega
  obtain ⟨t, ht, htl⟩ := hhead
  have hs : minHeaderSize ≤ (sniff F).length := by
    have hm' : minHeaderSize ≤ sniffSize := by decide
    have : minHeaderSize = 22 := rfl
    rw [ht]; unfold sniff; simp only [List.length_take, List.length_cons]; omega
  have hv : ∀ i v, i < 3 → bAt F i = v → bAt (sniff F) i = v := fun i v hi h => by
    rw [bAt_sniff _ i (by simp [sniffSize]; omega)]; exact h
  have h0 := hv 0 76 (by decide) (by rw [ht]; rfl)
  have h1 := hv 1 90 (by decide) (by rw [ht]; rfl)
  have h2 := hv 2 88 (by decide) (by rw [ht]; rfl)
  have hd := C08_dispatch_of_test _ lzx_mem (by decide) F hs
    (by simp [evalMagic, memEqAt, h0, h1, h2]) (lha_test_byte2 _ (by rw [h2]; decide))
  unfold decrunch
  rw [hd]
  simp only [Env.withLzx, if_true]
  rw [← hF, C08_lzx_framing crcA dec pre post m hpre hm hx hlim hne]
  have : m.data.length ≠ 0 := fun h => hne (List.eq_nil_of_length_eq_zero h)
  simp [reopenMem, this]


/-! ## MMCMP: byte-level framing of stored blocks, pipeline -/

/-- **MMCMP framing, stored blocks** (`decrunch_mmcmp` on bytes): header tests, block offset table, block headers,
    sub-block tables, and `block_copy` of every sub-block to its position in the zero-filled output buffer — for
    every split of the payload into blocks and sub-blocks -/
theorem C08_mmcmp_framing (dec : Nat → Nat → Nat → List (Nat × Nat) → Bytes → Bytes → Option Bytes)
    (blocks : List (List Bytes)) (hne : blocks ≠ []) (hcount : blocks.length < 65536)
    (hok : BlocksOk 0 blocks)
    (h16 : 16 ≤ ((blocks.map List.flatten).flatten).length)
    (hlim : ((blocks.map List.flatten).flatten).length ≤ depackLimit)
    (hsz : 24 + (mmBody 0 blocks).length < 2 ^ 32) :
    decrunchMmcmp dec (mmcmpWrap blocks) = some ((blocks.map List.flatten).flatten) :=
  decrunchMmcmp_wrap dec blocks hne hcount hok h16 hlim hsz

theorem mmcmp_mem : ("mmcmp", "mmcmp.c", Magic.memEq 0 [122, 105, 82, 67, 79, 78, 105, 97]) ∈ depackerList := by
  simp [depackerList]

/-- **pipeline, MMCMP stored blocks (complete framing, no decoder hypothesis)** -/
theorem C08_pipeline_mmcmp {β : Type} (env : Env)
    (dec : Nat → Nat → Nat → List (Nat × Nat) → Bytes → Bytes → Option Bytes) (loader : Bytes → β)
    (blocks : List (List Bytes)) (hne : blocks ≠ []) (hcount : blocks.length < 65536)
    (hok : BlocksOk 0 blocks)
    (h16 : 16 ≤ ((blocks.map List.flatten).flatten).length)
    (hlim : ((blocks.map List.flatten).flatten).length ≤ depackLimit)
    (hsz : 24 + (mmBody 0 blocks).length < 2 ^ 32) :
    loadByPath (env.withMmcmp dec) loader (mmcmpWrap blocks) =
      some (loadFromMemory loader ((blocks.map List.flatten).flatten)) ∧
    (loadByPath (env.withMmcmp dec) loader (mmcmpWrap blocks)).map (·.2) = some (md5 ((blocks.map List.flatten).flatten)) := by
  apply C08_pipeline_of_decrunch
  generalize hF : mmcmpWrap blocks = F
  have hhead : ∃ t, F = 0x7a :: 0x69 :: 0x52 :: 0x43 :: 0x4f :: 0x4e :: 0x69 :: 0x61 :: t ∧ 16 ≤ t.length := by
    rw [← hF]; unfold mmcmpWrap
    refine ⟨_, by simp only [List.cons_append, List.nil_append, List.append_assoc]; rfl, ?_⟩
    simp only [List.length_append, le16_length, le32_length, List.length_cons, List.length_nil]; omega
  obtain ⟨t, ht, htl⟩ := hhead
  have hs : minHeaderSize ≤ (sniff F).length := by
    have hm' : minHeaderSize ≤ sniffSize := by decide
    have : minHeaderSize = 22 := rfl
    rw [ht]; unfold sniff; simp only [List.length_take, List.length_cons]; omega
  have hv : ∀ i v, i < 8 → bAt F i = v → bAt (sniff F) i = v := fun i v hi h => by
    rw [bAt_sniff _ i (by simp [sniffSize]; omega)]; exact h
  have h0 := hv 0 122 (by decide) (by rw [ht]; rfl)
  have h1 := hv 1 105 (by decide) (by rw [ht]; rfl)
  have h2 := hv 2 82 (by decide) (by rw [ht]; rfl)
  have h3 := hv 3 67 (by decide) (by rw [ht]; rfl)
  have h4 := hv 4 79 (by decide) (by rw [ht]; rfl)
  have h5 := hv 5 78 (by decide) (by rw [ht]; rfl)
  have h6 := hv 6 105 (by decide) (by rw [ht]; rfl)
  have h7 := hv 7 97 (by decide) (by rw [ht]; rfl)
  have hd := C08_dispatch_of_test _ mmcmp_mem (by decide) F hs
    (by simp [evalMagic, memEqAt, h0, h1, h2, h3, h4, h5, h6, h7]) (lha_test_byte2 _ (by rw [h2]; decide))
  unfold decrunch
  rw [hd]
  simp only [Env.withMmcmp, if_true]
  rw [← hF, C08_mmcmp_framing dec blocks hne hcount hok h16 hlim hsz]
  generalize (blocks.map List.flatten).flatten = P at *
  have : P.length ≠ 0 := by omega
  simp [reopenMem, this]


/-! ## MMCMP: the 8-bit block decoder (`block_unpack_8bit`), packed blocks in the framing, pipeline -/

/-- **`block_unpack_8bit` ∘ encoder = id on the delta / sub-block structure.**  `mmDec` is the model of
    `block_unpack_8bit`/`block_unpack_16bit` (bit reader, width changes, escape codes, end marker, translation table,
    delta predictor, sub-block switching with `mem_seek`; code tables from the translator).  On the stream of the
    fixed-width encoder `mmEncode8` (identity table, 8-bit codes, escapes for 0xF8..0xFF) every sub-block `(pos, bytes)`
    receives exactly its bytes wherever it lies in the output buffer and in whatever order the sub-blocks come; with
    DELTA the predictor runs through the whole block — resetting it at a sub-block border (or not carrying it) breaks
    this theorem.  `T` = whatever follows the packed data in the file. -/
theorem C08_mmcmp_unpack8 (delta : Bool) (subs : List (Nat × Bytes)) (T out : Bytes) (hne : subs ≠ [])
    (hok : ∀ x ∈ subs, x.2 ≠ [] ∧ x.1 + x.2.length ≤ out.length) :
    mmDec (mmFlagsK (some delta)) 7 256 (subs.map mmDesc) (mmEncode8 delta (subs.map (·.2)).flatten ++ T) out =
      some (mmScatter out subs) :=
  mmDec_encode8 delta subs T out hne hok

/-- two sub-blocks written in reverse order with DELTA: the second sub-block continues the predictor of the first -/
example : mmDec 3 7 256 [(4, 2), (0, 3)] (mmEncode8 true [1, 2, 250, 255, 3]) (List.replicate 8 0) =
    some [250, 255, 3, 0, 1, 2, 0, 0] := by
  have h := C08_mmcmp_unpack8 true [(4, [1, 2]), (0, [250, 255, 3])] [] (List.replicate 8 0) (by decide) (by decide)
  have e : mmScatter (List.replicate 8 0) [(4, [1, 2]), (0, [250, 255, 3])] = [250, 255, 3, 0, 1, 2, 0, 0] := by decide
  rw [e] at h
  have e3 : mmFlagsK (some true) = 3 := by decide
  rw [e3] at h
  simpa [mmDesc] using h

/-- **MMCMP framing, stored and packed blocks**: `decrunch_mmcmp` with the modelled block decoders on the bytes of
    `mmcmpWrapK` — per block stored (`none`), packed (`some false`) or packed with DELTA (`some true`), any split into
    blocks and sub-blocks; no decoder hypothesis is left -/
theorem C08_mmcmp_framing_packed (blocks : List (Option Bool × List Bytes)) (hne : blocks ≠ [])
    (hcount : blocks.length < 65536) (hok : BlocksOkK 0 blocks)
    (h16 : 16 ≤ ((blocks.map (fun b => b.2.flatten)).flatten).length)
    (hlim : ((blocks.map (fun b => b.2.flatten)).flatten).length ≤ depackLimit)
    (hsz : 24 + (mmBodyK 0 blocks).length < 2 ^ 32) :
    decrunchMmcmp mmDec (mmcmpWrapK blocks) = some ((blocks.map (fun b => b.2.flatten)).flatten) :=
  decrunchMmcmp_wrapK blocks hne hcount hok h16 hlim hsz

/-- **pipeline, MMCMP with packed blocks (complete: framing and block decoder, no hypothesis)** -/
theorem C08_pipeline_mmcmp_packed {β : Type} (env : Env) (loader : Bytes → β)
    (blocks : List (Option Bool × List Bytes)) (hne : blocks ≠ [])
    (hcount : blocks.length < 65536) (hok : BlocksOkK 0 blocks)
    (h16 : 16 ≤ ((blocks.map (fun b => b.2.flatten)).flatten).length)
    (hlim : ((blocks.map (fun b => b.2.flatten)).flatten).length ≤ depackLimit)
    (hsz : 24 + (mmBodyK 0 blocks).length < 2 ^ 32) :
    loadByPath (env.withMmcmp mmDec) loader (mmcmpWrapK blocks) =
      some (loadFromMemory loader ((blocks.map (fun b => b.2.flatten)).flatten)) ∧
    (loadByPath (env.withMmcmp mmDec) loader (mmcmpWrapK blocks)).map (·.2) =
      some (md5 ((blocks.map (fun b => b.2.flatten)).flatten)) := by
  apply C08_pipeline_of_decrunch
  generalize hF : mmcmpWrapK blocks = F
  have hhead : ∃ t, F = 0x7a :: 0x69 :: 0x52 :: 0x43 :: 0x4f :: 0x4e :: 0x69 :: 0x61 :: t ∧ 16 ≤ t.length := by
    rw [← hF]; unfold mmcmpWrapK
    refine ⟨_, by simp only [List.cons_append, List.nil_append, List.append_assoc]; rfl, ?_⟩
    simp only [List.length_append, le16_length, le32_length, List.length_cons, List.length_nil]; omega
  obtain ⟨t, ht, htl⟩ := hhead
  have hs : minHeaderSize ≤ (sniff F).length := by
    have hm' : minHeaderSize ≤ sniffSize := by decide
    have : minHeaderSize = 22 := rfl
    rw [ht]; unfold sniff; simp only [List.length_take, List.length_cons]; omega
  have hv : ∀ i v, i < 8 → bAt F i = v → bAt (sniff F) i = v := fun i v hi h => by
    rw [bAt_sniff _ i (by simp [sniffSize]; omega)]; exact h
  have h0 := hv 0 122 (by decide) (by rw [ht]; rfl)
  have h1 := hv 1 105 (by decide) (by rw [ht]; rfl)
  have h2 := hv 2 82 (by decide) (by rw [ht]; rfl)
  have h3 := hv 3 67 (by decide) (by rw [ht]; rfl)
  have h4 := hv 4 79 (by decide) (by rw [ht]; rfl)
  have h5 := hv 5 78 (by decide) (by rw [ht]; rfl)
  have h6 := hv 6 105 (by decide) (by rw [ht]; rfl)
  have h7 := hv 7 97 (by decide) (by rw [ht]; rfl)
  have hd := C08_dispatch_of_test _ mmcmp_mem (by decide) F hs
    (by simp [evalMagic, memEqAt, h0, h1, h2, h3, h4, h5, h6, h7]) (lha_test_byte2 _ (by rw [h2]; decide))
  unfold decrunch
  rw [hd]
  simp only [Env.withMmcmp, if_true]
  rw [← hF, C08_mmcmp_framing_packed blocks hne hcount hok h16 hlim hsz]
  generalize (blocks.map (fun b => b.2.flatten)).flatten = P at *
  have : P.length ≠ 0 := by omega
  simp [reopenMem, this]


/-! ## ARC squeeze (method 4): node table, tree check, code walk, RLE90 over the window blocks -/

/-- **Huffman stage of `arc_unpack_huffman_rle90`: decode ∘ encode = id for every code tree.**  `SqTree.Ok`: the root is
    a node, at most `HUFFMAN_TREE_MAX` = 256 nodes (so up to 257 leaves: 256 byte values and the end-of-stream symbol;
    a table of exactly 256 nodes is accepted), leaf symbols ≤ 256.  Covered: node count and child index tests,
    `arc_huffman_check_tree` (every stored tree passes), the 11-bit lookup and the bit-by-bit walk, the symbol loop up
    to the end-of-stream code; `T` = anything behind the stream. -/
theorem C08_squeeze_huffman_roundtrip (t : SqTree) (ht : t.Ok) (syms T : Bytes)
    (hcov : ∀ b ∈ syms, (sqCode t b.toNat).isSome) (heof : (sqCode t 256).isSome) :
    sqDecode (sqEncode t syms ++ T) = some syms :=
  sqDecode_encode t ht syms T hcov heof

/-- **squeezed member: decode ∘ encode = id** — any well-formed RLE90 token stream (in particular `rle90Enc p`), any
    code tree covering its bytes; the RLE90 stage runs block by block over the 8192-byte window with its state kept -/
theorem C08_squeeze_roundtrip (t : SqTree) (ht : t.Ok) (ts : List Tok) (hok : ∀ x ∈ ts, x.Ok) (T : Bytes)
    (hcov : ∀ b ∈ render ts, (sqCode t b.toNat).isSome) (heof : (sqCode t 256).isSome) :
    unsqueeze (expand ts).length (squeeze t ts ++ T) = some (expand ts) :=
  unsqueeze_squeeze t ht ts hok T hcov heof

/-- a comb: every symbol of the list is a leaf (codes 0, 10, 110, …); `n + 1` symbols need `n` nodes -/
def sqComb : List Nat → SqTree
  | [] => .leaf 0
  | [s] => .leaf s
  | s :: r => .node (.leaf s) (sqComb r)

theorem sqComb_size : ∀ l : List Nat, (sqComb l).size = l.length - 1
  | [] => rfl
  | [_] => rfl
  | _ :: b :: r => by
    have := sqComb_size (b :: r)
    simp only [sqComb, SqTree.size, List.length_cons] at this ⊢
    omega

theorem sqComb_leaves (m : Nat) : ∀ l : List Nat, (∀ s ∈ l, s ≤ m) → (sqComb l).LeavesLe m
  | [], _ => Nat.zero_le _
  | [s], h => h s (by simp)
  | a :: b :: r, h => ⟨h a (by simp), sqComb_leaves m (b :: r) (fun s hs => h s (by simp [hs]))⟩

theorem sqComb_code : ∀ (l : List Nat) (x : Nat), x ∈ l → (sqCode (sqComb l) x).isSome
  | [], x, h => by simp at h
  | [s], x, h => by
    simp only [List.mem_singleton] at h
    subst h; simp [sqComb, sqCode]
  | a :: b :: r, x, h => by
    simp only [sqComb, sqCode]
    by_cases e : a = x
    · simp [e]
    · have hx : x ∈ b :: r := by
        simp only [List.mem_cons] at h ⊢
        rcases h with h | h
        · exact absurd h.symm e
        · exact h
      have := sqComb_code (b :: r) x hx
      simp [e, Option.isSome_map, this]

/-- the full alphabet: 257 leaves, exactly `HUFFMAN_TREE_MAX` = 256 nodes -/
def sqFullTree : SqTree := sqComb (List.range 257)

theorem sqComb_isNode : ∀ l : List Nat, 2 ≤ l.length → (sqComb l).isNode = true
  | [], h => by simp at h
  | [_], h => by simp at h
  | _ :: _ :: _, _ => rfl

theorem sqFullTree_ok : sqFullTree.Ok :=
  ⟨sqComb_isNode _ (by simp [List.length_range]), by rw [sqFullTree, sqComb_size, List.length_range]; omega,
   sqComb_leaves 256 _ (by intro s hs; simp only [List.mem_range] at hs; omega)⟩

/-- **tree size boundary**: a table of exactly 256 nodes (payload uses every byte value) is accepted and decodes every
    byte string; a node count of 257 or more is refused -/
theorem C08_squeeze_tree_limit :
    sqFullTree.size = 256 ∧
    (∀ syms T : Bytes, sqDecode (sqEncode sqFullTree syms ++ T) = some syms) ∧
    (∀ src : Bytes, 257 ≤ u16At src 0 → sqInit src = none) := by
  refine ⟨by rw [sqFullTree, sqComb_size, List.length_range], ?_, ?_⟩
  · intro syms T
    refine sqDecode_encode sqFullTree sqFullTree_ok syms T ?_ ?_
    · intro b _
      exact sqComb_code _ _ (by have := b.toNat_lt; simp only [List.mem_range]; omega)
    · exact sqComb_code _ _ (by simp)
  · intro src h
    unfold sqInit sqInitWith
    have e1 : sqTreeMaxInclusive = true := rfl
    have e2 : sqTreeMax = 256 := rfl
    rw [e1, e2]
    by_cases h2 : src.length < 2
    · simp [h2]
    · have : u16At src 0 = 0 ∨ u16At src 0 > 256 := Or.inr (by omega)
      simp only [h2, if_false, if_true]
      rw [if_pos this]

/-- **ARC / Spark framing with a squeezed member** (method 4 / 0x84) behind any excluded files, directory headers and
    closing markers: the member is reached, `arc_unpack` (squeeze model in front of the remaining decoder parameter)
    returns its data, the CRC-16 gate passes -/
theorem C08_arc_framing_squeeze (crc : Bytes → UInt16) (rest : Nat → Bytes → Nat → Option Bytes) (pre : List ArcItem)
    (post : Bytes) (m : ArcMember) (t : SqTree) (ts : List Tok) (level' : Nat)
    (hpre : ∀ x ∈ pre, x.Ok crc) (hlev : arcLevel 0 pre = some level')
    (hm : ArcHdrOk m (squeeze t ts).length (crc (expand ts)).toNat (expand ts).length)
    (hmeth : m.method % 128 = 4) (hx : excludeMatch m.name = false) (hlim : (expand ts).length ≤ depackLimit)
    (ht : t.Ok) (hok : ∀ x ∈ ts, x.Ok)
    (hcov : ∀ b ∈ render ts, (sqCode t b.toNat).isSome) (heof : (sqCode t 256).isSome) :
    arcRead crc (arcDecSq rest)
      (arcItemsBytes crc pre ++ (arcHdrG m (squeeze t ts).length (crc (expand ts)).toNat (expand ts).length ++
        (squeeze t ts ++ post))) = some (expand ts) :=
  arcRead_items_squeeze crc rest pre post m t ts level' hpre hlev hm hmeth hx hlim ht hok hcov heof

/-- the squeeze model in front of the `arc_unpack` parameter of an environment -/
def Env.withSqueeze (env : Env) : Env := { env with arcDec := arcDecSq env.arcDec }

/-- **pipeline, ARC / Spark squeezed member (no decoder hypothesis)**; the signature test of the archive's first
    header is the hypothesis `hdisp` (proved for archives that begin with a file header in `C08_pipeline_arc`) -/
theorem C08_pipeline_arc_squeeze {β : Type} (env : Env) (loader : Bytes → β) (pre : List ArcItem)
    (post : Bytes) (m : ArcMember) (t : SqTree) (ts : List Tok) (level' : Nat)
    (hpre : ∀ x ∈ pre, x.Ok env.crc16) (hlev : arcLevel 0 pre = some level')
    (hm : ArcHdrOk m (squeeze t ts).length (env.crc16 (expand ts)).toNat (expand ts).length)
    (hmeth : m.method % 128 = 4) (hx : excludeMatch m.name = false) (hlim : (expand ts).length ≤ depackLimit)
    (ht : t.Ok) (hok : ∀ x ∈ ts, x.Ok)
    (hcov : ∀ b ∈ render ts, (sqCode t b.toNat).isSome) (heof : (sqCode t 256).isSome) (hne : expand ts ≠ [])
    (hdisp : dispatch (arcItemsBytes env.crc16 pre ++ (arcHdrG m (squeeze t ts).length (env.crc16 (expand ts)).toNat
      (expand ts).length ++ (squeeze t ts ++ post))) = some "arc") :
    loadByPath env.withSqueeze loader (arcItemsBytes env.crc16 pre ++ (arcHdrG m (squeeze t ts).length
      (env.crc16 (expand ts)).toNat (expand ts).length ++ (squeeze t ts ++ post))) =
      some (loadFromMemory loader (expand ts)) ∧
    (loadByPath env.withSqueeze loader (arcItemsBytes env.crc16 pre ++ (arcHdrG m (squeeze t ts).length
      (env.crc16 (expand ts)).toNat (expand ts).length ++ (squeeze t ts ++ post)))).map (·.2) =
      some (md5 (expand ts)) := by
  apply C08_pipeline_of_decrunch
  unfold decrunch
  rw [hdisp]
  simp only [Env.withSqueeze]
  rw [C08_arc_framing_squeeze env.crc16 env.arcDec pre post m t ts level' hpre hlev hm hmeth hx hlim ht hok hcov heof]
  have : (expand ts).length ≠ 0 := fun h => hne (List.eq_nil_of_length_eq_zero h)
  simp [reopenMem, this]

/-! ## LHA -lh4- … -lh7-: the dictionary in front of the file -/

/-- **the history of the "new" LHA decoders starts as blanks** (`init_ring_buffer`; the fill value is generated from the
    `memset` in lh_new_decoder.c), and the first copy command of a stream — whatever its offset below the ring size and
    its length — therefore yields blanks: a match may reach back before byte 0 of the file -/
theorem C08_lh_new_blank_dictionary :
    (∀ n, lhNewInitialWindow n = List.replicate n 0x20) ∧
    (∀ (ring o n : Nat) (ts : List LhTok), o < ring →
      ∃ rest, lhNewExpand ring (.copy o n :: ts) = List.replicate n 0x20 ++ rest) :=
  ⟨lhNewInitialWindow_blank, fun ring o n ts ho => lhNewExpand_first_copy ring o n ts ho⟩

/-- **copy stage: decode ∘ encode = id** for the encoder that writes leading blanks as matches into the dictionary in
    front of the file; every command it emits is expressible (3 … 256 bytes) -/
theorem C08_lh_new_lead_roundtrip (ring o : Nat) (p : Bytes) (ho : o < ring) :
    lhNewExpand ring (lhNewEncodeLead o p) = p ∧ lhNewExpand ring (p.map .lit) = p :=
  ⟨lhNewExpand_encodeLead ring o p ho, lhNewExpand_lits ring p⟩

/-- the decoder parameter of the LHA walk with the copy stage modelled: a Huffman stage that delivers commands whose
    expansion is `p` makes `-lh4-`…`-lh7-` members come back as `p` -/
theorem C08_lha_new_decoder (huff : Bytes → Bytes → Option (List LhTok)) (rest : Bytes → Bool → Bytes → Nat → Option Bytes)
    (method cdata p : Bytes) (mac : Bool) (ring : Nat) (toks : List LhTok)
    (hm : lhNewRing method = some ring) (hh : huff method cdata = some toks) (he : lhNewExpand ring toks = p) :
    lhaDecNew huff rest method mac cdata p.length = some p :=
  lhaDecNew_spec huff rest method cdata p mac ring toks hm hh he

example : lhNewExpand 16384 (lhNewEncodeLead 16383 [0x20, 0x20, 0x20, 0x20, 0x41]) = [0x20, 0x20, 0x20, 0x20, 0x41] :=
  (C08_lh_new_lead_roundtrip 16384 16383 _ (by decide)).1

example : lhNewEncodeLead 5 [0x20, 0x20, 0x20, 0x20, 0x41] = [.copy 5 4, .lit 0x41] := by decide

end Xmp.Container
