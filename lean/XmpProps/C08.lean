import XmpProofs.Container
/-!
# C08 — Built-in unpacking is transparent and byte-exact

Property theorems over `XmpModel.Container` / `XmpModel.Md5` (models of src/depackers/depacker.c,
gunzip.c, arc.c + arc_unpack.c (RLE90), unzip.c/unlha.c/arcfs.c member walks, src/md5.c, set_md5sum).
Entropy decoders (inflate, bzip2, LZMA2, LH*, LZX, LZW, …) are *parameters* `dec`; their correctness
(`dec (enc p) = some p`) is a hypothesis exercised by the oracle against independent encoders.

Full-strength statement (kept as the goal):

    ∀ fmt opts p others,  dec_fmt (enc_fmt p) = some p →
      loadByPath (wrap fmt opts p others) = some (loadFromMemory p)   -- same module, same md5 = MD5 p

What is proved below: the MD5 layer completely; the gzip framing for every legal header option
combination; member selection for every placement of excluded/directory/unsupported companions;
RLE90 for every token stream; dispatch and the whole pipeline for gzip, and for any archive whose
framing model returns the payload (`C08_pipeline_partial`).  Missing (named in `_partial`): byte-level
framing proofs for zip/LHA/ArcFS/LZX/PP/MMCMP/xz/bzip2 containers (their walks are modelled and tied by
correspondence only, the stream compressors are opaque `Env.other`).
-/
namespace Xmp.Container
open Xmp Xmp.Gen.Depackers Xmp.Md5

/-! ## MD5 (`md5.c`, `set_md5sum`) -/

/-- **chunk independence of `MD5Update`**: two updates = one update with the concatenation
    (any context reachable from `MD5Init`, i.e. fewer than 64 buffered bytes). -/
theorem C08_md5_chunking (s : Ctx) (a b : Bytes) (hs : s.buf.length < 64) :
    update (update s a) b = update s (a ++ b) := update_update s a b hs

/-- any chunking of a stream gives the same context as a single `MD5Update` -/
theorem C08_md5_chunking_list (chunks : List Bytes) :
    chunks.foldl update init = update init chunks.flatten :=
  foldl_update chunks init (by simp [init])

/-- the `hio_read(buf, 1, BUFLEN, f)` loop of `set_md5sum` computes the MD5 of the whole stream, for
    every positive buffer size — in particular the generated `BUFLEN` -/
theorem C08_md5_read_loop (n : Nat) (hn : 0 < n) (m : Bytes) : md5sumLoop n m = md5 m := by
  unfold md5sumLoop md5
  rw [C08_md5_chunking_list, chunksOf_flatten n hn m]

/-- the buffered implementation (`MD5Update` + `MD5Pad` + `MD5Final`) equals the RFC 1321 style
    definition: pad the whole message with 0x80, zeros and the 64-bit bit count, fold the compression
    function over its 64-byte blocks -/
theorem C08_md5_spec (m : Bytes) : md5 m = spec m := md5_eq_spec m

theorem C08_md5_bufLen_pos : 0 < md5ReadChunk := by decide

/-- the buffer length invariant that C recomputes from `count` (`have = (count >> 3) & 63`) -/
theorem C08_md5_wf (chunks : List Bytes) : WF (chunks.foldl update init) := by
  suffices h : ∀ s, WF s → WF (chunks.foldl update s) from h init init_wf
  induction chunks with
  | nil => intro s hs; exact hs
  | cons c cs ih => intro s hs; exact ih _ (update_wf s c hs)

example : update (update init [1, 2, 3]) [4, 5] = update init [1, 2, 3, 4, 5] :=
  C08_md5_chunking init [1, 2, 3] [4, 5] (by decide)

/-! ## gzip (`decrunch_gzip`) -/

/-- **framing**: for every legal combination of FTEXT/FHCRC/FEXTRA/FNAME/FCOMMENT, reserved bits,
    mtime/xfl/os values, the parser hands *exactly* the deflate stream to the decoder — whatever the
    decoder is — and accepts its output iff CRC-32 and ISIZE agree with the trailer. -/
theorem C08_gzip_framing (crc : Bytes → UInt32) (dec : Bytes → Option Bytes) (o : GzOpts) (cdata p : Bytes)
    (ho : o.Legal) (hp : p.length < 2^31) :
    gunzip crc dec (gzipWrap crc o cdata p) =
      (match dec cdata with
       | none => none
       | some out => if crc out = crc p ∧ out.length = p.length then some out else none) :=
  gunzip_wrap crc dec o cdata p ho hp

/-- the slice handed to the decoder is (header length, length of the deflate stream) -/
theorem C08_gzip_stream (crc : Bytes → UInt32) (o : GzOpts) (cdata p : Bytes) (ho : o.Legal) :
    gzipStream (gzipWrap crc o cdata p) = some ((gzipHeader o).length, cdata.length) :=
  gzipStream_wrap crc o cdata p ho

/-- hence: a correct inflate gives back the payload -/
theorem C08_gzip_roundtrip (crc : Bytes → UInt32) (dec : Bytes → Option Bytes) (o : GzOpts) (cdata p : Bytes)
    (ho : o.Legal) (hp : p.length < 2^31) (hdec : dec cdata = some p) :
    gunzip crc dec (gzipWrap crc o cdata p) = some p := by
  rw [C08_gzip_framing crc dec o cdata p ho hp, hdec]; simp

/-- non-trivial instance: all optional fields present -/
def exOpts : GzOpts :=
  { ftext := true, reserved := 5, mtime := 0x12345678, xfl := 2, os := 255, extra := some [1, 2, 3],
    name := some [0x61, 0x2e, 0x78, 0x6d], comment := some [0x68, 0x69], hcrc := some (0xaa, 0xbb) }

theorem exOpts_legal : exOpts.Legal := by
  refine ⟨?_, ?_, ?_⟩
  · intro e he; have : e = [1, 2, 3] := by simpa [exOpts] using he.symm
    subst this; decide
  · intro n hn; have : n = [0x61, 0x2e, 0x78, 0x6d] := by simpa [exOpts] using hn.symm
    subst this; intro x hx; simp at hx; rcases hx with h | h | h | h <;> subst h <;> decide
  · intro c hc; have : c = [0x68, 0x69] := by simpa [exOpts] using hc.symm
    subst this; intro x hx; simp at hx; rcases hx with h | h <;> subst h <;> decide

example : gunzip crc32 (fun c => if c = [9, 9] then some [7, 7, 7] else none)
    (gzipWrap crc32 exOpts [9, 9] [7, 7, 7]) = some [7, 7, 7] :=
  C08_gzip_roundtrip _ _ exOpts [9, 9] [7, 7, 7] exOpts_legal (by decide) (by simp)

/-! ## member selection (zip / LHA / ArcFS walks) -/

/-- **the first non-excluded regular member is chosen**, whatever excluded names, directories or
    unsupported entries come before it, and whatever comes after it -/
theorem C08_member_selection (pre post : List Member) (m : Member)
    (hpre : ∀ x ∈ pre, Skipped x) (hm : ¬ Skipped m) :
    selectMember (pre ++ m :: post) = some m := selectMember_skip pre post m hpre hm

/-- and its extraction succeeds given a correct decoder and matching size/check fields -/
theorem C08_member_unpack (crc : Bytes → Nat) (dec : Nat → Bytes → Option Bytes) (pre post : List Member)
    (m : Member) (p : Bytes) (hpre : ∀ x ∈ pre, Skipped x) (hm : ¬ Skipped m)
    (hdec : (if m.method = 0 then some m.cdata else dec m.method m.cdata) = some p)
    (hsz : m.usize = p.length) (hck : m.check = crc p) :
    unpackMembers crc dec (pre ++ m :: post) = some p := by
  unfold unpackMembers
  rw [C08_member_selection pre post m hpre hm]
  simp only [extractMember]
  rw [hdec]; simp [hsz, hck]

/-- "README", "file_id.diz" and "x.txt" are excluded by the generated globs, "test.xm" is not -/
example : excludeMatch [0x52, 0x45, 0x41, 0x44, 0x4d, 0x45] = true := by decide
example : excludeMatch [0x66, 0x69, 0x6c, 0x65, 0x5f, 0x69, 0x64, 0x2e, 0x64, 0x69, 0x7a] = true := by decide
example : excludeMatch [0x74, 0x65, 0x73, 0x74, 0x2e, 0x78, 0x6d] = false := by decide

example : selectMember
    [{ name := [0x52, 0x45, 0x41, 0x44, 0x4d, 0x45] }, { name := [0x64, 0x2f], isDir := true },
     { name := [0x74, 0x65, 0x73, 0x74, 0x2e, 0x78, 0x6d], cdata := [1] },
     { name := [0x78, 0x2e, 0x74, 0x78, 0x74] }] =
    some { name := [0x74, 0x65, 0x73, 0x74, 0x2e, 0x78, 0x6d], cdata := [1] } := by decide

/-! ## fully modelled codec: RLE90 (`arc_unrle90_block`) -/

/-- **decode ∘ render = meaning** for every well-formed token stream, i.e. for every encoder -/
theorem C08_rle90_roundtrip (ts : List Tok) (hok : ∀ t ∈ ts, t.Ok) :
    unrle90 (expand ts).length (render ts) = some (expand ts) := unrle90_render ts hok

example : unrle90 7 [0x41, 0x90, 5, 0x90, 0, 0x42] = some [0x41, 0x41, 0x41, 0x41, 0x41, 0x90, 0x42] := by decide

/-! ## dispatch and pipeline -/

/-- the sniffing limits are consistent: the minimum size fits the sniff buffer and is not larger than the
    smallest gzip member (20 bytes + 2 of deflate) — re-checked against the generated constants -/
theorem C08_sniff_limits : minHeaderSize ≤ sniffSize ∧ minHeaderSize ≤ 22 := by decide

theorem C08_dispatch_gzip (crc : Bytes → UInt32) (o : GzOpts) (cdata p : Bytes)
    (hlen : minHeaderSize ≤ (gzipWrap crc o cdata p).length) :
    dispatch (gzipWrap crc o cdata p) = some "gzip" := dispatch_gzip crc o cdata p hlen

/-- **the dispatch order matters for LHA only**: the signature tests of all other depackers (over the
    generated `depacker_list`) are pairwise exclusive on every buffer -/
theorem C08_tests_exclusive (e1 e2 : String × String × Magic) (h1 : e1 ∈ depackerList) (h2 : e2 ∈ depackerList)
    (n1 : e1.1 ≠ "lha") (n2 : e2.1 ≠ "lha") (hne : e1.1 ≠ e2.1) (b : Bytes)
    (ht : evalMagic e1.2.2 b = true) : evalMagic e2.2.2 b = false := by
  have m1 : e1 ∈ nonLha := by simp [nonLha, h1, n1]
  have m2 : e2 ∈ nonLha := by simp [nonLha, h2, n2]
  exact conflict_excl _ _ b (tests_pairwise_exclusive e1 m1 e2 m2 hne) ht

/-- hence: a file of at least the minimum size whose sniff buffer passes the test of depacker `e` (not LHA)
    and fails LHA's test is dispatched to `e`, wherever `e` stands in `depacker_list` -/
theorem C08_dispatch_of_test (e : String × String × Magic) (he : e ∈ depackerList) (hn : e.1 ≠ "lha")
    (file : Bytes) (hlen : minHeaderSize ≤ (sniff file).length)
    (ht : evalMagic e.2.2 (sniff file) = true)
    (hl : ∀ x ∈ depackerList, x.1 = "lha" → evalMagic x.2.2 (sniff file) = false) :
    dispatch file = some e.1 := by
  unfold dispatch
  have hs : ¬ (sniff file).length < minHeaderSize := by omega
  simp only [hs, if_false]
  rw [find?_unique (fun x => evalMagic x.2.2 (sniff file)) depackerList e he ht]
  · rfl
  · intro x hx hpx
    by_cases hxl : x.1 = "lha"
    · rw [hl x hx hxl] at hpx; exact absurd hpx (by simp)
    · by_cases hxe : x.1 = e.1
      · exact names_unique x hx e he hxe
      · have := C08_tests_exclusive x e hx he hxl hn hxe (sniff file) hpx
        rw [ht] at this; exact absurd this (by simp)

/-- generic part of the pipeline: whenever the modelled `libxmp_decrunch` yields the payload, loading by
    path is loading the payload from memory, and the reported digest is `MD5 p` -/
theorem C08_pipeline_of_decrunch {β : Type} (env : Env) (loader : Bytes → β) (file p : Bytes)
    (h : decrunch env file = some p) :
    loadByPath env loader file = some (loadFromMemory loader p) ∧
    (loadByPath env loader file).map (·.2) = some (md5 p) := by
  unfold loadByPath loadFromMemory
  rw [h]
  simp [C08_md5_read_loop _ C08_md5_bufLen_pos]

/-- **pipeline, gzip instance (complete for this container)**: any legal header options, any payload,
    given a correct inflate.  `_partial`: the same statement for the other containers needs their
    byte-level framing proofs, which are not done (see the file header). -/
theorem C08_pipeline_partial {β : Type} (env : Env) (loader : Bytes → β) (o : GzOpts) (cdata p : Bytes)
    (ho : o.Legal) (hp : p.length < 2^31) (hne : p ≠ [])
    (hlen : minHeaderSize ≤ (gzipWrap env.crc32 o cdata p).length)
    (hdec : env.inflate cdata = some p) :
    loadByPath env loader (gzipWrap env.crc32 o cdata p) = some (loadFromMemory loader p) ∧
    (loadByPath env loader (gzipWrap env.crc32 o cdata p)).map (·.2) = some (md5 p) := by
  apply C08_pipeline_of_decrunch
  unfold decrunch
  rw [C08_dispatch_gzip env.crc32 o cdata p hlen]
  simp only []
  rw [C08_gzip_roundtrip env.crc32 env.inflate o cdata p ho hp hdec]
  have : p.length ≠ 0 := fun h => hne (List.eq_nil_of_length_eq_zero h)
  simp [reopenMem, this]

/-- a file that no signature test accepts is handed to the loader unchanged -/
theorem C08_not_packed {β : Type} (env : Env) (loader : Bytes → β) (file : Bytes) (h : dispatch file = none) :
    loadByPath env loader file = some (loadFromMemory loader file) :=
  (C08_pipeline_of_decrunch env loader file file (by unfold decrunch; rw [h])).1

end Xmp.Container
