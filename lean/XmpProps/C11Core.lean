import XmpProps.C11
import XmpProofs.TestLoadCore
import XmpModel.Stream
/-!
# C11 for the four core formats: the per-format hypotheses of `C11_agree` discharged

`XmpModel.TestLoadCore` models `xm_test`, `mod_test`, `it_test`, `s3m_test` statement by statement
(tie: harness/c11_core.c runs the real `libxmp_loader_*.test` on memory, FILE and callback handles, the
real `test_module` on the real table and the real loaders' `mod->name`).  Here:

* `C11_core_premise` — the three per-loader hypotheses of `C11_agree` (`Premise`: verdict independent
  of the title pointer, handle left on the same data; `NonPos`) HOLD for the four modelled test
  functions;
* `C11_agree_core` — hence test/load agreement for every table that starts with them (the real
  `format_loaders[]` does: `C11_core_table_head`), assuming the per-loader hypotheses only about the
  loaders that FOLLOW; `C11_agree_core_four` — for the four-entry table no per-loader hypothesis is left;
* `C11_core_verdict` — concretely: if a core probe accepts the bytes, `test_module` returns 0 with that
  format's name and `load_module` enters that format's loader and returns 0, −LOAD or −SYSTEM, never
  −FORMAT — whatever the rest of the table is; if the four-entry table rejects, both return −FORMAT;
* `C11_core_title` — the title clause, end to end through both dispatch loops: the title
  `xmp_test_module*` reports and the title `load_module` leaves in `mod->name` (loader's store followed by
  `libxmp_adjust_string`) match up to the library's replacement of unprintable characters, strictly
  (no trailing blanks on either side), for EVERY input some core probe accepts.
-/
namespace Xmp.TestLoad

/-! ## the table (regenerated facts) -/

/-- `format_loaders[]` starts with the four modelled loaders, in the order of `coreOrder`, and their
test functions are the ones modelled -/
theorem C11_core_table_head :
    (Gen.testFacts.take 4).map (fun f => (f.sym, f.fn)) =
      [("libxmp_loader_xm", "xm_test"), ("libxmp_loader_mod", "mod_test"),
       ("libxmp_loader_it", "it_test"), ("libxmp_loader_s3m", "s3m_test")] ∧
    (Gen.testFacts.take 4).map (·.name) = Gen.formatLoaderNames.take 4 ∧
    coreOrder.map CoreFmt.index = [0, 1, 2, 3] := by decide

/-- the stream / title calls of the four test functions, in source order, are the ones the model
was written from (offsets, widths, title lengths): a change of any of them breaks this `decide` -/
theorem C11_core_calls :
    (Gen.testFacts.take 4).map (·.calls) =
      [["hio_read(1, 17)", "libxmp_read_title(20)"],
       ["hio_seek(start + 1080, SEEK_SET)", "hio_read(1, 4)", "hio_seek(start + 20, SEEK_SET)",
        "hio_seek(22, SEEK_CUR)", "hio_read16b()", "hio_read8()", "hio_read8()", "hio_read16b()", "hio_read16b()",
        "hio_size()", "hio_seek(start + 20, SEEK_SET)", "hio_seek(22, SEEK_CUR)", "hio_read16b()",
        "hio_seek(6, SEEK_CUR)", "hio_seek(start + 952, SEEK_SET)", "hio_read8()",
        "hio_seek(start + 1084 + 1024 * i, SEEK_SET)", "hio_read(1024, 1)", "hio_seek(start + 0, SEEK_SET)",
        "libxmp_read_title(20)"],
       ["hio_read32b()", "libxmp_read_title(26)"],
       ["hio_seek(start + 44, SEEK_SET)", "hio_read32b()", "hio_seek(start + 29, SEEK_SET)", "hio_read8()",
        "hio_seek(start + 0, SEEK_SET)", "libxmp_read_title(28)"]] ∧
    coreOrder.map (fun k => (k.titleLen : Int)) = [xmTitleLen, modTitleLen, itTitleLen, s3mTitleLen] ∧
    Gen.xmIdLen = 17 ∧ (asciiBytes Gen.xmIdText).length = Gen.xmIdLen := by decide

/-- the names of the four loaders: none is "prowizard", all fit `xmp_test_info.type` -/
theorem C11_core_names (k : CoreFmt) :
    k.lname ≠ prowizardName ∧ (∀ c ∈ k.lname, c ≠ 0) ∧ k.lname.length < nameSize - 1 :=
  core_lname_facts k

/-! ## the per-loader hypotheses of `C11_agree`, discharged -/

/-- **every per-loader hypothesis of `C11_agree` holds for the four core test functions**: the verdict
does not depend on the title pointer, the handle stays on the same data (`Premise`), and no probe
answers with a positive value (`NonPos`). -/
theorem C11_core_premise (body : CoreFmt → Stream → LoadOut) :
    Premise (coreLoaders body) ∧ NonPos (coreLoaders body) := by
  constructor
  · intro l hl s
    simp only [coreLoaders, coreOrder, List.map_cons, List.map_nil, List.mem_cons, List.mem_nil_iff, or_false] at hl
    rcases hl with rfl | rfl | rfl | rfl <;>
      exact ⟨by simp only [coreLoader]; rw [coreTest_rc_zero, coreTest_rc_zero], fun w => coreTest_data _ s w⟩
  · intro l hl s w
    simp only [coreLoaders, coreOrder, List.map_cons, List.map_nil, List.mem_cons, List.mem_nil_iff, or_false] at hl
    rcases hl with rfl | rfl | rfl | rfl <;> exact coreTest_nonpos _ s w

theorem premise_append {a b : List Loader} (ha : Premise a) (hb : Premise b) : Premise (a ++ b) := by
  intro l hl
  rcases List.mem_append.mp hl with h | h
  · exact ha l h
  · exact hb l h

theorem nonPos_append {a b : List Loader} (ha : NonPos a) (hb : NonPos b) : NonPos (a ++ b) := by
  intro l hl
  rcases List.mem_append.mp hl with h | h
  · exact ha l h
  · exact hb l h

/-- **C11_agree for every table that starts with the four core loaders** (as the real one does): the
per-loader hypotheses are needed only for the loaders that follow them. -/
theorem C11_agree_core (e : Env) (body : CoreFmt → Stream → LoadOut) (rest : List Loader)
    (he : e.loaders = coreLoaders body ++ rest) (hp : Premise rest) (hn : NonPos rest) (hprep : PrepOk e.loaders)
    (s : Stream) (info : Option Info) :
    ((testModule e s info).1 = 0 ↔ (loadModule e s).recognized = true) ∧
    ((testModule e s info).1 = eFormat ↔ (loadModule e s).rc = eFormat) ∧
    ((testModule e s info).1 = 0 ∨ (testModule e s info).1 = eFormat) ∧
    ((loadModule e s).recognized = true →
      (loadModule e s).rc = 0 ∨ (loadModule e s).rc = eLoad ∨ (loadModule e s).rc = eSystem) := by
  have hc := C11_core_premise body
  exact C11_agree e s info (by rw [he]; exact premise_append hc.1 hp) (by rw [he]; exact nonPos_append hc.2 hn) hprep

/-- the environment whose table is exactly the four core loaders -/
def coreEnv (body : CoreFmt → Stream → LoadOut) : Env :=
  { loaders := coreLoaders body, pw := fun _ => none, bufGarbage := [], pwGarbage := [] }

/-- **C11_agree for the concrete four-entry table: no per-loader hypothesis left.**  What remains is
`PrepOk`, a fact about `libxmp_prepare_scan` (its `return` statements, `C11_prepare_scan_codes`), not
about any format. -/
theorem C11_agree_core_four (body : CoreFmt → Stream → LoadOut) (hprep : PrepOk (coreLoaders body))
    (s : Stream) (info : Option Info) :
    ((testModule (coreEnv body) s info).1 = 0 ↔ (loadModule (coreEnv body) s).recognized = true) ∧
    ((testModule (coreEnv body) s info).1 = eFormat ↔ (loadModule (coreEnv body) s).rc = eFormat) ∧
    ((testModule (coreEnv body) s info).1 = 0 ∨ (testModule (coreEnv body) s info).1 = eFormat) ∧
    ((loadModule (coreEnv body) s).recognized = true →
      (loadModule (coreEnv body) s).rc = 0 ∨ (loadModule (coreEnv body) s).rc = eLoad ∨
      (loadModule (coreEnv body) s).rc = eSystem) :=
  C11_agree_core (coreEnv body) body [] (by simp [coreEnv]) (fun _ h => by cases h) (fun _ h => by cases h)
    (by simpa [coreEnv] using hprep) s info

/-! ## the verdict, concretely -/

/-- what `load_module` makes of the selected core loader's outcome -/
theorem core_loadModule (e : Env) (body : CoreFmt → Stream → LoadOut) (rest : List Loader)
    (he : e.loaders = coreLoaders body ++ rest) (s : Stream) (k : CoreFmt) (hk : coreFirst s.data = some k) :
    (loadModule e s).recognized = true ∧ (loadModule e s).fmt = some k.lname ∧
    ((loadModule e s).rc = eLoad ∨
      ((loadModule e s).rc = (body k { data := s.data }).prep ∧ (body k { data := s.data }).prep < 0) ∨
      ((loadModule e s).rc = 0 ∧ (loadModule e s).name = some (adjustStringBuf (coreName k s.data)))) := by
  have hw := core_loadWalk e body rest he s k hk (-1)
  unfold loadModule
  rw [hw]
  simp only [show ¬ ((0 : Int) < 0) by decide, if_false]
  simp only [coreLoader]
  by_cases h1 : (body k { data := s.data }).rc < 0
  · simp [h1]
  · by_cases h2 : (!(body k { data := s.data }).sane) = true
    · simp [h1, h2]
    · by_cases h3 : (body k { data := s.data }).prep < 0
      · simp [h1, h2, h3]
      · by_cases h4 : (body k { data := s.data }).scan < 0
        · simp [h1, h2, h3, h4]
        · simp [h1, h2, h3, h4]

/-- **test accepts ⇒ the loader is entered and the result is never −FORMAT** — for the table of the real
library's shape (four core loaders, then anything): when `k` is the first core format whose probe accepts
the bytes, `test_module` returns 0 and names `k`; `load_module` selects `k`'s loader and returns 0, −LOAD or
−SYSTEM.  No assumption about the loaders that follow in the table. -/
theorem C11_core_verdict (e : Env) (body : CoreFmt → Stream → LoadOut) (rest : List Loader)
    (he : e.loaders = coreLoaders body ++ rest) (s : Stream) (k : CoreFmt) (hk : coreFirst s.data = some k)
    (hprep : (body k { data := s.data }).prep ∈ Gen.prepareScanReturns) (i : Info) :
    (testModule e s (some i)).1 = 0 ∧
    (∃ i', (testModule e s (some i)).2.1 = some i' ∧ cstr i'.type = k.lname) ∧
    (loadModule e s).recognized = true ∧ (loadModule e s).fmt = some k.lname ∧
    ((loadModule e s).rc = 0 ∨ (loadModule e s).rc = eLoad ∨ (loadModule e s).rc = eSystem) ∧
    (loadModule e s).rc ≠ eFormat := by
  obtain ⟨b, ht⟩ := core_testModule e body rest he s k hk (some i)
  obtain ⟨hrec, hfmt, hrc⟩ := core_loadModule e body rest he s k hk
  have hd := C11_codes_distinct
  have hnm := core_lname_facts k
  have rc3 : (loadModule e s).rc = 0 ∨ (loadModule e s).rc = eLoad ∨ (loadModule e s).rc = eSystem := by
    rcases hrc with h | ⟨h, hneg⟩ | ⟨h, _⟩
    · exact Or.inr (Or.inl h)
    · rcases C11_prepare_scan_codes _ hprep with h' | h' | h'
      · rw [h'] at hneg; exact absurd hneg (by decide)
      · exact Or.inr (Or.inl (h.trans h'))
      · exact Or.inr (Or.inr (h.trans h'))
    · exact Or.inl h
  refine ⟨by rw [ht], ⟨_, by rw [ht]; rfl, ?_⟩, hrec, hfmt, rc3, ?_⟩
  · -- the type string: strncpy of a short name without NUL
    show cstr (boundedCopy (set0 i.type) k.lname) = k.lname
    unfold boundedCopy strncpyBuf
    rw [cstr_of_no_zero _ hnm.2.1, List.take_of_length_le (Nat.le_of_lt hnm.2.2)]
    have hpos : 0 < nameSize - 1 - k.lname.length := by have := hnm.2.2; omega
    rw [List.take_append_of_le_length (by simp only [List.length_append, zeros_length]; omega)]
    rw [List.take_of_length_le (by simp only [List.length_append, zeros_length]; omega)]
    have := cstr_append_zeros k.lname (nameSize - 1 - k.lname.length) ([0] ++ (set0 i.type).drop nameSize) hnm.2.1 hpos
    simpa [List.append_assoc] using this
  · rcases rc3 with h | h | h <;> rw [h]
    · exact hd.1.symm
    · exact hd.2.1.symm
    · exact hd.2.2.1.symm

/-- **all four reject ⇒ −FORMAT on both sides** (four-entry table) -/
theorem C11_core_reject (body : CoreFmt → Stream → LoadOut) (s : Stream) (info : Option Info)
    (h : ∀ k : CoreFmt, k.accepts s.data = false) :
    (testModule (coreEnv body) s info).1 = eFormat ∧ (loadModule (coreEnv body) s).rc = eFormat ∧
    (loadModule (coreEnv body) s).recognized = false := by
  have key : ∀ (k : CoreFmt) (w : Bool), ((coreLoader k (body k)).test { data := s.data } w).rc ≠ 0 := by
    intro k w h0
    have := (coreTest_rc_zero k { data := s.data } w).mp h0
    have h2 := h k
    simp only [CoreFmt.accepts] at h2
    rw [h2] at this; cases this
  have hrej : ∀ x ∈ coreLoaders body, ∀ w, (x.test { data := s.data } w).rc ≠ 0 := by
    intro x hx w
    simp only [coreLoaders, coreOrder, List.map_cons, List.map_nil, List.mem_cons, List.mem_nil_iff, or_false] at hx
    rcases hx with rfl | rfl | rfl | rfl
    · exact key .xm w
    · exact key .mod w
    · exact key .it w
    · exact key .s3m w
  have ht : (testModule (coreEnv body) s info).1 = eFormat := by
    obtain ⟨s', b, _, hw⟩ := testWalk_skip (coreEnv body) [] s.data (coreLoaders body) (coreLoaders_dataPres body)
      (fun x hx => hrej x hx true) s (if Gen.testBufInit = 1 then set0 (coreEnv body).bufGarbage else (coreEnv body).bufGarbage)
      (resetInfo info) rfl
    unfold testModule
    have : (coreEnv body).loaders = coreLoaders body ++ [] := by simp [coreEnv]
    rw [this, hw]; rfl
  have hp := C11_core_premise body
  have hL : (loadWalk (coreEnv body).loaders s (-1)).1 < 0 := by
    have hnone : (loadWalk (coreEnv body).loaders s (-1)).2.1.isSome = false := by
      have hw := walks_agree (coreEnv body) (coreEnv body).loaders hp.1 s s
        (if Gen.testBufInit = 1 then set0 (coreEnv body).bufGarbage else (coreEnv body).bufGarbage) (resetInfo info) (-1) rfl
      have h1 : (testModule (coreEnv body) s info).1 ≠ 0 := by rw [ht]; exact C11_codes_distinct.1
      cases hs : (loadWalk (coreEnv body).loaders s (-1)).2.1.isSome with
      | false => rfl
      | true => exact absurd (hw.1.mpr hs) h1
    exact loadWalk_none_neg _ hp.2 s (-1) (by decide) hnone
  have := loadModule_format (coreEnv body) s hL
  rw [this]
  exact ⟨ht, rfl, rfl⟩

/-! ## the title clause, end to end -/

/-- the title `xmp_test_module*` reports for a module of core format `k` -/
def coreTestTitle (k : CoreFmt) (d : Bytes) : Bytes := titleOfRaw (k.raw d)

/-- the title `load_module` leaves: the loader's store, then `libxmp_adjust_string` -/
def coreLoadTitle (k : CoreFmt) (d : Bytes) : Bytes := adjustString (coreName k d)

/-- in terms of the raw title field of the file: xm / mod / it keep the raw bytes and `load_module`
normalises them with `' '`; s3m_load normalises with `'.'` itself and `libxmp_adjust_string` then changes
nothing -/
theorem coreLoadTitle_eq (k : CoreFmt) (d : Bytes) :
    coreLoadTitle k d = (if k = .s3m then titleOfRaw (k.raw d) else adjustString (k.raw d)) := by
  unfold coreLoadTitle adjustString
  rw [(coreName_cstr k d).2]
  split
  · -- adjust_string after copy_adjust is the identity
    have h := (C11_title (k.raw d) (k.raw d).length).2.2
    have e1 : copyAdjust (k.raw d) (k.raw d).length = titleOfRaw (k.raw d) := by
      unfold copyAdjust titleOfRaw; rw [List.take_length]
    rw [e1] at h
    unfold adjustString at h
    have nz : ∀ c ∈ titleOfRaw (k.raw d), c ≠ 0 := by
      intro c hc
      rw [← e1] at hc
      exact isPrint_ne_zero (copyAdjust_printable _ _ c hc)
    rw [cstr_of_no_zero _ nz] at h
    exact h
  · rfl

/-- **C11_title for the core formats, at the level of the file bytes**: for every byte string, the test
title and the loaded title of each core format match strictly. -/
theorem C11_core_title_bytes (k : CoreFmt) (d : Bytes) :
    titleMatchStrict (coreTestTitle k d) (coreLoadTitle k d) = true := by
  have h := C11_title_strict (k.raw d) (k.raw d).length
  have e1 : copyAdjust (k.raw d) (k.raw d).length = titleOfRaw (k.raw d) := by
    unfold copyAdjust titleOfRaw; rw [List.take_length]
  rw [e1, List.take_length] at h
  rw [coreLoadTitle_eq]
  unfold coreTestTitle
  split
  · -- both sides identical
    have nz : ∀ c ∈ titleOfRaw (k.raw d), c ≠ 0 := by
      intro c hc
      rw [← e1] at hc
      exact isPrint_ne_zero (copyAdjust_printable _ _ c hc)
    have t1 : noTrailingSpace (titleOfRaw (k.raw d)) = true := by
      unfold noTrailingSpace
      rw [cstr_of_no_zero _ nz]
      unfold titleOfRaw
      rw [trimR_idem]; exact beq_self_eq_true _
    simp only [titleMatchStrict, titleMatch, beq_self_eq_true, t1, Bool.and_self]
  · exact h

/-- **C11_title through both dispatch loops**: on a table that starts with the four core loaders, for
every input on which `k` is the first core format to accept and every caller-supplied `info` of the right
size: `test_module` returns 0 and fills `info->name` with a NUL-terminated string equal to
`coreTestTitle k`; whenever `load_module` returns 0 the module's name is NUL-terminated and equal to
`coreLoadTitle k`; and the two match strictly. -/
theorem C11_core_title (e : Env) (body : CoreFmt → Stream → LoadOut) (rest : List Loader)
    (he : e.loaders = coreLoaders body ++ rest) (s : Stream) (k : CoreFmt) (hk : coreFirst s.data = some k)
    (i : Info) (hw : i.name.length = nameSize) :
    (∃ i', testModule e s (some i) = (0, some i', (k.test { data := s.data } true).st) ∧
        hasNul i'.name = true ∧ i'.name.length = nameSize ∧ cstr i'.name = coreTestTitle k s.data) ∧
    ((loadModule e s).rc = 0 →
      ∃ nm, (loadModule e s).name = some nm ∧ hasNul nm = true ∧ cstr nm = coreLoadTitle k s.data ∧
        ∀ i', (testModule e s (some i)).2.1 = some i' → titleMatchStrict (cstr i'.name) (cstr nm) = true) := by
  obtain ⟨b, ht⟩ := core_testModule e body rest he s k hk (some i)
  obtain ⟨hacc, _⟩ := coreFirst_some hk
  obtain ⟨w, hw1, hw2, hw3⟩ := coreTest_title k s.data hacc
  have hname : cstr (boundedCopy (set0 i.name) (overlayOpt (k.test { data := s.data } true).title b)) = coreTestTitle k s.data := by
    rw [hw1]
    simp only [overlayOpt, overlay]
    have hc : cstr (w ++ b.drop w.length) = titleOfRaw (k.raw s.data) := by
      rw [cstr_append_of_hasNul _ _ hw2, hw3]
    have hlen : (titleOfRaw (k.raw s.data)).length ≤ nameSize - 1 := by
      have h1 : (titleOfRaw (k.raw s.data)).length ≤ (cstr (k.raw s.data)).length := by
        unfold titleOfRaw
        exact Nat.le_trans (trimR_length_le _) (by simp)
      have h2 := cstr_raw_length_le k s.data
      have h3 := k.titleLen_lt
      omega
    have nz : ∀ c ∈ titleOfRaw (k.raw s.data), c ≠ 0 := by
      intro c hc'
      have : c ∈ (cstr (k.raw s.data)).map dotCh := trimR_mem hc'
      obtain ⟨x, _, rfl⟩ := List.mem_map.mp this
      exact dotCh_ne_zero x
    unfold boundedCopy strncpyBuf
    rw [hc, List.take_of_length_le hlen]
    rw [List.take_append_of_le_length (by simp only [List.length_append, zeros_length]; omega)]
    rw [List.take_of_length_le (by simp only [List.length_append, zeros_length]; omega)]
    by_cases hz : 0 < nameSize - 1 - (titleOfRaw (k.raw s.data)).length
    · have := cstr_append_zeros (titleOfRaw (k.raw s.data)) _ ([0] ++ (set0 i.name).drop nameSize) nz hz
      simpa [List.append_assoc, coreTestTitle] using this
    · have hz0 : nameSize - 1 - (titleOfRaw (k.raw s.data)).length = 0 := by omega
      simp only [hz0, zeros, List.replicate_zero, List.append_nil, coreTestTitle]
      rw [List.append_assoc]
      exact cstr_append_zero _ _ nz
  have hn0 : (set0 i.name).length = nameSize := by rw [set0_length]; exact hw
  refine ⟨⟨_, ht, boundedCopy_hasNul _ _, boundedCopy_length _ _ hn0, hname⟩, ?_⟩
  intro hrc0
  obtain ⟨_, _, hrc⟩ := core_loadModule e body rest he s k hk
  have hd := C11_codes_distinct
  have hnm : (loadModule e s).name = some (adjustStringBuf (coreName k s.data)) := by
    rcases hrc with h | ⟨h, hneg⟩ | ⟨_, h⟩
    · rw [hrc0] at h; exact absurd h.symm hd.2.2.2.2.2.2.2.2
    · rw [hrc0] at h; rw [← h] at hneg; exact absurd hneg (by decide)
    · exact h
  have hcn := coreName_cstr k s.data
  have hlen : (adjustStringBuf (coreName k s.data)).length = (coreName k s.data).length := adjustStringBuf_length _
  have hcs : cstr (adjustStringBuf (coreName k s.data)) = coreLoadTitle k s.data := cstr_adjustStringBuf _ hcn.1
  refine ⟨_, hnm, ?_, hcs, ?_⟩
  · -- the adjusted array still holds a NUL: its C string is shorter than the array
    have hlt := cstr_length_lt_of_hasNul _ hcn.1
    have hle := adjustString_length_le (coreName k s.data)
    unfold adjustStringBuf
    by_cases hz : 0 < (cstr (coreName k s.data)).length - (adjustString (coreName k s.data)).length
    · exact hasNul_append_left (hasNul_append_right (hasNul_zeros hz))
    · apply hasNul_append_right
      -- nothing trimmed: the original terminator is still there
      have : ∀ (bb : Bytes), hasNul bb = true → hasNul (bb.drop (cstr bb).length) = true := by
        intro bb
        induction bb with
        | nil => intro h; simp [hasNul] at h
        | cons x xs ih =>
          intro h
          by_cases hx : x = 0
          · subst hx; simp [cstr, hasNul]
          · have h' : hasNul xs = true := by
              simp only [hasNul, List.any_cons, Bool.or_eq_true, decide_eq_true_eq] at h ⊢
              rcases h with h | h
              · exact absurd h hx
              · simpa [hasNul] using h
            simpa [cstr, hx] using ih h'
      exact this _ hcn.1
  · intro i' hi'
    rw [ht] at hi'
    simp only [resetInfo, Option.map_some, Option.some.injEq] at hi'
    subst hi'
    rw [hname, hcs]
    exact C11_core_title_bytes k s.data

/-! ## non-vacuity: concrete inputs -/

/-- a 30-byte Impulse Tracker header with an unprintable byte and trailing blanks in the title -/
def exIt : Bytes := [73, 77, 80, 77, 72, 1, 105, 32, 32] ++ List.replicate 21 0

example : coreFirst exIt = some .it ∧ coreTestTitle .it exIt = [72, 46, 105] ∧ coreLoadTitle .it exIt = [72, 32, 105] := by
  decide

/-- an XM id followed by a title -/
def exXm : Bytes := asciiBytes Gen.xmIdText ++ [65, 66, 32, 0] ++ List.replicate 40 7

example : coreFirst exXm = some .xm ∧ coreTestTitle .xm exXm = [65, 66] ∧ coreLoadTitle .xm exXm = [65, 66] := by decide

/-- neither: all four probes reject -/
example : ∀ k : CoreFmt, k.accepts [1, 2, 3] = false := by intro k; cases k <;> decide

/-- the hypotheses of `C11_agree_core_four` / `C11_core_verdict` for a body that always loads -/
example : PrepOk (coreLoaders fun _ _ => { rc := 0, name := [] }) := by
  intro l hl s
  simp only [coreLoaders, coreOrder, List.map_cons, List.map_nil, List.mem_cons, List.mem_nil_iff, or_false] at hl
  rcases hl with rfl | rfl | rfl | rfl <;> simp [coreLoader, Gen.prepareScanReturns]

example :
    let e := coreEnv fun _ _ => { rc := 0, name := [] }
    (testModule e { data := exIt } (some f15Info)).1 = 0 ∧ (loadModule e { data := exIt }).rc = 0 ∧
    ((loadModule e { data := exIt }).name.map cstr) = some [72, 32, 105] ∧
    ((testModule e { data := exIt } (some f15Info)).2.1.map fun i => cstr i.name) = some [72, 46, 105] := by
  decide

end Xmp.TestLoad

namespace Xmp.TestLoad

/-! ## every entry of `format_loaders[]`: how its test function stores the title (regenerated facts)

`Gen.testFacts` lists, for each of the loaders, the source file of its test function, the stream and title
calls it makes and — by class — every store through the title pointer; for the loader side the widths of the
stores into `mod->name`.  The theorems below are `decide`d over the regenerated list: a new loader, a test
function that starts writing its title by hand, or a title width that differs between a test function and its
loader breaks them. -/

def isReadTitle (w : String) : Bool := w.toList.take 11 == "read_title:".toList

/-- a store through the title pointer that leaves a NUL-terminated, normalised title: `libxmp_read_title`,
`libxmp_copy_adjust`, `*t = 0`, or the ProWizard detector's `pw_read_title` (via `pw_test_format`) -/
def writeClassOk (w : String) : Bool :=
  isReadTitle w || w == "copy_adjust" || w == "empty" || w == "pw_test_format"

/-- **every test function of the table stores its title, and only through the library's title
functions** (no hand-written copies into the caller's buffer: those were the source of the unterminated /
uninitialised titles repaired earlier) -/
theorem C11_tests_title_discipline :
    Gen.testFacts.all (fun f => !f.writes.isEmpty && f.writes.all writeClassOk) = true ∧
    Gen.testFacts.map (·.name) = Gen.formatLoaderNames := by decide

/-- the test functions that give up on the title (`*t = 0` although the format has one) are exactly known
findings; and every known title finding is a test function whose title store is conditional (a
`libxmp_read_title` of computed length with an empty fallback) or absent — none of them is a test function
that reads a fixed-width title field -/
theorem C11_tests_title_deviants :
    Gen.testFacts.all (fun f => !(f.writes.contains "empty") || Gen.titleDeviants.contains f.sym) = true ∧
    Gen.testFacts.all (fun f => !(Gen.titleDeviants.contains f.sym) ||
      (f.writes.contains "empty" || f.writes.contains "read_title:0")) = true := by decide

def cap63 (n : Nat) : Nat := if n ≥ Gen.XMP_NAME_SIZE then Gen.XMP_NAME_SIZE - 1 else n

/-- test width(s) against loader width(s), where both are literal: the same set of widths (after the cap
`libxmp_read_title` applies); for a wrapper format (one that calls other loaders' `loader`) the widths its test
reads are, as a multiset, the widths the wrapped formats' tests read. -/
def widthOk (f : Gen.TestFacts) : Bool :=
  if !f.testLiteral then true
  else if f.delegates.isEmpty then
    (!f.loadLiteral || f.loadWidths.isEmpty) ||
      ((f.testWidths.map cap63).all (fun w => (f.loadWidths.map cap63).contains w) &&
       (f.loadWidths.map cap63).all (fun w => (f.testWidths.map cap63).contains w))
  else
    (f.testWidths.map cap63).isPerm
      (((Gen.testFacts.filter fun g => f.delegates.contains g.sym).flatMap (·.testWidths)).map cap63)

/-- **the title width a test function reads is the width its loader stores** for every loader where both are
literal in the source (the four core formats' widths are additionally PROVED equal to the model's,
`C11_core_calls`), and the UMX wrapper reads each wrapped format's title with that format's width -/
theorem C11_title_widths : Gen.testFacts.all widthOk = true := by decide

/-- how many loaders the width comparison actually constrains (not vacuous) -/
theorem C11_title_widths_coverage :
    20 ≤ (Gen.testFacts.filter fun f => f.testLiteral && f.delegates.isEmpty && f.loadLiteral && !f.loadWidths.isEmpty).length ∧
    1 ≤ (Gen.testFacts.filter fun f => f.testLiteral && !f.delegates.isEmpty).length := by decide

end Xmp.TestLoad

namespace Xmp.TestLoad

/-! ## the caller's FILE after `xmp_test_module_from_file` (stream model of C07, read-only)

`C11_no_side_effect` says the wrapper never closes the caller's `FILE`.  On the FILE back-end of
`XmpModel.Stream` (glibc `fread/fseek/ftell/feof` as hio.c uses them; tied to the real back-end by C07's
correspondence) nothing the probes can do — any sequence of `hio_*` operations, including failed reads, seeks
beyond the end and refused negative seeks — leaves the stream in a state the caller cannot recover from: one
`fseek(f, 0, SEEK_SET)` succeeds, clears the end-of-file indicator and a following `fread` delivers the file's
bytes from the start.  (The position itself is NOT restored by the library: the caller has to rewind, which is
what the oracle does before it checks `ftell`/`fread`.) -/

/-- the FILE state after a list of stream operations -/
def fileAfter (bytes : Bytes) : List Stream.Op → Stream.File.St → Stream.File.St
  | [], t => t
  | o :: os, t => fileAfter bytes os (Stream.File.step bytes t o).2

/-- **C11_no_side_effect, FILE usability**: after ANY operations of the library on the caller's stream, from any
state, a rewind succeeds (result 0), the position is 0, the end-of-file indicator is clear, and reading `n`
bytes returns the first `n` bytes of the file. -/
theorem C11_file_usable (bytes : Bytes) (ops : List Stream.Op) (t0 : Stream.File.St) :
    let t := fileAfter bytes ops t0
    let r := Stream.File.step bytes t (.seek 0 .set)
    r.1 = .val 0 ∧ r.2.pos = 0 ∧ r.2.eofF = false ∧
    ∀ n, 0 < n → (Stream.File.fread bytes r.2 1 n).2.1 = bytes.take n ∧
                 (Stream.File.fread bytes r.2 1 n).1 = min n bytes.length := by
  intro t r
  have hr : r = (.val 0, { pos := 0, eofF := false, err := t.err.afterSeek }) := by
    simp [r, Stream.File.step, Stream.target]
  rw [hr]
  refine ⟨rfl, rfl, rfl, fun n hn => ?_⟩
  have hne : ¬ (n = 0) := by omega
  simp only [Stream.File.fread, Stream.slice, List.drop_zero, Nat.one_mul, Nat.div_one, List.length_take, hne,
    if_false]
  exact ⟨trivial, trivial⟩

/-- a stream the probes ran into the ground: read past the end, then a refused seek -/
example :
    let t := fileAfter [1, 2, 3] [.seek 2 .set, .word .b32, .seek (-9) .cur, .read 1 8] {}
    t.eofF = true ∧ t.err ≠ .none ∧
    (Stream.File.step [1, 2, 3] t (.seek 0 .set)).1 = .val 0 ∧
    (Stream.File.fread [1, 2, 3] (Stream.File.step [1, 2, 3] t (.seek 0 .set)).2 1 2).2.1 = [1, 2] := by decide

end Xmp.TestLoad

namespace Xmp.TestLoad

/-! ## chunk walkers: the step of a test function against the step of its loader's IFF walk -/

/-- a test function that walks chunks by a non-literal relative seek steps exactly like every IFF walk of its
loader: the distance is the plain value of the size field, read with the same fixed-width reader, and the
loader's walk has no quirk that changes the step (alignment, full-chunk size, truncation, embedded RIFF).
(`param` — a seek by the function's own `start` argument — is no chunk step.) -/
def chunkStepOk (f : Gen.TestFacts) : Bool :=
  (f.chunkSteps.filter (· != "param")).all fun st =>
    !f.iffSteps.isEmpty && f.iffSteps.all fun l => st == "exact:" ++ l

/-- **every chunk-walking test function steps from chunk to chunk exactly as its loader does** (syntactically the
same step: regenerated from the sources) -/
theorem C11_chunk_steps :
    Gen.testFacts.all chunkStepOk = true ∧
    1 ≤ (Gen.testFacts.filter fun f => !(f.chunkSteps.filter (· != "param")).isEmpty).length := by decide

end Xmp.TestLoad
