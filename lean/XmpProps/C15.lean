import XmpProofs.Wrap
import XmpModel.Gen.DataWriters
/-!
# C15 — Playback never alters the loaded module

Property theorems over the model `XmpModel.Wrap` (src/mixer.c:
`init_sample_wraparound`, `reset_sample_wraparound`, the per-voice control
skeleton of `libxmp_mixer_softmixer`) and over the generated list of store
sites `XmpModel.Gen.DataWriters` (every store that player-side C code makes into
a module table, regenerated from /repo on every run).

* `C15_restore`          reset ∘ init = id on a sample allocation — for *all* voice parameters,
                         8/16-bit (the element type `α`), mono/stereo, forward/bidirectional,
                         first loop or not, any interpolator, any memory content;
* `C15_patch_frame`, `C15_reset_frame`, `C15_patch_in_bounds`
                         the only elements ever stored to are the prologue/epilogue blocks, and
                         with the guard sizes generated from `libxmp_load_sample` these lie inside
                         the allocation whenever `0 ≤ start ≤ end ≤ len`;
* `C15_skeleton`         along every path of the softmixer's voice loop (early `continue`s, `break`,
                         one-shot end, swap stop, Protracker hot swap, loop change) the sample table
                         equals the original whenever control leaves a voice iteration; every mix
                         kernel sees exactly the patched original (`C15_skeleton_kernel_view`);
* `C15_invloop_in_loop`  the one legal writer, `update_invloop`, stores only inside the loop of its sample;
* `C15_writers`          every generated store site belongs to an allowed class.
-/
namespace Xmp.Wrap
open Xmp.Gen.DataWriters

variable {α : Type} [Inhabited α]

/-- `LOOP_PROLOGUE`, `LOOP_EPILOGUE` as generated from src/mixer.c. -/
def genConsts : Consts := { prologue := loopPrologue, epilogue := loopEpilogue }

/-- bytes per element / elements per frame -/
def elemSize (is16 : Bool) : Nat := if is16 then 2 else 1
def chans (stereo : Bool) : Nat := if stereo then 2 else 1

/-- index of `sptr[0]` in an allocation made by `libxmp_load_sample` (guard bytes in front) -/
def genBase (is16 : Bool) : Nat := guardPreBytes / elemSize is16
/-- number of elements of an allocation made by `libxmp_load_sample` for `len` frames -/
def genAlloc (xxs : SampleHdr) (len : Nat) : Nat := genBase xxs.is16 + (len + guardPostFrames) * chans xxs.stereo

/-- the guard in front is a whole number of elements (so byte and element bounds coincide) -/
theorem C15_guard_aligned : ∀ is16, genBase is16 * elemSize is16 = guardPreBytes := by decide

/-- **Restore.** `reset_sample_wraparound` after `init_sample_wraparound` leaves the sample
allocation exactly as it was: for every element type (8/16 bit), every voice (`start`, `end`,
bidirectional or not, first loop or not, NULL sample pointer), every sample header
(loop/16-bit/stereo), every interpolator, every `base`, every memory content — in particular
for all `0 ≤ start ≤ end ≤ len`.  (Outside these bounds the C code has undefined behaviour; the
model's total reads/writes make the statement unconditional.) -/
theorem C15_restore (c : Consts) (nearest : Bool) (base : Nat) (vi : Voice) (xxs : SampleHdr) (m : List α) :
    resetWrap base (initWrap c nearest base vi xxs m).1 (initWrap c nearest base vi xxs m).2 = m :=
  resetWrap_initWrap c nearest base vi xxs m

/-- non-trivial instance: an 8-bit mono forward loop `[2,5)` of a 6-frame sample played past its
first loop is really patched (prologue and epilogue overwritten) and really restored -/
example :
    let vi : Voice := { start := 2, «end» := 5, sampleLoop := true }
    let xxs : SampleHdr := { loop := true }
    let m : List Nat := [90, 91, 92, 93, 0, 1, 2, 3, 4, 5, 80, 81, 82, 83]
    let r := initWrap genConsts false 4 vi xxs m
    r.2 = [90, 91, 92, 93, 0, 4, 2, 3, 4, 2, 3, 81, 82, 83] ∧ r.1.active = true ∧
    resetWrap 4 r.1 r.2 = m := by decide

/-- the same for a 16-bit-stereo-shaped bidirectional loop (element pairs) -/
example :
    let vi : Voice := { start := 1, «end» := 3, sampleLoop := true, bidir := true }
    let xxs : SampleHdr := { loop := true, is16 := true, stereo := true }
    let m : List Nat := [70, 71, 10, 11, 20, 21, 30, 31, 40, 41, 50, 51, 60, 61]
    let r := initWrap genConsts false 2 vi xxs m
    r.2 ≠ m ∧ resetWrap 2 r.1 r.2 = m := by decide

/-- **Frame of the patch.** `init_sample_wraparound` changes no element outside the two blocks
recorded in `loop_data`. -/
theorem C15_patch_frame (c : Consts) (nearest : Bool) (base : Nat) (vi : Voice) (xxs : SampleHdr) (m : List α) (k : Int)
    (h : ¬ inRegion base (initWrap c nearest base vi xxs m).1 k) :
    getI (initWrap c nearest base vi xxs m).2 k = getI m k :=
  initWrap_frame c nearest base vi xxs m k h

/-- **Frame of the restore.** `reset_sample_wraparound` stores only into the two blocks recorded in
`loop_data` (whose backups have the recorded sizes). -/
theorem C15_reset_frame (base : Nat) (ld : LoopData α) (m : List α) (k : Int)
    (hp : ld.prologue.length = ld.pnum) (he : ld.epilogue.length = ld.enum)
    (hk0 : 0 ≤ k) (hk1 : k < m.length) (h : ¬ inRegion base ld k) :
    getI (resetWrap base ld m) k = getI m k := by
  unfold resetWrap
  by_cases ha : ld.active = true
  · simp only [ha, Bool.not_true, Bool.false_eq_true, if_false]
    simp only [inRegion, ha, true_and] at h
    rw [getI_copyIn _ _ _ _ hk0 (by rw [length_copyIn]; exact hk1), he, if_neg (by omega),
        getI_copyIn _ _ _ _ hk0 hk1, hp, if_neg (by omega)]
  · simp [ha]

/-- **The patch stays inside the allocation.** For an allocation laid out by `libxmp_load_sample`
(generated guard sizes: `guardPreBytes` in front, `guardPostFrames` frames behind `len` frames of
data) and loop points `0 ≤ start ≤ end ≤ len`, every element index that `init_sample_wraparound` or
`reset_sample_wraparound` may store to (by `C15_patch_frame`/`C15_reset_frame`: the blocks of
`loop_data`) is a valid index of the allocation.  Needs `LOOP_PROLOGUE` frames ≤ the front guard
and `LOOP_EPILOGUE ≤ guardPostFrames` — re-checked against the regenerated constants. -/
theorem C15_patch_in_bounds (nearest : Bool) (vi : Voice) (xxs : SampleHdr) (len : Nat) (m : List α)
    (hlen : m.length = genAlloc xxs len)
    (h0 : 0 ≤ vi.start) (h1 : vi.start ≤ vi.end) (h2 : vi.end ≤ len) (k : Int)
    (hk : inRegion (genBase xxs.is16) (initWrap genConsts nearest (genBase xxs.is16) vi xxs m).1 k) :
    0 ≤ k ∧ k < m.length := by
  by_cases hact : (vi.sptrNull || nearest || !xxs.loop) = true
  · rw [initWrap_inactive _ _ _ _ _ _ hact] at hk
    simp [inRegion] at hk
  · rw [hlen]
    simp only [initWrap, hact, inRegion, genConsts, loopPrologue, loopEpilogue] at hk
    simp only [Bool.false_eq_true, if_false, true_and] at hk
    simp only [genAlloc, genBase, guardPreBytes, guardPostFrames, elemSize, chans] at hk ⊢
    rcases xxs with ⟨lp, is16, stereo⟩
    cases is16 <;> cases stereo <;> simp at hk ⊢ <;> omega

/-- hypotheses of `C15_patch_in_bounds` are satisfiable with a patch that reaches both guards:
loop over the whole 2-frame sample, `start = 0` (prologue in the front guard), `end = len`
(epilogue in the rear guard) -/
example :
    let vi : Voice := { start := 0, «end» := 2, sampleLoop := true }
    let xxs : SampleHdr := { loop := true }
    let m : List Nat := [90, 91, 92, 93, 7, 8, 80, 81, 82, 83]
    m.length = genAlloc xxs 2 ∧
    inRegion (genBase false) (initWrap genConsts false (genBase false) vi xxs m).1 3 ∧
    inRegion (genBase false) (initWrap genConsts false (genBase false) vi xxs m).1 7 ∧
    (initWrap genConsts false (genBase false) vi xxs m).2 = [90, 91, 92, 8, 7, 8, 7, 8, 82, 83] := by
  refine ⟨by decide, ?_, ?_, by decide⟩ <;> (simp only [inRegion]; decide)

/-! ## the softmixer's control skeleton -/

/-- **One voice iteration.** Whatever path the voice iteration takes — an early `continue` before the
patch, or `init`, then any sequence of kernel calls, repositions, hot swaps to arbitrary other
samples/parameters, loop changes to arbitrary end points, ended by `break`, one-shot end, swap stop
or the tick being complete, then the final `reset` — the sample table it leaves is the one it found. -/
theorem C15_skeleton_voice (c : Consts) (nearest : Bool) (mem : Mem α) (v : VoiceRun) :
    (runVoice c nearest mem v).1 = mem := by
  unfold runVoice
  split
  · rfl
  · exact (runInner_inv c nearest mem v.steps _ ⟨rfl, rfl, by simp⟩).reset

/-- **Every kernel call sees the patched original** (and nothing else): the table handed to a mix
kernel is `init_sample_wraparound` applied to the *original* table for the voice's parameters at
that moment — no leftovers of earlier patches of this or any other voice. -/
theorem C15_skeleton_kernel_view (c : Consts) (nearest : Bool) (mem : Mem α) (v : VoiceRun) :
    ∀ e ∈ (runVoice c nearest mem v).2, e.2.2 = (initWrapM c nearest e.1 e.2.1 mem).2 := by
  unfold runVoice
  split
  · simp
  · exact (runInner_inv c nearest mem v.steps _ ⟨rfl, rfl, by simp⟩).2.2

/-- **The voice loop of `libxmp_mixer_softmixer`.** For every number of voices and every path through
every voice iteration the sample table after the tick is bit-for-bit the table before it. -/
theorem C15_skeleton (c : Consts) (nearest : Bool) (mem : Mem α) (voices : List VoiceRun) :
    softmixer c nearest mem voices = mem := by
  induction voices with
  | nil => rfl
  | cons v vs ih => simp only [softmixer, C15_skeleton_voice, ih]

/-- a path exercising hot swap and loop change on a two-sample table really patches both samples on
the way (what the kernels saw differs from the original) and ends with the original table -/
example :
    let mem : Mem Nat := [⟨4, [90, 91, 92, 93, 0, 1, 2, 3, 80, 81, 82, 83]⟩, ⟨4, [70, 71, 72, 73, 5, 6, 7, 60, 61, 62, 63]⟩]
    let steps : List Step :=
      [Step.mix, Step.loopChange ({ smp := 0, start := 1, «end» := 3, sampleLoop := true } : Voice), Step.mix,
       Step.hotswap ({ smp := 1, start := 0, «end» := 3, sampleLoop := true, bidir := true } : Voice)
         ({ loop := true } : SampleHdr), Step.mix, Step.reposition, Step.mix, Step.usmpBreak]
    let v : VoiceRun := { vi := { smp := 0, start := 1, «end» := 4 }, xxs := { loop := true }, steps := steps }
    let r := runVoice genConsts false mem v
    r.1 = mem ∧ r.2.length = 4 ∧ (∀ e ∈ r.2, e.2.2 ≠ mem) := by decide

/-! ## the one legal writer -/

/-- **Invert-loop stays inside the loop.** Whatever the channel's invert-loop state (any speed, counter,
position `≥ 0` — also one left over from a longer loop of another sample), whatever the table: if
`update_invloop` stores at all, the index lies inside the loop `[lps, lpe)` of the sample (inside the
sustain loop `[sus, sue)` when the sample has only that), and the position stays `≥ 0`.  Needs the
loader's guarantee that a flagged loop is non-empty. -/
theorem C15_invloop_in_loop (table : List Nat) (resetPos : Bool) (st : InvState) (s : InvSample)
    (hpos : 0 ≤ st.pos) (hl : s.loop = true → s.lps < s.lpe) (hs : s.loop = false → s.sloop = true → s.sus < s.sue) :
    0 ≤ (invloopStep table resetPos st (some s)).1.pos ∧
    ∀ i, (invloopStep table resetPos st (some s)).2 = some i →
      (s.loop = true ∧ s.lps ≤ i ∧ i < s.lpe) ∨ (s.loop = false ∧ s.sloop = true ∧ s.sus ≤ i ∧ i < s.sue) := by
  unfold invloopStep
  have h := invloopCore_spec table resetPos st (invRange (some s)).1 (invRange (some s)).2 (invCanStore (some s)) hpos
  refine ⟨h.1, ?_⟩
  intro i hi
  have h2 := h.2 i hi
  unfold invRange at h2
  by_cases hloop : s.loop = true
  · simp only [hloop, if_true] at h2
    have := hl hloop
    left; exact ⟨hloop, by omega, by omega⟩
  · have hloop' : s.loop = false := by simpa using hloop
    by_cases hsl : s.sloop = true
    · simp only [hloop', hsl, if_true, Bool.false_eq_true, if_false] at h2
      have := hs hloop' hsl
      right; exact ⟨hloop', hsl, by omega, by omega⟩
    · simp only [hloop', hsl, Bool.false_eq_true, if_false] at h2
      omega

/-- the hypotheses are satisfiable and the store really happens and wraps: position 15 of a 16-byte
loop `[8, 24)` at full speed goes back to the loop start -/
example :
    (invloopStep invloopTable false { speed := 15, count := 0, pos := 15 } (some { loop := true, lps := 8, lpe := 24 })) = ({ speed := 15, count := 0, pos := 0 }, some 8) ∧
    (invloopStep invloopTable false { speed := 15, count := 0, pos := 14 } (some { loop := true, lps := 8, lpe := 24 })).2 = some 23 ∧
    (invloopStep invloopTable false { speed := 1, count := 100, pos := 3 } (some { loop := true, lps := 8, lpe := 24 })) = ({ speed := 1, count := 105, pos := 3 }, none) := by
  decide

/-! ## who may store into module data -/

/-- The allowed classes of stores into module tables made by player-side code:
1. the wrap-around patch/restore pair: stores to sample bytes in mixer.c made *through the backup
   handle* `loop_data.sptr` (whatever the functions are called);
2. `update_invloop` in player.c (the Protracker invert-loop effect) storing to sample bytes;
3. the `mod->len = 0` normalisation in `xmp_start_player`;
4. the external-sample mixer's own tables (`struct smix_data`) in smix.c;
5. instrument-extras constructors in the format-extras files (`extrasFiles`) that no player-side function calls (loaders only). -/
def extrasFiles : List String := ["extras.c", "far_extras.c", "hmn_extras.c", "med_extras.c"]

def allowedWriter (w : Writer) : Bool :=
  (w.file == "mixer.c" && w.target == .sampleBytes && w.via == "loop_data.sptr" && !w.smix) ||
  (w.file == "player.c" && w.func == "update_invloop" && w.target == .sampleBytes && !w.smix) ||
  (w.file == "player.c" && w.func == "xmp_start_player" && w.target == .moduleHdr && w.field == "len") ||
  (w.file == "smix.c" && w.smix) ||
  (extrasFiles.contains w.file && w.target == .instrument && !w.playerCalled && !w.smix)

/-- **Writers.** Every store into pattern, track, event, instrument, envelope, sample-header or
sample-byte storage found in the player-side sources falls into an allowed class. -/
theorem C15_writers : ∀ w ∈ dataWriters, allowedWriter w = true := by decide

/-- the list is not vacuous: it contains the patch pair, the invert-loop writer and the normalisation -/
theorem C15_writers_nonvacuous :
    (dataWriters.any fun w => w.file == "mixer.c" && w.target == .sampleBytes && w.via == "loop_data.sptr") = true ∧
    (dataWriters.any fun w => w.func == "update_invloop" && w.target == .sampleBytes) = true ∧
    (dataWriters.any fun w => w.func == "xmp_start_player" && w.field == "len") = true ∧
    (["player.c", "mixer.c", "mix_all.c", "virtual.c", "effects.c", "read_event.c", "control.c", "scan.c", "smix.c"].all
      fun f => scannedFiles.contains f) = true := by decide

/-- a store to sample bytes from the effect processor would not be allowed -/
example : allowedWriter { file := "effects.c", func := "libxmp_process_fx", target := .sampleBytes, smix := false,
                          field := "", via := "xmp_sample.data", playerCalled := true } = false := by decide

end Xmp.Wrap
