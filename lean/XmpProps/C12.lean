import XmpProofs.PlayBuffer
/-!
# C12 — `xmp_play_buffer` delivers exactly the frame stream, in any chunking

Property theorems over the model `XmpModel.PlayBuffer` (the carry-over logic of
`xmp_play_buffer`, src/player.c).  The player is a frame stream
`frames : Nat → Frame`; `n` is the index of the first terminating frame
(`xmp_play_frame < 0`, or `loop > 0 ∧ loop_count ≥ loop`), `D` the concatenation
of the frame buffers before it.

Specification (`specCall`): with `a` bytes requested so far, a call for `s`
bytes
* `s = 0`              → writes nothing, returns 0
* `a ≥ |D|`            → writes nothing, returns −1 (end of replay)
* otherwise            → writes `D[a .. a+s)`, zero-filled past `|D|`, returns 0.
-/
namespace Xmp.PlayBuffer

/-- the frame-stream concatenation up to the first terminating frame `n` -/
def stream (frames : Nat → Frame) (n : Nat) : Bytes := future frames n 0

def specCall (D : Bytes) (a : Nat) (s : Int) : Bytes × Int :=
  if s ≤ 0 then ([], 0)
  else if D.length ≤ a then ([], -1)
  else ((D.drop a).take s.toNat ++ List.replicate (s.toNat - (D.length - a)) 0, 0)

def specRun (D : Bytes) : Nat → List Int → List (Bytes × Int)
  | _, [] => []
  | a, s :: rest => specCall D a s :: specRun D (a + s.toNat) rest

/-- State invariant linking the carry-over state to the abstract position `a`. -/
def Inv (frames : Nat → Frame) (n : Nat) (a : Nat) (st : St) : Prop :=
  (Live n st ∧ rem frames n st = (stream frames n).drop a ∧ a ≤ (stream frames n).length)
  ∨ (Done n st ∧ (stream frames n).length ≤ a)

theorem inv_init (frames : Nat → Frame) (n : Nat) : Inv frames n 0 {} := by
  left
  refine ⟨⟨Nat.zero_le _, Nat.le_refl _⟩, ?_, Nat.zero_le _⟩
  simp [rem, stream]

/-- **One call refines the specification and preserves the invariant.** -/
theorem C12_call (frames : Nat → Frame) (loop : Int) (n : Nat)
    (hpre : Pre frames loop n) (hpost : Post frames loop n)
    (a : Nat) (st : St) (s : Int) (hinv : Inv frames n a st) :
    let r := playBuffer frames loop st s
    (r.1, r.2.1) = specCall (stream frames n) a s ∧ Inv frames n (a + s.toNat) r.2.2 := by
  intro r
  have hr : r = playBuffer frames loop st s := rfl
  clear_value r
  unfold playBuffer at hr
  by_cases hs : s ≤ 0
  · simp only [hs, if_true] at hr
    have h0 : s.toNat = 0 := by omega
    subst hr
    simp [specCall, hs, h0, hinv]
  · simp only [hs, if_false] at hr
    have hpos : 0 < s.toNat := by omega
    rcases hinv with ⟨hl, hrem, ha⟩ | ⟨hd, ha⟩
    · have sp := fillLoop_spec frames loop n hpre (s.toNat + 1) st s.toNat [] (by omega) hl (Or.inr hpost)
      rw [← hr, hrem] at sp
      unfold Outcome at sp
      simp only [List.length_drop, List.nil_append] at sp
      by_cases h1 : s.toNat ≤ (stream frames n).length - a
      · simp only [h1, if_true] at sp
        obtain ⟨o, rc, l', r'⟩ := sp
        constructor
        · have hlt : ¬ (stream frames n).length ≤ a := by omega
          have hz : s.toNat - ((stream frames n).length - a) = 0 := by omega
          simp [specCall, hs, hlt, o, rc, hz]
        · left
          refine ⟨l', ?_, by omega⟩
          rw [r', List.drop_drop]
      · simp only [h1, if_false] at sp
        by_cases h2 : List.drop a (stream frames n) = []
        · simp only [h2, and_self, if_true] at sp
          obtain ⟨o, rc, d'⟩ := sp
          have hle : (stream frames n).length ≤ a := by
            have := congrArg List.length h2
            simp at this
            omega
          constructor
          · simp [specCall, hs, hle, o, rc]
          · right; exact ⟨d', by omega⟩
        · simp only [h2, and_false, if_false] at sp
          obtain ⟨o, rc, d'⟩ := sp
          have hlt : ¬ (stream frames n).length ≤ a := by
            intro h; exact h2 (List.drop_eq_nil_of_le h)
          constructor
          · simp only [specCall, hs, hlt, if_false, o, rc]
            congr 2
            rw [List.take_of_length_le]
            simp; omega
          · right; exact ⟨d', by omega⟩
    · have dn := fillLoop_done frames loop n hpost s.toNat st s.toNat hd hpos
      rw [← hr] at dn
      obtain ⟨o, rc, d'⟩ := dn
      constructor
      · simp [specCall, hs, ha, o, rc]
      · right; exact ⟨d', by omega⟩

/-- **C12_concat**: for every sequence of request sizes and every frame
stream with first terminating frame `n` (absorbing end), the bytes and return
codes of successive `xmp_play_buffer` calls are exactly the specification:
consecutive slices of the frame concatenation, zero-filled at the end, then −1. -/
theorem C12_concat_from (frames : Nat → Frame) (loop : Int) (n : Nat)
    (hpre : Pre frames loop n) (hpost : Post frames loop n) (sizes : List Int) :
    ∀ (a : Nat) (st : St), Inv frames n a st →
      runCalls frames loop st sizes = specRun (stream frames n) a sizes := by
  induction sizes with
  | nil => intros; rfl
  | cons s rest ih =>
    intro a st hinv
    have h := C12_call frames loop n hpre hpost a st s hinv
    simp only at h
    simp only [runCalls, specRun]
    rw [h.1, ih (a + s.toNat) _ h.2]

theorem C12_concat (frames : Nat → Frame) (loop : Int) (n : Nat)
    (hpre : Pre frames loop n) (hpost : Post frames loop n) (sizes : List Int) :
    runCalls frames loop {} sizes = specRun (stream frames n) 0 sizes :=
  C12_concat_from frames loop n hpre hpost sizes 0 {} (inv_init frames n)

/-- **C12_no_end**: the same for a stream with no terminating frame among its
first `n` frames, as long as the requests stay within those frames (so the
statement covers endless playback: choose `n` large enough). -/
theorem C12_concat_unbounded (frames : Nat → Frame) (loop : Int) (n : Nat)
    (hpre : Pre frames loop n) (sizes : List Int) :
    ∀ (a : Nat) (st : St), Live n st → rem frames n st = (stream frames n).drop a →
      a + (sizes.map Int.toNat).sum ≤ (stream frames n).length →
      runCalls frames loop st sizes = specRun (stream frames n) a sizes := by
  induction sizes with
  | nil => intros; rfl
  | cons s rest ih =>
    intro a st hl hrem hsum
    simp only [List.map_cons, List.sum_cons] at hsum
    simp only [runCalls, specRun]
    by_cases hs : s ≤ 0
    · have h0 : s.toNat = 0 := by omega
      have : playBuffer frames loop st s = ([], 0, st) := by simp [playBuffer, hs]
      rw [this]
      simp only [specCall, hs, if_true, h0, Nat.add_zero]
      rw [ih a st hl hrem (by omega)]
    · have hpos : 0 < s.toNat := by omega
      have hle : s.toNat ≤ (rem frames n st).length := by
        rw [hrem, List.length_drop]; omega
      have sp := fillLoop_spec frames loop n hpre (s.toNat + 1) st s.toNat [] (by omega) hl (Or.inl hle)
      unfold Outcome at sp
      simp only [hle, if_true, List.nil_append] at sp
      obtain ⟨o, rc, l', r'⟩ := sp
      have hpb : playBuffer frames loop st s = fillLoop frames loop (s.toNat + 1) st s.toNat [] := by
        simp [playBuffer, hs]
      rw [hpb]
      have hlt : ¬ (stream frames n).length ≤ a := by omega
      have hz : s.toNat - ((stream frames n).length - a) = 0 := by omega
      have e1 : ((fillLoop frames loop (s.toNat + 1) st s.toNat []).1,
                 (fillLoop frames loop (s.toNat + 1) st s.toNat []).2.1)
              = specCall (stream frames n) a s := by
        simp [specCall, hs, hlt, o, rc, hz, hrem]
      rw [e1]
      congr 1
      apply ih (a + s.toNat) _ l'
      · rw [r', hrem, List.drop_drop]
      · omega

/-- **C12_no_drop_dup**: after any calls totalling `a ≤ |D|` bytes, what the
state still holds (rest of the current frame, then the frames not yet fetched)
is exactly `D` from offset `a` on: nothing skipped, nothing fetched twice. -/
theorem C12_no_drop_dup (frames : Nat → Frame) (loop : Int) (n : Nat)
    (hpre : Pre frames loop n) (hpost : Post frames loop n) (sizes : List Int) :
    ∀ (a : Nat) (st : St), Inv frames n a st →
      Inv frames n (a + (sizes.map Int.toNat).sum)
        (sizes.foldl (fun st s => (playBuffer frames loop st s).2.2) st) := by
  induction sizes with
  | nil => intro a st h; simpa using h
  | cons s rest ih =>
    intro a st hinv
    have h := (C12_call frames loop n hpre hpost a st s hinv).2
    have := ih (a + s.toNat) _ h
    simpa [List.foldl_cons, Nat.add_assoc] using this

/-- **C12_end** (three corollaries of the specification). A successful call
always writes exactly `s` bytes. -/
theorem C12_len (D : Bytes) (a : Nat) (s : Int) (h : (specCall D a s).2 = 0) (hs : 0 < s) :
    (specCall D a s).1.length = s.toNat := by
  unfold specCall at *
  have hs' : ¬ s ≤ 0 := by omega
  simp only [hs', if_false] at h ⊢
  by_cases hd : D.length ≤ a
  · simp [hd] at h
  · simp only [hd, if_false]
    simp only [List.length_append, List.length_take, List.length_drop, List.length_replicate]
    omega

/-- The call during which the end is met zero-fills its remainder and returns 0. -/
theorem C12_end_zero_fill (D : Bytes) (a : Nat) (s : Int) (h1 : a < D.length)
    (h2 : D.length < a + s.toNat) :
    specCall D a s = (D.drop a ++ List.replicate (a + s.toNat - D.length) 0, 0) := by
  unfold specCall
  have hs : ¬ s ≤ 0 := by omega
  have hd : ¬ D.length ≤ a := by omega
  simp only [hs, hd, if_false]
  congr 2
  · apply List.take_of_length_le; simp; omega
  · congr 1; omega

/-- Every non-empty request at or after the end returns −1 and writes nothing. -/
theorem C12_end_after (D : Bytes) (a : Nat) (s : Int) (h1 : D.length ≤ a) (hs : 0 < s) :
    specCall D a s = ([], -1) := by
  unfold specCall
  have hs' : ¬ s ≤ 0 := by omega
  simp [hs', h1]

/-- **C12_reset**: `xmp_play_buffer(ctx, NULL, …)` drops the carry-over, so
delivery resumes at the start of the next frame not yet fetched. -/
theorem C12_reset (frames : Nat → Frame) (n : Nat) (st : St) (hl : Live n st) :
    Live n (reset st) ∧ rem frames n (reset st) = future frames n st.idx := by
  refine ⟨⟨hl.1, ?_⟩, ?_⟩
  · simp [reset]
  · simp [rem, reset]

/-! ## Non-vacuity: a concrete stream satisfying the hypotheses, and the
model run on it (three 3-byte frames then the end; requests 5, 2, 7, 1). -/

def exFrames : Nat → Frame := fun i =>
  if i < 3 then .data [UInt8.ofNat (10 * i + 1), UInt8.ofNat (10 * i + 2), UInt8.ofNat (10 * i + 3)] 0
  else .fin

example : Pre exFrames 0 3 ∧ Post exFrames 0 3 := by
  constructor
  · intro i hi
    have : i = 0 ∨ i = 1 ∨ i = 2 := by omega
    rcases this with h | h | h <;> subst h <;> simp [exFrames, terminating, Frame.bytes]
  · intro i hi
    have : ¬ i < 3 := by omega
    simp [exFrames, this, terminating]

example : runCalls exFrames 0 {} [5, 2, 7, 1]
    = [([1, 2, 3, 11, 12], 0), ([13, 21], 0), ([22, 23, 0, 0, 0, 0, 0], 0), ([], -1)] := by decide

/-! ## Discharging the `Post` hypothesis

`Post frames loop n` (the end is absorbing) is what C16 provides: the loop
counter never decreases between position-control calls (`C16_loop_monotone_run`)
and `-XMP_END` persists (`xmp_play_frame` keeps returning it until a position
call).  The two lemmas below derive `Post` from exactly those two facts about a
frame stream, so `C12_concat` applies to every stream the sequencer can produce. -/

/-- loop count carried by a frame (`fin` frames carry none) -/
def Frame.lc? : Frame → Option Nat
  | .data _ lc => some lc
  | .fin => none

/-- the stream facts C16 guarantees: an ended stream stays ended, and loop
counts of consecutive data frames never decrease -/
structure SeqStream (frames : Nat → Frame) : Prop where
  fin_absorbing : ∀ i, frames i = .fin → frames (i + 1) = .fin
  lc_monotone : ∀ i b b' l l', frames i = .data b l → frames (i + 1) = .data b' l' → l ≤ l'

theorem terminating_succ (frames : Nat → Frame) (loop : Int) (h : SeqStream frames) (i : Nat)
    (ht : terminating loop (frames i) = true) : terminating loop (frames (i + 1)) = true := by
  cases hi : frames i with
  | fin =>
    rw [h.fin_absorbing i hi]; rfl
  | data b l =>
    cases hj : frames (i + 1) with
    | fin => rfl
    | data b' l' =>
      have hm := h.lc_monotone i b b' l l' hi hj
      rw [hi] at ht
      simp only [terminating, decide_eq_true_eq] at ht ⊢
      omega

/-- **C12_post_of_seqstream**: for a sequencer stream, once a frame terminates
every later frame terminates. -/
theorem C12_post_of_seqstream (frames : Nat → Frame) (loop : Int) (h : SeqStream frames) (n : Nat)
    (hn : terminating loop (frames n) = true) : Post frames loop n := by
  intro i hi
  obtain ⟨k, rfl⟩ : ∃ k, i = n + k := ⟨i - n, by omega⟩
  clear hi
  induction k with
  | zero => simpa using hn
  | succ k ih => exact terminating_succ frames loop h (n + k) ih

/-- `C12_concat` for sequencer streams: only non-emptiness of the frames before
the first terminating one remains as a hypothesis (C16: a tick is at least 8
sample frames). -/
theorem C12_concat_seqstream (frames : Nat → Frame) (loop : Int) (n : Nat)
    (h : SeqStream frames) (hpre : Pre frames loop n) (hn : terminating loop (frames n) = true)
    (sizes : List Int) :
    runCalls frames loop {} sizes = specRun (stream frames n) 0 sizes :=
  C12_concat frames loop n hpre (C12_post_of_seqstream frames loop h n hn) sizes

example : SeqStream exFrames := by
  constructor
  · intro i hi
    have h3 : ¬ i < 3 := by
      intro h; simp [exFrames, h] at hi
    have : ¬ i + 1 < 3 := by omega
    simp [exFrames, this]
  · intro i b b' l l' h1 h2
    by_cases hi : i < 3
    · simp only [exFrames, hi, if_true] at h1
      by_cases hj : i + 1 < 3
      · simp only [exFrames, hj, if_true] at h2
        cases h1; cases h2; exact Nat.le_refl _
      · simp [exFrames, hj] at h2
    · simp [exFrames, hi] at h1

end Xmp.PlayBuffer
