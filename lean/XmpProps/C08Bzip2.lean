import XmpModel.Bzip2
import XmpProofs.Bzip2Rle
import XmpProofs.Bzip2Mtf
import XmpProofs.Bzip2Huff
import XmpProofs.Bzip2Canon
import XmpProofs.Bzip2BwtArr
import XmpProofs.Bzip2Block
import XmpProofs.Bzip2Pipe
import XmpProofs.Bzip2Work
import XmpProps.C08
/-!
# C08 / C09 / C02: the bzip2 decoder of libxmp (model `XmpModel.Bzip2` of src/depackers/bunzip2.c)

The block decoder is no longer a parameter of the bzip2 pipeline (C08) and of the bzip2 gate (C09):
`Xmp.Bzip2.bunzip2` models `decrunch_bzip2` completely (bit reader, block header, selector list, code
lengths, `limit/base/permute` tables, symbol loop with RUNA/RUNB and MTF, cumulative counts and the
linked list of `burrows_wheeler_prep`, pointer chasing, final run-length stage, block and stream CRC).

Proved here, for ALL payloads:
* (a) `C08_bzip2_unrle1`       final run-length stage ∘ first-stage encoder = id (any initial `writeCurrent`)
* (b) `C08_bzip2_ibwt`         inverse BWT of bunzip2.c ∘ BWT by sorted rotations = id (non-empty blocks)
* (c) `C08_bzip2_mtfrle`       MTF / RUNA-RUNB stage of `read_huffman_data` ∘ `mtfrle` = id
* (d) `C08_bzip2_huffman_canonical` the `limit/base/permute` tables decode the canonical code of every symbol for
      every length assignment 1..20 with Kraft sum ≤ 1 (`C08_bzip2_huffman_flat`: the flat special case)
* (e) `C08_bzip2_block`, `C08_bzip2_roundtrip`, `C08_pipeline_bzip2`: block, stream (multi-block, levels 1..9)
      and load pipeline without any decoder hypothesis for the streams of the Lean encoder
* C09: `C08_bzip2_gate`, `C08_bzip2_gate_crcs` — acceptance by the model is acceptance by `Gates.bzDepack`
      of the blocks that the modelled block decoder delivers
* (f) `C08_bzip2_work_*`       progress of the bit-consuming loops, `dbuf[]` bound, output bound per block
* `C08_bzip2_source_facts`     the three repairs found through this model are in the source (regenerated facts)
-/
namespace Xmp.Bzip2
open Xmp Xmp.Crc Xmp.Container Xmp.Gen.Depackers Xmp.Md5

/-! ## facts of the source the model follows -/

/-- `read_block_header` refuses `origPtr == dbufSize` (/repo 5567c7b) and selector positions `== groupCount`
    (/repo 79ea947); `read_huffman_data` bounds `runPos` (/repo 35f4e86); `writeRun` starts at −1 and the run
    trigger is 3.  Regenerated from bunzip2.c on every run: a regression breaks this theorem. -/
theorem C08_bzip2_source_facts :
    Gen.origPtrEqAccepted = false ∧ Gen.selectorEqAccepted = false ∧ Gen.runPosBounded = true ∧
    Gen.writeRunInit = -1 ∧ Gen.runTrigger = 3 ∧ Gen.groupSize = 50 ∧ Gen.maxHufCodeBits = 20 :=
  ⟨rfl, rfl, rfl, rfl, rfl, rfl, rfl⟩

/-! ## (a) final run-length stage -/

/-- **(a)** `write_bunzip_data`'s output loop (4 equal bytes + count; `run`, `previous`, `current = -1` after a
    count) inverts the encoder `rle1` (runs cut at 255, count 0..251), for every payload and every initial
    `writeCurrent` — in particular when the first byte of the block equals the last one -/
theorem C08_bzip2_unrle1 (c0 : Int) (p : Bytes) : (unrle1 c0 (rle1 p)).toList = p := unrle1_rle1 c0 p

/-- runs of 4, 5, 259 and 260 equal bytes; first byte = last byte -/
example : (unrle1 0x61 (rle1 ([0x61, 0x61, 0x61, 0x61] ++ [0x62] ++ List.replicate 260 0x63 ++ [0x61]))).toList =
    [0x61, 0x61, 0x61, 0x61] ++ [0x62] ++ List.replicate 260 0x63 ++ [0x61] := C08_bzip2_unrle1 _ _
example : rle1 (List.replicate 259 7 ++ [7]) = [7, 7, 7, 7, 251, 7, 7, 7, 7, 1] := by decide +kernel

/-- the initial state matters: with `writeRun = 0` (instead of −1) a block whose first byte equals
    `writeCurrent` (the block's last byte) is decoded wrongly -/
example : (unrleGo 0 0x61 #[] [0x61, 0x61, 0x61, 0x05, 0x62, 0x61]).toList ≠ [0x61, 0x61, 0x61, 0x05, 0x62, 0x61] := by
  decide +kernel
example : (unrleGo (-1) 0x61 #[] [0x61, 0x61, 0x61, 0x05, 0x62, 0x61]).toList = [0x61, 0x61, 0x61, 0x05, 0x62, 0x61] := by
  decide +kernel

/-! ## (b) inverse Burrows–Wheeler transform -/

/-- **(b)** `burrows_wheeler_prep` (cumulative counts, `dbuf[byteCount[uc]++] |= ii << 8`) and the pointer chasing
    of `write_bunzip_data`, applied to the BWT of a non-empty block (last column of the lexicographically sorted
    rotations, index of the original), return the block -/
theorem C08_bzip2_ibwt (p : Bytes) (h : p ≠ []) : (ibwt (bwt p).1.toArray (bwt p).2).1.toList = p := ibwt_bwt p h

example : bwt [0x62, 0x61, 0x6e, 0x61, 0x6e, 0x61] = ([0x6e, 0x6e, 0x62, 0x61, 0x61, 0x61], 3) := by decide +kernel
/-- periodic blocks (equal rotations) are covered -/
example : (ibwt (bwt [1, 2, 1, 2, 1, 2]).1.toArray (bwt [1, 2, 1, 2, 1, 2]).2).1.toList = [1, 2, 1, 2, 1, 2] :=
  C08_bzip2_ibwt _ (by decide)

/-! ## (c) MTF + RUNA/RUNB -/

/-- **(c)** the symbol loop of `read_huffman_data` (run accumulation in bijective base 2, flush with the two
    `dbufSize` tests, move-to-front, terminating symbol), fed with `mtfrle l`, rebuilds `l`, consumes every symbol and
    stops exactly at the terminating one -/
theorem C08_bzip2_mtfrle (dbufSize : Nat) (hd : dbufSize < 2 ^ 31) (l : Bytes) (hne : l ≠ []) (hlen : l.length ≤ dbufSize) :
    ∃ st', procSyms dbufSize (usedBytes l).toArray ⟨0, 0, #[], List.range 256⟩ (mtfrle l) = .ok (st', true, []) ∧
      st'.dbuf.toList = l := procSyms_mtfrle dbufSize hd l hne hlen

example : mtfrle [5, 5, 5, 5, 5, 9, 5] = [0, 1, 2, 2, 3] := by decide +kernel

/-! ## (d) decode tables -/

/-- **(d)** for every assignment of code lengths 1..20 to at most 258 symbols with Kraft sum
    `Σ_sym 2^(20 − len) ≤ 2^20`, the tables `limit/base/permute` as `read_block_header` computes them
    (`minLen/maxLen` scan, `temp[]` counts, the `pp/hh` loop, `limit[maxLen+1] = INT_MAX`, `base[minLen] = 0`) decode,
    through the `while (jj > limit[ii])` loop of `read_huffman_data`, the canonical code of every symbol
    (codes numbered by increasing (length, symbol), `canonEncode`) and leave the following bits untouched.
    Over-subscribed and incomplete length sets are accepted by the C as well (no Kraft test in bunzip2.c);
    the model builds the same tables for them and the correspondence runs random ones. -/
theorem C08_bzip2_huffman_canonical (lengths : List Nat) (hsz : lengths.length ≤ 258)
    (hrange : ∀ l ∈ lengths, 1 ≤ l ∧ l ≤ 20)
    (hkraft : (lengths.map (fun l => 2 ^ (20 - l))).sum ≤ 2 ^ 20)
    (sym : Nat) (hsym : sym < lengths.length) (rest : Bits) :
    decodeSym (mkGroup lengths) (canonEncode lengths sym ++ rest) = .ok (sym, rest) :=
  decodeSym_canon lengths hsz hrange (by rw [kraftUpTo_eq_sum lengths (fun l hl => (hrange l hl).2)]; exact hkraft)
    sym hsym rest

/-- lengths 2,1,3,3 (a complete code: 10, 0, 110, 111): symbol 3 has the code 111 -/
example : canonEncode [2, 1, 3, 3] 3 = [true, true, true] := by decide +kernel
example : decodeSym (mkGroup [2, 1, 3, 3]) (canonEncode [2, 1, 3, 3] 3 ++ [false]) = .ok (3, [false]) :=
  C08_bzip2_huffman_canonical [2, 1, 3, 3] (by decide) (by decide) (by decide) 3 (by decide) _

/-- flat lengths (the encoder of the round-trip theorem): every symbol is its own `v`-bit number -/
theorem C08_bzip2_huffman_flat (n v : Nat) (hv1 : 1 ≤ v) (hv : v ≤ 20) (hn : n < 258) (sym : Nat) (hs : sym ≤ n)
    (hsv : sym < 2 ^ v) (rest : Bits) :
    decodeSym (mkGroup (List.replicate (n + 1) v)) (putBits v sym ++ rest) = .ok (sym, rest) :=
  decodeSym_flat n v hv1 (by omega) hn sym hs hsv rest

example : decodeSym (mkGroup (List.replicate 258 9)) (putBits 9 257 ++ [true, false]) = .ok (257, [true, false]) :=
  C08_bzip2_huffman_flat 257 9 (by decide) (by decide) (by decide) 257 (by decide) (by decide) _

/-! ## (e) block, stream, pipeline -/

/-- **(e), one block**: `read_block_header` + `read_huffman_data` + inverse BWT + final run-length stage on the
    fields the block writer emits return the block's bytes and leave exactly the following bits -/
theorem C08_bzip2_block (dbufSize : Nat) (hd9 : dbufSize ≤ 900000) (p : Bytes) (hne : p ≠ [])
    (hfit : (rle1 p).length ≤ dbufSize) (fuel : Nat) (hfuel : (mtfrle (bwt (rle1 p)).1).length ≤ fuel) (rest : Bits) :
    decodeBlock dbufSize fuel (bodyBits (bwt (rle1 p)).1 (bwt (rle1 p)).2 ++ rest) = .ok (p, rest) :=
  decodeBlock_body dbufSize hd9 p hne hfit fuel hfuel rest

/-- **(e), stream**: `decrunch_bzip2` (model) unpacks every file written by `bzip2 lv bs` — level 1..9, blocks of
    `bs` payload bytes with `5·bs ≤ 4·dbufSize` (so that the first run-length stage fits the level's buffer), any
    number of blocks, block CRCs and combined stream CRC — to the payload -/
theorem C08_bzip2_roundtrip (lv bs : Nat) (hlv1 : 1 ≤ lv) (hlv9 : lv ≤ 9) (hbs1 : 1 ≤ bs) (hbs : 5 * bs ≤ 400000 * lv)
    (p : Bytes) (hlim : p.length ≤ Gen.depackLimit) : bunzip2 (bzip2 lv bs p) = some p :=
  bunzip2_bzip2 lv bs hlv1 hlv9 hbs1 hbs p hlim

/-- three blocks of two bytes -/
example : bunzip2 (bzip2 1 2 [0x62, 0x61, 0x6e, 0x61, 0x6e, 0x61]) = some [0x62, 0x61, 0x6e, 0x61, 0x6e, 0x61] :=
  C08_bzip2_roundtrip 1 2 (by decide) (by decide) (by decide) (by decide) _ (by decide)

theorem bzip2_mem : ("bzip2", "bunzip2.c", Magic.and (Magic.and (Magic.byteEq 0 66) (Magic.byteEq 1 90)) (Magic.byteEq 2 104))
    ∈ depackerList := by
  simp [depackerList]

/-- **pipeline, bzip2 (complete: framing, block decoder, CRCs — no decoder hypothesis)**: a module packed by the
    Lean encoder at any level and block size loads by path exactly as from memory, with the MD5 of the payload -/
theorem C08_pipeline_bzip2 {β : Type} (env : Env) (loader : Bytes → β) (lv bs : Nat)
    (hlv1 : 1 ≤ lv) (hlv9 : lv ≤ 9) (hbs1 : 1 ≤ bs) (hbs : 5 * bs ≤ 400000 * lv)
    (p : Bytes) (hne : p ≠ []) (hlim : p.length ≤ Gen.depackLimit) :
    loadByPath env.withBzip2 loader (bzip2 lv bs p) = some (loadFromMemory loader p) ∧
    (loadByPath env.withBzip2 loader (bzip2 lv bs p)).map (·.2) = some (md5 p) := by
  apply C08_pipeline_of_decrunch
  obtain ⟨t, ht, htl⟩ := bzip2_shape lv bs p hne
  have hrt := C08_bzip2_roundtrip lv bs hlv1 hlv9 hbs1 hbs p hlim
  generalize bzip2 lv bs p = F at *
  have hs : minHeaderSize ≤ (sniff F).length := by
    have : minHeaderSize = 22 := rfl
    rw [ht]; unfold sniff; simp only [List.length_take, List.length_cons, sniffSize]; omega
  have hv : ∀ i v, i < 3 → bAt F i = v → bAt (sniff F) i = v := fun i v hi h => by
    rw [bAt_sniff _ i (by simp [sniffSize]; omega)]; exact h
  have h0 := hv 0 66 (by decide) (by rw [ht]; rfl)
  have h1 := hv 1 90 (by decide) (by rw [ht]; rfl)
  have h2 := hv 2 104 (by decide) (by rw [ht]; rfl)
  have hd := C08_dispatch_of_test _ bzip2_mem (by decide) F hs
    (by simp [evalMagic, h0, h1, h2]) (lha_test_byte2 _ (by rw [h2]; decide))
  unfold decrunch
  rw [hd]
  simp only [Env.withBzip2]
  rw [hrt]
  have : p.length ≠ 0 := fun e => hne (List.eq_nil_of_length_eq_zero e)
  simp [reopenMem, this]

/-! ## C09: the gate with the modelled block decoder -/

/-- whatever the model of `decrunch_bzip2` accepts is accepted by the gate `Gates.bzDepack` (C09) on the blocks
    that the modelled block decoder delivers for that file: the decoder is no longer a parameter there -/
theorem C08_bzip2_gate (f out : Bytes) (h : bunzip2 f = some out) :
    ∃ blocks sc, parseFile f = some (blocks, sc) ∧ Gates.bzDepack blocks sc = some out := bunzip2_gate f out h

/-- hence: on acceptance every stored block CRC is the CRC of the bytes decoded for that block, the output is
    their concatenation, and the stored stream CRC is the combination of the block CRCs -/
theorem C08_bzip2_gate_crcs (f out : Bytes) (h : bunzip2 f = some out) :
    ∃ blocks sc, parseFile f = some (blocks, sc) ∧ (∀ b ∈ blocks, b.1 = bzBlockCrc b.2) ∧
      out = (blocks.map (·.2)).flatten ∧ sc = Gates.bzStreamCrc 0 (blocks.map (·.2)) := by
  obtain ⟨blocks, sc, hp, hg⟩ := C08_bzip2_gate f out h
  have := Gates.gate_bz 0 [] blocks sc out hg
  exact ⟨blocks, sc, hp, this.1, by simpa using this.2.1, this.2.2 rfl⟩

/-! ## (f) work bounds -/

/-- `get_bits` consumes exactly the bits it returns; a Huffman symbol costs at least `minLen` bits: the symbol loop
    runs at most once per input bit and the block loop at most once per 80 bits (its fuel is `bits / 80 + 1`) -/
theorem C08_bzip2_work_progress :
    (∀ n s s' v, getBits n s = .ok (v, s') → s'.length + n = s.length) ∧
    (∀ g s s' sym, decodeSym g s = .ok (sym, s') → s'.length + g.minLen ≤ s.length) :=
  ⟨getBits_length, decodeSym_progress⟩

/-- `dbuf[]` never holds more than `dbufSize` symbols, and a block writes at most 255 bytes per symbol:
    output of one block ≤ 255 · dbufSize whatever the stream declares -/
theorem C08_bzip2_work_output :
    (∀ dbufSize stb st st' sym d, st.dbuf.size ≤ dbufSize → processSym dbufSize stb st sym = .ok (st', d) →
        st'.dbuf.size ≤ dbufSize) ∧
    (∀ c0 d, (unrle1 c0 d).size ≤ 255 * d.length) :=
  ⟨processSym_dbuf_le, unrle1_size⟩

/-- **one block, any input bits**: the symbol loop returns at most `dbufSize` symbols and no more bits than it got,
    and the block's output is at most `255 · dbufSize` bytes (`dbufSize = 100000 · level`), whatever counts, run lengths
    or selectors the stream declares -/
theorem C08_bzip2_work_block (dbufSize fuel : Nat) :
    (∀ h sc sel g st st' s s', st.dbuf.size ≤ dbufSize → symLoop dbufSize h fuel sc sel g st s = .ok (st', s') →
        st'.dbuf.size ≤ dbufSize ∧ s'.length ≤ s.length) ∧
    (∀ s s' blk, decodeBlock dbufSize fuel s = .ok (blk, s') → blk.length ≤ 255 * dbufSize) :=
  ⟨fun h sc sel g st st' s s' => symLoop_bounds dbufSize h fuel sc sel g st st' s s',
   fun s s' blk => decodeBlock_output_le dbufSize fuel s s' blk⟩

end Xmp.Bzip2
