import XmpProps.C11Core
import XmpModel.FmtMod
import XmpModel.FmtS3m
import XmpModel.FmtXm
import XmpModel.FmtIt
/-!
# C11 ↔ C19: the core test functions against the byte-level readers of the four core formats

`XmpModel.Fmt{Mod,S3m,Xm,It}.read` are C19's models of `mod_load`, `s3m_load`, `xm_load`, `it_load`
followed by `load_module`'s epilogue (tied to the real loaders by C19's correspondence).  For every file
such a reader accepts:

* `C11_core_read_title` — the module name the reader produces IS the `coreLoadTitle` of this file (so the
  C11 model of what the loader stores in `mod->name` and C19's reader agree), and the title the modelled test
  function reports matches it strictly;
* `C11_core_read_accepts` — for XM, IT and S3M the modelled test function accepts the file (a file that
  loads is a file that lists).  For MOD the reader inlines `mod_test`'s checks in a different shape; the
  corresponding statement is not proved here (both are tied to the real `mod_test` separately).

The elimination lemmas walk the readers' `do` blocks one statement at a time (the join points of the `do`
elaborator are never duplicated), so they do not depend on how many guards a reader has.
-/
namespace Xmp.TestLoad
open Xmp.Fmt

/-! ## the string functions of the two models are the same functions -/

theorem fmt_cstr (b : Bytes) : Fmt.cstr b = cstr b := by
  unfold Fmt.cstr
  induction b with
  | nil => rfl
  | cons c cs ih =>
    rw [List.takeWhile_cons]
    unfold cstr
    by_cases h : c = 0
    · subst h; simp
    · have hp : decide (c ≠ 0) = true := by simp [h]
      rw [if_pos hp, if_neg h, ih]

theorem fmt_isPrint (c : UInt8) : Fmt.isPrintAscii c = isPrint c := by
  unfold Fmt.isPrintAscii isPrint
  by_cases h1 : 32 ≤ c.toNat <;> by_cases h2 : c.toNat ≤ 126 <;> simp [h1, h2]

theorem fmt_stripTrail : ∀ (b : Bytes), Fmt.stripTrail b = trimR b
  | [] => rfl
  | c :: cs => by
    have ih := fmt_stripTrail cs
    unfold Fmt.stripTrail at ih ⊢
    rw [trimR_cons, List.reverse_cons, List.dropWhile_append]
    by_cases he : (List.dropWhile (fun x => x == 32) cs.reverse).isEmpty = true
    · have hnil : List.dropWhile (fun x => x == 32) cs.reverse = [] := List.isEmpty_iff.mp he
      rw [hnil] at ih
      have ht : trimR cs = [] := by rw [← ih]; rfl
      simp only [he, if_true, ht, List.isEmpty_nil, true_and]
      by_cases hc : c = 32
      · simp [hc]
      · have hb : (c == 32) = false := by simp [hc]
        simp [hc, hb, List.dropWhile]
    · simp only [he, Bool.false_eq_true, if_false, List.reverse_append, List.reverse_cons, List.reverse_nil,
        List.nil_append, List.singleton_append]
      rw [ih]
      have hne : (trimR cs).isEmpty = false := by
        rw [← ih]
        simpa using he
      simp [hne]

theorem fmt_adjustString (s : Bytes) : Fmt.adjustString s = adjustString s := by
  unfold Fmt.adjustString adjustString
  rw [fmt_stripTrail, fmt_cstr]
  congr 1
  apply List.map_congr_left
  intro c _
  simp [spCh, fmt_isPrint]

theorem fmt_copyAdjust (n : Nat) (r : Bytes) : Fmt.copyAdjust n r = copyAdjust r n := by
  unfold Fmt.copyAdjust copyAdjust
  rw [fmt_stripTrail, fmt_cstr]
  congr 1
  apply List.map_congr_left
  intro c _
  simp [dotCh, fmt_isPrint]

/-! ## walking a reader's `do` block -/

theorem guard_none {α β : Type} {c : Prop} [Decidable c] {f : β → Option α} {e : Option α} {m : α}
    (h : (if c then ((none : Option β) >>= f) else e) = some m) : ¬ c ∧ e = some m := by
  split at h
  · cases h
  · exact ⟨by assumption, h⟩

theorem bind_some {α β : Type} {x : Option α} {f : α → Option β} {m : β}
    (h : (x >>= f) = some m) : ∃ a, x = some a ∧ f a = some m := Option.bind_eq_some_iff.mp h

theorem bind_some_pair {α β γ : Type} {x : Option (α × β)} {f : α × β → Option γ} {m : γ}
    (h : (x >>= f) = some m) : ∃ a b, x = some (a, b) ∧ f (a, b) = some m := by
  obtain ⟨⟨a, b⟩, h1, h2⟩ := Option.bind_eq_some_iff.mp h
  exact ⟨a, b, h1, h2⟩

theorem ite_some_cases {α : Type} {c : Prop} [Decidable c] {a b : Option α} {m : α}
    (h : (if c then a else b) = some m) : (c ∧ a = some m) ∨ (¬ c ∧ b = some m) := by
  split at h
  · exact Or.inl ⟨by assumption, h⟩
  · exact Or.inr ⟨by assumption, h⟩

theorem takeN_some {n : Nat} {bs a b : Bytes} (h : takeN n bs = some (a, b)) :
    n ≤ bs.length ∧ a = bs.take n ∧ b = bs.drop n := by
  unfold takeN at h
  split at h
  · cases h; exact ⟨by assumption, rfl, rfl⟩
  · cases h

/-! ## what a successful read says about the head of the file -/

theorem xm_read_elim {bs : Bytes} {m : Module} (h : Xm.read bs = some m) :
    80 ≤ bs.length ∧ bs.take 17 = Xm.str "Extended Module: " ∧
    m.name = Fmt.adjustString (Fmt.cstr ((bs.drop 17).take 20)) := by
  unfold Xm.read at h
  obtain ⟨g1, h⟩ := guard_none h
  obtain ⟨g2, h⟩ := guard_none h
  refine ⟨by omega, Decidable.of_not_not g2, ?_⟩
  repeat (first
    | (with_reducible (replace h := (guard_none h).2))
    | (with_reducible (obtain ⟨_, _, -, h⟩ := bind_some_pair h))
    | (with_reducible (obtain ⟨_, -, h⟩ := bind_some h)))
  cases h
  rfl

theorem it_read_elim {bs : Bytes} {m : Module} (h : It.read bs = some m) :
    192 ≤ bs.length ∧ bs.take 4 = It.str "IMPM" ∧
    m.name = Fmt.adjustString (Fmt.cstr ((bs.drop 4).take 26)) := by
  unfold It.read at h
  obtain ⟨g1, h⟩ := guard_none h
  obtain ⟨g2, h⟩ := guard_none h
  refine ⟨by omega, Decidable.of_not_not g2, ?_⟩
  repeat (first
    | (with_reducible (replace h := (guard_none h).2))
    | (with_reducible (obtain ⟨_, _, -, h⟩ := bind_some_pair h))
    | (with_reducible (obtain ⟨_, -, h⟩ := bind_some h)))
  cases h
  rfl

theorem s3m_read_elim {bs : Bytes} {m : Module} (h : S3m.read bs = some m) :
    96 ≤ bs.length ∧ ((bs.take 96).drop 44).take 4 = S3m.str "SCRM" ∧ (bs.take 96).getD 29 0 = 0x10 ∧
    m.name = Fmt.adjustString (Fmt.copyAdjust 28 ((bs.take 96).take 28)) := by
  unfold S3m.read at h
  obtain ⟨g1, h⟩ := guard_none h
  obtain ⟨g2, h⟩ := guard_none h
  obtain ⟨g3, h⟩ := guard_none h
  refine ⟨by omega, Decidable.of_not_not g2, Decidable.of_not_not g3, ?_⟩
  repeat (first
    | (with_reducible (replace h := (guard_none h).2))
    | (with_reducible (obtain ⟨_, _, -, h⟩ := bind_some_pair h))
    | (with_reducible (obtain ⟨_, -, h⟩ := bind_some h)))
  cases h
  rfl

theorem mod_read_elim {bs : Bytes} {m : Module} (h : Mod.read bs = some m) :
    m.name = Fmt.adjustString (Fmt.cstr (bs.take 20)) := by
  unfold Mod.read at h
  obtain ⟨name, r, h0, h⟩ := bind_some_pair h
  obtain ⟨-, hn, -⟩ := takeN_some h0
  subst hn
  with_reducible (obtain ⟨_, _, -, h⟩ := bind_some_pair h)
  with_reducible (obtain ⟨_, _, -, h⟩ := bind_some_pair h)
  with_reducible (obtain ⟨_, _, -, h⟩ := bind_some_pair h)
  with_reducible (obtain ⟨_, _, -, h⟩ := bind_some_pair h)
  with_reducible (obtain ⟨mi, -, h⟩ := bind_some h)
  with_reducible (replace h := (guard_none h).2)
  with_reducible (replace h := (guard_none h).2)
  -- `let r ← if mi.digital then … else some r`
  with_reducible (rcases ite_some_cases h with ⟨-, h⟩ | ⟨-, h⟩)
  all_goals (
    with_reducible (obtain ⟨_, -, h⟩ := bind_some h)
    with_reducible (replace h := (guard_none h).2)
    -- the UNIC / pattern checks apply to undetected table magics only
    with_reducible (rcases ite_some_cases h with ⟨-, h⟩ | ⟨-, h⟩))
  all_goals (try (
    with_reducible (replace h := (guard_none h).2)
    with_reducible (replace h := (guard_none h).2)
    with_reducible (replace h := (guard_none h).2)))
  all_goals (
    with_reducible (replace h := (guard_none h).2)
    with_reducible (obtain ⟨_, _, -, h⟩ := bind_some_pair h)
    with_reducible (replace h := (guard_none h).2)
    with_reducible (obtain ⟨_, -, h⟩ := bind_some h)
    cases h
    rfl)

/-! ## C11_core_read_title -/

theorem adjustString_titleOfRaw (raw : Bytes) : adjustString (titleOfRaw raw) = titleOfRaw raw := by
  have h := (C11_title raw raw.length).2.2
  have e1 : copyAdjust raw raw.length = titleOfRaw raw := by
    unfold copyAdjust titleOfRaw; rw [List.take_length]
  rwa [e1] at h

/-- the name a C19 reader computes from the raw title field: `libxmp_adjust_string` of the C string in the
field (xm, mod, it); for s3m `libxmp_copy_adjust` first -/
theorem readerName_eq (k : CoreFmt) (bs : Bytes) :
    (if k = .s3m then Fmt.adjustString (Fmt.copyAdjust 28 (k.raw bs)) else Fmt.adjustString (Fmt.cstr (k.raw bs))) =
      coreLoadTitle k bs := by
  rw [coreLoadTitle_eq]
  split
  · rename_i hk
    subst hk
    rw [fmt_adjustString, fmt_copyAdjust]
    have hl : (CoreFmt.s3m.raw bs).length ≤ 28 := CoreFmt.s3m.raw_length_le bs
    have e1 : copyAdjust (CoreFmt.s3m.raw bs) 28 = titleOfRaw (CoreFmt.s3m.raw bs) := by
      unfold copyAdjust titleOfRaw; rw [List.take_of_length_le hl]
    rw [e1, adjustString_titleOfRaw]
  · rw [fmt_adjustString, fmt_cstr]
    unfold adjustString
    rw [cstr_idem]

/-- the reader of each core format -/
def coreRead : CoreFmt → Bytes → Option Module
  | .xm => Xm.read | .mod => Mod.read | .it => It.read | .s3m => S3m.read

/-- **the module name C19's reader produces is the loaded title of the C11 model, and the title the test
function reports for the same bytes matches it strictly** — for every file the reader accepts -/
theorem C11_core_read_title (k : CoreFmt) (bs : Bytes) (m : Module) (h : coreRead k bs = some m) :
    m.name = coreLoadTitle k bs ∧ titleMatchStrict (coreTestTitle k bs) m.name = true := by
  have hn : m.name = coreLoadTitle k bs := by
    rw [← readerName_eq]
    cases k with
    | xm => exact (xm_read_elim h).2.2
    | mod =>
      have := mod_read_elim h
      simpa [CoreFmt.raw, CoreFmt.titleOff, CoreFmt.titleLen] using this
    | it => exact (it_read_elim h).2.2
    | s3m =>
      obtain ⟨hl, _, _, hnm⟩ := s3m_read_elim h
      have : (bs.take 96).take 28 = CoreFmt.s3m.raw bs := by
        simp [CoreFmt.raw, CoreFmt.titleOff, CoreFmt.titleLen, List.take_take]
      rw [this] at hnm
      simpa using hnm
  exact ⟨hn, by rw [hn]; exact C11_core_title_bytes k bs⟩

/-! ## C11_core_read_accepts -/

theorem xm_accepts_of_head {bs : Bytes} (hl : 80 ≤ bs.length) (hm : bs.take 17 = Xm.str "Extended Module: ") :
    CoreFmt.xm.accepts bs = true := by
  have hid : (asciiBytes Gen.xmIdText).take 17 = Xm.str "Extended Module: " := by decide +kernel
  have h17 : Gen.xmIdLen = 17 := rfl
  have hlen : (bs.take 17).length = 17 := by rw [List.length_take]; omega
  have hr : (Stream.read { data := bs } 17).1 = bs.take 17 := by
    simp only [Stream.read, List.drop_zero]
  have hl17 : (Xm.str "Extended Module: ").length = 17 := by rw [← hm]; exact hlen
  simp only [CoreFmt.accepts, CoreFmt.probe, xmProbe, h17, hr, hid, hm, hl17]
  simp

theorem it_accepts_of_head {bs : Bytes} (_hl : 192 ≤ bs.length) (hm : bs.take 4 = It.str "IMPM") :
    CoreFmt.it.accepts bs = true := by
  have hs : It.str "IMPM" = [73, 77, 80, 77] := by decide +kernel
  rw [hs] at hm
  have hr : (Stream.read { data := bs } 4).1 = [73, 77, 80, 77] := by
    simp only [Stream.read, List.drop_zero, hm]
  have hv : beNat [73, 77, 80, 77] = Gen.MAGIC_IMPM := by decide
  simp only [CoreFmt.accepts, CoreFmt.probe, itProbe, Stream.readBE, hr, List.length_cons, List.length_nil, hv]
  simp

theorem s3m_accepts_of_head {bs : Bytes} (hl : 96 ≤ bs.length)
    (hm : ((bs.take 96).drop 44).take 4 = S3m.str "SCRM") (hb : (bs.take 96).getD 29 0 = 0x10) :
    CoreFmt.s3m.accepts bs = true := by
  have hs : S3m.str "SCRM" = [83, 67, 82, 77] := by decide +kernel
  rw [hs] at hm
  have h44 : (bs.drop 44).take 4 = [83, 67, 82, 77] := by
    rw [← hm, List.drop_take, List.take_take]
    simp
  have h29 : (bs.drop 29).take 1 = [0x10] := by
    have hlt : 29 < bs.length := by omega
    have hg : bs.getD 29 0 = 0x10 := by
      rw [List.getD_eq_getElem?_getD, List.getElem?_take] at hb
      simpa [List.getD_eq_getElem?_getD] using hb
    rw [List.getD_eq_getElem?_getD, List.getElem?_eq_getElem hlt] at hg
    rw [List.drop_eq_getElem_cons hlt, List.take_succ_cons, List.take_zero]
    simpa using hg
  have m44 : min 44 bs.length = 44 := by omega
  have m29 : min 29 bs.length = 29 := by omega
  have r1 : ((Stream.seekSet { data := bs } 44).readBE 4) = (Gen.MAGIC_SCRM, { data := bs, pos := 48 }) := by
    simp only [Stream.readBE, Stream.read, Stream.seekSet, m44, h44]
    rfl
  have r2 : ((Stream.seekSet { data := bs, pos := 48 } 29).readBE 1) = (0x10, { data := bs, pos := 30 }) := by
    simp only [Stream.readBE, Stream.read, Stream.seekSet, m29, h29]
    rfl
  simp only [CoreFmt.accepts, CoreFmt.probe, s3mProbe, r1, r2]
  simp

/-- **a file that C19's reader loads is a file the modelled test function accepts** (XM, IT, S3M) -/
theorem C11_core_read_accepts (k : CoreFmt) (hk : k ≠ .mod) (bs : Bytes) (m : Module) (h : coreRead k bs = some m) :
    k.accepts bs = true := by
  cases k with
  | xm => obtain ⟨h1, h2, _⟩ := xm_read_elim h; exact xm_accepts_of_head h1 h2
  | mod => exact absurd rfl hk
  | it => obtain ⟨h1, h2, _⟩ := it_read_elim h; exact it_accepts_of_head h1 h2
  | s3m => obtain ⟨h1, h2, h3, _⟩ := s3m_read_elim h; exact s3m_accepts_of_head h1 h2 h3

end Xmp.TestLoad
