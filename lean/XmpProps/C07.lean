import XmpProofs.Stream
/-!
# C07 — All four I/O entry points see the same module

Property theorems over `XmpModel.Stream`: the three back-ends of `hio_*`
(`File`: stdio on a regular file, `Mem`: memio.c/mdataio.h, `Cb`: callbackio.h
over user callbacks that honour the fread/fseek/ftell contract `Legal`), the
abstract stream `Spec`, and programs over the stream operations (`StreamProg`).

* `C07_refines`     every back-end refines `Spec` on the agreeing fragment;
* `C07_programs`    every program of the fragment computes the same result on
                    FILE, memory and every legal callback set;
* `C07_divergence`  the fragment is maximal: whenever `Spec` refuses an
                    operation there is a continuation (≤ 2 operations) on which
                    two back-ends answer differently, and the one relaxation
                    of `Agree` (partial trailing item) is a real difference;
                    witnesses D2–D6.  D1 (`read8s` at end of data: 0 from a
                    FILE, -1 elsewhere) was repaired in libxmp: the agreeing
                    fragment grew, `C07_read8s_agree` replaces the witness;
* `C07_eof_guarded` programs that consult `hio_eof` only directly after a short
                    read are in the fragment (loader-level statement of D3), with the
                    counter-shape `C07_eof_after_complete_read`;
* `C07_same_core`   the four entry points run the same program (`load.c`);
                    only the path fields differ.

Searched, not proved (see tools/checks/c07.py): that the ~110 format loaders'
*results* do not depend on operations outside the fragment.
-/
namespace Xmp.Stream

/-! ## C07_refines -/

/-- **Each back-end refines the abstract stream on the agreeing fragment**: if
`Spec` defines operation `o` in (reachable) state `s`, then
* the FILE back-end in the corresponding state answers as `Spec` does (up to
  `Agree`: the bytes of a partial trailing item) and moves to the state
  corresponding to `s'`;
* the memory back-end answers exactly as `Spec` does;
* every callback handle over callbacks honouring `Legal`, in any state related
  to `s`, answers as `Spec` does (up to `Agree`) and stays related;
* `s'` is again a reachable state.
Values, counts, positions and the zero/non-zero error flag are all part of
`Out` / of the state relation. -/
theorem C07_refines (bytes : Bytes) (s s' : Spec.St) (o : Op) (out : Out)
    (hinv : Spec.Inv bytes s) (h : Spec.step bytes s o = some (out, s')) :
    (Agree out (File.step bytes (File.ofSpec s) o).1 ∧
      (File.step bytes (File.ofSpec s) o).2 = File.ofSpec s') ∧
    Mem.step bytes (Mem.ofSpec s) o = (out, Mem.ofSpec s') ∧
    (∀ {σ : Type} (cb : Callbacks σ) (posOf : σ → Nat), Legal bytes cb posOf →
      ∀ t : Cb.St σ, Cb.Rel posOf s t →
        Agree out (Cb.step cb bytes.length t o).1 ∧
        Cb.Rel posOf s' (Cb.step cb bytes.length t o).2) ∧
    Spec.Inv bytes s' :=
  ⟨File.refines bytes s s' o out hinv h, Mem.refines bytes s s' o out hinv h,
   fun cb posOf hl t hr => Cb.refines bytes cb posOf hl s s' t o out hinv hr h,
   Spec.inv_step bytes s s' o out hinv h⟩

/-- non-trivial instance: a 32-bit read that runs into the end of a 3-byte
stream is inside the fragment (all-ones value, position at the end, error set) -/
example : Spec.step [1, 2, 3] { pos := 1 } (.word .l32) =
    some (.val 0xffffffff, { pos := 3, err := .eof, sticky := true }) := by decide

/-- the harness's callbacks are legal for every policy and every chunking -/
theorem C07_memCb_legal (bytes : Bytes) (pol : CbPolicy) : Legal bytes (memCb bytes pol) id :=
  memCb_legal bytes pol

/-! ## C07_programs -/

/-- A program of the fragment, started in related states, returns on each
back-end what it returns on the abstract stream. -/
theorem run_eq_spec {α : Type} (bytes : Bytes) (p : StreamProg α) (s : Spec.St)
    (hinv : Spec.Inv bytes s) (hf : InFrag bytes s p) :
    ∃ a, Spec.run bytes p s = some a ∧
      run (File.step bytes) p (File.ofSpec s) = a ∧
      run (Mem.step bytes) p (Mem.ofSpec s) = a ∧
      ∀ {σ : Type} (cb : Callbacks σ) (posOf : σ → Nat), Legal bytes cb posOf →
        ∀ t : Cb.St σ, Cb.Rel posOf s t → run (Cb.step cb bytes.length) p t = a := by
  induction hf with
  | ret s a => exact ⟨a, rfl, rfl, rfl, fun _ _ _ _ _ => rfl⟩
  | op s s' o out k hstep hk _ ih =>
    obtain ⟨⟨hfa, hfs⟩, hm, hc, hinv'⟩ := C07_refines bytes s s' o out hinv hstep
    obtain ⟨a, ha, hfr, hmr, hcr⟩ := ih hinv'
    refine ⟨a, ?_, ?_, ?_, ?_⟩
    · simp only [Spec.run, hstep]; exact ha
    · simp only [run]; rw [hk _ hfa, hfs]; exact hfr
    · simp only [run]; rw [hm]; exact hmr
    · intro σ cb posOf hl t hr
      obtain ⟨hca, hcs⟩ := hc cb posOf hl t hr
      simp only [run]; rw [hk _ hca]; exact hcr cb posOf hl _ hcs

/-- **Every program of the agreeing fragment computes the same result on the
FILE back-end, the memory back-end and every legal callback set** (freshly
opened handles; `u₀` is the callbacks' initial state, positioned at 0). -/
theorem C07_programs {α σ : Type} (bytes : Bytes) (p : StreamProg α) (hf : InFrag bytes {} p)
    (cb : Callbacks σ) (posOf : σ → Nat) (hl : Legal bytes cb posOf) (u₀ : σ) (h0 : posOf u₀ = 0) :
    run (File.step bytes) p {} = run (Mem.step bytes) p {} ∧
    run (Mem.step bytes) p {} = run (Cb.step cb bytes.length) p { u := u₀ } := by
  obtain ⟨a, _, hfr, hmr, hcr⟩ := run_eq_spec bytes p {} (Spec.inv_init bytes) hf
  have hc := hcr cb posOf hl { u := u₀ } ⟨h0, rfl, rfl⟩
  exact ⟨hfr.trans hmr.symm, hmr.trans hc.symm⟩

/-- … and in particular on the harness's callbacks under every policy (seek
beyond the end allowed / clamped / refused, partial items stored or not) and
every internal chunking. -/
theorem C07_programs_memCb {α : Type} (bytes : Bytes) (p : StreamProg α) (hf : InFrag bytes {} p)
    (pol : CbPolicy) :
    run (File.step bytes) p {} = run (Mem.step bytes) p {} ∧
    run (Mem.step bytes) p {} = run (Cb.step (memCb bytes pol) bytes.length) p { u := 0 } :=
  C07_programs bytes p hf (memCb bytes pol) id (memCb_legal bytes pol) 0 rfl

/-- `Agree` only ever relaxes the bytes of a partial item: a numeric result is
exactly the abstract one -/
theorem agree_val {v : Int} {out' : Out} (h : Agree (.val v) out') : out' = .val v := by
  rcases h with h | ⟨_, _, _, _, h, _⟩
  · exact h
  · cases h

theorem agree_data {r : Nat} {i t : Bytes} {out' : Out}
    (h : Agree (.data r i t) out') : ∃ t', out' = .data r i t' := by
  rcases h with h | ⟨_, _, _, _, h, h'⟩
  · exact ⟨t, h⟩
  · cases h; exact ⟨_, h'⟩

/-- the loop of `set_md5sum` (load.c): rewind, then `hio_read(buf, 1, n)` until
it returns 0; returns the bytes seen -/
def md5Loop (n : Nat) : Nat → Bytes → StreamProg Bytes
  | 0, acc => .ret acc
  | fuel + 1, acc => .op (.read 1 n) fun
      | .data r items _ => if r = 0 then .ret acc else md5Loop n fuel (acc ++ items)
      | _ => .ret acc

def md5Prog (n fuel : Nat) : StreamProg Bytes := .op (.seek 0 .set) fun _ => md5Loop n fuel []

/-- non-trivial instance of `InFrag`: the md5 loop with a 2-byte buffer over 3
bytes is in the fragment — it ends with a short read and a read at the end —
and therefore (by `C07_programs`) sees the same bytes through every back-end. -/
example : InFrag [10, 20, 30] {} (md5Prog 2 4) := by
  refine .op _ { pos := 0 } _ (.val 0) _ (by decide) (fun _ _ => rfl) ?_
  refine .op _ { pos := 2 } _ (.data 2 [10, 20] []) _ (by decide) ?_ ?_
  · intro out' h; obtain ⟨t', rfl⟩ := agree_data h; rfl
  refine .op _ { pos := 3, err := .eof, sticky := true } _ (.data 1 [30] []) _ (by decide) ?_ ?_
  · intro out' h; obtain ⟨t', rfl⟩ := agree_data h; rfl
  refine .op _ { pos := 3, err := .eof, sticky := true } _ (.data 0 [] []) _ (by decide) ?_ ?_
  · intro out' h; obtain ⟨t', rfl⟩ := agree_data h; rfl
  exact .ret _ _

example : run (Mem.step [10, 20, 30]) (md5Prog 2 4) {} = [10, 20, 30] := by decide

/-! ## C07_divergence -/

/-- the callback handle that corresponds to abstract state `s` (harness callbacks) -/
def cbOfSpec (s : Spec.St) : Cb.St Nat := { u := s.pos, eof := s.sticky, err := s.err }

theorem cbOfSpec_rel (s : Spec.St) : Cb.Rel id s (cbOfSpec s) := ⟨rfl, rfl, rfl⟩

/-- **The fragment is maximal.**  Whenever `Spec` refuses operation `o` in a
reachable state `s`, the operation followed by at most two more operations is
answered differently by the FILE back-end and the memory back-end, or by the
FILE back-end and a (legal) callback set, started in the states that correspond
to `s`. -/
theorem C07_divergence (bytes : Bytes) (s : Spec.St) (o : Op)
    (hinv : Spec.Inv bytes s) (h : Spec.step bytes s o = none) :
    ∃ ops : List Op, ops.length ≤ 2 ∧
      (trace (File.step bytes) (o :: ops) (File.ofSpec s) ≠ trace (Mem.step bytes) (o :: ops) (Mem.ofSpec s) ∨
       ∃ pol, trace (File.step bytes) (o :: ops) (File.ofSpec s) ≠
              trace (Cb.step (memCb bytes pol) bytes.length) (o :: ops) (cbOfSpec s)) := by
  obtain ⟨hp, hs⟩ := hinv
  cases o with
  | word w => simp only [Spec.step] at h; split at h <;> simp at h
  | read size num =>
    simp only [Spec.step] at h
    split at h
    · -- D3b: a zero-count read resets the callback EOF flag only
      rename_i hn
      split at h <;> simp at h
      rename_i hst
      subst hn
      refine ⟨[.eof], by simp, Or.inr ⟨{}, ?_⟩⟩
      simp [trace, File.step, File.fread, File.ofSpec, Cb.step, memCb, cbOfSpec, hst, b2i]
    · rename_i hn
      split at h
      · -- D4: zero-size items: `-2` (not cleared by a seek) against `EOF`
        rename_i hz
        split at h <;> simp at h
        rename_i hst
        subst hz
        have h0 : ¬ (0 = num) := fun h => hn h.symm
        refine ⟨[.seek 0 .set, .error], by simp, Or.inl ?_⟩
        simp [trace, File.step, File.fread, File.ofSpec, Mem.step, Mem.mread, Mem.ofSpec, h0, hst, target,
          Err.afterSeek, b2i]
      · split at h <;> simp at h
  | seek off w =>
    simp only [Spec.step] at h
    split at h
    · -- D5: a refused seek resets the callback EOF flag only
      rename_i hneg
      split at h <;> simp at h
      rename_i hst
      refine ⟨[.eof], by simp, Or.inr ⟨{}, ?_⟩⟩
      simp [trace, File.step, File.ofSpec, Cb.step, memCb, cbOfSpec, hneg, hst, b2i]
    · -- D2: seek beyond the end: stdio goes there, memory clamps
      rename_i hneg
      split at h <;> simp at h
      rename_i hgt
      refine ⟨[.tell], by simp, Or.inl ?_⟩
      simp [trace, File.step, File.ofSpec, Mem.step, Mem.ofSpec, hneg]
      omega
  | tell => simp [Spec.step] at h
  | eof =>
    -- D3: at pos = size without a short read memory says EOF, stdio does not
    simp only [Spec.step] at h
    split at h
    · simp at h
    · rename_i hst
      split at h <;> simp at h
      rename_i hge
      have : bytes.length - s.pos = 0 := by omega
      refine ⟨[], by simp, Or.inl ?_⟩
      simp [trace, File.step, File.ofSpec, Mem.step, Mem.ofSpec, Mem.canRead, hst, this, b2i]
  | error => simp [Spec.step] at h
  | size => simp [Spec.step] at h

/-- **`read8s` at the end of the data is inside the fragment** (former divergence
D1): all three back-ends return -1 = `(int8)0xff`, set the error flag and stay at the
end.  Before libxmp's `read8s` (dataio.c) was aligned, a FILE returned 0 here and the
fragment had to require that programs ignore the value; that hypothesis is gone, so
`C07_programs` now covers programs that *use* an unchecked `hio_read8s`
(e.g. the track-pan loop of mmd3_load.c). -/
theorem C07_read8s_agree (bytes : Bytes) (s : Spec.St) (hinv : Spec.Inv bytes s)
    (hend : bytes.length < s.pos + 1) (pol : CbPolicy) :
    Spec.step bytes s (.word .s8) = some (.val (-1), { pos := bytes.length, err := .eof, sticky := true }) ∧
    (File.step bytes (File.ofSpec s) (.word .s8)).1 = .val (-1) ∧
    (Mem.step bytes (Mem.ofSpec s) (.word .s8)).1 = .val (-1) ∧
    (Cb.step (memCb bytes pol) bytes.length (cbOfSpec s) (.word .s8)).1 = .val (-1) := by
  have hstep : Spec.step bytes s (.word .s8) =
      some (.val (-1), { pos := bytes.length, err := .eof, sticky := true }) := by
    have : ¬ (s.pos + 1 ≤ bytes.length) := by omega
    simp [Spec.step, Word.len, this, Word.failOnes]
  obtain ⟨⟨hfa, _⟩, hm, hc, _⟩ := C07_refines bytes s _ _ _ hinv hstep
  refine ⟨hstep, agree_val hfa, by rw [hm], ?_⟩
  exact agree_val (hc (memCb bytes pol) id (memCb_legal bytes pol) (cbOfSpec s) (cbOfSpec_rel s)).1

/-- The relaxation of `Agree` is a real difference (D6): after a short
`hio_read` with a partial trailing item, FILE and memory leave its bytes in the
buffer while a legal callback need not. -/
theorem C07_divergence_tail (bytes : Bytes) (s : Spec.St) (size num : Nat) (hinv : Spec.Inv bytes s)
    (hshort : bytes.length < s.pos + size * num) (hpart : (bytes.length - s.pos) % size ≠ 0) :
    ∃ r items tail, tail ≠ [] ∧
      (File.step bytes (File.ofSpec s) (.read size num)).1 = .data r items tail ∧
      (Mem.step bytes (Mem.ofSpec s) (.read size num)).1 = .data r items tail ∧
      (Cb.step (memCb bytes { partialTail := false }) bytes.length (cbOfSpec s) (.read size num)).1 =
        .data r items [] := by
  have hz : size ≠ 0 := by intro h; subst h; simp at hshort; have := hinv.1; omega
  have hn : num ≠ 0 := by intro h; subst h; simp at hshort; have := hinv.1; omega
  have hstep : Spec.step bytes s (.read size num) =
      some (.data ((bytes.drop s.pos).length / size)
        ((bytes.drop s.pos).take ((bytes.drop s.pos).length / size * size))
        ((bytes.drop s.pos).drop ((bytes.drop s.pos).length / size * size)),
        { pos := bytes.length, err := .eof, sticky := true }) := by
    have : ¬ (s.pos + size * num ≤ bytes.length) := by omega
    simp [Spec.step, hz, hn, this]
  obtain ⟨⟨hfa, _⟩, hm, hc, _⟩ := C07_refines bytes s _ _ _ hinv hstep
  have hlen : (bytes.drop s.pos).length = bytes.length - s.pos := by simp
  have hdm := Nat.div_add_mod (bytes.length - s.pos) size
  have hlt : (bytes.length - s.pos) / size * size < bytes.length - s.pos := by
    rw [Nat.mul_comm]; omega
  refine ⟨_, _, _, ?_, ?_, by rw [hm], ?_⟩
  · intro h
    have := congrArg List.length h
    simp at this
    omega
  · obtain ⟨t', h'⟩ := agree_data hfa
    -- FILE keeps the partial item too: read it off the model
    have hall : slice bytes s.pos (size * num) = bytes.drop s.pos := slice_all _ _ _ (by omega)
    have htot : size * num ≠ 0 := Nat.mul_ne_zero hz hn
    simp only [File.step, File.fread, htot, if_false, File.ofSpec, hall]
  · have hp := hinv.1
    have hne : size * num ≠ 0 := Nat.mul_ne_zero hz hn
    have hmin : min (size * num) (bytes.length - s.pos) = bytes.length - s.pos := by
      apply Nat.min_eq_right; omega
    have hneq : ¬ (bytes.length - s.pos = size * num) := by omega
    rw [Cb.step]
    simp only [memCb, cbOfSpec, hne, if_false, hmin, hneq, false_or, hlen, Bool.false_eq_true]
    rw [copyChunks_eq bytes _ _ _ _ (by omega)]
    have hl2 : (slice bytes s.pos ((bytes.length - s.pos) / size * size)).length =
        (bytes.length - s.pos) / size * size := by rw [slice_length]; omega
    simp only [slice] at hl2 ⊢
    simp [List.take_of_length_le (Nat.le_of_eq hl2), List.drop_of_length_le (Nat.le_of_eq hl2)]

/-! ### concrete witnesses (replayed on the real back-ends by harness/c07_streamops.c) -/

/-- former D1, now an agreement: `read8`, then `read8s` at the end of `[1]`: -1 everywhere -/
theorem C07_D1_repaired :
    trace (File.step [1]) [.word .u8, .word .s8] {} = [.val 1, .val (-1)] ∧
    trace (Mem.step [1]) [.word .u8, .word .s8] {} = [.val 1, .val (-1)] ∧
    trace (Cb.step (memCb [1] {}) 1) [.word .u8, .word .s8] { u := 0 } = [.val 1, .val (-1)] := by decide

/-- the shape of the repaired finding `entry:mmd3:load-tables` (stereo.med, byte 636 ^ 0x10): an offset
taken from the file points beyond the end, the loader seeks there and uses an unchecked `hio_read8s`:
the value is the same (-1) whether or not the seek went beyond the end (FILE) or was clamped (memory) -/
theorem C07_read8s_after_seek_past :
    trace (File.step [1, 2]) [.seek 9 .set, .word .s8] {} = [.val 0, .val (-1)] ∧
    trace (Mem.step [1, 2]) [.seek 9 .set, .word .s8] {} = [.val 0, .val (-1)] ∧
    trace (Cb.step (memCb [1, 2] {}) 2) [.seek 9 .set, .word .s8] { u := 0 } = [.val 0, .val (-1)] := by decide

/-- D2: `seek(5, SEEK_SET)` on 2 bytes, then `tell`: FILE 5, memory 2 (clamped);
callbacks 5 / 2 / refused according to the user's `seek_func` -/
theorem C07_D2 :
    trace (File.step [1, 2]) [.seek 5 .set, .tell] {} = [.val 0, .val 5] ∧
    trace (Mem.step [1, 2]) [.seek 5 .set, .tell] {} = [.val 0, .val 2] ∧
    trace (Cb.step (memCb [1, 2] { seekPast := .allow }) 2) [.seek 5 .set, .tell] { u := 0 } = [.val 0, .val 5] ∧
    trace (Cb.step (memCb [1, 2] { seekPast := .clamp }) 2) [.seek 5 .set, .tell] { u := 0 } = [.val 0, .val 2] ∧
    trace (Cb.step (memCb [1, 2] { seekPast := .fail }) 2) [.seek 5 .set, .tell] { u := 0 } = [.val (-1), .val 0] := by
  decide

/-- D3: `seek(0, SEEK_END)`, then `eof`: memory 1, FILE and callbacks 0; the same
after reading exactly up to the end -/
theorem C07_D3 :
    trace (File.step [1, 2]) [.seek 0 .end_, .eof] {} = [.val 0, .val 0] ∧
    trace (Mem.step [1, 2]) [.seek 0 .end_, .eof] {} = [.val 0, .val 1] ∧
    trace (Cb.step (memCb [1, 2] {}) 2) [.seek 0 .end_, .eof] { u := 0 } = [.val 0, .val 0] ∧
    trace (File.step [1, 2]) [.word .l16, .eof] {} = [.val 513, .val 0] ∧
    trace (Mem.step [1, 2]) [.word .l16, .eof] {} = [.val 513, .val 1] := by decide

/-- D4: error *codes* differ: `hio_read(buf, 0, 3)` records `-2` on a FILE and
`EOF` elsewhere; only `EOF` is cleared by the next seek -/
theorem C07_D4 :
    trace (File.step [1, 2]) [.read 0 3, .seek 0 .set, .error] {} = [.data 0 [] [], .val 0, .val 1] ∧
    trace (Mem.step [1, 2]) [.read 0 3, .seek 0 .set, .error] {} = [.data 0 [] [], .val 0, .val 0] ∧
    trace (Cb.step (memCb [1, 2] {}) 2) [.read 0 3, .seek 0 .set, .error] { u := 0 } =
      [.data 0 [] [], .val 0, .val 0] := by decide

/-- D5: after a short read, a zero-count read or a refused seek resets the
callback EOF flag but not stdio's -/
theorem C07_D5 :
    trace (File.step [1]) [.word .l16, .read 1 0, .eof] {} = [.val 0xffff, .data 0 [] [], .val 1] ∧
    trace (Cb.step (memCb [1] {}) 1) [.word .l16, .read 1 0, .eof] { u := 0 } = [.val 0xffff, .data 0 [] [], .val 0] ∧
    trace (File.step [1]) [.word .l16, .seek (-1) .set, .eof] {} = [.val 0xffff, .val (-1), .val 1] ∧
    trace (Cb.step (memCb [1] {}) 1) [.word .l16, .seek (-1) .set, .eof] { u := 0 } =
      [.val 0xffff, .val (-1), .val 0] := by decide

/-- D6: `hio_read(buf, 2, 2)` on 3 bytes: one item, the third byte is left in the
buffer by FILE and memory, not by a callback that stores complete items only -/
theorem C07_D6 :
    trace (File.step [1, 2, 3]) [.read 2 2] {} = [.data 1 [1, 2] [3]] ∧
    trace (Mem.step [1, 2, 3]) [.read 2 2] {} = [.data 1 [1, 2] [3]] ∧
    trace (Cb.step (memCb [1, 2, 3] { partialTail := false }) 3) [.read 2 2] { u := 0 } = [.data 1 [1, 2] []] := by
  decide

/-- the `arch_test` pattern behind finding F14 (`while (!hio_eof) { id = read32b; len = read32l;
seek(len, SEEK_CUR) }`): a chunk that claims more bytes than remain — memory
clamps and reports EOF (loop ends), FILE seeks beyond the end and reads all-ones -/
theorem C07_F14_pattern :
    trace (File.step [0, 0, 0, 1, 9, 0, 0, 0, 7]) [.word .b32, .word .l32, .seek 9 .cur, .eof, .word .b32] {} =
      [.val 1, .val 9, .val 0, .val 0, .val 0xffffffff] ∧
    trace (Mem.step [0, 0, 0, 1, 9, 0, 0, 0, 7]) [.word .b32, .word .l32, .seek 9 .cur, .eof, .word .b32] {} =
      [.val 1, .val 9, .val 0, .val 1, .val 0xffffffff] := by decide

/-! ## the `hio_eof` discipline (loader-level statement of D3) -/


/-- a short read leaves the abstract stream "sticky" -/
theorem short_sticky (bytes : Bytes) (s s' : Spec.St) (o : Op) (out : Out)
    (h : Spec.step bytes s o = some (out, s')) (hs : isShortRead bytes s o = true) : s'.sticky = true := by
  cases o with
  | word w =>
    simp only [isShortRead, decide_eq_true_eq] at hs
    have : ¬ (s.pos + w.len ≤ bytes.length) := by omega
    simp [Spec.step, this] at h
    obtain ⟨_, rfl⟩ := h; rfl
  | read size num =>
    simp only [isShortRead, decide_eq_true_eq] at hs
    obtain ⟨hn, hz, hlt⟩ := hs
    have : ¬ (s.pos + size * num ≤ bytes.length) := by omega
    simp [Spec.step, hn, hz, this] at h
    obtain ⟨_, rfl⟩ := h; rfl
  | seek off w => simp [isShortRead] at hs
  | tell => simp [isShortRead] at hs
  | eof => simp [isShortRead] at hs
  | error => simp [isShortRead] at hs
  | size => simp [isShortRead] at hs

theorem eofGuarded_inFrag {α : Type} (bytes : Bytes) (js : Bool) (s : Spec.St) (p : StreamProg α)
    (h : EofGuarded bytes js s p) (hjs : js = true → s.sticky = true) : InFrag bytes s p := by
  induction h with
  | ret js s a => exact .ret s a
  | eof s k _ ih =>
    have hst := hjs rfl
    refine .op s s .eof (.val 1) k (by simp [Spec.step, hst]) ?_ (ih hjs)
    intro out' ha; rw [agree_val ha]
  | op js s s' o out k hne hstep hk _ ih =>
    exact .op s s' o out k hstep hk (ih (short_sticky bytes s s' o out hstep))


/-- `eof` is specified exactly when a read came up short since the last successful seek, or the
position is strictly inside the data -/
theorem C07_eof_defined_iff (bytes : Bytes) (s : Spec.St) :
    (Spec.step bytes s .eof).isSome = true ↔ (s.sticky = true ∨ s.pos < bytes.length) := by
  by_cases hst : s.sticky = true
  · simp [Spec.step, hst]
  · by_cases hlt : s.pos < bytes.length
    · simp [Spec.step, hst, hlt]
    · simp [Spec.step, hst, hlt]

/-- **Programs that consult `hio_eof` only directly after a short read agree on every
back-end** (their other operations being defined by `Spec`): such a program is in the
agreeing fragment, hence by `C07_programs` returns the same result on FILE, memory and
every legal callback set — and every `eof` it issues answers "true".  Conversely
(`C07_divergence`, `C07_eof_after_complete_read`, `C07_F14_pattern`) `eof` at `pos = size`
without a short read is answered differently by memory and stdio. -/
theorem C07_eof_guarded {α σ : Type} (bytes : Bytes) (p : StreamProg α) (hg : EofGuarded bytes false {} p)
    (cb : Callbacks σ) (posOf : σ → Nat) (hl : Legal bytes cb posOf) (u₀ : σ) (h0 : posOf u₀ = 0) :
    run (File.step bytes) p {} = run (Mem.step bytes) p {} ∧
    run (Mem.step bytes) p {} = run (Cb.step cb bytes.length) p { u := u₀ } :=
  C07_programs bytes p (eofGuarded_inFrag bytes false {} p hg (by simp)) cb posOf hl u₀ h0

/-- the loader idiom `x = hio_read16b(f); if (hio_eof(f)) fail;` -/
def readThenEof (w : Word) : StreamProg (Int × Int) :=
  .op (.word w) fun
    | .val v => .op .eof fun
        | .val e => .ret (v, e)
        | _ => .ret (v, -1)
    | _ => .ret (-1, -1)

/-- non-trivial instance: when the read really comes up short the idiom is inside the discipline … -/
example : EofGuarded [7] false {} (readThenEof .l16) := by
  refine .op false {} { pos := 1, err := .eof, sticky := true } (.word .l16) (.val 0xffff) _ (by decide) (by decide) ?_ ?_
  · intro out' h; rw [agree_val h]
  · exact .eof _ _ (.ret _ _ _)

/-- … **but not when the read completes at the last byte of the data** (the shape of the
findings `entry:abk:load-*`, `entry:mmd1:load-rc` and of the S3M pattern loop with `hio_eof`
in place of `hio_error`): the memory back-end reports EOF, stdio and callbacks do not, so a
structure stored last in the file is rejected from memory only. -/
theorem C07_eof_after_complete_read :
    run (File.step [0, 7]) (readThenEof .b16) {} = (7, 0) ∧
    run (Mem.step [0, 7]) (readThenEof .b16) {} = (7, 1) ∧
    run (Cb.step (memCb [0, 7] {}) 2) (readThenEof .b16) { u := 0 } = (7, 0) ∧
    Spec.run [0, 7] (readThenEof .b16) {} = none := by decide

/-! ## C07_same_core -/

/-- run a program the way entry point `e` does: on a freshly opened handle of
its back-end -/
def runEntry {α σ : Type} (bytes : Bytes) (cb : Callbacks σ) (u₀ : σ) (e : Entry) (p : StreamProg α) : α :=
  match e.backend with
  | .file => run (File.step bytes) p {}
  | .mem => run (Mem.step bytes) p {}
  | .cb => run (Cb.step cb bytes.length) p { u := u₀ }

/-- **The four entry points hand the same program to their back-end**
(`test_module` / `load_module` are shared): the test program does not depend on
the entry point at all; the load program depends on it only through the path
fields, which are the same (`NULL`, `NULL`, `NULL`, size) for FILE, memory and
callbacks; if no loader of the table looks at the path fields the program is
the same for all four. -/
theorem C07_same_core {Res : Type} (tbl : List (Loader Res)) (path : String) (size : Nat) :
    (∀ e₁ e₂ : Entry, testEntry e₁ tbl = testEntry e₂ tbl) ∧
    (∀ e₁ e₂ : Entry, e₁ ≠ .path → e₂ ≠ .path → loadEntry e₁ path size tbl = loadEntry e₂ path size tbl) ∧
    ((∀ l ∈ tbl, ∀ pi pi', l.load pi = l.load pi') →
      ∀ e₁ e₂ : Entry, loadEntry e₁ path size tbl = loadEntry e₂ path size tbl) := by
  refine ⟨fun _ _ => rfl, ?_, ?_⟩
  · intro e₁ e₂ h1 h2
    have : e₁.pathInfo path size = e₂.pathInfo path size := by
      cases e₁ <;> cases e₂ <;> first | rfl | exact absurd rfl h1 | exact absurd rfl h2
    simp only [loadEntry, this]
  · intro hpi e₁ e₂
    simp only [loadEntry]
    generalize e₁.pathInfo path size = p1
    generalize e₂.pathInfo path size = p2
    induction tbl with
    | nil => rfl
    | cons l ls ih =>
      have hl : l.load p1 = l.load p2 := hpi l (List.mem_cons_self) p1 p2
      have ih' := ih (fun l' hl' => hpi l' (List.mem_cons_of_mem _ hl'))
      simp only [loadModule, hl, ih']

/-- **Same result through every entry point**: if the load program of the
table stays in the agreeing fragment on `bytes`, then FILE, memory and callback
loads return the same code and the same module, for every legal callback set. -/
theorem C07_entrypoints {Res σ : Type} (bytes : Bytes) (tbl : List (Loader Res)) (path : String)
    (cb : Callbacks σ) (posOf : σ → Nat) (hl : Legal bytes cb posOf) (u₀ : σ) (h0 : posOf u₀ = 0)
    (hf : InFrag bytes {} (loadEntry .file path bytes.length tbl))
    (e₁ e₂ : Entry) (h1 : e₁ ≠ .path) (h2 : e₂ ≠ .path) :
    runEntry bytes cb u₀ e₁ (loadEntry e₁ path bytes.length tbl) =
    runEntry bytes cb u₀ e₂ (loadEntry e₂ path bytes.length tbl) := by
  have hsame := (C07_same_core tbl path bytes.length).2.1
  obtain ⟨hfm, hmc⟩ := C07_programs bytes _ hf cb posOf hl u₀ h0
  rw [hsame e₁ .file h1 (by decide), hsame e₂ .file h2 (by decide)]
  cases e₁ <;> cases e₂ <;>
    first
    | rfl
    | exact absurd rfl h1
    | exact absurd rfl h2
    | exact hfm
    | exact hfm.symm
    | exact hmc
    | exact hmc.symm
    | exact hfm.trans hmc
    | exact (hfm.trans hmc).symm

/-- the same for the test entry points (path and FILE included: both open the
FILE back-end) -/
theorem C07_entrypoints_test {Res σ : Type} (bytes : Bytes) (tbl : List (Loader Res))
    (cb : Callbacks σ) (posOf : σ → Nat) (hl : Legal bytes cb posOf) (u₀ : σ) (h0 : posOf u₀ = 0)
    (hf : InFrag bytes {} (testModule tbl)) (e₁ e₂ : Entry) :
    runEntry bytes cb u₀ e₁ (testEntry e₁ tbl) = runEntry bytes cb u₀ e₂ (testEntry e₂ tbl) := by
  obtain ⟨hfm, hmc⟩ := C07_programs bytes _ hf cb posOf hl u₀ h0
  cases e₁ <;> cases e₂ <;>
    first
    | rfl
    | exact hfm
    | exact hfm.symm
    | exact hmc
    | exact hmc.symm
    | exact hfm.trans hmc
    | exact (hfm.trans hmc).symm

/-- a one-loader table whose test reads a 2-byte magic and whose loader reads a
16-bit little-endian length and that many bytes -/
def demoTable : List (Loader Bytes) :=
  [{ name := "demo"
     test := .op (.word .b16) fun | .val v => .ret (v == 0x4d21) | _ => .ret false
     load := fun _ => .op (.word .b16) fun _ => .op (.word .l16) fun
       | .val n => .op (.read 1 n.toNat) fun
           | .data r items _ => .ret (if r = n.toNat then some items else none)
           | _ => .ret none
       | _ => .ret none }]

/-- non-trivial instance: a truncated file (length field 3, one byte of data):
the load fails with -XMP_ERROR_LOAD through memory — and by `C07_entrypoints`
through every other entry point (the program is in the fragment: the failing
read is a short read) -/
example : run (Mem.step [0x4d, 0x21, 3, 0, 7]) (loadEntry .memory "" 5 demoTable) {} = (-4, none) := by decide
example : run (File.step [0x4d, 0x21, 3, 0, 7]) (loadEntry .file "" 5 demoTable) {} = (-4, none) := by decide
example : run (Mem.step [0x4d, 0x21, 1, 0, 7]) (loadEntry .memory "" 5 demoTable) {} = (0, some [7]) := by decide

end Xmp.Stream
