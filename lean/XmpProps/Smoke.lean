import XmpModel.Basic
namespace Xmp
theorem clamp_le (x lo hi : Int) (h : lo ≤ hi) : clamp x lo hi ≤ hi := by
  unfold clamp; split <;> (try split) <;> omega
end Xmp
