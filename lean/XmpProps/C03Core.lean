import XmpProps.C03
import XmpProofs.LoadPostCore
import XmpProofs.LoadPostCoreMod
import XmpProofs.LoadPostCoreS3m
import XmpProofs.LoadPostCoreXm
import XmpProofs.LoadPostCoreIt
/-!
# C03 × C19 — the four core loaders' bodies meet the loader obligations

`XmpProps/C03.lean` proves `finish scan raw = ok m → LoaderOblig raw → WF m` (`C03_finish_full`) for ARBITRARY raw
modules and leaves `LoaderOblig raw` — what the ~110 format loaders owe — to evaluation on real loads.  This file
discharges it by proof for Protracker MOD, Scream Tracker 3, FastTracker II XM and Impulse Tracker, over the
byte-level readers of the C19 stack (`Xmp.Fmt.Mod.read`, `S3m.read`, `Xm.read`, `It.read`, tied to `mod_load`,
`s3m_load`, `xm_load`, `it_load` by C19's correspondence) and `toRaw` (XmpModel/LoadPostCore.lean, tied to the raw
module of real loads by tools/c03_core.py):

* `C03_core_mod_song` … `C03_core_it_song`: for EVERY byte string the reader accepts, the song has patterns of at
  least one row and names shorter than their arrays (`SongOk`);
* `C03_core_oblig`: `SongOk s → LoaderOblig (toRaw L s x)` for every table layout and every `Extra`
  (restart, envelopes — unsigned bytes —, type string, channel table, …);
* `C03_core_mod_wf`, `C03_core_s3m_wf`, `C03_core_xm_wf`, `C03_core_it_wf`, `C03_core_wf`: hence every successful
  `finish` (every behaviour of `scan_module`, with or without the CIA/VBlank comparison) on the raw module of a
  file the reader accepts yields a module with EVERY clause of C03 (`WF`).
* `C03_core_guards`: the guard-frame clause is C20's allocation: `Spec.withGuards` puts 4 bytes before and 4 frames
  behind the PCM; `C03_core_mod_pcm` … `C03_core_it_pcm` (`C03_core_pcm`): for EVERY accepted byte string the PCM of
  every sample is exactly `len` frames after all storage conversions (sign flip, delta, stereo blocks, IT 2.14 /
  2.15 decompression), so (`C03_core_guard_frames`) the guard frames are the bytes `data[-4 .. 0)` and
  `data[len·framelen .. +4·framelen)` that the harness probes under ASan.

Not proved here (by construction of `toRaw`, checked by the tie): that the real loaders build the tables `toRaw`
describes.
-/
namespace Xmp.LoadPost.Core
open Xmp Xmp.LoadPost Xmp.Gen.Limits

/-- **C03_core_oblig**: whatever the layout and whatever the fields the song does not determine: a song with
`SongOk` and `PcmOk` corresponds to a raw module that meets every loader obligation. -/
theorem C03_core_oblig (L : Layout) (s : Song) (x : Extra) (h : SongOk s) (hp : PcmOk s) :
    LoaderOblig (toRaw L s x) = true :=
  oblig_of_songOk L s x h hp

/-- **C03_core_guards**: C20's allocation around any PCM is 4 bytes + the PCM + 4 frames; when the PCM is exactly
`len` frames the guard-frame flag of `toRaw` is set -/
theorem C03_core_guards (flg len : Nat) (pcm : Bytes) :
    (Sample.Spec.withGuards (frameLen flg) pcm).length = 4 + pcm.length + 4 * frameLen flg ∧
    (pcm = [] ∨ pcm.length = len * frameLen flg → guardOf flg len pcm = true) :=
  ⟨length_withGuards _ _, guardOf_true flg len pcm⟩

/-- **C03_core_mod_song**: every song `Mod.read` returns, for every byte string -/
theorem C03_core_mod_song (b : Bytes) (s : Song) (h : Fmt.Mod.read b = some s) : SongOk s := (mod_read_ok b s h).1

/-- … and its PCM is exactly `len` frames per sample -/
theorem C03_core_mod_pcm (b : Bytes) (s : Song) (h : Fmt.Mod.read b = some s) : PcmOk s := (mod_read_ok b s h).2

theorem C03_core_s3m_pcm (b : Bytes) (s : Song) (h : Fmt.S3m.read b = some s) : PcmOk s := s3m_read_pcmOk b s h
theorem C03_core_xm_pcm (b : Bytes) (s : Song) (h : Fmt.Xm.read b = some s) : PcmOk s := xm_read_pcmOk b s h
/-- plain and IT 2.14 / 2.15 compressed samples -/
theorem C03_core_it_pcm (b : Bytes) (s : Song) (h : Fmt.It.read b = some s) : PcmOk s := it_read_pcmOk b s h

/-- **C03_core_pcm**: all four readers: every sample's PCM is exactly `len` frames (or none is attached) -/
theorem C03_core_pcm (b : Bytes) (s : Song)
    (h : Fmt.Mod.read b = some s ∨ Fmt.S3m.read b = some s ∨ Fmt.Xm.read b = some s ∨ Fmt.It.read b = some s) : PcmOk s := by
  rcases h with h | h | h | h
  · exact C03_core_mod_pcm b s h
  · exact C03_core_s3m_pcm b s h
  · exact C03_core_xm_pcm b s h
  · exact C03_core_it_pcm b s h

/-- **C03_core_guard_frames**: with `PcmOk`, C20's allocation around a sample's PCM is `4 + len·framelen +
4·framelen` bytes: the guard frames sit where `xmp_sample.len` says -/
theorem C03_core_guard_frames (s : Song) (hp : PcmOk s) : ∀ m ∈ s.smps, m.pcm ≠ [] →
    (Sample.Spec.withGuards (frameLen m.flg) m.pcm).length = 4 + m.len * frameLen m.flg + 4 * frameLen m.flg := by
  intro m hm hne
  rcases hp m hm with h | h
  · exact absurd h hne
  · rw [(C03_core_guards m.flg m.len m.pcm).1, h]

theorem C03_core_s3m_song (b : Bytes) (s : Song) (h : Fmt.S3m.read b = some s) : SongOk s := s3m_read_songOk b s h
theorem C03_core_xm_song (b : Bytes) (s : Song) (h : Fmt.Xm.read b = some s) : SongOk s := xm_read_songOk b s h
theorem C03_core_it_song (b : Bytes) (s : Song) (h : Fmt.It.read b = some s) : SongOk s := it_read_songOk b s h

/-- **C03_core_mod_wf**: every successful load of a file `Mod.read` accepts is well-formed -/
theorem C03_core_mod_wf (b : Bytes) (s : Song) (x : Extra) (scan : Nat → ScanRes) (m : RawModule)
    (hr : Fmt.Mod.read b = some s) (hf : finish scan (toRawMod s x) = .ok m) : WF m = true :=
  C03_finish_full scan _ m hf (C03_core_oblig layMod s x (C03_core_mod_song b s hr) (C03_core_mod_pcm b s hr))

theorem C03_core_s3m_wf (b : Bytes) (s : Song) (x : Extra) (scan : Nat → ScanRes) (m : RawModule)
    (hr : Fmt.S3m.read b = some s) (hf : finish scan (toRawS3m s x) = .ok m) : WF m = true :=
  C03_finish_full scan _ m hf (C03_core_oblig layS3m s x (C03_core_s3m_song b s hr) (C03_core_s3m_pcm b s hr))

theorem C03_core_xm_wf (b : Bytes) (s : Song) (x : Extra) (scan : Nat → ScanRes) (m : RawModule)
    (hr : Fmt.Xm.read b = some s) (hf : finish scan (toRawXm s x) = .ok m) : WF m = true :=
  C03_finish_full scan _ m hf (C03_core_oblig layXm s x (C03_core_xm_song b s hr) (C03_core_xm_pcm b s hr))

/-- IT: the table layout follows the file's instrument-mode flag -/
theorem C03_core_it_wf (b : Bytes) (s : Song) (x : Extra) (scan : Nat → ScanRes) (m : RawModule)
    (hr : Fmt.It.read b = some s) (hf : finish scan (toRawIt b s x) = .ok m) : WF m = true :=
  C03_finish_full scan _ m hf (C03_core_oblig (layIt b) s x (C03_core_it_song b s hr) (C03_core_it_pcm b s hr))

/-- **C03_core_wf**: the four core formats together -/
theorem C03_core_wf (b : Bytes) (s : Song) (x : Extra) (scan : Nat → ScanRes) (m : RawModule) :
    (Fmt.Mod.read b = some s → finish scan (toRawMod s x) = .ok m → WF m = true) ∧
    (Fmt.S3m.read b = some s → finish scan (toRawS3m s x) = .ok m → WF m = true) ∧
    (Fmt.Xm.read b = some s → finish scan (toRawXm s x) = .ok m → WF m = true) ∧
    (Fmt.It.read b = some s → finish scan (toRawIt b s x) = .ok m → WF m = true) :=
  ⟨C03_core_mod_wf b s x scan m, C03_core_s3m_wf b s x scan m, C03_core_xm_wf b s x scan m, C03_core_it_wf b s x scan m⟩

/-- the same with `compare_vblank_scan` in the path (long Protracker modules) -/
theorem C03_core_mod_wf_vblank (cv : Bool) (b : Bytes) (s : Song) (x : Extra) (scan : Nat → ScanRes) (m : RawModule)
    (hr : Fmt.Mod.read b = some s) (hf : finishV cv scan (toRawMod s x) = .ok m) : WF m = true :=
  C03_core_mod_wf b s x (vblankScan cv scan) m hr hf

/-! ## non-vacuity: a file the reader accepts whose raw module `finish` accepts -/

/-- the smallest M.K. module: one order, one empty pattern, no samples -/
def exModBytes : Bytes :=
  List.replicate 20 0 ++ List.replicate (31 * 30) 0 ++ [1, 0x7f] ++ List.replicate 128 0 ++ Fmt.Mod.str "M.K." ++
  List.replicate 1024 0

def exScan : Nat → ScanRes := fun _ => { marks := [], time := 480 }

example : ((Fmt.Mod.read exModBytes).bind fun s => (finish exScan (toRawMod s {})).toOption).isSome = true := by
  decide +kernel

example : ((Fmt.Mod.read exModBytes).map fun s => decide (SongOk s ∧ PcmOk s)) = some true := by decide +kernel

/-- a hostile `Extra` is harmless: envelope scalars at their byte maximum, restart beyond the order list -/
example : ((Fmt.Mod.read exModBytes).map fun s => LoaderOblig (toRawMod s
    { rst := 200, env := fun _ => ({ flg := 7, npt := 255, sus := 255, sue := 255, lps := 255, lpe := 255 }, {}, {}) }))
    = some true := by decide +kernel

/-- the smallest S3M: one order, one pattern stored as parapointer 0, no instruments, one channel -/
def exS3mBytes : Bytes :=
  List.replicate 28 0 ++ [0x1a, 16, 0, 0] ++ [1, 0, 0, 0, 1, 0, 0, 0, 0x20, 0x13, 2, 0] ++ Fmt.Mod.str "SCRM" ++
  [64, 6, 125, 0xb0, 0, 0] ++ List.replicate 8 0 ++ [0, 0] ++ [0] ++ List.replicate 31 0xff ++ [0] ++ [0, 0]

/-- the smallest XM 1.04: one order, no stored pattern (libxmp appends its empty one), no instruments -/
def exXmBytes : Bytes :=
  Fmt.Mod.str "Extended Module: " ++ List.replicate 20 0 ++ [0x1a] ++ List.replicate 20 0x20 ++ [4, 1] ++ [0x14, 1, 0, 0] ++
  [1, 0, 0, 0, 1, 0, 0, 0, 0, 0, 1, 0, 6, 0, 125, 0] ++ List.replicate 256 0

/-- the smallest IT (sample mode): one order, one pattern with offset 0, no samples -/
def exItBytes : Bytes :=
  Fmt.Mod.str "IMPM" ++ List.replicate 26 0 ++ [0, 0] ++ [1, 0, 0, 0, 0, 0, 1, 0] ++ [0x14, 2, 0, 2] ++ [0, 0, 0, 0] ++
  [128, 48, 6, 125] ++ List.replicate 140 0 ++ [0] ++ [0, 0, 0, 0]

example : ((Fmt.S3m.read exS3mBytes).bind fun s => (finish exScan (toRawS3m s {})).toOption).isSome = true := by
  decide +kernel
example : ((Fmt.Xm.read exXmBytes).bind fun s => (finish exScan (toRawXm s {})).toOption).isSome = true := by
  decide +kernel
example : ((Fmt.It.read exItBytes).bind fun s => (finish exScan (toRawIt exItBytes s {})).toOption).isSome = true := by
  decide +kernel

end Xmp.LoadPost.Core
