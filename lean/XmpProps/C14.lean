import XmpProofs.MixLinear
import XmpProofs.MixKernel
import XmpProofs.MixKernelPaula
/-!
# C14 — The mixer is linear: mute means silence, channels superpose, separation mirrors

Property theorems over `XmpModel.MixLinear` (src/mixer.c voice loop, src/mix_all.c kernel
shape, src/virtual.c mute rule, src/player.c volume / pan tails).

* `C14_superposition*` — the 32-bit accumulator of a tick is *exactly* the wrapping sum of
  the solo mixes, for every list of voices, in any order; removing a voice subtracts exactly
  its solo mix (one channel's audio never depends on another channel being audible).
* `C14_quantisation` — after the downmix shift the full mix and the sum of the solo mixes
  differ by less than one step per voice, when no clamp triggers and the accumulator does not wrap.
* `C14_silence*` — voice volume 0 from the first tick ⇒ the voice adds nothing, ever; all
  contributions zero ⇒ buffer zero ⇒ output is the mid-scale constant; muted root ⇒ voice
  volume 0; master volume 0 ⇒ voice volume 0 **for module channels** (`…_master_partial`).
  The full statement (`SilenceMasterFull`) is false for the pinned code: background (NNA)
  voices are scaled by the effects-mixer volume (`C14_silence_master_counterexample`, finding
  F6); it is proved for the repaired rule (`C14_silence_master_full`); which of the two applies
  to the working tree is decided from the regenerated `nnaRootRule`
  (`C14_silence_master_status`).
* `C14_pan_*` — `process_pan` (src/player.c): every pan source (channel / default / slid pan, panbrello, pan
  envelope, random pan swing) is inside the clamp that precedes the separation scaling, so separation 0 gives
  equal left/right levels and `mix ↦ -mix` exchanges them for every value of every source.
* `C14_separation*` — separation 0 ⇒ `vol_l = vol_r` and identical left/right frames for a
  whole voice tick; `mix ↦ -mix` negates the pan (C division is odd), swaps `(vol_l, vol_r)`
  and swaps the left/right frames and state of a whole voice tick.
* `C14_kernel_*` — the same facts for the **concrete kernels of src/mix_all.c** (bit-exact model
  `XmpModel/MixKernel.lean`, all 40 `MIXER(...)` functions through the tables of mixer.c):
  a kernel call leaves `buffer + contribution(voice, arguments)` and a filter memory that do not
  depend on the buffer (`C14_kernel_adds`), hence ticks made of real kernel calls superpose
  exactly, in any order (`C14_kernel_superposition`, `_order_independent`, `_solo_independent`);
  zero levels ⇒ the buffer is untouched (`C14_kernel_silence`); every added word is bounded by
  `sampleBound · level` (`C14_kernel_bound`) and fits a C `int` for 16-bit levels
  (`C14_kernel_fits`); the accumulator holds the true integer sum while
  `voices · sampleBound · level < 2^31` (`C14_kernel_no_wrap`, instances for the voice limit) —
  beyond that it wraps (`C14_kernel_wrap_possible`) and superposition holds modulo 2^32 only;
  exchanging the left/right levels and ramps exchanges the left/right words
  (`C14_kernel_mirror`, `_mirror_stereo`), equal levels give equal words (`C14_kernel_center`); the abstract kernel
  of the tick model is a proved abstraction of every real kernel (`C14_kernel_refines`); a freed voice is
  cleared in every member the kernels read (`C14_voice_reset_clears`, member list generated from mixer.h) and the
  contributions after a reset do not depend on the slot's past (`C14_voice_reuse_independent`).
-/
namespace Xmp.MixLinear
open Xmp.Gen.MixLinearConsts

/-! ## Superposition -/

/-- **The full mix is the wrapping sum of the solo mixes** (exact, every voice list). -/
theorem C14_superposition (n : Nat) (cs : List Buf) :
    tick n cs = bsum n (cs.map (solo n)) := by
  simp only [tick, bsum]
  exact (foldl_addInto_solo n cs (zeros n) (by simp)).symm

/-- The same for an arbitrary per-voice contribution function. -/
theorem C14_superposition_mix {V : Type} (contrib : V → Buf) (n : Nat) (vs : List V) :
    mix contrib n vs = bsum n (vs.map fun v => mix contrib n [v]) := by
  simp only [mix, C14_superposition n (vs.map contrib), List.map_map]
  rfl

/-- The order of the voices is irrelevant. -/
theorem C14_superposition_perm (n : Nat) (cs ds : List Buf) (h : cs.Perm ds) :
    tick n cs = tick n ds :=
  List.Perm.foldl_eq' h (fun x _ y _ z => addInto_right_comm z x y) (zeros n)

/-- Mixing two groups of voices together = adding the two group mixes. -/
theorem C14_superposition_append (n : Nat) (cs ds : List Buf) :
    tick n (cs ++ ds) = addInto (tick n cs) (tick n ds) := by
  simp only [tick, List.foldl_append]
  exact foldl_addInto_split n ds _ (by simp [foldl_addInto_length])

/-- **Independence**: a voice in the middle of the list adds exactly its solo mix to the mix
of all the others. -/
theorem C14_solo_independent (n : Nat) (as bs : List Buf) (c : Buf) :
    tick n (as ++ c :: bs) = addInto (tick n (as ++ bs)) (solo n c) := by
  have hp : (as ++ c :: bs).Perm ((as ++ bs) ++ [c]) := by
    have : (c :: bs).Perm (bs ++ [c]) := List.perm_append_singleton c bs |>.symm
    simpa [List.append_assoc] using List.Perm.append_left as this
  rw [C14_superposition_perm n _ _ hp, C14_superposition_append]
  rfl

/-- Pointwise: every accumulator word is the wrapping sum of the voices' words. -/
theorem C14_superposition_pointwise (n : Nat) (cs : List Buf) (i : Nat) (h : i < n) :
    (tick n cs).getD i 0 = accSum (cs.map fun c => c.getD i 0) := by
  have gen : ∀ (b : Buf), b.length = n →
      (cs.foldl addInto b).getD i 0 = b.getD i 0 + accSum (cs.map fun c => c.getD i 0) := by
    induction cs with
    | nil => intro b _; simp [accSum]
    | cons c cs ih =>
      intro b hb
      simp only [List.foldl, List.map]
      rw [ih (addInto b c) (by simp [hb]), getD_addInto b c i (by omega), accSum_cons, BitVec.add_assoc]
  have := gen (zeros n) (by simp)
  simp only [tick, this]
  have hz : (zeros n).getD i 0 = 0 := by simp [zeros, List.getD, h]
  rw [hz, acc_zero_add]

/-- non-trivial instance: two voices, wrap-around in the first word -/
example : tick 2 [[0xFFFFFFFF#32, 5#32], [2#32]] = [1#32, 5#32]
    ∧ bsum 2 ([[0xFFFFFFFF#32, 5#32], [2#32]].map (solo 2)) = [1#32, 5#32] := by decide

/-! ## Quantisation -/

/-- Integer core: floor-shifting a sum vs summing the floor-shifted terms. -/
theorem C14_quantisation_int (xs : List Int) (k : Nat) (hne : xs ≠ []) :
    0 ≤ xs.sum >>> k - (xs.map fun x : Int => x >>> k).sum ∧ xs.sum >>> k - (xs.map fun x : Int => x >>> k).sum ≤ xs.length - 1 := by
  have hd : (0 : Int) < ((2 ^ k : Nat) : Int) := Int.natCast_pos.mpr (Nat.two_pow_pos k)
  have hm : (xs.map fun x : Int => x >>> k) = xs.map (· / ((2 ^ k : Nat) : Int)) := by
    apply List.map_congr_left
    intro x _
    exact Int.shiftRight_eq_div_pow x k
  rw [hm, Int.shiftRight_eq_div_pow]
  generalize ((2 ^ k : Nat) : Int) = d at *
  rcases sum_div_bounds d hd xs with ⟨h1, h2⟩ | h
  · generalize (xs.map (· / d)).sum = q at *
    have a : q ≤ xs.sum / d := Int.le_ediv_of_mul_le hd (by rw [Int.mul_comm]; exact h1)
    have b : xs.sum / d < q + xs.length := by
      apply Int.ediv_lt_of_lt_mul hd
      rw [Int.add_mul, Int.mul_comm q]
      exact h2
    omega
  · exact absurd h hne

/-- **Quantisation bound**: `as` are the values of one accumulator word in the solo mixes of
the voices; the full mix holds their wrapping sum.  If the true sum fits the accumulator and
no clamp triggers, the downmixed full mix exceeds the sum of the downmixed solo mixes by at
most `n - 1` steps (never by a negative amount). -/
theorem C14_quantisation (eight : Bool) (amp : Nat) (as : List Acc) (hne : as ≠ [])
    (hfit : -(2 ^ 31) ≤ (as.map BitVec.toInt).sum ∧ (as.map BitVec.toInt).sum < 2 ^ 31)
    (hfull : noClamp eight amp (accSum as)) (hsolo : ∀ a ∈ as, noClamp eight amp a) :
    0 ≤ down eight amp (accSum as) - (as.map (down eight amp)).sum ∧
    down eight amp (accSum as) - (as.map (down eight amp)).sum ≤ as.length - 1 := by
  have hsum : (accSum as).toInt = (as.map BitVec.toInt).sum := by
    rw [accSum_toInt]
    apply Int.bmod_eq_of_le <;> omega
  have hdown : ∀ a, noClamp eight amp a → down eight amp a = a.toInt >>> downShift eight amp := by
    intro a h
    unfold noClamp at h
    unfold down
    simp only
    split
    · omega
    · split
      · omega
      · rfl
  have hmap : as.map (down eight amp) = (as.map BitVec.toInt).map (fun x : Int => x >>> downShift eight amp) := by
    rw [List.map_map]
    apply List.map_congr_left
    intro a ha
    exact hdown a (hsolo a ha)
  rw [hdown _ hfull, hmap, hsum]
  have := C14_quantisation_int (as.map BitVec.toInt) (downShift eight amp) (by simpa using hne)
  simpa using this

/-- non-trivial instance: three voices each just below a step; the full mix gains 2 steps -/
example : down false 0 (accSum [4095#32, 4095#32, 4095#32]) = 2
    ∧ ([4095#32, 4095#32, 4095#32].map (down false 0)).sum = 0 := by decide

/-! ## Silence -/

/-- All voice contributions zero ⇒ the accumulator stays all zero. -/
theorem C14_silence_buffer (n : Nat) (cs : List Buf) (h : ∀ c ∈ cs, ∃ k, c = zeros k) :
    tick n cs = zeros n :=
  foldl_addInto_zero cs h (zeros n)

/-- A zero accumulator word is rendered as the mid-scale constant in every output format
and at every amplification. -/
theorem C14_silence_output (eight unsigned : Bool) (amp : Nat) :
    outSample eight unsigned amp 0 = midScale eight unsigned := by
  have : down eight amp 0#32 = 0 := by
    cases eight <;> simp [down, limHi, limLo, lim8Hi, lim8Lo, lim16Hi, lim16Lo]
  simp only [outSample, midScale]
  rw [show (0 : Acc) = 0#32 from rfl, this, Int.zero_add]

/-- **A voice whose volume is 0 and that carries no anticlick residue adds nothing**, whatever
its sample, position, pan, ramp state or kind, and still carries no residue afterwards. -/
theorem C14_silence_voice (cfg : TickCfg) (st : VState) (i : VIn)
    (hq : st.sleft = 0 ∧ st.sright = 0) (hv : i.vol = 0) :
    (voiceTick cfg st i).1 = List.replicate cfg.ticksize (0, 0) ∧
    (voiceTick cfg st i).2.sleft = 0 ∧ (voiceTick cfg st i).2.sright = 0 := by
  have hpre : acPre cfg st = [] := by
    unfold acPre
    split
    · simp [hq.1, hq.2]
    · rfl
  have hst : (acState cfg st).sleft = 0 ∧ (acState cfg st).sright = 0 := by
    unfold acState
    split
    · split <;> simp [hq.1, hq.2]
    · exact hq
  unfold voiceTick
  simp only [hpre, addAt_nil]
  cases hk : i.kind with
  | free => exact ⟨rfl, hst⟩
  | reset => exact ⟨rfl, rfl, rfl⟩
  | skip => exact ⟨rfl, hst⟩
  | run =>
    simp only [runVoice]
    have := foldl_segStep_quiet cfg i hv
      (rampDelta (volLR (mixVol i.vol i.mvol i.mvolbase) i.pan).1 (acState cfg st).oldVl (cfg.ticksize >>> anticlickShift))
      (rampDelta (volLR (mixVol i.vol i.mvol i.mvolbase) i.pan).2 (acState cfg st).oldVr (cfg.ticksize >>> anticlickShift))
      (List.replicate cfg.ticksize (0, 0)) i.segs
      { buf := List.replicate cfg.ticksize (0, 0), rampsize := cfg.ticksize >>> anticlickShift,
        oldVl := (acState cfg st).oldVl, oldVr := (acState cfg st).oldVr,
        sleft := (acState cfg st).sleft, sright := (acState cfg st).sright,
        volL := (volLR (mixVol i.vol i.mvol i.mvolbase) i.pan).1,
        volR := (volLR (mixVol i.vol i.mvol i.mvolbase) i.pan).2 } ⟨rfl, hst.1, hst.2⟩
    exact this

/-- **Silence from the first tick**: a voice that starts in the `calloc`ed state and whose
volume is 0 at every tick adds nothing at any tick. -/
theorem C14_silence_run (cfg : TickCfg) (st : VState) (ins : List VIn)
    (hq : st.sleft = 0 ∧ st.sright = 0) (hv : ∀ i ∈ ins, i.vol = 0) :
    ∀ fr ∈ (voiceRun cfg st ins).1, fr = List.replicate cfg.ticksize (0, 0) := by
  induction ins generalizing st with
  | nil => intro fr h; simp [voiceRun] at h
  | cons i rest ih =>
    intro fr h
    have h1 := C14_silence_voice cfg st i hq (hv i List.mem_cons_self)
    simp only [voiceRun, List.mem_cons] at h
    rcases h with h | h
    · rw [h]; exact h1.1
    · exact ih _ h1.2 (fun j hj => hv j (List.mem_cons_of_mem _ hj)) fr h

/-- … and then the stereo accumulator contribution is the zero buffer. -/
theorem C14_silence_contrib (cfg : TickCfg) (st : VState) (i : VIn)
    (hq : st.sleft = 0 ∧ st.sright = 0) (hv : i.vol = 0) :
    interleave (voiceTick cfg st i).1 = zeros (2 * cfg.ticksize) := by
  rw [(C14_silence_voice cfg st i hq hv).1, interleave_replicate_zero]

example : (voiceTick { ticksize := 16 } { oldVl := 8192, oldVr := 8192 }
    { vol := 0, pan := 20, segs := [{ smps := [(100, 100), (-3000, -3000)], acAfter := some 14, stop := true }] }).1
      = List.replicate 16 (0, 0) := by decide

/-- **Mute**: a voice whose root channel is muted gets volume 0, whatever the player computed. -/
theorem C14_silence_mute (c : PlayerVol) (muted : Nat → Bool) (chn root : Nat) (fv : Int)
    (hr : root < maxChannels) (hm : muted root = true) : voiceVol c muted chn root fv = 0 := by
  simp [voiceVol, virtSetVol, hr, hm]

example : voiceVol ⟨4, 4, 100, 100⟩ (fun r => r == 2) 7 2 1024 = 0 := by decide

/-- **Master volume 0** silences every voice that plays on a module channel itself
(`chn < mod.chn`) — whichever rule the code has for background voices. -/
theorem C14_silence_master_partial (c : PlayerVol) (muted : Nat → Bool) (chn root : Nat) (fv : Int)
    (h0 : c.masterVol = 0) (hc : chn < c.modChn) : voiceVol c muted chn root fv = 0 := by
  simp [voiceVol, virtSetVol, masterStage, usesMaster, hc, h0]

example : voiceVol ⟨4, 4, 0, 100⟩ (fun _ => false) 3 3 1024 = 0 := by decide

/-- **Master volume 0 silences both halves of a split channel pair** (Oktalyzer): the volume a channel hands to its
partner at the end of `process_volume` is the scaled one. -/
theorem C14_silence_master_split (c : PlayerVol) (muted : Nat → Bool) (chn root pairRoot : Nat) (fv : Int)
    (h0 : c.masterVol = 0) (hc : chn < c.modChn) : splitPairVol c muted chn root pairRoot fv = 0 := by
  simp [splitPairVol, virtSetVol, masterStage, usesMaster, hc, h0]

/-- … and in general the partner gets exactly what the channel itself gets, up to the partner's own mute -/
theorem C14_split_pair_volume (c : PlayerVol) (muted : Nat → Bool) (chn root pairRoot : Nat) (fv : Int)
    (hm : muted pairRoot = false) (hm' : muted root = false) :
    splitPairVol c muted chn root pairRoot fv = voiceVol c muted chn root fv := by
  simp [splitPairVol, voiceVol, virtSetVol, hm, hm']

example : splitPairVol ⟨6, 6, 0, 100⟩ (fun _ => false) 0 0 1 1024 = 0 ∧ splitPairVol ⟨6, 6, 50, 100⟩ (fun _ => false) 0 0 1 1024 = 512 := by decide

/-- **The volume-table lookup stays inside the table**: `process_volume` looks the table up *before* the master /
effects-mixer scaling (`volTableBeforeMaster`, regenerated from the statement order of src/player.c), i.e. with a value
`0 … 0x400` (the 16-bit volume stage ends in `>> 18` of at most 2^28, the channel volume is at most 100 %); the index is
then at most 256 for `volbase == 0xff` (table of 257 entries) and at most 64 otherwise (65 entries) — table lengths
counted in the loaders by the translator.  After a scaling by up to 200 % the same lookup would reach index 512. -/
theorem C14_vol_table_index (volbaseFF : Bool) (fv : Int) (h : 0 ≤ fv ∧ fv ≤ 0x400) :
    volTableBeforeMaster = some 1 ∧ 0 ≤ volTableIndex volbaseFF fv ∧
    (volbaseFF = true → (volTableIndex volbaseFF fv).toNat < volTableLenArch.getD 0) ∧
    (volbaseFF = false → (volTableIndex volbaseFF fv).toNat < volTableLenPtm.getD 0) := by
  refine ⟨by decide, ?_, ?_, ?_⟩
  · cases volbaseFF <;> simp only [volTableIndex, volTableShift, volTableShiftFF, volTableShiftElse, Option.getD, if_true,
      Bool.false_eq_true, if_false] <;> rw [Int.shiftRight_eq_div_pow] <;> omega
  · intro hb
    simp only [hb, volTableIndex, volTableShift, volTableShiftFF, volTableLenArch, Option.getD, if_true]
    rw [Int.shiftRight_eq_div_pow]; omega
  · intro hb
    simp only [hb, volTableIndex, volTableShift, volTableShiftElse, volTableLenPtm, Option.getD, Bool.false_eq_true, if_false]
    rw [Int.shiftRight_eq_div_pow]; omega

/-- **The master volume scales the table value linearly** (and volume 0 silences volume-table formats too): the voice
volume is the table output times `master_vol / 100`, not the table looked up at the scaled volume. -/
theorem C14_vol_table_then_master (c : PlayerVol) (muted : Nat → Bool) (chn root : Nat) (t : Int → Int) (ff : Bool) (fv : Int)
    (hc : chn < c.modChn) (hm : muted root = false) :
    volumeTail c muted chn root (some t) ff fv
      = Int.tdiv (t (volTableIndex ff fv) * 2 ^ volTableShift ff * c.masterVol) (masterDiv.getD 100) ∧
    (c.masterVol = 0 → volumeTail c muted chn root (some t) ff fv = 0) := by
  have e : volumeTail c muted chn root (some t) ff fv
      = Int.tdiv (t (volTableIndex ff fv) * 2 ^ volTableShift ff * c.masterVol) (masterDiv.getD 100) := by
    simp [volumeTail, voiceVol, virtSetVol, masterStage, usesMaster, hc, hm, volTableStage]
  refine ⟨e, ?_⟩
  intro h0
  rw [e, h0]
  simp

/-- the reordered computation differs: table `i ↦ 2·i` capped at 128 (a compressing table), volume 0x200, master 200 % -/
example :
    let t : Int → Int := fun i => if i < 64 then 2 * i else 128
    volumeTail ⟨4, 4, 200, 100⟩ (fun _ => false) 0 0 (some t) true 0x200 = 1024 ∧
    volTableStage (some t) true (masterStage ⟨4, 4, 200, 100⟩ 0 0 0x200) = 512 := by decide

/-- The full statement: master volume 0 silences every voice of the module — those on module
channels and the background (NNA) voices whose root is a module channel. -/
def SilenceMasterFull : Prop :=
  ∀ (c : PlayerVol) (muted : Nat → Bool) (chn root : Nat) (fv : Int),
    c.masterVol = 0 → c.modChn ≤ c.numTracks → (chn < c.modChn ∨ (c.numTracks ≤ chn ∧ root < c.modChn)) →
    voiceVol c muted chn root fv = 0

/-- With the repaired rule the full statement holds. -/
theorem C14_silence_master_full (h : nnaRootRule = true) : SilenceMasterFull := by
  intro c muted chn root fv h0 _ hcls
  have hu : usesMaster c chn root = true := by
    rcases hcls with hc | ⟨h1, h2⟩
    · simp [usesMaster, hc]
    · simp [usesMaster, h, h1, h2]
  simp [voiceVol, virtSetVol, masterStage, hu, h0]

/-- **Counterexample (finding F6)** for the pinned rule: with master volume 0 a background voice
of module channel 0 (virtual channel 4 of a 4-channel module without effects-mixer channels)
keeps its full volume.  Replayed on the real library by harness/c14_mixlinear.c (signature
`silence:master_vol:nna`). -/
theorem C14_silence_master_counterexample (h : nnaRootRule = false) : ¬ SilenceMasterFull := by
  intro hf
  have h1 := hf ⟨4, 4, 0, 100⟩ (fun _ => false) 4 0 1024 rfl (by decide) (by decide)
  have h2 : voiceVol ⟨4, 4, 0, 100⟩ (fun _ => false) 4 0 1024 = 1024 := by
    simp [voiceVol, virtSetVol, masterStage, usesMaster, h, maxChannels, smixDiv]
  omega

/-- **Status of the master-volume half on the current working tree** (decided from the
regenerated `nnaRootRule`): either the code has the repaired rule and the full statement is
proved, or it has the pinned rule and the full statement is refuted. -/
theorem C14_silence_master_status :
    (nnaRootRule = true ∧ SilenceMasterFull) ∨ (nnaRootRule = false ∧ ¬ SilenceMasterFull) := by
  cases h : nnaRootRule
  · exact Or.inr ⟨rfl, C14_silence_master_counterexample h⟩
  · exact Or.inl ⟨rfl, C14_silence_master_full h⟩

/-! ## Separation -/

/-- Separation 0 ⇒ pan 0 ⇒ `vol_l = vol_r`. -/
theorem C14_separation_zero (fp vol : Int) (mono : Bool) :
    finalPan fp 0 mono false = 0 ∧ (volLR vol (voicePan fp 0 mono false)).1 = (volLR vol (voicePan fp 0 mono false)).2 := by
  have h : finalPan fp 0 mono false = 0 := by
    unfold finalPan
    split
    · rfl
    · simp
  refine ⟨h, ?_⟩
  simp [voicePan, h, volLR, PAN_SURROUND, panSurround]

/-- Negating the separation negates the pan exactly (C division truncates toward zero). -/
theorem C14_separation_mirror_pan (fp mix : Int) (mono surround : Bool) :
    finalPan fp (-mix) mono surround = -finalPan fp mix mono surround := by
  unfold finalPan
  split
  · rfl
  · rw [Int.mul_neg, Int.neg_tdiv]

/-- Negating the pan of a non-surround voice swaps `(vol_l, vol_r)`. -/
theorem C14_separation_mirror_vol (vol pan : Int) (h1 : pan ≠ PAN_SURROUND) (h2 : -pan ≠ PAN_SURROUND) :
    volLR vol (-pan) = (volLR vol pan).swap := volLR_neg vol pan h1 h2

/-- … in particular for every pan the player can produce from a separation in −100…100. -/
theorem C14_separation_mirror (fp mix vol : Int) (hfp : 0 ≤ fp ∧ fp ≤ 255) (hmix : -100 ≤ mix ∧ mix ≤ 100) :
    volLR vol (voicePan fp (-mix) false false) = (volLR vol (voicePan fp mix false false)).swap := by
  have hb : -128 ≤ finalPan fp mix false false ∧ finalPan fp mix false false ≤ 128 := by
    have hd : ((mixDiv.getD 100 : Nat) : Int) = 100 := rfl
    simp only [finalPan, hd, Bool.false_eq_true, or_self, if_false]
    have hlo : -12800 ≤ (fp - 128) * mix := by
      rcases Int.le_total 0 mix with hm | hm
      · have : (-128) * mix ≤ (fp - 128) * mix := Int.mul_le_mul_of_nonneg_right (by omega) hm
        omega
      · have : (127 : Int) * mix ≤ (fp - 128) * mix := Int.mul_le_mul_of_nonpos_right (by omega) hm
        omega
    have hhi : (fp - 128) * mix ≤ 12800 := by
      rcases Int.le_total 0 mix with hm | hm
      · have : (fp - 128) * mix ≤ 127 * mix := Int.mul_le_mul_of_nonneg_right (by omega) hm
        omega
      · have : (fp - 128) * mix ≤ (-128) * mix := Int.mul_le_mul_of_nonpos_right (by omega) hm
        omega
    exact tdiv100_bounds _ ⟨hlo, hhi⟩
  simp only [voicePan, Bool.false_eq_true, if_false, C14_separation_mirror_pan]
  apply volLR_neg <;> simp only [PAN_SURROUND, panSurround] <;> omega

/-- `CLAMP(finalpan, 0, 255)` -/
theorem clampPan_range (x : Int) : 0 ≤ clampPan x ∧ clampPan x ≤ 255 := by
  unfold clampPan
  split
  · omega
  · split <;> omega

/-- **C14_pan_separation_zero**: with stereo separation 0 the pan `process_pan` hands to the mixer is 0 and the
left and right levels the mixer derives from it are equal — **for every value of every pan source** (channel /
default / slid pan, panbrello, pan envelope, random pan swing, either player mode) and every voice volume. -/
theorem C14_pan_separation_zero (p : PanSrc) (vol : Int) (mono : Bool) :
    processPan p 0 mono false = 0 ∧
    (volLR vol (processPan p 0 mono false)).1 = (volLR vol (processPan p 0 mono false)).2 ∧
    level (volLR vol (processPan p 0 mono false)).1 = level (volLR vol (processPan p 0 mono false)).2 := by
  have h := C14_separation_zero (clampPan (panSum p)) vol mono
  have e : processPan p 0 mono false = 0 := by
    simp only [processPan, voicePan, Bool.false_eq_true, if_false]
    exact h.1
  refine ⟨e, ?_, ?_⟩
  · rw [e]; simp [volLR, PAN_SURROUND, panSurround]
  · rw [e]; simp [volLR, PAN_SURROUND, panSurround]

/-- **C14_pan_separation_mirror**: negating the stereo separation exchanges the left and right levels exactly —
for every value of every pan source, every separation −100…100, every voice volume (non-surround voices, stereo
output).  All pan sources are inside the clamp that precedes the separation scaling; a source added after the
scaling (the seeded defect C14-m7) breaks both this and `C14_pan_separation_zero`. -/
theorem C14_pan_separation_mirror (p : PanSrc) (mix vol : Int) (hmix : -100 ≤ mix ∧ mix ≤ 100) :
    processPan p (-mix) false false = -processPan p mix false false ∧
    volLR vol (processPan p (-mix) false false) = (volLR vol (processPan p mix false false)).swap ∧
    (level (volLR vol (processPan p (-mix) false false)).1 = level (volLR vol (processPan p mix false false)).2 ∧
     level (volLR vol (processPan p (-mix) false false)).2 = level (volLR vol (processPan p mix false false)).1) := by
  have hm := C14_separation_mirror (clampPan (panSum p)) mix vol (clampPan_range _) hmix
  have hp : processPan p (-mix) false false = -processPan p mix false false := by
    simp only [processPan, voicePan, Bool.false_eq_true, if_false]
    exact C14_separation_mirror_pan _ _ _ _
  refine ⟨hp, hm, ?_⟩
  have h1 := congrArg Prod.fst hm
  have h2 := congrArg Prod.snd hm
  simp only [Prod.fst_swap, Prod.snd_swap] at h1 h2
  exact ⟨congrArg level h1, congrArg level h2⟩

/-- the pan handed to the mixer is always within −128…128 (or the surround marker): the hypothesis of
`C14_kernel_levels` holds for every pan source -/
theorem C14_pan_range (p : PanSrc) (mix : Int) (mono : Bool) (hmix : -100 ≤ mix ∧ mix ≤ 100) :
    -128 ≤ processPan p mix mono false ∧ processPan p mix mono false ≤ 128 := by
  have hr := clampPan_range (panSum p)
  simp only [processPan, voicePan, Bool.false_eq_true, if_false, finalPan]
  split
  · omega
  · have hd : ((mixDiv.getD 100 : Nat) : Int) = 100 := rfl
    rw [hd]
    generalize clampPan (panSum p) = fp at hr
    have hlo : -12800 ≤ (fp - 128) * mix := by
      rcases Int.le_total 0 mix with hm | hm
      · have : (-128) * mix ≤ (fp - 128) * mix := Int.mul_le_mul_of_nonneg_right (by omega) hm
        omega
      · have : (127 : Int) * mix ≤ (fp - 128) * mix := Int.mul_le_mul_of_nonpos_right (by omega) hm
        omega
    have hhi : (fp - 128) * mix ≤ 12800 := by
      rcases Int.le_total 0 mix with hm | hm
      · have : (fp - 128) * mix ≤ 127 * mix := Int.mul_le_mul_of_nonneg_right (by omega) hm
        omega
      · have : (fp - 128) * mix ≤ (-128) * mix := Int.mul_le_mul_of_nonpos_right (by omega) hm
        omega
    exact tdiv100_bounds _ ⟨hlo, hhi⟩

/-- non-trivial instance: panbrello −40 on a channel panned to 0x30 with a pan envelope at 48 and random swing 3
in IT mode; separation 60 vs −60 and 0 -/
example :
    let p : PanSrc := { panVal := 0x30, panbrello := -40, penv := 48, rpv := 3, itMode := true }
    processPan p 60 false false = -50 ∧ processPan p (-60) false false = 50 ∧ processPan p 0 false false = 0 ∧
    volLR 1000 (processPan p 60 false false) = (178000, 78000) ∧ volLR 1000 (processPan p (-60) false false) = (78000, 178000) := by
  decide

/-- **A whole voice tick mirrors**: with the pan negated (and stereo sample channels exchanged),
left/right state exchanged, the voice adds the left/right-exchanged frames and ends in the
exchanged state.  For mono samples (`Seg.swap sg = sg`) this is the property's
"negating the separation exactly swaps left and right". -/
theorem C14_separation_mirror_tick (cfg : TickCfg) (st : VState) (i : VIn)
    (h1 : i.pan ≠ PAN_SURROUND) (h2 : -i.pan ≠ PAN_SURROUND) :
    voiceTick cfg st.swap i.mirror = (swapF (voiceTick cfg st i).1, (voiceTick cfg st i).2.swap) := by
  have hpre : acPre cfg st.swap = swapF (acPre cfg st) := by
    unfold acPre
    simp only [VState.swap]
    by_cases hc : st.ac = true ∧ cfg.interpAbove = true
    · simp only [hc, and_self, if_true]
      exact anticlickRamp_swap _ _ _
    · simp only [hc, if_false]
      rfl
  have hst : acState cfg st.swap = (acState cfg st).swap := by
    unfold acState
    simp only [VState.swap]
    by_cases ha : st.ac = true <;> by_cases hi : cfg.interpAbove = true <;> simp [ha, hi]
  have hbuf : addAt (List.replicate cfg.ticksize ((0 : Int), (0 : Int))) 0 (acPre cfg st.swap)
      = swapF (addAt (List.replicate cfg.ticksize (0, 0)) 0 (acPre cfg st)) := by
    rw [hpre, ← addAt_swap, swapF_replicate_zero]
  unfold voiceTick
  simp only [hbuf, hst]
  have hkind : i.mirror.kind = i.kind := rfl
  rw [hkind]
  cases i.kind with
  | free => rfl
  | reset => rfl
  | skip => rfl
  | run =>
    simp only [runVoice]
    have hv : volLR (mixVol i.mirror.vol i.mirror.mvol i.mirror.mvolbase) i.mirror.pan
        = (volLR (mixVol i.vol i.mvol i.mvolbase) i.pan).swap := volLR_neg _ _ h1 h2
    rw [hv]
    simp only [Prod.fst_swap, Prod.snd_swap]
    have := foldl_segStep_swap cfg i
      (rampDelta (volLR (mixVol i.vol i.mvol i.mvolbase) i.pan).1 (acState cfg st).oldVl (cfg.ticksize >>> anticlickShift))
      (rampDelta (volLR (mixVol i.vol i.mvol i.mvolbase) i.pan).2 (acState cfg st).oldVr (cfg.ticksize >>> anticlickShift))
      i.segs
      { buf := addAt (List.replicate cfg.ticksize (0, 0)) 0 (acPre cfg st), rampsize := cfg.ticksize >>> anticlickShift,
        oldVl := (acState cfg st).oldVl, oldVr := (acState cfg st).oldVr,
        sleft := (acState cfg st).sleft, sright := (acState cfg st).sright,
        volL := (volLR (mixVol i.vol i.mvol i.mvolbase) i.pan).1,
        volR := (volLR (mixVol i.vol i.mvol i.mvolbase) i.pan).2 }
    simp only [Loop.swap, VState.swap] at this ⊢
    have hs : i.mirror.segs = i.segs.map Seg.swap := rfl
    rw [hs, this]

/-- **Separation 0 ⇒ identical left and right for a whole voice tick** of a mono sample:
pan 0 and a left/right-symmetric state give symmetric frames and a symmetric state. -/
theorem C14_separation_zero_tick (cfg : TickCfg) (st : VState) (i : VIn)
    (hpan : i.pan = 0) (hsym : st.swap = st) (hmono : i.segs.map Seg.swap = i.segs) :
    swapF (voiceTick cfg st i).1 = (voiceTick cfg st i).1 ∧ (voiceTick cfg st i).2.swap = (voiceTick cfg st i).2 := by
  have hm : i.mirror = i := by
    cases i
    simp only [VIn.mirror] at hmono ⊢
    simp_all
  have := C14_separation_mirror_tick cfg st i
    (by rw [hpan]; simp [PAN_SURROUND, panSurround]) (by rw [hpan]; simp [PAN_SURROUND, panSurround])
  rw [hsym, hm] at this
  constructor
  · exact (congrArg Prod.fst this).symm
  · exact (congrArg Prod.snd this).symm

/-- non-trivial instance: a ramping voice with an anticlick discharge and an end-of-sample ramp -/
example :
    let cfg : TickCfg := { ticksize := 16 }
    let st : VState := { oldVl := 100, oldVr := 900, sleft := 5000, sright := -700, ac := true }
    let i : VIn := { vol := 640, pan := 37, segs := [{ smps := [(100, 100), (-3000, -3000), (77, 77)], acAfter := some 13, stop := true }] }
    voiceTick cfg st.swap i.mirror = (swapF (voiceTick cfg st i).1, (voiceTick cfg st i).2.swap)
    ∧ (voiceTick cfg st i).1 ≠ swapF (voiceTick cfg st i).1 := by decide

end Xmp.MixLinear

/-! ## The concrete kernels of src/mix_all.c -/
namespace Xmp.MixKernel
open Xmp.Gen.MixKernelConsts
open Xmp.MixLinear

/-- **A real kernel only adds**: after `libxmp_mix_*(vi, buffer, count, vl, vr, step, ramp, delta_l,
delta_r)` the buffer is `buffer_before + contribution` (32-bit wrapping, word by word; words beyond
`count` frames untouched) where the contribution and the filter memory written back are functions of
the voice and the scalar arguments alone — for every one of the 40 kernels (`k` arbitrary), every
voice, every buffer content. -/
theorem C14_kernel_adds (k : KSpec) (v : KVoice) (a : KArgs) (buf : Buf) :
    (run k v a buf).1 = addInto buf (contribAcc k v a) ∧ (run k v a buf).2 = fltAfter k v a := by
  rw [run_eq]; exact ⟨rfl, rfl⟩

/-- the contribution has exactly `count` frames -/
theorem C14_kernel_length (k : KSpec) (v : KVoice) (a : KArgs) :
    (contrib k v a).length = a.count * (if k.stereoOut then 2 else 1) := contrib_length k v a

/-- **Superposition for the real kernels**: a tick buffer produced by any sequence of kernel calls
(any kernels, voices, offsets) is exactly the wrapping sum of the buffers each call produces alone. -/
theorem C14_kernel_superposition (n : Nat) (cs : List Call) :
    mixCalls n cs = bsum n (cs.map fun c => mixCalls n [c]) := by
  rw [mixCalls_eq_tick, C14_superposition, List.map_map]
  congr 1
  apply List.map_congr_left
  intro c _
  simp [mixCalls_eq_tick, solo]

/-- … in any order of the calls -/
theorem C14_kernel_order_independent (n : Nat) (cs ds : List Call) (h : cs.Perm ds) :
    mixCalls n cs = mixCalls n ds := by
  rw [mixCalls_eq_tick, mixCalls_eq_tick]
  exact C14_superposition_perm n _ _ (h.map _)

/-- … and one call adds its solo buffer to the mix of all the others, wherever it stands -/
theorem C14_kernel_solo_independent (n : Nat) (as bs : List Call) (c : Call) :
    mixCalls n (as ++ c :: bs) = addInto (mixCalls n (as ++ bs)) (mixCalls n [c]) := by
  simp only [mixCalls_eq_tick, List.map_append, List.map_cons, List.map_nil]
  exact C14_solo_independent n _ _ _

set_option maxRecDepth 100000 in
/-- non-trivial instance: a filtered spline kernel on a stereo sample and a ramping linear kernel,
overlapping in the buffer, in both orders -/
example :
    let smp : Int → Int := fun i => if i % 3 = 0 then 30000 else if i % 3 = 1 then -32768 else 12345
    let v1 : KVoice := { smp := smp, pos := 5, frac := 40000, oldVl := 100000, oldVr := -90000,
                         flt := { l1 := 1000000, l2 := -2000000, r1 := 5, r2 := 6, a0 := 1500000, b0 := 3000000, b1 := -400000 } }
    let v2 : KVoice := { smp := smp, pos := 9, frac := 123, oldVl := 0, oldVr := 65536, flt := {} }
    let c1 : Call := { spec := specOf 2 15, voice := v1, args := { count := 3, vl := 700, vr := -300, step := 70000, ramp := 1, dl := 2560, dr := -2560 }, off := 2 }
    let c2 : Call := { spec := specOf 1 4, voice := v2, args := { count := 4, vl := 1000, vr := 1000, step := -30000, ramp := 2, dl := 300, dr := 0 }, off := 0 }
    mixCalls 10 [c1, c2] = mixCalls 10 [c2, c1] ∧ mixCalls 10 [c1, c2] ≠ mixCalls 10 [c1] ∧ mixCalls 10 [c1] ≠ zeros 10 := by
  decide

/-- **Silence on the kernel level**: fixed levels 0 and a ramp that stays at level 0 (or no
`LOOP_AC` part) ⇒ the call leaves every buffer unchanged. -/
theorem C14_kernel_silence (k : KSpec) (v : KVoice) (a : KArgs) (hl : a.vl = 0) (hr : a.vr = 0)
    (hramp : 0 < nAC k a → (v.oldVl >>> (8 : Nat) = 0 ∧ a.dl = 0) ∧ (v.oldVr >>> (8 : Nat) = 0 ∧ a.dr = 0))
    (buf : Buf) : (run k v a buf).1 = buf := by
  have hz : ∀ w ∈ contrib k v a, w = 0 := by
    refine loop_zero k v a hl hr a.count (nAC k a) (St.init k v) ?_
    have e : (St.init k v).oldVl = v.oldVl ∧ (St.init k v).oldVr = v.oldVr := by
      unfold St.init; split <;> simp [nearestRound, advance]
    rw [e.1, e.2]
    exact hramp
  have : contribAcc k v a = zeros (contrib k v a).length := by
    unfold contribAcc zeros
    apply List.ext_getElem
    · simp
    · intro i h1 h2
      simp only [List.getElem_map, List.getElem_replicate]
      rw [hz _ (List.getElem_mem _)]
      rfl
  rw [(C14_kernel_adds k v a buf).1, this, addInto_zeros]

/-- in particular whenever the call has no ramp part (`ramp ≥ count`, or a nearest-neighbour kernel) -/
theorem C14_kernel_silence_noramp (k : KSpec) (v : KVoice) (a : KArgs) (hl : a.vl = 0) (hr : a.vr = 0)
    (hn : nAC k a = 0) (buf : Buf) : (run k v a buf).1 = buf :=
  C14_kernel_silence k v a hl hr (by omega) buf

set_option maxRecDepth 100000 in
example :
    let v : KVoice := {
      smp := fun i => 100 * i - 7, pos := 3, frac := 999, oldVl := 255, oldVr := 17,
      flt := { l1 := 77777, l2 := -5, r1 := 0, r2 := 0, a0 := 4000000, b0 := 100000, b1 := -90000 } }
    (run (specOf 2 13) v { count := 4, vl := 0, vr := 0, step := 98765, ramp := 1, dl := 0, dr := 0 }
        [1#32, 2#32, 3#32, 4#32, 5#32, 6#32, 7#32, 8#32, 9#32]).1
      = [1#32, 2#32, 3#32, 4#32, 5#32, 6#32, 7#32, 8#32, 9#32] := by decide

/-- **Bound of the contribution**: with sample memory of the element type of the kernel, a 16-bit
fraction, fixed levels and ramping levels within `±L`, every word a kernel adds is within
`±(sampleBound k · L)`, where `sampleBound` = 32768 (nearest, linear), 40960 (spline: the coefficient
mass of the generated table is ≤ 1.25), 65536 (filtered kernels: `MIX_FILTER_CLAMP`). -/
theorem C14_kernel_bound (k : KSpec) (v : KVoice) (a : KArgs) (hs : SmpRange k v.smp) (L : Int)
    (hfrac : k.interp = .nearest ∨ (0 ≤ v.frac ∧ v.frac < 65536))
    (hvl : -L ≤ a.vl ∧ a.vl ≤ L) (hvr : k.stereoOut = true → -L ≤ a.vr ∧ a.vr ≤ L)
    (hramp : ∀ j : Nat, j < nAC k a →
      (-L ≤ (v.oldVl + j * a.dl) >>> (8 : Nat) ∧ (v.oldVl + j * a.dl) >>> (8 : Nat) ≤ L) ∧
      (k.stereoOut = true → -L ≤ (v.oldVr + j * a.dr) >>> (8 : Nat) ∧ (v.oldVr + j * a.dr) >>> (8 : Nat) ≤ L)) :
    ∀ w ∈ contrib k v a, -(sampleBound k * L) ≤ w ∧ w ≤ sampleBound k * L :=
  contrib_bound k v a hs L hfrac hvl hvr hramp

/-- the fraction the kernel computes from a non-negative `vi->pos` is a 16-bit value -/
theorem C14_kernel_frac_range (m e : Int) (hm : 0 ≤ m) : 0 ≤ posFrac m e ∧ posFrac m e < 65536 :=
  posFrac_range m e hm

/-- **No hidden C overflow**: for 16-bit levels every product `sample · level` handed to `MIX_OUT`
fits a C `int` (so does every intermediate value of the interpolation and the filter:
`lerp_product_fits`, `spline_acc_fits`, `preamp_fits`, `filter_sum_fits` in XmpProofs/MixKernel.lean);
the only operation that can leave the `int` range is the accumulation `*(buffer++) += …`. -/
theorem C14_kernel_fits (k : KSpec) (v : KVoice) (a : KArgs) (hs : SmpRange k v.smp)
    (hfrac : k.interp = .nearest ∨ (0 ≤ v.frac ∧ v.frac < 65536))
    (hvl : -32767 ≤ a.vl ∧ a.vl ≤ 32767) (hvr : k.stereoOut = true → -32767 ≤ a.vr ∧ a.vr ≤ 32767)
    (hramp : ∀ j : Nat, j < nAC k a →
      (-32767 ≤ (v.oldVl + j * a.dl) >>> (8 : Nat) ∧ (v.oldVl + j * a.dl) >>> (8 : Nat) ≤ 32767) ∧
      (k.stereoOut = true → -32767 ≤ (v.oldVr + j * a.dr) >>> (8 : Nat) ∧ (v.oldVr + j * a.dr) >>> (8 : Nat) ≤ 32767)) :
    ∀ w ∈ contrib k v a, -(2 ^ 31) ≤ w ∧ w < 2 ^ 31 :=
  contrib_fits_int32 k v a hs hfrac hvl hvr hramp

/-- the bound is attained: a full-scale negative 8-bit sample through the nearest-neighbour kernel -/
example : contrib (specOf 0 0) { smp := fun _ => -128, pos := 0, frac := 0, oldVl := 0, oldVr := 0, flt := {} }
    { count := 2, vl := 1024, vr := 0, step := 65536, ramp := 2, dl := 0, dr := 0 } = [-(32768 * 1024), -(32768 * 1024)] := by decide

/-- **The accumulator holds the true integer sum** of a tick made of `N` kernel calls whose words
are bounded by `B`, whenever `N · B < 2^31`: no wrap-around can occur.  With `C14_kernel_bound`,
`B = sampleBound · L`. -/
theorem C14_kernel_no_wrap (n : Nat) (cs : List Call) (B : Int) (h0 : 0 ≤ B)
    (hB : ∀ c ∈ cs, ∀ w ∈ contrib c.spec c.voice c.args, -B ≤ w ∧ w ≤ B)
    (hN : cs.length * B < 2 ^ 31) (i : Nat) (hi : i < n) :
    ((mixCalls n cs).getD i 0).toInt = (cs.map fun c => c.wordAt i).sum := by
  rw [mixCalls_eq_tick, C14_superposition_pointwise n _ i hi, List.map_map]
  have e : (cs.map ((fun c : Buf => c.getD i 0) ∘ Call.contrib)) = (cs.map fun c => c.wordAt i).map toAcc := by
    rw [List.map_map]
    apply List.map_congr_left
    intro c _
    exact Call.contrib_getD c i
  rw [e]
  apply accSum_exact _ B
  · intro w hw
    obtain ⟨c, hc, rfl⟩ := List.mem_map.mp hw
    exact Call.wordAt_bound c B h0 (hB c hc) i
  · simpa using hN

/-- … and only the calls that really add something to word `i` count: in the voice loop the spans of one
voice are disjoint, so at most one kernel call per voice touches a given word — `N` is bounded by the
number of voices mixed in the tick (`p->virt.maxvoc`, default `SMIX_NUMVOC`). -/
theorem C14_kernel_no_wrap_voices (n : Nat) (cs : List Call) (B : Int) (h0 : 0 ≤ B)
    (hB : ∀ c ∈ cs, ∀ w ∈ contrib c.spec c.voice c.args, -B ≤ w ∧ w ≤ B) (i : Nat) (hi : i < n)
    (hN : (cs.filter fun c => c.wordAt i ≠ 0).length * B < 2 ^ 31) :
    ((mixCalls n cs).getD i 0).toInt = (cs.map fun c => c.wordAt i).sum := by
  rw [mixCalls_eq_tick, C14_superposition_pointwise n _ i hi, List.map_map]
  have e : (cs.map ((fun c : Buf => c.getD i 0) ∘ Call.contrib)) = (cs.map fun c => c.wordAt i).map toAcc := by
    rw [List.map_map]
    apply List.map_congr_left
    intro c _
    exact Call.contrib_getD c i
  rw [e]
  apply accSum_exact_nz _ B h0
  · intro w hw
    obtain ⟨c, hc, rfl⟩ := List.mem_map.mp hw
    exact Call.wordAt_bound c B h0 (hB c hc) i
  · have : ((cs.map fun c => c.wordAt i).filter (· ≠ 0)).length = (cs.filter fun c => c.wordAt i ≠ 0).length := by
      rw [List.filter_map, List.length_map]
      rfl
    rw [this]
    exact hN

/-- **The levels the voice loop hands to the kernels are bounded by the voice volume**: for every pan the
player produces (−128 … 128, or surround) `|vol_l >> 8|, |vol_r >> 8| ≤ V` when `|vol| ≤ V` (`vol` is
`vi->vol` after the mix-volume scaling `mixVol`), and the ramping level `old_v + j·delta` stays between
the previous and the new `vol_l` during the `rampsize` ramp frames. -/
theorem C14_kernel_levels (vol pan V : Int) (hv : -V ≤ vol ∧ vol ≤ V)
    (hp : (-128 ≤ pan ∧ pan ≤ 128) ∨ pan = PAN_SURROUND) (old : Int) (r j : Nat) (hr : 0 < r) (hj : j ≤ r) :
    ((-V ≤ level (volLR vol pan).1 ∧ level (volLR vol pan).1 ≤ V) ∧ (-V ≤ level (volLR vol pan).2 ∧ level (volLR vol pan).2 ≤ V)) ∧
    (min old (volLR vol pan).1 ≤ old + j * rampDelta (volLR vol pan).1 old r ∧
     old + j * rampDelta (volLR vol pan).1 old r ≤ max old (volLR vol pan).1) :=
  ⟨level_bound vol pan V hv hp, ramp_between old _ r j hr hj⟩

/-- **The anticlick ramp adds at most the residue**: every frame `do_anticlick` adds lies between 0 and
`sleft` / `sright` (the last word the voice added, itself bounded by `C14_kernel_bound`), so a voice's total
share of an accumulator word is bounded by its kernel word plus its residue. -/
theorem C14_anticlick_bound (count : Nat) (sl sr : Int) :
    ∀ p ∈ anticlickRamp count sl sr,
      (min sl 0 ≤ p.1 ∧ p.1 ≤ max sl 0) ∧ (min sr 0 ≤ p.2 ∧ p.2 ≤ max sr 0) := anticlick_bound count sl sr

/-- Instances of `N · sampleBound · L < 2^31` (one kernel call per voice and buffer word):
* the default voice limit `SMIX_NUMVOC` = 128 with filtered kernels: levels up to 255;
* nominal full-scale voice volume 1024 (level ≤ 1024): 63 unfiltered nearest/linear voices, 31 filtered;
* master volume 200 % (level ≤ 2048): 31 unfiltered, 15 filtered voices. -/
theorem C14_kernel_no_wrap_instances :
    (smixNumVoc : Int) * (65536 * 255) < 2 ^ 31 ∧
    (63 : Int) * (32768 * 1024) < 2 ^ 31 ∧ (31 : Int) * (65536 * 1024) < 2 ^ 31 ∧
    (31 : Int) * (32768 * 2048) < 2 ^ 31 ∧ (15 : Int) * (65536 * 2048) < 2 ^ 31 := by decide

set_option maxRecDepth 100000 in
/-- **Beyond the limit the accumulator wraps**: 65 voices each adding the full-scale positive word
`32767 · 1024` to one accumulator word leave a negative value — superposition then holds modulo 2^32
only (`C14_kernel_superposition`), and the C expression `*(buffer++) += …` overflows a signed `int`. -/
theorem C14_kernel_wrap_possible :
    (accSum ((List.replicate 65 (32767 * 1024 : Int)).map toAcc)).toInt ≠ (List.replicate 65 (32767 * 1024 : Int)).sum ∧
    (accSum ((List.replicate 65 (32767 * 1024 : Int)).map toAcc)).toInt < 0 := by decide

/-- **The abstract kernel of the tick model is what every real kernel computes**: the contribution
of `libxmp_mix_*` equals `MixLinear.kernel` (sample × level, ramping `old_v >> 8` during the first
`count - ramp` frames — the shape `voiceTick` and the tick-level theorems `C14_silence_voice`,
`C14_separation_mirror_tick` are stated over) applied to the frames `frames k v a`, which are computed
from the voice's sample window, position, step and filter memory alone (no level, no ramp, no buffer). -/
theorem C14_kernel_refines (k : KSpec) (v : KVoice) (a : KArgs) :
    contribAcc k v a =
      if k.stereoOut then interleave (MixLinear.kernel (absArgs k v a) (frames k v a))
      else monoBuf (MixLinear.kernel (absArgs k v a) (frames k v a)) := by
  unfold contribAcc
  rw [contrib_eq_kernel]
  generalize MixLinear.kernel (absArgs k v a) (frames k v a) = fr
  cases k.stereoOut
  · simp [wordsOf, monoBuf]
  · simp only [wordsOf, if_true]
    induction fr with
    | nil => rfl
    | cons p r ih => obtain ⟨l, r'⟩ := p; simp [interleave, ih]

theorem bgLoop_spec (maps : List Int) (chn : Nat) (h : ∃ m ∈ maps, m ≤ voiceFree) :
    chn < bgLoop maps chn ∧ bgLoop maps chn ≤ chn + maps.length ∧ maps.getD (bgLoop maps chn - 1 - chn) 0 ≤ voiceFree := by
  induction maps generalizing chn with
  | nil => obtain ⟨m, hm, _⟩ := h; cases hm
  | cons m r ih =>
    unfold bgLoop
    by_cases hm : m > voiceFree
    · simp only [hm, if_true]
      have h' : ∃ x ∈ r, x ≤ voiceFree := by
        obtain ⟨x, hx, hle⟩ := h
        rcases List.mem_cons.mp hx with rfl | hx
        · omega
        · exact ⟨x, hx, hle⟩
      obtain ⟨a, b, c⟩ := ih (chn + 1) h'
      refine ⟨by omega, by simp only [List.length_cons]; omega, ?_⟩
      have e : bgLoop r (chn + 1) - 1 - chn = (bgLoop r (chn + 1) - 1 - (chn + 1)) + 1 := by omega
      rw [e, List.getD_cons_succ]
      exact c
    · simp only [hm, if_false]
      refine ⟨by omega, by simp only [List.length_cons]; omega, ?_⟩
      have e : chn + 1 - 1 - chn = 0 := by omega
      rw [e]
      simp only [List.getD_cons_zero]
      omega

/-- **The background channel chosen for a displaced voice is free** whenever a free one exists among the
`virt_channels - num_tracks` background channels — and one always exists: their number equals the number of voices
(`maxvoc`), the voice just allocated for the new note and the displaced voice itself (still mapped on its pattern
channel) are not on background channels, so at most `maxvoc - 2` of them are occupied (`hocc`).  An occupied channel
is therefore never handed out again: no voice is orphaned, every sounding voice stays driven (and mutable) by a
channel — the hypothesis under which the superposition oracle compares full and solo renders below the voice limit. -/
theorem C14_bg_channel_free (maps : List Int) (hocc : (maps.filter (· > voiceFree)).length < maps.length) :
    0 ≤ bgSearch maps ∧ bgSearch maps < maps.length ∧ maps.getD (bgSearch maps).toNat 0 ≤ voiceFree := by
  have h : ∃ m ∈ maps, m ≤ voiceFree := by
    apply Classical.byContradiction
    intro hn
    have hall : ∀ m ∈ maps, decide (m > voiceFree) = true := by
      intro m hm
      have : ¬ m ≤ voiceFree := fun hle => hn ⟨m, hm, hle⟩
      simp; omega
    rw [List.filter_eq_self.mpr hall] at hocc
    omega
  obtain ⟨a, b, c⟩ := bgLoop_spec maps 0 h
  unfold bgSearch
  refine ⟨by omega, by omega, ?_⟩
  have e : ((bgLoop maps 0 : Int) - 1).toNat = bgLoop maps 0 - 1 - 0 := by omega
  rw [e]
  exact c

/-- the search bounded by fewer channels than there are (the seeded C14-m11: `maxvoc` instead of `virt_channels`)
hands out an occupied channel although a free one exists -/
example : bgSearch [5, 3, 7, -1] = 3 ∧ bgSearch ([5, 3, 7, -1].take 2) = 1 ∧ ([5, 3, 7, -1] : List Int).getD 1 0 > voiceFree := by decide

/-- **A freed voice is cleared in every member the kernels and the voice loop read**: over the member list
generated from src/mixer.h, every member a kernel reads (`kernelReads`) and every per-voice memory the voice loop
reads (`voiceLoopReads`) is a member of `struct mixer_voice` and is 0 in the image of a freed voice (the `paula`
pointer is kept, its state re-initialised).  The tie compares the members of every free voice of the real player
with `resetValue`. -/
theorem C14_voice_reset_clears :
    (∀ m ∈ kernelReads ++ voiceLoopReads, m ∈ Xmp.Gen.MixKernelVoiceMembers.voiceMembers.map Prod.fst) ∧
    (∀ m ∈ kernelReads ++ voiceLoopReads, m ≠ "paula" → resetValue m = some 0) ∧
    (∀ e ∈ voiceReset, e.2 = some 0 ∨ e.2 = some voiceFree ∨ e.1 = "paula") := by decide

/-- **A voice's contribution depends only on its own channel's history**: whatever happened in a voice slot
before it was freed — any memory `m`, any sequence of kernel calls `pre` of the previous owner (audible or muted,
filtered or not) — the contributions of the calls after the reset are those of a slot that starts from the zero
memory.  This is the per-call hypothesis of the superposition theorems (the voice argument of a call is a function
of its own channel's data) across voice-slot reuse. -/
theorem C14_voice_reuse_independent (m : SlotMem) (pre post : List SlotEv) :
    slotRun m (pre ++ SlotEv.reset :: post) = slotRun m pre ++ [] :: slotRun {} post := by
  induction pre generalizing m with
  | nil => rfl
  | cons e es ih => simp only [List.cons_append, slotRun, ih]

/-- in particular two different pasts give the new owner the same contributions -/
theorem C14_voice_reuse_same (m m' : SlotMem) (pre pre' post : List SlotEv) :
    (slotRun m (pre ++ SlotEv.reset :: post)).drop (pre.length + 1) =
    (slotRun m' (pre' ++ SlotEv.reset :: post)).drop (pre'.length + 1) := by
  have hl : ∀ (m : SlotMem) (es : List SlotEv), (slotRun m es).length = es.length := by
    intro m es
    induction es generalizing m with
    | nil => rfl
    | cons e es ih => simp [slotRun, ih]
  rw [C14_voice_reuse_independent, C14_voice_reuse_independent]
  have e1 : pre.length + 1 = (slotRun m pre ++ [[]]).length := by simp [hl]
  have e2 : pre'.length + 1 = (slotRun m' pre' ++ [[]]).length := by simp [hl]
  have a1 : slotRun m pre ++ [] :: slotRun {} post = (slotRun m pre ++ [[]]) ++ slotRun {} post := by simp
  have a2 : slotRun m' pre' ++ [] :: slotRun {} post = (slotRun m' pre' ++ [[]]) ++ slotRun {} post := by simp
  rw [a1, a2, e1, e2, List.drop_left, List.drop_left]

set_option maxRecDepth 100000 in
/-- non-trivial instance: a resonant filtered call of a previous owner leaves a non-zero filter memory; without the
reset the next owner's filtered call adds different words, with the reset it adds those of a fresh slot -/
example :
    let c : OwnerCall := { spec := specOf 1 12, smp := fun i => 1000 * (i % 7) - 3000, pos := 2, frac := 100,
                           a0 := 1500000, b0 := 3000000, b1 := -400000,
                           args := { count := 3, vl := 500, vr := 500, step := 40000, ramp := 3, dl := 0, dr := 0 },
                           nextOldVl := 128000, nextOldVr := 128000 }
    (slotStep {} (.call c)).2 ≠ {} ∧
    slotRun {} [.call c, .call c] ≠ slotRun {} [.call c, .reset, .call c] ∧
    (slotRun {} [.call c, .reset, .call c]).drop 2 = slotRun {} [.call c] := by
  decide

/-- **Mirror on the kernel level** (mono sample, stereo output): with `(vl, vr)`, `(old_vl, old_vr)`,
`(delta_l, delta_r)` exchanged the kernel adds the same frames with left and right exchanged and
writes back the same filter memory. -/
theorem C14_kernel_mirror (k : KSpec) (v : KVoice) (a : KArgs) (hm : k.stereoSmp = false) (ho : k.stereoOut = true) :
    contrib k v.mirror a.mirror = swapPairs (contrib k v a) ∧ fltAfter k v.mirror a.mirror = fltAfter k v a :=
  contrib_mirror k v a hm ho

/-- … and for **stereo samples** (beyond the property, which excludes them): with the two sample channels, the
levels, the ramp memory and deltas and the filter memory exchanged, the kernel adds the left/right-exchanged
frames and writes back the exchanged filter memory — so the mirror holds for all 20 stereo-output kernels. -/
theorem C14_kernel_mirror_stereo (k : KSpec) (v : KVoice) (a : KArgs) (hst : k.stereoSmp = true) (ho : k.stereoOut = true) :
    contrib k v.mirrorS a.mirror = swapPairs (contrib k v a) ∧ fltAfter k v.mirrorS a.mirror = (fltAfter k v a).swapLR :=
  contrib_mirrorS k v a hst ho

/-- **Centre**: equal left/right levels, ramp memory and ramp deltas (pan 0, i.e. separation 0)
⇒ the left and right word of every frame are equal. -/
theorem C14_kernel_center (k : KSpec) (v : KVoice) (a : KArgs) (hm : k.stereoSmp = false) (ho : k.stereoOut = true)
    (hv : a.vl = a.vr) (hd : a.dl = a.dr) (ho' : v.oldVl = v.oldVr) :
    swapPairs (contrib k v a) = contrib k v a := by
  have h := (C14_kernel_mirror k v a hm ho).1
  have e1 : v.mirror = v := by cases v; simp_all [KVoice.mirror]
  have e2 : a.mirror = a := by cases a; simp_all [KArgs.mirror]
  rw [e1, e2] at h
  exact h.symm

set_option maxRecDepth 100000 in
example :
    let v : KVoice := { smp := fun i => 1000 * i, pos := 2, frac := 30000, oldVl := 70000, oldVr := -5000, flt := {} }
    let a : KArgs := { count := 3, vl := 900, vr := 100, step := 50000, ramp := 1, dl := 512, dr := -256 }
    contrib (specOf 2 5) v.mirror a.mirror = swapPairs (contrib (specOf 2 5) v a) ∧
    contrib (specOf 2 5) v a ≠ swapPairs (contrib (specOf 2 5) v a) := by decide

end Xmp.MixKernel

/-! ## The Paula (A500) kernels of src/mix_paula.c -/
namespace Xmp.MixKernel.Paula
open Xmp.MixLinear
open Xmp.MixKernel (swapPairs)

/-- **A real Paula kernel only adds**: buffer after = buffer before + contribution, where the contribution
and the Paula state written back (`global_output_level`, the BLEP list, `remainder`) are functions of the
voice (sample window, position, its own Paula state) and the scalar arguments alone. -/
theorem C14_paula_adds (v : PVoice) (a : PArgs) (buf : Buf) :
    (prun v a buf).1 = addInto buf (pcontribAcc v a) ∧ (prun v a buf).2 = pstateAfter v a := by
  rw [prun_eq]; exact ⟨rfl, rfl⟩

/-- **Silence**: levels 0 ⇒ a Paula kernel leaves every buffer unchanged (the Paula state still advances). -/
theorem C14_paula_silence (v : PVoice) (a : PArgs) (hl : a.vl = 0) (hr : a.vr = 0) (buf : Buf) :
    (prun v a buf).1 = buf := by
  have hz : ∀ w ∈ pcontrib v a, w = 0 := ploop_zero v a hl hr a.count (PSt.init v)
  have : pcontribAcc v a = zeros (pcontrib v a).length := by
    unfold pcontribAcc zeros
    apply List.ext_getElem
    · simp
    · intro i h1 h2
      simp only [List.getElem_map, List.getElem_replicate]
      rw [hz _ (List.getElem_mem _)]
      rfl
  rw [(C14_paula_adds v a buf).1, this, addInto_zeros]

/-- **Bound**: every word a Paula kernel adds is within `±(32768 · 256 · L)` for levels within `±L`
(`output_sample` clamps to 16 bits, the kernels scale the level by 2^8). -/
theorem C14_paula_bound (v : PVoice) (a : PArgs) (L : Int) (hvl : -L ≤ a.vl ∧ a.vl ≤ L)
    (hvr : a.stereoOut = true → -L ≤ a.vr ∧ a.vr ≤ L) :
    ∀ w ∈ pcontrib v a, -(32768 * (L * 256)) ≤ w ∧ w ≤ 32768 * (L * 256) :=
  ploop_bound v a L hvl hvr a.count (PSt.init v)

/-- **Mirror**: exchanging `vl` and `vr` exchanges the two words of every frame and leaves the same Paula state. -/
theorem C14_paula_mirror (v : PVoice) (a : PArgs) (ho : a.stereoOut = true) :
    pcontrib v a.mirror = swapPairs (pcontrib v a) ∧ pstateAfter v a.mirror = pstateAfter v a := by
  unfold pcontrib pstateAfter
  have hc : a.mirror.count = a.count := rfl
  rw [hc, ploop_mirror v a ho]
  exact ⟨rfl, rfl⟩

set_option maxRecDepth 100000 in
/-- non-trivial instance: three output frames at 22050 Hz from a state with two live BLEPs -/
example :
    let v : PVoice := {
      smp := fun i => if i % 2 = 0 then 100 else -90, pos := 3, frac := 1000, end_ := 40,
      st := { glob := 17, bleps := [(30, 5), (-12, 300)], rem := ⟨5660052559044403, -45⟩, fdiv := ⟨5660052559044403, -45⟩ } }
    let a : PArgs := { count := 3, vl := 40, vr := 7, step := 40000, stereoOut := true, tab := true }
    pcontrib v a.mirror = swapPairs (pcontrib v a) ∧ pcontrib v a ≠ swapPairs (pcontrib v a) ∧
    (prun v { a with vl := 0, vr := 0 } [5#32, 6#32, 7#32, 8#32, 9#32, 10#32, 11#32]).1 = [5#32, 6#32, 7#32, 8#32, 9#32, 10#32, 11#32] := by
  decide

end Xmp.MixKernel.Paula

/-! ## Any mixture of real kernel calls superposes -/
namespace Xmp.MixKernel
open Xmp.MixLinear

/-- **Superposition for every kernel of the mixer, Paula included**: a tick produced by any sequence of
operations each of which only adds its own contribution (kernel calls `Call.exec` — `C14_kernel_adds` —
and Paula kernel calls — `C14_paula_adds` — at any offsets) is the tick of the contributions, hence the
wrapping sum of the solo mixes, in any order (`C14_superposition`, `C14_superposition_perm`). -/
theorem C14_adders_superpose (n : Nat) (ops : List ((Buf → Buf) × Buf)) (h : ∀ p ∈ ops, ∀ b, p.1 b = addInto b p.2) :
    ops.foldl (fun b p => p.1 b) (zeros n) = tick n (ops.map (·.2)) := by
  simp only [tick, List.foldl_map]
  generalize zeros n = b0
  induction ops generalizing b0 with
  | nil => rfl
  | cons p ops ih =>
    simp only [List.foldl]
    rw [h p List.mem_cons_self b0]
    exact ih (fun q hq => h q (List.mem_cons_of_mem _ hq)) _

/-- a Paula kernel call at buffer offset `off` is such an operation -/
theorem C14_paula_is_adder (v : Paula.PVoice) (a : Paula.PArgs) (off : Nat) (b : Buf) :
    b.take off ++ (Paula.prun v a (b.drop off)).1 = addInto b (zeros off ++ Paula.pcontribAcc v a) := by
  rw [Paula.prun_eq, addInto_append_split, zeros_length, addInto_zeros]

end Xmp.MixKernel
