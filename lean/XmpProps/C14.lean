import XmpProofs.MixLinear
/-!
# C14 — The mixer is linear: mute means silence, channels superpose, separation mirrors

Property theorems over `XmpModel.MixLinear` (src/mixer.c voice loop, src/mix_all.c kernel
shape, src/virtual.c mute rule, src/player.c volume / pan tails).

* `C14_superposition*` — the 32-bit accumulator of a tick is *exactly* the wrapping sum of
  the solo mixes, for every list of voices, in any order; removing a voice subtracts exactly
  its solo mix (one channel's audio never depends on another channel being audible).
* `C14_quantisation` — after the downmix shift the full mix and the sum of the solo mixes
  differ by less than one step per voice, when no clamp triggers and the accumulator does not wrap.
* `C14_silence*` — voice volume 0 from the first tick ⇒ the voice adds nothing, ever; all
  contributions zero ⇒ buffer zero ⇒ output is the mid-scale constant; muted root ⇒ voice
  volume 0; master volume 0 ⇒ voice volume 0 **for module channels** (`…_master_partial`).
  The full statement (`SilenceMasterFull`) is false for the pinned code: background (NNA)
  voices are scaled by the effects-mixer volume (`C14_silence_master_counterexample`, finding
  F6); it is proved for the repaired rule (`C14_silence_master_full`); which of the two applies
  to the working tree is decided from the regenerated `nnaRootRule`
  (`C14_silence_master_status`).
* `C14_separation*` — separation 0 ⇒ `vol_l = vol_r` and identical left/right frames for a
  whole voice tick; `mix ↦ -mix` negates the pan (C division is odd), swaps `(vol_l, vol_r)`
  and swaps the left/right frames and state of a whole voice tick.
-/
namespace Xmp.MixLinear
open Xmp.Gen.MixLinearConsts

/-! ## Superposition -/

/-- **The full mix is the wrapping sum of the solo mixes** (exact, every voice list). -/
theorem C14_superposition (n : Nat) (cs : List Buf) :
    tick n cs = bsum n (cs.map (solo n)) := by
  simp only [tick, bsum]
  exact (foldl_addInto_solo n cs (zeros n) (by simp)).symm

/-- The same for an arbitrary per-voice contribution function. -/
theorem C14_superposition_mix {V : Type} (contrib : V → Buf) (n : Nat) (vs : List V) :
    mix contrib n vs = bsum n (vs.map fun v => mix contrib n [v]) := by
  simp only [mix, C14_superposition n (vs.map contrib), List.map_map]
  rfl

/-- The order of the voices is irrelevant. -/
theorem C14_superposition_perm (n : Nat) (cs ds : List Buf) (h : cs.Perm ds) :
    tick n cs = tick n ds :=
  List.Perm.foldl_eq' h (fun x _ y _ z => addInto_right_comm z x y) (zeros n)

/-- Mixing two groups of voices together = adding the two group mixes. -/
theorem C14_superposition_append (n : Nat) (cs ds : List Buf) :
    tick n (cs ++ ds) = addInto (tick n cs) (tick n ds) := by
  simp only [tick, List.foldl_append]
  exact foldl_addInto_split n ds _ (by simp [foldl_addInto_length])

/-- **Independence**: a voice in the middle of the list adds exactly its solo mix to the mix
of all the others. -/
theorem C14_solo_independent (n : Nat) (as bs : List Buf) (c : Buf) :
    tick n (as ++ c :: bs) = addInto (tick n (as ++ bs)) (solo n c) := by
  have hp : (as ++ c :: bs).Perm ((as ++ bs) ++ [c]) := by
    have : (c :: bs).Perm (bs ++ [c]) := List.perm_append_singleton c bs |>.symm
    simpa [List.append_assoc] using List.Perm.append_left as this
  rw [C14_superposition_perm n _ _ hp, C14_superposition_append]
  rfl

/-- Pointwise: every accumulator word is the wrapping sum of the voices' words. -/
theorem C14_superposition_pointwise (n : Nat) (cs : List Buf) (i : Nat) (h : i < n) :
    (tick n cs).getD i 0 = accSum (cs.map fun c => c.getD i 0) := by
  have gen : ∀ (b : Buf), b.length = n →
      (cs.foldl addInto b).getD i 0 = b.getD i 0 + accSum (cs.map fun c => c.getD i 0) := by
    induction cs with
    | nil => intro b _; simp [accSum]
    | cons c cs ih =>
      intro b hb
      simp only [List.foldl, List.map]
      rw [ih (addInto b c) (by simp [hb]), getD_addInto b c i (by omega), accSum_cons, BitVec.add_assoc]
  have := gen (zeros n) (by simp)
  simp only [tick, this]
  have hz : (zeros n).getD i 0 = 0 := by simp [zeros, List.getD, h]
  rw [hz, acc_zero_add]

/-- non-trivial instance: two voices, wrap-around in the first word -/
example : tick 2 [[0xFFFFFFFF#32, 5#32], [2#32]] = [1#32, 5#32]
    ∧ bsum 2 ([[0xFFFFFFFF#32, 5#32], [2#32]].map (solo 2)) = [1#32, 5#32] := by decide

/-! ## Quantisation -/

/-- Integer core: floor-shifting a sum vs summing the floor-shifted terms. -/
theorem C14_quantisation_int (xs : List Int) (k : Nat) (hne : xs ≠ []) :
    0 ≤ xs.sum >>> k - (xs.map fun x : Int => x >>> k).sum ∧ xs.sum >>> k - (xs.map fun x : Int => x >>> k).sum ≤ xs.length - 1 := by
  have hd : (0 : Int) < ((2 ^ k : Nat) : Int) := Int.natCast_pos.mpr (Nat.two_pow_pos k)
  have hm : (xs.map fun x : Int => x >>> k) = xs.map (· / ((2 ^ k : Nat) : Int)) := by
    apply List.map_congr_left
    intro x _
    exact Int.shiftRight_eq_div_pow x k
  rw [hm, Int.shiftRight_eq_div_pow]
  generalize ((2 ^ k : Nat) : Int) = d at *
  rcases sum_div_bounds d hd xs with ⟨h1, h2⟩ | h
  · generalize (xs.map (· / d)).sum = q at *
    have a : q ≤ xs.sum / d := Int.le_ediv_of_mul_le hd (by rw [Int.mul_comm]; exact h1)
    have b : xs.sum / d < q + xs.length := by
      apply Int.ediv_lt_of_lt_mul hd
      rw [Int.add_mul, Int.mul_comm q]
      exact h2
    omega
  · exact absurd h hne

/-- **Quantisation bound**: `as` are the values of one accumulator word in the solo mixes of
the voices; the full mix holds their wrapping sum.  If the true sum fits the accumulator and
no clamp triggers, the downmixed full mix exceeds the sum of the downmixed solo mixes by at
most `n - 1` steps (never by a negative amount). -/
theorem C14_quantisation (eight : Bool) (amp : Nat) (as : List Acc) (hne : as ≠ [])
    (hfit : -(2 ^ 31) ≤ (as.map BitVec.toInt).sum ∧ (as.map BitVec.toInt).sum < 2 ^ 31)
    (hfull : noClamp eight amp (accSum as)) (hsolo : ∀ a ∈ as, noClamp eight amp a) :
    0 ≤ down eight amp (accSum as) - (as.map (down eight amp)).sum ∧
    down eight amp (accSum as) - (as.map (down eight amp)).sum ≤ as.length - 1 := by
  have hsum : (accSum as).toInt = (as.map BitVec.toInt).sum := by
    rw [accSum_toInt]
    apply Int.bmod_eq_of_le <;> omega
  have hdown : ∀ a, noClamp eight amp a → down eight amp a = a.toInt >>> downShift eight amp := by
    intro a h
    unfold noClamp at h
    unfold down
    simp only
    split
    · omega
    · split
      · omega
      · rfl
  have hmap : as.map (down eight amp) = (as.map BitVec.toInt).map (fun x : Int => x >>> downShift eight amp) := by
    rw [List.map_map]
    apply List.map_congr_left
    intro a ha
    exact hdown a (hsolo a ha)
  rw [hdown _ hfull, hmap, hsum]
  have := C14_quantisation_int (as.map BitVec.toInt) (downShift eight amp) (by simpa using hne)
  simpa using this

/-- non-trivial instance: three voices each just below a step; the full mix gains 2 steps -/
example : down false 0 (accSum [4095#32, 4095#32, 4095#32]) = 2
    ∧ ([4095#32, 4095#32, 4095#32].map (down false 0)).sum = 0 := by decide

/-! ## Silence -/

/-- All voice contributions zero ⇒ the accumulator stays all zero. -/
theorem C14_silence_buffer (n : Nat) (cs : List Buf) (h : ∀ c ∈ cs, ∃ k, c = zeros k) :
    tick n cs = zeros n :=
  foldl_addInto_zero cs h (zeros n)

/-- A zero accumulator word is rendered as the mid-scale constant in every output format
and at every amplification. -/
theorem C14_silence_output (eight unsigned : Bool) (amp : Nat) :
    outSample eight unsigned amp 0 = midScale eight unsigned := by
  have : down eight amp 0#32 = 0 := by
    cases eight <;> simp [down, limHi, limLo, lim8Hi, lim8Lo, lim16Hi, lim16Lo]
  simp only [outSample, midScale]
  rw [show (0 : Acc) = 0#32 from rfl, this, Int.zero_add]

/-- **A voice whose volume is 0 and that carries no anticlick residue adds nothing**, whatever
its sample, position, pan, ramp state or kind, and still carries no residue afterwards. -/
theorem C14_silence_voice (cfg : TickCfg) (st : VState) (i : VIn)
    (hq : st.sleft = 0 ∧ st.sright = 0) (hv : i.vol = 0) :
    (voiceTick cfg st i).1 = List.replicate cfg.ticksize (0, 0) ∧
    (voiceTick cfg st i).2.sleft = 0 ∧ (voiceTick cfg st i).2.sright = 0 := by
  have hpre : acPre cfg st = [] := by
    unfold acPre
    split
    · simp [hq.1, hq.2]
    · rfl
  have hst : (acState cfg st).sleft = 0 ∧ (acState cfg st).sright = 0 := by
    unfold acState
    split
    · split <;> simp [hq.1, hq.2]
    · exact hq
  unfold voiceTick
  simp only [hpre, addAt_nil]
  cases hk : i.kind with
  | free => exact ⟨rfl, hst⟩
  | reset => exact ⟨rfl, rfl, rfl⟩
  | skip => exact ⟨rfl, hst⟩
  | run =>
    simp only [runVoice]
    have := foldl_segStep_quiet cfg i hv
      (rampDelta (volLR (mixVol i.vol i.mvol i.mvolbase) i.pan).1 (acState cfg st).oldVl (cfg.ticksize >>> anticlickShift))
      (rampDelta (volLR (mixVol i.vol i.mvol i.mvolbase) i.pan).2 (acState cfg st).oldVr (cfg.ticksize >>> anticlickShift))
      (List.replicate cfg.ticksize (0, 0)) i.segs
      { buf := List.replicate cfg.ticksize (0, 0), rampsize := cfg.ticksize >>> anticlickShift,
        oldVl := (acState cfg st).oldVl, oldVr := (acState cfg st).oldVr,
        sleft := (acState cfg st).sleft, sright := (acState cfg st).sright,
        volL := (volLR (mixVol i.vol i.mvol i.mvolbase) i.pan).1,
        volR := (volLR (mixVol i.vol i.mvol i.mvolbase) i.pan).2 } ⟨rfl, hst.1, hst.2⟩
    exact this

/-- **Silence from the first tick**: a voice that starts in the `calloc`ed state and whose
volume is 0 at every tick adds nothing at any tick. -/
theorem C14_silence_run (cfg : TickCfg) (st : VState) (ins : List VIn)
    (hq : st.sleft = 0 ∧ st.sright = 0) (hv : ∀ i ∈ ins, i.vol = 0) :
    ∀ fr ∈ (voiceRun cfg st ins).1, fr = List.replicate cfg.ticksize (0, 0) := by
  induction ins generalizing st with
  | nil => intro fr h; simp [voiceRun] at h
  | cons i rest ih =>
    intro fr h
    have h1 := C14_silence_voice cfg st i hq (hv i List.mem_cons_self)
    simp only [voiceRun, List.mem_cons] at h
    rcases h with h | h
    · rw [h]; exact h1.1
    · exact ih _ h1.2 (fun j hj => hv j (List.mem_cons_of_mem _ hj)) fr h

/-- … and then the stereo accumulator contribution is the zero buffer. -/
theorem C14_silence_contrib (cfg : TickCfg) (st : VState) (i : VIn)
    (hq : st.sleft = 0 ∧ st.sright = 0) (hv : i.vol = 0) :
    interleave (voiceTick cfg st i).1 = zeros (2 * cfg.ticksize) := by
  rw [(C14_silence_voice cfg st i hq hv).1, interleave_replicate_zero]

example : (voiceTick { ticksize := 16 } { oldVl := 8192, oldVr := 8192 }
    { vol := 0, pan := 20, segs := [{ smps := [(100, 100), (-3000, -3000)], acAfter := some 14, stop := true }] }).1
      = List.replicate 16 (0, 0) := by decide

/-- **Mute**: a voice whose root channel is muted gets volume 0, whatever the player computed. -/
theorem C14_silence_mute (c : PlayerVol) (muted : Nat → Bool) (chn root : Nat) (fv : Int)
    (hr : root < maxChannels) (hm : muted root = true) : voiceVol c muted chn root fv = 0 := by
  simp [voiceVol, virtSetVol, hr, hm]

example : voiceVol ⟨4, 4, 100, 100⟩ (fun r => r == 2) 7 2 1024 = 0 := by decide

/-- **Master volume 0** silences every voice that plays on a module channel itself
(`chn < mod.chn`) — whichever rule the code has for background voices. -/
theorem C14_silence_master_partial (c : PlayerVol) (muted : Nat → Bool) (chn root : Nat) (fv : Int)
    (h0 : c.masterVol = 0) (hc : chn < c.modChn) : voiceVol c muted chn root fv = 0 := by
  simp [voiceVol, virtSetVol, masterStage, usesMaster, hc, h0]

example : voiceVol ⟨4, 4, 0, 100⟩ (fun _ => false) 3 3 1024 = 0 := by decide

/-- The full statement: master volume 0 silences every voice of the module — those on module
channels and the background (NNA) voices whose root is a module channel. -/
def SilenceMasterFull : Prop :=
  ∀ (c : PlayerVol) (muted : Nat → Bool) (chn root : Nat) (fv : Int),
    c.masterVol = 0 → c.modChn ≤ c.numTracks → (chn < c.modChn ∨ (c.numTracks ≤ chn ∧ root < c.modChn)) →
    voiceVol c muted chn root fv = 0

/-- With the repaired rule the full statement holds. -/
theorem C14_silence_master_full (h : nnaRootRule = true) : SilenceMasterFull := by
  intro c muted chn root fv h0 _ hcls
  have hu : usesMaster c chn root = true := by
    rcases hcls with hc | ⟨h1, h2⟩
    · simp [usesMaster, hc]
    · simp [usesMaster, h, h1, h2]
  simp [voiceVol, virtSetVol, masterStage, hu, h0]

/-- **Counterexample (finding F6)** for the pinned rule: with master volume 0 a background voice
of module channel 0 (virtual channel 4 of a 4-channel module without effects-mixer channels)
keeps its full volume.  Replayed on the real library by harness/c14_mixlinear.c (signature
`silence:master_vol:nna`). -/
theorem C14_silence_master_counterexample (h : nnaRootRule = false) : ¬ SilenceMasterFull := by
  intro hf
  have h1 := hf ⟨4, 4, 0, 100⟩ (fun _ => false) 4 0 1024 rfl (by decide) (by decide)
  have h2 : voiceVol ⟨4, 4, 0, 100⟩ (fun _ => false) 4 0 1024 = 1024 := by
    simp [voiceVol, virtSetVol, masterStage, usesMaster, h, maxChannels, smixDiv]
  omega

/-- **Status of the master-volume half on the current working tree** (decided from the
regenerated `nnaRootRule`): either the code has the repaired rule and the full statement is
proved, or it has the pinned rule and the full statement is refuted. -/
theorem C14_silence_master_status :
    (nnaRootRule = true ∧ SilenceMasterFull) ∨ (nnaRootRule = false ∧ ¬ SilenceMasterFull) := by
  cases h : nnaRootRule
  · exact Or.inr ⟨rfl, C14_silence_master_counterexample h⟩
  · exact Or.inl ⟨rfl, C14_silence_master_full h⟩

/-! ## Separation -/

/-- Separation 0 ⇒ pan 0 ⇒ `vol_l = vol_r`. -/
theorem C14_separation_zero (fp vol : Int) (mono : Bool) :
    finalPan fp 0 mono false = 0 ∧ (volLR vol (voicePan fp 0 mono false)).1 = (volLR vol (voicePan fp 0 mono false)).2 := by
  have h : finalPan fp 0 mono false = 0 := by
    unfold finalPan
    split
    · rfl
    · simp
  refine ⟨h, ?_⟩
  simp [voicePan, h, volLR, PAN_SURROUND, panSurround]

/-- Negating the separation negates the pan exactly (C division truncates toward zero). -/
theorem C14_separation_mirror_pan (fp mix : Int) (mono surround : Bool) :
    finalPan fp (-mix) mono surround = -finalPan fp mix mono surround := by
  unfold finalPan
  split
  · rfl
  · rw [Int.mul_neg, Int.neg_tdiv]

/-- Negating the pan of a non-surround voice swaps `(vol_l, vol_r)`. -/
theorem C14_separation_mirror_vol (vol pan : Int) (h1 : pan ≠ PAN_SURROUND) (h2 : -pan ≠ PAN_SURROUND) :
    volLR vol (-pan) = (volLR vol pan).swap := volLR_neg vol pan h1 h2

/-- … in particular for every pan the player can produce from a separation in −100…100. -/
theorem C14_separation_mirror (fp mix vol : Int) (hfp : 0 ≤ fp ∧ fp ≤ 255) (hmix : -100 ≤ mix ∧ mix ≤ 100) :
    volLR vol (voicePan fp (-mix) false false) = (volLR vol (voicePan fp mix false false)).swap := by
  have hb : -128 ≤ finalPan fp mix false false ∧ finalPan fp mix false false ≤ 128 := by
    have hd : ((mixDiv.getD 100 : Nat) : Int) = 100 := rfl
    simp only [finalPan, hd, Bool.false_eq_true, or_self, if_false]
    have hlo : -12800 ≤ (fp - 128) * mix := by
      rcases Int.le_total 0 mix with hm | hm
      · have : (-128) * mix ≤ (fp - 128) * mix := Int.mul_le_mul_of_nonneg_right (by omega) hm
        omega
      · have : (127 : Int) * mix ≤ (fp - 128) * mix := Int.mul_le_mul_of_nonpos_right (by omega) hm
        omega
    have hhi : (fp - 128) * mix ≤ 12800 := by
      rcases Int.le_total 0 mix with hm | hm
      · have : (fp - 128) * mix ≤ 127 * mix := Int.mul_le_mul_of_nonneg_right (by omega) hm
        omega
      · have : (fp - 128) * mix ≤ (-128) * mix := Int.mul_le_mul_of_nonpos_right (by omega) hm
        omega
    exact tdiv100_bounds _ ⟨hlo, hhi⟩
  simp only [voicePan, Bool.false_eq_true, if_false, C14_separation_mirror_pan]
  apply volLR_neg <;> simp only [PAN_SURROUND, panSurround] <;> omega

/-- **A whole voice tick mirrors**: with the pan negated (and stereo sample channels exchanged),
left/right state exchanged, the voice adds the left/right-exchanged frames and ends in the
exchanged state.  For mono samples (`Seg.swap sg = sg`) this is the property's
"negating the separation exactly swaps left and right". -/
theorem C14_separation_mirror_tick (cfg : TickCfg) (st : VState) (i : VIn)
    (h1 : i.pan ≠ PAN_SURROUND) (h2 : -i.pan ≠ PAN_SURROUND) :
    voiceTick cfg st.swap i.mirror = (swapF (voiceTick cfg st i).1, (voiceTick cfg st i).2.swap) := by
  have hpre : acPre cfg st.swap = swapF (acPre cfg st) := by
    unfold acPre
    simp only [VState.swap]
    by_cases hc : st.ac = true ∧ cfg.interpAbove = true
    · simp only [hc, and_self, if_true]
      exact anticlickRamp_swap _ _ _
    · simp only [hc, if_false]
      rfl
  have hst : acState cfg st.swap = (acState cfg st).swap := by
    unfold acState
    simp only [VState.swap]
    by_cases ha : st.ac = true <;> by_cases hi : cfg.interpAbove = true <;> simp [ha, hi]
  have hbuf : addAt (List.replicate cfg.ticksize ((0 : Int), (0 : Int))) 0 (acPre cfg st.swap)
      = swapF (addAt (List.replicate cfg.ticksize (0, 0)) 0 (acPre cfg st)) := by
    rw [hpre, ← addAt_swap, swapF_replicate_zero]
  unfold voiceTick
  simp only [hbuf, hst]
  have hkind : i.mirror.kind = i.kind := rfl
  rw [hkind]
  cases i.kind with
  | free => rfl
  | reset => rfl
  | skip => rfl
  | run =>
    simp only [runVoice]
    have hv : volLR (mixVol i.mirror.vol i.mirror.mvol i.mirror.mvolbase) i.mirror.pan
        = (volLR (mixVol i.vol i.mvol i.mvolbase) i.pan).swap := volLR_neg _ _ h1 h2
    rw [hv]
    simp only [Prod.fst_swap, Prod.snd_swap]
    have := foldl_segStep_swap cfg i
      (rampDelta (volLR (mixVol i.vol i.mvol i.mvolbase) i.pan).1 (acState cfg st).oldVl (cfg.ticksize >>> anticlickShift))
      (rampDelta (volLR (mixVol i.vol i.mvol i.mvolbase) i.pan).2 (acState cfg st).oldVr (cfg.ticksize >>> anticlickShift))
      i.segs
      { buf := addAt (List.replicate cfg.ticksize (0, 0)) 0 (acPre cfg st), rampsize := cfg.ticksize >>> anticlickShift,
        oldVl := (acState cfg st).oldVl, oldVr := (acState cfg st).oldVr,
        sleft := (acState cfg st).sleft, sright := (acState cfg st).sright,
        volL := (volLR (mixVol i.vol i.mvol i.mvolbase) i.pan).1,
        volR := (volLR (mixVol i.vol i.mvol i.mvolbase) i.pan).2 }
    simp only [Loop.swap, VState.swap] at this ⊢
    have hs : i.mirror.segs = i.segs.map Seg.swap := rfl
    rw [hs, this]

/-- **Separation 0 ⇒ identical left and right for a whole voice tick** of a mono sample:
pan 0 and a left/right-symmetric state give symmetric frames and a symmetric state. -/
theorem C14_separation_zero_tick (cfg : TickCfg) (st : VState) (i : VIn)
    (hpan : i.pan = 0) (hsym : st.swap = st) (hmono : i.segs.map Seg.swap = i.segs) :
    swapF (voiceTick cfg st i).1 = (voiceTick cfg st i).1 ∧ (voiceTick cfg st i).2.swap = (voiceTick cfg st i).2 := by
  have hm : i.mirror = i := by
    cases i
    simp only [VIn.mirror] at hmono ⊢
    simp_all
  have := C14_separation_mirror_tick cfg st i
    (by rw [hpan]; simp [PAN_SURROUND, panSurround]) (by rw [hpan]; simp [PAN_SURROUND, panSurround])
  rw [hsym, hm] at this
  constructor
  · exact (congrArg Prod.fst this).symm
  · exact (congrArg Prod.snd this).symm

/-- non-trivial instance: a ramping voice with an anticlick discharge and an end-of-sample ramp -/
example :
    let cfg : TickCfg := { ticksize := 16 }
    let st : VState := { oldVl := 100, oldVr := 900, sleft := 5000, sright := -700, ac := true }
    let i : VIn := { vol := 640, pan := 37, segs := [{ smps := [(100, 100), (-3000, -3000), (77, 77)], acAfter := some 13, stop := true }] }
    voiceTick cfg st.swap i.mirror = (swapF (voiceTick cfg st i).1, (voiceTick cfg st i).2.swap)
    ∧ (voiceTick cfg st i).1 ≠ swapF (voiceTick cfg st i).1 := by decide

end Xmp.MixLinear
