import XmpModel.MixLoop
import XmpModel.Gen.DepackLimits
import XmpProofs.MixWindow
import XmpProps.C16
import XmpProps.C17
import XmpProps.C18
import XmpProps.C20
import XmpProofs.WorkBoundGates
import XmpProofs.WorkBoundXzZip
import XmpProofs.WorkBoundIff
import XmpProofs.WorkBoundUmx
import XmpProofs.WorkBoundPP
import XmpProofs.WorkBoundLzw
import XmpProofs.WorkBoundLha
import XmpProofs.WorkBoundMmcmp
import XmpProofs.WorkBoundCore
/-!
# C02 — work and memory bounded by real input size

Proved here (for every behaviour of the unmodelled parts, which appear as
oracles): the per-voice segment loop of the software mixer runs at most
`2·ticksize` iterations and hands at most `ticksize` samples to the kernels per
voice and tick; a depacker growth request above the ceiling is refused; every
depacker that grows an output buffer carries a ceiling derived from
`LIBXMP_DEPACK_LIMIT` (generated list, re-proved on every run).

Termination / size theorems that live with other properties (scan fuel bound
— C18, marker-skipping loop of `set_position` — C17, order-skipping loop of
`next_order` and tick size cap — C16, sample allocation ≤ bytes present + guard
— C20) are re-exported at the end of this file in C02's vocabulary
(`Xmp.C02.C02_*`), so that the audit of this module covers them too.
CPU time and RSS of parsers and entropy decoders are measured by the search
(harness/c01_fuzz.c in `res` mode), not proved.
-/
namespace Xmp.MixLoop

/-- **C02_mixer_iterations**: for every oracle, `iterations ≤ size + usmp`;
with `size = usmp = ticksize` that is `2·ticksize`. -/
theorem C02_mixer_iterations_le (o : List Step) : ∀ (size usmp : Nat),
    iterations o size usmp ≤ size + usmp := by
  induction o with
  | nil => intros; simp [iterations]
  | cons s rest ih =>
    intro size usmp
    unfold iterations
    by_cases h0 : size = 0
    · simp [h0]
    · simp only [h0, if_false]
      cases s with
      | stop => dsimp only; omega
      | zero =>
        dsimp only
        by_cases h1 : usmp ≤ 1
        · simp only [h1, if_true]; omega
        · simp only [h1, if_false]
          have := ih size (usmp - 1)
          omega
      | some n =>
        dsimp only
        have := ih (size - max 1 (min n size)) usmp
        have hk : 1 ≤ max 1 (min n size) := Nat.le_max_left _ _
        have hk2 : max 1 (min n size) ≤ size := by
          apply Nat.max_le.mpr
          exact ⟨by omega, Nat.min_le_right _ _⟩
        omega

theorem C02_mixer_iterations (o : List Step) (ticksize : Nat) :
    iterations o ticksize ticksize ≤ 2 * ticksize := by
  have := C02_mixer_iterations_le o ticksize ticksize
  omega

/-- **C02_mixer_samples**: a voice never receives more than `size` samples in a tick. -/
theorem C02_mixer_samples (o : List Step) : ∀ (size usmp : Nat), mixed o size usmp ≤ size := by
  induction o with
  | nil => intros; simp [mixed]
  | cons s rest ih =>
    intro size usmp
    unfold mixed
    by_cases h0 : size = 0
    · simp [h0]
    · simp only [h0, if_false]
      cases s with
      | stop => dsimp only; omega
      | zero =>
        dsimp only
        by_cases h1 : usmp ≤ 1
        · simp only [h1, if_true]; omega
        · simp only [h1, if_false]; exact ih size (usmp - 1)
      | some n =>
        dsimp only
        have := ih (size - max 1 (min n size)) usmp
        have hk2 : max 1 (min n size) ≤ size := by
          apply Nat.max_le.mpr
          exact ⟨by omega, Nat.min_le_right _ _⟩
        omega

/-- **C02_grow_capped**: whatever a packed stream declares, a successful growth
step never exceeds the ceiling. -/
theorem C02_grow_capped (limit cur need n : Nat) (hcur : cur ≤ limit)
    (h : grow limit cur need = some n) : n ≤ limit ∧ need ≤ n := by
  unfold grow at h
  split at h
  · cases h
    constructor
    · exact Nat.max_le.mpr ⟨hcur, by assumption⟩
    · exact Nat.le_max_right _ _
  · cases h

/-- **C02_depack_limit_sites**: every depacker source that sizes an output
buffer from packed data and is in the capped class references a ceiling
derived from `LIBXMP_DEPACK_LIMIT` (list regenerated from /repo on every run). -/
theorem C02_depack_limit_sites :
    Xmp.Gen.DepackLimits.cappedClass.all (fun f =>
      Xmp.Gen.DepackLimits.sites.any (fun s => s.file == f && s.allocSites > 0 && !s.capTokens.isEmpty)) = true := by
  decide

/-- **C02_decrunch_one_level**: the depack entry never nests — `libxmp_decrunch` hands the stream to one depacker and
returns; no call leads back into it (call-graph fact regenerated from src/depackers/depacker.c on every run).  So the
stack depth and the number of unpack passes of a load are 1 whatever is packed inside what, and the work bounds of the
individual depackers above are the bounds of the whole unpacking step. -/
theorem C02_decrunch_one_level : Xmp.Gen.DepackLimits.decrunchBackEdges = 0 := by decide

/-- the ceiling itself is the documented 512 MiB -/
theorem C02_depack_limit_value : Xmp.Gen.DepackLimits.depackLimit = 512 * 1024 * 1024 := by decide

/-! Non-vacuity: an adversarial oracle alternating zero-length and 1-sample steps. -/
example : iterations [.zero, .some 1, .zero, .some 5, .zero, .zero, .stop] 4 4 = 4 := by decide
example : grow 100 10 60 = some 60 ∧ grow 100 10 101 = none := by decide

end Xmp.MixLoop

/-! ## "Testing, loading, scanning and rendering one frame always return"

Re-exports of the termination and size theorems proved with the properties that own the models
(C16 sequencer/tick size, C17 position control, C18 scan, C20 sample loader), restated for C02:
each says that a loop whose trip count a file could try to inflate (order list full of markers,
self-referential jumps, declared sample lengths, tempo/rate combinations) is bounded by the real
size of the data or by a fixed limit of the library. -/
namespace Xmp.C02

/-- **C02_next_order_terminates** (rendering one frame, sequencer): the order-skipping loop of
`next_order` (`do { p->ord++ … } while (mod->xxo[p->ord] >= mod->pat)`, wrapping to the restart
position / entry point) ends within `len + 1 ≤ 257` iterations for every well-formed module whose
kept sequences reach a pattern, from every `p->ord ≥ -1` — no order list (all markers, all
out-of-range patterns behind the first valid one, jump targets past the list) makes it spin.

Scope of the hypothesis `OrdWF` (every kept sequence reaches a pattern: its restart position holds one, or its entry
point does, or an order behind the entry point before the end of the list / an end marker does): it is NOT derived here
from the loader and the scan — `libxmp_scan_sequences` (which drops a sequence whose scan finds nothing to play) has
no model in `Seq`.  It is monitored: by C16 on every module it loads (`Seq.ordWfB` on the dumped module), and here
(harness/c02_play.c, `entryok`) the two disjuncts visible through the public API are evaluated on every module that is
played through its end, including modules whose restart position, jump targets and order tails are pattern-less or
marker orders (tools/c02_gens.restart_play_set); the restart test `xxo[rst] >= pat` of the C is part of the model
(`Seq.nextOrderLoop`), so a player that drops it leaves the model — caught by playing those modules twice through. -/
theorem C02_next_order_terminates {m : Seq.SeqMod} (h : Seq.WF m) (ho : Seq.OrdWF m) {seq : Int}
    (hs : 0 ≤ seq ∧ seq < m.numSeq) (ord : Int) (hord : -1 ≤ ord) (rg : Bool) :
    (Seq.nextOrderLoop m seq (m.len + 1).toNat ord rg).isSome = true ∧ (m.len + 1).toNat ≤ 257 := by
  obtain ⟨o, rg', e, _⟩ := Seq.C16_next_order_terminates h ho hs ord hord rg
  exact ⟨by rw [e]; rfl, by have := h.facts.len; omega⟩

/-- **C02_play_frame_returns**: hence every `xmp_play_frame` (sequencer kernel) returns, from
every state satisfying the boundary invariant and for all effect outcomes. -/
theorem C02_play_frame_returns {m : Seq.SeqMod} (h : Seq.WF m) (ho : Seq.OrdWF m) {s : Seq.St} (hc : Seq.Core m s)
    (eA eB : Seq.Eff) : Seq.playFrame m s eA eB ≠ .diverge :=
  (Seq.C16_frame_returns h ho hc eA eB).1

/-- **C02_set_position_terminates**: every position-control call (`xmp_set_position`,
`xmp_next_position`, `xmp_prev_position`, `xmp_seek_time`) returns: the marker-skipping loop of
`set_position` is bounded by `len + 1` whatever 0xfe/0xff markers the order list holds (the
former hang F5 is repaired in /repo). -/
theorem C02_set_position_terminates (m : Control.CMod) (s : Control.St) (he : ∀ q, 0 ≤ m.entry q) (p t : Int) :
    (Control.xmpSetPosition m s p).isSome = true ∧ (Control.xmpNextPosition m s).isSome = true ∧
    (Control.xmpPrevPosition m s).isSome = true ∧ (Control.xmpSeekTime m s t).isSome = true :=
  Control.C17_marker_skipping_terminates m s he p t

/-- **C02_scan_terminates** (scanning): `scan_module`'s outer loop ends within
`(len + 1)·514 + 1` iterations — a bound in the real length of the order list — whatever jumps,
breaks and pattern loops the patterns contain. -/
theorem C02_scan_terminates (m : LinFlow.LinMod) (ep chain : Nat) (ctl : List Nat) (info : List LinFlow.OrdInfo)
    (hrst : m.rst < m.len) (hep : ep < m.len) :
    (LinFlow.scanModule m ep chain ctl info).fuelOut = false ∧ LinFlow.scanFuel m = (m.len + 1) * 514 + 1 :=
  ⟨LinFlow.C18_scan_terminates m ep chain ctl info hrst hep, rfl⟩

/-- **C02_ticksize_bound** (rendering one frame, mixer): for ALL rates, time factors and tempos
the tick size is at most `XMP_MAX_FRAMESIZE / 4` frames and the output at most
`XMP_MAX_FRAMESIZE` bytes, so (`C02_mixer_iterations`) the per-voice segment loop runs at most
`XMP_MAX_FRAMESIZE / 2` iterations per tick — a fixed limit of the library. -/
theorem C02_ticksize_bound (freq tfN tfD rrN rrD bpm : Int) (mono bit8 : Bool) (o : List MixLoop.Step) :
    Tick.prepare freq tfN tfD rrN rrD bpm ≤ Tick.capTicks ∧
    Tick.bufferSize (Tick.prepare freq tfN tfD rrN rrD bpm) mono bit8 ≤ Gen.PlayerConsts.maxFramesize ∧
    MixLoop.iterations o (Tick.prepare freq tfN tfD rrN rrD bpm).toNat (Tick.prepare freq tfN tfD rrN rrD bpm).toNat
      ≤ 2 * Tick.capTicks.toNat := by
  have t := Tick.C16_ticksize freq tfN tfD rrN rrD bpm mono bit8
  have i := MixLoop.C02_mixer_iterations o (Tick.prepare freq tfN tfD rrN rrD bpm).toNat
  exact ⟨t.2.1, Tick.C16_framesize_bound freq tfN tfD rrN rrD bpm mono bit8, by have := t.2.1; omega⟩

/-- **C02_sample_alloc_le** (loading): what `libxmp_load_sample` allocates for one sample is
bounded by the bytes really present in the file (`2·avail + 20`, `4·avail + 20` for ADPCM), not
by the declared sample length; with `SAMPLE_FLAG_NOLOAD` by the caller's buffer. -/
theorem C02_sample_alloc_le (flags : Nat) (h : Sample.Hdr) (f : Option Bytes) (buffer : Bytes)
    (hbuf : Sample.BufferOk flags h buffer) :
    (Sample.fl flags Sample.Gen.SAMPLE_FLAG_NOLOAD = false →
      Sample.outBytes flags h f ≤ (if Sample.fl flags Sample.Gen.SAMPLE_FLAG_ADPCM then 2 * (Sample.avail f - 16) else Sample.avail f) ∧
      Sample.totalAlloc flags h f ≤ (if Sample.fl flags Sample.Gen.SAMPLE_FLAG_ADPCM then 4 * Sample.avail f else 2 * Sample.avail f) + 20) ∧
    (Sample.fl flags Sample.Gen.SAMPLE_FLAG_NOLOAD = true →
      Sample.outBytes flags h f ≤ buffer.length ∧ Sample.totalAlloc flags h f ≤ 2 * buffer.length + 20) :=
  Sample.alloc_le flags h f buffer hbuf

/-! Non-vacuity: the hypotheses of the re-exports are satisfiable (instances proved with the owners). -/
example := C02_next_order_terminates Seq.exMod_wf Seq.exMod_ordwf (seq := 0) (by decide) 2 (by decide) false
example : (Tick.prepare 49170 100 1 250 1 125, Tick.capTicks) = (6146, 6146) := by decide

end Xmp.C02

/-! ## Decoders and container walkers as bounded-work functions

Each loop of the modelled depackers (`XmpModel.Gates`, `Lzw`, `PowerPacker`) and of the IFF chunk walker
(`XmpModel.IffWalk`) is re-expressed as a counted step function (`XmpModel.WorkBound`: `Work.run` keeps "fuel ran
out" apart from every result of the code).  The theorems below say, for **every** input byte string:
`EndsWithin step fuel s n` — the loop started in `s` ends by itself (never by lack of the model's fuel) within `n`
iterations, `n` being `bytes / k + 1` for the `k` bytes (bits) every continuing iteration consumes; the `=`-part
says the counted loop *is* the owning model (whose tie to the C is the C08/C09 correspondence), so the model's
termination is the code's. -/
namespace Xmp.C02
open Xmp.Work Xmp.Gates

/-- the ceiling the models use is the generated `LIBXMP_DEPACK_LIMIT` -/
theorem C02_depack_limit_models : Container.depackLimit = Gen.DepackLimits.depackLimit := by decide

/-- **C02_arc_work** (`arc_read`): at most `|file|/2 + 1` entry-loop iterations — every entry, whatever compressed
size it declares, moves the walk at least 2 bytes forward (`arcStep_progress`) -/
theorem C02_arc_work (env : ArcEnv) (f : Bytes) :
    EndsWithin (arcStep env f) (f.length + 1) (0, 0) (f.length / 2 + 1) ∧
    arcDepack env f = (run (arcStep env f) (f.length + 1) (0, 0)).outD none ∧
    (∀ s s', (arcStep env f s).succ? = some s' → s.1 + 2 ≤ f.length ∧ s.1 + 2 ≤ s'.1) :=
  ⟨(arc_work env f).1, (arc_work env f).2, arcStep_progress env f⟩

/-- **C02_arc_ceiling**: `arc_unpack` is never asked for more than the ceiling (guarding it changes nothing), and
what is returned is a slice of the file or the answer to such a request -/
theorem C02_arc_ceiling (env : ArcEnv) (f : Bytes) :
    arcDepack env.capped f = arcDepack env f ∧
    (∀ out, arcDepack env f = some out →
      out.length ≤ f.length ∨ ∃ m w i u, u ≤ env.limit ∧ env.unpack m w i u = some out) :=
  ⟨arcDepack_capped env f, fun out h => arcLoop_out env f out _ 0 0 h⟩

/-- **C02_arcfs_work** (`arcfs_read`): the declared entry-table length is backed by bytes (36 per entry between
the header and the data area), so at most `(|file| − 96)/36 + 1` iterations -/
theorem C02_arcfs_work (env : ArcEnv) (f : Bytes) (el dofs : Nat) (h : arcfsHeader f = some (el, dofs)) :
    EndsWithin (arcfsStep env f dofs) (el / 36 + 1) (el / 36, 96) ((f.length - 96) / 36 + 1) ∧
    arcfsDepack env f = (run (arcfsStep env f dofs) (el / 36 + 1) (el / 36, 96)).outD none ∧
    96 + el / 36 * 36 ≤ f.length ∧ arcfsDepack env.capped f = arcfsDepack env f :=
  ⟨(arcfs_work env f el dofs h).1, (arcfs_work env f el dofs h).2, (arcfs_count_le f el dofs h).1, arcfsDepack_capped env f⟩

/-- **C02_lzx_work** (`lzx_read`): at most `(|file| − 10)/31 + 1` iterations — every entry moves the walk at least
31 bytes forward; an extraction is only started with a (merged) total within the ceiling -/
theorem C02_lzx_work (env : LzxEnv) (f : Bytes) :
    EndsWithin (lzxStep env f) (f.length + 1) (10, {}) ((f.length - 10) / 31 + 1) ∧
    (10 ≤ f.length → slice f 0 3 = [0x4c, 0x5a, 0x58] →
      lzxDepack env f = (run (lzxStep env f) (f.length + 1) (10, {})).outD none) ∧
    (∀ s s', (lzxStep env f s).succ? = some s' → s.1 + 31 ≤ f.length ∧ s.1 + 31 ≤ s'.1) ∧
    (∀ (mg : LzxMerge) (bad : Bool) (usize csize method flags dcrc : Nat), (usize > env.limit → bad = true) →
      (lzxCheckEntry env.limit mg bad usize csize method flags dcrc).2 = true →
      (lzxCheckEntry env.limit mg bad usize csize method flags dcrc).1.total ≤ env.limit) :=
  ⟨(lzx_work env f).1, (lzx_work env f).2, lzxStep_progress env f,
   fun mg bad usize csize method flags dcrc => lzxCheckEntry_total env.limit mg bad usize csize method flags dcrc⟩

/-- **C02_xz_work** (xz container): a VLI is at most 9 bytes; every Block moves the position at least 8 bytes
forward inside the file, so at most `(|file| − 12)/8 + 1` iterations of the block loop, and the number of Index
records then read equals the number of blocks found (`8·blocks ≤ |file|`) -/
theorem C02_xz_work (lz : Nat → Bytes → Option (Nat × List Bytes)) (ct : Nat) (f : Bytes) (h12 : 12 ≤ f.length) :
    (∀ p limit, EndsWithin (xzVliStep f limit) 9 (p, 0, 0) 9 ∧
        xzVli f p limit = (run (xzVliStep f limit) 9 (p, 0, 0)).outD none) ∧
    EndsWithin (xzBlocksStep lz ct f) f.length 12 ((f.length - 12) / 8 + 1) ∧
    xzBlocks lz ct f f.length 12 = (run (xzBlocksStep lz ct f) f.length 12).outD none ∧
    (∀ p q, (xzBlocksStep lz ct f p).succ? = some q → p + 8 ≤ q ∧ q ≤ f.length) ∧
    (∀ ip bs, xzBlocks lz ct f f.length 12 = some (ip, bs) → 12 + 8 * bs.length ≤ ip ∧ ip < f.length) :=
  ⟨fun p limit => xzVli_work f p limit, (xzBlocks_work lz ct f h12).1, (xzBlocks_work lz ct f h12).2,
   xzBlocksStep_progress lz ct f, fun ip bs h => xzBlocks_count lz ct f f.length 12 ip bs h⟩

/-- **C02_zip_work** (miniz reader): the end-of-central-directory search never starts more than 69 650 bytes
before the end; a zip64 extra-field walk over `|x|` bytes takes at most `|x|/4 + 1` iterations; the central
directory loop takes at most `n/46 + 1` iterations for `n` directory bytes whatever record count is declared; an
opened archive has `46·records ≤ cdirSize` and the directory inside the file -/
theorem C02_zip_work (f : Bytes) :
    (let lo := zipWindowLo f.length 32 (f.length - 4096); (lo = 0 ∨ 65557 ≤ f.length - lo) ∧ f.length - lo ≤ 69650) ∧
    (∀ x fuel, x.length < fuel → EndsWithin zip64Step fuel x (x.length / 4 + 1) ∧
        zipFindZip64 fuel x = (run zip64Step fuel x).outD (some none)) ∧
    (∀ thisDisk k p n he, EndsWithin (zipCdirStep f thisDisk) (n / 46 + 1) (k, p, n, he) (n / 46 + 1) ∧
        zipCdirLoop f thisDisk k p n he = (run (zipCdirStep f thisDisk) (n / 46 + 1) (k, p, n, he)).outD none) ∧
    (∀ l, zipOpen f = some l → ∃ E : ZipEocd, zipEocd f = some E ∧ E.cdirOfs + E.cdirSize ≤ f.length ∧
        l.length = E.total ∧ 46 * l.length ≤ E.cdirSize) :=
  ⟨zipEocd_window f, fun x fuel h => zip64_work x fuel h, fun td k p n he => zipCdir_work f td k p n he,
   fun l h => zipOpen_cdir_le f l h⟩

/-- **C02_gzip_header**: the optional header fields (FEXTRA with its declared length, unterminated FNAME /
FCOMMENT, FHCRC) cannot move the start of the deflate data outside `[10, |file| − 8]` -/
theorem C02_gzip_header (f : Bytes) (p : Nat) (h : gzipDataStart f = some p) : 10 ≤ p ∧ p + 8 ≤ f.length :=
  gzipDataStart_bounds f p h

/-- **C02_lzw_work** (compress(1), `decrunch_compress`): the code loop takes at most `2·(8·|body|/9) + 1`
iterations (a code of ≥ 9 bits or a width change per iteration, never two width changes in a row) -/
theorem C02_lzw_work (body : Bytes) (maxbits : Nat) (bm : Bool) :
    let d0 : Lzw.Dec := { w := Lzw.W.init, tab := Lzw.initTab bm, oldcode := none, finchar := 0, out := [] }
    EndsWithin (lzwStep body.toArray maxbits bm) (2 * body.length + 4) d0 (2 * (8 * body.length / 9) + 1) ∧
    Lzw.decGo body.toArray maxbits bm (2 * body.length + 4) d0 =
      (run (lzwStep body.toArray maxbits bm) (2 * body.length + 4) d0).outD none :=
  lzw_work body maxbits bm

/-- **C02_pp_work** (PowerPacker): a count-group loop reads at most `bits/n + 1` groups; the main loop appends at
least two bytes per iteration, so at most `dest_len/2 + 1` iterations; the output has exactly the 24-bit declared
length (< 16 MiB, one allocation, never overrun) -/
theorem C02_pp_work (offsetLens : Bytes) (destLen : Nat) (br : PowerPacker.BR) :
    (∀ n todo, 0 < n → EndsWithin (countStep n) (PowerPacker.bitsAvail br + 1) (br, todo) (PowerPacker.bitsAvail br / n + 1) ∧
        PowerPacker.readCount n (PowerPacker.bitsAvail br + 1) br todo =
          (run (countStep n) (PowerPacker.bitsAvail br + 1) (br, todo)).outD none) ∧
    EndsWithin (ppStep offsetLens destLen) (destLen + 1) (br, []) (destLen / 2 + 1) ∧
    PowerPacker.mainLoop offsetLens destLen (destLen + 1) br [] =
      (run (ppStep offsetLens destLen) (destLen + 1) (br, [])).outD none ∧
    (∀ file out, PowerPacker.decrunchPP file = some out → out.length < 2 ^ 24) :=
  ⟨fun n todo hn => readCount_work n hn br todo, (pp_work offsetLens destLen br).1, (pp_work offsetLens destLen br).2,
   decrunchPP_out_len⟩

/-- **C02_iff_progress** (`libxmp_iff_load`): an iteration of the chunk walk that continues has read a whole
chunk header inside the data and continues at or after its end — for every flag combination, registered loader
set and declared chunk length (0, 2^31, 2^32 − 1, …) -/
theorem C02_iff_progress (c : Iff.Cfg) (hs : List Iff.Handler) (f : Bytes) (p p' : Nat)
    (h : (Iff.chunkStep c hs f p).succ? = some p') : p + c.idSize + 4 ≤ f.length ∧ p + c.idSize + 4 ≤ p' :=
  Iff.chunkStep_progress c hs f p p' h

/-- **C02_iff_terminates**: hence at most `(|file| − start)/(id_size + 4) + 1` loop tests — `|file|/8 + 1` for the
standard 4-byte ids -/
theorem C02_iff_terminates (c : Iff.Cfg) (hs : List Iff.Handler) (f : Bytes) (start : Nat) :
    EndsWithin (Iff.chunkStep c hs f) (Iff.iffFuel c f) start ((f.length - start) / (c.idSize + 4) + 1) ∧
    (Iff.iffLoad c hs f start).res.isSome = true :=
  ⟨Iff.iffLoad_terminates c hs f start, (Iff.iffLoad_terminates c hs f start).1⟩

/-- **C02_lha_work** (`decrunch_lha` + the lhasa header reader): `skip_sfx` examines at most
`min(|file|, 262 152) + 1` positions; the extended-header walks use up ≥ `fs + 1` / ≥ 3 bytes per header; the null
decoder produces ≥ 1 wanted byte per block; the member walk uses up ≥ 22 bytes per skipped member, so at most
`|file|/22 + 1` iterations.  None of the models' fuels is ever what stops a loop. -/
theorem C02_lha_work (dec : Bytes → Bool → Bytes → Nat → Option Bytes) (f : Bytes) :
    (EndsWithin (sfxStep f) (f.length + 1) (0, 0) (f.length + 1) ∧
      EndsWithin (sfxStep f) (f.length + 1) (0, 0) (Container.lhaSfxLimit + 1) ∧
      Container.skipSfx f = (run (sfxStep f) (f.length + 1) (0, 0)).outD none) ∧
    (∀ fs (h : Container.LhaHeader) off,
      EndsWithin (extStep fs) (h.raw.length + 1) (h, off, h.raw.length - off - fs) ((h.raw.length - off - fs) / (fs + 1) + 1) ∧
      Container.decodeExt fs h off = (run (extStep fs) (h.raw.length + 1) (h, off, h.raw.length - off - fs)).outD none) ∧
    (∀ (h : Container.LhaHeader) (s : Bytes), EndsWithin l1ExtStep (s.length + 1) (h, s) (s.length / 3 + 1) ∧
      Container.readL1Ext (s.length + 1) h s = (run l1ExtStep (s.length + 1) (h, s)).outD none) ∧
    (∀ (s : Bytes) rem want, EndsWithin nullStep (want + 1) (s, rem, want, []) (want + 1) ∧
      Container.lhaNullRead (want + 1) s rem want [] = (run nullStep (want + 1) (s, rem, want, [])).outD none) ∧
    (∀ i, EndsWithin (lhaStep dec) (f.length + 1) (f.drop i) ((f.length - i) / 22 + 1) ∧
      Container.lhaWalk dec (f.length + 1) (f.drop i) = (run (lhaStep dec) (f.length + 1) (f.drop i)).outD none) :=
  ⟨skipSfx_work f, fun fs h off => extWalk_work fs h off, fun h s => readL1Ext_work h s,
   fun s rem want => lhaNullRead_work s rem want, fun i => lha_work dec f i⟩

/-- **C02_lha_ceiling**: whatever length a member header declares (up to 2^32 − 1), the output of `decrunch_lha`
has between 1 and `LIBXMP_DEPACK_LIMIT` bytes — the declared length is tested before anything is sized from it -/
theorem C02_lha_ceiling (dec : Bytes → Bool → Bytes → Nat → Option Bytes) (f out : Bytes) (h : Container.unlha dec f = some out) :
    1 ≤ out.length ∧ out.length ≤ Gen.DepackLimits.depackLimit := by
  have := unlha_out dec f out h
  rw [C02_depack_limit_models] at this
  exact this

/-- **C02_mmcmp_bounds** (`decrunch_mmcmp`): the declared block count is backed by 4 table bytes per block inside
the file, every sub-block table by 8 bytes per entry; the output buffer is sized once (16 … `LIBXMP_DEPACK_LIMIT`
bytes) and no block changes its length (for any in-place decoder of the compressed blocks); the sizes of the sub-blocks
read come out of one budget that starts at `filesize` (/repo 353a4b5), so all blocks together write at most `filesize`
bytes however often the block table repeats an entry -/
theorem C02_mmcmp_bounds (dec : Nat → Nat → Nat → List (Nat × Nat) → Bytes → Bytes → Option Bytes) (f out : Bytes)
    (hdec : ∀ a b c subs s o o', dec a b c subs s o = some o' → o'.length = o.length)
    (h : Container.decrunchMmcmp dec f = some out) :
    (out.length = Container.u32At f 14 ∧ 16 ≤ out.length ∧ out.length ≤ Gen.DepackLimits.depackLimit ∧
      Container.u32At f 18 + 4 * Container.u16At f 12 ≤ f.length ∧ 1 ≤ Container.u16At f 12) ∧
    (∀ n ofs budget l b', Container.mmSubs f n ofs budget = some (l, b') →
      l.length = n ∧ (0 < n → ofs + 8 * n ≤ f.length) ∧ (l.map (·.2)).sum + b' = budget) := by
  have := decrunchMmcmp_out dec f out hdec h
  rw [C02_depack_limit_models] at this
  exact ⟨this, mmSubs_len f⟩

/-- **C02_rle90_len** (`arc_unrle90_block`): one step per input byte (the model recurses on the input), and the
result has exactly the `dest_len` bytes the caller sized — a run count cannot overrun the buffer -/
theorem C02_rle90_len (destLen : Nat) (src out : Bytes) (h : Container.unrle90 destLen src = some out) :
    out.length = destLen := unrle90_len destLen src out h

/-! ## Core loaders: loop trip counts are fixed ceilings, sample reads are bounded by the bytes present -/

/-- loop trips of a core loader's body for validated counts `c` and a per-pattern row ceiling: order list, instrument
and sample headers, and `patterns × rows × channels` events -/
def coreWork (c : LoadPost.Hdr.Counts) (rows : Nat) : Nat :=
  c.len.toNat + c.ins.toNat + c.smp.toNat + c.pat.toNat * rows * c.chn.toNat

/-- 256 orders + 255 instruments + 1024 samples + 257 patterns × 1024 rows × 64 channels -/
def coreWorkCeiling : Nat := 256 + 255 + 1024 + 257 * 1024 * 64

theorem coreWork_le (c : LoadPost.Hdr.Counts) (rows : Nat) (h : LoadPost.Hdr.CountOblig c = true) (hr : rows ≤ 1024) :
    coreWork c rows ≤ coreWorkCeiling := by
  have e1 : (Gen.Limits.xmpMaxChannels : Int) = 64 := rfl
  have e2 : (Gen.Limits.xmpMaxModLength : Int) = 256 := rfl
  have e3 : (Gen.Limits.epiPatMax : Int) = 257 := rfl
  have e4 : (Gen.Limits.epiInsMax : Int) = 255 := rfl
  have e5 : (Gen.Limits.maxSamples : Int) = 1024 := rfl
  simp only [LoadPost.Hdr.CountOblig, Bool.and_eq_true, decide_eq_true_eq, e1, e2, e3, e4, e5] at h
  obtain ⟨⟨⟨⟨⟨⟨⟨⟨⟨⟨⟨h1, h2⟩, h3⟩, h4⟩, h5⟩, h6⟩, h7⟩, h8⟩, h9⟩, h10⟩, _⟩, _⟩ := h
  have p1 : c.pat.toNat * rows ≤ 257 * 1024 := Nat.mul_le_mul (by omega) hr
  have p2 : c.pat.toNat * rows * c.chn.toNat ≤ 257 * 1024 * 64 := Nat.mul_le_mul p1 (by omega)
  unfold coreWork coreWorkCeiling
  omega

/-- **C02_core_loader_work**: for each of the four core loaders (MOD, S3M, XM, IT) every header the loader accepts
— whatever it declares — yields counts whose loop trip total (orders + instruments + samples +
patterns × rows × channels, rows ≤ 256 resp. ≤ 1024 as validated per pattern) is below one fixed ceiling of the
library (`coreWorkCeiling` ≈ 16.8 M trips), independent of every other declared size; and each sample load consumes
at most the bytes present and allocates at most `2·avail + 20` (`4·avail + 20` for ADPCM) bytes, never the declared
sample length (C20).  Corollary of the header-count theorems (`Work.Core.core_hdr_*`: the statements of `C03_hdr_*`, re-proved
over the same model in XmpProofs/WorkBoundCore.lean so that this file does not depend on the rest of C03) and of
`Sample.alloc_le` / `C20_truncation`. -/
theorem C02_core_loader_work :
    (∀ magic wow probe len restart orders c, len ≤ 255 →
      LoadPost.Hdr.modHeader magic wow probe len restart orders = some c → coreWork c Gen.C03Hdr.modRows ≤ coreWorkCeiling) ∧
    (∀ ffi ordnum insnum patnum magicOK chset orders c,
      LoadPost.Hdr.s3mHeader ffi ordnum insnum patnum magicOK chset orders = some c → coreWork c Gen.C03Hdr.s3mRows ≤ coreWorkCeiling) ∧
    (∀ songlen restart channels patterns instruments tempo bpm headersz med2xm smp c, smp ≤ Gen.Limits.maxSamples →
      LoadPost.Hdr.xmHeader songlen restart channels patterns instruments tempo bpm headersz med2xm smp = some c →
      ∀ version field r, LoadPost.Hdr.xmPatRows version field = some r → coreWork c r ≤ coreWorkCeiling) ∧
    (∀ ordnum insnum smpnum patnum gv sampleMode maxCh c, maxCh ≤ Gen.C03Hdr.itChannelMask →
      LoadPost.Hdr.itHeader ordnum insnum smpnum patnum gv sampleMode maxCh = some c →
      ∀ offset n r, LoadPost.Hdr.itPatRows offset n = some r → coreWork c r ≤ coreWorkCeiling) ∧
    (∀ flags (h : Sample.Hdr) skip (f : Option Bytes) buffer, Sample.BufferOk flags h buffer →
      ¬ Sample.Skips flags h skip f → Sample.fl flags Sample.Gen.SAMPLE_FLAG_NOLOAD = false →
      Sample.consumedBytes flags h f ≤ Sample.avail f ∧
      Sample.totalAlloc flags h f ≤ (if Sample.fl flags Sample.Gen.SAMPLE_FLAG_ADPCM then 4 * Sample.avail f else 2 * Sample.avail f) + 20) := by
  refine ⟨?_, ?_, ?_, ?_, ?_⟩
  · intro magic wow probe len restart orders c hl h
    exact coreWork_le c _ (Work.Core.core_hdr_mod magic wow probe len restart orders c hl h).1 (by decide)
  · intro ffi ordnum insnum patnum magicOK chset orders c h
    exact coreWork_le c _ (Work.Core.core_hdr_s3m ffi ordnum insnum patnum magicOK chset orders c h).1 (by decide)
  · intro songlen restart channels patterns instruments tempo bpm headersz med2xm smp c hs h version field r hr
    have := (Work.Core.core_hdr_rows.1 version field r hr).2
    exact coreWork_le c r (Work.Core.core_hdr_xm songlen restart channels patterns instruments tempo bpm headersz med2xm smp c hs h).1 (by omega)
  · intro ordnum insnum smpnum patnum gv sampleMode maxCh c hch h offset n r hr
    have := (Work.Core.core_hdr_rows.2.1 offset n r hr).2
    exact coreWork_le c r (Work.Core.core_hdr_it ordnum insnum smpnum patnum gv sampleMode maxCh c hch h).1 this
  · intro flags h skip f buffer hbuf hs hN
    obtain ⟨h', a, c, _, _, _, _, _, hc, hle⟩ := (Sample.C20_truncation flags h skip f buffer hbuf).2 hs
    exact ⟨by rw [← hc]; exact hle hN, ((Sample.alloc_le flags h f buffer hbuf).1 hN).2⟩

/-- **C02_umx_names_terminate** (`read_typname`, the Unreal package name-table walk used by `umx_test` and
`umx_load`): an iteration that continues has read at least one byte of the file at `name_offset + l` and moved `l`
at least 5 bytes forward (a counted length ≤ 0 — a negative length byte such as 0xFB — ends the walk), so the loop
runs at most `(|file| − name_offset)/5 + 2` times whatever type-name index (up to 2^31 − 2) and name count the
package declares -/
theorem C02_umx_names_terminate (f : Bytes) (nameCount nameOfs : Nat) (v64 : Bool) (idx : Nat) :
    (Umx.readTypname f nameCount nameOfs v64 idx).res.isSome = true ∧
    (Umx.readTypname f nameCount nameOfs v64 idx).iters ≤ (f.length - nameOfs) / 5 + 2 ∧
    (∀ s s', (Umx.nameStep f nameOfs v64 s).succ? = some s' →
      nameOfs + s.l < f.length ∧ s.l + 5 ≤ s'.l ∧ s'.left + 1 = s.left) :=
  ⟨(Umx.readTypname_isSome f nameCount nameOfs v64 idx).1, (Umx.readTypname_isSome f nameCount nameOfs v64 idx).2,
   Umx.nameStep_progress f nameOfs v64⟩

/-- a name whose length byte is 0xFB (−5): the walk for index 2^31 − 2 ends at once with −1 -/
example : ((Umx.readTypname ([0xfb, 0x4d, 0, 0, 0, 0, 0] ++ List.replicate 20 7) 0x7fffffff 0 true 0x7ffffffe).res,
    (Umx.readTypname ([0xfb, 0x4d, 0, 0, 0, 0, 0] ++ List.replicate 20 7) 0x7fffffff 0 true 0x7ffffffe).iters) = (some none, 1) := by
  decide

/-- **C02_scan_visit_counter_saturates** (`scan_module`, `FX_IT_ROWDELAY` on any number of channels of one row):
the per-row visit counter `scan_cnt[ord][row]` is what makes the scan stop at a row it has already played.  Every
row delay adds `p1 & 0x0f` to it with `MIN(…, 255)` — saturating, not wrapping — so whatever sequence of row-delay
effects (one per channel, up to 64 on a row) is applied, the counter of **every** row that was visited stays
non-zero: a visited row can never look unvisited again.  This is the hypothesis-free fact behind
`C02_scan_terminates` (which holds for every `LinMod`, modules with row delays included: `C18_scan_terminates`
has no well-formedness premise; `ModWF` only restricts the *duration* theorems). -/
theorem C02_scan_visit_counter_saturates (c : List (List Nat)) (ord row : Nat) (fxs : List LinFlow.Fx) (o' r' : Nat)
    (h : LinFlow.cntAt c o' r' ≠ 0) :
    LinFlow.cntAt (fxs.foldl (fun c fx => LinFlow.cntBump c ord row fx) c) o' r' ≠ 0 := by
  induction fxs generalizing c with
  | nil => exact h
  | cons fx rest ih => exact ih _ (LinFlow.cntAt_cntBump_pos c ord row fx o' r' h)

/-- 17 channels of `SEF` on the row just visited (counter 1): 1 + 17·15 = 256 would be 0 in a byte; the counter
saturates at 255 instead -/
example : LinFlow.cntAt ((List.replicate 17 (LinFlow.Fx.rowdelay 15)).foldl (fun c fx => LinFlow.cntBump c 0 0 fx) [[1]]) 0 0 = 255 := by
  decide

/-! Non-vacuity: a chunk declaring 2^32 − 1 bytes does not stop the walk from reaching the end (3 loop tests for
two chunks), and a walk that needs its bound. -/
example : ((Iff.iffLoad { idSize := 4, flags := 0, clamp := true } [] ([0x41, 0x41, 0x41, 0x41, 0, 0, 0, 0, 0x42, 0x42, 0x42, 0x42, 0xff, 0xff, 0xff, 0xff, 1, 2]) 0).iters,
    ((Iff.iffLoad { idSize := 4, flags := 0, clamp := true } [] ([0x41, 0x41, 0x41, 0x41, 0, 0, 0, 0, 0x42, 0x42, 0x42, 0x42, 0xff, 0xff, 0xff, 0xff, 1, 2]) 0).res.map (·.1))) = (3, some true) := by decide
example : (run zip64Step 5 [9, 0, 0, 0, 1, 0, 2, 0, 7, 7]).res = some (some (some [7, 7])) := by decide

/-! Non-vacuity of the hypotheses above: an ArcFS header declaring one 36-byte entry in a 132-byte file is accepted
(so `C02_arcfs_work` applies, bound 2); a gzip header with FNAME; an S3M and an IT header at their limits with their
loop totals; an MMCMP block table of two entries. -/
set_option maxRecDepth 8000 in
example : arcfsHeader ([0x41, 0x72, 0x63, 0x68, 0x69, 0x76, 0x65, 0] ++ [36, 0, 0, 0] ++ [132, 0, 0, 0] ++ [4, 1, 0, 0] ++ [4, 1, 0, 0] ++
    [10, 0, 0, 0] ++ List.replicate 104 0) = some (36, 132) := by decide
example : gzipDataStart ([0x1f, 0x8b, 8, 8, 0, 0, 0, 0, 0, 3, 0x61, 0] ++ List.replicate 8 0) = some 12 := by decide
example : (LoadPost.Hdr.s3mHeader 2 255 99 100 true [0, 1, 2, 3] [0, 5, 254, 99]).map (fun c => coreWork c Gen.C03Hdr.s3mRows) = some 26053 := by decide
example : (LoadPost.Hdr.itHeader 300 99 99 200 128 false 63).map (fun c => (c.len, coreWork c 1024)) = some (256, 13107654) := by decide
example : Container.mmTable [1, 0, 0, 0, 2, 0, 0, 0] 2 0 = some [1, 2] := by decide
example : coreWorkCeiling = 16844287 := by decide

end Xmp.C02
