import XmpModel.MixLoop
import XmpModel.Gen.DepackLimits
import XmpProofs.MixWindow
/-!
# C02 — work and memory bounded by real input size

Proved here (for every behaviour of the unmodelled parts, which appear as
oracles): the per-voice segment loop of the software mixer runs at most
`2·ticksize` iterations and hands at most `ticksize` samples to the kernels per
voice and tick; a depacker growth request above the ceiling is refused; every
depacker that grows an output buffer carries a ceiling derived from
`LIBXMP_DEPACK_LIMIT` (generated list, re-proved on every run).

Termination / size theorems that live with other properties and are audited
there: scan fuel bound (C18), marker-skipping loop of `set_position` (C17),
tick size cap (C16), sample allocation ≤ bytes present + guard (C20).
CPU time and RSS of parsers and entropy decoders are measured by the search
(harness/c01_fuzz.c in `res` mode), not proved.
-/
namespace Xmp.MixLoop

/-- **C02_mixer_iterations**: for every oracle, `iterations ≤ size + usmp`;
with `size = usmp = ticksize` that is `2·ticksize`. -/
theorem C02_mixer_iterations_le (o : List Step) : ∀ (size usmp : Nat),
    iterations o size usmp ≤ size + usmp := by
  induction o with
  | nil => intros; simp [iterations]
  | cons s rest ih =>
    intro size usmp
    unfold iterations
    by_cases h0 : size = 0
    · simp [h0]
    · simp only [h0, if_false]
      cases s with
      | stop => dsimp only; omega
      | zero =>
        dsimp only
        by_cases h1 : usmp ≤ 1
        · simp only [h1, if_true]; omega
        · simp only [h1, if_false]
          have := ih size (usmp - 1)
          omega
      | some n =>
        dsimp only
        have := ih (size - max 1 (min n size)) usmp
        have hk : 1 ≤ max 1 (min n size) := Nat.le_max_left _ _
        have hk2 : max 1 (min n size) ≤ size := by
          apply Nat.max_le.mpr
          exact ⟨by omega, Nat.min_le_right _ _⟩
        omega

theorem C02_mixer_iterations (o : List Step) (ticksize : Nat) :
    iterations o ticksize ticksize ≤ 2 * ticksize := by
  have := C02_mixer_iterations_le o ticksize ticksize
  omega

/-- **C02_mixer_samples**: a voice never receives more than `size` samples in a tick. -/
theorem C02_mixer_samples (o : List Step) : ∀ (size usmp : Nat), mixed o size usmp ≤ size := by
  induction o with
  | nil => intros; simp [mixed]
  | cons s rest ih =>
    intro size usmp
    unfold mixed
    by_cases h0 : size = 0
    · simp [h0]
    · simp only [h0, if_false]
      cases s with
      | stop => dsimp only; omega
      | zero =>
        dsimp only
        by_cases h1 : usmp ≤ 1
        · simp only [h1, if_true]; omega
        · simp only [h1, if_false]; exact ih size (usmp - 1)
      | some n =>
        dsimp only
        have := ih (size - max 1 (min n size)) usmp
        have hk2 : max 1 (min n size) ≤ size := by
          apply Nat.max_le.mpr
          exact ⟨by omega, Nat.min_le_right _ _⟩
        omega

/-- **C02_grow_capped**: whatever a packed stream declares, a successful growth
step never exceeds the ceiling. -/
theorem C02_grow_capped (limit cur need n : Nat) (hcur : cur ≤ limit)
    (h : grow limit cur need = some n) : n ≤ limit ∧ need ≤ n := by
  unfold grow at h
  split at h
  · cases h
    constructor
    · exact Nat.max_le.mpr ⟨hcur, by assumption⟩
    · exact Nat.le_max_right _ _
  · cases h

/-- **C02_depack_limit_sites**: every depacker source that sizes an output
buffer from packed data and is in the capped class references a ceiling
derived from `LIBXMP_DEPACK_LIMIT` (list regenerated from /repo on every run). -/
theorem C02_depack_limit_sites :
    Xmp.Gen.DepackLimits.cappedClass.all (fun f =>
      Xmp.Gen.DepackLimits.sites.any (fun s => s.file == f && s.allocSites > 0 && !s.capTokens.isEmpty)) = true := by
  decide

/-- the ceiling itself is the documented 512 MiB -/
theorem C02_depack_limit_value : Xmp.Gen.DepackLimits.depackLimit = 512 * 1024 * 1024 := by decide

/-! Non-vacuity: an adversarial oracle alternating zero-length and 1-sample steps. -/
example : iterations [.zero, .some 1, .zero, .some 5, .zero, .zero, .stop] 4 4 = 4 := by decide
example : grow 100 10 60 = some 60 ∧ grow 100 10 101 = none := by decide

end Xmp.MixLoop
