import XmpModel.MixLoop
import XmpModel.Gen.DepackLimits
import XmpProofs.MixWindow
import XmpProps.C16
import XmpProps.C17
import XmpProps.C18
import XmpProps.C20
/-!
# C02 — work and memory bounded by real input size

Proved here (for every behaviour of the unmodelled parts, which appear as
oracles): the per-voice segment loop of the software mixer runs at most
`2·ticksize` iterations and hands at most `ticksize` samples to the kernels per
voice and tick; a depacker growth request above the ceiling is refused; every
depacker that grows an output buffer carries a ceiling derived from
`LIBXMP_DEPACK_LIMIT` (generated list, re-proved on every run).

Termination / size theorems that live with other properties (scan fuel bound
— C18, marker-skipping loop of `set_position` — C17, order-skipping loop of
`next_order` and tick size cap — C16, sample allocation ≤ bytes present + guard
— C20) are re-exported at the end of this file in C02's vocabulary
(`Xmp.C02.C02_*`), so that the audit of this module covers them too.
CPU time and RSS of parsers and entropy decoders are measured by the search
(harness/c01_fuzz.c in `res` mode), not proved.
-/
namespace Xmp.MixLoop

/-- **C02_mixer_iterations**: for every oracle, `iterations ≤ size + usmp`;
with `size = usmp = ticksize` that is `2·ticksize`. -/
theorem C02_mixer_iterations_le (o : List Step) : ∀ (size usmp : Nat),
    iterations o size usmp ≤ size + usmp := by
  induction o with
  | nil => intros; simp [iterations]
  | cons s rest ih =>
    intro size usmp
    unfold iterations
    by_cases h0 : size = 0
    · simp [h0]
    · simp only [h0, if_false]
      cases s with
      | stop => dsimp only; omega
      | zero =>
        dsimp only
        by_cases h1 : usmp ≤ 1
        · simp only [h1, if_true]; omega
        · simp only [h1, if_false]
          have := ih size (usmp - 1)
          omega
      | some n =>
        dsimp only
        have := ih (size - max 1 (min n size)) usmp
        have hk : 1 ≤ max 1 (min n size) := Nat.le_max_left _ _
        have hk2 : max 1 (min n size) ≤ size := by
          apply Nat.max_le.mpr
          exact ⟨by omega, Nat.min_le_right _ _⟩
        omega

theorem C02_mixer_iterations (o : List Step) (ticksize : Nat) :
    iterations o ticksize ticksize ≤ 2 * ticksize := by
  have := C02_mixer_iterations_le o ticksize ticksize
  omega

/-- **C02_mixer_samples**: a voice never receives more than `size` samples in a tick. -/
theorem C02_mixer_samples (o : List Step) : ∀ (size usmp : Nat), mixed o size usmp ≤ size := by
  induction o with
  | nil => intros; simp [mixed]
  | cons s rest ih =>
    intro size usmp
    unfold mixed
    by_cases h0 : size = 0
    · simp [h0]
    · simp only [h0, if_false]
      cases s with
      | stop => dsimp only; omega
      | zero =>
        dsimp only
        by_cases h1 : usmp ≤ 1
        · simp only [h1, if_true]; omega
        · simp only [h1, if_false]; exact ih size (usmp - 1)
      | some n =>
        dsimp only
        have := ih (size - max 1 (min n size)) usmp
        have hk2 : max 1 (min n size) ≤ size := by
          apply Nat.max_le.mpr
          exact ⟨by omega, Nat.min_le_right _ _⟩
        omega

/-- **C02_grow_capped**: whatever a packed stream declares, a successful growth
step never exceeds the ceiling. -/
theorem C02_grow_capped (limit cur need n : Nat) (hcur : cur ≤ limit)
    (h : grow limit cur need = some n) : n ≤ limit ∧ need ≤ n := by
  unfold grow at h
  split at h
  · cases h
    constructor
    · exact Nat.max_le.mpr ⟨hcur, by assumption⟩
    · exact Nat.le_max_right _ _
  · cases h

/-- **C02_depack_limit_sites**: every depacker source that sizes an output
buffer from packed data and is in the capped class references a ceiling
derived from `LIBXMP_DEPACK_LIMIT` (list regenerated from /repo on every run). -/
theorem C02_depack_limit_sites :
    Xmp.Gen.DepackLimits.cappedClass.all (fun f =>
      Xmp.Gen.DepackLimits.sites.any (fun s => s.file == f && s.allocSites > 0 && !s.capTokens.isEmpty)) = true := by
  decide

/-- the ceiling itself is the documented 512 MiB -/
theorem C02_depack_limit_value : Xmp.Gen.DepackLimits.depackLimit = 512 * 1024 * 1024 := by decide

/-! Non-vacuity: an adversarial oracle alternating zero-length and 1-sample steps. -/
example : iterations [.zero, .some 1, .zero, .some 5, .zero, .zero, .stop] 4 4 = 4 := by decide
example : grow 100 10 60 = some 60 ∧ grow 100 10 101 = none := by decide

end Xmp.MixLoop

/-! ## "Testing, loading, scanning and rendering one frame always return"

Re-exports of the termination and size theorems proved with the properties that own the models
(C16 sequencer/tick size, C17 position control, C18 scan, C20 sample loader), restated for C02:
each says that a loop whose trip count a file could try to inflate (order list full of markers,
self-referential jumps, declared sample lengths, tempo/rate combinations) is bounded by the real
size of the data or by a fixed limit of the library. -/
namespace Xmp.C02

/-- **C02_next_order_terminates** (rendering one frame, sequencer): the order-skipping loop of
`next_order` (`do { p->ord++ … } while (mod->xxo[p->ord] >= mod->pat)`, wrapping to the restart
position / entry point) ends within `len + 1 ≤ 257` iterations for every well-formed module whose
kept sequences reach a pattern, from every `p->ord ≥ -1` — no order list (all markers, all
out-of-range patterns behind the first valid one, jump targets past the list) makes it spin. -/
theorem C02_next_order_terminates {m : Seq.SeqMod} (h : Seq.WF m) (ho : Seq.OrdWF m) {seq : Int}
    (hs : 0 ≤ seq ∧ seq < m.numSeq) (ord : Int) (hord : -1 ≤ ord) (rg : Bool) :
    (Seq.nextOrderLoop m seq (m.len + 1).toNat ord rg).isSome = true ∧ (m.len + 1).toNat ≤ 257 := by
  obtain ⟨o, rg', e, _⟩ := Seq.C16_next_order_terminates h ho hs ord hord rg
  exact ⟨by rw [e]; rfl, by have := h.facts.len; omega⟩

/-- **C02_play_frame_returns**: hence every `xmp_play_frame` (sequencer kernel) returns, from
every state satisfying the boundary invariant and for all effect outcomes. -/
theorem C02_play_frame_returns {m : Seq.SeqMod} (h : Seq.WF m) (ho : Seq.OrdWF m) {s : Seq.St} (hc : Seq.Core m s)
    (eA eB : Seq.Eff) : Seq.playFrame m s eA eB ≠ .diverge :=
  (Seq.C16_frame_returns h ho hc eA eB).1

/-- **C02_set_position_terminates**: every position-control call (`xmp_set_position`,
`xmp_next_position`, `xmp_prev_position`, `xmp_seek_time`) returns: the marker-skipping loop of
`set_position` is bounded by `len + 1` whatever 0xfe/0xff markers the order list holds (the
former hang F5 is repaired in /repo). -/
theorem C02_set_position_terminates (m : Control.CMod) (s : Control.St) (he : ∀ q, 0 ≤ m.entry q) (p t : Int) :
    (Control.xmpSetPosition m s p).isSome = true ∧ (Control.xmpNextPosition m s).isSome = true ∧
    (Control.xmpPrevPosition m s).isSome = true ∧ (Control.xmpSeekTime m s t).isSome = true :=
  Control.C17_marker_skipping_terminates m s he p t

/-- **C02_scan_terminates** (scanning): `scan_module`'s outer loop ends within
`(len + 1)·514 + 1` iterations — a bound in the real length of the order list — whatever jumps,
breaks and pattern loops the patterns contain. -/
theorem C02_scan_terminates (m : LinFlow.LinMod) (ep chain : Nat) (ctl : List Nat) (info : List LinFlow.OrdInfo)
    (hrst : m.rst < m.len) (hep : ep < m.len) :
    (LinFlow.scanModule m ep chain ctl info).fuelOut = false ∧ LinFlow.scanFuel m = (m.len + 1) * 514 + 1 :=
  ⟨LinFlow.C18_scan_terminates m ep chain ctl info hrst hep, rfl⟩

/-- **C02_ticksize_bound** (rendering one frame, mixer): for ALL rates, time factors and tempos
the tick size is at most `XMP_MAX_FRAMESIZE / 4` frames and the output at most
`XMP_MAX_FRAMESIZE` bytes, so (`C02_mixer_iterations`) the per-voice segment loop runs at most
`XMP_MAX_FRAMESIZE / 2` iterations per tick — a fixed limit of the library. -/
theorem C02_ticksize_bound (freq tfN tfD rrN rrD bpm : Int) (mono bit8 : Bool) (o : List MixLoop.Step) :
    Tick.prepare freq tfN tfD rrN rrD bpm ≤ Tick.capTicks ∧
    Tick.bufferSize (Tick.prepare freq tfN tfD rrN rrD bpm) mono bit8 ≤ Gen.PlayerConsts.maxFramesize ∧
    MixLoop.iterations o (Tick.prepare freq tfN tfD rrN rrD bpm).toNat (Tick.prepare freq tfN tfD rrN rrD bpm).toNat
      ≤ 2 * Tick.capTicks.toNat := by
  have t := Tick.C16_ticksize freq tfN tfD rrN rrD bpm mono bit8
  have i := MixLoop.C02_mixer_iterations o (Tick.prepare freq tfN tfD rrN rrD bpm).toNat
  exact ⟨t.2.1, Tick.C16_framesize_bound freq tfN tfD rrN rrD bpm mono bit8, by have := t.2.1; omega⟩

/-- **C02_sample_alloc_le** (loading): what `libxmp_load_sample` allocates for one sample is
bounded by the bytes really present in the file (`2·avail + 20`, `4·avail + 20` for ADPCM), not
by the declared sample length; with `SAMPLE_FLAG_NOLOAD` by the caller's buffer. -/
theorem C02_sample_alloc_le (flags : Nat) (h : Sample.Hdr) (f : Option Bytes) (buffer : Bytes)
    (hbuf : Sample.BufferOk flags h buffer) :
    (Sample.fl flags Sample.Gen.SAMPLE_FLAG_NOLOAD = false →
      Sample.outBytes flags h f ≤ (if Sample.fl flags Sample.Gen.SAMPLE_FLAG_ADPCM then 2 * (Sample.avail f - 16) else Sample.avail f) ∧
      Sample.totalAlloc flags h f ≤ (if Sample.fl flags Sample.Gen.SAMPLE_FLAG_ADPCM then 4 * Sample.avail f else 2 * Sample.avail f) + 20) ∧
    (Sample.fl flags Sample.Gen.SAMPLE_FLAG_NOLOAD = true →
      Sample.outBytes flags h f ≤ buffer.length ∧ Sample.totalAlloc flags h f ≤ 2 * buffer.length + 20) :=
  Sample.alloc_le flags h f buffer hbuf

/-! Non-vacuity: the hypotheses of the re-exports are satisfiable (instances proved with the owners). -/
example := C02_next_order_terminates Seq.exMod_wf Seq.exMod_ordwf (seq := 0) (by decide) 2 (by decide) false
example : (Tick.prepare 49170 100 1 250 1 125, Tick.capTicks) = (6146, 6146) := by decide

end Xmp.C02
