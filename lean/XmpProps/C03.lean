import XmpProofs.LoadPost
import XmpProofs.LoadPostOblig
import XmpProofs.LoadPostHdr
import XmpProofs.LoadPostPlayer
import XmpProofs.LoadPostSweep
/-!
# C03 — A successfully loaded module is structurally well-formed

Model: `XmpModel/LoadPost.lean`.  `finish scan raw` is what `load_module`
(src/load.c) does after the format loader returned success: sanity gate,
`libxmp_adjust_string`, `libxmp_load_epilogue`, `libxmp_prepare_scan`,
`libxmp_scan_sequences`.  `raw : Module` is ARBITRARY (whatever a loader left
behind: NULL entries, out-of-range numbers), `scan : Nat → ScanRes` is an
ARBITRARY behaviour of `scan_module` (call `k` marks any orders and returns any
time).  `WF` is the statement of C03 clause by clause (a `Bool`, evaluated by
the driver on dumps of really loaded modules); `WFCommon` is the part the
common path is responsible for.

Full statement: `load returns 0 → WF m`.  Proved here:
* `C03_finish_wf`: `WFCommon m` for every raw module and every scan behaviour (the clauses the
  common path establishes by itself, now including ordered loop points inside the data for EVERY
  sample with data, looped or not);
* `C03_finish_full`: the FULL `WF m` under the named decidable loader obligations
  `LoaderOblig raw` (rows ≥ 1, sub-instrument arrays allocated, sample length ≥ 0 and guard frames,
  envelope points not negative, names terminated, restart ≥ 0), and `C03_oblig_necessary`: every
  obligation except `names` is also necessary.  The check evaluates `LoaderOblig` on the raw module
  of every real load;
* `C03_hdr_mod/s3m/xm/it`, `C03_hdr_rows`, `C03_count_oblig`: for EVERY header the four core
  loaders accept, the counts they leave pass the gate and need no clamp; pattern rows in range;
* `C03_player_sub/sample/trusted`: the player's guards render out-of-range instrument / key /
  sub-instrument / sample references harmless;
* `Sweep.nameCopies_bounded`, `Sweep.rowStores_guarded` (XmpProofs/LoadPostSweep.lean): every write into a
  public name array in src/loaders/*.c whose byte count is syntactically visible leaves the array
  terminated, and every hand-rolled store to a row count excludes 0 (generated site lists);
* the sequence clauses at full strength, names, `C03_helpers_*`, `allocSites_known`.
NOT proved (evaluated on real loads only): that the ~110 format loaders meet `LoaderOblig`
beyond their header counts (pattern / instrument / sample bodies, `libxmp_load_sample` = C20).
-/
namespace Xmp.LoadPost
open Xmp.Gen.Limits

/-- **C03_finish_wf**: whenever the common post-load path succeeds, the module
satisfies every clause of `WFCommon` — for arbitrary loader output and arbitrary
`scan_module` behaviour. -/
theorem C03_finish_wf (scan : Nat → ScanRes) (raw m : Module) (h : finish scan raw = .ok m) :
    WFCommon m = true := by
  obtain ⟨hg, p, hp, hs⟩ := finish_ok h
  obtain ⟨_, g2, g3, _, g5⟩ := gate_spec hg
  obtain ⟨_, _, hcase⟩ := prepareScan_ok hp
  obtain ⟨st, hst, hm⟩ := scanSequences_ok hs
  have l1 := @clampC_ge raw.len 0 xmpMaxModLength (by omega)
  have l2 := @clampC_le raw.len 0 xmpMaxModLength (by omega)
  have hplen : p.len = clampC raw.len 0 xmpMaxModLength ∨ p.len = 0 := by
    rcases hcase with hc | ⟨_, _, hc⟩ <;> subst hc
    · right; rfl
    · left; rfl
  have hlen : p.len.toNat ≤ xmpMaxModLength := by
    rcases hplen with h' | h' <;> rw [h'] <;> omega
  obtain ⟨s1, s2, s3, s4, s5, s6, s7, s8, s9, _, _⟩ := scanCore_spec scan _ hlen st hst
  have hseq := sequences_of (m := m) (st := st) (len := p.len.toNat) (by subst hm; rfl) hlen
    (by subst hm; rfl) (by subst hm; rfl) (by subst hm; rfl) s1 s2 s3 s4 s5 s6 s7 s8 s9
  have hcounts : countsOK m = true := by
    apply countsOK_of (a := adjustNames raw)
    · subst hm; rcases hcase with hc | ⟨_, _, hc⟩ <;> subst hc <;> rfl
    · subst hm; rcases hcase with hc | ⟨_, _, hc⟩ <;> subst hc
      · right; rfl
      · left; rfl
    · subst hm; rcases hcase with hc | ⟨_, _, hc⟩ <;> subst hc <;> rfl
    · subst hm; rcases hcase with hc | ⟨_, _, hc⟩ <;> subst hc <;> rfl
    · subst hm; rcases hcase with hc | ⟨_, _, hc⟩ <;> subst hc <;> rfl
  have hpats : patternsOK m = true := by
    apply patterns_of (raw := raw)
    · subst hm; rcases hcase with hc | ⟨_, _, hc⟩ <;> subst hc <;> rfl
    · subst hm; rcases hcase with hc | ⟨_, _, hc⟩ <;> subst hc <;> rfl
    · subst hm; rcases hcase with hc | ⟨_, _, hc⟩ <;> subst hc <;> rfl
    · subst hm; rcases hcase with hc | ⟨_, _, hc⟩ <;> subst hc <;> rfl
    · intro i q hq
      subst hm; rcases hcase with hc | ⟨_, _, hc⟩ <;> subst hc
      · exact hq
      · exact pattern?_prepareXxp (epilogue (adjustNames raw)) i q hq _ rfl
    · exact g5
  have hrst : rstUpperOK m = true := by
    apply rstUpper_of (a := adjustNames raw)
    · subst hm; rcases hcase with hc | ⟨_, _, hc⟩ <;> subst hc
      · right; rfl
      · left; rfl
    · subst hm; rcases hcase with hc | ⟨_, _, hc⟩ <;> subst hc <;> rfl
  have hspd : spdOK m = true := by
    apply spdOK_of (a := adjustNames raw)
    subst hm; rcases hcase with hc | ⟨_, _, hc⟩ <;> subst hc <;> rfl
  have hbpm : bpmOK m = true := by
    apply bpmOK_of (a := adjustNames raw)
    subst hm; rcases hcase with hc | ⟨_, _, hc⟩ <;> subst hc <;> rfl
  have hchan : channelsOK m = true := by
    apply channels_of (raw := raw) _ _ g3
    · subst hm; rcases hcase with hc | ⟨_, _, hc⟩ <;> subst hc <;> rfl
    · subst hm; rcases hcase with hc | ⟨_, _, hc⟩ <;> subst hc <;> rfl
  have henv : envelopesUpperOK m = true := by
    apply envelopesUpper_of (a := adjustNames raw)
    · subst hm; rcases hcase with hc | ⟨_, _, hc⟩ <;> subst hc <;> rfl
    · subst hm; rcases hcase with hc | ⟨_, _, hc⟩ <;> subst hc <;> rfl
    · subst hm; rcases hcase with hc | ⟨_, _, hc⟩ <;> subst hc <;> rfl
  have hsus : sustainOK m = true := by
    apply sustain_of (a := adjustNames raw)
    · subst hm; rcases hcase with hc | ⟨_, _, hc⟩ <;> subst hc <;> rfl
    · subst hm; rcases hcase with hc | ⟨_, _, hc⟩ <;> subst hc <;> rfl
    · subst hm; rcases hcase with hc | ⟨_, _, hc⟩ <;> subst hc <;> rfl
  have hloops : sampleLoopsOK m = true := by
    apply sampleLoops_of (a := adjustNames raw)
    · subst hm; rcases hcase with hc | ⟨_, _, hc⟩ <;> subst hc <;> rfl
    · subst hm; rcases hcase with hc | ⟨_, _, hc⟩ <;> subst hc <;> rfl
  have hord : ordersOK m = true := by
    apply orders_of (e := epilogue (adjustNames raw))
    subst hm; rcases hcase with hc | ⟨hf, _, hc⟩ <;> subst hc
    · left; rfl
    · right; exact ⟨rfl, hf, rfl, rfl⟩
  have hranges : sampleRangesOK m = true := by
    apply sampleRanges_of (a := adjustNames raw)
    · subst hm; rcases hcase with hc | ⟨_, _, hc⟩ <;> subst hc <;> rfl
    · subst hm; rcases hcase with hc | ⟨_, _, hc⟩ <;> subst hc <;> rfl
  simp only [WFCommon, Bool.and_eq_true]
  exact ⟨⟨⟨⟨⟨⟨⟨⟨⟨⟨⟨⟨hcounts, hpats⟩, hrst⟩, hspd⟩, hbpm⟩, hchan⟩, henv⟩, hsus⟩, hord⟩, hseq.1⟩, hseq.2⟩, hloops⟩, hranges⟩


/-- **C03_sequences**: after `libxmp_scan_sequences`, unless the order list is
empty there are between 1 and MAX_SEQUENCES sequences, their entry points are
pairwise distinct and inside the order list, durations are non-negative, and
every order belongs to no sequence (0xff) or to an existing one — the clause
`xmp_set_position` / `xmp_play_frame` rely on when they index `p->scan[]`
(this is the F1 repair in src/scan.c; it did not hold before). -/
theorem C03_sequences (scan : Nat → ScanRes) (raw m : Module) (h : finish scan raw = .ok m) (hl : 0 < m.len) :
    1 ≤ m.numSeq ∧ m.numSeq ≤ maxSequences ∧ m.seqData.length = m.numSeq
    ∧ (∀ p ∈ m.seqData, (p.1 : Int) < m.len ∧ 0 ≤ p.2)
    ∧ (m.seqData.map (·.1)).Nodup
    ∧ ∀ ord : Nat, (ord : Int) < m.len → ∃ c, m.seqCtl[ord]? = some c ∧ (c = 0xff ∨ c < m.numSeq) := by
  have hw := C03_finish_wf scan raw m h
  simp only [WFCommon, Bool.and_eq_true] at hw
  obtain ⟨⟨⟨⟨_, hs⟩, hc⟩, _⟩, _⟩ := hw
  simp only [sequencesOK, Bool.or_eq_true, Bool.and_eq_true, decide_eq_true_eq, List.all_eq_true] at hs
  rcases hs with hs | ⟨⟨⟨⟨h1, h2⟩, h3⟩, h4⟩, h5⟩
  · omega
  · refine ⟨h1, h2, h3, h4, h5, ?_⟩
    intro ord ho
    have := allBelow_iff.mp hc ord ho
    cases hq : m.seqCtl[ord]? with
    | none => simp [hq] at this
    | some c =>
      refine ⟨c, rfl, ?_⟩
      simpa [hq] using this

/-- **C03_sequences_own**: the first sequence starts at order 0, and the entry
point of sequence `i` belongs to sequence `i` (so `xmp_set_position` onto an entry
point selects that sequence's scan data). -/
theorem C03_sequences_own (scan : Nat → ScanRes) (raw m : Module) (h : finish scan raw = .ok m) (hl : 0 < m.len) :
    (m.seqData.head?).map (·.1) = some 0
    ∧ ∀ i (hi : i < m.seqData.length), m.seqCtl[(m.seqData[i]).1]? = some i := by
  obtain ⟨hg, p, hp, hs⟩ := finish_ok h
  obtain ⟨_, _, hcase⟩ := prepareScan_ok hp
  obtain ⟨st, hst, hm⟩ := scanSequences_ok hs
  have l1 := @clampC_ge raw.len 0 xmpMaxModLength (by omega)
  have l2 := @clampC_le raw.len 0 xmpMaxModLength (by omega)
  have hplen : p.len = clampC raw.len 0 xmpMaxModLength ∨ p.len = 0 := by
    rcases hcase with hc | ⟨_, _, hc⟩ <;> subst hc
    · right; rfl
    · left; rfl
  have hlen : p.len.toNat ≤ xmpMaxModLength := by
    rcases hplen with h' | h' <;> rw [h'] <;> omega
  obtain ⟨_, _, s3, s4, s5, _, _, s8, _, s10, s11⟩ := scanCore_spec scan _ hlen st hst
  have hmlen : m.len = p.len := by subst hm; rfl
  have hd : m.seqData = st.eps.zip st.times := by subst hm; rfl
  have hc : m.seqCtl = st.ctl := by subst hm; rfl
  have hpos : 0 < p.len.toNat := by omega
  constructor
  · rw [hd]
    cases he : st.eps with
    | nil => rw [he] at s10; simp at s10
    | cons e es =>
      rw [he] at s10 s3
      cases ht : st.times with
      | nil => rw [ht] at s4; simp at s3 s4; omega
      | cons t ts => simp at s10; subst s10; simp
  · intro i hi
    rw [hd] at hi
    have hi1 : i < st.eps.length := by rw [List.length_zip] at hi; omega
    have hel : st.eps[i] < p.len.toNat := s5 hpos _ (List.getElem_mem hi1)
    have hv := s11 i hi1 hel
    have hfst : (m.seqData[i]).1 = st.eps[i] := by
      simp only [hd, List.getElem_zip]
    rw [hfst, hc]
    have hlt : st.eps[i] < st.ctl.length := by omega
    simp only [List.getD_eq_getElem?_getD, List.getElem?_eq_getElem hlt, Option.getD_some] at hv
    rw [List.getElem?_eq_getElem hlt, hv]

/-- The `while (1)` loop of `libxmp_scan_sequences` is modelled with `len + 1`
units of fuel; it always leaves through one of the C's two `break` conditions
(no free order left, or MAX_SEQUENCES reached), never because the fuel ran out. -/
theorem C03_scan_loop_fuel (scan : Nat → ScanRes) (len : Nat) (hlen : len ≤ xmpMaxModLength) (st : SeqState)
    (inv : SeqInv len st) :
    firstFree len (seqLoop scan len (len + 1) st).ctl = none ∨ ¬ (seqLoop scan len (len + 1) st).seq < maxSequences :=
  seqLoop_exit scan len hlen (len + 1) st inv (by have := freeCount_le len st.ctl; omega)

/-- **C03_finish_rc**: the path fails with `-XMP_ERROR_LOAD` whenever the gate
rejects, and a result is only produced when the gate accepted and both tables
exist. -/
theorem C03_finish_rc (scan : Nat → ScanRes) (raw : Module) :
    (gate raw = false → finish scan raw = .error .load)
    ∧ (∀ m, finish scan raw = .ok m → gate raw = true ∧ raw.xxp.isSome = true ∧ raw.xxt.isSome = true)
    ∧ Err.load.code = -4 ∧ Err.system.code = -6 := by
  refine ⟨?_, ?_, by decide, by decide⟩
  · intro hg; unfold finish; simp [hg]
  · intro m h
    obtain ⟨hg, p, hp, _⟩ := finish_ok h
    obtain ⟨h1, h2, _⟩ := prepareScan_ok hp
    exact ⟨hg, h1, h2⟩

/-- **C03_names**: names that are NUL-terminated when the loader returns are
NUL-terminated afterwards (`libxmp_adjust_string` never grows a string), and the
arrays keep their size. -/
theorem C03_names (scan : Nat → ScanRes) (raw m : Module) (h : finish scan raw = .ok m)
    (hn : hasNul raw.name = true) (ht : hasNul raw.typ = true)
    (hi : ∀ x ∈ raw.xxi, hasNul x.name = true) (hs : ∀ x ∈ raw.xxs, hasNul x.name = true)
    (hil : raw.ins.toNat ≤ raw.xxi.length) (hsl : raw.smp.toNat ≤ raw.xxs.length) :
    namesOK m = true ∧ m.name.length = raw.name.length := by
  obtain ⟨hg, p, hp, hsq⟩ := finish_ok h
  obtain ⟨_, _, hcase⟩ := prepareScan_ok hp
  obtain ⟨st, _, hm⟩ := scanSequences_ok hsq
  have hname : m.name = adjustString raw.name := by
    subst hm; rcases hcase with hc | ⟨_, _, hc⟩ <;> subst hc <;> rfl
  have htyp : m.typ = raw.typ := by
    subst hm; rcases hcase with hc | ⟨_, _, hc⟩ <;> subst hc <;> rfl
  have hins : m.ins = clampC raw.ins 0 epiInsMax := by
    subst hm; rcases hcase with hc | ⟨_, _, hc⟩ <;> subst hc <;> rfl
  have hsmp : m.smp = clampC raw.smp 0 maxSamples := by
    subst hm; rcases hcase with hc | ⟨_, _, hc⟩ <;> subst hc <;> rfl
  have hxxi : m.xxi = (raw.xxi.mapIdx fun i x =>
      if (i : Int) < raw.ins then { x with name := adjustString x.name } else x).mapIdx fun i x =>
      if (i : Int) < clampC raw.ins 0 epiInsMax then epilogueIns raw.volbase raw.insvol x else x := by
    subst hm; rcases hcase with hc | ⟨_, _, hc⟩ <;> subst hc <;> rfl
  have hxxs : ∀ i : Nat, (m.xxs[i]?).map (·.name) = (raw.xxs[i]?).map fun x =>
      if (i : Int) < raw.smp then adjustString x.name else x.name := by
    intro i
    have : m.xxs = (adjustNames raw).xxs.mapIdx
        (smpStepS (clampC raw.smp 0 maxSamples) (adjustNames raw).xtra) := by
      subst hm; rcases hcase with hc | ⟨_, _, hc⟩ <;> subst hc <;> rfl
    rw [this]
    simp only [adjustNames, List.getElem?_mapIdx, Option.map_map]
    cases raw.xxs[i]? with
    | none => rfl
    | some x =>
      simp only [Option.map_some, Function.comp]
      rw [smpStepS_name]
      split <;> rfl
  refine ⟨?_, by rw [hname, adjustString_length]⟩
  simp only [namesOK, Bool.and_eq_true]
  refine ⟨⟨⟨by rw [hname]; exact adjustString_hasNul _ hn, by rw [htyp]; exact ht⟩, ?_⟩, ?_⟩
  · rw [allBelow_iff]
    intro i hlt
    have hi1 : (i : Int) < raw.ins := clampC_lt_imp (hins ▸ hlt)
    have hi2 : i < raw.xxi.length := by omega
    rw [hxxi]
    simp only [List.getElem?_mapIdx, List.getElem?_eq_getElem hi2, Option.map_some, hi1, if_true]
    have hmem := hi _ (List.getElem_mem hi2)
    split
    · exact adjustString_hasNul _ hmem
    · exact adjustString_hasNul _ hmem
  · rw [allBelow_iff]
    intro i hlt
    have hi1 : (i : Int) < raw.smp := clampC_lt_imp (hsmp ▸ hlt)
    have hi2 : i < raw.xxs.length := by omega
    have := hxxs i
    rw [List.getElem?_eq_getElem hi2] at this
    cases hq : m.xxs[i]? with
    | none => simp [hq] at this
    | some sx =>
      simp only [hq, Option.map_some, hi1, if_true, Option.some.injEq] at this
      simp only
      rw [this]
      exact adjustString_hasNul _ (hs _ (List.getElem_mem hi2))

/-- non-negative loop / sustain points -/
def envNonneg (e : Envelope) : Prop := 0 ≤ e.lps ∧ 0 ≤ e.lpe ∧ 0 ≤ e.sus ∧ 0 ≤ e.sue

/-- **C03_nonneg**: the common path never lowers a restart position or an
envelope point below what the loader stored, so with the loaders' contract
(these fields are read from unsigned file fields) the full clauses `rst` and
`envelopes` of `WF` hold too.  (The gate does not test them: a negative restart
position would pass, see the report.) -/
theorem C03_nonneg (scan : Nat → ScanRes) (raw m : Module) (h : finish scan raw = .ok m)
    (hr : 0 ≤ raw.rst) (he : ∀ x ∈ raw.xxi, envNonneg x.aei ∧ envNonneg x.pei ∧ envNonneg x.fei)
    (hil : raw.ins.toNat ≤ raw.xxi.length) :
    rstOK m = true ∧ envelopesOK m = true := by
  have hw := C03_finish_wf scan raw m h
  obtain ⟨hg, p, hp, hsq⟩ := finish_ok h
  obtain ⟨_, _, hcase⟩ := prepareScan_ok hp
  obtain ⟨st, _, hm⟩ := scanSequences_ok hsq
  have hrst : m.rst = if raw.rst ≥ clampC raw.len 0 xmpMaxModLength then 0 else raw.rst := by
    subst hm; rcases hcase with hc | ⟨_, _, hc⟩ <;> subst hc <;> rfl
  have hins : m.ins = clampC raw.ins 0 epiInsMax := by
    subst hm; rcases hcase with hc | ⟨_, _, hc⟩ <;> subst hc <;> rfl
  have hxxi : m.xxi = (raw.xxi.mapIdx fun i x =>
      if (i : Int) < raw.ins then { x with name := adjustString x.name } else x).mapIdx fun i x =>
      if (i : Int) < clampC raw.ins 0 epiInsMax then epilogueIns raw.volbase raw.insvol x else x := by
    subst hm; rcases hcase with hc | ⟨_, _, hc⟩ <;> subst hc <;> rfl
  constructor
  · simp only [WFCommon, Bool.and_eq_true] at hw
    simp only [rstOK, Bool.and_eq_true, decide_eq_true_eq]
    refine ⟨?_, hw.1.1.1.1.1.1.1.1.1.1.2⟩
    rw [hrst]; split <;> omega
  · unfold envelopesOK
    rw [allBelow_iff]
    intro i hlt
    have hi1 : (i : Int) < raw.ins := clampC_lt_imp (hins ▸ hlt)
    have hi2 : i < raw.xxi.length := by omega
    have hlt' : (i : Int) < clampC raw.ins 0 epiInsMax := hins ▸ hlt
    rw [hxxi]
    simp only [List.getElem?_mapIdx, List.getElem?_eq_getElem hi2, Option.map_some, hi1, hlt', if_true]
    obtain ⟨h1, h2, h3⟩ := he _ (List.getElem_mem hi2)
    simp only [Bool.and_eq_true]
    exact ⟨⟨checkEnvelope_envOK _ h1, checkEnvelope_envOK _ h2⟩, checkEnvelope_envOK _ h3⟩

/-- a minimal raw module meeting every obligation -/
def exRawMin : Module :=
  { name := [0x41, 0], pat := 1, trk := 1, chn := 1, ins := 0, smp := 0, spd := 6, bpm := 125, len := 1, rst := 0,
    gvl := 0, xxp := some [some { rows := 4, index := [0] }], xxt := some [some { rows := 4 }], xxi := [], xxs := [],
    xtra := [], xxc := List.replicate 64 { pan := 0x80, vol := 0x40, flg := 0 }, xxo := List.replicate 256 0,
    insvol := false, volbase := 0x40, gvol := 0x40 }

/-- **C03_finish_full**: the FULL statement of C03.  Whenever the common
post-load path succeeds on a raw module that meets the loader obligations
(`LoaderOblig`: rows ≥ 1 for every pattern and referenced track, sub-instrument
arrays allocated, samples with data have a non-negative length and readable guard
frames, loop / sustain points of envelopes that survive `check_envelope` are not
negative, names are NUL-terminated, restart position not negative), every clause
of `WF` holds — for arbitrary `scan_module` behaviour.  `LoaderOblig` is the
predicate the check evaluates on the raw module of every real load. -/
theorem C03_finish_full (scan : Nat → ScanRes) (raw m : Module) (h : finish scan raw = .ok m)
    (ho : LoaderOblig raw = true) : WF m = true := by
  have hw := C03_finish_wf scan raw m h
  have sh := finish_shape h
  simp only [LoaderOblig, obligClauses, List.all_cons, List.all_nil, Bool.and_true, Bool.and_eq_true,
    decide_eq_true_eq] at ho
  obtain ⟨o1, o2, o3, o4, o5, o6⟩ := ho
  simp only [WFCommon, Bool.and_eq_true] at hw
  obtain ⟨⟨⟨⟨⟨⟨⟨⟨⟨⟨⟨⟨c1, c2⟩, c3⟩, c4⟩, c5⟩, c6⟩, c7⟩, c8⟩, c9⟩, c10⟩, c11⟩, c12⟩, c13⟩ := hw
  have hrst : rstOK m = true := by
    simp only [rstOK, Bool.and_eq_true, decide_eq_true_eq]
    exact ⟨rst_of sh o6, c3⟩
  simp only [WF, wfClauses, List.all_cons, List.all_nil, Bool.and_true, Bool.and_eq_true]
  exact ⟨c1, c2, rows_of sh o1, subs_of sh o2, samples_of sh o3, envelopes_of sh o4, names_of sh o5, hrst,
    c4, c5, c10, c11, c6, c9, c8, c7, c3, c12, c13⟩

/-- **C03_oblig_necessary**: conversely, every clause of `LoaderOblig` except
`names` is implied by `WF` of the loaded module: when the check reports an
obligation failure on the raw module of a real load, the property itself fails
on that load (no false alarm).  (`names`: a raw name without NUL makes
`libxmp_adjust_string` read past the array — undefined behaviour the model does
not reproduce.) -/
theorem C03_oblig_necessary (scan : Nat → ScanRes) (raw m : Module) (h : finish scan raw = .ok m)
    (hw : WF m = true) : ∀ c ∈ obligClauses raw, c.1 ≠ "names" → c.2 = true := by
  have sh := finish_shape h
  obtain ⟨hg, _⟩ := finish_ok h
  obtain ⟨_, _, _, _, g5⟩ := gate_spec hg
  simp only [WF, wfClauses, List.all_cons, List.all_nil, Bool.and_true, Bool.and_eq_true] at hw
  obtain ⟨_, _, w3, w4, w5, w6, _, w8, _⟩ := hw
  simp only [rstOK, Bool.and_eq_true, decide_eq_true_eq] at w8
  intro c hc hn
  simp only [obligClauses, List.mem_cons, List.not_mem_nil, or_false] at hc
  rcases hc with rfl | rfl | rfl | rfl | rfl | rfl
  · exact rows_conv sh g5 w3
  · exact subs_conv sh w4
  · exact samples_conv sh w5
  · exact envelopes_conv sh w6
  · exact absurd rfl hn
  · simp only [decide_eq_true_eq]; exact rst_conv sh w8.1

/-- **C03_finish_full_vblank**: the same with the CIA/VBlank comparison of
`libxmp_scan_sequences` (`compare_vblank_scan`) in the path: it only changes which
behaviour of `scan_module` the bookkeeping sees, and the theorems hold for all. -/
theorem C03_finish_full_vblank (cv : Bool) (scan : Nat → ScanRes) (raw m : Module)
    (h : finishV cv scan raw = .ok m) :
    WFCommon m = true ∧ (LoaderOblig raw = true → WF m = true) :=
  ⟨C03_finish_wf (vblankScan cv scan) raw m h, C03_finish_full (vblankScan cv scan) raw m h⟩

/-- **C03_vblank_first**: what `compare_vblank_scan` keeps: without the comparison
the first scan itself, with it the shorter of the two scans of order 0 (the first
one on a tie); later calls are the remaining scans in order. -/
theorem C03_vblank_first (cv : Bool) (scan : Nat → ScanRes) :
    (¬ (cv = true ∧ (scan 0).time ≥ (vblankTimeThreshold : Int)) → vblankScan cv scan = scan)
    ∧ (cv = true → (scan 0).time ≥ (vblankTimeThreshold : Int) →
        (vblankScan cv scan 0 = scan 0 ∨ vblankScan cv scan 0 = scan 1)
        ∧ (vblankScan cv scan 0).time ≤ (scan 0).time ∧ (vblankScan cv scan 0).time ≤ (scan 1).time
        ∧ ∀ k, vblankScan cv scan (k + 1) = scan (k + 2)) := by
  constructor
  · intro hn
    unfold vblankScan
    split
    · rename_i hc
      simp only [Bool.and_eq_true, decide_eq_true_eq] at hc
      exact absurd hc hn
    · rfl
  · intro hc ht
    have hcond : (cv && decide ((scan 0).time ≥ (vblankTimeThreshold : Int))) = true := by
      simp only [Bool.and_eq_true, decide_eq_true_eq]; exact ⟨hc, ht⟩
    unfold vblankScan
    rw [if_pos hcond]
    refine ⟨?_, ?_, ?_, ?_⟩
    · simp only [if_true]; split
      · left; rfl
      · right; rfl
    · simp only [if_true]; split <;> omega
    · simp only [if_true]; split <;> omega
    · intro k; simp

/-- non-vacuity of `C03_finish_full`: `exRaw` (below) meets the obligations and loads -/
example : ∃ raw m, finish (fun _ => { marks := [], time := 480 }) raw = .ok m ∧ LoaderOblig raw = true :=
  ⟨{ name := [0x41, 0], pat := 1, trk := 1, chn := 1, ins := 1, smp := 1, spd := 6, bpm := 125, len := 1, rst := 0,
     gvl := 0, xxp := some [some { rows := 4, index := [0] }], xxt := some [some { rows := 4 }]
     xxi := [{ name := [0x58, 0], vol := 3, nsm := 1, sub := some [9]
               aei := { on := true, fsus := true, floop := true, other := 0, npt := 2, sus := 1, sue := 5,
                        lps := 0, lpe := 1, data := [0, 70, 10, -3] }
               pei := default, fei := default }]
     xxs := [{ name := [0], len := 100, lps := 0, lpe := 120, floop := true, fsloop := false, fsloopBidir := false,
               other := 0, hasData := true }]
     xtra := [{ sus := 0, sue := 0 }], xxc := List.replicate 64 { pan := 0x80, vol := 0x40, flg := 0 }
     xxo := List.replicate 256 0, insvol := false, volbase := 0x40, gvol := 0x40 }, _, rfl, by decide +kernel⟩

/-- the obligations are not implied by a successful `finish`: a 0-row pattern passes the
gate and the whole path, and the result is not well-formed -/
example :
    let raw : Module := { exRawMin with xxp := some [some { rows := 0, index := [0] }] }
    (finish (fun _ => { marks := [], time := 480 }) raw).toOption.map (fun m => (WFCommon m, WF m, LoaderOblig raw))
      = some (true, false, false) := by
  decide +kernel

/-! ## Allocation helpers of loaders/common.c -/

/-- `libxmp_alloc_track`: a track allocated by the helper has at least one row
and lands in a free slot inside the table. -/
theorem C03_helpers_track (trk : Int) (slotFree : Bool) (num rows : Int) (t : Track)
    (h : allocTrack trk slotFree num rows = some t) :
    1 ≤ t.rows ∧ t.rows = rows ∧ 0 ≤ num ∧ num < trk ∧ slotFree = true := by
  unfold allocTrack at h
  split at h
  · cases h
  · rename_i hc
    injection h with h
    subst h
    simp only [not_or, Int.not_lt, Int.not_le, Bool.not_eq_true, Bool.not_eq_false'] at hc
    refine ⟨by show 1 ≤ rows; omega, rfl, by omega, by omega, ?_⟩
    cases slotFree <;> simp_all

theorem filterMap_id_length {α} (l : List (Option α)) (h : ∀ o ∈ l, o.isSome = true) :
    (l.filterMap id).length = l.length := by
  induction l with
  | nil => rfl
  | cons a rest ih =>
    cases a with
    | none => have := h none (by simp); simp at this
    | some v =>
      simp only [List.filterMap_cons, id, List.length_cons]
      rw [ih (fun o ho => h o (List.mem_cons_of_mem _ ho))]

/-- `libxmp_alloc_pattern_tracks` (`limit` = 256) and `…_long` (`limit` =
32768): the pattern has `1 ≤ rows ≤ limit`, one index per channel, and every
track it references was allocated with the same, positive number of rows inside
the track table. -/
theorem C03_helpers_pattern (limit pat trk chn : Int) (slotFree : Bool) (free : Int → Bool) (num rows : Int)
    (p : Pattern) (ts : List Track)
    (h : allocPatternTracks limit pat trk chn slotFree free num rows = some (p, ts)) :
    1 ≤ p.rows ∧ p.rows ≤ limit ∧ p.index.length = chn.toNat ∧ ts.length = chn.toNat
    ∧ (∀ t ∈ ts, t.rows = p.rows ∧ 1 ≤ t.rows)
    ∧ (∀ t ∈ p.index, 0 ≤ t ∧ t < trk) := by
  unfold allocPatternTracks at h
  split at h
  · cases h
  · rename_i hr
    split at h
    · cases h
    · simp only at h
      split at h
      · rename_i hall
        injection h with h
        injection h with hp hts
        subst hp
        rw [List.all_eq_true] at hall
        have hsome : ∀ i, i < chn.toNat →
            ∃ t, allocTrack trk (free (num * chn + (i : Int))) (num * chn + (i : Int)) rows = some t := by
          intro i hi
          have := hall (allocTrack trk (free (num * chn + (i : Int))) (num * chn + (i : Int)) rows)
            (List.mem_map.mpr ⟨i, List.mem_range.mpr hi, rfl⟩)
          cases hq : allocTrack trk (free (num * chn + (i : Int))) (num * chn + (i : Int)) rows with
          | none => simp [hq] at this
          | some t => exact ⟨t, rfl⟩
        refine ⟨by show 1 ≤ rows; omega, by show rows ≤ limit; omega, by simp, ?_, ?_, ?_⟩
        · subst hts
          rw [filterMap_id_length _ hall]
          simp
        · intro t ht
          subst hts
          simp only [List.mem_filterMap, List.mem_map, List.mem_range, id] at ht
          obtain ⟨o, ⟨i, _, hi⟩, ho⟩ := ht
          subst ho
          have := C03_helpers_track _ _ _ _ t hi
          exact ⟨this.2.1, this.1⟩
        · intro t ht
          simp only [List.mem_map, List.mem_range] at ht
          obtain ⟨i, hi, rfl⟩ := ht
          obtain ⟨t', ht'⟩ := hsome i hi
          have := C03_helpers_track _ _ _ _ t' ht'
          exact ⟨this.2.2.1, this.2.2.2.1⟩
      · cases h


/-! ## Header-count validation of the four core loaders

`Hdr.modHeader`, `Hdr.s3mHeader`, `Hdr.xmHeader`, `Hdr.itHeader` mirror what
mod_load.c / s3m_load.c / xm_load.c / it_load.c accept and which counts they write
(limits regenerated from the sources into `Gen/C03Hdr.lean`, behaviour compared
with the real loaders on boundary-probing files by the check).  For EVERY header:
an accepted header yields counts that meet `Hdr.CountOblig` — the gate's count
test passes and the epilogue has nothing to clamp. -/
section Headers
open Hdr Xmp.Gen.C03Hdr

/-- the clauses of `CountOblig` with the limits spelled out -/
theorem countOblig_of (c : Counts) (h1 : 0 ≤ c.chn) (h2 : c.chn ≤ 64) (h3 : 0 ≤ c.len) (h4 : c.len ≤ 256)
    (h5 : 0 ≤ c.pat) (h6 : c.pat ≤ 257) (h7 : 0 ≤ c.ins) (h8 : c.ins ≤ 255) (h9 : 0 ≤ c.smp) (h10 : c.smp ≤ 1024)
    (h11 : 0 ≤ c.trk) (h12 : 0 ≤ c.rst) : CountOblig c = true := by
  have e1 : (xmpMaxChannels : Int) = 64 := rfl
  have e2 : (xmpMaxModLength : Int) = 256 := rfl
  have e3 : (epiPatMax : Int) = 257 := rfl
  have e4 : (epiInsMax : Int) = 255 := rfl
  have e5 : (maxSamples : Int) = 1024 := rfl
  simp only [CountOblig, Bool.and_eq_true, decide_eq_true_eq, e1, e2, e3, e4, e5]
  exact ⟨⟨⟨⟨⟨⟨⟨⟨⟨⟨⟨h1, h2⟩, h3⟩, h4⟩, h5⟩, h6⟩, h7⟩, h8⟩, h9⟩, h10⟩, h11⟩, h12⟩

theorem rstInside_of (c : Counts) (h : c.rst < c.len ∨ c.rst = 0) : RstInside c = true := by
  simp only [RstInside, Bool.or_eq_true, decide_eq_true_eq]; exact h

/-- **C03_hdr_mod**: every MOD header `mod_test` + `mod_load` accept (any magic, order table, length and
restart bytes) gives 1..63 channels, 1..128 patterns, 31 instruments/samples, a restart position
below 127 — inside the order list unless `get_tracker_id` ran (the epilogue's restart repair is needed
for exactly that path) — and `trk = chn * pat`. -/
theorem C03_hdr_mod (magic : List Nat) (wow probe : Bool) (len restart : Nat) (orders : List Nat) (c : Counts)
    (hlen : len ≤ 255) (h : modHeader magic wow probe len restart orders = some c) :
    CountOblig c = true ∧ 1 ≤ c.pat ∧ c.pat ≤ 128 ∧ c.chn < 64 ∧ c.trk = c.chn * c.pat ∧ c.rst < 127
    ∧ ((probe && !modDetected magic && !wow) = false → RstInside c = true) := by
  unfold modHeader at h
  split at h
  · cases h
  · rename_i chn _
    split at h
    · cases h
    · rename_i hc
      simp only at h
      generalize hpr : (probe && !modDetected magic && !wow) = pr at h
      injection h with h
      obtain ⟨p1, p2⟩ := modPat_le orders
      have e3 : modOrderStop = 127 := rfl
      have e4 : modChnReject = 64 := rfl
      have e5 : modIns = 31 := rfl
      have e6 : modRestartMax = 127 := rfl
      have hr0 : modRst pr (modPat orders) len restart < 127 := by
        unfold modRst; split
        · omega
        · split <;> omega
      have hr : pr = false → (modRst pr (modPat orders) len restart < len ∨ modRst pr (modPat orders) len restart = 0) := by
        intro hp; subst hp
        unfold modRst
        simp only [Bool.false_eq_true, false_and, if_false]
        split <;> omega
      have f1 : c.chn = (chn : Int) := by rw [← h]
      have f2 : c.pat = (modPat orders : Int) := by rw [← h]
      have f3 : c.trk = (chn : Int) * (modPat orders : Int) := by rw [← h]
      have f4 : c.ins = (modIns : Int) := by rw [← h]
      have f5 : c.smp = (modIns : Int) := by rw [← h]
      have f6 : c.len = (len : Int) := by rw [← h]
      have f7 : c.rst = (modRst pr (modPat orders) len restart : Int) := by rw [← h]
      have ht : (0 : Int) ≤ (chn : Int) * (modPat orders : Int) := Int.mul_nonneg (by omega) (by omega)
      refine ⟨?_, by omega, by omega, by omega, by rw [f3, f1, f2], by omega, ?_⟩
      · apply countOblig_of <;> omega
      · intro hp
        have := hr hp
        apply rstInside_of; omega

/-- **C03_hdr_s3m**: every S3M header `s3m_load` accepts gives 0..32 channels, 1..255 patterns,
at most 255 orders, instruments and samples, restart 0. -/
theorem C03_hdr_s3m (ffi ordnum insnum patnum : Nat) (magicOK : Bool) (chset orders : List Nat) (c : Counts)
    (h : s3mHeader ffi ordnum insnum patnum magicOK chset orders = some c) :
    CountOblig c = true ∧ RstInside c = true ∧ 1 ≤ c.pat ∧ c.chn ≤ 32 ∧ c.trk = c.pat * c.chn ∧ c.rst = 0 := by
  unfold s3mHeader at h
  split at h
  · cases h
  · split at h
    · cases h
    · rename_i hlim
      split at h
      · cases h
      · generalize hlen : capLen ordnum = len at h
        generalize hpat : s3mPat orders len patnum = pat at h
        generalize hchn : s3mChn chset = chn at h
        simp only at h
        split at h
        · cases h
        · rename_i hp0
          injection h with h
          have hc := s3mChn_le chset
          have hp := s3mPat_le orders len patnum
          rw [hpat] at hp
          rw [hchn] at hc
          have e2 : xmpMaxModLength = 256 := rfl
          have e3 : s3mChannels = 32 := rfl
          have e4 : s3mOrdMax = 255 := rfl
          have e5 : s3mInsMax = 255 := rfl
          have e6 : s3mPatMax = 255 := rfl
          have hl : len ≤ 255 := by rw [← hlen]; unfold capLen; split <;> omega
          have f1 : c.chn = (chn : Int) := by rw [← h]
          rw [hpat] at h hp0
          have f2 : c.pat = (pat : Int) := by rw [← h]
          have f3 : c.trk = (pat : Int) * (chn : Int) := by rw [← h]
          have f4 : c.ins = (insnum : Int) := by rw [← h]
          have f5 : c.smp = (insnum : Int) := by rw [← h]
          have f6 : c.len = (len : Int) := by rw [← h]
          have f7 : c.rst = 0 := by rw [← h]
          have ht : (0 : Int) ≤ (pat : Int) * (chn : Int) := Int.mul_nonneg (by omega) (by omega)
          refine ⟨?_, ?_, by omega, by omega, by rw [f3, f1, f2], f7⟩
          · apply countOblig_of <;> omega
          · apply rstInside_of; omega

/-- **C03_hdr_xm**: every XM header `xm_load` accepts gives at most 64 channels, 257 patterns
(one extra), 256 orders, 255 instruments and a restart position inside the order list; tempo and BPM
are in FT2's range unless the tracker field says MED2XM.  (`smp` is counted by `load_instruments`,
capped by `MAX_SAMPLES`: hypothesis.) -/
theorem C03_hdr_xm (songlen restart channels patterns instruments tempo bpm headersz : Nat) (med2xm : Bool)
    (smp : Nat) (c : Counts) (hs : smp ≤ maxSamples)
    (h : xmHeader songlen restart channels patterns instruments tempo bpm headersz med2xm smp = some c) :
    CountOblig c = true ∧ RstInside c = true ∧ c.pat = patterns + 1 ∧ c.chn = channels ∧ c.len = songlen
    ∧ (med2xm = false → tempo < 32 ∧ 32 ≤ bpm ∧ bpm ≤ 1000) := by
  unfold xmHeader at h
  split at h
  · cases h
  · split at h
    · cases h
    · split at h
      · cases h
      · split at h
        · cases h
        · split at h
          · cases h
          · rename_i htb
            split at h
            · cases h
            · split at h
              · cases h
              generalize hrst : xmRst songlen restart = rst at h
              injection h with h
              have e1 : xmLenMax = 256 := rfl
              have e2 : xmPatMax = 256 := rfl
              have e3 : xmInsMax = 255 := rfl
              have e4 : xmChnMax = 64 := rfl
              have e5 : xmTempoReject = 32 := rfl
              have e6 : xmBpmMin = 32 := rfl
              have e7 : xmBpmMax = 1000 := rfl
              have e8 : maxSamples = 1024 := rfl
              have hr : rst < songlen ∨ rst = 0 := by rw [← hrst]; unfold xmRst; split <;> omega
              have f1 : c.chn = (channels : Int) := by rw [← h]
              have f2 : c.pat = (patterns : Int) + 1 := by rw [← h]
              have f3 : c.trk = (channels : Int) * (patterns : Int) + 1 := by rw [← h]
              have f4 : c.ins = (instruments : Int) := by rw [← h]
              have f5 : c.smp = (smp : Int) := by rw [← h]
              have f6 : c.len = (songlen : Int) := by rw [← h]
              have f7 : c.rst = (rst : Int) := by rw [← h]
              have ht : (0 : Int) ≤ (channels : Int) * (patterns : Int) := Int.mul_nonneg (by omega) (by omega)
              refine ⟨?_, ?_, f2, f1, f6, ?_⟩
              · apply countOblig_of <;> omega
              · apply rstInside_of; omega
              · intro hm
                simp only [hm, and_true, not_or] at htb
                omega

/-- **C03_hdr_it**: every IT header `it_load` accepts gives 1..64 channels (the pattern scan
masks the channel number with 63), at most 255 patterns, instruments and samples, at most 256 orders. -/
theorem C03_hdr_it (ordnum insnum smpnum patnum gv : Nat) (sampleMode : Bool) (maxCh : Nat) (c : Counts)
    (hch : maxCh ≤ itChannelMask) (h : itHeader ordnum insnum smpnum patnum gv sampleMode maxCh = some c) :
    CountOblig c = true ∧ RstInside c = true ∧ 1 ≤ c.chn ∧ c.trk = c.pat * c.chn ∧ c.rst = 0 ∧ gv ≤ 128 := by
  unfold itHeader at h
  split at h
  · cases h
  · rename_i hgv
    split at h
    · cases h
    · generalize hlen : capLen ordnum = len at h
      simp only at h
      generalize hins : (if sampleMode = true then smpnum else insnum) = ins at h
      injection h with h
      have e1 : itInsMax = 255 := rfl
      have e2 : itSmpMax = 255 := rfl
      have e3 : itPatMax = 255 := rfl
      have e4 : itGvMax = 128 := rfl
      have e5 : itChannelMask = 63 := rfl
      have e6 : xmpMaxModLength = 256 := rfl
      have hl : len ≤ 256 := by rw [← hlen]; unfold capLen; split <;> omega
      have hi : ins ≤ 255 := by rw [← hins]; split <;> omega
      have f1 : c.chn = ((maxCh + 1 : Nat) : Int) := by rw [← h]
      have f2 : c.pat = (patnum : Int) := by rw [← h]
      have f3 : c.trk = (patnum : Int) * ((maxCh + 1 : Nat) : Int) := by rw [← h]
      have f4 : c.ins = (ins : Int) := by rw [← h]
      have f5 : c.smp = (smpnum : Int) := by rw [← h]
      have f6 : c.len = (len : Int) := by rw [← h]
      have f7 : c.rst = 0 := by rw [← h]
      have ht : (0 : Int) ≤ (patnum : Int) * ((maxCh + 1 : Nat) : Int) := Int.mul_nonneg (by omega) (by omega)
      refine ⟨?_, ?_, by omega, by rw [f3, f1, f2], f7, by omega⟩
      · apply countOblig_of <;> omega
      · apply rstInside_of; omega

/-- **C03_hdr_rows**: the row counts the XM and IT pattern headers can produce, and the fixed
row counts of MOD / S3M patterns and of the XM extra pattern, lie in 1..256 (IT: 1..1024): the `rows`
obligation for the patterns themselves (their tracks get the same count from
`libxmp_alloc_tracks_in_pattern`, see `C03_helpers_pattern`). -/
theorem C03_hdr_rows :
    (∀ version field r, xmPatRows version field = some r → 1 ≤ r ∧ r ≤ 256)
    ∧ (∀ offset n r, itPatRows offset n = some r → 1 ≤ r ∧ r ≤ 1024)
    ∧ 1 ≤ modRows ∧ modRows ≤ 256 ∧ 1 ≤ s3mRows ∧ s3mRows ≤ 256 ∧ 1 ≤ xmExtraRows := by
  refine ⟨?_, ?_, by decide, by decide, by decide, by decide, by decide⟩
  · intro version field r h
    unfold xmPatRows at h
    generalize (if version > 0x0102 then field else field + 1) = rows at h
    simp only at h
    split at h
    · cases h
    · generalize (if rows = 0 then xmRowsZero else rows) = r' at h
      split at h
      · cases h
      · rename_i hr
        injection h with h
        have e : helperRowsMax = 256 := rfl
        omega
  · intro offset n r h
    unfold itPatRows at h
    have e1 : itEmptyRows = 64 := rfl
    have e2 : itRowsMax = 1024 := rfl
    split at h
    · injection h with h; omega
    · split at h
      · cases h
      · injection h with h; omega

/-- **C03_count_oblig**: a raw module whose counts meet `CountOblig` passes the gate's count
test, and the epilogue's count CLAMPs and restart repair leave it as it is: the counts the loader
sized its tables for are exactly the counts the loaded module exposes. -/
theorem C03_count_oblig (raw : Module) (h : CountOblig (countsOf raw) = true) :
    clampCounts raw = raw
    ∧ ¬ (raw.chn > (xmpMaxChannels : Int) ∨ raw.len > (xmpMaxModLength : Int))
    ∧ (epilogue (adjustNames raw)).len = raw.len
    ∧ (epilogue (adjustNames raw)).pat = raw.pat ∧ (epilogue (adjustNames raw)).chn = raw.chn
    ∧ (epilogue (adjustNames raw)).ins = raw.ins ∧ (epilogue (adjustNames raw)).smp = raw.smp
    ∧ 0 ≤ (epilogue (adjustNames raw)).rst
    ∧ (RstInside (countsOf raw) = true → (epilogue (adjustNames raw)).rst = raw.rst) := by
  unfold CountOblig countsOf at h
  simp only [Bool.and_eq_true, decide_eq_true_eq] at h
  obtain ⟨⟨⟨⟨⟨⟨⟨⟨⟨⟨⟨c1, c2⟩, l1⟩, l2⟩, p1⟩, p2⟩, i1⟩, i2⟩, s1⟩, s2⟩, _⟩, r1⟩ := h
  have k : ∀ x b : Int, 0 ≤ x → x ≤ b → clampC x 0 b = x := by
    intro x b h0 hb; unfold clampC; split
    · omega
    · split <;> omega
  refine ⟨?_, by omega, ?_, ?_, ?_, ?_, ?_, ?_, ?_⟩
  · unfold clampCounts
    rw [k _ _ p1 p2, k _ _ i1 i2, k _ _ s1 s2, k _ _ c1 c2]
  · show clampC raw.len 0 xmpMaxModLength = raw.len
    exact k _ _ l1 l2
  · exact k _ _ p1 p2
  · exact k _ _ c1 c2
  · exact k _ _ i1 i2
  · exact k _ _ s1 s2
  · show 0 ≤ (if raw.rst ≥ clampC raw.len 0 xmpMaxModLength then 0 else raw.rst)
    split <;> omega
  · intro hr
    unfold RstInside countsOf at hr
    simp only [Bool.or_eq_true, decide_eq_true_eq] at hr
    show (if raw.rst ≥ clampC raw.len 0 xmpMaxModLength then 0 else raw.rst) = raw.rst
    rw [k _ _ l1 l2]; split <;> omega

/-- non-vacuity: MOD headers the loader accepts / refuses ("M.K.", "32CH", "33CH") -/
example :
    (modHeader [77, 46, 75, 46] false true 3 127 [0, 2, 1, 200, 9]).map (fun c => (c.chn, c.pat, c.trk, c.ins, c.len, c.rst))
      = some (4, 3, 12, 31, 3, 0)
    ∧ (modHeader [51, 50, 67, 72] false true 255 2 [127]).map (fun c => (c.chn, c.pat, c.rst)) = some (32, 128, 2)
    ∧ modHeader [51, 51, 67, 72] false true 1 0 [0] = none
    -- "8CHN", restart byte 126 beyond a 6-entry order list: `get_tracker_id` stores it unchecked
    ∧ (modHeader [56, 67, 72, 78] false true 6 126 [0]).map (fun c => (c.len, c.rst, RstInside c)) = some (6, 126, false) := by
  decide +kernel
/-- S3M: channel settings, "don't trust patnum", 256 orders refused, no pattern refused -/
example :
    (s3mHeader 2 4 9 7 true ([0, 1, 255, 8] ++ List.replicate 28 255) [0, 254, 6, 255]).map
        (fun c => (c.chn, c.pat, c.trk, c.ins, c.len)) = some (4, 7, 28, 9, 4)
    ∧ s3mHeader 2 256 0 1 true [] [] = none ∧ s3mHeader 2 2 0 5 true [0] [254, 255] = none := by
  decide +kernel
/-- XM: every count at its upper limit is accepted, one above is refused; MED2XM waives tempo/BPM -/
example :
    (xmHeader 256 300 64 256 255 31 1000 276 false 16).map (fun c => (c.chn, c.pat, c.trk, c.len, c.rst))
        = some (64, 257, 16385, 256, 0)
    ∧ xmHeader 257 0 4 1 0 6 125 276 false 0 = none ∧ xmHeader 1 0 65 1 0 6 125 276 false 0 = none
    ∧ xmHeader 1 0 4 1 0 32 125 276 false 0 = none ∧ (xmHeader 1 0 4 1 0 32 125 276 true 0).isSome = true
    ∧ xmPatRows 0x0104 0 = some 256 ∧ xmPatRows 0x0104 257 = none ∧ xmPatRows 0x0102 255 = some 256 := by
  decide +kernel
/-- IT: limits, sample mode, capped order list, pattern row rules -/
example :
    (itHeader 300 9 5 255 128 true 63).map (fun c => (c.chn, c.pat, c.trk, c.ins, c.smp, c.len))
        = some (64, 255, 16320, 5, 5, 256)
    ∧ itHeader 1 0 0 256 64 false 0 = none ∧ itHeader 1 0 0 1 129 false 0 = none
    ∧ itPatRows 0 5 = some 64 ∧ itPatRows 9 1025 = some 64 ∧ itPatRows 9 0 = none ∧ itPatRows 9 1024 = some 1024 := by
  decide +kernel
end Headers

/-! ## Player-side tolerance: out-of-range references are rendered harmless

The load path never validates the instrument number / note of an event, the key
map `xxi[i].map[key].ins` or the sample id `sub[j].sid`.  The player's guards
(`Player.getSub` = `get_subinstrument`, `IS_VALID_INSTRUMENT/NOTE/SAMPLE`; texts and
shapes regenerated from src/player.h, src/read_event.c, src/smix.c:
`Player.guards_present`) make them harmless for EVERY loaded module. -/
section PlayerGuards
open Player

/-- **C03_player_sub**: for a module the post-load path produced, ANY event instrument number
and key (any C `int`s) and ANY key map: `get_subinstrument` returns NULL or points at
sub-instrument `j < nsm` of an instrument inside the table — which is allocated when the loader
met its obligations. -/
theorem C03_player_sub (scan : Nat → ScanRes) (raw m : Module) (h : finish scan raw = .ok m)
    (map : Nat → Nat → Nat) (ins key : Int) (hi0 : -2147483648 ≤ ins) (hi1 : ins < 2147483648) (i j : Nat)
    (hg : getSub m map ins key = some (i, j)) :
    (i : Int) < m.ins ∧ ∃ x, m.xxi[i]? = some x ∧ (j : Int) < x.nsm
      ∧ (LoaderOblig raw = true → x.sub.isSome = true) := by
  have hw := C03_finish_wf scan raw m h
  have hc : countsOK m = true := by simp only [WFCommon, Bool.and_eq_true] at hw; simp [hw]
  obtain ⟨_, hlt, x, hx, hj⟩ := getSub_spec m hc map ins key hi0 hi1 i j hg
  refine ⟨hlt, x, hx, hj, ?_⟩
  intro ho
  have hf := C03_finish_full scan raw m h ho
  simp only [WF, wfClauses, List.all_cons, List.all_nil, Bool.and_true, Bool.and_eq_true] at hf
  have hs : subsOK m = true := hf.2.2.2.1
  have := allBelow_iff.mp hs i hlt
  simp only [hx, Bool.or_eq_true, decide_eq_true_eq] at this
  rcases this with h1 | h1
  · have : (0 : Int) ≤ (j : Int) := by omega
    omega
  · exact h1

/-- **C03_player_sample**: the guarded chain event → sub-instrument → `sid` → sample
(`smp = sub->sid; if (!IS_VALID_SAMPLE(smp)) smp = -1; if (smp >= 0 && smp < mod->smp) …`): whatever
the `sid`s hold — negative, beyond the table, pointing at a sample without data — the sample that
gets played lies inside the sample table and has data. -/
theorem C03_player_sample (scan : Nat → ScanRes) (raw m : Module) (h : finish scan raw = .ok m)
    (map : Nat → Nat → Nat) (ins key : Int) (s : Nat) (hs : sampleOf m map ins key = some s) :
    (s : Int) < m.smp ∧ ∃ sm, m.xxs[s]? = some sm ∧ sm.hasData = true := by
  have hw := C03_finish_wf scan raw m h
  have hc : countsOK m = true := by simp only [WFCommon, Bool.and_eq_true] at hw; simp [hw]
  exact sampleOf_spec m hc map ins key s hs

/-- **C03_player_trusted**: the few UNGUARDED uses of `sub->sid` (`Player.sidSites_known` pins
them: Protracker sample swap, FT2 offset bug emulation, MED / HMN synth waveforms, smix) index the
sample table directly.  They are safe exactly under the extra loader obligation `sidsOK` (every
`sid` of a sub-instrument in use lies inside the sample table), which the post-load path preserves. -/
theorem C03_player_trusted (scan : Nat → ScanRes) (raw m : Module) (h : finish scan raw = .ok m)
    (hso : sidsOK (clampCounts raw) = true)
    (map : Nat → Nat → Nat) (ins key : Int) (hi0 : -2147483648 ≤ ins) (hi1 : ins < 2147483648) (i j : Nat)
    (hg : getSub m map ins key = some (i, j)) :
    ∃ x, m.xxi[i]? = some x ∧ ∀ sd, x.sids[j]? = some sd → 0 ≤ sd ∧ sd < m.smp := by
  have hw := C03_finish_wf scan raw m h
  have hc : countsOK m = true := by simp only [WFCommon, Bool.and_eq_true] at hw; simp [hw]
  exact trusted_spec m hc (sids_of (finish_shape h) hso) map ins key hi0 hi1 i j hg

/-- non-vacuity: one instrument, two sub-instruments with sample ids 7 (beyond the table) and 0;
key 3 is mapped to the first, key 4 to the second, key 5 to 0xff (no sub-instrument) -/
example :
    let m : Module := { exRawMin with
                        ins := 1, smp := 1,
                        xxi := [{ name := [0], vol := 0, nsm := 2, sub := some [0, 0], sids := [7, 0],
                                  aei := default, pei := default, fei := default }],
                        xxs := [{ name := [0], len := 4, lps := 0, lpe := 0, floop := false, fsloop := false,
                                  fsloopBidir := false, other := 0, hasData := true }] }
    let map : Nat → Nat → Nat := fun _ k => if k = 3 then 0 else if k = 4 then 1 else 0xff
    getSub m map 0 3 = some (0, 0) ∧ sampleOf m map 0 3 = none       -- sid 7: rendered harmless
    ∧ getSub m map 0 4 = some (0, 1) ∧ sampleOf m map 0 4 = some 0
    ∧ getSub m map 0 5 = none ∧ getSub m map 1 3 = none ∧ getSub m map (-1) 3 = none
    ∧ getSub m map 0 200 = some (0, 0)                               -- invalid key: first sub-instrument
    ∧ sidsOK m = false := by
  decide +kernel

end PlayerGuards

/-! ## Non-vacuity: concrete instances of the hypotheses -/

/-- a raw module as a loader could leave it: one 4-row pattern, orders
`[0, 0xff, 0]`, restart position past the end, speed 0, BPM 5000 -/
def exRaw (xxo : List Nat) (len : Int) : Module :=
  { name := [0x41, 0x20, 0x07, 0x20, 0, 0x42, 0], pat := 1, trk := 1, chn := 1, ins := 1, smp := 1,
    spd := 0, bpm := 5000, len := len, rst := 7, gvl := 0
    xxp := some [some { rows := 4, index := [0] }], xxt := some [some { rows := 4 }]
    xxi := [{ name := [0x58, 0], vol := 3, nsm := 1, sub := some [9]
              aei := { on := true, fsus := true, floop := true, other := 0, npt := 2, sus := 1, sue := 5,
                       lps := 0, lpe := 1, data := [0, 70, 10, -3] }
              pei := { on := true, fsus := false, floop := false, other := 0, npt := 40, sus := 0, sue := 0,
                       lps := 0, lpe := 0, data := [] }
              fei := { on := false, fsus := false, floop := false, other := 8, npt := 0, sus := 0, sue := 0,
                       lps := 0, lpe := 0, data := [] } }]
    xxs := [{ name := [0], len := 100, lps := 0, lpe := 0, floop := false, fsloop := true, fsloopBidir := true,
              other := 0, hasData := false }]
    xtra := [{ sus := -4, sue := 300 }]
    xxc := List.replicate 64 { pan := 0x80, vol := 0x40, flg := 0 }
    xxo := xxo ++ List.replicate (256 - xxo.length) 0
    insvol := false, volbase := 0x40, gvol := 0x40 }

/-- `scan_module` behaviour: the first scan reaches order 1 and lasts 480 ms,
the second one (from order 2) lasts 480 ms as well -/
def exScan : Nat → ScanRes := fun k => if k = 0 then { marks := [1], time := 480 } else { marks := [], time := 480 }

/-- the hypothesis of `C03_finish_wf` / `C03_sequences` is satisfiable, and the
path really repairs what it is supposed to repair -/
def exResult : Option Module := (finish exScan (exRaw [0, 0xff, 0] 3)).toOption

example : exResult.map (fun m => (m.numSeq, m.seqData, m.seqCtl.take 3)) = some (2, [(0, 480), (2, 480)], [0, 0, 1]) := by
  decide +kernel
example : exResult.map (fun m => (m.rst, m.spd, m.bpm, m.name.take 5)) = some (0, 6, 1000, [0x41, 0, 0, 0, 0]) := by
  decide +kernel
example : exResult.map (fun m => m.xxi.map fun x => (x.vol, x.sub)) = some [(0x40, some [0x40])] := by
  decide +kernel
example : exResult.map (fun m => m.xxi.map fun x => (x.aei.on, x.aei.fsus, x.aei.floop, x.aei.data))
    = some [(true, false, true, [0, 0x40, 10, 0])] := by
  decide +kernel
example : exResult.map (fun m => (m.xxi.map fun x => x.pei.on, m.xtra.map fun x => (x.sus, x.sue), WF m))
    = some ([false], [(0, 100)], true) := by
  decide +kernel

/-- The F1 witness (orders `[0, 0xff, 0xff]`, the scan from order 2 finds no
valid order and is discarded): order 2 ends up in no sequence.  Without the
clean-up pass it would keep the id 1 of the discarded scan although there is
only one sequence — the state that made `xmp_set_position(2)` index `p->scan[1]`
past its allocation. -/
example :
    let scan : Nat → ScanRes := fun k => if k = 0 then { marks := [1], time := 480 } else { marks := [], time := -1 }
    (finish scan (exRaw [0, 0xff, 0xff] 3)).toOption.map (fun m => (m.numSeq, m.seqCtl.take 3)) = some (1, [0, 0, 0xff])
    ∧ ((seqLoop scan 3 4 { ctl := applyScan 3 0 0 ctlInit (firstScan scan 3), seq := 1, eps := [0], times := [480],
                           calls := 1 }).ctl.take 3 = [0, 0, 1]) := by
  decide +kernel

/-- the epilogue's loop block: a loaded sample whose loop points lie outside its
data loses them, flagged as looped or not (and only then) -/
example :
    let s : Sample := { name := [0], len := 100, lps := 10, lpe := 101, floop := true, floopBidir := true,
                        fsloop := false, fsloopBidir := false, other := 0, hasData := true }
    ((epilogueLoop s).lps, (epilogueLoop s).lpe, (epilogueLoop s).floop, (epilogueLoop s).floopBidir)
      = (0, 0, false, false)
    ∧ epilogueLoop { s with lpe := 100 } = { s with lpe := 100 }
    ∧ epilogueLoop { s with hasData := false } = { s with hasData := false }
    -- the DBM witness: unlooped sample of 2 frames with loop points 3..5 set after the data was loaded
    ∧ ((epilogueLoop { s with len := 2, lps := 3, lpe := 5, floop := false }).lps,
       (epilogueLoop { s with len := 2, lps := 3, lpe := 5, floop := false }).lpe) = (0, 0)
    ∧ epilogueLoop { s with lps := 20, lpe := 20, floop := false } = { s with lps := 20, lpe := 20, floop := false } := by
  decide +kernel

/-- a module the gate refuses: pattern 0 references track 1 of 1 -/
example :
    (match finish exScan { exRaw [0] 1 with xxp := some [some { rows := 4, index := [1] }] } with
     | .error .load => true | _ => false) = true := by
  decide +kernel

/-- the helpers: pattern 2 of a 4-channel module with 64 rows -/
example :
    (allocPatternTracks 256 4 16 4 true (fun _ => true) 2 64).map (fun r => (r.1.rows, r.1.index, r.2.map (·.rows)))
      = some (64, [8, 9, 10, 11], [64, 64, 64, 64])
    ∧ allocPatternTracks 256 4 16 4 true (fun _ => true) 2 257 = none
    ∧ allocPatternTracks 256 4 16 4 true (fun _ => true) 2 0 = none
    ∧ allocPatternTracks 32768 4 16 4 true (fun _ => true) 2 3000 ≠ none
    ∧ allocTrack 16 true 3 0 = none := by
  decide +kernel

end Xmp.LoadPost
