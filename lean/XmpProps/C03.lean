import XmpProofs.LoadPost
/-!
# C03 — A successfully loaded module is structurally well-formed

Model: `XmpModel/LoadPost.lean`.  `finish scan raw` is what `load_module`
(src/load.c) does after the format loader returned success: sanity gate,
`libxmp_adjust_string`, `libxmp_load_epilogue`, `libxmp_prepare_scan`,
`libxmp_scan_sequences`.  `raw : Module` is ARBITRARY (whatever a loader left
behind: NULL entries, out-of-range numbers), `scan : Nat → ScanRes` is an
ARBITRARY behaviour of `scan_module` (call `k` marks any orders and returns any
time).  `WF` is the statement of C03 clause by clause (a `Bool`, evaluated by
the driver on dumps of really loaded modules); `WFCommon` is the part the
common path is responsible for.

Full statement (goal): `load returns 0 → WF m`.  Proved here: `WFCommon m` for
every raw module and every scan behaviour, the sequence clauses at full
strength, names, and the lower bounds under the loaders' contract
(`C03_nonneg`).  NOT provable from the common path (`…_partial` in the sense of
CONVENTIONS): the clauses `rows`, `subinstruments`, `samples` of `WF` depend on
each format loader and on `libxmp_load_sample` (C20); they are evaluated on real
loads by the check (`tools/checks/c03.py`), `C03_helpers_*` prove them for the
allocation helpers, and `allocSites_known` pins the loaders that bypass them.
-/
namespace Xmp.LoadPost
open Xmp.Gen.Limits

/-- **C03_finish_wf**: whenever the common post-load path succeeds, the module
satisfies every clause of `WFCommon` — for arbitrary loader output and arbitrary
`scan_module` behaviour. -/
theorem C03_finish_wf (scan : Nat → ScanRes) (raw m : Module) (h : finish scan raw = .ok m) :
    WFCommon m = true := by
  obtain ⟨hg, p, hp, hs⟩ := finish_ok h
  obtain ⟨_, g2, g3, _, g5⟩ := gate_spec hg
  obtain ⟨_, _, hcase⟩ := prepareScan_ok hp
  obtain ⟨st, hst, hm⟩ := scanSequences_ok hs
  have l1 := @clampC_ge raw.len 0 xmpMaxModLength (by omega)
  have l2 := @clampC_le raw.len 0 xmpMaxModLength (by omega)
  have hplen : p.len = clampC raw.len 0 xmpMaxModLength ∨ p.len = 0 := by
    rcases hcase with hc | ⟨_, _, hc⟩ <;> subst hc
    · right; rfl
    · left; rfl
  have hlen : p.len.toNat ≤ xmpMaxModLength := by
    rcases hplen with h' | h' <;> rw [h'] <;> omega
  obtain ⟨s1, s2, s3, s4, s5, s6, s7, s8, s9, _, _⟩ := scanCore_spec scan _ hlen st hst
  have hseq := sequences_of (m := m) (st := st) (len := p.len.toNat) (by subst hm; rfl) hlen
    (by subst hm; rfl) (by subst hm; rfl) (by subst hm; rfl) s1 s2 s3 s4 s5 s6 s7 s8 s9
  have hcounts : countsOK m = true := by
    apply countsOK_of (a := adjustNames raw)
    · subst hm; rcases hcase with hc | ⟨_, _, hc⟩ <;> subst hc <;> rfl
    · subst hm; rcases hcase with hc | ⟨_, _, hc⟩ <;> subst hc
      · right; rfl
      · left; rfl
    · subst hm; rcases hcase with hc | ⟨_, _, hc⟩ <;> subst hc <;> rfl
    · subst hm; rcases hcase with hc | ⟨_, _, hc⟩ <;> subst hc <;> rfl
    · subst hm; rcases hcase with hc | ⟨_, _, hc⟩ <;> subst hc <;> rfl
  have hpats : patternsOK m = true := by
    apply patterns_of (raw := raw)
    · subst hm; rcases hcase with hc | ⟨_, _, hc⟩ <;> subst hc <;> rfl
    · subst hm; rcases hcase with hc | ⟨_, _, hc⟩ <;> subst hc <;> rfl
    · subst hm; rcases hcase with hc | ⟨_, _, hc⟩ <;> subst hc <;> rfl
    · subst hm; rcases hcase with hc | ⟨_, _, hc⟩ <;> subst hc <;> rfl
    · intro i q hq
      subst hm; rcases hcase with hc | ⟨_, _, hc⟩ <;> subst hc
      · exact hq
      · exact pattern?_prepareXxp (epilogue (adjustNames raw)) i q hq _ rfl
    · exact g5
  have hrst : rstUpperOK m = true := by
    apply rstUpper_of (a := adjustNames raw)
    · subst hm; rcases hcase with hc | ⟨_, _, hc⟩ <;> subst hc
      · right; rfl
      · left; rfl
    · subst hm; rcases hcase with hc | ⟨_, _, hc⟩ <;> subst hc <;> rfl
  have hspd : spdOK m = true := by
    apply spdOK_of (a := adjustNames raw)
    subst hm; rcases hcase with hc | ⟨_, _, hc⟩ <;> subst hc <;> rfl
  have hbpm : bpmOK m = true := by
    apply bpmOK_of (a := adjustNames raw)
    subst hm; rcases hcase with hc | ⟨_, _, hc⟩ <;> subst hc <;> rfl
  have hchan : channelsOK m = true := by
    apply channels_of (raw := raw) _ _ g3
    · subst hm; rcases hcase with hc | ⟨_, _, hc⟩ <;> subst hc <;> rfl
    · subst hm; rcases hcase with hc | ⟨_, _, hc⟩ <;> subst hc <;> rfl
  have henv : envelopesUpperOK m = true := by
    apply envelopesUpper_of (a := adjustNames raw)
    · subst hm; rcases hcase with hc | ⟨_, _, hc⟩ <;> subst hc <;> rfl
    · subst hm; rcases hcase with hc | ⟨_, _, hc⟩ <;> subst hc <;> rfl
    · subst hm; rcases hcase with hc | ⟨_, _, hc⟩ <;> subst hc <;> rfl
  have hsus : sustainOK m = true := by
    apply sustain_of (a := adjustNames raw)
    · subst hm; rcases hcase with hc | ⟨_, _, hc⟩ <;> subst hc <;> rfl
    · subst hm; rcases hcase with hc | ⟨_, _, hc⟩ <;> subst hc <;> rfl
    · subst hm; rcases hcase with hc | ⟨_, _, hc⟩ <;> subst hc <;> rfl
  have hloops : sampleLoopsOK m = true := by
    apply sampleLoops_of (a := adjustNames raw)
    · subst hm; rcases hcase with hc | ⟨_, _, hc⟩ <;> subst hc <;> rfl
    · subst hm; rcases hcase with hc | ⟨_, _, hc⟩ <;> subst hc <;> rfl
  have hord : ordersOK m = true := by
    apply orders_of (e := epilogue (adjustNames raw))
    subst hm; rcases hcase with hc | ⟨hf, _, hc⟩ <;> subst hc
    · left; rfl
    · right; exact ⟨rfl, hf, rfl, rfl⟩
  simp only [WFCommon, Bool.and_eq_true]
  exact ⟨⟨⟨⟨⟨⟨⟨⟨⟨⟨⟨hcounts, hpats⟩, hrst⟩, hspd⟩, hbpm⟩, hchan⟩, henv⟩, hsus⟩, hord⟩, hseq.1⟩, hseq.2⟩, hloops⟩


/-- **C03_sequences**: after `libxmp_scan_sequences`, unless the order list is
empty there are between 1 and MAX_SEQUENCES sequences, their entry points are
pairwise distinct and inside the order list, durations are non-negative, and
every order belongs to no sequence (0xff) or to an existing one — the clause
`xmp_set_position` / `xmp_play_frame` rely on when they index `p->scan[]`
(this is the F1 repair in src/scan.c; it did not hold before). -/
theorem C03_sequences (scan : Nat → ScanRes) (raw m : Module) (h : finish scan raw = .ok m) (hl : 0 < m.len) :
    1 ≤ m.numSeq ∧ m.numSeq ≤ maxSequences ∧ m.seqData.length = m.numSeq
    ∧ (∀ p ∈ m.seqData, (p.1 : Int) < m.len ∧ 0 ≤ p.2)
    ∧ (m.seqData.map (·.1)).Nodup
    ∧ ∀ ord : Nat, (ord : Int) < m.len → ∃ c, m.seqCtl[ord]? = some c ∧ (c = 0xff ∨ c < m.numSeq) := by
  have hw := C03_finish_wf scan raw m h
  simp only [WFCommon, Bool.and_eq_true] at hw
  obtain ⟨⟨⟨_, hs⟩, hc⟩, _⟩ := hw
  simp only [sequencesOK, Bool.or_eq_true, Bool.and_eq_true, decide_eq_true_eq, List.all_eq_true] at hs
  rcases hs with hs | ⟨⟨⟨⟨h1, h2⟩, h3⟩, h4⟩, h5⟩
  · omega
  · refine ⟨h1, h2, h3, h4, h5, ?_⟩
    intro ord ho
    have := allBelow_iff.mp hc ord ho
    cases hq : m.seqCtl[ord]? with
    | none => simp [hq] at this
    | some c =>
      refine ⟨c, rfl, ?_⟩
      simpa [hq] using this

/-- **C03_sequences_own**: the first sequence starts at order 0, and the entry
point of sequence `i` belongs to sequence `i` (so `xmp_set_position` onto an entry
point selects that sequence's scan data). -/
theorem C03_sequences_own (scan : Nat → ScanRes) (raw m : Module) (h : finish scan raw = .ok m) (hl : 0 < m.len) :
    (m.seqData.head?).map (·.1) = some 0
    ∧ ∀ i (hi : i < m.seqData.length), m.seqCtl[(m.seqData[i]).1]? = some i := by
  obtain ⟨hg, p, hp, hs⟩ := finish_ok h
  obtain ⟨_, _, hcase⟩ := prepareScan_ok hp
  obtain ⟨st, hst, hm⟩ := scanSequences_ok hs
  have l1 := @clampC_ge raw.len 0 xmpMaxModLength (by omega)
  have l2 := @clampC_le raw.len 0 xmpMaxModLength (by omega)
  have hplen : p.len = clampC raw.len 0 xmpMaxModLength ∨ p.len = 0 := by
    rcases hcase with hc | ⟨_, _, hc⟩ <;> subst hc
    · right; rfl
    · left; rfl
  have hlen : p.len.toNat ≤ xmpMaxModLength := by
    rcases hplen with h' | h' <;> rw [h'] <;> omega
  obtain ⟨_, _, s3, s4, s5, _, _, s8, _, s10, s11⟩ := scanCore_spec scan _ hlen st hst
  have hmlen : m.len = p.len := by subst hm; rfl
  have hd : m.seqData = st.eps.zip st.times := by subst hm; rfl
  have hc : m.seqCtl = st.ctl := by subst hm; rfl
  have hpos : 0 < p.len.toNat := by omega
  constructor
  · rw [hd]
    cases he : st.eps with
    | nil => rw [he] at s10; simp at s10
    | cons e es =>
      rw [he] at s10 s3
      cases ht : st.times with
      | nil => rw [ht] at s4; simp at s3 s4; omega
      | cons t ts => simp at s10; subst s10; simp
  · intro i hi
    rw [hd] at hi
    have hi1 : i < st.eps.length := by rw [List.length_zip] at hi; omega
    have hel : st.eps[i] < p.len.toNat := s5 hpos _ (List.getElem_mem hi1)
    have hv := s11 i hi1 hel
    have hfst : (m.seqData[i]).1 = st.eps[i] := by
      simp only [hd, List.getElem_zip]
    rw [hfst, hc]
    have hlt : st.eps[i] < st.ctl.length := by omega
    simp only [List.getD_eq_getElem?_getD, List.getElem?_eq_getElem hlt, Option.getD_some] at hv
    rw [List.getElem?_eq_getElem hlt, hv]

/-- The `while (1)` loop of `libxmp_scan_sequences` is modelled with `len + 1`
units of fuel; it always leaves through one of the C's two `break` conditions
(no free order left, or MAX_SEQUENCES reached), never because the fuel ran out. -/
theorem C03_scan_loop_fuel (scan : Nat → ScanRes) (len : Nat) (hlen : len ≤ xmpMaxModLength) (st : SeqState)
    (inv : SeqInv len st) :
    firstFree len (seqLoop scan len (len + 1) st).ctl = none ∨ ¬ (seqLoop scan len (len + 1) st).seq < maxSequences :=
  seqLoop_exit scan len hlen (len + 1) st inv (by have := freeCount_le len st.ctl; omega)

/-- **C03_finish_rc**: the path fails with `-XMP_ERROR_LOAD` whenever the gate
rejects, and a result is only produced when the gate accepted and both tables
exist. -/
theorem C03_finish_rc (scan : Nat → ScanRes) (raw : Module) :
    (gate raw = false → finish scan raw = .error .load)
    ∧ (∀ m, finish scan raw = .ok m → gate raw = true ∧ raw.xxp.isSome = true ∧ raw.xxt.isSome = true)
    ∧ Err.load.code = -4 ∧ Err.system.code = -6 := by
  refine ⟨?_, ?_, by decide, by decide⟩
  · intro hg; unfold finish; simp [hg]
  · intro m h
    obtain ⟨hg, p, hp, _⟩ := finish_ok h
    obtain ⟨h1, h2, _⟩ := prepareScan_ok hp
    exact ⟨hg, h1, h2⟩

/-- **C03_names**: names that are NUL-terminated when the loader returns are
NUL-terminated afterwards (`libxmp_adjust_string` never grows a string), and the
arrays keep their size. -/
theorem C03_names (scan : Nat → ScanRes) (raw m : Module) (h : finish scan raw = .ok m)
    (hn : hasNul raw.name = true) (ht : hasNul raw.typ = true)
    (hi : ∀ x ∈ raw.xxi, hasNul x.name = true) (hs : ∀ x ∈ raw.xxs, hasNul x.name = true)
    (hil : raw.ins.toNat ≤ raw.xxi.length) (hsl : raw.smp.toNat ≤ raw.xxs.length) :
    namesOK m = true ∧ m.name.length = raw.name.length := by
  obtain ⟨hg, p, hp, hsq⟩ := finish_ok h
  obtain ⟨_, _, hcase⟩ := prepareScan_ok hp
  obtain ⟨st, _, hm⟩ := scanSequences_ok hsq
  have hname : m.name = adjustString raw.name := by
    subst hm; rcases hcase with hc | ⟨_, _, hc⟩ <;> subst hc <;> rfl
  have htyp : m.typ = raw.typ := by
    subst hm; rcases hcase with hc | ⟨_, _, hc⟩ <;> subst hc <;> rfl
  have hins : m.ins = clampC raw.ins 0 epiInsMax := by
    subst hm; rcases hcase with hc | ⟨_, _, hc⟩ <;> subst hc <;> rfl
  have hsmp : m.smp = clampC raw.smp 0 maxSamples := by
    subst hm; rcases hcase with hc | ⟨_, _, hc⟩ <;> subst hc <;> rfl
  have hxxi : m.xxi = (raw.xxi.mapIdx fun i x =>
      if (i : Int) < raw.ins then { x with name := adjustString x.name } else x).mapIdx fun i x =>
      if (i : Int) < clampC raw.ins 0 epiInsMax then epilogueIns raw.volbase raw.insvol x else x := by
    subst hm; rcases hcase with hc | ⟨_, _, hc⟩ <;> subst hc <;> rfl
  have hxxs : ∀ i : Nat, (m.xxs[i]?).map (·.name) = (raw.xxs[i]?).map fun x =>
      if (i : Int) < raw.smp then adjustString x.name else x.name := by
    intro i
    have : m.xxs = (adjustNames raw).xxs.mapIdx
        (smpStepS (clampC raw.smp 0 maxSamples) (adjustNames raw).xtra) := by
      subst hm; rcases hcase with hc | ⟨_, _, hc⟩ <;> subst hc <;> rfl
    rw [this]
    simp only [adjustNames, List.getElem?_mapIdx, Option.map_map]
    cases raw.xxs[i]? with
    | none => rfl
    | some x =>
      simp only [Option.map_some, Function.comp]
      rw [smpStepS_name]
      split <;> rfl
  refine ⟨?_, by rw [hname, adjustString_length]⟩
  simp only [namesOK, Bool.and_eq_true]
  refine ⟨⟨⟨by rw [hname]; exact adjustString_hasNul _ hn, by rw [htyp]; exact ht⟩, ?_⟩, ?_⟩
  · rw [allBelow_iff]
    intro i hlt
    have hi1 : (i : Int) < raw.ins := clampC_lt_imp (hins ▸ hlt)
    have hi2 : i < raw.xxi.length := by omega
    rw [hxxi]
    simp only [List.getElem?_mapIdx, List.getElem?_eq_getElem hi2, Option.map_some, hi1, if_true]
    have hmem := hi _ (List.getElem_mem hi2)
    split
    · exact adjustString_hasNul _ hmem
    · exact adjustString_hasNul _ hmem
  · rw [allBelow_iff]
    intro i hlt
    have hi1 : (i : Int) < raw.smp := clampC_lt_imp (hsmp ▸ hlt)
    have hi2 : i < raw.xxs.length := by omega
    have := hxxs i
    rw [List.getElem?_eq_getElem hi2] at this
    cases hq : m.xxs[i]? with
    | none => simp [hq] at this
    | some sx =>
      simp only [hq, Option.map_some, hi1, if_true, Option.some.injEq] at this
      simp only
      rw [this]
      exact adjustString_hasNul _ (hs _ (List.getElem_mem hi2))

/-- non-negative loop / sustain points -/
def envNonneg (e : Envelope) : Prop := 0 ≤ e.lps ∧ 0 ≤ e.lpe ∧ 0 ≤ e.sus ∧ 0 ≤ e.sue

/-- **C03_nonneg**: the common path never lowers a restart position or an
envelope point below what the loader stored, so with the loaders' contract
(these fields are read from unsigned file fields) the full clauses `rst` and
`envelopes` of `WF` hold too.  (The gate does not test them: a negative restart
position would pass, see the report.) -/
theorem C03_nonneg (scan : Nat → ScanRes) (raw m : Module) (h : finish scan raw = .ok m)
    (hr : 0 ≤ raw.rst) (he : ∀ x ∈ raw.xxi, envNonneg x.aei ∧ envNonneg x.pei ∧ envNonneg x.fei)
    (hil : raw.ins.toNat ≤ raw.xxi.length) :
    rstOK m = true ∧ envelopesOK m = true := by
  have hw := C03_finish_wf scan raw m h
  obtain ⟨hg, p, hp, hsq⟩ := finish_ok h
  obtain ⟨_, _, hcase⟩ := prepareScan_ok hp
  obtain ⟨st, _, hm⟩ := scanSequences_ok hsq
  have hrst : m.rst = if raw.rst ≥ clampC raw.len 0 xmpMaxModLength then 0 else raw.rst := by
    subst hm; rcases hcase with hc | ⟨_, _, hc⟩ <;> subst hc <;> rfl
  have hins : m.ins = clampC raw.ins 0 epiInsMax := by
    subst hm; rcases hcase with hc | ⟨_, _, hc⟩ <;> subst hc <;> rfl
  have hxxi : m.xxi = (raw.xxi.mapIdx fun i x =>
      if (i : Int) < raw.ins then { x with name := adjustString x.name } else x).mapIdx fun i x =>
      if (i : Int) < clampC raw.ins 0 epiInsMax then epilogueIns raw.volbase raw.insvol x else x := by
    subst hm; rcases hcase with hc | ⟨_, _, hc⟩ <;> subst hc <;> rfl
  constructor
  · simp only [WFCommon, Bool.and_eq_true] at hw
    simp only [rstOK, Bool.and_eq_true, decide_eq_true_eq]
    refine ⟨?_, hw.1.1.1.1.1.1.1.1.1.2⟩
    rw [hrst]; split <;> omega
  · unfold envelopesOK
    rw [allBelow_iff]
    intro i hlt
    have hi1 : (i : Int) < raw.ins := clampC_lt_imp (hins ▸ hlt)
    have hi2 : i < raw.xxi.length := by omega
    have hlt' : (i : Int) < clampC raw.ins 0 epiInsMax := hins ▸ hlt
    rw [hxxi]
    simp only [List.getElem?_mapIdx, List.getElem?_eq_getElem hi2, Option.map_some, hi1, hlt', if_true]
    obtain ⟨h1, h2, h3⟩ := he _ (List.getElem_mem hi2)
    simp only [Bool.and_eq_true]
    exact ⟨⟨checkEnvelope_envOK _ h1, checkEnvelope_envOK _ h2⟩, checkEnvelope_envOK _ h3⟩

/-! ## Allocation helpers of loaders/common.c -/

/-- `libxmp_alloc_track`: a track allocated by the helper has at least one row
and lands in a free slot inside the table. -/
theorem C03_helpers_track (trk : Int) (slotFree : Bool) (num rows : Int) (t : Track)
    (h : allocTrack trk slotFree num rows = some t) :
    1 ≤ t.rows ∧ t.rows = rows ∧ 0 ≤ num ∧ num < trk ∧ slotFree = true := by
  unfold allocTrack at h
  split at h
  · cases h
  · rename_i hc
    injection h with h
    subst h
    simp only [not_or, Int.not_lt, Int.not_le, Bool.not_eq_true, Bool.not_eq_false'] at hc
    refine ⟨by show 1 ≤ rows; omega, rfl, by omega, by omega, ?_⟩
    cases slotFree <;> simp_all

theorem filterMap_id_length {α} (l : List (Option α)) (h : ∀ o ∈ l, o.isSome = true) :
    (l.filterMap id).length = l.length := by
  induction l with
  | nil => rfl
  | cons a rest ih =>
    cases a with
    | none => have := h none (by simp); simp at this
    | some v =>
      simp only [List.filterMap_cons, id, List.length_cons]
      rw [ih (fun o ho => h o (List.mem_cons_of_mem _ ho))]

/-- `libxmp_alloc_pattern_tracks` (`limit` = 256) and `…_long` (`limit` =
32768): the pattern has `1 ≤ rows ≤ limit`, one index per channel, and every
track it references was allocated with the same, positive number of rows inside
the track table. -/
theorem C03_helpers_pattern (limit pat trk chn : Int) (slotFree : Bool) (free : Int → Bool) (num rows : Int)
    (p : Pattern) (ts : List Track)
    (h : allocPatternTracks limit pat trk chn slotFree free num rows = some (p, ts)) :
    1 ≤ p.rows ∧ p.rows ≤ limit ∧ p.index.length = chn.toNat ∧ ts.length = chn.toNat
    ∧ (∀ t ∈ ts, t.rows = p.rows ∧ 1 ≤ t.rows)
    ∧ (∀ t ∈ p.index, 0 ≤ t ∧ t < trk) := by
  unfold allocPatternTracks at h
  split at h
  · cases h
  · rename_i hr
    split at h
    · cases h
    · simp only at h
      split at h
      · rename_i hall
        injection h with h
        injection h with hp hts
        subst hp
        rw [List.all_eq_true] at hall
        have hsome : ∀ i, i < chn.toNat →
            ∃ t, allocTrack trk (free (num * chn + (i : Int))) (num * chn + (i : Int)) rows = some t := by
          intro i hi
          have := hall (allocTrack trk (free (num * chn + (i : Int))) (num * chn + (i : Int)) rows)
            (List.mem_map.mpr ⟨i, List.mem_range.mpr hi, rfl⟩)
          cases hq : allocTrack trk (free (num * chn + (i : Int))) (num * chn + (i : Int)) rows with
          | none => simp [hq] at this
          | some t => exact ⟨t, rfl⟩
        refine ⟨by show 1 ≤ rows; omega, by show rows ≤ limit; omega, by simp, ?_, ?_, ?_⟩
        · subst hts
          rw [filterMap_id_length _ hall]
          simp
        · intro t ht
          subst hts
          simp only [List.mem_filterMap, List.mem_map, List.mem_range, id] at ht
          obtain ⟨o, ⟨i, _, hi⟩, ho⟩ := ht
          subst ho
          have := C03_helpers_track _ _ _ _ t hi
          exact ⟨this.2.1, this.1⟩
        · intro t ht
          simp only [List.mem_map, List.mem_range] at ht
          obtain ⟨i, hi, rfl⟩ := ht
          obtain ⟨t', ht'⟩ := hsome i hi
          have := C03_helpers_track _ _ _ _ t' ht'
          exact ⟨this.2.2.1, this.2.2.2.1⟩
      · cases h


/-! ## Non-vacuity: concrete instances of the hypotheses -/

/-- a raw module as a loader could leave it: one 4-row pattern, orders
`[0, 0xff, 0]`, restart position past the end, speed 0, BPM 5000 -/
def exRaw (xxo : List Nat) (len : Int) : Module :=
  { name := [0x41, 0x20, 0x07, 0x20, 0, 0x42, 0], pat := 1, trk := 1, chn := 1, ins := 1, smp := 1,
    spd := 0, bpm := 5000, len := len, rst := 7, gvl := 0
    xxp := some [some { rows := 4, index := [0] }], xxt := some [some { rows := 4 }]
    xxi := [{ name := [0x58, 0], vol := 3, nsm := 1, sub := some [9]
              aei := { on := true, fsus := true, floop := true, other := 0, npt := 2, sus := 1, sue := 5,
                       lps := 0, lpe := 1, data := [0, 70, 10, -3] }
              pei := { on := true, fsus := false, floop := false, other := 0, npt := 40, sus := 0, sue := 0,
                       lps := 0, lpe := 0, data := [] }
              fei := { on := false, fsus := false, floop := false, other := 8, npt := 0, sus := 0, sue := 0,
                       lps := 0, lpe := 0, data := [] } }]
    xxs := [{ name := [0], len := 100, lps := 0, lpe := 0, floop := false, fsloop := true, fsloopBidir := true,
              other := 0, hasData := false }]
    xtra := [{ sus := -4, sue := 300 }]
    xxc := List.replicate 64 { pan := 0x80, vol := 0x40, flg := 0 }
    xxo := xxo ++ List.replicate (256 - xxo.length) 0
    insvol := false, volbase := 0x40, gvol := 0x40 }

/-- `scan_module` behaviour: the first scan reaches order 1 and lasts 480 ms,
the second one (from order 2) lasts 480 ms as well -/
def exScan : Nat → ScanRes := fun k => if k = 0 then { marks := [1], time := 480 } else { marks := [], time := 480 }

/-- the hypothesis of `C03_finish_wf` / `C03_sequences` is satisfiable, and the
path really repairs what it is supposed to repair -/
def exResult : Option Module := (finish exScan (exRaw [0, 0xff, 0] 3)).toOption

example : exResult.map (fun m => (m.numSeq, m.seqData, m.seqCtl.take 3)) = some (2, [(0, 480), (2, 480)], [0, 0, 1]) := by
  decide +kernel
example : exResult.map (fun m => (m.rst, m.spd, m.bpm, m.name.take 5)) = some (0, 6, 1000, [0x41, 0, 0, 0, 0]) := by
  decide +kernel
example : exResult.map (fun m => m.xxi.map fun x => (x.vol, x.sub)) = some [(0x40, some [0x40])] := by
  decide +kernel
example : exResult.map (fun m => m.xxi.map fun x => (x.aei.on, x.aei.fsus, x.aei.floop, x.aei.data))
    = some [(true, false, true, [0, 0x40, 10, 0])] := by
  decide +kernel
example : exResult.map (fun m => (m.xxi.map fun x => x.pei.on, m.xtra.map fun x => (x.sus, x.sue), WF m))
    = some ([false], [(0, 100)], true) := by
  decide +kernel

/-- The F1 witness (orders `[0, 0xff, 0xff]`, the scan from order 2 finds no
valid order and is discarded): order 2 ends up in no sequence.  Without the
clean-up pass it would keep the id 1 of the discarded scan although there is
only one sequence — the state that made `xmp_set_position(2)` index `p->scan[1]`
past its allocation. -/
example :
    let scan : Nat → ScanRes := fun k => if k = 0 then { marks := [1], time := 480 } else { marks := [], time := -1 }
    (finish scan (exRaw [0, 0xff, 0xff] 3)).toOption.map (fun m => (m.numSeq, m.seqCtl.take 3)) = some (1, [0, 0, 0xff])
    ∧ ((seqLoop scan 3 4 { ctl := applyScan 3 0 0 ctlInit (firstScan scan 3), seq := 1, eps := [0], times := [480],
                           calls := 1 }).ctl.take 3 = [0, 0, 1]) := by
  decide +kernel

/-- the epilogue's loop block: a loaded sample whose flagged loop ends past its
data loses the loop (and only then) -/
example :
    let s : Sample := { name := [0], len := 100, lps := 10, lpe := 101, floop := true, floopBidir := true,
                        fsloop := false, fsloopBidir := false, other := 0, hasData := true }
    ((epilogueLoop s).lps, (epilogueLoop s).lpe, (epilogueLoop s).floop, (epilogueLoop s).floopBidir)
      = (0, 0, false, false)
    ∧ epilogueLoop { s with lpe := 100 } = { s with lpe := 100 }
    ∧ epilogueLoop { s with hasData := false } = { s with hasData := false } := by
  decide +kernel

/-- a module the gate refuses: pattern 0 references track 1 of 1 -/
example :
    (match finish exScan { exRaw [0] 1 with xxp := some [some { rows := 4, index := [1] }] } with
     | .error .load => true | _ => false) = true := by
  decide +kernel

/-- the helpers: pattern 2 of a 4-channel module with 64 rows -/
example :
    (allocPatternTracks 256 4 16 4 true (fun _ => true) 2 64).map (fun r => (r.1.rows, r.1.index, r.2.map (·.rows)))
      = some (64, [8, 9, 10, 11], [64, 64, 64, 64])
    ∧ allocPatternTracks 256 4 16 4 true (fun _ => true) 2 257 = none
    ∧ allocPatternTracks 256 4 16 4 true (fun _ => true) 2 0 = none
    ∧ allocPatternTracks 32768 4 16 4 true (fun _ => true) 2 3000 ≠ none
    ∧ allocTrack 16 true 3 0 = none := by
  decide +kernel

end Xmp.LoadPost
