import XmpProofs.LoadPost
