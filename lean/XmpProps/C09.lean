import XmpProofs.Crc
import XmpProofs.Gates
/-!
# C09 — Corrupted archives are rejected, never silently mis-decoded

Property theorems over `XmpModel.Crc` (the three check codes, table-driven as in the C, with
the tables generated from the working tree) and `XmpModel.Gates` (the accept/reject logic of
each depacker with the entropy decoder as a parameter).

Shape of the claim.  For every format, *for any entropy decoder*:

* `C09_gate_<fmt>`   accept ⇒ stored check = check(output) (∧ stored length = length where the
                     format stores one);
* `C09_reject_<fmt>` hence, if the output decoded from the damaged archive differs from the
                     packed payload by an error burst confined to ≤ 32 (CRC-16: ≤ 16) consecutive
                     bits — in particular by one flipped bit or one substituted byte — while the
                     stored check is intact, or if the stored check/length field itself was hit
                     (any change, in particular a single-bit flip) while the output is intact,
                     the depacker fails.

**Outside the theorems (residual class, stated explicitly):** damage that the entropy decoder
spreads over more than one burst *and* whose check value collides (probability 2⁻³² resp. 2⁻¹⁶
per damaged archive for a decoder that randomises its output) cannot be excluded by any proof
about the gate: the check code has only 32 (16) bits.  ArcFS members whose stored CRC is 0 are
unchecked by design (`arcfs.c`), and a zip central-directory record whose compressed size is
damaged to 0 bypasses miniz's CRC comparison (`zipExtract`, hypothesis `compSize ≠ 0`).
-/
namespace Xmp.C09
open Xmp Xmp.Crc Xmp.Gates

/-! ## the check codes -/

/-- **Table-driven = bitwise**, for all messages and start values: the generated 256-entry
    tables are verified entry by entry (`decide +kernel`), then lifted by induction. -/
theorem C09_crc_table_eq_bitwise :
    (∀ (m : Bytes) (c : BitVec 32), crc32ANoInv m c = crcBitwise P32 c m) ∧
    (∀ (m : Bytes) (c : BitVec 32), crc32A m c = ~~~ crcBitwise P32 (~~~ c) m) ∧
    (∀ (m : Bytes) (c : BitVec 16), crc16IBM m c = crcBitwise P16 c m) ∧
    (∀ (m : Bytes), bzBlockCrc m = ~~~ crcBitwiseM PBz 0xFFFFFFFF#32 m) :=
  ⟨crc32ANoInv_eq_bitwise, crc32A_eq_bitwise, crc16IBM_eq_bitwise, bzBlockCrc_eq_bitwise⟩

example : crc32A [0x31, 0x32, 0x33, 0x34, 0x35, 0x36, 0x37, 0x38, 0x39] 0 = 0xCBF43926#32 := by decide +kernel
example : crc16IBM [0x31, 0x32, 0x33, 0x34, 0x35, 0x36, 0x37, 0x38, 0x39] 0 = 0xBB3D#16 := by decide +kernel
example : bzBlockCrc [0x31, 0x32, 0x33, 0x34, 0x35, 0x36, 0x37, 0x38, 0x39] = 0xFC891918#32 := by decide +kernel

/-- **Linearity**: for bit strings of equal length, `crc_s(X) ⊕ crc_t(Y) = crc_{s⊕t}(X ⊕ Y)`;
    with equal start values the right-hand side is the CRC, from register 0, of the error pattern. -/
theorem C09_crc_linear {w : Nat} (P : BitVec w) (X Y : List Bool) (h : X.length = Y.length) (s t : BitVec w) :
    runBits P s X ^^^ runBits P t Y = runBits P (s ^^^ t) (List.zipWith (· ^^ ·) X Y) :=
  runBits_linear P X Y h s t

example : runBits P32 5#32 [true, false, true] ^^^ runBits P32 5#32 [true, true, false]
    = runBits P32 0#32 [false, true, true] := by decide +kernel

/-- **Burst detection, bit level** (any reflected CRC whose polynomial has its top coefficient,
    i.e. `P.msb`): two messages that agree outside a window of at most `w` consecutive bits and
    differ inside it have different registers — whatever precedes, whatever follows, whatever the
    start value.  Every single-bit flip is the case `X.length = 1`. -/
theorem C09_crc_detects_burst {w : Nat} (P : BitVec w) (hP : P.msb = true) (A X X' C : List Bool)
    (hlen : X.length = X'.length) (hw : X.length ≤ w) (hne : X ≠ X') (s : BitVec w) :
    runBits P s (A ++ X ++ C) ≠ runBits P s (A ++ X' ++ C) :=
  runBits_burst_ne P hP A X X' C hlen hw hne s

example : runBits P16 0#16 ([true] ++ [true, false] ++ [false]) ≠ runBits P16 0#16 ([true] ++ [false, true] ++ [false]) :=
  C09_crc_detects_burst P16 P16_msb [true] [true, false] [false, true] [false] rfl (by decide) (by decide) _

/-- the same for the MSB-first CRC of bzip2 (needs the constant coefficient of the polynomial) -/
theorem C09_bzcrc_detects_burst (A X X' C : List Bool)
    (hlen : X.length = X'.length) (hw : X.length ≤ 32) (hne : X ≠ X') (s : BitVec 32) :
    runBitsM PBz s (A ++ X ++ C) ≠ runBitsM PBz s (A ++ X' ++ C) :=
  runBitsM_burst_ne PBz (by decide) A X X' C hlen hw hne s

/-- two payloads differ by a *byte burst* of at most `n` bytes -/
def ByteBurst (n : Nat) (a b : Bytes) : Prop :=
  ∃ A W W' C, a = A ++ W ++ C ∧ b = A ++ W' ++ C ∧ W.length = W'.length ∧ W.length ≤ n ∧ W ≠ W'

/-- two payloads differ by a *bit burst* of at most `n` consecutive bits (LSB-first bit order,
    the transmission order of the reflected CRCs; not byte aligned) -/
def BitBurst (n : Nat) (a b : Bytes) : Prop :=
  ∃ A X X' C, bitsLsb a = A ++ X ++ C ∧ bitsLsb b = A ++ X' ++ C ∧ X.length = X'.length ∧ X.length ≤ n ∧ X ≠ X'

/-- same for MSB-first order (bzip2) -/
def BitBurstM (n : Nat) (a b : Bytes) : Prop :=
  ∃ A X X' C, bitsMsb a = A ++ X ++ C ∧ bitsMsb b = A ++ X' ++ C ∧ X.length = X'.length ∧ X.length ≤ n ∧ X ≠ X'

theorem byteBurst_bitBurst (n : Nat) (a b : Bytes) (h : ByteBurst n a b) : BitBurst (8 * n) a b := by
  obtain ⟨A, W, W', C, ha, hb, hl, hn, hne⟩ := h
  refine ⟨bitsLsb A, bitsLsb W, bitsLsb W', bitsLsb C, ?_, ?_, ?_, ?_, ?_⟩
  · rw [ha, bitsLsb_append, bitsLsb_append]
  · rw [hb, bitsLsb_append, bitsLsb_append]
  · simp [length_bitsLsb, hl]
  · rw [length_bitsLsb]; omega
  · intro h; exact hne (bitsLsb_inj W W' hl h)

/-- a single flipped bit in one byte is a byte burst of length 1 -/
theorem flip_is_byteBurst (A C : Bytes) (x : UInt8) (k : Nat) (hk : k < 8) :
    ByteBurst 1 (A ++ [x] ++ C) (A ++ [x ^^^ (1 <<< k.toUInt8)] ++ C) := by
  refine ⟨A, [x], [x ^^^ (1 <<< k.toUInt8)], C, rfl, rfl, rfl, by simp, ?_⟩
  intro h
  have h1 : x = x ^^^ (1 <<< k.toUInt8) := by simpa using h
  have h2 : (1 : UInt8) <<< k.toUInt8 = 0 := by
    have := congrArg (x ^^^ ·) h1
    simp only [UInt8.xor_self, ← UInt8.xor_assoc, UInt8.zero_xor] at this
    exact this.symm
  revert h2
  have : k = 0 ∨ k = 1 ∨ k = 2 ∨ k = 3 ∨ k = 4 ∨ k = 5 ∨ k = 6 ∨ k = 7 := by omega
  rcases this with h | h | h | h | h | h | h | h <;> subst h <;> decide

/-- **CRC-32 detects every bit burst ≤ 32** (gzip, zip, xz, LZX) -/
theorem C09_crc32_detects (a b : Bytes) (c : BitVec 32) (h : BitBurst 32 a b) : crc32A a c ≠ crc32A b c := by
  obtain ⟨A, X, X', C, ha, hb, hl, hn, hne⟩ := h
  rw [crc32A_eq_bitwise, crc32A_eq_bitwise]
  unfold crcBitwise
  rw [ha, hb]
  intro h
  have h' : runBits P32 (~~~c) (A ++ X ++ C) = runBits P32 (~~~c) (A ++ X' ++ C) := by
    have := congrArg (~~~ ·) h
    simpa using this
  exact runBits_burst_ne P32 P32_msb A X X' C hl hn hne _ h'

/-- **CRC-16 detects every bit burst ≤ 16** (ARC, ArcFS) -/
theorem C09_crc16_detects (a b : Bytes) (c : BitVec 16) (h : BitBurst 16 a b) : crc16IBM a c ≠ crc16IBM b c := by
  obtain ⟨A, X, X', C, ha, hb, hl, hn, hne⟩ := h
  rw [crc16IBM_eq_bitwise, crc16IBM_eq_bitwise]
  unfold crcBitwise
  rw [ha, hb]
  exact runBits_burst_ne P16 P16_msb A X X' C hl hn hne _

/-- **bzip2's block CRC detects every bit burst ≤ 32** -/
theorem C09_bzcrc_detects (a b : Bytes) (h : BitBurstM 32 a b) : bzBlockCrc a ≠ bzBlockCrc b := by
  obtain ⟨A, X, X', C, ha, hb, hl, hn, hne⟩ := h
  rw [bzBlockCrc_eq_bitwise, bzBlockCrc_eq_bitwise]
  unfold crcBitwiseM
  rw [ha, hb]
  intro h
  have h' : runBitsM PBz 0xFFFFFFFF#32 (A ++ X ++ C) = runBitsM PBz 0xFFFFFFFF#32 (A ++ X' ++ C) := by
    have := congrArg (~~~ ·) h
    simpa using this
  exact C09_bzcrc_detects_burst A X X' C hl hn hne _ h'

/-- in particular every single-bit flip and every substitution of up to 4 (2) adjacent bytes -/
theorem C09_crc32_detects_bytes (a b : Bytes) (c : BitVec 32) (h : ByteBurst 4 a b) : crc32A a c ≠ crc32A b c :=
  C09_crc32_detects a b c (byteBurst_bitBurst 4 a b h)

theorem C09_crc16_detects_bytes (a b : Bytes) (c : BitVec 16) (h : ByteBurst 2 a b) : crc16IBM a c ≠ crc16IBM b c :=
  C09_crc16_detects a b c (byteBurst_bitBurst 2 a b h)

example : crc32A [1, 2, 3, 4, 5] 0 ≠ crc32A [1, 2, 7, 4, 5] 0 :=
  C09_crc32_detects_bytes _ _ _ ⟨[1, 2], [3], [7], [4, 5], rfl, rfl, rfl, by decide, by decide⟩

/-! ## the gates: accept ⇒ stored check = check(output) ∧ stored length = length -/

theorem C09_gate_gzip (dec : Bytes → Option Bytes) (f out : Bytes) (h : gzipDepack dec f = some out) :
    ∃ p, gzipDataStart f = some p ∧ dec (slice f p (f.length - p - 8)) = some out ∧
      le32 f (f.length - 8) = (crc32A out 0).toNat ∧ sext32 (le32 f (f.length - 4)) = out.length :=
  gate_gzip dec f out h

theorem C09_gate_zip (inflate : Bytes → Nat → Option Bytes) (junk : Bytes) (st : ZipStat) (tail : Option Bytes)
    (out : Bytes) (hc : st.compSize ≠ 0) (h : zipExtract inflate junk st tail = some out) :
    st.crc32 = (crc32A out 0).toNat ∧ st.uncompSize = out.length :=
  gate_zip inflate junk st tail out hc h

/-- with the reader's central-directory sanity test in front, no hypothesis on `compSize` is
    needed: any accepted member of non-zero (and non-escape) declared size passed the CRC -/
theorem C09_gate_zip_member (inflate : Bytes → Nat → Option Bytes) (junk : Bytes) (st : ZipStat)
    (tail : Option Bytes) (out : Bytes) (h0 : st.uncompSize ≠ 0) (h1 : st.uncompSize ≠ 0xFFFFFFFF)
    (h : zipMember inflate junk st tail = some out) :
    st.crc32 = (crc32A out 0).toNat ∧ st.uncompSize = out.length :=
  gate_zip_member inflate junk st tail out h0 h1 h

example : zipMember (fun _ _ => none) [0xbe, 0xbe, 0xbe] ⟨8, 0, 0, 3, 0x352441c2⟩ (some [1, 2, 3]) = none := by
  decide +kernel

theorem C09_gate_bzip2 (blocks : List (BitVec 32 × Bytes)) (sc : BitVec 32) (out : Bytes)
    (h : bzDepack blocks sc = some out) :
    (∀ b ∈ blocks, b.1 = bzBlockCrc b.2) ∧ out = (blocks.map (·.2)).flatten ∧
      (Crc.Gen.bzStreamCrcDead = false → sc = bzStreamCrc 0 (blocks.map (·.2))) := by
  have := gate_bz 0 [] blocks sc out h
  simpa using this

/-- **Finding (weakness, not a violation of the quantified property):** in the source as it is
    (`Gen.bzStreamCrcDead`, regenerated from bunzip2.c on every run), the stored bzip2 *stream* CRC
    never influences the verdict — `write_bunzip_data` returns `gotcount` (0) at the end-of-stream
    header, so `decrunch_bzip2` does not reach its `headerCRC == totalCRC` test.  Every block is
    still gated by its own CRC (`C09_gate_bzip2`), which is what the rejection theorem rests on. -/
theorem C09_bzip2_stream_crc_unchecked (hd : Crc.Gen.bzStreamCrcDead = true)
    (blocks : List (BitVec 32 × Bytes)) (sc sc' : BitVec 32) :
    bzDepack blocks sc = bzDepack blocks sc' :=
  bz_stream_crc_ignored hd 0 [] blocks sc sc'

theorem C09_gate_xz (hdr bh : Bytes) (chunks : List Bytes) (check : Nat) (index : Bytes) (icrc : Nat)
    (footer out : Bytes) (h : xzAccept hdr bh chunks check index icrc footer = some out) :
    out = chunks.flatten ∧ check = (crc32A out 0).toNat ∧ xzStreamHeader hdr = some 1 ∧
      xzBlockHeaderOk bh = true ∧ xzIndexOk index icrc = true ∧ xzFooterOk footer index.length 1 = true :=
  gate_xz hdr bh chunks check index icrc footer out h

theorem C09_gate_arc (env : ArcEnv) (f out : Bytes) (h : arcDepack env f = some out) :
    ∃ pos, le16 f (pos + 23) = (crc16IBM out 0).toNat :=
  gate_arc env f out h

theorem C09_gate_arcfs (env : ArcEnv) (f out : Bytes) (h : arcfsDepack env f = some out) :
    ∃ pos, le16 f (pos + 26) = 0 ∨ le16 f (pos + 26) = (crc16IBM out 0).toNat :=
  gate_arcfs env f out h

theorem C09_gate_lzx (env : LzxEnv) (f out : Bytes) (h : lzxDepack env f = some out) :
    ∃ pos, le32 f (pos + 22) = (crc32A out 0).toNat ∧
      le32 f (pos + 26) = lzxHeaderCrc (slice f pos 31) (slice f (pos + 31) (u8 f (pos + 30)))
        (slice f (pos + 31 + u8 f (pos + 30)) (u8 f (pos + 14))) :=
  gate_lzx env f out h


/-! ### non-vacuity: concrete archives (made by zlib / liblzma / our writers from the payload `abc`)
that the gate models accept with the payload, and single faults that they refuse -/

def exPayload : Bytes := [0x61, 0x62, 0x63]
def exGz : Bytes := [0x1f, 0x8b, 0x08, 0x08, 0x00, 0x00, 0x00, 0x00, 0x00, 0x03, 0x61, 0x00, 0x4b, 0x4c, 0x4a, 0x06, 0x00,
  0xc2, 0x41, 0x24, 0x35, 0x03, 0x00, 0x00, 0x00]
/-- stand-in for inflate on this one stream -/
def exInflate (c : Bytes) : Option Bytes := if c = [0x4b, 0x4c, 0x4a, 0x06, 0x00] then some exPayload else none
example : gzipDepack exInflate exGz = some exPayload := by decide +kernel
/-- one flipped bit in the stored CRC-32 (0xc2 → 0xc3), one in ISIZE -/
example : gzipDepack exInflate (exGz.set 17 0xc3) = none := by decide +kernel
example : gzipDepack exInflate (exGz.set 21 0x02) = none := by decide +kernel
/-- a decoder that returns a payload with one flipped bit is refused -/
example : gzipDepack (fun _ => some [0x61, 0x62, 0x62]) exGz = none := by decide +kernel

def exEnv : ArcEnv := { unpack := fun _ _ _ _ => none, excl := fun _ => false, limit := 512 * 2 ^ 20 }
def exArc : Bytes := [0x1a, 0x02, 0x41, 0x2e, 0x4d, 0x4f, 0x44, 0x00, 0x00, 0x00, 0x00, 0x00, 0x00, 0x00, 0x00, 0x03, 0x00,
  0x00, 0x00, 0x00, 0x00, 0x00, 0x00, 0x38, 0x97, 0x03, 0x00, 0x00, 0x00, 0x61, 0x62, 0x63, 0x1a, 0x00]
example : arcDepack exEnv exArc = some exPayload := by decide +kernel
example : arcDepack exEnv (exArc.set 30 0x63) = none := by decide +kernel     -- data byte substituted
example : arcDepack exEnv (exArc.set 23 0x39) = none := by decide +kernel     -- CRC-16 field, one bit

def exLzx : Bytes := [0x4c, 0x5a, 0x58, 0x00, 0x0c, 0x00, 0x0a, 0x04, 0x00, 0x00, 0x00, 0x00, 0x03, 0x00, 0x00, 0x00, 0x03,
  0x00, 0x00, 0x00, 0x0a, 0x00, 0x00, 0x00, 0x00, 0x0a, 0x00, 0x00, 0x10, 0x27, 0xc4, 0xd1, 0xc2, 0x41, 0x24, 0x35, 0x2b,
  0xeb, 0x3a, 0x72, 0x08, 0x73, 0x6f, 0x6e, 0x67, 0x2e, 0x6d, 0x6f, 0x64, 0x61, 0x62, 0x63]
def exLzxEnv : LzxEnv := { unpack := fun _ _ _ => none, excl := fun _ => false, limit := 512 * 2 ^ 20 }
example : lzxDepack exLzxEnv exLzx = some exPayload := by decide +kernel
example : lzxDepack exLzxEnv (exLzx.set 50 0x60) = none := by decide +kernel  -- data
example : lzxDepack exLzxEnv (exLzx.set 42 0x6e) = none := by decide +kernel  -- file name: header CRC
example : lzxDepack exLzxEnv (exLzx.set 32 0xc3) = none := by decide +kernel  -- data CRC field (header CRC catches it)

example : zipExtract (fun _ _ => some exPayload) [] ⟨8, 0, 5, 3, 0x352441c2⟩ (some [1, 2, 3, 4, 5]) = some exPayload := by
  decide +kernel
example : zipExtract (fun _ _ => some exPayload) [] ⟨8, 0, 5, 3, 0x352441c3⟩ (some [1, 2, 3, 4, 5]) = none := by
  decide +kernel
example : zipExtract (fun _ _ => some exPayload) [] ⟨0, 0, 3, 3, 0x352441c2⟩ (some [0x61, 0x62, 0x63, 0x50, 0x4b]) = some exPayload := by
  decide +kernel

example : bzDepack [(0x648cbb73#32, exPayload)] 0x648cbb73#32 = some exPayload := by decide +kernel
example : bzDepack [(0x648cbb72#32, exPayload)] 0x648cbb73#32 = none := by decide +kernel
example : bzDepack [(0x648cbb73#32, [0x61, 0x62, 0x62])] 0x648cbb73#32 = none := by decide +kernel

def exXzHdr : Bytes := [0xfd, 0x37, 0x7a, 0x58, 0x5a, 0x00, 0x00, 0x01, 0x69, 0x22, 0xde, 0x36]
def exXzBh : Bytes := [0x02, 0x00, 0x21, 0x01, 0x16, 0x00, 0x00, 0x00, 0x74, 0x2f, 0xe5, 0xa3]
def exXzFooter : Bytes := [0x90, 0x42, 0x99, 0x0d, 0x01, 0x00, 0x00, 0x00, 0x00, 0x01, 0x59, 0x5a]
example : xzAccept exXzHdr exXzBh [[0x61], [0x62, 0x63]] 891568578 [0x00, 0x01, 0x17, 0x03] 3154927623 exXzFooter
    = some exPayload := by decide +kernel
example : xzAccept exXzHdr exXzBh [[0x61], [0x62, 0x63]] 891568579 [0x00, 0x01, 0x17, 0x03] 3154927623 exXzFooter
    = none := by decide +kernel
example : xzAccept (exXzHdr.set 7 0x00) exXzBh [[0x61], [0x62, 0x63]] 891568578 [0x00, 0x01, 0x17, 0x03] 3154927623 exXzFooter
    = none := by decide +kernel      -- check type byte hit: the header CRC refuses

/-! ## rejection -/

theorem toNat32_ne {a b : BitVec 32} (h : a ≠ b) : a.toNat ≠ b.toNat := fun e => h (BitVec.eq_of_toNat_eq e)
theorem toNat16_ne {a b : BitVec 16} (h : a ≠ b) : a.toNat ≠ b.toNat := fun e => h (BitVec.eq_of_toNat_eq e)

/-- **gzip**: the stored CRC-32 is that of the packed payload `orig`; whatever the inflater made of
    the damaged deflate data, an output within one ≤ 32-bit burst of `orig` is refused. -/
theorem C09_reject_gzip (dec : Bytes → Option Bytes) (f orig out : Bytes)
    (hs : le32 f (f.length - 8) = (crc32A orig 0).toNat) (hb : BitBurst 32 orig out) :
    gzipDepack dec f ≠ some out := by
  intro h
  obtain ⟨_, _, _, hc, _⟩ := C09_gate_gzip dec f out h
  exact toNat32_ne (C09_crc32_detects orig out 0 hb) (hs.symm.trans hc)

/-- gzip, damage in the trailer: the inflater still yields `orig` but the stored CRC field holds
    anything else than its CRC (e.g. one flipped bit), or ISIZE anything else than its length -/
theorem C09_reject_gzip_field (dec : Bytes → Option Bytes) (f orig : Bytes)
    (hf : le32 f (f.length - 8) ≠ (crc32A orig 0).toNat ∨ sext32 (le32 f (f.length - 4)) ≠ orig.length) :
    gzipDepack dec f ≠ some orig := by
  intro h
  obtain ⟨_, _, _, hc, hl⟩ := C09_gate_gzip dec f orig h
  rcases hf with h1 | h1
  · exact h1 hc
  · exact h1 hl

/-- a single-bit flip of a 32-bit little-endian field changes its value -/
theorem flip_changes_value (v k : Nat) : v ^^^ (2 ^ k) ≠ v := by
  intro h
  have := congrArg (· ^^^ v) h
  simp only [Nat.xor_assoc, Nat.xor_comm (2 ^ k) v, Nat.xor_self] at this
  rw [← Nat.xor_assoc, Nat.xor_self, Nat.zero_xor] at this
  have h2 : 0 < 2 ^ k := Nat.two_pow_pos k
  omega

theorem C09_reject_zip (inflate : Bytes → Nat → Option Bytes) (junk : Bytes) (st : ZipStat) (tail : Option Bytes)
    (orig out : Bytes) (hc : st.compSize ≠ 0) (hs : st.crc32 = (crc32A orig 0).toNat) (hb : BitBurst 32 orig out) :
    zipExtract inflate junk st tail ≠ some out := by
  intro h
  obtain ⟨h1, _⟩ := C09_gate_zip inflate junk st tail out hc h
  exact toNat32_ne (C09_crc32_detects orig out 0 hb) (hs.symm.trans h1)

theorem C09_reject_zip_field (inflate : Bytes → Nat → Option Bytes) (junk : Bytes) (st : ZipStat) (tail : Option Bytes)
    (orig : Bytes) (hc : st.compSize ≠ 0)
    (hf : st.crc32 ≠ (crc32A orig 0).toNat ∨ st.uncompSize ≠ orig.length) :
    zipExtract inflate junk st tail ≠ some orig := by
  intro h
  obtain ⟨h1, h2⟩ := C09_gate_zip inflate junk st tail orig hc h
  rcases hf with h | h
  · exact h h1
  · exact h h2

/-- **bzip2**: if some block decodes to data within one ≤ 32-bit burst of what was packed under its
    (intact) header CRC, or a block's header CRC field is anything but the CRC of the data it decodes
    to (e.g. one flipped bit), the stream is refused -/
theorem C09_reject_bzip2 (blocks : List (BitVec 32 × Bytes)) (sc : BitVec 32) (out : Bytes)
    (hbad : (∃ b ∈ blocks, ∃ orig, b.1 = bzBlockCrc orig ∧ BitBurstM 32 orig b.2) ∨
            (∃ b ∈ blocks, b.1 ≠ bzBlockCrc b.2)) :
    bzDepack blocks sc ≠ some out := by
  intro h
  obtain ⟨h1, _, _⟩ := C09_gate_bzip2 blocks sc out h
  rcases hbad with ⟨b, hb, orig, ho, hburst⟩ | ⟨b, hb, hne⟩
  · exact C09_bzcrc_detects orig b.2 hburst (ho.symm.trans (h1 b hb))
  · exact hne (h1 b hb)

theorem C09_reject_xz (hdr bh : Bytes) (chunks : List Bytes) (check : Nat) (index : Bytes) (icrc : Nat)
    (footer orig out : Bytes) (hs : check = (crc32A orig 0).toNat) (hb : BitBurst 32 orig out) :
    xzAccept hdr bh chunks check index icrc footer ≠ some out := by
  intro h
  obtain ⟨_, h1, _⟩ := C09_gate_xz hdr bh chunks check index icrc footer out h
  exact toNat32_ne (C09_crc32_detects orig out 0 hb) (hs.symm.trans h1)

theorem C09_reject_xz_field (hdr bh : Bytes) (chunks : List Bytes) (check : Nat) (index : Bytes) (icrc : Nat)
    (footer : Bytes) (hf : check ≠ (crc32A chunks.flatten 0).toNat) :
    xzAccept hdr bh chunks check index icrc footer = none := by
  cases h : xzAccept hdr bh chunks check index icrc footer with
  | none => rfl
  | some out =>
    obtain ⟨h0, h1, _⟩ := C09_gate_xz hdr bh chunks check index icrc footer out h
    rw [h0] at h1
    exact absurd h1 hf

/-- **ARC**: every CRC-16 field of the (damaged) archive still holds the CRC of `orig` or is
    otherwise unable to vouch for `out`: if no 16-bit field at an entry's CRC position equals
    `crc16(out)` the archive is refused; in particular when the fields hold `crc16(orig)` and `out`
    is within one ≤ 16-bit burst of `orig`. -/
theorem C09_reject_arc (env : ArcEnv) (f orig out : Bytes)
    (hs : ∀ pos, le16 f (pos + 23) = (crc16IBM orig 0).toNat ∨ le16 f (pos + 23) ≠ (crc16IBM out 0).toNat)
    (hb : BitBurst 16 orig out) : arcDepack env f ≠ some out := by
  intro h
  obtain ⟨pos, hc⟩ := C09_gate_arc env f out h
  rcases hs pos with h1 | h1
  · exact toNat16_ne (C09_crc16_detects orig out 0 hb) (h1.symm.trans hc)
  · exact h1 hc

/-- **ArcFS**, with the scope hypothesis that no entry's stored CRC is 0 (= unchecked by design) -/
theorem C09_reject_arcfs (env : ArcEnv) (f orig out : Bytes)
    (hnz : ∀ pos, le16 f (pos + 26) ≠ 0)
    (hs : ∀ pos, le16 f (pos + 26) = (crc16IBM orig 0).toNat ∨ le16 f (pos + 26) ≠ (crc16IBM out 0).toNat)
    (hb : BitBurst 16 orig out) : arcfsDepack env f ≠ some out := by
  intro h
  obtain ⟨pos, hc⟩ := C09_gate_arcfs env f out h
  rcases hc with hc | hc
  · exact hnz pos hc
  · rcases hs pos with h1 | h1
    · exact toNat16_ne (C09_crc16_detects orig out 0 hb) (h1.symm.trans hc)
    · exact h1 hc

theorem C09_reject_lzx (env : LzxEnv) (f orig out : Bytes)
    (hs : ∀ pos, le32 f (pos + 22) = (crc32A orig 0).toNat ∨ le32 f (pos + 22) ≠ (crc32A out 0).toNat)
    (hb : BitBurst 32 orig out) : lzxDepack env f ≠ some out := by
  intro h
  obtain ⟨pos, hc, _⟩ := C09_gate_lzx env f out h
  rcases hs pos with h1 | h1
  · exact toNat32_ne (C09_crc32_detects orig out 0 hb) (h1.symm.trans hc)
  · exact h1 hc

/-- **C09_reject** — the summary used by the check: for the three check codes, a gate that only
    accepts `stored = check(out)` never accepts an output within one burst of the payload whose
    check is stored, and never accepts the payload itself under a stored value hit by a flip. -/
theorem C09_reject (orig out : Bytes) :
    (BitBurst 32 orig out → (crc32A orig 0).toNat ≠ (crc32A out 0).toNat) ∧
    (BitBurst 16 orig out → (crc16IBM orig 0).toNat ≠ (crc16IBM out 0).toNat) ∧
    (BitBurstM 32 orig out → bzBlockCrc orig ≠ bzBlockCrc out) ∧
    (∀ k, (crc32A orig 0).toNat ^^^ 2 ^ k ≠ (crc32A orig 0).toNat) ∧
    (∀ k, (crc16IBM orig 0).toNat ^^^ 2 ^ k ≠ (crc16IBM orig 0).toNat) :=
  ⟨fun h => toNat32_ne (C09_crc32_detects orig out 0 h), fun h => toNat16_ne (C09_crc16_detects orig out 0 h),
   C09_bzcrc_detects orig out, fun k => flip_changes_value _ k, fun k => flip_changes_value _ k⟩

example : BitBurst 32 [0x4d, 0x2e, 0x4b, 0x2e] [0x4d, 0x2e, 0x4a, 0x2e] :=
  byteBurst_bitBurst 4 _ _ ⟨[0x4d, 0x2e], [0x4b], [0x4a], [0x2e], rfl, rfl, rfl, by decide, by decide⟩

end Xmp.C09
