import XmpProofs.Crc
import XmpProofs.Gates
/-!
# C09 — Corrupted archives are rejected, never silently mis-decoded

Property theorems over `XmpModel.Crc` (the three check codes, table-driven as in the C, with
the tables generated from the working tree) and `XmpModel.Gates` (the accept/reject logic of
each depacker with the entropy decoder as a parameter).

Shape of the claim.  For every format, *for any entropy decoder*:

* `C09_gate_<fmt>`   accept ⇒ stored check = check(output) (∧ stored length = length where the
                     format stores one);
* `C09_reject_<fmt>` hence, if the output decoded from the damaged archive differs from the
                     packed payload by an error burst confined to ≤ 32 (CRC-16: ≤ 16) consecutive
                     bits — in particular by one flipped bit or one substituted byte — while the
                     stored check is intact, or if the stored check/length field itself was hit
                     (any change, in particular a single-bit flip) while the output is intact,
                     the depacker fails.

**Outside the theorems (residual class, stated explicitly):** damage that the entropy decoder
spreads over more than one burst *and* whose check value collides (probability 2⁻³² resp. 2⁻¹⁶
per damaged archive for a decoder that randomises its output) cannot be excluded by any proof
about the gate: the check code has only 32 (16) bits.  ArcFS members whose stored CRC is 0 are
unchecked by design (`arcfs.c`), and a zip central-directory record whose compressed size is
damaged to 0 bypasses miniz's CRC comparison (`zipExtract`, hypothesis `compSize ≠ 0`).
-/
namespace Xmp.C09
open Xmp Xmp.Crc Xmp.Gates

/-! ## the check codes -/

/-- **Table-driven = bitwise**, for all messages and start values: the generated 256-entry
    tables are verified entry by entry (`decide +kernel`), then lifted by induction. -/
theorem C09_crc_table_eq_bitwise :
    (∀ (m : Bytes) (c : BitVec 32), crc32ANoInv m c = crcBitwise P32 c m) ∧
    (∀ (m : Bytes) (c : BitVec 32), crc32A m c = ~~~ crcBitwise P32 (~~~ c) m) ∧
    (∀ (m : Bytes) (c : BitVec 16), crc16IBM m c = crcBitwise P16 c m) ∧
    (∀ (m : Bytes), bzBlockCrc m = ~~~ crcBitwiseM PBz 0xFFFFFFFF#32 m) :=
  ⟨crc32ANoInv_eq_bitwise, crc32A_eq_bitwise, crc16IBM_eq_bitwise, bzBlockCrc_eq_bitwise⟩

example : crc32A [0x31, 0x32, 0x33, 0x34, 0x35, 0x36, 0x37, 0x38, 0x39] 0 = 0xCBF43926#32 := by decide +kernel
example : crc16IBM [0x31, 0x32, 0x33, 0x34, 0x35, 0x36, 0x37, 0x38, 0x39] 0 = 0xBB3D#16 := by decide +kernel
example : bzBlockCrc [0x31, 0x32, 0x33, 0x34, 0x35, 0x36, 0x37, 0x38, 0x39] = 0xFC891918#32 := by decide +kernel

/-- **Linearity**: for bit strings of equal length, `crc_s(X) ⊕ crc_t(Y) = crc_{s⊕t}(X ⊕ Y)`;
    with equal start values the right-hand side is the CRC, from register 0, of the error pattern. -/
theorem C09_crc_linear {w : Nat} (P : BitVec w) (X Y : List Bool) (h : X.length = Y.length) (s t : BitVec w) :
    runBits P s X ^^^ runBits P t Y = runBits P (s ^^^ t) (List.zipWith (· ^^ ·) X Y) :=
  runBits_linear P X Y h s t

example : runBits P32 5#32 [true, false, true] ^^^ runBits P32 5#32 [true, true, false]
    = runBits P32 0#32 [false, true, true] := by decide +kernel

/-- **Burst detection, bit level** (any reflected CRC whose polynomial has its top coefficient,
    i.e. `P.msb`): two messages that agree outside a window of at most `w` consecutive bits and
    differ inside it have different registers — whatever precedes, whatever follows, whatever the
    start value.  Every single-bit flip is the case `X.length = 1`. -/
theorem C09_crc_detects_burst {w : Nat} (P : BitVec w) (hP : P.msb = true) (A X X' C : List Bool)
    (hlen : X.length = X'.length) (hw : X.length ≤ w) (hne : X ≠ X') (s : BitVec w) :
    runBits P s (A ++ X ++ C) ≠ runBits P s (A ++ X' ++ C) :=
  runBits_burst_ne P hP A X X' C hlen hw hne s

example : runBits P16 0#16 ([true] ++ [true, false] ++ [false]) ≠ runBits P16 0#16 ([true] ++ [false, true] ++ [false]) :=
  C09_crc_detects_burst P16 P16_msb [true] [true, false] [false, true] [false] rfl (by decide) (by decide) _

/-- the same for the MSB-first CRC of bzip2 (needs the constant coefficient of the polynomial) -/
theorem C09_bzcrc_detects_burst (A X X' C : List Bool)
    (hlen : X.length = X'.length) (hw : X.length ≤ 32) (hne : X ≠ X') (s : BitVec 32) :
    runBitsM PBz s (A ++ X ++ C) ≠ runBitsM PBz s (A ++ X' ++ C) :=
  runBitsM_burst_ne PBz (by decide) A X X' C hlen hw hne s

/-- two payloads differ by a *byte burst* of at most `n` bytes -/
def ByteBurst (n : Nat) (a b : Bytes) : Prop :=
  ∃ A W W' C, a = A ++ W ++ C ∧ b = A ++ W' ++ C ∧ W.length = W'.length ∧ W.length ≤ n ∧ W ≠ W'

/-- two payloads differ by a *bit burst* of at most `n` consecutive bits (LSB-first bit order,
    the transmission order of the reflected CRCs; not byte aligned) -/
def BitBurst (n : Nat) (a b : Bytes) : Prop :=
  ∃ A X X' C, bitsLsb a = A ++ X ++ C ∧ bitsLsb b = A ++ X' ++ C ∧ X.length = X'.length ∧ X.length ≤ n ∧ X ≠ X'

/-- same for MSB-first order (bzip2) -/
def BitBurstM (n : Nat) (a b : Bytes) : Prop :=
  ∃ A X X' C, bitsMsb a = A ++ X ++ C ∧ bitsMsb b = A ++ X' ++ C ∧ X.length = X'.length ∧ X.length ≤ n ∧ X ≠ X'

theorem byteBurst_bitBurst (n : Nat) (a b : Bytes) (h : ByteBurst n a b) : BitBurst (8 * n) a b := by
  obtain ⟨A, W, W', C, ha, hb, hl, hn, hne⟩ := h
  refine ⟨bitsLsb A, bitsLsb W, bitsLsb W', bitsLsb C, ?_, ?_, ?_, ?_, ?_⟩
  · rw [ha, bitsLsb_append, bitsLsb_append]
  · rw [hb, bitsLsb_append, bitsLsb_append]
  · simp [length_bitsLsb, hl]
  · rw [length_bitsLsb]; omega
  · intro h; exact hne (bitsLsb_inj W W' hl h)

/-- a single flipped bit in one byte is a byte burst of length 1 -/
theorem flip_is_byteBurst (A C : Bytes) (x : UInt8) (k : Nat) (hk : k < 8) :
    ByteBurst 1 (A ++ [x] ++ C) (A ++ [x ^^^ (1 <<< k.toUInt8)] ++ C) := by
  refine ⟨A, [x], [x ^^^ (1 <<< k.toUInt8)], C, rfl, rfl, rfl, by simp, ?_⟩
  intro h
  have h1 : x = x ^^^ (1 <<< k.toUInt8) := by simpa using h
  have h2 : (1 : UInt8) <<< k.toUInt8 = 0 := by
    have := congrArg (x ^^^ ·) h1
    simp only [UInt8.xor_self, ← UInt8.xor_assoc, UInt8.zero_xor] at this
    exact this.symm
  revert h2
  have : k = 0 ∨ k = 1 ∨ k = 2 ∨ k = 3 ∨ k = 4 ∨ k = 5 ∨ k = 6 ∨ k = 7 := by omega
  rcases this with h | h | h | h | h | h | h | h <;> subst h <;> decide

/-- **CRC-32 detects every bit burst ≤ 32** (gzip, zip, xz, LZX) -/
theorem C09_crc32_detects (a b : Bytes) (c : BitVec 32) (h : BitBurst 32 a b) : crc32A a c ≠ crc32A b c := by
  obtain ⟨A, X, X', C, ha, hb, hl, hn, hne⟩ := h
  rw [crc32A_eq_bitwise, crc32A_eq_bitwise]
  unfold crcBitwise
  rw [ha, hb]
  intro h
  have h' : runBits P32 (~~~c) (A ++ X ++ C) = runBits P32 (~~~c) (A ++ X' ++ C) := by
    have := congrArg (~~~ ·) h
    simpa using this
  exact runBits_burst_ne P32 P32_msb A X X' C hl hn hne _ h'

/-- **CRC-16 detects every bit burst ≤ 16** (ARC, ArcFS) -/
theorem C09_crc16_detects (a b : Bytes) (c : BitVec 16) (h : BitBurst 16 a b) : crc16IBM a c ≠ crc16IBM b c := by
  obtain ⟨A, X, X', C, ha, hb, hl, hn, hne⟩ := h
  rw [crc16IBM_eq_bitwise, crc16IBM_eq_bitwise]
  unfold crcBitwise
  rw [ha, hb]
  exact runBits_burst_ne P16 P16_msb A X X' C hl hn hne _

/-- **bzip2's block CRC detects every bit burst ≤ 32** -/
theorem C09_bzcrc_detects (a b : Bytes) (h : BitBurstM 32 a b) : bzBlockCrc a ≠ bzBlockCrc b := by
  obtain ⟨A, X, X', C, ha, hb, hl, hn, hne⟩ := h
  rw [bzBlockCrc_eq_bitwise, bzBlockCrc_eq_bitwise]
  unfold crcBitwiseM
  rw [ha, hb]
  intro h
  have h' : runBitsM PBz 0xFFFFFFFF#32 (A ++ X ++ C) = runBitsM PBz 0xFFFFFFFF#32 (A ++ X' ++ C) := by
    have := congrArg (~~~ ·) h
    simpa using this
  exact C09_bzcrc_detects_burst A X X' C hl hn hne _ h'

/-- in particular every single-bit flip and every substitution of up to 4 (2) adjacent bytes -/
theorem C09_crc32_detects_bytes (a b : Bytes) (c : BitVec 32) (h : ByteBurst 4 a b) : crc32A a c ≠ crc32A b c :=
  C09_crc32_detects a b c (byteBurst_bitBurst 4 a b h)

theorem C09_crc16_detects_bytes (a b : Bytes) (c : BitVec 16) (h : ByteBurst 2 a b) : crc16IBM a c ≠ crc16IBM b c :=
  C09_crc16_detects a b c (byteBurst_bitBurst 2 a b h)

example : crc32A [1, 2, 3, 4, 5] 0 ≠ crc32A [1, 2, 7, 4, 5] 0 :=
  C09_crc32_detects_bytes _ _ _ ⟨[1, 2], [3], [7], [4, 5], rfl, rfl, rfl, by decide, by decide⟩

/-! ## the gates: accept ⇒ stored check = check(output) ∧ stored length = length -/

theorem C09_gate_gzip (dec : Bytes → Option Bytes) (f out : Bytes) (h : gzipDepack dec f = some out) :
    ∃ p, gzipDataStart f = some p ∧ dec (slice f p (f.length - p - 8)) = some out ∧
      le32 f (f.length - 8) = (crc32A out 0).toNat ∧ sext32 (le32 f (f.length - 4)) = out.length :=
  gate_gzip dec f out h

theorem C09_gate_zip (inflate : Bytes → Nat → Option Bytes) (junk : Bytes) (st : ZipStat) (tail : Option Bytes)
    (out : Bytes) (hc : st.compSize ≠ 0) (h : zipExtract inflate junk st tail = some out) :
    st.crc32 = (crc32A out 0).toNat ∧ st.uncompSize = out.length :=
  gate_zip inflate junk st tail out hc h

/-- with the reader's central-directory sanity test in front, no hypothesis on `compSize` is
    needed: any accepted member of non-zero (and non-escape) declared size passed the CRC -/
theorem C09_gate_zip_member (inflate : Bytes → Nat → Option Bytes) (junk : Bytes) (st : ZipStat)
    (tail : Option Bytes) (out : Bytes) (h0 : st.uncompSize ≠ 0) (h1 : st.uncompSize ≠ 0xFFFFFFFF)
    (h : zipMember inflate junk st tail = some out) :
    st.crc32 = (crc32A out 0).toNat ∧ st.uncompSize = out.length :=
  gate_zip_member inflate junk st tail out h0 h1 h

example : zipMember (fun _ _ => none) [0xbe, 0xbe, 0xbe] ⟨8, 0, 0, 3, 0x352441c2⟩ (some [1, 2, 3]) = none := by
  decide +kernel

/-! ### zip, the whole reader: EOCD search, central directory, member selection, local header -/

/-- **zip, whole-archive gate.**  If `decrunch_zip` accepts the file `f` (any inflater, any exclusion
    matcher), then some central-directory record at offset `p` — one that passed
    `mz_zip_reader_init`'s sanity tests, is a supported non-excluded file — was extracted, and unless
    its compressed size is 0 the output passed **that record's CRC-32 and uncompressed size**.  The
    local file header's own CRC/size fields and any data descriptor play no role (the reader never
    looks at them).  For a record whose 32-bit size fields do not hold the zip64 escape `0xFFFFFFFF`
    and that declares a non-zero size, the compressed size cannot be 0, so the CRC was compared. -/
theorem C09_gate_zip_archive (env : ZipEnv) (f out : Bytes) (h : zipDepack env f = some out) :
    ∃ p st lho, zipStat f p = some (st, lho) ∧ le32 f p = 0x02014b50 ∧ st.crc32 = le32 f (p + 16) ∧
      (st.compSize ≠ 0 → le32 f (p + 16) = (crc32A out 0).toNat ∧ st.uncompSize = out.length) ∧
      (st.compSize = 0 → out = env.junk st.uncompSize) ∧
      (le32 f (p + 20) ≠ 0xFFFFFFFF → le32 f (p + 24) ≠ 0xFFFFFFFF → le32 f (p + 24) ≠ 0 →
          le32 f (p + 16) = (crc32A out 0).toNat ∧ le32 f (p + 24) = out.length) := by
  obtain ⟨p, st, lho, hst, sane, c, _, _, _, g, j, e1, e2⟩ := gate_zipDepack env f out h
  refine ⟨p, st, lho, hst, sane.sig, c, ?_, j, ?_⟩
  · intro hc; rw [← c]; exact g hc
  · intro a b z
    have hc : st.compSize ≠ 0 := by rw [e1 a]; exact sane.sizes a b z
    rw [← c, ← e2 b]
    exact g hc

theorem C09_gate_bzip2 (blocks : List (BitVec 32 × Bytes)) (sc : BitVec 32) (out : Bytes)
    (h : bzDepack blocks sc = some out) :
    (∀ b ∈ blocks, b.1 = bzBlockCrc b.2) ∧ out = (blocks.map (·.2)).flatten ∧
      (Crc.Gen.bzStreamCrcDead = false → sc = bzStreamCrc 0 (blocks.map (·.2))) := by
  have := gate_bz 0 [] blocks sc out h
  simpa using this

/-- **Finding (weakness, not a violation of the quantified property):** in the source as it is
    (`Gen.bzStreamCrcDead`, regenerated from bunzip2.c on every run), the stored bzip2 *stream* CRC
    never influences the verdict — `write_bunzip_data` returns `gotcount` (0) at the end-of-stream
    header, so `decrunch_bzip2` does not reach its `headerCRC == totalCRC` test.  Every block is
    still gated by its own CRC (`C09_gate_bzip2`), which is what the rejection theorem rests on. -/
theorem C09_bzip2_stream_crc_unchecked (hd : Crc.Gen.bzStreamCrcDead = true)
    (blocks : List (BitVec 32 × Bytes)) (sc sc' : BitVec 32) :
    bzDepack blocks sc = bzDepack blocks sc' :=
  bz_stream_crc_ignored hd 0 [] blocks sc sc'

/-! ### bzip2: the stream CRC is compared (since /repo b6ac87c) -/

/-- the generated fact of the tree as it is: `write_bunzip_data` hands RETVAL_LAST_BLOCK to
    `decrunch_bzip2` at the end-of-stream header, so `headerCRC == totalCRC` is evaluated.
    (Should the source regress to the dead comparison, the generator flips the fact and this theorem
    — and with it the check — fails.) -/
theorem C09_bzip2_stream_crc_live : Crc.Gen.bzStreamCrcDead = false := rfl

/-- **bzip2, stream level**: acceptance ⇒ every block header CRC is the CRC of the block's data
    **and** the stored stream CRC equals the combination `t ↦ rotl(t,1) ^ blockCRC` of all block CRCs -/
theorem C09_gate_bzip2_stream (blocks : List (BitVec 32 × Bytes)) (sc : BitVec 32) (out : Bytes)
    (h : bzDepack blocks sc = some out) :
    (∀ b ∈ blocks, b.1 = bzBlockCrc b.2) ∧ out = (blocks.map (·.2)).flatten ∧
      sc = bzStreamCrc 0 (blocks.map (·.2)) := by
  obtain ⟨h1, h2, h3⟩ := C09_gate_bzip2 blocks sc out h
  exact ⟨h1, h2, h3 C09_bzip2_stream_crc_live⟩

/-- the combination rule loses nothing: it is injective in the block CRC and in the running total,
    hence a change of exactly one block CRC changes the stream CRC, whatever precedes and follows -/
theorem C09_bzip2_combine_injective :
    (∀ t d d' : BitVec 32, bzCombine t d = bzCombine t d' → d = d') ∧
    (∀ t t' d : BitVec 32, bzCombine t d = bzCombine t' d → t = t') ∧
    (∀ (t : BitVec 32) (A C : List Bytes) (d d' : Bytes), bzBlockCrc d ≠ bzBlockCrc d' →
        bzStreamCrc t (A ++ d :: C) ≠ bzStreamCrc t (A ++ d' :: C)) :=
  ⟨bzCombine_inj_data, bzCombine_inj_total, bzStreamCrc_single⟩

/-- **bzip2, damage caught by the stream CRC**: the stream is refused
    * if the stored stream CRC is anything but the combination of the decoded blocks' CRCs (the
      stream-CRC field itself was hit), or
    * if the stored stream CRC is intact (that of the packed blocks `A ++ d :: C`) and exactly one
      block decodes to data `d'` of a different CRC — in particular within one ≤ 32-bit burst of `d` —
      *even when that block's own header CRC was altered to match `d'`*. -/
theorem C09_reject_bzip2_stream (blocks : List (BitVec 32 × Bytes)) (sc : BitVec 32) (out : Bytes)
    (hbad : sc ≠ bzStreamCrc 0 (blocks.map (·.2)) ∨
            (∃ A C d d', blocks.map (·.2) = A ++ d' :: C ∧ sc = bzStreamCrc 0 (A ++ d :: C) ∧
                (bzBlockCrc d ≠ bzBlockCrc d' ∨ BitBurstM 32 d d'))) :
    bzDepack blocks sc ≠ some out := by
  intro h
  obtain ⟨_, _, h3⟩ := C09_gate_bzip2_stream blocks sc out h
  rcases hbad with hne | ⟨A, C, d, d', hb, hs, hd⟩
  · exact hne h3
  · have hd' : bzBlockCrc d ≠ bzBlockCrc d' := by
      rcases hd with hd | hd
      · exact hd
      · exact C09_bzcrc_detects d d' hd
    rw [hb] at h3
    exact bzStreamCrc_single 0 A C d d' hd' (hs.symm.trans h3)

/-- flipping one bit of a 32-bit field changes it -/
theorem bv_flip_ne (v : BitVec 32) (k : Nat) (hk : k < 32) : v ^^^ (1#32 <<< k) ≠ v := by
  intro h
  have h1 : (1#32 <<< k) = 0#32 := by
    have := congrArg (v ^^^ ·) h
    simpa [← BitVec.xor_assoc] using this
  have h2 := congrArg (fun x => x.getLsbD k) h1
  simp [hk] at h2

/-- **single damaged CRC field**: if a stream is accepted, the same stream with one bit flipped in
    the stored stream CRC, or in one block's header CRC (whatever the stream CRC then is), is refused -/
theorem C09_reject_bzip2_crc_field_flip (k : Nat) (hk : k < 32) :
    (∀ blocks sc out, bzDepack blocks sc = some out → bzDepack blocks (sc ^^^ (1#32 <<< k)) = none) ∧
    (∀ A C hc d sc out sc', bzDepack (A ++ (hc, d) :: C) sc = some out →
        bzDepack (A ++ (hc ^^^ (1#32 <<< k), d) :: C) sc' = none) := by
  refine ⟨?_, ?_⟩
  · intro blocks sc out h
    obtain ⟨_, _, h3⟩ := C09_gate_bzip2_stream blocks sc out h
    cases h' : bzDepack blocks (sc ^^^ (1#32 <<< k)) with
    | none => rfl
    | some o =>
      obtain ⟨_, _, h3'⟩ := C09_gate_bzip2_stream blocks _ o h'
      exact absurd (h3'.trans h3.symm) (bv_flip_ne sc k hk)
  · intro A C hc d sc out sc' h
    obtain ⟨h1, _, _⟩ := C09_gate_bzip2_stream _ sc out h
    have e1 : hc = bzBlockCrc d := h1 (hc, d) (by simp)
    cases h' : bzDepack (A ++ (hc ^^^ (1#32 <<< k), d) :: C) sc' with
    | none => rfl
    | some o =>
      obtain ⟨h1', _, _⟩ := C09_gate_bzip2_stream _ sc' o h'
      have e2 : hc ^^^ (1#32 <<< k) = bzBlockCrc d := h1' (hc ^^^ (1#32 <<< k), d) (by simp)
      exact absurd (e2.trans e1.symm) (bv_flip_ne hc k hk)

theorem C09_gate_xz (hdr bh : Bytes) (chunks : List Bytes) (check : Nat) (index : Bytes) (icrc : Nat)
    (footer out : Bytes) (h : xzAccept hdr bh chunks check index icrc footer = some out) :
    out = chunks.flatten ∧ check = (crc32A out 0).toNat ∧ xzStreamHeader hdr = some 1 ∧
      xzBlockHeaderOk bh = true ∧ xzIndexOk index icrc = true ∧ xzFooterOk footer index.length 1 = true :=
  gate_xz hdr bh chunks check index icrc footer out h

/-! ### xz, byte level: the whole container as `xz_dec_stream.c` walks it, any LZMA2 decoder -/

/-- **xz, byte-level gate.**  If `decrunch_xz` accepts the file `f` (for *any* LZMA2 decoder `lz`),
    then there is a parse `P` (blocks with their offsets, Index and Stream Footer offsets) such that
    the output is the concatenation of the blocks' outputs and **every stored CRC-32 of the container
    equals the computed one**: Stream Header flags, every Block Header, every Block's Check field
    against the CRC-32 of that block's decoded output (check type CRC-32), the Index, the Stream
    Footer; moreover the Index holds exactly one Record per Block whose running size hash equals the
    blocks', the Backward Size is the Index size and the footer's Stream Flags equal the header's. -/
theorem C09_gate_xz_stream (lz : Nat → Bytes → Option (Nat × List Bytes)) (f out : Bytes)
    (h : xzDepack lz f = some out) :
    ∃ P : XzParse, xzParse lz f = some P ∧ out = P.output ∧
      -- Stream Header
      slice f 0 6 = [0xfd, 0x37, 0x7a, 0x58, 0x5a, 0x00] ∧ (crc32A (slice f 6 2) 0).toNat = le32 f 8 ∧
      u8 f 6 = 0 ∧ u8 f 7 = P.ct ∧
      -- Blocks
      (∀ b ∈ P.blocks,
        (crc32A (slice f b.pos (b.hdr.size - 4)) 0).toNat = le32 f (b.pos + (b.hdr.size - 4)) ∧
        lz b.hdr.props (f.drop (b.pos + b.hdr.size)) = some (b.consumed, b.chunks) ∧
        xzSizeOk b.hdr.comp b.consumed = true ∧ xzSizeOk b.hdr.uncomp b.chunks.flatten.length = true ∧
        (slice f (b.pos + b.hdr.size + b.consumed) ((4 - b.consumed % 4) % 4)).any (· != 0) = false ∧
        (P.ct = 1 → le32 f b.checkPos = (crc32A b.chunks.flatten 0).toNat)) ∧
      -- Index
      u8 f P.indexPos = 0 ∧
      (crc32A (slice f P.indexPos (P.footerPos - 4 - P.indexPos)) 0).toNat = le32 f (P.footerPos - 4) ∧
      (∃ q r, xzVli f (P.indexPos + 1) f.length = some (P.blocks.length, q) ∧
              xzIndexRecords f P.blocks.length q {} = some (r, xzBlocksHash P.ct P.blocks)) ∧
      -- Stream Footer
      slice f (P.footerPos + 10) 2 = [0x59, 0x5a] ∧
      (crc32A (slice f (P.footerPos + 4) 6) 0).toNat = le32 f P.footerPos ∧
      (P.footerPos - 4 - P.indexPos) / 4 = le32 f (P.footerPos + 4) ∧
      u8 f (P.footerPos + 8) = u8 f 6 ∧ u8 f (P.footerPos + 9) = u8 f 7 := by
  obtain ⟨P, hp, ho, ok⟩ := gate_xzDepack lz f out h
  obtain ⟨m, c, z, t, _⟩ := gate_xzStreamHeader f P.ct ok.header
  obtain ⟨f1, f2, f3, f4, f5⟩ := xzFooterOk_file f _ _ _ ok.footer
  obtain ⟨q, r, i1, i2, _⟩ := ok.index.count
  refine ⟨P, hp, ho, m, c, z, t.symm, ?_, ok.indicator, ok.index.crc, ⟨q, r, i1, i2⟩, f1, f2, f3, by rw [f4, z], by rw [f5, t]⟩
  intro b hb
  have bo := ok.blocks b hb
  exact ⟨(gate_xzBlockHeaderAt f b.pos b.hdr bo.hdr).2.2, bo.dec, bo.comp, bo.uncomp, bo.pad, bo.check⟩

/-- the per-block statement at payload level: with check type CRC-32, the accepted output is the
    concatenation of pieces each of which passed its own stored CRC-32 -/
theorem C09_gate_xz_stream_payload (lz : Nat → Bytes → Option (Nat × List Bytes)) (f out : Bytes)
    (h : xzDepack lz f = some out) (hc : u8 f 7 = 1) :
    ∃ parts : List (Nat × Bytes), out = (parts.map (·.2)).flatten ∧
      ∀ x ∈ parts, le32 f x.1 = (crc32A x.2 0).toNat := by
  obtain ⟨P, _, ho, _, _, _, hct, hb, _⟩ := C09_gate_xz_stream lz f out h
  refine ⟨P.blocks.map (fun b => (b.checkPos, b.chunks.flatten)), ?_, ?_⟩
  · rw [ho]; unfold XzParse.output; simp [List.map_map, Function.comp_def]
  · intro x hx
    obtain ⟨b, hb', rfl⟩ := List.mem_map.mp hx
    exact (hb b hb').2.2.2.2.2 (hct.symm.trans hc)

/-- **xz: the Index agrees with the blocks.**  In an accepted file the Index holds exactly one
    Record per decoded Block, and the Records' total Uncompressed Size equals the length of the
    output, their total Unpadded Size the blocks' header + compressed data + Check sizes (both
    mod 2⁶⁴, the width of `vli_type`). -/
theorem C09_xz_index_matches_blocks (lz : Nat → Bytes → Option (Nat × List Bytes)) (f out : Bytes)
    (h : xzDepack lz f = some out) :
    ∃ (P : XzParse) (recs : List (Nat × Nat)) (q : Nat), xzParse lz f = some P ∧
      xzVli f (P.indexPos + 1) f.length = some (P.blocks.length, q) ∧
      xzRecs f P.blocks.length q = some recs ∧ recs.length = P.blocks.length ∧
      (recs.map (·.2)).sum % 2 ^ 64 = out.length % 2 ^ 64 ∧
      (recs.map (·.1)).sum % 2 ^ 64 =
        (P.blocks.map (fun b => b.hdr.size + b.consumed + xzCheckSize P.ct)).sum % 2 ^ 64 := by
  obtain ⟨P, hp, ho, _, _, _, _, _, _, _, ⟨q, r, hq, hr⟩, _⟩ := C09_gate_xz_stream lz f out h
  obtain ⟨recs, e1, e2, e3, e4⟩ := xzIndexRecords_sums f _ _ _ _ _ hr
  obtain ⟨b1, b2⟩ := xzBlocksHash_sums P.ct P.blocks {}
  refine ⟨P, recs, q, hp, hq, e1, e2, ?_, ?_⟩
  · have : out.length = (P.blocks.map (fun b => b.chunks.flatten.length)).sum := by rw [ho]; exact output_length P
    rw [this]
    have e4' := e4
    simp only [Nat.zero_add] at e4' b2
    unfold xzBlocksHash at e4'
    rw [← e4', b2]
  · have e3' := e3
    simp only [Nat.zero_add] at e3' b1
    unfold xzBlocksHash at e3'
    rw [← e3', b1]

/-- **zip: the End Of Central Directory record** the reader works from is where the backwards scan
    finds it: it carries the signature `PK\x05\x06` and its 22 bytes lie inside the file. -/
theorem C09_gate_zip_eocd (env : ZipEnv) (f out : Bytes) (h : zipDepack env f = some out) :
    ∃ e, zipFindEocd f = some e ∧ le32 f e = 0x06054b50 ∧ e + 22 ≤ f.length := by
  obtain ⟨l, hl⟩ := zipDepack_open env f out h
  obtain ⟨e, he⟩ := zipOpen_eocd f l hl
  exact ⟨e, he, zipFindEocd_sound f e he⟩

theorem C09_gate_arc (env : ArcEnv) (f out : Bytes) (h : arcDepack env f = some out) :
    ∃ pos, le16 f (pos + 23) = (crc16IBM out 0).toNat :=
  gate_arc env f out h

theorem C09_gate_arcfs (env : ArcEnv) (f out : Bytes) (h : arcfsDepack env f = some out) :
    ∃ pos, le16 f (pos + 26) = 0 ∨ le16 f (pos + 26) = (crc16IBM out 0).toNat :=
  gate_arcfs env f out h

theorem C09_gate_lzx (env : LzxEnv) (f out : Bytes) (h : lzxDepack env f = some out) :
    ∃ pos, le32 f (pos + 22) = (crc32A out 0).toNat ∧
      le32 f (pos + 26) = lzxHeaderCrc (slice f pos 31) (slice f (pos + 31) (u8 f (pos + 30)))
        (slice f (pos + 31 + u8 f (pos + 30)) (u8 f (pos + 14))) :=
  gate_lzx env f out h


/-! ### non-vacuity: concrete archives (made by zlib / liblzma / our writers from the payload `abc`)
that the gate models accept with the payload, and single faults that they refuse -/

def exPayload : Bytes := [0x61, 0x62, 0x63]
def exGz : Bytes := [0x1f, 0x8b, 0x08, 0x08, 0x00, 0x00, 0x00, 0x00, 0x00, 0x03, 0x61, 0x00, 0x4b, 0x4c, 0x4a, 0x06, 0x00,
  0xc2, 0x41, 0x24, 0x35, 0x03, 0x00, 0x00, 0x00]
/-- stand-in for inflate on this one stream -/
def exInflate (c : Bytes) : Option Bytes := if c = [0x4b, 0x4c, 0x4a, 0x06, 0x00] then some exPayload else none
example : gzipDepack exInflate exGz = some exPayload := by decide +kernel
/-- one flipped bit in the stored CRC-32 (0xc2 → 0xc3), one in ISIZE -/
example : gzipDepack exInflate (exGz.set 17 0xc3) = none := by decide +kernel
example : gzipDepack exInflate (exGz.set 21 0x02) = none := by decide +kernel
/-- a decoder that returns a payload with one flipped bit is refused -/
example : gzipDepack (fun _ => some [0x61, 0x62, 0x62]) exGz = none := by decide +kernel

def exEnv : ArcEnv := { unpack := fun _ _ _ _ => none, excl := fun _ => false, limit := 512 * 2 ^ 20 }
def exArc : Bytes := [0x1a, 0x02, 0x41, 0x2e, 0x4d, 0x4f, 0x44, 0x00, 0x00, 0x00, 0x00, 0x00, 0x00, 0x00, 0x00, 0x03, 0x00,
  0x00, 0x00, 0x00, 0x00, 0x00, 0x00, 0x38, 0x97, 0x03, 0x00, 0x00, 0x00, 0x61, 0x62, 0x63, 0x1a, 0x00]
example : arcDepack exEnv exArc = some exPayload := by decide +kernel
example : arcDepack exEnv (exArc.set 30 0x63) = none := by decide +kernel     -- data byte substituted
example : arcDepack exEnv (exArc.set 23 0x39) = none := by decide +kernel     -- CRC-16 field, one bit

def exLzx : Bytes := [0x4c, 0x5a, 0x58, 0x00, 0x0c, 0x00, 0x0a, 0x04, 0x00, 0x00, 0x00, 0x00, 0x03, 0x00, 0x00, 0x00, 0x03,
  0x00, 0x00, 0x00, 0x0a, 0x00, 0x00, 0x00, 0x00, 0x0a, 0x00, 0x00, 0x10, 0x27, 0xc4, 0xd1, 0xc2, 0x41, 0x24, 0x35, 0x2b,
  0xeb, 0x3a, 0x72, 0x08, 0x73, 0x6f, 0x6e, 0x67, 0x2e, 0x6d, 0x6f, 0x64, 0x61, 0x62, 0x63]
def exLzxEnv : LzxEnv := { unpack := fun _ _ _ => none, excl := fun _ => false, limit := 512 * 2 ^ 20 }
example : lzxDepack exLzxEnv exLzx = some exPayload := by decide +kernel
example : lzxDepack exLzxEnv (exLzx.set 50 0x60) = none := by decide +kernel  -- data
example : lzxDepack exLzxEnv (exLzx.set 42 0x6e) = none := by decide +kernel  -- file name: header CRC
example : lzxDepack exLzxEnv (exLzx.set 32 0xc3) = none := by decide +kernel  -- data CRC field (header CRC catches it)

example : zipExtract (fun _ _ => some exPayload) [] ⟨8, 0, 5, 3, 0x352441c2⟩ (some [1, 2, 3, 4, 5]) = some exPayload := by
  decide +kernel
example : zipExtract (fun _ _ => some exPayload) [] ⟨8, 0, 5, 3, 0x352441c3⟩ (some [1, 2, 3, 4, 5]) = none := by
  decide +kernel
example : zipExtract (fun _ _ => some exPayload) [] ⟨0, 0, 3, 3, 0x352441c2⟩ (some [0x61, 0x62, 0x63, 0x50, 0x4b]) = some exPayload := by
  decide +kernel

example : bzDepack [(0x648cbb73#32, exPayload)] 0x648cbb73#32 = some exPayload := by decide +kernel
example : bzDepack [(0x648cbb72#32, exPayload)] 0x648cbb73#32 = none := by decide +kernel
example : bzDepack [(0x648cbb73#32, [0x61, 0x62, 0x62])] 0x648cbb73#32 = none := by decide +kernel

/-- two blocks `ab`, `c`: CRCs as libbz2 writes them; intact stream accepted, a flipped stream-CRC bit,
    and a block whose data *and* header CRC were replaced consistently, both refused -/
example : bzDepack [(bzBlockCrc [0x61, 0x62], [0x61, 0x62]), (bzBlockCrc [0x63], [0x63])]
    (bzStreamCrc 0 [[0x61, 0x62], [0x63]]) = some exPayload := by decide +kernel
example : bzDepack [(bzBlockCrc [0x61, 0x62], [0x61, 0x62]), (bzBlockCrc [0x63], [0x63])]
    (bzStreamCrc 0 [[0x61, 0x62], [0x63]] ^^^ 1#32) = none := by decide +kernel
example : bzDepack [(bzBlockCrc [0x61, 0x62], [0x61, 0x62]), (bzBlockCrc [0x62], [0x62])]
    (bzStreamCrc 0 [[0x61, 0x62], [0x63]]) = none := by decide +kernel

def exXzHdr : Bytes := [0xfd, 0x37, 0x7a, 0x58, 0x5a, 0x00, 0x00, 0x01, 0x69, 0x22, 0xde, 0x36]
def exXzBh : Bytes := [0x02, 0x00, 0x21, 0x01, 0x16, 0x00, 0x00, 0x00, 0x74, 0x2f, 0xe5, 0xa3]
def exXzFooter : Bytes := [0x90, 0x42, 0x99, 0x0d, 0x01, 0x00, 0x00, 0x00, 0x00, 0x01, 0x59, 0x5a]
example : xzAccept exXzHdr exXzBh [[0x61], [0x62, 0x63]] 891568578 [0x00, 0x01, 0x17, 0x03] 3154927623 exXzFooter
    = some exPayload := by decide +kernel
example : xzAccept exXzHdr exXzBh [[0x61], [0x62, 0x63]] 891568579 [0x00, 0x01, 0x17, 0x03] 3154927623 exXzFooter
    = none := by decide +kernel
example : xzAccept (exXzHdr.set 7 0x00) exXzBh [[0x61], [0x62, 0x63]] 891568578 [0x00, 0x01, 0x17, 0x03] 3154927623 exXzFooter
    = none := by decide +kernel      -- check type byte hit: the header CRC refuses

/-- a two-block xz file of the payload `abc` (container written by tools/c09_archives.py
    `make_xz_multi`, block data by liblzma's raw LZMA2 encoder, accepted by liblzma): block 1 `ab`
    with Compressed and Uncompressed Size fields, block 2 `c` with header padding -/
def exXz2 : Bytes := [0xfd, 0x37, 0x7a, 0x58, 0x5a, 0x00, 0x00, 0x01, 0x69, 0x22, 0xde, 0x36, 0x03, 0xc0, 0x06, 0x02, 0x21,
  0x01, 0x0c, 0x00, 0x00, 0x00, 0x00, 0x00, 0x29, 0xc9, 0x63, 0x6a, 0x01, 0x00, 0x01, 0x61, 0x62, 0x00, 0x00, 0x00, 0x6d,
  0x48, 0x83, 0x9e, 0x03, 0x00, 0x21, 0x01, 0x0e, 0x00, 0x00, 0x00, 0x00, 0x00, 0x00, 0x00, 0x00, 0x7a, 0x25, 0xae, 0x01,
  0x00, 0x00, 0x63, 0x00, 0x00, 0x00, 0x00, 0x6f, 0xdf, 0xb9, 0x06, 0x00, 0x02, 0x1a, 0x02, 0x19, 0x01, 0x00, 0x00, 0xff,
  0xce, 0xe3, 0x06, 0x3e, 0x30, 0x0d, 0x8b, 0x02, 0x00, 0x00, 0x00, 0x00, 0x01, 0x59, 0x5a]
/-- stand-in for the LZMA2 decoder on these two blocks (output of block 1 in two pieces) -/
def exLz (_props : Nat) (inp : Bytes) : Option (Nat × List Bytes) :=
  if inp.take 6 = [0x01, 0x00, 0x01, 0x61, 0x62, 0x00] then some (6, [[0x61], [0x62]])
  else if inp.take 5 = [0x01, 0x00, 0x00, 0x63, 0x00] then some (5, [[0x63]]) else none
example : xzDepack exLz exXz2 = some exPayload := by decide +kernel
example : xzDepack exLz (exXz2.set 7 0x00) = none := by decide +kernel     -- Stream Flags (check type)
example : xzDepack exLz (exXz2.set 14 0x07) = none := by decide +kernel    -- block 1 Compressed Size
example : xzDepack exLz (exXz2.set 27 0x6b) = none := by decide +kernel    -- block 1 header CRC-32
example : xzDepack exLz (exXz2.set 34 0x01) = none := by decide +kernel    -- Block Padding
example : xzDepack exLz (exXz2.set 36 0x6c) = none := by decide +kernel    -- block 1 Check
example : xzDepack exLz (exXz2.set 64 0x6e) = none := by decide +kernel    -- block 2 Check
example : xzDepack exLz (exXz2.set 69 0x03) = none := by decide +kernel    -- Index: Number of Records
example : xzDepack exLz (exXz2.set 71 0x03) = none := by decide +kernel    -- Index: Uncompressed Size of record 1
example : xzDepack exLz (exXz2.set 76 0xfe) = none := by decide +kernel    -- Index CRC-32
example : xzDepack exLz (exXz2.set 84 0x03) = none := by decide +kernel    -- Backward Size
example : xzDepack exLz (exXz2.set 89 0x00) = none := by decide +kernel    -- footer Stream Flags ≠ header's
example : xzDepack exLz (exXz2.take 91) = none := by decide +kernel        -- truncated
/-- a decoder returning one flipped bit in block 2 is refused by that block's Check -/
example : xzDepack (fun p i => if i.take 5 = [0x01, 0x00, 0x00, 0x63, 0x00] then some (5, [[0x62]]) else exLz p i) exXz2 = none := by
  decide +kernel

/-- a stored one-member zip of `abc` written by python's zipfile to an unseekable sink: the local
    header has zero CRC/sizes + general-purpose bit 3, a data descriptor follows the data; the reader
    trusts only the central directory -/
def exZip : Bytes := [0x50, 0x4b, 0x03, 0x04, 0x14, 0x00, 0x08, 0x00, 0x00, 0x00, 0x00, 0x00, 0x21, 0x20, 0x00, 0x00, 0x00, 0x00, 0x00, 0x00, 0x00, 0x00, 0x00, 0x00, 0x00, 0x00, 0x05, 0x00, 0x00, 0x00, 0x61, 0x2e, 0x6d, 0x6f, 0x64, 0x61, 0x62, 0x63, 0x50, 0x4b, 0x07, 0x08, 0xc2, 0x41, 0x24, 0x35, 0x03, 0x00, 0x00, 0x00, 0x03, 0x00, 0x00, 0x00, 0x50, 0x4b, 0x01, 0x02, 0x14, 0x03, 0x14, 0x00, 0x08, 0x00, 0x00, 0x00, 0x00, 0x00, 0x21, 0x20, 0xc2, 0x41, 0x24, 0x35, 0x03, 0x00, 0x00, 0x00, 0x03, 0x00, 0x00, 0x00, 0x05, 0x00, 0x00, 0x00, 0x00, 0x00, 0x00, 0x00, 0x00, 0x00, 0x00, 0x00, 0x80, 0x01, 0x00, 0x00, 0x00, 0x00, 0x61, 0x2e, 0x6d, 0x6f, 0x64, 0x50, 0x4b, 0x05, 0x06, 0x00, 0x00, 0x00, 0x00, 0x01, 0x00, 0x01, 0x00, 0x33, 0x00, 0x00, 0x00, 0x36, 0x00, 0x00, 0x00, 0x00, 0x00]
def exZipEnv : ZipEnv := { inflate := fun _ _ => none, excl := fun _ => false, junk := fun n => List.replicate n 0xbe }
example : zipDepack exZipEnv exZip = some exPayload := by decide +kernel
example : zipDepack exZipEnv (exZip.set 35 0x60) = none := by decide +kernel        -- member data
example : zipDepack exZipEnv (exZip.set 70 (0xc3)) = none := by decide +kernel     -- central-directory CRC-32, one bit
example : zipDepack exZipEnv (exZip.set 78 0x02) = none := by decide +kernel         -- central-directory uncompressed size
example : zipDepack exZipEnv (exZip.set 74 0x00) = none := by decide +kernel         -- compressed size 0: refused by the reader's sanity test
example : zipDepack exZipEnv (exZip.set 107 0x04) = none := by decide +kernel        -- EOCD signature
/-- damage to the local header's (unused) CRC field or to the data descriptor is not noticed — and
    does not matter: the payload is checked against the central directory -/
example : zipDepack exZipEnv (exZip.set 14 0xff) = some exPayload := by decide +kernel
example : zipDepack exZipEnv (exZip.set 42 0xff) = some exPayload := by decide +kernel

/-! ### boundary check values: payload `61 c1 e8` has CRC-16 0x0000 -/
def exZeroCrcPayload : Bytes := [0x61, 0xc1, 0xe8]
example : crc16IBM exZeroCrcPayload 0 = 0#16 := by decide +kernel
example : crc32A [0x61, 0xde, 0xb4, 0x6e, 0x85] 0 = 0#32 := by decide +kernel
example : crc32A [0x61, 0xbc, 0x41, 0x48, 0x17] 0 = 0xFFFFFFFF#32 := by decide +kernel
example : bzBlockCrc [0x61, 0xa0, 0xc3, 0x00, 0xdd] = 0#32 := by decide +kernel
/-- ARC, stored member, stored CRC-16 = 0: accepted intact, **refused** with one flipped data bit -/
def exArcZero : Bytes := [0x1a, 0x02, 0x53, 0x4f, 0x4e, 0x47, 0x2e, 0x4d, 0x4f, 0x44, 0x00, 0x00, 0x00, 0x00, 0x00, 0x03, 0x00,
  0x00, 0x00, 0x21, 0x2a, 0x00, 0x60, 0x00, 0x00, 0x03, 0x00, 0x00, 0x00, 0x61, 0xc1, 0xe8, 0x1a, 0x00]
example : arcDepack exEnv exArcZero = some exZeroCrcPayload := by decide +kernel
example : arcDepack exEnv (exArcZero.set 30 0xc0) = none := by decide +kernel
/-- ArcFS, the same payload, stored CRC-16 = 0 = "not recorded": by the format's rule the damaged
    member is *accepted* — the single, explicit exception (hypothesis `hnz` of `C09_reject_arcfs`) -/
def exArcfsZero : Bytes := [0x41, 0x72, 0x63, 0x68, 0x69, 0x76, 0x65, 0x00, 0x48, 0x00, 0x00, 0x00, 0xa8, 0x00, 0x00, 0x00,
  0xc8, 0x00, 0x00, 0x00, 0xc8, 0x00, 0x00, 0x00, 0x0a, 0x00, 0x00, 0x00] ++ List.replicate 68 0x00 ++
  [0x82, 0x73, 0x6f, 0x6e, 0x67, 0x5f, 0x6d, 0x6f, 0x64, 0x00, 0x00, 0x00, 0x03, 0x00, 0x00, 0x00, 0x3f, 0xff, 0xff, 0xff,
   0x78, 0x56, 0x34, 0x12, 0x03, 0x00, 0x00, 0x00, 0x03, 0x00, 0x00, 0x00, 0x00, 0x00, 0x00, 0x00] ++ List.replicate 36 0x00 ++
  [0x61, 0xc1, 0xe8]
example : arcfsDepack exEnv exArcfsZero = some exZeroCrcPayload := by decide +kernel
example : arcfsDepack exEnv (exArcfsZero.set 169 0xc0) = some [0x61, 0xc0, 0xe8] := by decide +kernel
/-- bzip2 with block CRC = stream CRC = 0: a decoder output with one flipped bit is refused -/
example : bzDepack [(0#32, [0x61, 0xa0, 0xc3, 0x00, 0xdd])] 0#32 = some [0x61, 0xa0, 0xc3, 0x00, 0xdd] := by decide +kernel
example : bzDepack [(0#32, [0x61, 0xa0, 0xc3, 0x00, 0xdc])] 0#32 = none := by decide +kernel

/-! ### nesting: `abc` as a stored member two directories deep (written by tools/c08_writers.arc_tree) -/
def exEnvX : ArcEnv := { unpack := fun _ _ _ _ => none, excl := fun n => n == [0x52, 0x45, 0x41, 0x44, 0x4d, 0x45], limit := 512 * 2 ^ 20 }
/-- ARC 6: README, DIR0 (type 30) { DIR1 (type 30) { SONG.MOD } 1a 1f } 1a 1f, 1a 00 -/
def exArc6Nested : Bytes := [0x1a, 0x02, 0x52, 0x45, 0x41, 0x44, 0x4d, 0x45, 0x00, 0x00, 0x00, 0x00, 0x00, 0x00, 0x00, 0x02, 0x00,
  0x00, 0x00, 0x21, 0x20, 0x00, 0x00, 0xef, 0xee, 0x02, 0x00, 0x00, 0x00, 0x68, 0x69, 0x1a, 0x1e, 0x44, 0x49, 0x52, 0x30, 0x00,
  0x00, 0x00, 0x00, 0x00, 0x00, 0x00, 0x00, 0x00, 0x41, 0x00, 0x00, 0x00, 0x21, 0x20, 0x00, 0x00, 0xa4, 0x36, 0x41, 0x00, 0x00,
  0x00, 0x1a, 0x1e, 0x44, 0x49, 0x52, 0x31, 0x00, 0x00, 0x00, 0x00, 0x00, 0x00, 0x00, 0x00, 0x00, 0x22, 0x00, 0x00, 0x00, 0x21,
  0x20, 0x00, 0x00, 0x64, 0x82, 0x22, 0x00, 0x00, 0x00, 0x1a, 0x02, 0x53, 0x4f, 0x4e, 0x47, 0x2e, 0x4d, 0x4f, 0x44, 0x00, 0x00,
  0x00, 0x00, 0x00, 0x03, 0x00, 0x00, 0x00, 0x21, 0x20, 0x00, 0x00, 0x38, 0x97, 0x03, 0x00, 0x00, 0x00, 0x61, 0x62, 0x63, 0x1a,
  0x1f, 0x1a, 0x1f, 0x1a, 0x00]
example : arcDepack exEnvX exArc6Nested = some exPayload := by decide +kernel
example : arcDepack exEnvX (exArc6Nested.set 119 0x63) = none := by decide +kernel   -- nested member data
example : arcDepack exEnvX (exArc6Nested.set 112 0x39) = none := by decide +kernel   -- nested member CRC-16
/-- the directory record's own CRC-16 (offset 54: of the nested archive) is never read -/
example : arcDepack exEnvX (exArc6Nested.set 54 0xa5) = some exPayload := by decide +kernel
/-- Spark: README, DIR0 (0x82, &DDC) { DIR1 { SONG.MOD } 1a 80 } 1a 80, 1a 80 -/
def exSparkNested : Bytes := [0x1a, 0x82, 0x52, 0x45, 0x41, 0x44, 0x4d, 0x45, 0x00, 0x00, 0x00, 0x00, 0x00, 0x00, 0x00, 0x02,
  0x00, 0x00, 0x00, 0x21, 0x20, 0x00, 0x00, 0xef, 0xee, 0x02, 0x00, 0x00, 0x00, 0x00, 0xfd, 0xff, 0xff, 0x00, 0x00, 0x00, 0x00,
  0x00, 0x00, 0x00, 0x00, 0x68, 0x69, 0x1a, 0x82, 0x44, 0x49, 0x52, 0x30, 0x00, 0x00, 0x00, 0x00, 0x00, 0x00, 0x00, 0x00, 0x00,
  0x59, 0x00, 0x00, 0x00, 0x21, 0x20, 0x00, 0x00, 0x1a, 0xff, 0x59, 0x00, 0x00, 0x00, 0x42, 0xdc, 0xfd, 0xff, 0x00, 0x00, 0x00,
  0x00, 0x03, 0x00, 0x00, 0x00, 0x1a, 0x82, 0x44, 0x49, 0x52, 0x31, 0x00, 0x00, 0x00, 0x00, 0x00, 0x00, 0x00, 0x00, 0x00, 0x2e,
  0x00, 0x00, 0x00, 0x21, 0x20, 0x00, 0x00, 0x69, 0x16, 0x2e, 0x00, 0x00, 0x00, 0x42, 0xdc, 0xfd, 0xff, 0x00, 0x00, 0x00, 0x00,
  0x03, 0x00, 0x00, 0x00, 0x1a, 0x82, 0x53, 0x4f, 0x4e, 0x47, 0x2e, 0x4d, 0x4f, 0x44, 0x00, 0x00, 0x00, 0x00, 0x00, 0x03, 0x00,
  0x00, 0x00, 0x21, 0x20, 0x00, 0x00, 0x38, 0x97, 0x03, 0x00, 0x00, 0x00, 0x00, 0xfd, 0xff, 0xff, 0x00, 0x00, 0x00, 0x00, 0x00,
  0x00, 0x00, 0x00, 0x61, 0x62, 0x63, 0x1a, 0x80, 0x1a, 0x80, 0x1a, 0x80]
example : arcDepack exEnvX exSparkNested = some exPayload := by decide +kernel
example : arcDepack exEnvX (exSparkNested.set 167 0x63) = none := by decide +kernel  -- nested member data

/-! ## rejection -/

theorem toNat32_ne {a b : BitVec 32} (h : a ≠ b) : a.toNat ≠ b.toNat := fun e => h (BitVec.eq_of_toNat_eq e)
theorem toNat16_ne {a b : BitVec 16} (h : a ≠ b) : a.toNat ≠ b.toNat := fun e => h (BitVec.eq_of_toNat_eq e)

/-- **gzip**: the stored CRC-32 is that of the packed payload `orig`; whatever the inflater made of
    the damaged deflate data, an output within one ≤ 32-bit burst of `orig` is refused. -/
theorem C09_reject_gzip (dec : Bytes → Option Bytes) (f orig out : Bytes)
    (hs : le32 f (f.length - 8) = (crc32A orig 0).toNat) (hb : BitBurst 32 orig out) :
    gzipDepack dec f ≠ some out := by
  intro h
  obtain ⟨_, _, _, hc, _⟩ := C09_gate_gzip dec f out h
  exact toNat32_ne (C09_crc32_detects orig out 0 hb) (hs.symm.trans hc)

/-- gzip, damage in the trailer: the inflater still yields `orig` but the stored CRC field holds
    anything else than its CRC (e.g. one flipped bit), or ISIZE anything else than its length -/
theorem C09_reject_gzip_field (dec : Bytes → Option Bytes) (f orig : Bytes)
    (hf : le32 f (f.length - 8) ≠ (crc32A orig 0).toNat ∨ sext32 (le32 f (f.length - 4)) ≠ orig.length) :
    gzipDepack dec f ≠ some orig := by
  intro h
  obtain ⟨_, _, _, hc, hl⟩ := C09_gate_gzip dec f orig h
  rcases hf with h1 | h1
  · exact h1 hc
  · exact h1 hl

/-- a single-bit flip of a 32-bit little-endian field changes its value -/
theorem flip_changes_value (v k : Nat) : v ^^^ (2 ^ k) ≠ v := by
  intro h
  have := congrArg (· ^^^ v) h
  simp only [Nat.xor_assoc, Nat.xor_comm (2 ^ k) v, Nat.xor_self] at this
  rw [← Nat.xor_assoc, Nat.xor_self, Nat.zero_xor] at this
  have h2 : 0 < 2 ^ k := Nat.two_pow_pos k
  omega

theorem C09_reject_zip (inflate : Bytes → Nat → Option Bytes) (junk : Bytes) (st : ZipStat) (tail : Option Bytes)
    (orig out : Bytes) (hc : st.compSize ≠ 0) (hs : st.crc32 = (crc32A orig 0).toNat) (hb : BitBurst 32 orig out) :
    zipExtract inflate junk st tail ≠ some out := by
  intro h
  obtain ⟨h1, _⟩ := C09_gate_zip inflate junk st tail out hc h
  exact toNat32_ne (C09_crc32_detects orig out 0 hb) (hs.symm.trans h1)

theorem C09_reject_zip_field (inflate : Bytes → Nat → Option Bytes) (junk : Bytes) (st : ZipStat) (tail : Option Bytes)
    (orig : Bytes) (hc : st.compSize ≠ 0)
    (hf : st.crc32 ≠ (crc32A orig 0).toNat ∨ st.uncompSize ≠ orig.length) :
    zipExtract inflate junk st tail ≠ some orig := by
  intro h
  obtain ⟨h1, h2⟩ := C09_gate_zip inflate junk st tail orig hc h
  rcases hf with h | h
  · exact h h1
  · exact h h2

/-- **zip, whole archive, rejection**: no central-directory record of the damaged file carries the
    zip64 escape or a zero declared size, every CRC-32 field at a record position still holds the
    CRC-32 of the packed payload (or at least not that of `out`), and `out` is within one ≤ 32-bit
    burst of the payload: refused. -/
theorem C09_reject_zip_archive (env : ZipEnv) (f orig out : Bytes)
    (hne : ∀ p, le32 f p = 0x02014b50 → le32 f (p + 20) ≠ 0xFFFFFFFF ∧ le32 f (p + 24) ≠ 0xFFFFFFFF ∧ le32 f (p + 24) ≠ 0)
    (hs : ∀ p, le32 f (p + 16) = (crc32A orig 0).toNat ∨ le32 f (p + 16) ≠ (crc32A out 0).toNat)
    (hb : BitBurst 32 orig out) : zipDepack env f ≠ some out := by
  intro h
  obtain ⟨p, _, _, _, sig, _, _, _, g⟩ := C09_gate_zip_archive env f out h
  obtain ⟨a, b, z⟩ := hne p sig
  obtain ⟨hc, _⟩ := g a b z
  rcases hs p with h1 | h1
  · exact toNat32_ne (C09_crc32_detects orig out 0 hb) (h1.symm.trans hc)
  · exact h1 hc

/-- zip, whole archive, damaged CRC-32 / size field: the intact payload under a record whose CRC-32
    or uncompressed-size field is anything else than the payload's is refused -/
theorem C09_reject_zip_archive_field (env : ZipEnv) (f orig : Bytes)
    (hne : ∀ p, le32 f p = 0x02014b50 → le32 f (p + 20) ≠ 0xFFFFFFFF ∧ le32 f (p + 24) ≠ 0xFFFFFFFF ∧ le32 f (p + 24) ≠ 0)
    (hf : ∀ p, le32 f p = 0x02014b50 → le32 f (p + 16) ≠ (crc32A orig 0).toNat ∨ le32 f (p + 24) ≠ orig.length) :
    zipDepack env f ≠ some orig := by
  intro h
  obtain ⟨p, _, _, _, sig, _, _, _, g⟩ := C09_gate_zip_archive env f orig h
  obtain ⟨a, b, z⟩ := hne p sig
  obtain ⟨hc, hl⟩ := g a b z
  rcases hf p sig with h1 | h1
  · exact h1 hc
  · exact h1 hl

/-- **bzip2**: if some block decodes to data within one ≤ 32-bit burst of what was packed under its
    (intact) header CRC, or a block's header CRC field is anything but the CRC of the data it decodes
    to (e.g. one flipped bit), the stream is refused -/
theorem C09_reject_bzip2 (blocks : List (BitVec 32 × Bytes)) (sc : BitVec 32) (out : Bytes)
    (hbad : (∃ b ∈ blocks, ∃ orig, b.1 = bzBlockCrc orig ∧ BitBurstM 32 orig b.2) ∨
            (∃ b ∈ blocks, b.1 ≠ bzBlockCrc b.2)) :
    bzDepack blocks sc ≠ some out := by
  intro h
  obtain ⟨h1, _, _⟩ := C09_gate_bzip2 blocks sc out h
  rcases hbad with ⟨b, hb, orig, ho, hburst⟩ | ⟨b, hb, hne⟩
  · exact C09_bzcrc_detects orig b.2 hburst (ho.symm.trans (h1 b hb))
  · exact hne (h1 b hb)

theorem C09_reject_xz (hdr bh : Bytes) (chunks : List Bytes) (check : Nat) (index : Bytes) (icrc : Nat)
    (footer orig out : Bytes) (hs : check = (crc32A orig 0).toNat) (hb : BitBurst 32 orig out) :
    xzAccept hdr bh chunks check index icrc footer ≠ some out := by
  intro h
  obtain ⟨_, h1, _⟩ := C09_gate_xz hdr bh chunks check index icrc footer out h
  exact toNat32_ne (C09_crc32_detects orig out 0 hb) (hs.symm.trans h1)

theorem C09_reject_xz_field (hdr bh : Bytes) (chunks : List Bytes) (check : Nat) (index : Bytes) (icrc : Nat)
    (footer : Bytes) (hf : check ≠ (crc32A chunks.flatten 0).toNat) :
    xzAccept hdr bh chunks check index icrc footer = none := by
  cases h : xzAccept hdr bh chunks check index icrc footer with
  | none => rfl
  | some out =>
    obtain ⟨h0, h1, _⟩ := C09_gate_xz hdr bh chunks check index icrc footer out h
    rw [h0] at h1
    exact absurd h1 hf

/-! ### xz, byte level: rejection.  Stated over the parse of the *damaged* file: no accepted parse
contains a CRC-protected region that differs from what its stored CRC vouches for. -/

/-- a region `R` accepted under the stored CRC-32 `S` is not within one ≤ 32-bit burst of any other
    message `orig` that `S` is the CRC-32 of (every single-bit flip and every substitution of ≤ 4
    adjacent bytes is such a burst) -/
theorem crc32_vouches (S : Nat) (R orig : Bytes) (hacc : (crc32A R 0).toNat = S)
    (hs : S = (crc32A orig 0).toNat) : ¬ BitBurst 32 orig R := by
  intro hb
  exact toNat32_ne (C09_crc32_detects orig R 0 hb) (hs.symm.trans hacc.symm)

/-- **damage to a protected region, stored CRC-32 intact.**  For every CRC-protected region of the
    container — Stream Flags, a Block Header (without its CRC), a Block's decoded output (check type
    CRC-32), the Index (indicator, records, padding), the Stream Footer's Backward Size + flags — if
    its stored CRC-32 is still the CRC-32 of the original region `orig` and the region found in the
    file (resp. produced by the decoder) is within one ≤ 32-bit burst of `orig`, the file is refused. -/
theorem C09_reject_xz_stream_burst (lz : Nat → Bytes → Option (Nat × List Bytes)) (f : Bytes) (P : XzParse)
    (hp : xzParse lz f = some P) (orig : Bytes) :
    (le32 f 8 = (crc32A orig 0).toNat → ¬ BitBurst 32 orig (slice f 6 2)) ∧
    (∀ b ∈ P.blocks, le32 f (b.pos + (b.hdr.size - 4)) = (crc32A orig 0).toNat →
        ¬ BitBurst 32 orig (slice f b.pos (b.hdr.size - 4))) ∧
    (P.ct = 1 → ∀ b ∈ P.blocks, le32 f b.checkPos = (crc32A orig 0).toNat → ¬ BitBurst 32 orig b.chunks.flatten) ∧
    (le32 f (P.footerPos - 4) = (crc32A orig 0).toNat →
        ¬ BitBurst 32 orig (slice f P.indexPos (P.footerPos - 4 - P.indexPos))) ∧
    (le32 f P.footerPos = (crc32A orig 0).toNat → ¬ BitBurst 32 orig (slice f (P.footerPos + 4) 6)) := by
  have hd : xzDepack lz f = some P.output := by unfold xzDepack; rw [hp]; rfl
  obtain ⟨P', hp', _, _, c, _, _, hb, _, ic, _, _, fc, _⟩ := C09_gate_xz_stream lz f _ hd
  have e : P' = P := by rw [hp] at hp'; exact (Option.some.inj hp').symm
  subst e
  refine ⟨fun hs => crc32_vouches _ _ _ c hs, ?_, ?_, fun hs => crc32_vouches _ _ _ ic hs,
    fun hs => crc32_vouches _ _ _ fc hs⟩
  · intro b hbm hs
    exact crc32_vouches _ _ _ (hb b hbm).1 hs
  · intro hct b hbm hs
    exact crc32_vouches _ _ _ ((hb b hbm).2.2.2.2.2 hct).symm hs

/-- **damage to a stored field, region intact.**  No file is accepted in which a stored CRC-32
    differs from the CRC-32 of its region (in particular: the right value with one flipped bit,
    `flip_changes_value`), a padding byte is non-zero, the Backward Size is not the Index size, or the
    footer's Stream Flags differ from the header's. -/
theorem C09_reject_xz_stream_field (lz : Nat → Bytes → Option (Nat × List Bytes)) (f : Bytes) (P : XzParse)
    (hbad : le32 f 8 ≠ (crc32A (slice f 6 2) 0).toNat ∨
      (∃ b ∈ P.blocks, le32 f (b.pos + (b.hdr.size - 4)) ≠ (crc32A (slice f b.pos (b.hdr.size - 4)) 0).toNat) ∨
      (P.ct = 1 ∧ ∃ b ∈ P.blocks, le32 f b.checkPos ≠ (crc32A b.chunks.flatten 0).toNat) ∨
      (∃ b ∈ P.blocks, (slice f (b.pos + b.hdr.size + b.consumed) ((4 - b.consumed % 4) % 4)).any (· != 0) = true) ∨
      le32 f (P.footerPos - 4) ≠ (crc32A (slice f P.indexPos (P.footerPos - 4 - P.indexPos)) 0).toNat ∨
      le32 f P.footerPos ≠ (crc32A (slice f (P.footerPos + 4) 6) 0).toNat ∨
      le32 f (P.footerPos + 4) ≠ (P.footerPos - 4 - P.indexPos) / 4 ∨
      u8 f (P.footerPos + 8) ≠ u8 f 6 ∨ u8 f (P.footerPos + 9) ≠ u8 f 7) :
    xzParse lz f ≠ some P := by
  intro hp
  have hd : xzDepack lz f = some P.output := by unfold xzDepack; rw [hp]; rfl
  obtain ⟨P', hp', _, _, c, _, _, hb, _, ic, _, _, fc, bs, g1, g2⟩ := C09_gate_xz_stream lz f _ hd
  have e : P' = P := by rw [hp] at hp'; exact (Option.some.inj hp').symm
  subst e
  rcases hbad with h | ⟨b, hm, h⟩ | ⟨hct, b, hm, h⟩ | ⟨b, hm, h⟩ | h | h | h | h | h
  · exact h c.symm
  · exact h (hb b hm).1.symm
  · exact h ((hb b hm).2.2.2.2.2 hct)
  · rw [(hb b hm).2.2.2.2.1] at h; exact absurd h (by simp)
  · exact h ic.symm
  · exact h fc.symm
  · exact h bs.symm
  · exact h g1
  · exact h g2

/-- a single flipped bit in the two Stream Flags bytes with the header CRC-32 intact: refused
    (the simplest instance of `C09_reject_xz_stream_burst`, closed form) -/
theorem C09_reject_xz_stream_flags (lz : Nat → Bytes → Option (Nat × List Bytes)) (f : Bytes) (a b a' b' : UInt8)
    (hs : le32 f 8 = (crc32A [a, b] 0).toNat) (hf : slice f 6 2 = [a', b']) (hne : [a, b] ≠ [a', b']) :
    xzDepack lz f = none := by
  cases h : xzDepack lz f with
  | none => rfl
  | some out =>
    exfalso
    obtain ⟨P, hp, _⟩ := C09_gate_xz_stream lz f out h
    refine (C09_reject_xz_stream_burst lz f P hp [a, b]).1 hs ?_
    rw [hf]
    exact byteBurst_bitBurst 4 _ _ ⟨[], [a, b], [a', b'], [], by simp, by simp, rfl, by simp, hne⟩

/-- **ARC**: every CRC-16 field of the (damaged) archive still holds the CRC of `orig` or is
    otherwise unable to vouch for `out`: if no 16-bit field at an entry's CRC position equals
    `crc16(out)` the archive is refused; in particular when the fields hold `crc16(orig)` and `out`
    is within one ≤ 16-bit burst of `orig`. -/
theorem C09_reject_arc (env : ArcEnv) (f orig out : Bytes)
    (hs : ∀ pos, le16 f (pos + 23) = (crc16IBM orig 0).toNat ∨ le16 f (pos + 23) ≠ (crc16IBM out 0).toNat)
    (hb : BitBurst 16 orig out) : arcDepack env f ≠ some out := by
  intro h
  obtain ⟨pos, hc⟩ := C09_gate_arc env f out h
  rcases hs pos with h1 | h1
  · exact toNat16_ne (C09_crc16_detects orig out 0 hb) (h1.symm.trans hc)
  · exact h1 hc

/-- **ArcFS**, with the scope hypothesis that no entry's stored CRC is 0 (= unchecked by design) -/
theorem C09_reject_arcfs (env : ArcEnv) (f orig out : Bytes)
    (hnz : ∀ pos, le16 f (pos + 26) ≠ 0)
    (hs : ∀ pos, le16 f (pos + 26) = (crc16IBM orig 0).toNat ∨ le16 f (pos + 26) ≠ (crc16IBM out 0).toNat)
    (hb : BitBurst 16 orig out) : arcfsDepack env f ≠ some out := by
  intro h
  obtain ⟨pos, hc⟩ := C09_gate_arcfs env f out h
  rcases hc with hc | hc
  · exact hnz pos hc
  · rcases hs pos with h1 | h1
    · exact toNat16_ne (C09_crc16_detects orig out 0 hb) (h1.symm.trans hc)
    · exact h1 hc

theorem C09_reject_lzx (env : LzxEnv) (f orig out : Bytes)
    (hs : ∀ pos, le32 f (pos + 22) = (crc32A orig 0).toNat ∨ le32 f (pos + 22) ≠ (crc32A out 0).toNat)
    (hb : BitBurst 32 orig out) : lzxDepack env f ≠ some out := by
  intro h
  obtain ⟨pos, hc, _⟩ := C09_gate_lzx env f out h
  rcases hs pos with h1 | h1
  · exact toNat32_ne (C09_crc32_detects orig out 0 hb) (h1.symm.trans hc)
  · exact h1 hc

/-! ## no loophole in the comparisons: boundary check values, member selection -/

/-- **Every gate test is exact for every stored value** — 0 and all-ones included: it holds iff the
    stored field equals the check code of the output (gzip: and ISIZE its length).  The **only**
    exception in the library is ArcFS, whose format defines a stored CRC of 0 as "not recorded"
    (`arcfs.c`: `if(e.crc16 && …)`): its test also holds for `stored = 0`.  ARC/Spark shares the CRC-16
    routine but *not* this rule (`crc16Gate`). -/
theorem C09_gates_exact :
    (∀ out s, crc16Gate out s = true ↔ s = (crc16IBM out 0).toNat) ∧
    (∀ out s, lzxGate out s = true ↔ s = (crc32A out 0).toNat) ∧
    (∀ out c n, gzipGate out c n = true ↔ c = (crc32A out 0).toNat ∧ sext32 n = out.length) ∧
    (∀ chunks s, xzBlockCheck chunks s = true ↔ s = (crc32A chunks.flatten 0).toNat) ∧
    (∀ out s, arcfsGate out s = true ↔ s = 0 ∨ s = (crc16IBM out 0).toNat) := by
  refine ⟨?_, ?_, ?_, ?_, ?_⟩
  · intro out s; unfold crc16Gate; simp
  · intro out s; unfold lzxGate; simp
  · intro out c n; unfold gzipGate; simp
  · intro chunks s; unfold xzBlockCheck; rw [xz_chunks]; simp only [beq_iff_eq]; exact eq_comm
  · intro out s; unfold arcfsGate crc16Gate; simp

/-- bzip2, one block, exact for every value of both CRC fields: accepted iff the block header CRC is
    the block's CRC **and** the stream CRC equals it too (`rotl(0,1) ^ c = c`) -/
theorem C09_bzip2_single_block_exact (hc sc : BitVec 32) (d : Bytes) :
    bzDepack [(hc, d)] sc = if hc = bzBlockCrc d ∧ sc = bzBlockCrc d then some d else none := by
  have e : bzCombine 0 (bzBlockCrc d) = bzBlockCrc d := by
    unfold bzCombine
    show ((0#32 <<< 1 ||| 0#32 >>> 31) ^^^ bzBlockCrc d) = bzBlockCrc d
    rw [BitVec.zero_shiftLeft, BitVec.zero_ushiftRight, BitVec.or_self, BitVec.zero_xor]
  unfold bzDepack
  simp only [bzRun, e, List.nil_append, C09_bzip2_stream_crc_live, Bool.not_false, Bool.true_and]
  by_cases h1 : hc = bzBlockCrc d
  · subst h1
    by_cases h2 : sc = bzBlockCrc d
    · simp [h2]
    · simp [h2]
  · have h1' : bzBlockCrc d ≠ hc := fun e => h1 e.symm
    simp [h1, h1']

/-- ARC/Spark: a stored CRC-16 of `0x0000` is compared like any other value — acceptance under an
    all-zero CRC field means the output's CRC-16 *is* 0 — hence (C09_reject_arc) corruption of such
    a member is refused exactly as for any other member -/
theorem C09_arc_zero_crc_is_checked (env : ArcEnv) (f out : Bytes) (h : arcDepack env f = some out)
    (hz : ∀ pos, le16 f (pos + 23) = 0) : (crc16IBM out 0).toNat = 0 := by
  obtain ⟨pos, hc⟩ := C09_gate_arc env f out h
  rw [← hc]; exact hz pos

/-- **zip member selection**: `decrunch_zip` works on the *first* central-directory record that is a
    supported, non-excluded file; its stat and extraction verdict is the verdict of the whole depack,
    whatever members follow (`post`): a failed extraction of the selected member is never repaired by
    a later member. -/
theorem C09_zip_member_selection (env : ZipEnv) (f : Bytes) (pre post : List Nat) (p : Nat)
    (ho : zipOpen f = some (pre ++ p :: post))
    (hpre : ∀ q ∈ pre, zipSkips env f q = true) (hp : zipSkips env f p = false) :
    zipDepack env f =
      (match zipStat f p with
       | none => none
       | some (st, lho) => zipExtract env.inflate (env.junk st.uncompSize) st (zipTail f st lho)) :=
  zipDepack_first env f pre post p ho hpre hp

/-- … in particular: the selected member fails ⇒ the load fails -/
theorem C09_zip_selected_member_failure (env : ZipEnv) (f : Bytes) (pre post : List Nat) (p : Nat)
    (st : ZipStat) (lho : Nat) (ho : zipOpen f = some (pre ++ p :: post))
    (hpre : ∀ q ∈ pre, zipSkips env f q = true) (hp : zipSkips env f p = false)
    (hst : zipStat f p = some (st, lho))
    (hfail : zipExtract env.inflate (env.junk st.uncompSize) st (zipTail f st lho) = none) :
    zipDepack env f = none := by
  rw [C09_zip_member_selection env f pre post p ho hpre hp, hst]; exact hfail

/-- **ARC / ArcFS / LZX member selection**: once the entry loop reaches an entry it tries to extract
    (`ArcSelected`, `ArcfsSelected`, `lzx_check_entry` answering "extract"), the loop's result *is*
    that entry's extraction-and-check verdict — no branch continues to a later entry.  In particular
    an unpack error or a check mismatch of the selected member makes the whole depack fail. -/
theorem C09_member_selection_final :
    (∀ (env : ArcEnv) (f : Bytes) (fuel pos level : Nat), ArcSelected env f pos →
        arcLoop env f (fuel + 1) pos level = arcExtractAt env f pos) ∧
    (∀ (env : ArcEnv) (f : Bytes) (dofs n pos : Nat), ArcfsSelected env f dofs pos →
        arcfsLoop env f dofs (n + 1) pos = arcfsExtractAt env f dofs pos) ∧
    (∀ (env : LzxEnv) (f : Bytes) (fuel pos : Nat) (mg : LzxMerge), pos + 31 ≤ f.length →
        lzxDataPos f pos ≤ f.length → (lzxEntryCheck env f pos mg).2 = true →
        lzxLoop env f (fuel + 1) pos mg =
          lzxExtract env f (lzxDataPos f pos) (le32 f (pos + 6)) (u8 f (pos + 11)) (lzxEntryCheck env f pos mg).1) :=
  ⟨arcLoop_selected, arcfsLoop_selected, lzxLoop_selected⟩

/-- **ARC 6 / Spark: the CRC-16 is compared at every nesting depth.**  `arc_read` walks directory
    records (ARC 6 type 30 … 31, Spark method 0x82 with filetype &DDC) in place, counting the depth
    in `level`; whatever the depth the entry loop is at (`level` arbitrary) and wherever it stands
    (`pos` arbitrary), an accepted output passed the CRC-16 field of the entry it was extracted from —
    the directory records' own CRC-16 (of the nested archive) is never consulted and never stands in
    for a member's. -/
theorem C09_gate_arc_every_depth (env : ArcEnv) (f out : Bytes) (fuel pos level : Nat)
    (h : arcLoop env f fuel pos level = some out) : ∃ p, le16 f (p + 23) = (crc16IBM out 0).toNat :=
  gate_arcLoop env f out fuel pos level h

/-- … and the selected entry's verdict does not depend on the depth: at any `level`, the loop's
    result at an entry it extracts is `arcExtractAt` (unpack, then CRC-16 of the output against the
    entry's field), which does not mention `level`; hence damaged data of a nested member is refused
    exactly like that of a top-level member. -/
theorem C09_reject_arc_every_depth (env : ArcEnv) (f orig out : Bytes) (fuel pos level : Nat)
    (hs : ∀ p, le16 f (p + 23) = (crc16IBM orig 0).toNat ∨ le16 f (p + 23) ≠ (crc16IBM out 0).toNat)
    (hb : BitBurst 16 orig out) : arcLoop env f fuel pos level ≠ some out := by
  intro h
  obtain ⟨p, hc⟩ := C09_gate_arc_every_depth env f out fuel pos level h
  rcases hs p with h1 | h1
  · exact toNat16_ne (C09_crc16_detects orig out 0 hb) (h1.symm.trans hc)
  · exact h1 hc

/-- **C09_reject** — the summary used by the check: for the three check codes, a gate that only
    accepts `stored = check(out)` never accepts an output within one burst of the payload whose
    check is stored, and never accepts the payload itself under a stored value hit by a flip. -/
theorem C09_reject (orig out : Bytes) :
    (BitBurst 32 orig out → (crc32A orig 0).toNat ≠ (crc32A out 0).toNat) ∧
    (BitBurst 16 orig out → (crc16IBM orig 0).toNat ≠ (crc16IBM out 0).toNat) ∧
    (BitBurstM 32 orig out → bzBlockCrc orig ≠ bzBlockCrc out) ∧
    (∀ k, (crc32A orig 0).toNat ^^^ 2 ^ k ≠ (crc32A orig 0).toNat) ∧
    (∀ k, (crc16IBM orig 0).toNat ^^^ 2 ^ k ≠ (crc16IBM orig 0).toNat) :=
  ⟨fun h => toNat32_ne (C09_crc32_detects orig out 0 h), fun h => toNat16_ne (C09_crc16_detects orig out 0 h),
   C09_bzcrc_detects orig out, fun k => flip_changes_value _ k, fun k => flip_changes_value _ k⟩

example : BitBurst 32 [0x4d, 0x2e, 0x4b, 0x2e] [0x4d, 0x2e, 0x4a, 0x2e] :=
  byteBurst_bitBurst 4 _ _ ⟨[0x4d, 0x2e], [0x4b], [0x4a], [0x2e], rfl, rfl, rfl, by decide, by decide⟩

end Xmp.C09
