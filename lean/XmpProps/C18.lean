import XmpProofs.LinFlow
/-! # C18 — the reported duration is exact for modules with linear flow (property theorems) -/
namespace Xmp.LinFlow

/-- One tick at tempo `bpm ∈ 1..255` lasts exactly `2500/bpm` ms: `tick bpm * bpm = 2500 * L`. -/
theorem C18_tick_exact (b : Nat) (h1 : 1 ≤ b) (h2 : b ≤ 255) : tick b * b = 2500 * L := by
  unfold tick
  have h := L_dvd b h1 h2
  have : (2500 * L) % b = 0 := by
    rw [Nat.mul_mod, h]; simp
  exact Nat.div_mul_cancel (Nat.dvd_of_mod_eq_zero this)

end Xmp.LinFlow
