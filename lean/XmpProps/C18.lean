import XmpProofs.LinFlow
import XmpProofs.LinFlowTerm
import XmpProofs.LinFlowSim
import XmpProofs.LinFlowSimChk
import XmpProofs.LinFlowSeqs
import XmpModel.Gen.C18Flags
import XmpModel.Gen.C18Events
/-!
# C18 — the reported duration is exact for modules with linear flow

Model: `XmpModel/LinFlow.lean` — `Scan` (`scanRows`, `scanOrders`, `scanModule`,
`scanSequences`: src/scan.c) and `Play` (`PlayEnv.render/advance/nextRow/…`,
the per-tick machine of `xmp_play_frame`: src/player.c, src/effects.c), two
independent interpreters of the vocabulary {speed, tempo, pattern delay, jump}.
Time is exact (unit `1/L` ms, `L = lcm(1..255)`).

## What is proved here (the full statement is `C18_scan_eq_play`, last in the list)

* `C18_tick_exact` — the time unit is exact for every tempo 1..255.
* `C18_row_accounting` — the scan's bookkeeping (`row_count`, `frame_count`, `time` with its
  flushes at speed / tempo changes) advances the exact row start time, for **every** effect of
  the vocabulary, by `speed' · (1 + delay)` ticks at the tempo in force after the effect.
* `C18_play_row` — the per-tick player spends exactly that many frames in the row, all in the
  same row, the first one with `frame = 0`, their `frame_time` sums to the same amount, and
  then calls `next_row`.
* `C18_scan_eq_play_partial` — **simulation inside a pattern**: on any jump-free stretch of
  fresh rows (not containing the last row of the pattern nor the scan's end point) the scan's
  row loop and the player, started in agreement (same speed, tempo, exact time), produce the
  same row trace, end in agreement, and the player's Σ frame_time equals the advance of the
  scan's exact clock.  (`scanRows` on `fxs ++ rest` continues with `rest`.)
* `C18_scan_terminates` — **full**: `scan_module`'s `while (42)` never exhausts the fuel
  `(len+1)·514 + 1`, for every module, entry point, chain and prior `sequence_control` / `xxo_info`
  (measure: number of orders whose row 0 is unvisited, then `514 − orders_since_last_valid`).
* `C18_loop_count_partial` — `check_end_of_module` increments the loop counter exactly when the
  row entered is the scan's end point and the visit budget `end_point` (initialised with the
  scan's visit count `num`, one less per entry) is exhausted; frames that do not start a row
  never change it.

* `C18_order_step` — **the order transition** (end of pattern / jump row → next order): from any
  `nord`, the head of the scan's `while (42)` (skipping invalid orders and `0xfe` markers, the `0xff`
  end marker, wrap to `mod->rst` or — also when the end marker lies below it — to the entry point, never leaving through the
  `orders_since_last_valid` sanity exit) arrives at the order-processing step of the same playable
  order that the player's `next_order` returns.
* `C18_pattern_step` — one whole pattern incl. **the jump row** and the last row: scan (`scanRows`)
  and player agree on the row records and hand the same target to the order loop / `next_order`.
* `C18_scan_eq_play_seq` — **the cross-order simulation of one sequence** (one `scan_module` call):
  under `SeqHyp` (module class `ModWF`, the entry point leads through skipped orders to a playable
  order, `sequence_control` sane, scan accepted, the player environment reads this scan's results),
  `Play.run` renders exactly the rows of the scan's trace — same positions, speed, tempo, pattern
  delay and **exact start time of every row** — its Σ frame_time is the scan's exact duration
  (`C18_duration_within_ms`: the reported `int` duration is within 1 ms < 1 tick of it), and it stops
  exactly at the first re-entered row.
* `C18_order_start_time` — every frame's `time` is the running Σ frame_time, and `xxo_info[o].time` of
  every order first entered by this scan is exactly (before the `(int)` truncation) the Σ frame_time of
  the frames rendered before the first tick of that order.
* `C18_loop_count` — the loop counter is 0 on every frame of that run and increments on the next
  frame, which is the first tick of the scan's end point `(endOrd, 0)`; no row is played twice before;
  the end point is a row already played (`num = 1`) or — secondary sequences only — an order that
  belongs to another sequence (`num = 0`).

* `C18_scan_eq_play` — **the full statement over `libxmp_scan_sequences`**: for every module of the
  class `ModWF` and *every* sequence `k` the scan finds (main and secondary, with the chain-number reuse
  after rejected scans), `SeqHyp` holds for the player environment built from the final
  `sequence_control` / `xxo_info` (`scanSequences_seqHyp`: an accepted scan starts at a playable order;
  later scans leave `sequence_control[rst]` and the recorded `xxo_info` entries alone; the final
  clean-up of `sequence_control` does not touch accepted chains), hence all of the above: row records,
  exact duration and its `int` floor, loop counter, and `xxo_info[o].time` = Σ frame_time before the
  first tick of every order entered.

## Scope

`ModWF` (decidable: `modWFb`; evaluated by the driver on every generated module as part of `seqHypB`):
patterns of 1..256 rows (so that the scan's 512-row runaway guard, which is in the model with the code's
reset points, never fires: `C18_row_guard_idle`), speed parameters ≥ 1, tempo parameters ≥ 20, initial speed ≥ 1 / tempo ≥ 20, at most
256 orders, restart position inside the order list; in marker formats (S3M / IT, and MOD / XM under a
player mode that sets `QUIRK_MARKER`) pattern numbers 0xfe / 0xff are never real patterns.  A restart
position together with end markers is inside the class since libxmp 4bf9f85: the scan follows
`next_order`'s rule that an end marker met below the entry point restarts at the entry point
(`end_marker_ord` = `ScanSt.endMark`, `restartOrd`); before that fix the two disagreed (found by this
check under `XMP_PLAYER_MODE` 4 / 5 / 6 / 9 on XM modules; regression input in corpus/C18).
IT row delay (`SEx`, `Fx.rowdelay`: the row is entered `1 + x` times, each for `speed` ticks at the
*running* speed) is in the model of both interpreters and in its tie to the C, and
`C18_row_accounting_rowdelay` states the scan's accounting for it; but `Fx.WF` / `ModWF` exclude it: the
simulation theorems do not cover modules that contain it (the player's row trace then has `1 + x` entries
where the scan's has one, and `scan_cnt` is `1 + x`).  `C18_scan_eq_play_partial` / `C18_pattern_step`
carry the hypothesis `p.rowdelay = 0` (no row delay pending) for the same reason.
`Fxx` (FX_SPEED of MOD / XM) is a speed or a tempo depending on `QUIRK_NOBPM`, the VBlank flag and the
parameter; the driver gets it undecoded (`RawMod`) and `C18_scan_eq_play_flags` states the property for either
flag value read by both sides; `C18_flag_word_same` (over facts generated from the C) says both sides read the
same word, and `C18_flag_mismatch_breaks` shows that the property fails when they do not.
Tempos above 255 are allowed by `ModWF` but lie outside the property's vocabulary: there the model's
`tick` is a floor (both interpreters use the same one, so the theorems hold over the model), and the
model is tied to the C only for tempos 32..255.
The model is tied to the C by the correspondence only (sampled); the driver also evaluates `modWFb`,
`seqHypB` and `rowRecs (Play.run) = Scan trace` on every module / sequence generated.
-/
namespace Xmp.LinFlow

/-- One tick at tempo `bpm ∈ 1..255` lasts exactly `2500/bpm` ms: `tick bpm * bpm = 2500 * L`. -/
theorem C18_tick_exact (b : Nat) (h1 : 1 ≤ b) (h2 : b ≤ 255) : tick b * b = 2500 * L := by
  unfold tick
  have h := L_dvd b h1 h2
  have : (2500 * L) % b = 0 := by
    rw [Nat.mul_mod, h]; simp
  exact Nat.div_mul_cancel (Nat.dvd_of_mod_eq_zero this)

example : tick 125 * 125 = 2500 * L := C18_tick_exact 125 (by decide) (by decide)

/-- **Accounting identity** (scan.c:362-378, 472-493, 496-530, 601-603, 635-637 against
player.c:2087/2134): for every effect of the vocabulary the scan's clock advances by the
player's time in the row. -/
theorem C18_row_accounting (fx : Fx) (st : ScanSt) (hw : fx.WF) :
    (scanStep fx st).rowStart = st.rowStart + rowFrames fx st.speed * tick (fxBpm fx st.bpm) ∧
    (scanStep fx st).speed = fxSpeed fx st.speed ∧ (scanStep fx st).bpm = fxBpm fx st.bpm :=
  ⟨scanStep_rowStart fx st hw, scanStep_speed fx st, scanStep_bpm fx st hw⟩

/-- non-trivial instance: a tempo change after three rows at speed 6 with a pending frame count -/
example : let st : ScanSt := { speed := 6, bpm := 125, rowCount := 3, frameCount := 12, time := 7, cnt := [], ctl := [], info := [] }
    (scanStep (.tempo 150) st).rowStart = st.rowStart + 6 * tick 150 := by
  intro st
  have := (C18_row_accounting (.tempo 150) st (by simp [Fx.WF])).1
  simpa [rowFrames, fxSpeed, fxBpm, Fx.delayOf] using this

/-- **IT row delay (`SEx`) in the scan** (scan.c:539-544 against `next_row`'s `rowdelay` countdown): the
clock advances by `1 + x` rows at the *running* speed and tempo — the values in force when the row is
scanned, not the ones recorded in `xxo_info` when the order was entered.  (`Fx.WF` excludes `rowdelay`:
the simulation theorems below do not cover it yet; the model and its tie to the C do.) -/
theorem C18_row_accounting_rowdelay (x : Nat) (st : ScanSt) :
    (scanStep (.rowdelay x) st).rowStart = st.rowStart + (1 + x % 16) * st.speed * tick st.bpm ∧
    (scanStep (.rowdelay x) st).speed = st.speed ∧ (scanStep (.rowdelay x) st).bpm = st.bpm :=
  scanStep_rowStart_rowdelay x st

/-- after a speed change to 3 inside the order (entered at speed 6), `SE2` costs 3 · 3 ticks -/
example : let st : ScanSt := { speed := 3, bpm := 125, rowCount := 2, frameCount := 12, cnt := [], ctl := [], info := [{ speed := 6, bpm := 125 }] }
    (scanStep (.rowdelay 2) st).rowStart = st.rowStart + 9 * tick 125 := by
  intro st
  have h := (C18_row_accounting_rowdelay 2 st).1
  have h2 : (1 + 2 % 16) * st.speed = 9 := by decide
  rw [h2] at h
  exact h

/-- The player in one row (any non-jump effect): exactly `speed'·(1+delay)` frames, one row
entry, Σ frame_time as accounted by the scan, then `next_row`. -/
theorem C18_play_row (e : PlayEnv) (p : PlaySt) (fx : Fx) (hfx : e.fxAt p.ord p.row = fx)
    (hj : fx.isJump = false) (hw : fx.WF) (hfr : p.frame = 0) (hd : p.delay = 0) (hl : p.loopCount = 0)
    (hs : 1 ≤ p.speed)
    (hne : ¬ (p.ord = e.si.endOrd ∧ p.row = e.si.endRow ∧ p.endPoint = 0)) :
    ∃ F, F.length = rowFrames fx p.speed ∧ rowTrace F = [(p.ord, p.row)] ∧
      ticks F = rowFrames fx p.speed * tick (fxBpm fx p.bpm) ∧
      e.runN (rowFrames fx p.speed) p = (e.nextRow (rowEnd e p fx)).map fun p' => (F, p') :=
  runN_row e p fx hfx hj hw hfr hd hl hs hne

/-- **Simulation inside a pattern.**  `fxs` is a jump-free stretch of rows of the pattern at
order `ord` starting at `row`, followed by at least one more row (`rest`).  The scan state `st`
has not visited these rows; the player state `p` stands at the first frame of `(ord,row)`
before its new-row work.  If they agree on speed, tempo and exact time then
* the scan's row loop runs through `fxs` and continues with `rest`,
* the player renders frames `F` without incrementing the loop counter,
* both have the same row trace, `Σ frame_time = ` advance of the scan's clock,
* and they agree again at `(ord, row + fxs.length)`. -/
theorem C18_scan_eq_play_partial (e : PlayEnv) (ord row : Nat) (fxs rest : List Fx) (st : ScanSt) (p : PlaySt)
    (hrows : (e.m.rowsOf (e.m.patOf ord)).drop row = fxs ++ rest) (hrest : rest ≠ [])
    (hfx : ∀ fx ∈ fxs, fx.isJump = false ∧ fx.WF)
    -- scan side: rows not visited yet, tempo sane, scan_cnt allocated
    (hfresh : ∀ r, row ≤ r → cntAt st.cnt ord r = 0) (hbpm : 20 ≤ st.bpm)
    (hlen : ord < st.cnt.length) (hrl : row + fxs.length ≤ (st.cnt.getD ord []).length)
    -- the scan's runaway guard (`row_count_total > row_limit`, in the model since round 3) stays idle on the stretch
    (hgl : st.rowCountTotal + fxs.length ≤ rowLimit + 1)
    -- the scan's end point is not inside the stretch
    (hend : ord = e.si.endOrd → ∀ r, row ≤ r → r < row + fxs.length → r ≠ e.si.endRow)
    -- player side: first frame of (ord,row)
    (ho : p.ord = ord) (hr : p.row = row) (hf : p.frame = 0) (hd : p.delay = 0) (hp : p.pbreak = false)
    (hl : p.loopCount = 0) (hs : 1 ≤ p.speed)
    -- no IT row delay pending (`flow.rowdelay`, new with the `rowdelay` effect of the model)
    (hrd : p.rowdelay = 0)
    -- agreement
    (hsp : p.speed = st.speed) (hbp : p.bpm = st.bpm) (ht : p.time = st.rowStart) :
    ∃ st' F p',
      scanRows ord (fxs ++ rest) row st = scanRows ord rest (row + fxs.length) st' ∧
      e.runN F.length p = some (F, p') ∧
      st'.trace.map posOf = (rowTrace F).reverse ++ st.trace.map posOf ∧
      ticks F = st'.rowStart - st.rowStart ∧
      p'.ord = ord ∧ p'.row = row + fxs.length ∧ p'.frame = 0 ∧ p'.loopCount = 0 ∧
      p'.speed = st'.speed ∧ p'.bpm = st'.bpm ∧ p'.time = st'.rowStart ∧ p'.endPoint = p.endPoint := by
  obtain ⟨st', hs1, hd1⟩ := scanRows_nojump_app ord rest fxs row st hfx hfresh hbpm hlen hrl hgl
  obtain ⟨F, p', hrun, htr, htk, h1, h2, h3, _, _, h6, h7, h8, h9, h10, _⟩ :=
    runN_rows e ord fxs rest row p hrows hrest hfx hend ho hr hf hd hp hl hs hrd
  refine ⟨st', F, p', hs1, hrun, ?_, ?_, h1, h2, h3, h6, ?_, ?_, ?_, h10⟩
  · rw [hd1.trace, htr]
  · rw [htk, hd1.rowStart, hsp, hbp]; omega
  · rw [h7, hd1.speed, hsp]
  · rw [h8, hd1.bpm, hbp]
  · rw [h9, hd1.rowStart, hsp, hbp, ht]

/-! non-trivial instance of the hypotheses: pattern `[speed 3, delay 2, tempo 150, –]` at order 0 of a
one-order module, scan and player at its first row with speed 6 / tempo 125; the stretch is the
first three rows (3 + 9 + 3 frames). -/
def exM : LinMod := { xxo := [0], pats := [[.speed 3, .delay 2, .tempo 150, .none]], rst := 0, spd := 6, bpm := 125, marker := false }
def exE : PlayEnv := { m := exM, si := { seq := 0, ep := 0, endOrd := 0, endRow := 3, num := 1 }, ctl := [], info := [] }
def exSt : ScanSt := { speed := 6, bpm := 125, cnt := [[0, 0, 0, 0]], ctl := [], info := [] }
def exP : PlaySt := { ord := 0, row := 0, frame := 0, speed := 6, bpm := 125, endPoint := 1 }

theorem exFresh : ∀ r, 0 ≤ r → cntAt exSt.cnt 0 r = 0 := by
  intro r _
  match r with
  | 0 | 1 | 2 | 3 => rfl
  | r + 4 => rfl

example := C18_scan_eq_play_partial exE 0 0 [.speed 3, .delay 2, .tempo 150] [Fx.none] exSt exP rfl (by simp)
  (by intro fx h; simp at h; rcases h with h | h | h <;> subst h <;> simp [Fx.isJump, Fx.WF])
  exFresh (by simp [exSt]) (by simp [exSt]) (by show 0 + 3 ≤ 4; omega) (by show 0 + 3 ≤ 512 + 1; omega)
  (by intro _ r _ h; simp at h; show r ≠ 3; omega)
  rfl rfl rfl rfl rfl rfl (by simp [exP]) rfl rfl rfl (by simp [exP, exSt, ScanSt.rowStart])

/-- **The scan terminates**: the fuelled model of `scan_module`'s outer loop never runs out of
`scanFuel m = (len+1)·514 + 1` iterations — each iteration either ends the scan, skips an order
(at most 513 in a row: `orders_since_last_valid`), or scans a pattern whose first row was
unvisited, which can happen at most `len` times. -/
theorem C18_scan_terminates (m : LinMod) (ep chain : Nat) (ctl : List Nat) (info : List OrdInfo)
    (hrst : m.rst < m.len) (hep : ep < m.len) :
    (scanModule m ep chain ctl info).fuelOut = false :=
  scanModule_fuelOut m ep chain ctl info hrst hep

/-- instance: the example module (one order, restart 0, entry point 0) -/
example : (scanModule exM 0 0 [] []).fuelOut = false :=
  C18_scan_terminates exM 0 0 [] [] (by decide) (by decide)

/-- `check_end_of_module`: the loop counter increments exactly at the scan's end point once the
visit budget is used up; otherwise entering the end point costs one unit of the budget. -/
theorem C18_loop_count_partial (e : PlayEnv) (s : PlaySt) :
    ((e.checkEnd s).loopCount = s.loopCount + 1 ↔
      (s.ord = e.si.endOrd ∧ s.row = e.si.endRow ∧ s.endPoint = 0)) ∧
    (¬ (s.ord = e.si.endOrd ∧ s.row = e.si.endRow ∧ s.endPoint = 0) →
      (e.checkEnd s).loopCount = s.loopCount ∧
      (e.checkEnd s).endPoint = endAfter e s.ord s.row s.endPoint) ∧
    (s.frame ≠ 0 → (e.render s).loopCount = s.loopCount) := by
  refine ⟨?_, ?_, ?_⟩
  · simp only [PlayEnv.checkEnd]
    by_cases h1 : s.ord = e.si.endOrd ∧ s.row = e.si.endRow
    · by_cases h2 : s.endPoint = 0
      · simp [h1, h2]
      · simp [h1, h2]
    · simp only [h1, if_false]
      constructor
      · intro h; omega
      · intro h; exact absurd ⟨h.1, h.2.1⟩ h1
  · intro h
    simp only [PlayEnv.checkEnd, endAfter]
    by_cases h1 : s.ord = e.si.endOrd ∧ s.row = e.si.endRow
    · have : ¬ s.endPoint = 0 := fun h2 => h ⟨h1.1, h1.2, h2⟩
      simp [h1, this]
    · simp [h1]
  · intro h
    simp [PlayEnv.render, h]

/-! ## across orders -/

/-- **The order transition.**  The scan state `st` stands at the top of the `while (42)` after a
pattern (`orders_since_last_valid = 0`) and is about to do `++ord` to `nord` (the order after the last
row, or a jump target — anything).  Then the loop head runs through skipped orders, possibly the end
marker and the wrap to `mod->rst` / the entry point, and arrives — never through the sanity exit or
the end-marker exit — at the processing of a playable order `o` (`procValid`), having changed only
`orders_since_last_valid` and the `sequence_control` entries of non-playable orders; and the player's
`next_order` from the same `nord` returns the same `o`, provided its `sequence_control[rst]` lookup
agrees with the scan's. -/
theorem C18_order_step (m : LinMod) (ep chain o1 : Nat) (si : SeqInfo) (ctl : List Nat) (hw : ModWF m)
    (hep : ep < m.len) (hstart : SkipRange m ep o1) (ho1 : isPlay m o1) (hepo1 : ep ≤ o1)
    (fuel nord : Nat) (st : ScanSt) (hosv : st.osv = 0) (hem : st.endMark = none)
    (hne : scanOrders m ep chain fuel nord st ≠ .noFuel)
    (hsi : si.ep = ep)
    (hU : (isPlay m m.rst ∧ st.ctl.getD m.rst 0xff = chain) ↔ (isPlay m m.rst ∧ ctl.getD m.rst 0xff = si.seq)) :
    ∃ o fuel' k c', isPlay m o ∧ fuel' < fuel ∧ CtlKeep m ep chain st.ctl c' ∧
      scanOrders m ep chain fuel nord st = procValid m ep chain fuel' o { st with osv := k, ctl := c' } ∧
      nextOrder m si ctl (orderFuel m) nord = some o := by
  obtain ⟨o, fuel', k, c', h1, h2, h3, h4, h5⟩ :=
    scan_head m ep chain o1 hw hep hstart ho1 hepo1 fuel nord st hosv hem hne
  exact ⟨o, fuel', k, c', h1, h2, h3, h4,
    play_target m si ctl o1 _ hw (by rw [hsi]; exact hep) (by rw [hsi]; exact hstart) ho1 (by rw [hsi]; exact hepo1)
      hU nord o (by rw [hsi]; exact h5)⟩

/-! instance (needs `exM3`, defined below): see `exOrderStep` after the definition of `exM3`. -/

/-- **One pattern, incl. the jump row.**  `pre` is the jump-free part of the pattern at order `ord`,
`last` its first jump row or its last row.  Scan (all rows unvisited) and player (at the first tick of
row 0) produce the same row records, spend the same exact time, and both continue with the order
`nordAfter ord last` (`ord + 1`, or the jump target). -/
theorem C18_pattern_step (e : PlayEnv) (ord : Nat) (pre : List Fx) (last : Fx) (post : List Fx) (st : ScanSt) (p : PlaySt)
    (hrows : e.m.rowsOf (e.m.patOf ord) = pre ++ last :: post)
    (hpre : ∀ fx ∈ pre, fx.isJump = false ∧ fx.WF) (hlw : last.WF) (hlast : last.isJump = true ∨ post = [])
    (hfresh : ∀ r, cntAt st.cnt ord r = 0) (hb : 20 ≤ st.bpm) (hlen : ord < st.cnt.length)
    (hrl : pre.length + 1 ≤ (st.cnt.getD ord []).length)
    (hgl : st.rowCountTotal + (pre.length + 1) ≤ rowLimit + 1)
    (hend : ord = e.si.endOrd → e.si.endRow < pre.length + 1 → p.endPoint ≠ 0)
    (ho : p.ord = ord) (hr : p.row = 0) (hf : p.frame = 0) (hd : p.delay = 0) (hp : p.pbreak = false)
    (hj : p.jump = none) (hl : p.loopCount = 0) (hs : 1 ≤ p.speed) (hrd : p.rowdelay = 0)
    (hsp : p.speed = st.speed) (hbp : p.bpm = st.bpm) (ht : p.time = st.rowStart) :
    ∃ st' F sP,
      scanRows ord (e.m.rowsOf (e.m.patOf ord)) 0 st = .done st' (ord2After last) ∧
      e.runN F.length p = (e.enter sP ((ord2After last).getD (ord + 1))).map (fun p' => (F, p')) ∧
      st'.trace = (rowRecs F).reverse ++ st.trace ∧ ticks F = st'.rowStart - st.rowStart ∧
      sP.speed = st'.speed ∧ sP.bpm = st'.bpm ∧ sP.time = st'.rowStart ∧ sP.loopCount = 0 := by
  obtain ⟨st', h1, hd1⟩ := scan_pattern ord pre last post 0 st hpre hlw hlast (fun r _ => hfresh r) hb hlen (by omega) hgl
  obtain ⟨F, sP, hrun, hrec, htk, b1, b2, b3, b4, b5, b6, b7, b8, _⟩ :=
    play_pattern e ord pre last post 0 p (by rw [hrows]; rfl) hpre hlw hlast
      (fun h1 _ h3 => hend h1 (by omega)) ho hr hf hd hp hj hl hs hrd
  refine ⟨st', F, sP, by rw [hrows]; exact h1, by rw [← nordAfter_eq]; exact hrun, ?_, ?_, ?_, ?_, ?_, b4⟩
  · rw [hd1.recs, hrec, hsp, hbp, ht]
  · rw [htk, hd1.rowStart, hsp, hbp]; omega
  · rw [b5, hd1.speed, hsp]
  · rw [b6, hd1.bpm, hbp]
  · rw [b7, hd1.rowStart, hsp, hbp, ht]

/-- instance: the four-row pattern of `exM` (speed change, pattern delay, tempo change, empty last row),
scan and player at its first row -/
example := C18_pattern_step exE 0 [.speed 3, .delay 2, .tempo 150] .none [] exSt exP rfl
  (by intro fx h; simp at h; rcases h with h | h | h <;> subst h <;> simp [Fx.isJump, Fx.WF])
  (by simp [Fx.WF]) (Or.inr rfl) (fun r => exFresh r (Nat.zero_le _)) (by simp [exSt]) (by simp [exSt])
  (by show 3 + 1 ≤ 4; omega) (by show 0 + (3 + 1) ≤ 512 + 1; omega) (by intro _ _; show (1 : Int) ≠ 0; decide)
  rfl rfl rfl rfl rfl rfl rfl (by simp [exP]) rfl rfl rfl (by simp [exP, exSt, ScanSt.rowStart])

/-- **Cross-order simulation of one sequence** (`scan_module(ep, chain)` against `Play.run`). -/
theorem C18_scan_eq_play_seq (m : LinMod) (ep chain : Nat) (ctl0 : List Nat) (info0 : List OrdInfo) (e : PlayEnv)
    (o1 : Nat) (H : SeqHyp m ep chain ctl0 info0 e o1) :
    ∃ F, (∀ fuel, F.length + 1 ≤ fuel → e.run fuel = F) ∧
      -- same rows: position, speed, tempo, pattern delay, exact start time of every row
      rowRecs F = (scanModule m ep chain ctl0 info0).trace ∧
      rowTrace F = (scanModule m ep chain ctl0 info0).trace.map posOf ∧
      -- Σ frame_time = the duration before the `(int)` truncation
      ticks F = (scanModule m ep chain ctl0 info0).durX := by
  obtain ⟨F, s0, pF, _, _, h3, _, h4, h5, _⟩ := sim_sequence m ep chain ctl0 info0 e o1 H
  exact ⟨F, h3, h4, by rw [rowTrace_eq_rowRecs, h4], h5⟩

/-! non-trivial instance of `SeqHyp`: three orders — pattern 0 (speed change, pattern delay), an invalid
order (skipped by both interpreters), pattern 1 whose second row jumps back to order 0 (its third row is
never played); main sequence, fresh `sequence_control` / `xxo_info`; the player environment holds what
the scan of this module computes.  The hypotheses are checked by the decidable `seqHypB`. -/
def exM2 : LinMod :=
  { xxo := [0, 5, 1], pats := [[.speed 3, .delay 2], [.tempo 150, .jump 0, .none]], rst := 0, spd := 6, bpm := 125,
    marker := false }
def exE2 : PlayEnv :=
  { m := exM2, si := { seq := 0, ep := 0, endOrd := 0, endRow := 0, num := 1 },
    ctl := [0, 0, 0], info := [{ time := 0, speed := 6, bpm := 125 }] }

theorem exSeqHyp : ∃ o1, SeqHyp exM2 0 0 (List.replicate 256 0xff) (List.replicate 256 {}) exE2 o1 :=
  seqHypB_sound exE2 0 0 (List.replicate 256 0xff) (List.replicate 256 {}) (by decide +kernel)

example : ∃ F, (∀ fuel, F.length + 1 ≤ fuel → exE2.run fuel = F) ∧
    rowTrace F = [(0, 0), (0, 1), (2, 0), (2, 1)] := by
  obtain ⟨o1, H⟩ := exSeqHyp
  obtain ⟨F, h1, _, h3, _⟩ := C18_scan_eq_play_seq exM2 0 0 _ _ exE2 o1 H
  refine ⟨F, h1, ?_⟩
  rw [h3]
  decide +kernel

/-- a secondary sequence of an S3M-style module: order list `[0, 0xfe, 1, 0xff, 0]`, pattern 0 jumps to
itself (sequence 0 = order 0 alone); sequence 1 starts at the skip marker (order 1), plays pattern 1 and
runs into the end marker, restarting at its entry point -/
def exM3 : LinMod :=
  { xxo := [0, 0xfe, 1, 0xff, 0], pats := [[.jump 0], [.none, .tempo 40]], rst := 0, spd := 2, bpm := 125,
    marker := true }
def exE3 : PlayEnv := (scanSequences exM3).env exM3 1

example : ∃ o1, SeqHyp exM3 1 1 ((scanModule exM3 0 0 (List.replicate 256 0xff) (List.replicate 256 {})).ctl)
    ((scanModule exM3 0 0 (List.replicate 256 0xff) (List.replicate 256 {})).info) exE3 o1 :=
  seqHypB_sound exE3 1 1 _ _ (by decide +kernel)

/-- **Order start times.**  In the run of one sequence every frame's `time` is the running Σ frame_time
(`timesOK`), and for every order `o` first entered by this scan (`xxo_info[o].time` unset before it) the
recorded `xxo_info[o].time` is — exactly before the `(int)` truncation, hence within 1 ms < 1 tick after
it — the Σ frame_time of all frames rendered before the first tick of row 0 of `o`. -/
theorem C18_order_start_time (m : LinMod) (ep chain : Nat) (ctl0 : List Nat) (info0 : List OrdInfo) (e : PlayEnv)
    (o1 : Nat) (H : SeqHyp m ep chain ctl0 info0 e o1) :
    ∃ F, (∀ fuel, F.length + 1 ≤ fuel → e.run fuel = F) ∧ timesOK 0 F ∧
      ∀ f ∈ F, f.frame = 0 → f.row = 0 → (info0.getD f.ord {}).time < 0 → f.ord < info0.length →
        ((scanModule m ep chain ctl0 info0).info.getD f.ord {}).timeX = f.time - tick f.bpm ∧
        ((scanModule m ep chain ctl0 info0).info.getD f.ord {}).time = ((f.time - tick f.bpm) / L : Nat) := by
  obtain ⟨F, s0, pF, _, _, h3, h4, h5, _, _, _, _, _, _, _, _, _, h17⟩ := sim_sequence m ep chain ctl0 info0 e o1 H
  refine ⟨F, h3, h4, ?_⟩
  intro f hf hfr hrow hneg hlt
  have hmem : recOf f ∈ (scanModule m ep chain ctl0 info0).trace := by
    rw [← h5]
    unfold rowRecs
    exact List.mem_map.mpr ⟨f, List.mem_filter.mpr ⟨hf, by simp [hfr]⟩, rfl⟩
  exact h17.1 (recOf f) hmem hrow hneg hlt

def Outcome.isNoFuel : Outcome → Bool
  | .noFuel => true
  | _ => false

theorem Outcome.ne_noFuel (o : Outcome) (h : o.isNoFuel = false) : o ≠ .noFuel := by
  intro hh; rw [hh] at h; cases h

/-- the scan state of sequence 1 of `exM3` after its pattern at order 2: about to do `++ord` to 3, the end
marker; the loop head wraps to the entry point (order 1, a skip marker) and arrives at order 2 again -/
def exSt3 : ScanSt :=
  { speed := 2, bpm := 40, cnt := [[1], [0], [1, 1], [0], [0]], ctl := [0, 1, 1, 0xff, 0xff], info := [] }

/-- instance of `C18_order_step`: end marker, wrap to the entry point, skip marker, playable order -/
theorem exOrderStep : ∃ o, isPlay exM3 o ∧
    nextOrder exM3 { seq := 1, ep := 1, endOrd := 2, endRow := 0, num := 1 } exSt3.ctl (orderFuel exM3) 3 = some o := by
  obtain ⟨o, _, _, _, h1, _, _, _, h5⟩ := C18_order_step exM3 1 1 2
    { seq := 1, ep := 1, endOrd := 2, endRow := 0, num := 1 } exSt3.ctl (modWFb_sound exM3 (by decide)) (by decide)
    (by intro o h1 h2; have : o = 1 := by omega
        subst this; decide)
    (by decide) (by decide) 20 3 exSt3 rfl rfl (Outcome.ne_noFuel _ (by decide +kernel)) rfl Iff.rfl
  exact ⟨o, h1, h5⟩

/-- the reported duration (ms, `int`) is the rendered time rounded down: within 1 ms — less than one
tick at any tempo ≤ 255 — of Σ frame_time -/
theorem C18_duration_within_ms (m : LinMod) (ep chain : Nat) (ctl0 : List Nat) (info0 : List OrdInfo) (e : PlayEnv)
    (o1 : Nat) (H : SeqHyp m ep chain ctl0 info0 e o1) :
    ∃ F, (∀ fuel, F.length + 1 ≤ fuel → e.run fuel = F) ∧
      (scanModule m ep chain ctl0 info0).ret = ((ticks F / L : Nat) : Int) ∧
      (ticks F / L) * L ≤ ticks F ∧ ticks F < (ticks F / L + 1) * L ∧ L < tick 255 := by
  obtain ⟨stF, oF, rS, hscan, hav, r1, r2, r3, r4, r5, r6, r7⟩ := scanModule_accepted m ep chain ctl0 info0 H.acc
  obtain ⟨F, h1, _, _, h4⟩ := C18_scan_eq_play_seq m ep chain ctl0 info0 e o1 H
  have hLpos : 0 < L := by decide +kernel
  refine ⟨F, h1, ?_, Nat.div_mul_le_self _ _, ?_, by decide +kernel⟩
  · rw [h4]
    have : (scanModule m ep chain ctl0 info0).ret = ((toMs (scanModule m ep chain ctl0 info0).durX : Nat) : Int) := by
      unfold scanModule
      simp only []
      have hinit : ({ speed := m.spd, bpm := m.bpm, cnt := initCnt m, ctl := ctl0, info := info0 } : ScanSt) =
          scanInit m ctl0 info0 := rfl
      rw [hinit, hscan]
      simp only [hav, Bool.not_true, Bool.false_eq_true, if_false]
    rw [this]; rfl
  · have := Nat.lt_div_mul_add (a := ticks F) hLpos
    rw [Nat.add_mul, Nat.one_mul]; omega

example : ∃ F, (∀ fuel, F.length + 1 ≤ fuel → exE2.run fuel = F) ∧ timesOK 0 F := by
  obtain ⟨o1, H⟩ := exSeqHyp
  obtain ⟨F, h1, h2, _⟩ := C18_order_start_time exM2 0 0 _ _ exE2 o1 H
  exact ⟨F, h1, h2⟩

example : ∃ F, (∀ fuel, F.length + 1 ≤ fuel → exE2.run fuel = F) ∧ (ticks F / L) * L ≤ ticks F := by
  obtain ⟨o1, H⟩ := exSeqHyp
  obtain ⟨F, h1, _, h3, _⟩ := C18_duration_within_ms exM2 0 0 _ _ exE2 o1 H
  exact ⟨F, h1, h3⟩

/-- `seqHypB` (the Boolean the driver evaluates on every sequence of every generated module) is a sound
test for the hypotheses: the simulation theorem in checked form. -/
theorem C18_scan_eq_play_checked (e : PlayEnv) (ep chain : Nat) (ctl0 : List Nat) (info0 : List OrdInfo)
    (h : seqHypB e ep chain ctl0 info0 = true) :
    ∃ F, (∀ fuel, F.length + 1 ≤ fuel → e.run fuel = F) ∧
      rowRecs F = (scanModule e.m ep chain ctl0 info0).trace ∧
      ticks F = (scanModule e.m ep chain ctl0 info0).durX ∧
      (scanModule e.m ep chain ctl0 info0).ret = ((ticks F / L : Nat) : Int) := by
  obtain ⟨o1, H⟩ := seqHypB_sound e ep chain ctl0 info0 h
  obtain ⟨F, h1, h2, _, h4⟩ := C18_scan_eq_play_seq e.m ep chain ctl0 info0 e o1 H
  obtain ⟨F', g1, g2, _⟩ := C18_duration_within_ms e.m ep chain ctl0 info0 e o1 H
  have : F' = F := by
    have a := g1 (F.length + F'.length + 1) (by omega)
    have b := h1 (F.length + F'.length + 1) (by omega)
    exact a.symm.trans b
  rw [this] at g2
  exact ⟨F, h1, h2, h4, g2⟩

example := C18_scan_eq_play_checked exE2 0 0 (List.replicate 256 0xff) (List.replicate 256 {}) (by decide +kernel)

/-- **The loop counter increments exactly when playback re-enters a row already played** (for a
secondary sequence: or enters an order that belongs to another sequence). -/
theorem C18_loop_count (m : LinMod) (ep chain : Nat) (ctl0 : List Nat) (info0 : List OrdInfo) (e : PlayEnv)
    (o1 : Nat) (H : SeqHyp m ep chain ctl0 info0 e o1) :
    ∃ F s0 pF, e.start = some s0 ∧ (∀ fuel, F.length + 1 ≤ fuel → e.run fuel = F) ∧
      -- `pF` is the state after the sequencing that follows the last frame of `F`
      e.runN F.length s0 = some (F, pF) ∧
      -- not before: the counter is 0 on every frame, and no row is entered twice
      (∀ f ∈ F, f.loopCount = 0) ∧ (rowTrace F).Nodup ∧
      -- then: the next frame is the first tick of the scan's end point and increments the counter
      pF.frame = 0 ∧ (pF.ord, pF.row) = ((scanModule m ep chain ctl0 info0).endOrd, 0) ∧
      (scanModule m ep chain ctl0 info0).endRow = 0 ∧ (e.render pF).loopCount = 1 ∧
      -- that row was played before, or the order is another sequence's
      ((pF.ord, pF.row) ∈ rowTrace F ∧ (scanModule m ep chain ctl0 info0).num = 1 ∨
       (pF.ord, pF.row) ∉ rowTrace F ∧ (scanModule m ep chain ctl0 info0).num = 0 ∧ ep ≠ 0 ∧
         ctl0.getD pF.ord 0xff ≠ 0xff) := by
  obtain ⟨F, s0, pF, h1, h2, h3, _, _, _, h6, h7, h8, h9, h10, h11, h12, h13, _⟩ := sim_sequence m ep chain ctl0 info0 e o1 H
  have hpos : (pF.ord, pF.row) = ((scanModule m ep chain ctl0 info0).endOrd, 0) := by rw [h7, h8, h9]
  refine ⟨F, s0, pF, h1, h3, h2, h6, h12, h10, hpos, h9, h11, ?_⟩
  rw [hpos]
  rcases h13 with h | h
  · exact Or.inl h
  · exact Or.inr ⟨h.1, h.2.1, h.2.2.1, by rw [h7]; exact h.2.2.2⟩

/-- **The scan's runaway guard never fires** for a module of the class: `row_count_total` (the rows of the
current order visit; reset only at the bottom of the order loop, not by the `continue`s of skipped
orders; checked against `row_limit = 512` at the top of every row, before the `scan_cnt` test) is 0 when
`scan_module` ends, i.e. the scan did not stop through `row_count_total > row_limit` (that exit leaves
a value above 512).  The bound that makes it so is part of `ModWF`: at most 256 rows per pattern.  (The
guard, with exactly these reset points, is part of the model's `scanRows` / `scanOrders`; all simulation
theorems are proved with it in place.) -/
theorem C18_row_guard_idle (m : LinMod) (ep chain : Nat) (ctl0 : List Nat) (info0 : List OrdInfo) (e : PlayEnv)
    (o1 : Nat) (H : SeqHyp m ep chain ctl0 info0 e o1) :
    (scanModule m ep chain ctl0 info0).rowTotal = 0 ∧ (scanModule m ep chain ctl0 info0).rowTotal ≤ rowLimit := by
  obtain ⟨F, s0, pF, _, _, _, _, _, _, _, _, _, _, _, _, _, _, _, h⟩ := sim_sequence m ep chain ctl0 info0 e o1 H
  exact ⟨h, by rw [h]; exact Nat.zero_le _⟩

example : (scanModule exM2 0 0 (List.replicate 256 0xff) (List.replicate 256 {})).rowTotal = 0 := by
  obtain ⟨o1, H⟩ := exSeqHyp
  exact (C18_row_guard_idle exM2 0 0 _ _ exE2 o1 H).1

/-- the same for every sequence of `libxmp_scan_sequences` -/
theorem C18_row_guard_idle_all (m : LinMod) (hw : ModWF m) (hok : (scanSequences m).ok = true) (k : Nat)
    (hk : k < (scanSequences m).seqs.length) : ((scanSequences m).seqs.getD k default).res.rowTotal = 0 := by
  obtain ⟨ctlk, infok, o1, hres, H, _⟩ := scanSequences_seqHyp m hw hok k hk
  rw [hres]
  exact (C18_row_guard_idle m _ k ctlk infok _ o1 H).1

example := C18_row_guard_idle_all exM3 (modWFb_sound exM3 (by decide)) (by decide +kernel) 2 (by decide +kernel)

/-! ## all sequences of `libxmp_scan_sequences` -/

/-- a marker-format module with a restart position: sequence 1 (entry point 2) plays orders 2 and 3 (the
restart position), jumps to order 1 — an end marker *below* its entry point — and restarts at the entry
point, as `next_order` does (libxmp 4bf9f85; the scan used to restart at `mod->rst` = 3 here) -/
def exM4 : LinMod :=
  { xxo := [0, 0xff, 1, 2], pats := [[.none], [.none], [.jump 1]], rst := 3, spd := 2, bpm := 125, marker := true }

example : ((scanSequences exM4).seqs.getD 1 default).ep = 2 ∧ ((scanSequences exM4).seqs.getD 1 default).res.endOrd = 2 := by
  decide +kernel

/-- **C18, the scan against the player, for every sequence of a module.**  For every module of the
class `ModWF` that `libxmp_scan_sequences` accepts and every sequence `k` it finds, with the player
environment `sc.env m k` built from the final `sequence_control` / `xxo_info` (as `xmp_start_player` /
`xmp_set_position` see them): `Play.run` from the entry point renders exactly the rows of that sequence's
scan trace (positions, speed, tempo, pattern delay, exact start time of every row), Σ frame_time equals the
exact duration and the reported `int` duration is its floor in ms (< 1 tick away); the loop counter is 0
on every one of these frames, no row is played twice, and the next frame — the first tick of the
scan's end point, row 0 of `endOrd` — increments it; that row was played before, or (secondary sequences
only) the order belongs to another sequence. -/
theorem C18_scan_eq_play (m : LinMod) (hw : ModWF m) (hok : (scanSequences m).ok = true) (k : Nat)
    (hk : k < (scanSequences m).seqs.length) :
    ∃ F s0 pF,
      ((scanSequences m).env m k).start = some s0 ∧
      (∀ fuel, F.length + 1 ≤ fuel → ((scanSequences m).env m k).run fuel = F) ∧
      -- same rows, same exact times
      rowRecs F = ((scanSequences m).seqs.getD k default).res.trace ∧
      rowTrace F = ((scanSequences m).seqs.getD k default).res.trace.map posOf ∧
      timesOK 0 F ∧
      -- duration
      ticks F = ((scanSequences m).seqs.getD k default).res.durX ∧
      ((scanSequences m).seqs.getD k default).res.ret = ((ticks F / L : Nat) : Int) ∧
      -- loop counter
      ((scanSequences m).env m k).runN F.length s0 = some (F, pF) ∧
      (∀ f ∈ F, f.loopCount = 0) ∧ (rowTrace F).Nodup ∧
      pF.frame = 0 ∧ (pF.ord, pF.row) = (((scanSequences m).seqs.getD k default).res.endOrd, 0) ∧
      ((scanSequences m).seqs.getD k default).res.endRow = 0 ∧
      (((scanSequences m).env m k).render pF).loopCount = 1 ∧
      ((pF.ord, pF.row) ∈ rowTrace F ∧ ((scanSequences m).seqs.getD k default).res.num = 1 ∨
       (pF.ord, pF.row) ∉ rowTrace F ∧ ((scanSequences m).seqs.getD k default).res.num = 0 ∧
         ((scanSequences m).seqs.getD k default).ep ≠ 0) ∧
      -- order start times: `xxo_info[o].time` of every order entered is the Σ frame_time before its first tick
      (∀ f ∈ F, f.frame = 0 → f.row = 0 →
        ((scanSequences m).info.getD f.ord {}).timeX = f.time - tick f.bpm ∧
        ((scanSequences m).info.getD f.ord {}).time = (((f.time - tick f.bpm) / L : Nat) : Int)) := by
  obtain ⟨ctlk, infok, o1, hres, H, hinfoT⟩ := scanSequences_seqHyp m hw hok k hk
  obtain ⟨F, s0, pF, h1, h2, h3, h4, h5, h6, h7, h8, h9, h10, h11, h12, h13, h14, _⟩ :=
    sim_sequence m _ k ctlk infok _ o1 H
  obtain ⟨F', g1, g2, _⟩ := C18_duration_within_ms m _ k ctlk infok _ o1 H
  have hFF : F' = F := by
    have a := g1 (F.length + F'.length + 1) (by omega)
    have b := h3 (F.length + F'.length + 1) (by omega)
    exact a.symm.trans b
  rw [hFF] at g2
  rw [← hres] at h5 h6 h8 h9 h10 h14 g2
  have hpos : (pF.ord, pF.row) = (((scanSequences m).seqs.getD k default).res.endOrd, 0) := by rw [h8, h9, h10]
  refine ⟨F, s0, pF, h1, h3, h5, by rw [rowTrace_eq_rowRecs, h5], h4, h6, g2, h2, h7, h13, h11, hpos, h10, h12, ?_, ?_⟩
  · rw [hpos]
    rcases h14 with h | h
    · exact Or.inl h
    · exact Or.inr ⟨h.1, h.2.1, h.2.2.1⟩
  · intro f hf hfr hrow
    have hmem : recOf f ∈ ((scanSequences m).seqs.getD k default).res.trace := by
      rw [← h5]
      unfold rowRecs
      exact List.mem_map.mpr ⟨f, List.mem_filter.mpr ⟨hf, by simp [hfr]⟩, rfl⟩
    exact hinfoT (recOf f) hmem hrow

/-- instance: the S3M-style example module with its three sequences (entry points 0, 1, 4) -/
example : ModWF exM3 ∧ (scanSequences exM3).ok = true ∧ (scanSequences exM3).seqs.length = 3 :=
  ⟨modWFb_sound exM3 (by decide), by decide +kernel, by decide +kernel⟩

example := C18_scan_eq_play exM3 (modWFb_sound exM3 (by decide)) (by decide +kernel) 1 (by decide +kernel)

example := C18_scan_eq_play exM4 (modWFb_sound exM4 (by decide)) (by decide +kernel) 1 (by decide +kernel)

example : ∃ F s0 pF, exE2.start = some s0 ∧ (∀ fuel, F.length + 1 ≤ fuel → exE2.run fuel = F) ∧
    (exE2.render pF).loopCount = 1 := by
  obtain ⟨o1, H⟩ := exSeqHyp
  obtain ⟨F, s0, pF, h1, h2, _, _, _, _, _, _, h9, _⟩ := C18_loop_count exM2 0 0 _ _ exE2 o1 H
  exact ⟨F, s0, pF, h1, h2, h9⟩

/-! ## `Fxx` and the VBlank flag: the same flag on the scan side and on the player side -/

/-- **Both sides read the same flag word** (facts generated from scan.c / effects.c / player.c by
`tools/gen_c18_flags.py` on every run): every test of `XMP_FLAGS_VBLANK` goes through `p->flags`, the flag word
of the current module (never `p->player_flags`, the defaults for the next load), both the scan and the
effect interpreter do test it, and their `FX_SPEED` conditions are the same three disjuncts — the ones
`decodeFxSpeed` is made of (`QUIRK_NOBPM`, the flag, parameter below 0x20). -/
theorem C18_flag_word_same :
    (∀ r ∈ Gen.C18Flags.vblankReads, r.2 = "p->flags") ∧
    (∃ r ∈ Gen.C18Flags.vblankReads, r.1 = "src/scan.c") ∧ (∃ r ∈ Gen.C18Flags.vblankReads, r.1 = "src/effects.c") ∧
    Gen.C18Flags.scanSpeedCond = Gen.C18Flags.playSpeedCond ∧
    Gen.C18Flags.scanSpeedCond = ["HAS_QUIRK(QUIRK_NOBPM)", "p->flags & XMP_FLAGS_VBLANK", "P < 0x20"] := by
  decide

/-- **C18 under either value of the VBlank flag.**  For a module with undecoded `Fxx` rows, whatever the value
`vb` of the flag (`xmp_set_player(XMP_PLAYER_CFLAGS, …)` with its rescan, `XMP_PLAYER_FLAGS` before the load, the
quirk table): if the scan and the player read the SAME value, everything `C18_scan_eq_play` states holds for the
decoded module — row records, exact duration and its `int` floor, loop counter, order start times. -/
theorem C18_scan_eq_play_flags (rm : RawMod) (vb : Bool) (hw : ModWF (rm.decode vb))
    (hok : (scanSequences (rm.decode vb)).ok = true) (k : Nat) (hk : k < (scanSequences (rm.decode vb)).seqs.length) :
    ∃ F, (∀ fuel, F.length + 1 ≤ fuel → (rm.env vb vb k).run fuel = F) ∧
      rowRecs F = ((scanSequences (rm.decode vb)).seqs.getD k default).res.trace ∧
      ticks F = ((scanSequences (rm.decode vb)).seqs.getD k default).res.durX ∧
      ((scanSequences (rm.decode vb)).seqs.getD k default).res.ret = ((ticks F / L : Nat) : Int) ∧
      (∀ f ∈ F, f.loopCount = 0) ∧
      (∀ f ∈ F, f.frame = 0 → f.row = 0 →
        ((scanSequences (rm.decode vb)).info.getD f.ord {}).timeX = f.time - tick f.bpm) := by
  have henv : rm.env vb vb k = (scanSequences (rm.decode vb)).env (rm.decode vb) k := rfl
  rw [henv]
  obtain ⟨F, s0, pF, _, h2, h3, _, _, h6, h7, _, h9, _, _, _, _, _, _, h16⟩ := C18_scan_eq_play (rm.decode vb) hw hok k hk
  exact ⟨F, h2, h3, h6, h7, h9, fun f hf h1 h2' => (h16 f hf h1 h2').1⟩

/-- a MOD-style module whose only effect is `F40`: tempo 64 under CIA timing, speed 64 under VBlank -/
def exRaw : RawMod :=
  { xxo := [0], pats := [[.fspeed 0x40, .fx .none]], rst := 0, spd := 6, bpm := 125, marker := false, nobpm := false }

example := C18_scan_eq_play_flags exRaw true (modWFb_sound _ (by decide)) (by decide +kernel) 0 (by decide +kernel)
example := C18_scan_eq_play_flags exRaw false (modWFb_sound _ (by decide)) (by decide +kernel) 0 (by decide +kernel)

/-- **The flag must be the same on both sides**: if the scan reads one value and the player the other (what
reading `player_flags` on one side amounts to after `XMP_PLAYER_CFLAGS`), the reported duration is not the
rendered time — on `exRaw` the scan (CIA) reports 2 rows at speed 6 and tempo 64, the player (VBlank) renders
64 + 64 ticks at tempo 125. -/
theorem C18_flag_mismatch_breaks :
    ticks ((exRaw.env false true 0).run 1000) ≠ ((scanSequences (exRaw.decode false)).seqs.getD 0 default).res.durX ∧
    ticks ((exRaw.env false false 0).run 1000) = ((scanSequences (exRaw.decode false)).seqs.getD 0 default).res.durX := by
  decide +kernel

/-! ## the flow effect of an event does not depend on its note column or on the voice its note gets -/

/-- **The player runs an event's flow effect whatever else the event holds** — the LinFlow model reads one flow
effect per row and ignores notes, instruments and voices; these are the facts about the C that make this sound,
regenerated from src/read_event.c and src/player.c by `tools/gen_c18_events.py` on every run:
* in every event reader (`read_event_mod / ft2 / st3 / it / med`) a `return` that comes before the final
  `libxmp_process_fx` calls either sits in a block that has already called `libxmp_process_fx` (IT: note without a
  voice, 8cfa942), or is FT2's late-note rule `p->frame >= p->speed` (never true on the first tick of a row, where
  the flow effects are read) — in particular no reader returns because `set_patch` found no voice;
* `read_row` rewrites the effect fields of an event only to strip a **note delay** (`MSN(ev.fxp) == EX_DELAY`)
  next to a key-off with instrument — never a pattern delay or any other flow effect. -/
theorem C18_events_keep_effects :
    (∀ r ∈ Gen.C18Events.earlyReturns, r.2.2 = true ∨ (r.1 = "read_event_ft2" ∧ r.2.1 = "p->frame >= p->speed")) ∧
    (∀ w ∈ Gen.C18Events.readRowFxWrites,
      "ev.note == XMP_KEY_OFF" ∈ w.1 ∧ "ev.fxt == FX_EXTENDED" ∈ w.1 ∧ "MSN(ev.fxp) == EX_DELAY" ∈ w.1) := by
  decide

/-- **A refused player mode is undone before the scan is repeated** (facts regenerated from src/control.c): in
the branch of `xmp_set_player(XMP_PLAYER_MODE)` taken when nothing is playable under the new mode, the old mode,
quirks, flow mode, event reader and period type are all put back first and the rescan is the last statement —
so the scan data the player reads afterwards is the old mode's (what the `refused_changed` oracle observes). -/
theorem C18_refused_mode_rescans_last :
    Gen.C18Events.refusedModeCleanup.getLast? = some "libxmp_scan_sequences(ctx)" ∧
    "libxmp_scan_sequences(ctx)" ∉ Gen.C18Events.refusedModeCleanup.dropLast ∧
    "p->mode = old_mode" ∈ Gen.C18Events.refusedModeCleanup ∧ "m->quirk = quirk" ∈ Gen.C18Events.refusedModeCleanup ∧
    "m->read_event_type = read_event_type" ∈ Gen.C18Events.refusedModeCleanup ∧
    "m->flow_mode = flow_mode" ∈ Gen.C18Events.refusedModeCleanup := by
  decide

end Xmp.LinFlow
