import XmpProofs.LinFlow
import XmpProofs.LinFlowTerm
/-!
# C18 — the reported duration is exact for modules with linear flow

Model: `XmpModel/LinFlow.lean` — `Scan` (`scanRows`, `scanOrders`, `scanModule`,
`scanSequences`: src/scan.c) and `Play` (`PlayEnv.render/advance/nextRow/…`,
the per-tick machine of `xmp_play_frame`: src/player.c, src/effects.c), two
independent interpreters of the vocabulary {speed, tempo, pattern delay, jump}.
Time is exact (unit `1/L` ms, `L = lcm(1..255)`).

## Full statements (goal)

```
C18_scan_eq_play : ∀ (m : LinMod), WF m → ∀ k < (scanSequences m).seqs.length,
  let sc := scanSequences m; let r := (sc.seqs.getD k default).res; let e := sc.env m k
  ∃ n, ∀ fuel ≥ n,
    rowTrace (e.run fuel) = r.trace.map posOf                      -- same rows, same order
  ∧ ticks (e.run fuel) = r.durX                                     -- Σ frame_time = duration before truncation
  ∧ (∀ first entries of an order o: Σ frame_time before = (sc.info.getD o {}).timeX)
  ∧ the frame after the last one has loop_count = 1                 -- C18_loop_count
```
(`C18_scan_terminates` is proved in full, see below.)

## What is proved here

* `C18_tick_exact` — the time unit is exact for every tempo 1..255.
* `C18_row_accounting` — the scan's bookkeeping (`row_count`, `frame_count`, `time` with its
  flushes at speed / tempo changes) advances the exact row start time, for **every** effect of
  the vocabulary, by `speed' · (1 + delay)` ticks at the tempo in force after the effect.
* `C18_play_row` — the per-tick player spends exactly that many frames in the row, all in the
  same row, the first one with `frame = 0`, their `frame_time` sums to the same amount, and
  then calls `next_row`.
* `C18_scan_eq_play_partial` — **simulation inside a pattern**: on any jump-free stretch of
  fresh rows (not containing the last row of the pattern nor the scan's end point) the scan's
  row loop and the player, started in agreement (same speed, tempo, exact time), produce the
  same row trace, end in agreement, and the player's Σ frame_time equals the advance of the
  scan's exact clock.  (`scanRows` on `fxs ++ rest` continues with `rest`.)
* `C18_scan_terminates` — **full**: `scan_module`'s `while (42)` never exhausts the fuel
  `(len+1)·514 + 1`, for every module, entry point, chain and prior `sequence_control` / `xxo_info`
  (measure: number of orders whose row 0 is unvisited, then `514 − orders_since_last_valid`).
* `C18_loop_count_partial` — `check_end_of_module` increments the loop counter exactly when the
  row entered is the scan's end point and the visit budget `end_point` (initialised with the
  scan's visit count `num`, one less per entry) is exhausted; frames that do not start a row
  never change it.

## What is missing for the full statements

The composition across *orders*: `next_order` (skip of invalid orders / markers, wrap with
restart / entry-point logic, `sequence_control` lookups) against the scan's `while (42)` head
(`restartOrd`, foreign-order break, `scan_cnt[ord][0]` break), the jump row (`pbreak`/`jump`
vs `ord2`), and the identification of the scan's end point with the first re-entered row (needs the
invariant `scan_cnt = multiplicity in trace`).
These parts are covered on every run by the correspondence only (the driver also evaluates
`rowTrace (Play.run) = Scan trace` on every generated module).
-/
namespace Xmp.LinFlow

/-- One tick at tempo `bpm ∈ 1..255` lasts exactly `2500/bpm` ms: `tick bpm * bpm = 2500 * L`. -/
theorem C18_tick_exact (b : Nat) (h1 : 1 ≤ b) (h2 : b ≤ 255) : tick b * b = 2500 * L := by
  unfold tick
  have h := L_dvd b h1 h2
  have : (2500 * L) % b = 0 := by
    rw [Nat.mul_mod, h]; simp
  exact Nat.div_mul_cancel (Nat.dvd_of_mod_eq_zero this)

example : tick 125 * 125 = 2500 * L := C18_tick_exact 125 (by decide) (by decide)

/-- **Accounting identity** (scan.c:362-378, 472-493, 496-530, 601-603, 635-637 against
player.c:2087/2134): for every effect of the vocabulary the scan's clock advances by the
player's time in the row. -/
theorem C18_row_accounting (fx : Fx) (st : ScanSt) (hw : fx.WF) :
    (scanStep fx st).rowStart = st.rowStart + rowFrames fx st.speed * tick (fxBpm fx st.bpm) ∧
    (scanStep fx st).speed = fxSpeed fx st.speed ∧ (scanStep fx st).bpm = fxBpm fx st.bpm :=
  ⟨scanStep_rowStart fx st hw, scanStep_speed fx st, scanStep_bpm fx st hw⟩

/-- non-trivial instance: a tempo change after three rows at speed 6 with a pending frame count -/
example : let st : ScanSt := { speed := 6, bpm := 125, rowCount := 3, frameCount := 12, time := 7, cnt := [], ctl := [], info := [] }
    (scanStep (.tempo 150) st).rowStart = st.rowStart + 6 * tick 150 := by
  intro st
  have := (C18_row_accounting (.tempo 150) st (by simp [Fx.WF])).1
  simpa [rowFrames, fxSpeed, fxBpm, Fx.delayOf] using this

/-- The player in one row (any non-jump effect): exactly `speed'·(1+delay)` frames, one row
entry, Σ frame_time as accounted by the scan, then `next_row`. -/
theorem C18_play_row (e : PlayEnv) (p : PlaySt) (fx : Fx) (hfx : e.fxAt p.ord p.row = fx)
    (hj : fx.isJump = false) (hw : fx.WF) (hfr : p.frame = 0) (hd : p.delay = 0) (hl : p.loopCount = 0)
    (hs : 1 ≤ p.speed)
    (hne : ¬ (p.ord = e.si.endOrd ∧ p.row = e.si.endRow ∧ p.endPoint = 0)) :
    ∃ F, F.length = rowFrames fx p.speed ∧ rowTrace F = [(p.ord, p.row)] ∧
      ticks F = rowFrames fx p.speed * tick (fxBpm fx p.bpm) ∧
      e.runN (rowFrames fx p.speed) p = (e.nextRow (rowEnd e p fx)).map fun p' => (F, p') :=
  runN_row e p fx hfx hj hw hfr hd hl hs hne

/-- **Simulation inside a pattern.**  `fxs` is a jump-free stretch of rows of the pattern at
order `ord` starting at `row`, followed by at least one more row (`rest`).  The scan state `st`
has not visited these rows; the player state `p` stands at the first frame of `(ord,row)`
before its new-row work.  If they agree on speed, tempo and exact time then
* the scan's row loop runs through `fxs` and continues with `rest`,
* the player renders frames `F` without incrementing the loop counter,
* both have the same row trace, `Σ frame_time = ` advance of the scan's clock,
* and they agree again at `(ord, row + fxs.length)`. -/
theorem C18_scan_eq_play_partial (e : PlayEnv) (ord row : Nat) (fxs rest : List Fx) (st : ScanSt) (p : PlaySt)
    (hrows : (e.m.rowsOf (e.m.patOf ord)).drop row = fxs ++ rest) (hrest : rest ≠ [])
    (hfx : ∀ fx ∈ fxs, fx.isJump = false ∧ fx.WF)
    -- scan side: rows not visited yet, tempo sane, scan_cnt allocated
    (hfresh : ∀ r, row ≤ r → cntAt st.cnt ord r = 0) (hbpm : 20 ≤ st.bpm)
    (hlen : ord < st.cnt.length) (hrl : row + fxs.length ≤ (st.cnt.getD ord []).length)
    -- the scan's end point is not inside the stretch
    (hend : ord = e.si.endOrd → ∀ r, row ≤ r → r < row + fxs.length → r ≠ e.si.endRow)
    -- player side: first frame of (ord,row)
    (ho : p.ord = ord) (hr : p.row = row) (hf : p.frame = 0) (hd : p.delay = 0) (hp : p.pbreak = false)
    (hl : p.loopCount = 0) (hs : 1 ≤ p.speed)
    -- agreement
    (hsp : p.speed = st.speed) (hbp : p.bpm = st.bpm) (ht : p.time = st.rowStart) :
    ∃ st' F p',
      scanRows ord (fxs ++ rest) row st = scanRows ord rest (row + fxs.length) st' ∧
      e.runN F.length p = some (F, p') ∧
      st'.trace.map posOf = (rowTrace F).reverse ++ st.trace.map posOf ∧
      ticks F = st'.rowStart - st.rowStart ∧
      p'.ord = ord ∧ p'.row = row + fxs.length ∧ p'.frame = 0 ∧ p'.loopCount = 0 ∧
      p'.speed = st'.speed ∧ p'.bpm = st'.bpm ∧ p'.time = st'.rowStart ∧ p'.endPoint = p.endPoint := by
  obtain ⟨st', hs1, hd1⟩ := scanRows_nojump_app ord rest fxs row st hfx hfresh hbpm hlen hrl
  obtain ⟨F, p', hrun, htr, htk, h1, h2, h3, _, _, h6, h7, h8, h9, h10⟩ :=
    runN_rows e ord fxs rest row p hrows hrest hfx hend ho hr hf hd hp hl hs
  refine ⟨st', F, p', hs1, hrun, ?_, ?_, h1, h2, h3, h6, ?_, ?_, ?_, h10⟩
  · rw [hd1.trace, htr]
  · rw [htk, hd1.rowStart, hsp, hbp]; omega
  · rw [h7, hd1.speed, hsp]
  · rw [h8, hd1.bpm, hbp]
  · rw [h9, hd1.rowStart, hsp, hbp, ht]

/-! non-trivial instance of the hypotheses: pattern `[speed 3, delay 2, tempo 150, –]` at order 0 of a
one-order module, scan and player at its first row with speed 6 / tempo 125; the stretch is the
first three rows (3 + 9 + 3 frames). -/
def exM : LinMod := { xxo := [0], pats := [[.speed 3, .delay 2, .tempo 150, .none]], rst := 0, spd := 6, bpm := 125, marker := false }
def exE : PlayEnv := { m := exM, si := { seq := 0, ep := 0, endOrd := 0, endRow := 3, num := 1 }, ctl := [], info := [] }
def exSt : ScanSt := { speed := 6, bpm := 125, cnt := [[0, 0, 0, 0]], ctl := [], info := [] }
def exP : PlaySt := { ord := 0, row := 0, frame := 0, speed := 6, bpm := 125, endPoint := 1 }

theorem exFresh : ∀ r, 0 ≤ r → cntAt exSt.cnt 0 r = 0 := by
  intro r _
  match r with
  | 0 | 1 | 2 | 3 => rfl
  | r + 4 => rfl

example := C18_scan_eq_play_partial exE 0 0 [.speed 3, .delay 2, .tempo 150] [Fx.none] exSt exP rfl (by simp)
  (by intro fx h; simp at h; rcases h with h | h | h <;> subst h <;> simp [Fx.isJump, Fx.WF])
  exFresh (by simp [exSt]) (by simp [exSt]) (by show 0 + 3 ≤ 4; omega)
  (by intro _ r _ h; simp at h; show r ≠ 3; omega)
  rfl rfl rfl rfl rfl rfl (by simp [exP]) rfl rfl (by simp [exP, exSt, ScanSt.rowStart])

/-- **The scan terminates**: the fuelled model of `scan_module`'s outer loop never runs out of
`scanFuel m = (len+1)·514 + 1` iterations — each iteration either ends the scan, skips an order
(at most 513 in a row: `orders_since_last_valid`), or scans a pattern whose first row was
unvisited, which can happen at most `len` times. -/
theorem C18_scan_terminates (m : LinMod) (ep chain : Nat) (ctl : List Nat) (info : List OrdInfo)
    (hrst : m.rst < m.len) (hep : ep < m.len) :
    (scanModule m ep chain ctl info).fuelOut = false :=
  scanModule_fuelOut m ep chain ctl info hrst hep

/-- instance: the example module (one order, restart 0, entry point 0) -/
example : (scanModule exM 0 0 [] []).fuelOut = false :=
  C18_scan_terminates exM 0 0 [] [] (by decide) (by decide)

/-- `check_end_of_module`: the loop counter increments exactly at the scan's end point once the
visit budget is used up; otherwise entering the end point costs one unit of the budget. -/
theorem C18_loop_count_partial (e : PlayEnv) (s : PlaySt) :
    ((e.checkEnd s).loopCount = s.loopCount + 1 ↔
      (s.ord = e.si.endOrd ∧ s.row = e.si.endRow ∧ s.endPoint = 0)) ∧
    (¬ (s.ord = e.si.endOrd ∧ s.row = e.si.endRow ∧ s.endPoint = 0) →
      (e.checkEnd s).loopCount = s.loopCount ∧
      (e.checkEnd s).endPoint = endAfter e s.ord s.row s.endPoint) ∧
    (s.frame ≠ 0 → (e.render s).loopCount = s.loopCount) := by
  refine ⟨?_, ?_, ?_⟩
  · simp only [PlayEnv.checkEnd]
    by_cases h1 : s.ord = e.si.endOrd ∧ s.row = e.si.endRow
    · by_cases h2 : s.endPoint = 0
      · simp [h1, h2]
      · simp [h1, h2]
    · simp only [h1, if_false]
      constructor
      · intro h; omega
      · intro h; exact absurd ⟨h.1, h.2.1⟩ h1
  · intro h
    simp only [PlayEnv.checkEnd, endAfter]
    by_cases h1 : s.ord = e.si.endOrd ∧ s.row = e.si.endRow
    · have : ¬ s.endPoint = 0 := fun h2 => h ⟨h1.1, h1.2, h2⟩
      simp [h1, this]
    · simp [h1]
  · intro h
    simp [PlayEnv.render, h]

end Xmp.LinFlow
