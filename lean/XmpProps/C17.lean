import XmpProofs.Control
/-!
# C17 — Position control lands exactly where asked

Theorems over `Xmp.Control` (model of `src/control.c` and of the part of `xmp_play_frame` in
`src/player.c` that runs before `read_row`).  `Valid m p`: order `p` exists and holds a pattern;
`Member m p q`: it belongs to sequence `q`.  The *next frame* is `playFrame m s₁` for the state
`s₁` left by the call; `frameInfo` is what `xmp_get_frame_info` reports afterwards.
-/
namespace Xmp.Control

/-- The frame rendered after the call enters order `p` of sequence `q` (prior state `s`): success,
`xmp_frame_info` reports order `p`, its pattern, row 0, tick 0, sequence `q`; when `read_row` starts,
speed/bpm/volume/time are those the scan recorded for `p`.  `LandsOn` adds: no break, jump,
pattern delay, row delay or pattern loop is pending. -/
structure Enters (m : CMod) (s : St) (fr : FrameRes) (p q : Int) : Prop where
  rc : fr.rc = 0
  pos : (frameInfo m fr.st).pos = p
  pattern : (frameInfo m fr.st).pattern = m.xxoAt p
  row : (frameInfo m fr.st).row = 0
  frame : (frameInfo m fr.st).frame = 0
  sequence : (frameInfo m fr.st).sequence = q
  numRows : (frameInfo m fr.st).numRows = m.rowsOf (m.xxoAt p)
  ord : fr.st.ord = p
  speed : fr.st.speed = (if (m.infoAt p).speed ≠ 0 then (m.infoAt p).speed else s.speed)
  bpm : fr.st.bpm = (m.infoAt p).bpm
  gvol : fr.st.gvol = (m.infoAt p).gvl
  time : fr.st.time = (m.infoAt p).time

/-- `Enters` + the flow state is clean when `read_row` starts. -/
structure LandsOn (m : CMod) (s : St) (fr : FrameRes) (p q : Int) : Prop where
  enters : Enters m s fr p q
  mid : ∃ s', fr.mid = some s' ∧ s'.f.pbreak = 0 ∧ s'.f.jump = -1 ∧ s'.f.jumpline = 0 ∧
        s'.f.delay = 0 ∧ s'.f.rowdelay = 0 ∧ s'.f.loopDest = -1 ∧ s'.f.loopStart = -1 ∧
        s'.f.loopCount = 0

/-- the frame that enters order `t` (helper for all landing theorems). -/
theorem enters_entered (m : CMod) (s0 s : St) (t q ep : Int) (hv : Valid m t) (hq : s.sequence = q)
    (hsp : s.speed = s0.speed) :
    Enters m s0 ⟨0, some (entered m s t ep), checkEnd m (entered m s t ep)⟩ t q := by
  obtain ⟨hp0, hpl, hpat, _⟩ := hv
  obtain ⟨c1, c2, c3, c4, c5, c6, c7, c8, c9, _, _⟩ := checkEnd_fields m (entered m s t ep)
  obtain ⟨e1, e2, e3, e4, e5, e6, e7, e8, e9, _, _, _⟩ := entered_fields m s t ep
  have hin : 0 ≤ t ∧ t < m.len := ⟨hp0, hpl⟩
  refine ⟨rfl, ?_, ?_, ?_, ?_, ?_, ?_, ?_, ?_, ?_, ?_, ?_⟩
  · simp [frameInfo, c2, e2, hin]
  · simp [frameInfo, c2, e2, hin]
  · simp [frameInfo, c3, e3]
  · simp [frameInfo, c4, e4]
  · simp [frameInfo, c5, e5, hq]
  · simp [frameInfo, c2, e2, hin, hpat]
  · rw [c1, e1]
  · rw [c6, e6, hsp]
  · rw [c7, e7]
  · rw [c8, e8]
  · rw [c9, e9]

theorem landsOn_entered (m : CMod) (s0 s : St) (t q ep : Int) (hv : Valid m t) (hq : s.sequence = q)
    (hsp : s.speed = s0.speed)
    (hflow : s.f.pbreak = 0 ∧ s.f.delay = 0 ∧ s.f.rowdelay = 0 ∧ s.f.loopDest = -1 ∧
             s.f.loopStart = -1 ∧ s.f.loopCount = 0) :
    LandsOn m s0 ⟨0, some (entered m s t ep), checkEnd m (entered m s t ep)⟩ t q := by
  refine ⟨enters_entered m s0 s t q ep hv hq hsp, _, rfl, ?_⟩
  obtain ⟨g1, g2, g3, g4, g5, g6, _, g8, g9⟩ := entered_flow m s t ep
  obtain ⟨f1, f2, f3, f4, f5, f6⟩ := hflow
  rw [g1, g2, g3, g4, g5, g6, g8, g9, f1, f2, f3, f4, f5, f6]
  simp

/-
Full-strength statement (NOT provable, the code violates two of its clauses):

  theorem C17_set_position (m s p q) (playing, sitting on a pattern) (hM : Member m p q) :
    ∃ s₁ fr, xmpSetPosition m s p = some (p, s₁) ∧ playFrame m s₁ = some fr ∧ LandsOn m s fr p q

* the reported value is `p` only for `p ≠ 0`: for the first order the call returns the internal
  restart marker `-1` (`C17_set_position_ret0_counterexample`; known finding, pinned by
  test-dev/test_player_loop.c);
* the landing fails when `p` is the order being played (`p = s.ord ≠ 0`): the call stores
  `p->pos = p = p->ord`, `xmp_play_frame` sees no reposition and playback continues mid-pattern
  (`C17_set_position_current_order_counterexample`).
The partial theorem below carries exactly these two exclusions.
-/

/-- **C17_set_position (partial)**.  For every prior state `s` (any pending break / jump /
pattern delay / row delay / pattern loop / reposition) of a playing context that is not sitting
on an end marker, and every order `p` of sequence `q` holding a pattern that is not the order
being played (or is order 0): `xmp_set_position` succeeds, reports `p` (`-1` for `p = 0`), and
the next frame is row 0, tick 0 of order `p` in sequence `q` with the scan's speed / bpm /
volume / time for `p` and a clean flow state. -/
theorem C17_set_position_partial (m : CMod) (s : St) (p q : Int)
    (hs : s.playing = true) (hord : ¬(m.marker = true ∧ m.xxoAt s.ord = 0xff)) (hord1 : s.ord ≠ -1)
    (hM : Member m p q) (hcur : s.ord ≠ p ∨ p = 0) :
    ∃ s1 fr, xmpSetPosition m s p = some ((if p = 0 then -1 else p), s1) ∧
      playFrame m s1 = some fr ∧ LandsOn m s fr p q := by
  obtain ⟨hv, hseq, hq0, hqff, he0, hep⟩ := hM
  have hp0 := hv.1
  have hpl := hv.2.1
  have hsp : setPosition m s p 0 = some (landed m s q p) :=
    setPosition_valid m s p 0 q hv (by simp [hseq]) hseq hqff hq0
  have hrange : ¬(p < 0 ∨ p ≥ m.len) := by omega
  refine ⟨landed m s q p, ⟨0, some (entered m (landed m s q p) p (repoEndPoint m (landed m s q p) p)),
    checkEnd m (entered m (landed m s q p) p (repoEndPoint m (landed m s q p) p))⟩, ?_, ?_, ?_⟩
  · simp [xmpSetPosition, hs, hrange, hsp, landed]
  · apply playFrame_enters m (landed m s q p) p
    · simpa [landed] using hs
    · simpa [landed] using hord
    · simp only [landed]; split <;> omega
    · simp only [landed]; split <;> omega
    · exact hv
    · by_cases h0 : p = 0
      · right; subst h0; simp only [landed, if_true, true_and]; omega
      · left; simp [landed, h0]
    · simpa [landed] using hep
  · apply landsOn_entered m s (landed m s q p) p q _ hv
    · simp [landed]
    · simp [landed]
    · simp [landed, resetFlow]

/-! ### Witness modules (also replayed on the real library by tools/checks/c17.py) -/

/-- two orders, two 64-row patterns, one sequence (harness: `H 1 2 2 0 0 0 0 6 125 / O 0 1 / R 64 64`). -/
def wTwo : CMod :=
  { len := 2, pat := 2, xxo := [0, 1], rows := [64, 64], ctl := [0, 0],
    seqs := [{ entry := 0, scanOrd := 0, scanRow := 0, scanNum := 1 }],
    info := [{ time := 0 }, { time := 7680 }] }

/-- playing order 1, row 1, tick 3 of `wTwo`. -/
def wTwoMid : St := { ord := 1, pos := 1, row := 1, frame := 3, f := { numRows := 64 } }

/-- The hypotheses of `C17_set_position_partial` are satisfiable in a non-trivial way: jump
from the middle of order 1 (with a pattern break, a jump and a pattern delay pending) to order 0. -/
example : ∃ s1 fr, xmpSetPosition wTwo { wTwoMid with f := { numRows := 64, pbreak := 1, jump := 1, delay := 3 } } 0
      = some (-1, s1) ∧ playFrame wTwo s1 = some fr ∧
      LandsOn wTwo { wTwoMid with f := { numRows := 64, pbreak := 1, jump := 1, delay := 3 } } fr 0 0 :=
  C17_set_position_partial wTwo _ 0 0 rfl (by decide) (by decide) (by decide) (by decide)

/-- **Counterexample (known finding `ret:xmp_set_position(0)=-1`)**: for the first order the
call reports `-1`, not `0`. -/
theorem C17_set_position_ret0_counterexample :
    (xmpSetPosition wTwo wTwoMid 0).map Prod.fst = some (-1) := by decide

/-- **Counterexample (known finding `land:xmp_set_position(current-order)`)**: `xmp_set_position(1)`
while order 1 is playing (row 1, tick 3) returns 1, but the next frame is row 1, tick 4 — not
row 0, tick 0: the landing clause of the property fails when `p` is the order already playing. -/
theorem C17_set_position_current_order_counterexample :
    ((xmpSetPosition wTwo wTwoMid 1).bind fun (r, s1) => (playFrame wTwo s1).map fun fr =>
      (r, fr.rc, fr.mid.isSome, (frameInfo wTwo fr.st).pos, (frameInfo wTwo fr.st).row,
       (frameInfo wTwo fr.st).frame)) = some (1, 0, false, 1, 1, 4) := by decide

/-! ### Refusal -/

/-- **C17_refuse** (positions): a target outside the order list (negative or `≥ len`) is refused
with `-XMP_ERROR_INVALID` and nothing changes. -/
theorem C17_refuse_position (m : CMod) (s : St) (p : Int) (hs : s.playing = true)
    (h : p < 0 ∨ p ≥ m.len) : xmpSetPosition m s p = some (errInvalid, s) := by
  simp [xmpSetPosition, hs, h]

/-- **C17_refuse** (rows): a row outside the current pattern (negative or `≥ rows`) is refused
with `-XMP_ERROR_INVALID` and nothing changes.  The current pattern is the one
`xmp_get_frame_info` reports (`frameInfo`). -/
theorem C17_refuse_row (m : CMod) (s : St) (r : Int) (hs : s.playing = true)
    (h : r < 0 ∨ r ≥ (frameInfo m s).numRows) : xmpSetRow m s r = (errInvalid, s) := by
  unfold frameInfo at h
  simp only at h
  have hpos : (if s.pos < 0 ∨ s.pos ≥ m.len then 0 else s.pos) = (if 0 ≤ s.pos ∧ s.pos < m.len then s.pos else 0) := by
    by_cases h1 : 0 ≤ s.pos ∧ s.pos < m.len
    · have : ¬(s.pos < 0 ∨ s.pos ≥ m.len) := by omega
      simp [h1, this]
    · have : (s.pos < 0 ∨ s.pos ≥ m.len) := by omega
      simp [h1, this]
  unfold xmpSetRow
  simp only [hpos, hs]
  by_cases hp : m.xxoAt (if 0 ≤ s.pos ∧ s.pos < m.len then s.pos else 0) < m.pat
  · simp only [hp, if_true] at h
    have : m.xxoAt (if 0 ≤ s.pos ∧ s.pos < m.len then s.pos else 0) ≥ m.pat ∨ r < 0 ∨
        r ≥ m.rowsOf (m.xxoAt (if 0 ≤ s.pos ∧ s.pos < m.len then s.pos else 0)) := by
      rcases h with h | h
      · exact Or.inr (Or.inl h)
      · exact Or.inr (Or.inr h)
    simp [this]
  · have : m.xxoAt (if 0 ≤ s.pos ∧ s.pos < m.len then s.pos else 0) ≥ m.pat := by omega
    simp [this]

example : xmpSetPosition wTwo wTwoMid 2 = some (errInvalid, wTwoMid) :=
  C17_refuse_position wTwo wTwoMid 2 rfl (by decide)
example : xmpSetRow wTwo wTwoMid 64 = (errInvalid, wTwoMid) :=
  C17_refuse_row wTwo wTwoMid 64 rfl (by decide)
example : xmpSetRow wTwo wTwoMid (-1) = (errInvalid, wTwoMid) :=
  C17_refuse_row wTwo wTwoMid (-1) rfl (by decide)

/-! ### xmp_set_row -/

/-- **C17_set_row**: for a row `r` of the current pattern (the pattern of the position that
`xmp_get_frame_info` reports, also while a reposition or a restart is pending), `xmp_set_row(r)`
returns `r` and the next frame is tick 0 of row `r` of that position — whatever pattern delay,
break or jump was pending.  Needs the C16 facts `speed ≥ 1`, `delay ≥ 0`. -/
theorem C17_set_row (m : CMod) (s : St) (r : Int) (hs : s.playing = true) (hl0 : 0 < m.len)
    (hlen : s.pos < m.len) (hpat : (frameInfo m s).pattern < m.pat)
    (hmk : m.marker = true → m.pat ≤ 0xfe)
    (hr : 0 ≤ r ∧ r < (frameInfo m s).numRows) (hspeed : 1 ≤ s.speed) (hdelay : 0 ≤ s.f.delay) :
    ∃ s1 fr, xmpSetRow m s r = (r, s1) ∧ playFrame m s1 = some fr ∧ fr.rc = 0 ∧
      (frameInfo m fr.st).pos = (frameInfo m s).pos ∧ (frameInfo m fr.st).row = r ∧
      (frameInfo m fr.st).frame = 0 ∧ (frameInfo m fr.st).sequence = s.sequence := by
  unfold frameInfo at hpat hr
  simp only at hpat hr
  -- the position the call works on
  have hc : (if s.pos < 0 ∨ s.pos ≥ m.len then 0 else s.pos) = (if s.pos < 0 then 0 else s.pos) := by
    by_cases h1 : s.pos < 0
    · simp [h1]
    · have : ¬(s.pos < 0 ∨ s.pos ≥ m.len) := by omega
      rw [if_neg this, if_neg h1]
  have hc' : (if 0 ≤ s.pos ∧ s.pos < m.len then s.pos else 0) = (if s.pos < 0 then 0 else s.pos) := by
    by_cases h1 : s.pos < 0
    · have : ¬(0 ≤ s.pos ∧ s.pos < m.len) := by omega
      rw [if_neg this, if_pos h1]
    · have : (0 ≤ s.pos ∧ s.pos < m.len) := by omega
      rw [if_pos this, if_neg h1]
  rw [hc'] at hpat hr
  simp only [hpat, if_true] at hr
  generalize hcdef : (if s.pos < 0 then 0 else s.pos) = c at *
  have hc0 : 0 ≤ c := by subst hcdef; split <;> omega
  have hcl : c < m.len := by subst hcdef; split <;> omega
  have hl : ¬ (m.len ≤ 0) := by omega
  have hnend : ¬(m.marker = true ∧ m.xxoAt c = 0xff) := by
    intro ⟨a, b⟩; have := hmk a; omega
  have hrefuse : ¬(m.xxoAt c ≥ m.pat ∨ r < 0 ∨ r ≥ m.rowsOf (m.xxoAt c)) := by omega
  have hmul : ¬ (0 ≥ s.speed * (1 + s.f.delay)) := by
    have := Int.mul_pos (show 0 < s.speed by omega) (show 0 < 1 + s.f.delay by omega)
    omega
  have hin : 0 ≤ c ∧ c < m.len := ⟨hc0, hcl⟩
  refine ⟨{ s with pos := c, ord := c, row := r, frame := -1,
                   f := { s.f with numRows := m.rowsOf (m.xxoAt c) } },
          ⟨0, none, checkEnd m { s with pos := c, ord := c, row := r, frame := 0,
                                        f := { s.f with numRows := m.rowsOf (m.xxoAt c) } }⟩, ?_, ?_, rfl, ?_⟩
  · unfold xmpSetRow
    simp only [hc, hcdef, hs, hrefuse, if_false]
    rfl
  · unfold playFrame
    simp [hs, hl, hnend, hmul]
  · obtain ⟨_, c2, c3, c4, c5, _⟩ := checkEnd_fields m
      { s with pos := c, ord := c, row := r, frame := 0,
               f := { s.f with numRows := m.rowsOf (m.xxoAt c) } }
    simp [frameInfo, hc', hcdef, c2, c3, c4, c5, hin]

example : ∃ s1 fr, xmpSetRow wTwo { wTwoMid with f := { numRows := 64, delay := 3, pbreak := 1 } } 17 = (17, s1) ∧
    playFrame wTwo s1 = some fr ∧ fr.rc = 0 ∧ (frameInfo wTwo fr.st).pos = 1 ∧ (frameInfo wTwo fr.st).row = 17 ∧
    (frameInfo wTwo fr.st).frame = 0 ∧ (frameInfo wTwo fr.st).sequence = 0 :=
  C17_set_row wTwo _ 17 rfl (by decide) (by decide) (by decide) (by decide) (by decide) (by decide) (by decide)

/-! ### xmp_next_position / xmp_prev_position -/

/-- the order `set_position(cur+1, 1)` arrives at: 0xfe skip markers, then orders without a
pattern, are passed over. -/
def nextTarget (m : CMod) (seq cur : Int) : Option Int :=
  (skipMarkers m 1 (m.entry seq) (skipFuel m) (cur + 1)).map (skipInvalid m (skipFuel m))

/-- the order `set_position(cur-1, -1)` arrives at: 0xfe skip markers are passed over, not below
the entry point. -/
def prevTarget (m : CMod) (seq cur : Int) : Option Int :=
  skipMarkers m (-1) (m.entry seq) (skipFuel m) (cur - 1)

/-- a playing context with no reposition pending, sitting on order `s.pos` of its sequence. -/
structure Steady (m : CMod) (s : St) : Prop where
  playing : s.playing = true
  nopending : s.pos = s.ord
  inlist : 0 ≤ s.pos ∧ s.pos < m.len
  noend : ¬(m.marker = true ∧ m.xxoAt s.ord = 0xff)
  seqok : s.sequence ≠ 0xff ∧ 0 ≤ s.sequence

/-- **C17_next_prev, forward inside the sequence**: with no reposition pending, when the order
reached from `cur+1` (passing over skip markers / pattern-less orders) holds a pattern and
belongs to the current sequence, `xmp_next_position` reports it and the next frame is its row
0, tick 0 (flow state cleared), still in the same sequence. -/
theorem C17_next_inside (m : CMod) (s : St) (t : Int) (hst : Steady m s)
    (hnext : s.pos + 1 < m.len) (ht : nextTarget m s.sequence s.pos = some t)
    (hM : Member m t s.sequence) :
    ∃ s1 fr, xmpNextPosition m s = some (t, s1) ∧ playFrame m s1 = some fr ∧
      LandsOn m s fr t s.sequence := by
  obtain ⟨hp, hnp, hin, hend, hq1, hq0⟩ := hst
  obtain ⟨hv, hseq, _, _, he0, hep⟩ := hM
  unfold nextTarget at ht
  obtain ⟨t1, hsk, ht1⟩ := Option.map_eq_some_iff.mp ht
  have hge1 := skipMarkers_ge m 1 _ (by omega) _ _ _ hsk
  have hge2 := skipInvalid_ge m (skipFuel m) t1
  have htgt : t > s.pos := by omega
  have hsp : setPosition m s (s.pos + 1) 1 = some (landed m s s.sequence t) :=
    setPosition_target m s (s.pos + 1) 1 s.sequence t1 t ⟨by omega, hnext⟩ (by simp) hq1 hq0 hsk
      (by simp [ht1]) hv (fun _ => hseq)
  have hlt : s.pos < m.len := by omega
  have ht0 : ¬ (t = 0) := by omega
  refine ⟨landed m s s.sequence t, ⟨0, some (entered m (landed m s s.sequence t) t
      (repoEndPoint m (landed m s s.sequence t) t)),
    checkEnd m (entered m (landed m s s.sequence t) t (repoEndPoint m (landed m s s.sequence t) t))⟩, ?_, ?_, ?_⟩
  · simp [xmpNextPosition, hp, hlt, hsp, landed, ht0]
  · apply playFrame_enters m (landed m s s.sequence t) t
    · simpa [landed] using hp
    · simpa [landed] using hend
    · simp only [landed, if_neg ht0]; omega
    · simp only [landed, if_neg ht0]; omega
    · exact hv
    · left; simp [landed, ht0]
    · simpa [landed] using hep
  · apply landsOn_entered m s (landed m s s.sequence t) t s.sequence _ hv
    · simp [landed]
    · simp [landed]
    · simp [landed, resetFlow]

/-- "exactly one order": when the very next order holds a pattern, it is the target. -/
theorem C17_next_one_order (m : CMod) (seq cur : Int) (hv : Valid m (cur + 1)) :
    nextTarget m seq cur = some (cur + 1) := by
  unfold nextTarget
  simp only [skipFuel, skipMarkers_nomark m 1 _ _ (cur + 1) (valid_nomark hv), Option.map_some,
    skipInvalid_valid m _ (cur + 1) hv.2.2.1]

/-- **C17_next_prev, fixed at the forward end**: at the last order of the list, or when the
order reached from `cur+1` is past the list, the end marker, or an order of another sequence,
`xmp_next_position` reports the current position and changes nothing. -/
theorem C17_next_stays (m : CMod) (s : St) (hst : Steady m s)
    (h : s.pos + 1 ≥ m.len ∨ ∃ t, nextTarget m s.sequence s.pos = some t ∧
          (t ≥ m.len ∨ (m.marker = true ∧ m.xxoAt t = 0xff) ∨ m.seqOf t ≠ s.sequence)) :
    xmpNextPosition m s = some (s.pos, s) := by
  obtain ⟨hp, hnp, hin, hend, hq1, hq0⟩ := hst
  have hlt : s.pos < m.len := hin.2
  by_cases hl : s.pos + 1 ≥ m.len
  · have h3 : ¬ s.sequence < 0 := by omega
    have h4 : ¬ (0 ≤ s.pos + 1 ∧ s.pos + 1 < m.len) := by omega
    have h5 : ¬ (s.pos + 1 < m.len) := by omega
    simp [xmpNextPosition, hp, hlt, setPosition, hq1, h3, h4, setPositionFin, h5]
    cases s; simp_all
  · rcases h with h | ⟨t, ht, hout⟩
    · exact absurd h hl
    · unfold nextTarget at ht
      obtain ⟨t1, hsk, ht1⟩ := Option.map_eq_some_iff.mp ht
      have := setPosition_stay m s (s.pos + 1) 1 t1 t (by decide) ⟨by omega, by omega⟩ hq1 hq0 hsk
        (by simp [ht1]) hout
      simp [xmpNextPosition, hp, hlt, this]

/-- **C17_next_prev, backward inside the sequence**. -/
theorem C17_prev_inside (m : CMod) (s : St) (t : Int) (hst : Steady m s)
    (hprev : s.pos > m.entry s.sequence) (he : 0 ≤ m.entry s.sequence)
    (ht : prevTarget m s.sequence s.pos = some t) (hM : Member m t s.sequence) :
    ∃ s1 fr, xmpPrevPosition m s = some (t, s1) ∧ playFrame m s1 = some fr ∧
      LandsOn m s fr t s.sequence := by
  obtain ⟨hp, hnp, hin, hend, hq1, hq0⟩ := hst
  obtain ⟨hv, hseq, _, _, he0, hep⟩ := hM
  unfold prevTarget at ht
  have hle := skipMarkers_le m (-1) _ (by decide) _ _ _ ht
  have hsp : setPosition m s (s.pos - 1) (-1) = some (landed m s s.sequence t) :=
    setPosition_target m s (s.pos - 1) (-1) s.sequence t t ⟨by omega, by omega⟩ (by simp) hq1 hq0 ht
      (by simp) hv (fun _ => hseq)
  have hne : ¬ (s.pos = m.entry s.sequence) := by omega
  refine ⟨landed m s s.sequence t, ⟨0, some (entered m (landed m s s.sequence t) t
      (repoEndPoint m (landed m s s.sequence t) t)),
    checkEnd m (entered m (landed m s s.sequence t) t (repoEndPoint m (landed m s s.sequence t) t))⟩, ?_, ?_, ?_⟩
  · have h0 := hv.1
    by_cases ht0 : t = 0
    · simp [xmpPrevPosition, hp, hne, hprev, hsp, landed, ht0]
    · have : ¬ (t < 0) := by omega
      simp [xmpPrevPosition, hp, hne, hprev, hsp, landed, ht0, this]
  · apply playFrame_enters m (landed m s s.sequence t) t
    · simpa [landed] using hp
    · simpa [landed] using hend
    · simp only [landed]; split <;> omega
    · simp only [landed]; split <;> omega
    · exact hv
    · by_cases h0 : t = 0
      · right; subst h0; simp only [landed, if_true, true_and]; omega
      · left; simp [landed, h0]
    · simpa [landed] using hep
  · apply landsOn_entered m s (landed m s s.sequence t) t s.sequence _ hv
    · simp [landed]
    · simp [landed]
    · simp [landed, resetFlow]

/-- **C17_next_prev, fixed at the backward end**: at the entry point of the sequence
`xmp_prev_position` restarts the entry order (reports 0 — the C returns the normalised restart
marker), the next frame is row 0, tick 0 of the entry order: playback stays on the same order. -/
theorem C17_prev_entry (m : CMod) (s : St) (hst : Steady m s)
    (hentry : s.pos = m.entry s.sequence) (hv : Valid m s.pos) :
    ∃ s1 fr, xmpPrevPosition m s = some (0, s1) ∧ playFrame m s1 = some fr ∧
      LandsOn m s fr s.pos s.sequence := by
  obtain ⟨hp, hnp, hin, hend, hq1, hq0⟩ := hst
  have h3 : ¬ s.sequence < 0 := by omega
  have hl : (-1 : Int) < m.len := by omega
  have hsp : setPosition m s (-1) (-1) = some { s with pos := -1, f := resetFlow s.f } := by
    simp [setPosition, hq1, h3, setPositionFin, hl]
  refine ⟨{ s with pos := -1, f := resetFlow s.f }, ⟨0, some (entered m { s with pos := -1, f := resetFlow s.f } s.pos
      (repoEndPoint m { s with pos := -1, f := resetFlow s.f } s.pos)),
    checkEnd m (entered m { s with pos := -1, f := resetFlow s.f } s.pos
      (repoEndPoint m { s with pos := -1, f := resetFlow s.f } s.pos))⟩, ?_, ?_, ?_⟩
  · simp [xmpPrevPosition, hp, hentry.symm, hsp]
  · apply playFrame_enters m { s with pos := -1, f := resetFlow s.f } s.pos hp hend
    · show s.ord ≠ -1; omega
    · show (-1 : Int) ≠ -2; decide
    · exact hv
    · right; exact ⟨rfl, hentry.symm⟩
    · show m.entry s.sequence ≤ s.pos; omega
  · apply landsOn_entered m s { s with pos := -1, f := resetFlow s.f } s.pos s.sequence _ hv rfl rfl
    simp [resetFlow]

/-- **C17_next_prev, never leaves the sequence backwards**: when the order reached from `cur-1`
is the end marker or an order of another sequence, `xmp_prev_position` changes nothing. -/
theorem C17_prev_stays (m : CMod) (s : St) (t : Int) (hst : Steady m s)
    (hprev : s.pos > m.entry s.sequence) (he : 0 ≤ m.entry s.sequence)
    (ht : prevTarget m s.sequence s.pos = some t)
    (hout : (m.marker = true ∧ m.xxoAt t = 0xff) ∨ m.seqOf t ≠ s.sequence) :
    xmpPrevPosition m s = some (s.pos, s) := by
  obtain ⟨hp, hnp, hin, hend, hq1, hq0⟩ := hst
  unfold prevTarget at ht
  have := setPosition_stay m s (s.pos - 1) (-1) t t (by decide) ⟨by omega, by omega⟩ hq1 hq0 ht
    (by simp) (Or.inr hout)
  have hne : ¬ (s.pos = m.entry s.sequence) := by omega
  have h0 : ¬ (s.pos < 0) := by omega
  simp [xmpPrevPosition, hp, hne, hprev, this, h0]

/-- **C17_next_prev, termination**: every `set_position` call returns — the marker-skipping
loop is a fuelled recursion whose fuel `len + 1` is proved sufficient (`skipMarkers_isSome`),
so none of the position calls can hang (entry points are order indices, hence `≥ 0`); and the
pass-over loop really ends within its fuel (`skipInvalid_exit`). -/
theorem C17_marker_skipping_terminates (m : CMod) (s : St) (he : ∀ q, 0 ≤ m.entry q) (p t : Int) :
    (xmpSetPosition m s p).isSome = true ∧ (xmpNextPosition m s).isSome = true ∧
    (xmpPrevPosition m s).isSome = true ∧ (xmpSeekTime m s t).isSome = true := by
  have key := fun pos dir => setPosition_isSome m s pos dir he
  refine ⟨?_, ?_, ?_, ?_⟩
  · unfold xmpSetPosition
    split
    · rfl
    · split
      · rfl
      · rw [Option.isSome_map]; exact key _ _
  · unfold xmpNextPosition
    split
    · rfl
    · split
      · rw [Option.isSome_map]; exact key _ _
      · rfl
  · unfold xmpPrevPosition
    split
    · rfl
    · rw [Option.isSome_map]
      split
      · exact key _ _
      · split
        · exact key _ _
        · rfl
  · unfold xmpSeekTime
    split
    · rfl
    · rw [Option.isSome_map]
      split
      · exact key _ _
      · rw [Option.isSome_map]
        unfold xmpSetPosition
        split
        · rfl
        · split
          · rfl
          · rw [Option.isSome_map]; exact key _ _

/-- marker module: orders `[0, 0xfe, 1, 0xff, 0]`, sequence 0 = orders 0..3, sequence 1 = order 4
(harness: `H 1 2 5 0 1 0 0 6 125 / O 0 254 1 255 0 / R 64 64`). -/
def wMark : CMod :=
  { len := 5, pat := 2, marker := true, numSeq := 2, xxo := [0, 0xfe, 1, 0xff, 0], rows := [64, 64],
    ctl := [0, 0, 0, 0, 1],
    seqs := [{ entry := 0, scanOrd := 0, scanRow := 0, scanNum := 1 },
             { entry := 4, scanOrd := 4, scanRow := 0, scanNum := 1 }],
    info := [{ time := 0 }, { time := -1 }, { time := 7680 }, { time := -1 }, { time := 0 }] }

def wMarkAt (o : Int) : St := { ord := o, pos := o, row := 5, frame := 2, f := { numRows := 64, delay := 2 } }

example : Steady wMark (wMarkAt 0) := ⟨rfl, rfl, by decide, by decide, by decide⟩
/-- next from order 0 passes over the skip marker at order 1 and lands on order 2 … -/
example : ∃ s1 fr, xmpNextPosition wMark (wMarkAt 0) = some (2, s1) ∧ playFrame wMark s1 = some fr ∧
    LandsOn wMark (wMarkAt 0) fr 2 0 :=
  C17_next_inside wMark (wMarkAt 0) 2 ⟨rfl, rfl, by decide, by decide, by decide⟩ (by decide) (by decide) (by decide)
/-- … from order 2 it stays put (the end marker follows) … -/
example : xmpNextPosition wMark (wMarkAt 2) = some (2, wMarkAt 2) :=
  C17_next_stays wMark (wMarkAt 2) ⟨rfl, rfl, by decide, by decide, by decide⟩ (Or.inr ⟨3, by decide, by decide⟩)
/-- … at the last order of the list it stays put … -/
example : xmpNextPosition wMark { wMarkAt 4 with sequence := 1 } = some (4, { wMarkAt 4 with sequence := 1 }) :=
  C17_next_stays wMark _ ⟨rfl, rfl, by decide, by decide, by decide⟩ (Or.inl (by decide))
/-- … prev from order 2 passes over the skip marker and lands on order 0 … -/
example : ∃ s1 fr, xmpPrevPosition wMark (wMarkAt 2) = some (0, s1) ∧ playFrame wMark s1 = some fr ∧
    LandsOn wMark (wMarkAt 2) fr 0 0 :=
  C17_prev_inside wMark (wMarkAt 2) 0 ⟨rfl, rfl, by decide, by decide, by decide⟩ (by decide) (by decide) (by decide) (by decide)
/-- … and prev at the entry point of sequence 1 re-enters order 4. -/
example : ∃ s1 fr, xmpPrevPosition wMark { wMarkAt 4 with sequence := 1 } = some (0, s1) ∧ playFrame wMark s1 = some fr ∧
    LandsOn wMark { wMarkAt 4 with sequence := 1 } fr 4 1 :=
  C17_prev_entry wMark _ ⟨rfl, rfl, by decide, by decide, by decide⟩ (by decide) (by decide)
example : nextTarget wTwo 0 0 = some 1 := C17_next_one_order wTwo 0 0 (by decide)

/-! ### xmp_seek_time -/

/-- **C17_seek_time**: `xmp_seek_time(t)` selects `i = max {j < len | xxo[j] < pat ∧
seq(j) = current ∧ time(j) ≤ t}` (`SeekCand`): it reports `i`, leaves the sequence unchanged,
and — unless `i` is the non-zero order being played — the next frame is row 0, tick 0 of `i`. -/
theorem C17_seek_time (m : CMod) (s : St) (t : Int) (i : Nat) (hs : s.playing = true)
    (hseq : s.sequence ≠ 0xff ∧ 0 ≤ s.sequence)
    (hfind : seekFind m s.sequence t m.len.toNat = some i)
    (hmk : m.marker = true → m.pat ≤ 0xfe) (hent : 0 ≤ m.entry s.sequence ∧ m.entry s.sequence ≤ i) :
    (i : Int) < m.len ∧ SeekCand m s.sequence t i ∧
    (∀ j : Nat, i < j → (j : Int) < m.len → ¬ SeekCand m s.sequence t j) ∧
    ∃ s1, xmpSeekTime m s t = some ((i : Int), s1) ∧ s1.sequence = s.sequence ∧
      s1.pos = (if (i : Int) = 0 then (-1 : Int) else (i : Int)) ∧
      (¬(m.marker = true ∧ m.xxoAt s.ord = 0xff) → s.ord ≠ -1 → (s.ord ≠ i ∨ (i : Int) = 0) →
        ∃ fr, playFrame m s1 = some fr ∧ LandsOn m s fr i s.sequence) := by
  obtain ⟨hi, hc, hmax⟩ := seekFind_some m s.sequence t _ i hfind
  have hil : (i : Int) < m.len := by omega
  have hv : Valid m i := ⟨by omega, hil, hc.1, fun a => by have := hmk a; have := hc.1; omega⟩
  have hsp : setPosition m s i 1 = some (landed m s s.sequence i) :=
    setPosition_valid m s i 1 s.sequence hv (by simp) hc.2.1 hseq.1 hseq.2
  refine ⟨hil, hc, fun j h1 h2 => hmax j h1 (by omega), landed m s s.sequence i, ?_, by simp [landed], by simp [landed], ?_⟩
  · have hpos : (landed m s s.sequence i).pos = (if (i : Int) = 0 then (-1 : Int) else (i : Int)) := by simp [landed]
    have hret : (if (landed m s s.sequence i).pos < 0 then 0 else (landed m s s.sequence i).pos) = (i : Int) := by
      rw [hpos]
      by_cases h0 : (i : Int) = 0
      · rw [if_pos h0, if_pos (by decide), h0]
      · rw [if_neg h0, if_neg (by omega)]
    unfold xmpSeekTime
    simp only [hs, hfind, hsp, Option.map_some, hret]
    simp
  · intro hend hord1 hcur
    refine ⟨⟨0, some (entered m (landed m s s.sequence i) i (repoEndPoint m (landed m s s.sequence i) i)),
      checkEnd m (entered m (landed m s s.sequence i) i (repoEndPoint m (landed m s s.sequence i) i))⟩, ?_, ?_⟩
    · apply playFrame_enters m (landed m s s.sequence i) i
      · simpa [landed] using hs
      · simpa [landed] using hend
      · simp only [landed]; split <;> omega
      · simp only [landed]; split <;> omega
      · exact hv
      · by_cases h0 : (i : Int) = 0
        · right; simp only [landed, h0, if_true, true_and]; omega
        · left; simp only [landed, if_neg h0]
      · simpa [landed] using hent.2
    · apply landsOn_entered m s (landed m s s.sequence i) i s.sequence _ hv
      · simp [landed]
      · simp [landed]
      · simp [landed, resetFlow]

/-- **C17_seek_time, fallback**: when no order of the current sequence is entered by time `t`
the call is `xmp_set_position(0)` (result normalised to `≥ 0`). -/
theorem C17_seek_time_fallback (m : CMod) (s : St) (t : Int) (hs : s.playing = true)
    (hfind : seekFind m s.sequence t m.len.toNat = none) :
    (∀ j : Nat, (j : Int) < m.len → ¬ SeekCand m s.sequence t j) ∧
    xmpSeekTime m s t = (xmpSetPosition m s 0).map fun r => ((if r.2.pos < 0 then 0 else r.2.pos), r.2) := by
  refine ⟨fun j hj => seekFind_none m s.sequence t _ hfind j (by omega), ?_⟩
  simp [xmpSeekTime, hs, hfind, Option.map_map, Function.comp_def]

/-- seeking to 8000 ms in `wMark` (order 2 starts at 7680 ms) from order 0 selects order 2 … -/
example : seekFind wMark 0 8000 wMark.len.toNat = some 2 := by decide
example : (xmpSeekTime wMark (wMarkAt 0) 8000).map Prod.fst = some 2 := by decide
/-- … and a negative time has no candidate. -/
example : seekFind wMark 0 (-5) wMark.len.toNat = none := by decide

/-! ### xmp_restart_module / xmp_stop_module -/

/-- **C17_restart_stop (restart)**: `xmp_restart_module` clears the loop counter and the flow
state of the row it abandons, and — for every pre-state, including the middle of a pattern
delay, a pending break / jump / row delay / pattern loop — the next frame is row 0, tick 0 of the
first order with a pattern from the entry point `e` of the current sequence (`t = e + k`, the `k`
orders in between hold no pattern), in the same sequence, with NO delay, break, jump or loop
pending when `read_row` starts (`LandsOn`); the loop counter is still 0 after that frame unless
the frame is the recorded end point of the sequence with a visit count of 0 (storlek_11.it). -/
theorem C17_restart (m : CMod) (s : St) (t : Int) (k : Nat) (hs : s.playing = true)
    (hend : ¬(m.marker = true ∧ m.xxoAt s.ord = 0xff)) (hord : s.ord ≠ -1)
    (he0 : 0 ≤ m.entry s.sequence) (hk : t = m.entry s.sequence + k) (hfuel : k < 600)
    (hv : Valid m t) (hsk : ∀ j, m.entry s.sequence ≤ j → j < t → Skippable m j) :
    (xmpRestart s).loopCount = 0 ∧
    ∃ fr, playFrame m (xmpRestart s) = some fr ∧ LandsOn m s fr t s.sequence ∧
      (¬(t = (m.seqAt s.sequence).scanOrd ∧ 0 = (m.seqAt s.sequence).scanRow ∧
         ((m.seqAt s.sequence).scanNum = 0 ∨ m.entry s.sequence > (m.seqAt s.sequence).scanOrd)) →
        (frameInfo m fr.st).loopCount = 0) := by
  have hr : xmpRestart s = { s with loopCount := 0, pos := -1, f := resetFlow s.f } := by simp [xmpRestart, hs]
  rw [hr]
  generalize hs0 : ({ s with loopCount := 0, pos := -1, f := resetFlow s.f } : St) = s0
  have a1 : s0.playing = true := by subst hs0; exact hs
  have a2 : s0.ord = s.ord := by subst hs0; rfl
  have a3 : s0.pos = -1 := by subst hs0; rfl
  have a4 : s0.sequence = s.sequence := by subst hs0; rfl
  have a5 : s0.loopCount = 0 := by subst hs0; rfl
  have a6 : s0.speed = s.speed := by subst hs0; rfl
  have a7 : s0.f = resetFlow s.f := by subst hs0; rfl
  refine ⟨a5, ⟨0, some (entered m s0 t (repoEndPoint m s0 (m.entry s.sequence))),
    checkEnd m (entered m s0 t (repoEndPoint m s0 (m.entry s.sequence)))⟩, ?_, ?_, ?_⟩
  · exact playFrame_enters_skip m s0 (m.entry s.sequence) t k a1 (by rw [a2]; exact hend) (by rw [a2, a3]; exact hord)
      (by rw [a3]; decide) hv he0 hk hsk (Or.inr ⟨a3, by rw [a4]⟩) (by rw [a4]; exact Int.le_refl _) hfuel
  · exact landsOn_entered m s s0 t s.sequence _ hv a4 a6 (by rw [a7]; simp [resetFlow])
  · intro hne
    obtain ⟨e1, _, e3, _, e5, _, _, _, _, e10, _, e12⟩ := entered_fields m s0 t (repoEndPoint m s0 (m.entry s.sequence))
    show (checkEnd m _).loopCount = 0
    rw [checkEnd_loopCount]
    · rw [e10]; exact a5
    · rw [e1, e3, e5, e12, a4]
      intro ⟨h1, h2, h3⟩
      apply hne
      refine ⟨h1, h2, ?_⟩
      simp only [repoEndPoint, CMod.entry, a4, a3] at h3
      by_cases hgt : (m.seqAt s.sequence).entry > (m.seqAt s.sequence).scanOrd
      · right; exact hgt
      · left; simpa [hgt] using h3

/-- **C17_restart_stop (stop)**: after `xmp_stop_module` the next frame reports the end
(`-XMP_END`) and changes nothing. -/
theorem C17_stop (m : CMod) (s : St) (hs : s.playing = true) (hord : s.ord ≠ -2) :
    playFrame m (xmpStop s) = some ⟨rcEnd, none, xmpStop s⟩ := by
  have hr : xmpStop s = { s with pos := -2 } := by simp [xmpStop, hs]
  rw [hr]
  unfold playFrame
  by_cases h1 : m.len ≤ 0
  · simp [hs, h1]
  · by_cases h2 : m.marker = true ∧ m.xxoAt s.ord = 0xff
    · simp [hs, h1, h2]
    · simp [hs, h1, h2, hord]

/-- restart from the middle of order 2 of `wMark` (sequence 0) … -/
example : ∃ fr, playFrame wMark (xmpRestart (wMarkAt 2)) = some fr ∧ LandsOn wMark (wMarkAt 2) fr 0 0 ∧
    (¬((0 : Int) = (wMark.seqAt 0).scanOrd ∧ 0 = (wMark.seqAt 0).scanRow ∧
      ((wMark.seqAt 0).scanNum = 0 ∨ wMark.entry 0 > (wMark.seqAt 0).scanOrd)) → (frameInfo wMark fr.st).loopCount = 0) :=
  (C17_restart wMark (wMarkAt 2) 0 0 rfl (by decide) (by decide) (by decide) (by decide) (by decide) (by decide)
    (by intro j h1 h2; simp [wMarkAt, wMark, CMod.entry, CMod.seqAt, getI] at h1; omega)).2
/-- … and stop. -/
example : playFrame wMark (xmpStop (wMarkAt 2)) = some ⟨rcEnd, none, xmpStop (wMarkAt 2)⟩ :=
  C17_stop wMark (wMarkAt 2) rfl (by decide)

/-! ### Histories that contain a player (re)start

`xmp_start_player` may be called again in the middle of a control-call history (after
`xmp_end_player`, or directly on the playing context) while another sub-song is selected.  It
re-establishes sequence 0, so the relative and time calls that follow act in sequence 0. -/

/-- the same place in the song: effects of the frame (`read_row`, `play_channel`) may change flow
variables, speed, tempo or volume afterwards, but not these fields. -/
def SamePlace (a b : St) : Prop :=
  a.playing = b.playing ∧ a.pos = b.pos ∧ a.ord = b.ord ∧ a.sequence = b.sequence

/-- **C17_start_player**: whatever state `s` the previous run left behind (any selected sequence
`N`, any position, any pending flow or reposition, playing or ended), after `xmp_start_player`
the next frame is row 0, tick 0 of the first order `t` holding a pattern, in sequence 0, with loop
count 0 (unless that row is the recorded end point with a wrapped visit count of 0); and every
state at that place is `Steady` in sequence 0 — the hypothesis of the next/prev theorems.
`1 ≤ speed` is the C16 fact for the scan's record of order `t`. -/
theorem C17_start_player (m : CMod) (s : St) (t : Int) (k : Nat) (hv : Valid m t) (hk : t = k)
    (hsk : ∀ j, 0 ≤ j → j < t → Skippable m j) (hfuel : k < 600) (he : m.entry 0 = 0)
    (hspeed : 1 ≤ (m.infoAt t).speed) :
    (xmpStartPlayer m s).sequence = 0 ∧ (xmpStartPlayer m s).loopCount = 0 ∧
    (xmpStartPlayer m s).playing = true ∧
    ∃ fr, playFrame m (xmpStartPlayer m s) = some fr ∧ fr.rc = 0 ∧
      (frameInfo m fr.st).pos = t ∧ (frameInfo m fr.st).pattern = m.xxoAt t ∧
      (frameInfo m fr.st).row = 0 ∧ (frameInfo m fr.st).frame = 0 ∧
      (frameInfo m fr.st).sequence = 0 ∧
      (¬(t = (m.seqAt 0).scanOrd ∧ 0 = (m.seqAt 0).scanRow ∧ (m.seqAt 0).scanNum = 0) →
        (frameInfo m fr.st).loopCount = 0) ∧
      (∀ s', SamePlace s' fr.st → Steady m s' ∧ s'.sequence = 0 ∧ s'.pos = t) := by
  rw [xmpStartPlayer_eq m s t k hv hk hsk]
  obtain ⟨hp0, hpl, hpat, hmk⟩ := hv
  have hv : Valid m t := ⟨hp0, hpl, hpat, hmk⟩
  have hne := valid_noend hv
  have hin : 0 ≤ t ∧ t < m.len := ⟨hp0, hpl⟩
  refine ⟨rfl, rfl, rfl, ?_⟩
  by_cases ht0 : t = 0
  · -- order 0 holds a pattern: no reposition, the frame counter goes from -1 to 0
    subst ht0
    have hl : ¬ (m.len ≤ 0) := by omega
    have hs0 : ¬ (m.infoAt 0).speed = 0 := by omega
    have hs1 : ¬ (m.infoAt 0).speed ≤ 0 := by omega
    have hpf : playFrame m (started m s 0) = some ⟨0, none, checkEnd m (startedAt m s 0 0)⟩ := by
      unfold playFrame
      simp [started, startedAt, resetFlow, hl, hne, hs0, hs1]
    obtain ⟨c1, c2, c3, c4, c5, _, _, _, _, c10, _⟩ := checkEnd_fields m (startedAt m s 0 0)
    have c1 : (checkEnd m (startedAt m s 0 0)).ord = 0 := c1
    have c2 : (checkEnd m (startedAt m s 0 0)).pos = 0 := c2
    have c3 : (checkEnd m (startedAt m s 0 0)).row = 0 := c3
    have c4 : (checkEnd m (startedAt m s 0 0)).frame = 0 := c4
    have c5 : (checkEnd m (startedAt m s 0 0)).sequence = 0 := c5
    have c10 : (checkEnd m (startedAt m s 0 0)).playing = true := c10
    refine ⟨_, hpf, rfl, ?_, ?_, ?_, ?_, ?_, ?_, ?_⟩
    · simp [frameInfo, c2, hin]
    · simp [frameInfo, c2, hin]
    · simp [frameInfo, c3]
    · simp [frameInfo, c4]
    · simp [frameInfo, c5]
    · intro hcond
      show (checkEnd m _).loopCount = 0
      rw [checkEnd_loopCount]
      · rfl
      · intro ⟨h1, h2, h3⟩
        exact hcond ⟨h1, h2, h3⟩
    · intro s' ⟨q1, q2, q3, q4⟩
      rw [c10] at q1; rw [c2] at q2; rw [c1] at q3; rw [c5] at q4
      refine ⟨⟨q1, by rw [q2, q3], by rw [q2]; exact hin, by rw [q3]; exact hne, by rw [q4]; decide⟩, q4, q2⟩
  · -- leading orders without a pattern: `ord = t ≠ pos = 0`, the reposition block enters `t`
    have hpf := playFrame_enters_skip m (started m s t) 0 t k rfl (by show ¬(m.marker = true ∧ m.xxoAt t = 0xff); exact hne)
      (by show t ≠ 0; exact ht0) (by show (0 : Int) ≠ -2; decide) hv (Int.le_refl 0) (by omega)
      hsk (Or.inl rfl) (by show m.entry 0 ≤ 0; omega) hfuel
    have hen := enters_entered m (started m s t) (started m s t) t 0 (repoEndPoint m (started m s t) 0) hv rfl rfl
    obtain ⟨c1, c2, _, _, c5, _, _, _, _, c10, _⟩ := checkEnd_fields m
      (entered m (started m s t) t (repoEndPoint m (started m s t) 0))
    obtain ⟨e1, e2, e3, _, e5, _, _, _, _, e10, e11, e12⟩ := entered_fields m (started m s t) t
      (repoEndPoint m (started m s t) 0)
    refine ⟨_, hpf, rfl, hen.pos, hen.pattern, hen.row, hen.frame, hen.sequence, ?_, ?_⟩
    · intro hcond
      show (checkEnd m _).loopCount = 0
      rw [checkEnd_loopCount]
      · rw [e10]; rfl
      · rw [e1, e3, e5, e12]
        intro ⟨h1, h2, h3⟩
        apply hcond
        refine ⟨h1, h2, ?_⟩
        have hs0 : (started m s t).sequence = 0 := rfl
        simp only [repoEndPoint, hs0] at h3
        have hent : (m.seqAt 0).entry = 0 := he
        have h1' : t = (m.seqAt 0).scanOrd := h1
        have hgt : ¬ ((0 : Int) > (m.seqAt 0).scanOrd) := by omega
        simpa [hgt, hent] using h3
    · intro s' ⟨q1, q2, q3, q4⟩
      rw [c10, e11] at q1; rw [c2, e2] at q2; rw [c1, e1] at q3; rw [c5, e5] at q4
      have q1' : s'.playing = true := q1
      have q4' : s'.sequence = 0 := q4
      refine ⟨⟨q1', by rw [q2, q3], by rw [q2]; exact hin, by rw [q3]; exact hne, by rw [q4']; decide⟩, q4', q2⟩

/-- **C17 after a player start, relative call**: from the place the restarted player is in,
`xmp_next_position` moves inside sequence 0 — whatever sub-song `s.sequence` was selected before
the restart. -/
theorem C17_next_after_start (m : CMod) (s : St) (t u : Int) (k : Nat) (hv : Valid m t) (hk : t = k)
    (hsk : ∀ j, 0 ≤ j → j < t → Skippable m j) (hfuel : k < 600) (he : m.entry 0 = 0)
    (hspeed : 1 ≤ (m.infoAt t).speed)
    (hnext : t + 1 < m.len) (hu : nextTarget m 0 t = some u) (hM : Member m u 0) :
    ∃ fr, playFrame m (xmpStartPlayer m s) = some fr ∧ ∀ s', SamePlace s' fr.st →
      ∃ s1 fr2, xmpNextPosition m s' = some (u, s1) ∧ playFrame m s1 = some fr2 ∧ LandsOn m s' fr2 u 0 := by
  obtain ⟨_, _, _, fr, hpf, _, _, _, _, _, _, _, hplace⟩ := C17_start_player m s t k hv hk hsk hfuel he hspeed
  refine ⟨fr, hpf, fun s' hs' => ?_⟩
  obtain ⟨hst, hq, hp⟩ := hplace s' hs'
  have := C17_next_inside m s' u hst (by rw [hp]; exact hnext) (by rw [hq, hp]; exact hu) (by rw [hq]; exact hM)
  rw [hq] at this
  exact this

/-- **C17 after a player start, time call**: `xmp_seek_time` searches sequence 0 and leaves
sequence 0 in force. -/
theorem C17_seek_after_start (m : CMod) (s : St) (t tm : Int) (k i : Nat) (hv : Valid m t) (hk : t = k)
    (hsk : ∀ j, 0 ≤ j → j < t → Skippable m j) (hfuel : k < 600) (he : m.entry 0 = 0)
    (hspeed : 1 ≤ (m.infoAt t).speed)
    (hfind : seekFind m 0 tm m.len.toNat = some i) (hmk : m.marker = true → m.pat ≤ 0xfe) :
    ∃ fr, playFrame m (xmpStartPlayer m s) = some fr ∧ ∀ s', SamePlace s' fr.st →
      SeekCand m 0 tm i ∧ ∃ s1, xmpSeekTime m s' tm = some ((i : Int), s1) ∧ s1.sequence = 0 := by
  obtain ⟨_, _, _, fr, hpf, _, _, _, _, _, _, _, hplace⟩ := C17_start_player m s t k hv hk hsk hfuel he hspeed
  refine ⟨fr, hpf, fun s' hs' => ?_⟩
  obtain ⟨hst, hq, _⟩ := hplace s' hs'
  have hi0 : (0 : Int) ≤ i := by omega
  obtain ⟨_, hc, _, s1, h1, h2, _⟩ := C17_seek_time m s' tm i hst.playing hst.seqok (by rw [hq]; exact hfind) hmk
    (by rw [hq, he]; exact ⟨Int.le_refl 0, hi0⟩)
  rw [hq] at hc h2
  exact ⟨hc, s1, h1, h2⟩

/-- two sub-songs: orders `[0, 1]`, each pattern jumps back to its own order (harness:
`H 1 2 2 0 0 0 0 6 125 / O 0 1 / R 4 4 / E 0 3 0 0 0 11 0 0 0 / E 1 3 0 0 0 11 1 0 0`). -/
def wSub : CMod :=
  { len := 2, pat := 2, numSeq := 2, xxo := [0, 1], rows := [4, 4], ctl := [0, 1],
    seqs := [{ entry := 0, scanOrd := 0, scanRow := 0, scanNum := 1 },
             { entry := 1, scanOrd := 1, scanRow := 0, scanNum := 1 }],
    info := [{ time := 0 }, { time := 0 }] }

/-- sub-song 1 selected and playing (order 1, row 2), a pattern break pending. -/
def wSubIn1 : St := { ord := 1, pos := 1, row := 2, frame := 1, sequence := 1, loopCount := 3,
                      f := { numRows := 4, pbreak := 1 } }

/-- the restarted player is back in sequence 0 … -/
example : (xmpStartPlayer wSub wSubIn1).sequence = 0 :=
  (C17_start_player wSub wSubIn1 0 0 (by decide) rfl (by intro j h1 h2; omega) (by decide) (by decide) (by decide)).1
/-- … `xmp_next_position` from order 0 then stays put (order 1 belongs to sub-song 1) … -/
example : ((playFrame wSub (xmpStartPlayer wSub wSubIn1)).bind fun fr =>
    (xmpNextPosition wSub fr.st).map fun r => (r.1, r.2.sequence, r.2.pos)) = some (0, 0, 0) := by decide
/-- … and `xmp_seek_time(0)` selects order 0 of sequence 0, not order 1 of sub-song 1. -/
example : ∃ fr, playFrame wSub (xmpStartPlayer wSub wSubIn1) = some fr ∧ ∀ s', SamePlace s' fr.st →
    SeekCand wSub 0 0 0 ∧ ∃ s1, xmpSeekTime wSub s' 0 = some (((0 : Nat) : Int), s1) ∧ s1.sequence = 0 :=
  C17_seek_after_start wSub wSubIn1 0 0 0 0 (by decide) rfl (by intro j h1 h2; omega) (by decide) (by decide)
    (by decide) (by decide) (by decide)
/-- in `wMark` the restarted player's `xmp_next_position` passes the skip marker and enters order 2 of sequence 0,
also when sub-song 1 (order 4) was playing before. -/
example : ∃ fr, playFrame wMark (xmpStartPlayer wMark { wMarkAt 4 with sequence := 1 }) = some fr ∧
    ∀ s', SamePlace s' fr.st → ∃ s1 fr2, xmpNextPosition wMark s' = some (2, s1) ∧ playFrame wMark s1 = some fr2 ∧
      LandsOn wMark s' fr2 2 0 :=
  C17_next_after_start wMark _ 0 2 0 (by decide) rfl (by intro j h1 h2; omega) (by decide) (by decide) (by decide)
    (by decide) (by decide) (by decide)

/-! ### Timing-mode changes between position calls (xmp_set_player FLAGS / CFLAGS / MODE)

`xmp_seek_time` compares with the order times the scan recorded, and those depend on the timing
mode (VBlank or CIA) of the *current module's* flags.  The scan itself is not modelled; what is
proved is when it is re-run, and that the calls do not move the player.  The harness checks on
the real library that after every such call the table equals the times at which playback in the
timing mode in force really enters the orders. -/

/-- **C17_set_cflags**: `xmp_set_player(XMP_PLAYER_CFLAGS, v)` stores `v` as the flags of the
current module and re-runs the scan exactly when the VBLANK bit of those flags changes; order,
position, row, tick and flow state are untouched; the sequence is kept unless the rescan left
fewer sequences. -/
theorem C17_set_cflags (s : St) (v n : Int) (hs : s.playing = true) :
    let r := xmpSetCflags s v n
    r.ret = 0 ∧ r.st.flags = v ∧ (r.rescan = true ↔ s.flags % 2 ≠ v % 2) ∧
    r.st.ord = s.ord ∧ r.st.pos = s.pos ∧ r.st.row = s.row ∧ r.st.frame = s.frame ∧ r.st.f = s.f ∧
    r.st.sequence = (if s.flags % 2 ≠ v % 2 ∧ s.sequence ≥ n then 0 else s.sequence) := by
  by_cases h : s.flags % 2 ≠ v % 2
  · by_cases h2 : s.sequence ≥ n <;> simp [xmpSetCflags, hs, h, clampSequence, h2]
  · simp [xmpSetCflags, hs, h]

/-- `xmp_set_player(XMP_PLAYER_FLAGS, v)` only sets the defaults of the next load: no rescan, no
change to the playing module. -/
theorem C17_set_flags (s : St) (v : Int) (hs : s.playing = true) :
    xmpSetFlags s v = ⟨0, s, false⟩ := by simp [xmpSetFlags, hs]

/-- a history `CFLAGS = VBLANK ; CFLAGS = 0` (with any `FLAGS` calls in between) on a module that
started in CIA timing re-runs the scan both times: the second call really changes the timing
mode back although the *default* flags never changed. -/
theorem C17_cflags_roundtrip_rescans (s : St) (n n' d : Int) (hs : s.playing = true)
    (h0 : s.flags % 2 = 0) :
    (xmpSetCflags s 1 n).rescan = true ∧
    (xmpSetCflags (xmpSetFlags (xmpSetCflags s 1 n).st d).st 0 n').rescan = true := by
  have h1 : ¬ (s.flags % 2 = 1) := by omega
  have hp : (xmpSetCflags s 1 n).st.playing = true := by
    by_cases h2 : s.sequence ≥ n <;> simp [xmpSetCflags, hs, h1, clampSequence, h2]
  have hf : (xmpSetCflags s 1 n).st.flags = 1 := (C17_set_cflags s 1 n hs).2.1
  refine ⟨by simp [xmpSetCflags, hs, h1], ?_⟩
  rw [C17_set_flags _ d hp]
  generalize (xmpSetCflags s 1 n).st = s1 at hp hf
  simp [xmpSetCflags, hp, hf]

/-- `xmp_set_player(XMP_PLAYER_MODE, v)`: a mode outside the XMP_MODE_* range is refused and
nothing changes; a valid mode always re-runs the scan and leaves order, position, row, tick
and flow state alone. -/
theorem C17_set_mode (s : St) (v n : Int) (ok : Bool) (hs : s.playing = true) :
    (¬(0 ≤ v ∧ v ≤ modeMax) → xmpSetMode s v n ok = ⟨errInvalid, s, false⟩) ∧
    ((0 ≤ v ∧ v ≤ modeMax) → (xmpSetMode s v n ok).rescan = true ∧
      (xmpSetMode s v n ok).st.ord = s.ord ∧ (xmpSetMode s v n ok).st.pos = s.pos ∧
      (xmpSetMode s v n ok).st.row = s.row ∧ (xmpSetMode s v n ok).st.frame = s.frame ∧
      (xmpSetMode s v n ok).st.f = s.f) := by
  refine ⟨fun h => by simp [xmpSetMode, hs, h], fun h => ?_⟩
  by_cases h2 : s.sequence ≥ n <;> simp [xmpSetMode, hs, h, clampSequence, h2]

example : (xmpSetCflags wTwoMid 1 1).rescan = true ∧ (xmpSetCflags wTwoMid 2 1).rescan = false := by decide
example : (xmpSetCflags (xmpSetFlags (xmpSetCflags wTwoMid 1 1).st 1).st 0 1).rescan = true :=
  (C17_cflags_roundtrip_rescans wTwoMid 1 1 1 rfl (by decide)).2

end Xmp.Control
