import XmpProofs.Control
namespace Xmp.Control
theorem C17_stop_sets (s : St) (h : s.playing = true) : (xmpStop s).pos = -2 := by
  simp [xmpStop, h]
end Xmp.Control
