import XmpProofs.Control
/-!
# C17 — Position control lands exactly where asked

Theorems over `Xmp.Control` (model of `src/control.c` and of the part of `xmp_play_frame` in
`src/player.c` that runs before `read_row`).  `Valid m p`: order `p` exists and holds a pattern;
`Member m p q`: it belongs to sequence `q`.  The *next frame* is `playFrame m s₁` for the state
`s₁` left by the call; `frameInfo` is what `xmp_get_frame_info` reports afterwards.
-/
namespace Xmp.Control

/-- What the property demands of the frame rendered after a successful jump to order `p` of
sequence `q` (prior state `s`): success, `xmp_frame_info` reports order `p`, its pattern, row 0,
tick 0, sequence `q`; when `read_row` starts, speed/bpm/volume/time are those the scan recorded
for `p` and no break, jump, pattern delay, row delay or pattern loop is pending. -/
structure LandsOn (m : CMod) (s : St) (fr : FrameRes) (p q : Int) : Prop where
  rc : fr.rc = 0
  pos : (frameInfo m fr.st).pos = p
  pattern : (frameInfo m fr.st).pattern = m.xxoAt p
  row : (frameInfo m fr.st).row = 0
  frame : (frameInfo m fr.st).frame = 0
  sequence : (frameInfo m fr.st).sequence = q
  numRows : (frameInfo m fr.st).numRows = m.rowsOf (m.xxoAt p)
  ord : fr.st.ord = p
  speed : fr.st.speed = (if (m.infoAt p).speed ≠ 0 then (m.infoAt p).speed else s.speed)
  bpm : fr.st.bpm = (m.infoAt p).bpm
  gvol : fr.st.gvol = (m.infoAt p).gvl
  time : fr.st.time = (m.infoAt p).time
  mid : ∃ s', fr.mid = some s' ∧ s'.f.pbreak = 0 ∧ s'.f.jump = -1 ∧ s'.f.jumpline = 0 ∧
        s'.f.delay = 0 ∧ s'.f.rowdelay = 0 ∧ s'.f.loopDest = -1 ∧ s'.f.loopStart = -1 ∧
        s'.f.loopCount = 0

/-- the frame that enters order `t` (helper for all landing theorems). -/
theorem landsOn_entered (m : CMod) (s0 s : St) (t q ep : Int) (hv : Valid m t) (hq : s.sequence = q)
    (hsp : s.speed = s0.speed)
    (hflow : s.f.pbreak = 0 ∧ s.f.delay = 0 ∧ s.f.rowdelay = 0 ∧ s.f.loopDest = -1 ∧
             s.f.loopStart = -1 ∧ s.f.loopCount = 0) :
    LandsOn m s0 ⟨0, some (entered m s t ep), checkEnd m (entered m s t ep)⟩ t q := by
  obtain ⟨hp0, hpl, hpat, _⟩ := hv
  obtain ⟨c1, c2, c3, c4, c5, c6, c7, c8, c9, _, c11⟩ := checkEnd_fields m (entered m s t ep)
  have hin : 0 ≤ t ∧ t < m.len := ⟨hp0, hpl⟩
  have e1 : (entered m s t ep).pos = t := by simp [entered]
  have e2 : (entered m s t ep).row = 0 := by simp [entered]
  have e3 : (entered m s t ep).frame = 0 := by simp [entered]
  have e4 : (entered m s t ep).sequence = s.sequence := by simp [entered]
  have e5 : (entered m s t ep).ord = t := by simp [entered]
  refine ⟨rfl, ?_, ?_, ?_, ?_, ?_, ?_, ?_, ?_, ?_, ?_, ?_, ?_⟩
  · simp [frameInfo, c2, e1, hin]
  · simp [frameInfo, c2, e1, hin]
  · simp [frameInfo, c3, e2]
  · simp [frameInfo, c4, e3]
  · simp [frameInfo, c5, e4, hq]
  · simp [frameInfo, c2, e1, hin, hpat]
  · simp [c1, e5]
  · simp [c6, entered, hsp]
  · simp [c7, entered]
  · simp [c8, entered]
  · simp [c9, entered]
  · refine ⟨_, rfl, ?_⟩
    obtain ⟨f1, f2, f3, f4, f5, f6⟩ := hflow
    by_cases hl : m.lpReset = true <;> simp [entered, hl, f1, f2, f3, f4, f5, f6]

/-
Full-strength statement (NOT provable, the code violates two of its clauses):

  theorem C17_set_position (m s p q) (playing, sitting on a pattern) (hM : Member m p q) :
    ∃ s₁ fr, xmpSetPosition m s p = some (p, s₁) ∧ playFrame m s₁ = some fr ∧ LandsOn m s fr p q

* the reported value is `p` only for `p ≠ 0`: for the first order the call returns the internal
  restart marker `-1` (`C17_set_position_ret0_counterexample`; known finding, pinned by
  test-dev/test_player_loop.c);
* the landing fails when `p` is the order being played (`p = s.ord ≠ 0`): the call stores
  `p->pos = p = p->ord`, `xmp_play_frame` sees no reposition and playback continues mid-pattern
  (`C17_set_position_current_order_counterexample`).
The partial theorem below carries exactly these two exclusions.
-/

/-- **C17_set_position (partial)**.  For every prior state `s` (any pending break / jump /
pattern delay / row delay / pattern loop / reposition) of a playing context that is not sitting
on an end marker, and every order `p` of sequence `q` holding a pattern that is not the order
being played (or is order 0): `xmp_set_position` succeeds, reports `p` (`-1` for `p = 0`), and
the next frame is row 0, tick 0 of order `p` in sequence `q` with the scan's speed / bpm /
volume / time for `p` and a clean flow state. -/
theorem C17_set_position_partial (m : CMod) (s : St) (p q : Int)
    (hs : s.playing = true) (hord : ¬(m.marker = true ∧ m.xxoAt s.ord = 0xff)) (hord1 : s.ord ≠ -1)
    (hM : Member m p q) (hcur : s.ord ≠ p ∨ p = 0) :
    ∃ s1 fr, xmpSetPosition m s p = some ((if p = 0 then -1 else p), s1) ∧
      playFrame m s1 = some fr ∧ LandsOn m s fr p q := by
  obtain ⟨hv, hseq, hq0, hqff, he0, hep⟩ := hM
  have hp0 := hv.1
  have hpl := hv.2.1
  have hsp : setPosition m s p 0 = some (landed m s q p) :=
    setPosition_valid m s p 0 q hv (by simp [hseq]) hqff hq0
  have hrange : ¬(p < 0 ∨ p ≥ m.len) := by omega
  refine ⟨landed m s q p, ⟨0, some (entered m (landed m s q p) p (repoEndPoint m (landed m s q p) p)),
    checkEnd m (entered m (landed m s q p) p (repoEndPoint m (landed m s q p) p))⟩, ?_, ?_, ?_⟩
  · simp [xmpSetPosition, hs, hrange, hsp, landed]
  · apply playFrame_enters m (landed m s q p) p
    · simpa [landed] using hs
    · simpa [landed] using hord
    · simp only [landed]; split <;> omega
    · simp only [landed]; split <;> omega
    · exact hv
    · by_cases h0 : p = 0
      · right; subst h0; simp only [landed, if_true, true_and]; omega
      · left; simp [landed, h0]
    · simpa [landed] using hep
  · apply landsOn_entered m s (landed m s q p) p q _ hv
    · simp [landed]
    · simp [landed]
    · simp [landed, resetFlow]

end Xmp.Control
