import XmpProofs.Control
/-!
# C17 — Position control lands exactly where asked

Theorems over `Xmp.Control` (model of `src/control.c` and of the part of `xmp_play_frame` in
`src/player.c` that runs before `read_row`).  `Valid m p`: order `p` exists and holds a pattern;
`Member m p q`: it belongs to sequence `q`.  The *next frame* is `playFrame m s₁` for the state
`s₁` left by the call; `frameInfo` is what `xmp_get_frame_info` reports afterwards.
-/
namespace Xmp.Control

/-- What the property demands of the frame rendered after a successful jump to order `p` of
sequence `q` (prior state `s`): success, `xmp_frame_info` reports order `p`, its pattern, row 0,
tick 0, sequence `q`; when `read_row` starts, speed/bpm/volume/time are those the scan recorded
for `p` and no break, jump, pattern delay, row delay or pattern loop is pending. -/
structure LandsOn (m : CMod) (s : St) (fr : FrameRes) (p q : Int) : Prop where
  rc : fr.rc = 0
  pos : (frameInfo m fr.st).pos = p
  pattern : (frameInfo m fr.st).pattern = m.xxoAt p
  row : (frameInfo m fr.st).row = 0
  frame : (frameInfo m fr.st).frame = 0
  sequence : (frameInfo m fr.st).sequence = q
  numRows : (frameInfo m fr.st).numRows = m.rowsOf (m.xxoAt p)
  ord : fr.st.ord = p
  speed : fr.st.speed = (if (m.infoAt p).speed ≠ 0 then (m.infoAt p).speed else s.speed)
  bpm : fr.st.bpm = (m.infoAt p).bpm
  gvol : fr.st.gvol = (m.infoAt p).gvl
  time : fr.st.time = (m.infoAt p).time
  mid : ∃ s', fr.mid = some s' ∧ s'.f.pbreak = 0 ∧ s'.f.jump = -1 ∧ s'.f.jumpline = 0 ∧
        s'.f.delay = 0 ∧ s'.f.rowdelay = 0 ∧ s'.f.loopDest = -1 ∧ s'.f.loopStart = -1 ∧
        s'.f.loopCount = 0

/-- the frame that enters order `t` (helper for all landing theorems). -/
theorem landsOn_entered (m : CMod) (s0 s : St) (t q ep : Int) (hv : Valid m t) (hq : s.sequence = q)
    (hsp : s.speed = s0.speed)
    (hflow : s.f.pbreak = 0 ∧ s.f.delay = 0 ∧ s.f.rowdelay = 0 ∧ s.f.loopDest = -1 ∧
             s.f.loopStart = -1 ∧ s.f.loopCount = 0) :
    LandsOn m s0 ⟨0, some (entered m s t ep), checkEnd m (entered m s t ep)⟩ t q := by
  obtain ⟨hp0, hpl, hpat, _⟩ := hv
  obtain ⟨c1, c2, c3, c4, c5, c6, c7, c8, c9, _, _⟩ := checkEnd_fields m (entered m s t ep)
  obtain ⟨e1, e2, e3, e4, e5, e6, e7, e8, e9, _, _, _⟩ := entered_fields m s t ep
  obtain ⟨g1, g2, g3, g4, g5, g6, _, g8, g9⟩ := entered_flow m s t ep
  obtain ⟨f1, f2, f3, f4, f5, f6⟩ := hflow
  have hin : 0 ≤ t ∧ t < m.len := ⟨hp0, hpl⟩
  refine ⟨rfl, ?_, ?_, ?_, ?_, ?_, ?_, ?_, ?_, ?_, ?_, ?_, ?_⟩
  · simp [frameInfo, c2, e2, hin]
  · simp [frameInfo, c2, e2, hin]
  · simp [frameInfo, c3, e3]
  · simp [frameInfo, c4, e4]
  · simp [frameInfo, c5, e5, hq]
  · simp [frameInfo, c2, e2, hin, hpat]
  · rw [c1, e1]
  · rw [c6, e6, hsp]
  · rw [c7, e7]
  · rw [c8, e8]
  · rw [c9, e9]
  · refine ⟨_, rfl, ?_⟩
    rw [g1, g2, g3, g4, g5, g6, g8, g9, f1, f2, f3, f4, f5, f6]
    simp

/-
Full-strength statement (NOT provable, the code violates two of its clauses):

  theorem C17_set_position (m s p q) (playing, sitting on a pattern) (hM : Member m p q) :
    ∃ s₁ fr, xmpSetPosition m s p = some (p, s₁) ∧ playFrame m s₁ = some fr ∧ LandsOn m s fr p q

* the reported value is `p` only for `p ≠ 0`: for the first order the call returns the internal
  restart marker `-1` (`C17_set_position_ret0_counterexample`; known finding, pinned by
  test-dev/test_player_loop.c);
* the landing fails when `p` is the order being played (`p = s.ord ≠ 0`): the call stores
  `p->pos = p = p->ord`, `xmp_play_frame` sees no reposition and playback continues mid-pattern
  (`C17_set_position_current_order_counterexample`).
The partial theorem below carries exactly these two exclusions.
-/

/-- **C17_set_position (partial)**.  For every prior state `s` (any pending break / jump /
pattern delay / row delay / pattern loop / reposition) of a playing context that is not sitting
on an end marker, and every order `p` of sequence `q` holding a pattern that is not the order
being played (or is order 0): `xmp_set_position` succeeds, reports `p` (`-1` for `p = 0`), and
the next frame is row 0, tick 0 of order `p` in sequence `q` with the scan's speed / bpm /
volume / time for `p` and a clean flow state. -/
theorem C17_set_position_partial (m : CMod) (s : St) (p q : Int)
    (hs : s.playing = true) (hord : ¬(m.marker = true ∧ m.xxoAt s.ord = 0xff)) (hord1 : s.ord ≠ -1)
    (hM : Member m p q) (hcur : s.ord ≠ p ∨ p = 0) :
    ∃ s1 fr, xmpSetPosition m s p = some ((if p = 0 then -1 else p), s1) ∧
      playFrame m s1 = some fr ∧ LandsOn m s fr p q := by
  obtain ⟨hv, hseq, hq0, hqff, he0, hep⟩ := hM
  have hp0 := hv.1
  have hpl := hv.2.1
  have hsp : setPosition m s p 0 = some (landed m s q p) :=
    setPosition_valid m s p 0 q hv (by simp [hseq]) hseq hqff hq0
  have hrange : ¬(p < 0 ∨ p ≥ m.len) := by omega
  refine ⟨landed m s q p, ⟨0, some (entered m (landed m s q p) p (repoEndPoint m (landed m s q p) p)),
    checkEnd m (entered m (landed m s q p) p (repoEndPoint m (landed m s q p) p))⟩, ?_, ?_, ?_⟩
  · simp [xmpSetPosition, hs, hrange, hsp, landed]
  · apply playFrame_enters m (landed m s q p) p
    · simpa [landed] using hs
    · simpa [landed] using hord
    · simp only [landed]; split <;> omega
    · simp only [landed]; split <;> omega
    · exact hv
    · by_cases h0 : p = 0
      · right; subst h0; simp only [landed, if_true, true_and]; omega
      · left; simp [landed, h0]
    · simpa [landed] using hep
  · apply landsOn_entered m s (landed m s q p) p q _ hv
    · simp [landed]
    · simp [landed]
    · simp [landed, resetFlow]

/-! ### Witness modules (also replayed on the real library by tools/checks/c17.py) -/

/-- two orders, two 64-row patterns, one sequence (harness: `H 1 2 2 0 0 0 0 6 125 / O 0 1 / R 64 64`). -/
def wTwo : CMod :=
  { len := 2, pat := 2, xxo := [0, 1], rows := [64, 64], ctl := [0, 0],
    seqs := [{ entry := 0, scanOrd := 0, scanRow := 0, scanNum := 1 }],
    info := [{ time := 0 }, { time := 7680 }] }

/-- playing order 1, row 1, tick 3 of `wTwo`. -/
def wTwoMid : St := { ord := 1, pos := 1, row := 1, frame := 3, f := { numRows := 64 } }

/-- The hypotheses of `C17_set_position_partial` are satisfiable in a non-trivial way: jump
from the middle of order 1 (with a pattern break, a jump and a pattern delay pending) to order 0. -/
example : ∃ s1 fr, xmpSetPosition wTwo { wTwoMid with f := { numRows := 64, pbreak := 1, jump := 1, delay := 3 } } 0
      = some (-1, s1) ∧ playFrame wTwo s1 = some fr ∧
      LandsOn wTwo { wTwoMid with f := { numRows := 64, pbreak := 1, jump := 1, delay := 3 } } fr 0 0 :=
  C17_set_position_partial wTwo _ 0 0 rfl (by decide) (by decide) (by decide) (by decide)

/-- **Counterexample (known finding `ret:xmp_set_position(0)=-1`)**: for the first order the
call reports `-1`, not `0`. -/
theorem C17_set_position_ret0_counterexample :
    (xmpSetPosition wTwo wTwoMid 0).map Prod.fst = some (-1) := by decide

/-- **Counterexample (known finding `land:xmp_set_position(current-order)`)**: `xmp_set_position(1)`
while order 1 is playing (row 1, tick 3) returns 1, but the next frame is row 1, tick 4 — not
row 0, tick 0: the landing clause of the property fails when `p` is the order already playing. -/
theorem C17_set_position_current_order_counterexample :
    ((xmpSetPosition wTwo wTwoMid 1).bind fun (r, s1) => (playFrame wTwo s1).map fun fr =>
      (r, fr.rc, fr.mid.isSome, (frameInfo wTwo fr.st).pos, (frameInfo wTwo fr.st).row,
       (frameInfo wTwo fr.st).frame)) = some (1, 0, false, 1, 1, 4) := by decide

/-! ### Refusal -/

/-- **C17_refuse** (positions): a target outside the order list (negative or `≥ len`) is refused
with `-XMP_ERROR_INVALID` and nothing changes. -/
theorem C17_refuse_position (m : CMod) (s : St) (p : Int) (hs : s.playing = true)
    (h : p < 0 ∨ p ≥ m.len) : xmpSetPosition m s p = some (errInvalid, s) := by
  simp [xmpSetPosition, hs, h]

/-- **C17_refuse** (rows): a row outside the current pattern (negative or `≥ rows`) is refused
with `-XMP_ERROR_INVALID` and nothing changes.  The current pattern is the one
`xmp_get_frame_info` reports (`frameInfo`). -/
theorem C17_refuse_row (m : CMod) (s : St) (r : Int) (hs : s.playing = true)
    (h : r < 0 ∨ r ≥ (frameInfo m s).numRows) : xmpSetRow m s r = (errInvalid, s) := by
  unfold frameInfo at h
  simp only at h
  have hpos : (if s.pos < 0 ∨ s.pos ≥ m.len then 0 else s.pos) = (if 0 ≤ s.pos ∧ s.pos < m.len then s.pos else 0) := by
    by_cases h1 : 0 ≤ s.pos ∧ s.pos < m.len
    · have : ¬(s.pos < 0 ∨ s.pos ≥ m.len) := by omega
      simp [h1, this]
    · have : (s.pos < 0 ∨ s.pos ≥ m.len) := by omega
      simp [h1, this]
  unfold xmpSetRow
  simp only [hpos, hs]
  by_cases hp : m.xxoAt (if 0 ≤ s.pos ∧ s.pos < m.len then s.pos else 0) < m.pat
  · simp only [hp, if_true] at h
    have : m.xxoAt (if 0 ≤ s.pos ∧ s.pos < m.len then s.pos else 0) ≥ m.pat ∨ r < 0 ∨
        r ≥ m.rowsOf (m.xxoAt (if 0 ≤ s.pos ∧ s.pos < m.len then s.pos else 0)) := by
      rcases h with h | h
      · exact Or.inr (Or.inl h)
      · exact Or.inr (Or.inr h)
    simp [this]
  · have : m.xxoAt (if 0 ≤ s.pos ∧ s.pos < m.len then s.pos else 0) ≥ m.pat := by omega
    simp [this]

example : xmpSetPosition wTwo wTwoMid 2 = some (errInvalid, wTwoMid) :=
  C17_refuse_position wTwo wTwoMid 2 rfl (by decide)
example : xmpSetRow wTwo wTwoMid 64 = (errInvalid, wTwoMid) :=
  C17_refuse_row wTwo wTwoMid 64 rfl (by decide)
example : xmpSetRow wTwo wTwoMid (-1) = (errInvalid, wTwoMid) :=
  C17_refuse_row wTwo wTwoMid (-1) rfl (by decide)

/-! ### xmp_set_row -/

/-- **C17_set_row**: for a row `r` of the current pattern (the pattern of the position that
`xmp_get_frame_info` reports, also while a reposition or a restart is pending), `xmp_set_row(r)`
returns `r` and the next frame is tick 0 of row `r` of that position — whatever pattern delay,
break or jump was pending.  Needs the C16 facts `speed ≥ 1`, `delay ≥ 0`. -/
theorem C17_set_row (m : CMod) (s : St) (r : Int) (hs : s.playing = true) (hl0 : 0 < m.len)
    (hlen : s.pos < m.len) (hpat : (frameInfo m s).pattern < m.pat)
    (hmk : m.marker = true → m.pat ≤ 0xfe)
    (hr : 0 ≤ r ∧ r < (frameInfo m s).numRows) (hspeed : 1 ≤ s.speed) (hdelay : 0 ≤ s.f.delay) :
    ∃ s1 fr, xmpSetRow m s r = (r, s1) ∧ playFrame m s1 = some fr ∧ fr.rc = 0 ∧
      (frameInfo m fr.st).pos = (frameInfo m s).pos ∧ (frameInfo m fr.st).row = r ∧
      (frameInfo m fr.st).frame = 0 ∧ (frameInfo m fr.st).sequence = s.sequence := by
  unfold frameInfo at hpat hr
  simp only at hpat hr
  -- the position the call works on
  have hc : (if s.pos < 0 ∨ s.pos ≥ m.len then 0 else s.pos) = (if s.pos < 0 then 0 else s.pos) := by
    by_cases h1 : s.pos < 0
    · simp [h1]
    · have : ¬(s.pos < 0 ∨ s.pos ≥ m.len) := by omega
      rw [if_neg this, if_neg h1]
  have hc' : (if 0 ≤ s.pos ∧ s.pos < m.len then s.pos else 0) = (if s.pos < 0 then 0 else s.pos) := by
    by_cases h1 : s.pos < 0
    · have : ¬(0 ≤ s.pos ∧ s.pos < m.len) := by omega
      rw [if_neg this, if_pos h1]
    · have : (0 ≤ s.pos ∧ s.pos < m.len) := by omega
      rw [if_pos this, if_neg h1]
  rw [hc'] at hpat hr
  simp only [hpat, if_true] at hr
  generalize hcdef : (if s.pos < 0 then 0 else s.pos) = c at *
  have hc0 : 0 ≤ c := by subst hcdef; split <;> omega
  have hcl : c < m.len := by subst hcdef; split <;> omega
  have hl : ¬ (m.len ≤ 0) := by omega
  have hnend : ¬(m.marker = true ∧ m.xxoAt c = 0xff) := by
    intro ⟨a, b⟩; have := hmk a; omega
  have hrefuse : ¬(m.xxoAt c ≥ m.pat ∨ r < 0 ∨ r ≥ m.rowsOf (m.xxoAt c)) := by omega
  have hmul : ¬ (0 ≥ s.speed * (1 + s.f.delay)) := by
    have := Int.mul_pos (show 0 < s.speed by omega) (show 0 < 1 + s.f.delay by omega)
    omega
  have hin : 0 ≤ c ∧ c < m.len := ⟨hc0, hcl⟩
  refine ⟨{ s with pos := c, ord := c, row := r, frame := -1,
                   f := { s.f with numRows := m.rowsOf (m.xxoAt c) } },
          ⟨0, none, checkEnd m { s with pos := c, ord := c, row := r, frame := 0,
                                        f := { s.f with numRows := m.rowsOf (m.xxoAt c) } }⟩, ?_, ?_, rfl, ?_⟩
  · unfold xmpSetRow
    simp only [hc, hcdef, hs, hrefuse, if_false]
    rfl
  · unfold playFrame
    simp [hs, hl, hnend, hmul]
  · obtain ⟨_, c2, c3, c4, c5, _⟩ := checkEnd_fields m
      { s with pos := c, ord := c, row := r, frame := 0,
               f := { s.f with numRows := m.rowsOf (m.xxoAt c) } }
    simp [frameInfo, hc', hcdef, c2, c3, c4, c5, hin]

example : ∃ s1 fr, xmpSetRow wTwo { wTwoMid with f := { numRows := 64, delay := 3, pbreak := 1 } } 17 = (17, s1) ∧
    playFrame wTwo s1 = some fr ∧ fr.rc = 0 ∧ (frameInfo wTwo fr.st).pos = 1 ∧ (frameInfo wTwo fr.st).row = 17 ∧
    (frameInfo wTwo fr.st).frame = 0 ∧ (frameInfo wTwo fr.st).sequence = 0 :=
  C17_set_row wTwo _ 17 rfl (by decide) (by decide) (by decide) (by decide) (by decide) (by decide) (by decide)

end Xmp.Control
