import XmpProps.C01
import XmpProps.C20
import XmpProps.C03
import XmpProps.C16
/-!
# C01 — composition of the proved pieces along the playback path

`XmpProps.C01` proves that every kernel call the mixer makes from a reachable voice
state touches only frames `[-1, len+3]` of the sample.  This file connects that
window to the neighbours it relies on:

* **C20** (`libxmp_load_sample`): the allocation is `4 + len'·framelen + 4·framelen`
  bytes and the loop points of a loaded sample satisfy `0 ≤ lps ≤ lpe ≤ len'`,
  `LOOP → lps < lpe` — so the window is inside the allocation for every frame size
  (`C01_mixer_reads_in_allocation`) and the sample assumption `SmpOk` of the voice
  theorems follows from what C20 and C03 prove (`C01_smpOk_of_loaded`,
  `C01_smpOk_of_wf`).
* **C03** (`WFCommon` after a successful load) and **C16** (sequencer invariant after
  every frame of every history): the indices `xmp_get_frame_info` and the pattern
  lookup of `read_row` use are in range (`C01_indices_after_gate`).

Exactly which index uses are covered is listed at `C01_indices_after_gate`.
-/
namespace Xmp.C01Compose
open Xmp.MixWindow Xmp.VoicePos

/-! ## Window ⊆ allocation (C20) -/

/-- A frame index in `[-1, len+3]` and a byte inside the frame give a byte offset
inside a block of `4 + len·fl + 4·fl` bytes whose PCM starts at offset 4
(`xxs->data = malloc(...) + 4`), for every frame size 1, 2, 4. -/
theorem frame_bytes_in_block (fl len j b : Int) (hfl : fl = 1 ∨ fl = 2 ∨ fl = 4)
    (hj : -1 ≤ j ∧ j ≤ len + 3) (hb : 0 ≤ b ∧ b < fl) :
    0 ≤ 4 + j * fl + b ∧ 4 + j * fl + b < 4 + len * fl + 4 * fl := by
  rcases hfl with h | h | h <;> subst h <;> omega

/-- the mixer's view of a sample header returned by `libxmp_load_sample`, with the
sustain-loop fields of `extra_sample_data` -/
def smpOfHdr (h : Sample.Hdr) (sus sue : Int) (isMod : Bool) : Smp :=
  { len := h.len, lps := h.lps, lpe := h.lpe, sus := sus, sue := sue,
    loop := Sample.sf h.flg Sample.Gen.XMP_SAMPLE_LOOP,
    lbidir := Sample.sf h.flg Sample.Gen.XMP_SAMPLE_LOOP_BIDIR,
    lfull := Sample.sf h.flg Sample.Gen.XMP_SAMPLE_LOOP_FULL,
    sloop := Sample.sf h.flg Sample.Gen.XMP_SAMPLE_SLOOP,
    sbidir := Sample.sf h.flg Sample.Gen.XMP_SAMPLE_SLOOP_BIDIR,
    isMod := isMod,
    synth := Sample.sf h.flg Sample.Gen.XMP_SAMPLE_SYNTH,
    hasData := true }

/-- **C01_smpOk_of_loaded.** The sample assumption of the voice theorems holds for
every header `libxmp_load_sample` returns (C20_loop), given the sustain-loop
postcondition that `libxmp_load_epilogue` establishes (`LoadPost.xtraOK`, C03). -/
theorem C01_smpOk_of_loaded (flags : Nat) (h : Sample.Hdr) (skip : Bool) (f : Option Xmp.Bytes)
    (buffer : Xmp.Bytes) (hbuf : Sample.BufferOk flags h buffer) (hs : ¬ Sample.Skips flags h skip f) :
    ∃ h' a c, Sample.load flags h skip f buffer = .ok h' a c ∧
      ∀ (sus sue : Int) (isMod : Bool),
        (Sample.sf h'.flg Sample.Gen.XMP_SAMPLE_SLOOP = true → 0 ≤ sus ∧ sus < sue ∧ sue ≤ h'.len) →
        SmpOk (smpOfHdr h' sus sue isMod) := by
  obtain ⟨h', a, c, hl, l1, l2, l3, l4, _⟩ := Sample.C20_loop flags h skip f buffer hbuf hs
  refine ⟨h', a, c, hl, fun sus sue isMod hsus => ⟨?_, ?_, ?_⟩⟩
  · show 0 ≤ h'.len; omega
  · intro hlp
    have := l4 hlp
    exact ⟨l1, this, l3⟩
  · intro _ hsl
    exact hsus hsl

/-- **C01_mixer_reads_in_allocation.** For every sample `libxmp_load_sample` loads
(any loader flags, header, stream) and every voice state playing it that satisfies
the voice invariant (hence, by `C01_voice_tick`, every state the segment loop
reaches), every byte of every tap of every iteration of the kernel call lies inside
the block the loader allocated (`a`, whose offset 4 is `xxs->data`), for the frame
size of the sample (1, 2 or 4 bytes). -/
theorem C01_mixer_reads_in_allocation (flags : Nat) (h : Sample.Hdr) (skip : Bool) (f : Option Xmp.Bytes)
    (buffer : Xmp.Bytes) (hbuf : Sample.BufferOk flags h buffer) (hs : ¬ Sample.Skips flags h skip f) :
    ∃ h' a c, Sample.load flags h skip f buffer = .ok h' a c ∧
      ∀ (env : Env) (v : Voice) (size n interp i : Nat), EnvOk env → Inv env v → v.smp.len = h'.len →
        samplesOf env v size = some n → i < n →
        ∀ (tap b : Int), tapLo interp ≤ tap → tap ≤ tapHi interp → 0 ≤ b → b < (Sample.frameLenOf h : Int) →
          0 ≤ 4 + (idx (q0Of env v interp) (stepfixOf env v) i + tap) * (Sample.frameLenOf h : Int) + b ∧
          4 + (idx (q0Of env v interp) (stepfixOf env v) i + tap) * (Sample.frameLenOf h : Int) + b < (a.length : Int) := by
  obtain ⟨h', a, c, hl, hlen, _, _⟩ := Sample.C20_guards flags h skip f buffer hbuf hs
  have hl2 := Sample.C20_loaded flags h skip f buffer hbuf hs
  rw [hl] at hl2
  injection hl2 with e1 _ _
  have hlen' : h'.len = (Sample.outLen flags h f : Int) := by
    rw [e1]; exact (Sample.specHdr_loop flags h (Sample.outLen flags h f)).1
  refine ⟨h', a, c, hl, ?_⟩
  intro env v size n interp i he hinv hvl hn hi tap b t1 t2 b1 b2
  obtain ⟨w1, w2⟩ := C01_voice_window env v size n interp i he hinv hn hi
  have hfl : (Sample.frameLenOf h : Int) = 1 ∨ (Sample.frameLenOf h : Int) = 2 ∨ (Sample.frameLenOf h : Int) = 4 := by
    have := Sample.frameLen_mem (Sample.is16Of h) (Sample.stereoOf h)
    have e : Sample.frameLenOf h = Sample.frameLen (Sample.is16Of h) (Sample.stereoOf h) := rfl
    omega
  have := frame_bytes_in_block (Sample.frameLenOf h : Int) v.smp.len
    (idx (q0Of env v interp) (stepfixOf env v) i + tap) b hfl ⟨by omega, by omega⟩ ⟨b1, b2⟩
  refine ⟨this.1, ?_⟩
  have ha : (a.length : Int) = 4 + v.smp.len * (Sample.frameLenOf h : Int) + 4 * (Sample.frameLenOf h : Int) := by
    rw [hlen, hvl, hlen']
    simp only [Int.natCast_add, Int.natCast_mul]
    rfl
  rw [ha]
  exact this.2

/-- **C01_wraparound_in_allocation.** The same for the frames the loop wrap-around
patching (`init_sample_wraparound` / `reset_sample_wraparound`: reads AND writes)
touches around the loop points of a looped sample. -/
theorem C01_wraparound_in_allocation (flags : Nat) (h : Sample.Hdr) (skip : Bool) (f : Option Xmp.Bytes)
    (buffer : Xmp.Bytes) (hbuf : Sample.BufferOk flags h buffer) (hs : ¬ Sample.Skips flags h skip f) :
    ∃ h' a c, Sample.load flags h skip f buffer = .ok h' a c ∧
      ∀ (env : Env) (v : Voice), Inv env v → v.smp.loop = true → v.smp.len = h'.len →
        ∀ (j b : Int), wrapLo v 1 2 ≤ j → j ≤ wrapHi v 1 2 → 0 ≤ b → b < (Sample.frameLenOf h : Int) →
          0 ≤ 4 + j * (Sample.frameLenOf h : Int) + b ∧ 4 + j * (Sample.frameLenOf h : Int) + b < (a.length : Int) := by
  obtain ⟨h', a, c, hl, hlen, _, _⟩ := Sample.C20_guards flags h skip f buffer hbuf hs
  have hl2 := Sample.C20_loaded flags h skip f buffer hbuf hs
  rw [hl] at hl2
  injection hl2 with e1 _ _
  have hlen' : h'.len = (Sample.outLen flags h f : Int) := by
    rw [e1]; exact (Sample.specHdr_loop flags h (Sample.outLen flags h f)).1
  refine ⟨h', a, c, hl, ?_⟩
  intro env v hinv hloop hvl j b j1 j2 b1 b2
  obtain ⟨w1, w2⟩ := C01_wraparound_window env v hinv hloop
  have hfl : (Sample.frameLenOf h : Int) = 1 ∨ (Sample.frameLenOf h : Int) = 2 ∨ (Sample.frameLenOf h : Int) = 4 := by
    have := Sample.frameLen_mem (Sample.is16Of h) (Sample.stereoOf h)
    have e : Sample.frameLenOf h = Sample.frameLen (Sample.is16Of h) (Sample.stereoOf h) := rfl
    omega
  have := frame_bytes_in_block (Sample.frameLenOf h : Int) v.smp.len j b hfl ⟨by omega, by omega⟩ ⟨b1, b2⟩
  refine ⟨this.1, ?_⟩
  have ha : (a.length : Int) = 4 + v.smp.len * (Sample.frameLenOf h : Int) + 4 * (Sample.frameLenOf h : Int) := by
    rw [hlen, hvl, hlen']
    simp only [Int.natCast_add, Int.natCast_mul]
    rfl
  rw [ha]
  exact this.2

/-! ## Samples of a well-formed module (C03) -/

/-- the mixer's view of sample `i` of a loaded module (`LoadPost` records); the flag
bits C03 does not interpret (`other`) are arbitrary -/
def smpOfWF (s : LoadPost.Sample) (x : LoadPost.Xtra) (lbidir lfull sbidir isMod synth : Bool) : Smp :=
  { len := s.len, lps := s.lps, lpe := s.lpe, sus := x.sus, sue := x.sue, loop := s.floop, lbidir := lbidir,
    lfull := lfull, sloop := s.fsloop, sbidir := sbidir, isMod := isMod, synth := synth, hasData := s.hasData }

/-- **C01_smpOk_of_wf.** For a module satisfying `WFCommon` — proved for EVERY
successful load by `C03_finish_wf`; it now contains the clause `sampleLoopsOK`
(a sample with data and the LOOP flag has `0 ≤ lps < lpe ≤ len`: the loop block
`libxmp_load_epilogue` gained with the fix of the DBM chunk-order defect) and
`sustainOK` — every sample that has data (and a non-negative length: data is only
allocated for `len > 0`, C20) meets `SmpOk`, i.e. every sample of every loaded
module meets the hypothesis `SmpOkD` of the voice theorems, whatever the format
loader did.  Samples without data keep raw loop points; they never reach a kernel. -/
theorem C01_smpOk_of_wf (m : LoadPost.Module) (hwf : LoadPost.WFCommon m = true)
    (i : Nat) (hi : (i : Int) < m.smp)
    (s : LoadPost.Sample) (x : LoadPost.Xtra) (hs : m.xxs[i]? = some s) (hx : m.xtra[i]? = some x)
    (hd : s.hasData = true) (hlen : 0 ≤ s.len) (lbidir lfull sbidir isMod synth : Bool) :
    SmpOk (smpOfWF s x lbidir lfull sbidir isMod synth) := by
  simp only [LoadPost.WFCommon, Bool.and_eq_true] at hwf
  have hsus : LoadPost.sustainOK m = true := by simp [hwf]
  have hlp : LoadPost.sampleLoopsOK m = true := by simp [hwf]
  have h1 := (LoadPost.allBelow_iff.1 hlp) i hi
  have h2 := (LoadPost.allBelow_iff.1 hsus) i hi
  simp only [hs, hx] at h1 h2
  simp only [LoadPost.sampleLoopOK, hd, Bool.true_and, Bool.or_eq_true, Bool.not_eq_true', Bool.and_eq_true,
    decide_eq_true_eq] at h1
  simp only [LoadPost.xtraOK, Bool.or_eq_true, Bool.and_eq_true, decide_eq_true_eq, Bool.not_eq_true'] at h2
  refine ⟨hlen, ?_, ?_⟩
  · intro hl
    have hl' : s.floop = true := hl
    rcases h1 with a | ⟨⟨a1, a2⟩, a3⟩
    · rw [hl'] at a; cases a
    · exact ⟨a1, a2, a3⟩
  · intro _ hsl
    have hsl' : s.fsloop = true := hsl
    rcases h2 with ⟨⟨⟨_, _⟩, h3⟩, _⟩ | ⟨⟨b1, b2⟩, b3⟩
    · rw [hsl'] at h3; cases h3
    · exact ⟨b1, b2, b3⟩

/-! ## Indices used by `xmp_get_frame_info` and by the pattern lookup of `read_row` (C03 + C16) -/

/-- the sequencer model reads the same counts as the loaded module -/
structure Agree (m : LoadPost.Module) (sm : Seq.SeqMod) : Prop where
  len : sm.len = m.len
  pat : sm.pat = m.pat
  numSeq : sm.numSeq = (m.numSeq : Int)

/-- "pattern `p` exists, has `chn` track slots, each slot names an existing track":
what `mod->xxp[p]->index[c]` and `mod->xxt[index[c]]` need for every `c < chn` -/
def PatternUsable (m : LoadPost.Module) (p : Int) : Prop :=
  0 ≤ p ∧ p < m.pat ∧ ∃ q, m.pattern? p.toNat = some q ∧
    ∀ c : Nat, (c : Int) < m.chn → ∃ t, q.index[c]? = some t ∧ 0 ≤ t ∧ t < m.trk ∧ (m.track? t.toNat).isSome = true

theorem patternUsable_of_wf (m : LoadPost.Module) (hwf : LoadPost.WFCommon m = true) (p : Int)
    (h0 : 0 ≤ p) (h1 : p < m.pat) : PatternUsable m p := by
  simp only [LoadPost.WFCommon, Bool.and_eq_true] at hwf
  have hpat : LoadPost.patternsOK m = true := by simp [hwf]
  have := (LoadPost.allBelow_iff.1 hpat) p.toNat (by omega)
  unfold LoadPost.Module.patOK at this
  refine ⟨h0, h1, ?_⟩
  split at this
  · cases this
  · rename_i q hq
    refine ⟨q, hq, fun c hc => ?_⟩
    have hc' := (LoadPost.allBelow_iff.1 this) c hc
    split at hc'
    · cases hc'
    · rename_i t ht
      simp only [LoadPost.Module.trackOK, Bool.and_eq_true, decide_eq_true_eq] at hc'
      exact ⟨t, ht, hc'.1.1, hc'.1.2, hc'.2⟩

/-- **C01_indices_after_gate.**  Module `m` loaded successfully (`WFCommon`, C03),
sequencer data `sm` well formed (`Seq.WF`, monitored by C16) and reading the same
counts; any history of frames and position-control calls with any arguments, started
from a state satisfying the C16 boundary invariant (`C16_inv_start`).  After every
successful frame:

index uses of `xmp_get_frame_info` covered
* `mod->xxo[info->pos]`                      : `0 ≤ pos < len ≤ 256` (the array has 256 entries)
* `mod->xxp[info->pattern]` (`->rows`, `->index[i]`, `i < chn`) : the pattern exists with `chn`
  slots — here even unconditionally, the code's own test `pattern < mod->pat` always succeeds
* `mod->xxt[trk]` for those slots             : the track exists (`trk < mod->trk`, non-NULL)
* `track->event[info->row]`                   : guarded by the code (`row < track->rows`), `0 ≤ row` here
* `p->scan[p->sequence]`                      : `0 ≤ sequence < num_sequences = |seq_data|`

index uses of `read_row(ctx, mod->xxo[p->ord], p->row)` covered (for the `(ord, row)` the frame
that just returned read its row from)
* `mod->xxo[p->ord]`                          : `0 ≤ ord < len ≤ 256`
* `TRACK_NUM(pat, chn) = mod->xxp[pat]->index[chn]`, `mod->xxt[…]` : pattern and tracks exist
* `EVENT(pat, chn, row)`                      : guarded by the code (`row < num_rows` of the track), `0 ≤ row`

NOT covered here: instrument / sample / note indices taken from the events themselves
(`IS_VALID_INSTRUMENT`, `IS_VALID_SAMPLE`, key maps: read_event.c), `xc_data[chn]`, voice tables
(C16_virt), and the states *inside* a frame between the kernel and the effect stages. -/
theorem C01_indices_after_gate (m : LoadPost.Module) (sm : Seq.SeqMod) (hwf : LoadPost.WFCommon m = true)
    (hsm : Seq.WF sm) (hag : Agree m sm) (hist : List Seq.Call) (s : Seq.St) (hc : Seq.Core sm s)
    (hr : Seq.RowInv sm s) (he : Seq.EffsOk hist) :
    ∀ s' ∈ Seq.frames sm s hist,
      -- xmp_get_frame_info
      (0 ≤ (Seq.frameInfo sm s').pos ∧ (Seq.frameInfo sm s').pos < m.len ∧ m.len ≤ 256) ∧
      PatternUsable m (Seq.frameInfo sm s').pattern ∧
      0 ≤ (Seq.frameInfo sm s').row ∧
      (0 ≤ s'.sequence ∧ s'.sequence < (m.numSeq : Int) ∧ m.seqData.length = m.numSeq) ∧
      -- read_row
      (0 ≤ s'.ord ∧ s'.ord < m.len) ∧ PatternUsable m (sm.xo s'.ord) ∧ 0 ≤ s'.row := by
  intro s' hs'
  obtain ⟨hp, hrow, _⟩ := Seq.C16_reachable hsm hist s hc hr he s' hs'
  obtain ⟨hinfo, _, _⟩ := Seq.C16_frame_info hsm hp
  have w := hsm.facts
  have c := hp.core
  have hcounts : 0 ≤ m.len ∧ m.len ≤ 256 ∧ (m.len ≤ 0 ∨ m.seqData.length = m.numSeq) := by
    have hwf' := hwf
    simp only [LoadPost.WFCommon, Bool.and_eq_true] at hwf'
    have hcnt : LoadPost.countsOK m = true := by simp [hwf']
    have hseq : LoadPost.sequencesOK m = true := by simp [hwf']
    simp only [LoadPost.countsOK, Bool.and_eq_true, decide_eq_true_eq] at hcnt
    simp only [LoadPost.sequencesOK, Bool.or_eq_true, Bool.and_eq_true, decide_eq_true_eq] at hseq
    have hmax : (Xmp.Gen.Limits.xmpMaxModLength : Int) = 256 := by decide
    refine ⟨hcnt.1.1.1.1.1.1.1.2, by have := hcnt.1.1.1.1.1.1.2; omega, ?_⟩
    rcases hseq with h | h
    · exact Or.inl h
    · exact Or.inr h.1.1.2
  have hlenpos : 0 < m.len := by rw [← hag.len]; exact w.len.1
  have hxo := w.xo s'.ord c.ord.1 (by have := w.len; have := c.ord; omega)
  refine ⟨⟨hinfo.pos.1, by rw [← hag.len]; exact hinfo.pos.2, hcounts.2.1⟩, ?_, hinfo.row, ⟨c.seq.1, ?_, ?_⟩,
    ⟨c.ord.1, by rw [← hag.len]; exact c.ord.2⟩, ?_, c.row⟩
  · exact patternUsable_of_wf m hwf _ hinfo.pattern.2.1 (by rw [← hag.pat]; exact hinfo.pattern.2.2)
  · rw [← hag.numSeq]; exact c.seq.2
  · rcases hcounts.2.2 with h | h
    · omega
    · exact h
  · exact patternUsable_of_wf m hwf _ hxo.1 (by rw [← hag.pat]; exact c.ordPat)

/-! ## Non-vacuity -/

-- a 16-bit stereo sample (frame size 4): frame −1 is exactly the 4 guard bytes before the PCM
example : 0 ≤ 4 + (-1 : Int) * 4 + 0 ∧ 4 + (100 + 3 : Int) * 4 + 3 < 4 + 100 * 4 + 4 * 4 :=
  ⟨(frame_bytes_in_block 4 100 (-1) 0 (by omega) (by omega) (by omega)).1,
   (frame_bytes_in_block 4 100 103 3 (by omega) (by omega) (by omega)).2⟩

-- a loaded, looped sample (the non-vacuity instance of C20) meets the hypotheses of C01_smpOk_of_loaded
example : ¬ Sample.Skips 0x43 ⟨2, 0, 2, 3#32⟩ false (some [1, 2, 3, 4]) ∧ Sample.BufferOk 0x43 ⟨2, 0, 2, 3#32⟩ [] := by
  decide

end Xmp.C01Compose
