import XmpProofs.Sample
/-! # C20 — Sample decoding applies exactly the declared conversions -/
namespace Xmp.Sample
open Gen

/-- the order of the conversion calls in the C source is the order the model applies them in -/
theorem C20_stage_order : Gen.stageOrder = modelStageOrder := by decide

end Xmp.Sample
